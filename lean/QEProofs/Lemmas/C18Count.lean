/-
  Lemmas for C18, part 11: the exact number of positive entries of a `_probvec` row.
-/
import Mathlib.Data.Finset.Card
import Mathlib.Data.Finset.Filter
import Mathlib.Data.List.Perm.Basic
import QEProofs.Lemmas.C18Probvec
namespace QE.C18
set_option linter.unusedSectionVars false
open Finset

variable {K : Type} [Field K] [LinearOrder K] [IsStrictOrderedRing K]

theorem filter_gt_eq_erase (T : Finset K) (y : K) (h : ∀ v ∈ T, y ≤ v) :
    T.filter (fun v => y < v) = T.erase y := by
  ext v
  simp only [mem_filter, mem_erase]
  constructor
  · rintro ⟨hv, hlt⟩; exact ⟨ne_of_gt hlt, hv⟩
  · rintro ⟨hne, hv⟩; exact ⟨hv, lt_of_le_of_ne (h v hv) (Ne.symm hne)⟩

theorem card_insert_erase (T : Finset K) (y : K) : (insert y T).card = (T.erase y).card + 1 := by
  have : insert y T = insert y (T.erase y) := by
    ext v; simp only [mem_insert, mem_erase]; tauto
  rw [this, card_insert_of_notMem (notMem_erase y T)]

/-- positive spacings after `p` = values of `xs ∪ {1}` above `p` -/
theorem spacings_countPos : ∀ (xs : List K) (p : K), List.Pairwise (· ≤ ·) (p :: xs) →
    (∀ x ∈ p :: xs, x ≤ 1) →
    (spacings p xs).countP (fun y => decide (0 < y))
      = ((insert 1 xs.toFinset).filter (fun v => p < v)).card
  | [], p, _, h1 => by
    simp only [spacings, List.countP_cons, List.countP_nil, List.toFinset_nil, insert_empty_eq]
    by_cases hp : p < 1
    · have : (0 : K) < 1 - p := by linarith
      simp [this, filter_singleton, hp]
    · have : ¬ (0 : K) < 1 - p := by linarith
      simp [this, filter_singleton, hp]
  | y :: ys, p, hs, h1 => by
    have hs' := (List.pairwise_cons.1 hs).2
    have hpy : p ≤ y := (List.pairwise_cons.1 hs).1 y (by simp)
    have hyv : ∀ v ∈ insert 1 ys.toFinset, y ≤ v := by
      intro v hv
      rcases mem_insert.1 hv with rfl | hv'
      · exact h1 y (by simp)
      · exact (List.pairwise_cons.1 hs').1 v (List.mem_toFinset.1 hv')
    have ih := spacings_countPos ys y hs' (fun z hz => h1 z (List.mem_cons_of_mem _ hz))
    simp only [spacings, List.countP_cons, List.toFinset_cons]
    rw [ih, filter_gt_eq_erase _ y hyv]
    rcases lt_or_eq_of_le hpy with hlt | heq
    · have hall : (insert 1 (insert y ys.toFinset)).filter (fun v => p < v) = insert y (insert 1 ys.toFinset) := by
        ext v
        simp only [mem_filter, mem_insert]
        constructor
        · rintro ⟨hv, _⟩; tauto
        · intro hv
          refine ⟨by tauto, ?_⟩
          rcases hv with rfl | hv
          · exact hlt
          · exact lt_of_lt_of_le hlt (hyv v (mem_insert.2 hv))
      have : (0 : K) < y - p := by linarith
      rw [hall, card_insert_erase]
      simp [this]
    · subst heq
      have hsame : (insert 1 (insert p ys.toFinset)).filter (fun v => p < v) = (insert 1 ys.toFinset).erase p := by
        rw [← filter_gt_eq_erase _ p hyv]
        ext v
        simp only [mem_filter, mem_insert]
        constructor
        · rintro ⟨hv, hlt⟩
          refine ⟨?_, hlt⟩
          rcases hv with h | h | h
          · exact Or.inl h
          · exact absurd hlt (by rw [h]; exact lt_irrefl _)
          · exact Or.inr h
        · rintro ⟨hv, hlt⟩; exact ⟨by tauto, hlt⟩
      rw [hsame]
      simp

end QE.C18
