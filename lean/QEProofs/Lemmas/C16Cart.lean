/-
  Lemmas for C16, part: `cartesian` (C / F order) and `_cartesian_index` (mixed radix).
-/
import Mathlib.Algebra.BigOperators.Group.List.Basic
import Mathlib.Tactic.Ring
import Mathlib.Tactic.Linarith
import QEModel.C16
import QEProofs.Lemmas.C16Repeat
namespace QE.C16

/-! ### products of shapes -/

theorem foldl_mul_eq_prod (s : List Nat) : s.foldl (· * ·) 1 = s.prod :=
  (List.prod_eq_foldl (xs := s)).symm

/-- `shapes = take d ++ [shapes[d]] ++ drop (d+1)` at the level of products -/
theorem prod_split (s : List Nat) (d : Nat) (hd : d < s.length) :
    s.prod = (s.take d).prod * s.getD d 0 * (s.drop (d + 1)).prod := by
  rw [← List.prod_take_mul_prod_drop s d, List.drop_eq_getElem_cons hd, List.prod_cons,
    List.getD_eq_getElem?_getD, List.getElem?_eq_getElem hd]
  simp [Nat.mul_assoc]

/-- the digit of row number `r` in dimension `d` when the LAST index varies fastest (order C) -/
def digitC (shapes : List Nat) (d r : Nat) : Nat :=
  (r / (shapes.drop (d + 1)).prod) % shapes.getD d 0

/-- the digit of row number `r` in dimension `d` when the FIRST index varies fastest (order F) -/
def digitF (shapes : List Nat) (d r : Nat) : Nat :=
  (r / (shapes.take d).prod) % shapes.getD d 0

def digitsC (shapes : List Nat) (r : Nat) : List Nat :=
  (List.range shapes.length).map fun d => digitC shapes d r

def digitsF (shapes : List Nat) (r : Nat) : List Nat :=
  (List.range shapes.length).map fun d => digitF shapes d r

/-! ### `cartesian` -/

theorem cumprodShift_getD (s : List Nat) (i : Nat) (hi : i < s.length) :
    (cumprodShift s).getD i 1 = (s.take i).prod := by
  unfold cumprodShift
  rw [List.getD_eq_getElem?_getD, List.getElem?_map, List.getElem?_range hi]
  simp [foldl_mul_eq_prod]

theorem cumprodShift_length (s : List Nat) : (cumprodShift s).length = s.length := by
  simp [cumprodShift]

theorem cumprodShift_rev_getD (s : List Nat) (i : Nat) (hi : i < s.length) :
    ((cumprodShift s.reverse).reverse).getD i 1 = (s.drop (i + 1)).prod := by
  have hl : (cumprodShift s.reverse).length = s.length := by
    rw [cumprodShift_length, List.length_reverse]
  rw [List.getD_eq_getElem?_getD, List.getElem?_reverse (by omega), hl,
    ← List.getD_eq_getElem?_getD, cumprodShift_getD _ _ (by rw [List.length_reverse]; omega),
    List.take_reverse, List.prod_reverse]
  congr 2; omega

section
variable {α : Type} [Zero α]

theorem cartesian_length (nodes : List (List α)) (o : Bool) :
    (cartesian nodes o).length = (nodes.map List.length).prod := by
  simp [cartesian, foldl_mul_eq_prod]

theorem cartesian_row_length (nodes : List (List α)) (o : Bool) (r : Nat)
    (hr : r < (nodes.map List.length).prod) :
    ((cartesian nodes o).getD r []).length = nodes.length := by
  unfold cartesian
  simp only [foldl_mul_eq_prod]
  rw [List.getD_eq_getElem?_getD, List.getElem?_map, List.getElem?_range hr]
  simp

/-- entry `(r, d)` of `cartesian` is entry `r` of the column produced by `_repeat_1d` -/
theorem cartesian_entry (nodes : List (List α)) (o : Bool) (r d : Nat)
    (hr : r < (nodes.map List.length).prod) (hd : d < nodes.length) :
    ((cartesian nodes o).getD r []).getD d 0 =
      (repeat1d (nodes.getD d [])
        ((if o then (cumprodShift (nodes.map List.length).reverse).reverse
          else cumprodShift (nodes.map List.length)).getD d 1)
        (nodes.map List.length).prod).getD r 0 := by
  unfold cartesian
  simp only [foldl_mul_eq_prod]
  simp only [List.getD_eq_getElem?_getD, List.getElem?_map, List.getElem?_range hr,
    List.getElem?_range hd, Option.map_some, Option.getD_some]

/-- **`cartesian`, order C.** Row `r`, column `d` of the product grid is
    `nodes[d][digit]` with `digit = (r / ∏_{e>d} shape e) % shape d` — the last dimension
    varies fastest. -/
theorem cartesian_C (nodes : List (List α)) (r d : Nat)
    (hr : r < (nodes.map List.length).prod) (hd : d < nodes.length) :
    ((cartesian nodes false).getD r []).getD d 0 =
      (nodes.getD d []).getD (digitC (nodes.map List.length) d r) 0 := by
  rw [cartesian_entry nodes false r d hr hd]
  set s := nodes.map List.length with hs
  have hds : d < s.length := by simp [hs, hd]
  have hN : s.getD d 0 = (nodes.getD d []).length := by
    simp [hs, List.getD_eq_getElem?_getD, List.getElem?_map, List.getElem?_eq_getElem hd]
  have hsplit := prod_split s d hds
  have hpos : 0 < s.prod := by omega
  simp only [Bool.false_eq_true, if_false]
  rw [cumprodShift_getD s d hds]
  rw [hN] at hsplit
  have hKN : 0 < (s.take d).prod * (nodes.getD d []).length := by
    rcases Nat.eq_zero_or_pos ((s.take d).prod * (nodes.getD d []).length) with h | h
    · rw [h] at hsplit; omega
    · exact h
  have hL : s.prod / ((s.take d).prod * (nodes.getD d []).length) = (s.drop (d + 1)).prod := by
    rw [hsplit]; exact Nat.mul_div_cancel_left _ hKN
  rw [repeat1d_getD _ _ _ r (by rw [hL, ← hsplit]) (by rw [hL, ← hsplit]; exact hr), hL]
  unfold digitC; rw [hN]

/-- **`cartesian`, order F.** Row `r`, column `d` of the product grid is
    `nodes[d][digit]` with `digit = (r / ∏_{e<d} shape e) % shape d` — the first dimension
    varies fastest. -/
theorem cartesian_F (nodes : List (List α)) (r d : Nat)
    (hr : r < (nodes.map List.length).prod) (hd : d < nodes.length) :
    ((cartesian nodes true).getD r []).getD d 0 =
      (nodes.getD d []).getD (digitF (nodes.map List.length) d r) 0 := by
  rw [cartesian_entry nodes true r d hr hd]
  set s := nodes.map List.length with hs
  have hds : d < s.length := by simp [hs, hd]
  have hN : s.getD d 0 = (nodes.getD d []).length := by
    simp [hs, List.getD_eq_getElem?_getD, List.getElem?_map, List.getElem?_eq_getElem hd]
  have hsplit := prod_split s d hds
  have hpos : 0 < s.prod := by omega
  simp only [if_true]
  rw [cumprodShift_rev_getD s d hds]
  rw [hN] at hsplit
  have hsplit' : s.prod = (s.drop (d + 1)).prod * (nodes.getD d []).length * (s.take d).prod := by
    rw [hsplit]; ring
  have hKN : 0 < (s.drop (d + 1)).prod * (nodes.getD d []).length := by
    rcases Nat.eq_zero_or_pos ((s.drop (d + 1)).prod * (nodes.getD d []).length) with h | h
    · rw [h] at hsplit'; omega
    · exact h
  have hL : s.prod / ((s.drop (d + 1)).prod * (nodes.getD d []).length) = (s.take d).prod := by
    rw [hsplit']; exact Nat.mul_div_cancel_left _ hKN
  rw [repeat1d_getD _ _ _ r (by rw [hL, ← hsplit']) (by rw [hL, ← hsplit']; exact hr), hL]
  unfold digitF; rw [hN]

end

/-! ### `_cartesian_index` -/

/-- mixed-radix value `Σ_p inds[p] · ∏_{q>p} nums[q]` by structural recursion -/
def ciVal : List Nat → List Nat → Nat
  | [], _ => 0
  | _ :: _, [] => 0
  | i :: is, _ :: ms => i * ms.prod + ciVal is ms

/-- the loop of `_cartesian_index` after `k` of its `n` iterations -/
theorem cartesianIndex_loop (inds nums : List Nat) (hlen : inds.length = nums.length) :
    ∀ k, k ≤ inds.length →
    (List.range k).foldl (fun (acc : Nat × Nat) i =>
        let p := inds.length - 1 - i
        (acc.1 + acc.2 * inds.getD p 0, acc.2 * nums.getD p 0)) (0, 1)
      = (ciVal (inds.drop (inds.length - k)) (nums.drop (inds.length - k)),
          (nums.drop (inds.length - k)).prod) := by
  intro k
  induction k with
  | zero =>
    intro _
    simp only [List.range_zero, List.foldl_nil, Nat.sub_zero, List.drop_length]
    rw [hlen, List.drop_length]; simp [ciVal]
  | succ k ih =>
    intro hk
    rw [List.range_succ, List.foldl_append, ih (by omega)]
    simp only [List.foldl_cons, List.foldl_nil]
    have hp : inds.length - (k + 1) < inds.length := by omega
    have hp' : inds.length - (k + 1) < nums.length := by omega
    have e1 : inds.length - 1 - k = inds.length - (k + 1) := by omega
    have e2 : inds.length - k = inds.length - (k + 1) + 1 := by omega
    rw [e1, e2, List.drop_eq_getElem_cons hp, List.drop_eq_getElem_cons hp']
    simp only [ciVal, List.prod_cons]
    rw [List.getD_eq_getElem?_getD, List.getElem?_eq_getElem hp,
      List.getD_eq_getElem?_getD, List.getElem?_eq_getElem hp']
    simp only [Option.getD_some]
    refine Prod.ext ?_ ?_
    · simp only; ring
    · simp only; ring

/-- `_cartesian_index(indices, nums_grids) = Σ_p indices[p] · ∏_{q>p} nums_grids[q]` -/
theorem cartesianIndex_eq_ciVal (inds nums : List Nat) (hlen : inds.length = nums.length) :
    cartesianIndex inds nums = ciVal inds nums := by
  unfold cartesianIndex
  have := cartesianIndex_loop inds nums hlen inds.length (Nat.le_refl _)
  simp only at this ⊢
  rw [this]; simp

/-! ### digits ↔ index -/

theorem digitsC_length (s : List Nat) (r : Nat) : (digitsC s r).length = s.length := by
  simp [digitsC]

theorem digitsC_cons (m : Nat) (ms : List Nat) (r : Nat) :
    digitsC (m :: ms) r = ((r / ms.prod) % m) :: digitsC ms r := by
  unfold digitsC
  rw [List.length_cons, List.range_succ_eq_map, List.map_cons, List.map_map]
  congr 1

/-- the index of the digits of `r` is `r` (mod the grid size) -/
theorem ciVal_digitsC (s : List Nat) (r : Nat) : ciVal (digitsC s r) s = r % s.prod := by
  induction s with
  | nil => simp [digitsC, ciVal, Nat.mod_one]
  | cons m ms ih =>
    rw [digitsC_cons, ciVal, ih, List.prod_cons, Nat.mul_comm m, Nat.mod_mul]
    ring

theorem digitC_shift (s : List Nat) (d a b : Nat) (hd : d < s.length) :
    digitC s d (a * s.prod + b) = digitC s d b := by
  unfold digitC
  rcases Nat.eq_zero_or_pos (s.drop (d + 1)).prod with hQ | hQ
  · rw [hQ]; simp
  · rw [prod_split s d hd]
    have e : a * ((s.take d).prod * s.getD d 0 * (s.drop (d + 1)).prod) + b
        = b + (s.getD d 0 * (a * (s.take d).prod)) * (s.drop (d + 1)).prod := by ring
    rw [e, Nat.add_mul_div_right _ _ hQ, Nat.add_mul_mod_self_left]

/-- valid index tuples: one index below each shape -/
def ValidIdx : List Nat → List Nat → Prop
  | [], [] => True
  | i :: is, m :: ms => i < m ∧ ValidIdx is ms
  | _, _ => False

theorem validIdx_length : ∀ (inds s : List Nat), ValidIdx inds s → inds.length = s.length
  | [], [], _ => rfl
  | _ :: is, _ :: ms, h => by simp [validIdx_length is ms h.2]
  | [], _ :: _, h => h.elim
  | _ :: _, [], h => h.elim

theorem ciVal_lt : ∀ (inds s : List Nat), ValidIdx inds s → ciVal inds s < s.prod
  | [], [], _ => by simp [ciVal]
  | i :: is, m :: ms, h => by
    have h1 := ciVal_lt is ms h.2
    have h2 : i < m := h.1
    rw [ciVal, List.prod_cons]
    calc i * ms.prod + ciVal is ms < i * ms.prod + ms.prod := by omega
      _ = (i + 1) * ms.prod := by ring
      _ ≤ m * ms.prod := Nat.mul_le_mul_right _ h2
  | [], _ :: _, h => h.elim
  | _ :: _, [], h => h.elim

theorem digitsC_shift (s : List Nat) (a b : Nat) : digitsC s (a * s.prod + b) = digitsC s b := by
  unfold digitsC
  apply List.map_congr_left
  intro d hd
  exact digitC_shift s d a b (List.mem_range.mp hd)

/-- the digits of the index of a valid tuple are the tuple -/
theorem digitsC_ciVal : ∀ (inds s : List Nat), ValidIdx inds s → digitsC s (ciVal inds s) = inds
  | [], [], _ => by simp [digitsC]
  | i :: is, m :: ms, h => by
    have h1 := ciVal_lt is ms h.2
    have hP : 0 < ms.prod := by omega
    rw [digitsC_cons, ciVal, digitsC_shift, digitsC_ciVal is ms h.2]
    congr 1
    rw [Nat.add_comm, Nat.add_mul_div_right _ _ hP, Nat.div_eq_of_lt h1, Nat.zero_add,
      Nat.mod_eq_of_lt h.1]
  | [], _ :: _, h => h.elim
  | _ :: _, [], h => h.elim

theorem validIdx_digitsC : ∀ (s : List Nat) (r : Nat), 0 < s.prod → ValidIdx (digitsC s r) s
  | [], _, _ => by simp [digitsC, ValidIdx]
  | m :: ms, r, h => by
    rw [digitsC_cons]
    rw [List.prod_cons] at h
    have hm : 0 < m := Nat.pos_of_mul_pos_right h |> fun _ => by
      rcases Nat.eq_zero_or_pos m with h0 | h0
      · subst h0; simp at h
      · exact h0
    have hms : 0 < ms.prod := by
      rcases Nat.eq_zero_or_pos ms.prod with h0 | h0
      · rw [h0] at h; simp at h
      · exact h0
    exact ⟨Nat.mod_lt _ hm, validIdx_digitsC ms r hms⟩

/-- F-order digits are the C-order digits of the reversed shape list, reversed -/
theorem digitsF_eq (s : List Nat) (r : Nat) : digitsF s r = (digitsC s.reverse r).reverse := by
  apply List.ext_getElem
  · simp [digitsF, digitsC]
  · intro d h1 h2
    have hd : d < s.length := by simpa [digitsF] using h1
    simp only [digitsF, digitsC, List.getElem_map, List.getElem_range, List.getElem_reverse,
      List.length_map, List.length_range, List.length_reverse]
    unfold digitF digitC
    have e1 : s.length - 1 - d + 1 = s.length - d := by omega
    rw [e1, List.drop_reverse, List.prod_reverse]
    have e2 : s.length - (s.length - d) = d := by omega
    rw [e2]
    congr 1
    rw [List.getD_eq_getElem?_getD, List.getD_eq_getElem?_getD,
      List.getElem?_reverse (by omega)]
    congr 2; omega

/-- **`_cartesian_index ∘ digits = id`, order C**: the mixed-radix index of the C-order digits
    of a row number is the row number. -/
theorem cartesianIndex_digitsC (s : List Nat) (r : Nat) (hr : r < s.prod) :
    cartesianIndex (digitsC s r) s = r := by
  rw [cartesianIndex_eq_ciVal _ _ (digitsC_length s r), ciVal_digitsC, Nat.mod_eq_of_lt hr]

/-- **`_cartesian_index ∘ digits = id`, order F** (the code passes both arrays reversed). -/
theorem cartesianIndex_digitsF (s : List Nat) (r : Nat) (hr : r < s.prod) :
    cartesianIndex (digitsF s r).reverse s.reverse = r := by
  rw [digitsF_eq, List.reverse_reverse]
  exact cartesianIndex_digitsC s.reverse r (by rw [List.prod_reverse]; exact hr)

/-- **`digits ∘ _cartesian_index = id`** on valid index tuples, with the index in range:
    together with `cartesianIndex_digitsC` the mixed-radix index is a bijection between valid
    tuples and `[0, ∏ shapes)`. -/
theorem digitsC_cartesianIndex (inds s : List Nat) (h : ValidIdx inds s) :
    cartesianIndex inds s < s.prod ∧ digitsC s (cartesianIndex inds s) = inds := by
  rw [cartesianIndex_eq_ciVal _ _ (validIdx_length inds s h)]
  exact ⟨ciVal_lt inds s h, digitsC_ciVal inds s h⟩

theorem validIdx_reverse (inds s : List Nat) (h : ValidIdx inds s) :
    ValidIdx inds.reverse s.reverse := by
  induction inds generalizing s with
  | nil => cases s with
    | nil => simpa using h
    | cons => exact h.elim
  | cons i is ih =>
    cases s with
    | nil => exact h.elim
    | cons m ms =>
      rw [List.reverse_cons, List.reverse_cons]
      have := ih ms h.2
      -- append a valid pair at the end
      have happ : ∀ (a b : List Nat), ValidIdx a b → ValidIdx (a ++ [i]) (b ++ [m]) := by
        intro a
        induction a with
        | nil => intro b hb; cases b with
          | nil => exact ⟨h.1, trivial⟩
          | cons => exact hb.elim
        | cons x xs ihx => intro b hb; cases b with
          | nil => exact hb.elim
          | cons y ys => exact ⟨hb.1, ihx ys hb.2⟩
      exact happ _ _ this

theorem digitsF_cartesianIndex (inds s : List Nat) (h : ValidIdx inds s) :
    cartesianIndex inds.reverse s.reverse < s.prod ∧
      digitsF s (cartesianIndex inds.reverse s.reverse) = inds := by
  have := digitsC_cartesianIndex inds.reverse s.reverse (validIdx_reverse inds s h)
  rw [List.prod_reverse] at this
  refine ⟨this.1, ?_⟩
  rw [digitsF_eq, this.2, List.reverse_reverse]

end QE.C16
