/-
  Lemmas for C18, part 7: closed form of the SGC payoff arrays on the first `m = 2k-1` columns
  and the row sums against the uniform distribution on the first `m` actions.
-/
import Mathlib.Algebra.Order.Field.Basic
import Mathlib.Algebra.BigOperators.Group.Finset.Basic
import Mathlib.Algebra.BigOperators.Ring.Finset
import Mathlib.Data.List.Range
import Mathlib.Tactic.Linarith
import Mathlib.Tactic.Ring
import Mathlib.Tactic.NormNum
import Mathlib.Tactic.SplitIfs
import QEModel.C18
namespace QE.C18
set_option linter.unusedSectionVars false
open Finset

variable {K : Type} [Field K] [LinearOrder K] [IsStrictOrderedRing K]

theorem c34_eq : (c34 : K) = 3 / 4 := by unfold c34; norm_num
theorem c12_eq : (c12 : K) = 1 / 2 := by unfold c12; norm_num

/-- the cyclic loop `for i in range(1, m-1): A[i, i-1] = 1; A[i, i+1] = 0.5` in closed form -/
theorem foldCycle (A : Nat → Nat → K) : ∀ (c a b : Nat),
    ((List.range' 1 c).foldl (fun A i => upd (upd A i (i - 1) 1) i (i + 1) c12) A) a b
      = if 1 ≤ a ∧ a ≤ c ∧ b = a + 1 then c12
        else if 1 ≤ a ∧ a ≤ c ∧ b = a - 1 then 1 else A a b
  | 0, a, b => by
    simp only [List.range'_zero, List.foldl_nil]
    have h1 : ¬ (1 ≤ a ∧ a ≤ 0 ∧ b = a + 1) := by omega
    have h2 : ¬ (1 ≤ a ∧ a ≤ 0 ∧ b = a - 1) := by omega
    rw [if_neg h1, if_neg h2]
  | c + 1, a, b => by
    rw [List.range'_1_concat, List.foldl_append]
    simp only [List.foldl_cons, List.foldl_nil, upd]
    rw [foldCycle A c a b]
    split_ifs <;> first | rfl | (exfalso; omega)

/-- the pair loops only write columns `≥ m` -/
theorem sgcPairs0_lt (m : Nat) : ∀ (kk : Nat) (A : Nat → Nat → K) (a b : Nat), b < m →
    sgcPairs0 m kk A a b = A a b
  | 0, A, a, b, _ => by simp [sgcPairs0]
  | kk + 1, A, a, b, hb => by
    have ih := sgcPairs0_lt m kk A a b hb
    unfold sgcPairs0 at ih ⊢
    rw [List.range_succ, List.foldl_append]
    simp only [List.foldl_cons, List.foldl_nil, upd]
    rw [ih]
    split_ifs <;> first | rfl | (exfalso; omega)

theorem sgcPairs1_lt (m : Nat) : ∀ (kk : Nat) (A : Nat → Nat → K) (a b : Nat), b < m →
    sgcPairs1 m kk A a b = A a b
  | 0, A, a, b, _ => by simp [sgcPairs1]
  | kk + 1, A, a, b, hb => by
    have ih := sgcPairs1_lt m kk A a b hb
    unfold sgcPairs1 at ih ⊢
    rw [List.range_succ, List.foldl_append]
    simp only [List.foldl_cons, List.foldl_nil, upd]
    rw [ih]
    split_ifs <;> first | rfl | (exfalso; omega)

theorem wrapIdx_nonneg (n : Nat) (z : Int) (t : Nat) (h : z = (t : Int)) : wrapIdx n z = t := by
  unfold wrapIdx; subst h; simp

/-- `sgcCommon` on the first `m` columns, `k ≥ 2` (`m = 2k-1 ≥ 3`) -/
theorem sgcCommon_closed (k : Nat) (hk : 2 ≤ k) (i j : Nat) (hj : j < 2 * k - 1) :
    (sgcCommon (4 * k - 1) : Nat → Nat → K) i j =
      if i < 2 * k - 1 then
        (if j = (if i = 0 then 2 * k - 2 else i - 1) then 1
         else if j = (if i = 2 * k - 2 then 0 else i + 1) then 1 / 2 else 3 / 4)
      else 0 := by
  have hm : (4 * k - 1 + 1) / 2 - 1 = 2 * k - 1 := by omega
  have w1 : wrapIdx (4 * k - 1) (((2 * k - 1 : Nat) : Int) - 1) = 2 * k - 2 :=
    wrapIdx_nonneg _ _ _ (by omega)
  have w2 : wrapIdx (4 * k - 1) (((2 * k - 1 : Nat) : Int) - 2) = 2 * k - 3 :=
    wrapIdx_nonneg _ _ _ (by omega)
  unfold sgcCommon
  simp only [hm, w1, w2]
  have hf := fun A : Nat → Nat → K => foldCycle A (2 * k - 1 - 2) i j
  simp only [upd] at hf ⊢
  rw [hf]
  simp only [upd, sgcRegions, c34_eq, c12_eq]
  split_ifs <;> first | rfl | (exfalso; omega)

/-- `sgcCommon` for `k = 1` (`n = 3`, `m = 1`; the write `A[m-1, m-2]` wraps to column `n-1`) -/
theorem sgcCommon_one (i : Nat) :
    (sgcCommon 3 : Nat → Nat → K) i 0 = if i = 0 then 1 / 2 else 0 := by
  have w1 : wrapIdx 3 (((1 : Nat) : Int) - 1) = 0 := by decide
  have w2 : wrapIdx 3 (((1 : Nat) : Int) - 2) = 2 := by decide
  have hr : List.range' 1 (1 - 2) = [] := by decide
  unfold sgcCommon
  simp only [show (3 + 1) / 2 - 1 = 1 from rfl, w1, w2, hr, List.foldl_nil]
  simp only [upd, sgcRegions, c12_eq]
  by_cases h : i = 0
  · subst h; simp
  · have : ¬ i < 1 := by omega
    simp [h, this]

/-- a row with one entry `v0`, one entry `v1` and `d` elsewhere -/
theorem sum_two_special (m j0 j1 : Nat) (v0 v1 d : K) (h0 : j0 < m) (h1 : j1 < m) (hne : j0 ≠ j1) :
    ∑ j ∈ range m, (if j = j0 then v0 else if j = j1 then v1 else d) = d * m + (v0 - d) + (v1 - d) := by
  have hpt : ∀ j ∈ range m, (if j = j0 then v0 else if j = j1 then v1 else d)
      = d + (if j = j0 then v0 - d else 0) + (if j = j1 then v1 - d else 0) := by
    intro j _
    by_cases e0 : j = j0
    · subst e0
      simp [hne]
    · by_cases e1 : j = j1
      · subst e1
        have : ¬ j0 = j := fun e => e0 e.symm
        simp [e0]
      · simp [e0, e1]
  rw [sum_congr rfl hpt, sum_add_distrib, sum_add_distrib, sum_const, card_range,
    sum_ite_eq' (range m) j0, sum_ite_eq' (range m) j1]
  simp [h0, h1]; ring

/-! ### every entry is one of 0, 1/2, 3/4, 1 -/

def SgcVal (x : K) : Prop := x = 0 ∨ x = 1 / 2 ∨ x = 3 / 4 ∨ x = 1

theorem upd_pred (p : K → Prop) (A : Nat → Nat → K) (i j : Nat) (v : K)
    (hA : ∀ a b, p (A a b)) (hv : p v) : ∀ a b, p (upd A i j v a b) := by
  intro a b; unfold upd; split
  · exact hv
  · exact hA a b

theorem foldl_pred (p : K → Prop) (f : (Nat → Nat → K) → Nat → (Nat → Nat → K))
    (hf : ∀ A i, (∀ a b, p (A a b)) → ∀ a b, p (f A i a b)) :
    ∀ (l : List Nat) (A : Nat → Nat → K), (∀ a b, p (A a b)) → ∀ a b, p (l.foldl f A a b)
  | [], A, hA => by simpa using hA
  | i :: l, A, hA => by
    rw [List.foldl_cons]
    exact foldl_pred p f hf l (f A i) (hf A i hA)

theorem sgcVal_consts : SgcVal (0 : K) ∧ SgcVal (c12 : K) ∧ SgcVal (c34 : K) ∧ SgcVal (1 : K) := by
  refine ⟨Or.inl rfl, Or.inr (Or.inl c12_eq), Or.inr (Or.inr (Or.inl c34_eq)), Or.inr (Or.inr (Or.inr rfl))⟩

theorem sgcCommon_val (n : Nat) : ∀ a b, SgcVal ((sgcCommon n : Nat → Nat → K) a b) := by
  obtain ⟨v0, v12, v34, v1⟩ := sgcVal_consts (K := K)
  unfold sgcCommon
  intro a b
  revert a b
  show ∀ a b, SgcVal _
  apply upd_pred _ _ _ _ _ _ v12
  apply upd_pred _ _ _ _ _ _ v1
  apply foldl_pred SgcVal
  · intro A i hA
    exact upd_pred _ _ _ _ _ (upd_pred _ _ _ _ _ hA v1) v12
  apply upd_pred _ _ _ _ _ _ v12
  apply upd_pred _ _ _ _ _ _ v1
  intro a b
  unfold sgcRegions
  split
  · split
    · exact v34
    · exact v12
  · exact v0

theorem sgcEntry_val (k : Nat) : ∀ a b, SgcVal ((sgcEntry0 k a b : K)) ∧ SgcVal ((sgcEntry1 k a b : K)) := by
  obtain ⟨v0, v12, v34, v1⟩ := sgcVal_consts (K := K)
  intro a b
  unfold sgcEntry0 sgcEntry1 sgcPairs0 sgcPairs1
  constructor
  · apply foldl_pred SgcVal
    · intro A i hA
      exact upd_pred _ _ _ _ _ (upd_pred _ _ _ _ _ hA v34) v34
    · exact sgcCommon_val _
  · apply foldl_pred SgcVal
    · intro A i hA
      exact upd_pred _ _ _ _ _ (upd_pred _ _ _ _ _ hA v34) v34
    · exact sgcCommon_val _

/-! ### the pair loops in closed form, and the columns `≥ m` of the common part -/

theorem sgcPairs0_closed (m : Nat) : ∀ (kk : Nat) (A : Nat → Nat → K) (a b : Nat),
    sgcPairs0 m kk A a b = if m ≤ a ∧ a < m + 2 * kk ∧ a = b then c34 else A a b
  | 0, A, a, b => by
    have : ¬ (m ≤ a ∧ a < m + 2 * 0 ∧ a = b) := by omega
    rw [if_neg this]; rfl
  | kk + 1, A, a, b => by
    have ih := sgcPairs0_closed m kk A a b
    unfold sgcPairs0 at ih ⊢
    rw [List.range_succ, List.foldl_append]
    simp only [List.foldl_cons, List.foldl_nil, upd]
    rw [ih]
    split_ifs <;> first | rfl | (exfalso; omega)

theorem sgcPairs1_closed (m : Nat) : ∀ (kk : Nat) (A : Nat → Nat → K) (a b : Nat),
    sgcPairs1 m kk A a b
      = if m ≤ a ∧ m ≤ b ∧ a < m + 2 * kk ∧ b < m + 2 * kk ∧ a ≠ b ∧ (a - m) / 2 = (b - m) / 2 then c34
        else A a b
  | 0, A, a, b => by
    have : ¬ (m ≤ a ∧ m ≤ b ∧ a < m + 2 * 0 ∧ b < m + 2 * 0 ∧ a ≠ b ∧ (a - m) / 2 = (b - m) / 2) := by omega
    rw [if_neg this]; rfl
  | kk + 1, A, a, b => by
    have ih := sgcPairs1_closed m kk A a b
    unfold sgcPairs1 at ih ⊢
    rw [List.range_succ, List.foldl_append]
    simp only [List.foldl_cons, List.foldl_nil, upd]
    rw [ih]
    split_ifs <;> first | rfl | (exfalso; omega)

/-- `sgcCommon` on the columns `≥ m`, `k ≥ 2`: ½ in the first `m` rows, 0 below -/
theorem sgcCommon_right (k : Nat) (hk : 2 ≤ k) (i j : Nat) (hj : 2 * k - 1 ≤ j) :
    (sgcCommon (4 * k - 1) : Nat → Nat → K) i j = if i < 2 * k - 1 then 1 / 2 else 0 := by
  have hm : (4 * k - 1 + 1) / 2 - 1 = 2 * k - 1 := by omega
  have w1 : wrapIdx (4 * k - 1) (((2 * k - 1 : Nat) : Int) - 1) = 2 * k - 2 :=
    wrapIdx_nonneg _ _ _ (by omega)
  have w2 : wrapIdx (4 * k - 1) (((2 * k - 1 : Nat) : Int) - 2) = 2 * k - 3 :=
    wrapIdx_nonneg _ _ _ (by omega)
  unfold sgcCommon
  simp only [hm, w1, w2]
  have hf := fun A : Nat → Nat → K => foldCycle A (2 * k - 1 - 2) i j
  simp only [upd] at hf ⊢
  rw [hf]
  simp only [upd, sgcRegions, c34_eq, c12_eq]
  split_ifs <;> first | rfl | (exfalso; omega)

end QE.C18
