/-
  Caller-supplied buffers of `lcp_lemke` (`tableau=`, `basis=`, `z=`): their prior content
  never influences the result (`QEModel.C11.lcpLemkeBuf`).
-/
import QEModel.C11
import Mathlib.Logic.Basic
import Mathlib.Tactic.Common

namespace QE.C11
open QE QE.Pivot
set_option linter.unusedSectionVars false

variable {α : Type} [Zero α] [One α] [Add α] [Sub α] [Mul α] [Div α] [Neg α] [LT α] [LE α]
  [DecidableLT α] [DecidableLE α] [BEq α]

theorem tab_congr {β : Type} (n m : ℕ) (f g : ℕ → ℕ → β)
    (h : ∀ i j, i < n → j < m → f i j = g i j) : M.tab n m f = M.tab n m g := by
  unfold M.tab
  congr 1
  apply congrArg
  funext i
  apply congrArg
  funext j
  exact h i.1 j.1 i.2 j.2

/-- the tableau written into any buffer is the tableau of `_initialize_tableau` -/
theorem initTableauBuf_eq (n : ℕ) (Mm : ℕ → ℕ → α) (q d : ℕ → α) (tbuf : M α) :
    initTableauBuf n Mm q d tbuf = initTableau n Mm q d := by
  unfold initTableauBuf initTableau
  apply tab_congr
  intro i j _ hj
  by_cases h1 : j < n
  · rw [if_pos h1, if_pos h1]
  · rw [if_neg h1, if_neg h1]
    by_cases h2 : j < 2 * n
    · rw [if_pos h2, if_pos h2]
    · rw [if_neg h2, if_neg h2]
      by_cases h3 : j = 2 * n
      · rw [if_pos h3, if_pos h3]
      · rw [if_neg h3, if_neg h3, if_pos (by omega)]

theorem getSolutionBuf_eq (n : ℕ) (T : M α) (basis : ℕ → ℕ) (zbuf : ℕ → α) :
    getSolutionBuf n T basis zbuf = getSolution n T basis := rfl

/-- **the result does not depend on the prior content of the buffers** — every input, every
    tolerance, trivial branch included -/
theorem lcpLemkeBuf_eq_lcpLemke (n : ℕ) (Mm : ℕ → ℕ → α) (q d : ℕ → α) (maxIter : ℕ)
    (tolPiv tolDiff : α) (tbuf : M α) (bbuf : ℕ → ℕ) (zbuf : ℕ → α) :
    lcpLemkeBuf n Mm q d maxIter tolPiv tolDiff tbuf bbuf zbuf
      = lcpLemke n Mm q d maxIter tolPiv tolDiff := by
  unfold lcpLemkeBuf lcpLemke
  by_cases ht : trivialExit n q = true
  · rw [if_pos ht, if_pos ht]; rfl
  · rw [if_neg ht, if_neg ht]
    simp only [initTableauBuf_eq, getSolutionBuf_eq]
    rfl

end QE.C11
