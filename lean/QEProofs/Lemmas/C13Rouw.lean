/-
  Lemmas for C13, part 1: the Rouwenhorst recursion (`rouwStepFn`, `rouwMat`).
  The central fact is `rowE_succ`: the expectation of any function under row `i` of the
  `(k+1)`-state matrix in terms of expectations under rows `i`, `i-1` of the `k`-state matrix.
-/
import Mathlib.Algebra.BigOperators.Group.Finset.Basic
import Mathlib.Algebra.BigOperators.Ring.Finset
import Mathlib.Algebra.Order.Field.Basic
import Mathlib.Tactic.Ring
import Mathlib.Tactic.FieldSimp
import Mathlib.Tactic.Linarith
import QEModel.C13
namespace QE.C13
open QE Finset

section
variable {K : Type} [Field K]

/-- expectation of `f` under row `i` of an `n`-column matrix given as an index function -/
def rowExp (n : ℕ) (T : ℕ → ℕ → K) (i : ℕ) (f : ℕ → K) : K := ∑ j ∈ range n, T i j * f j

theorem sum_block1 (k i : ℕ) (p : K) (T : ℕ → ℕ → K) (f : ℕ → K) :
    ∑ j ∈ range (k + 1), (if i < k ∧ j < k then p * T i j else 0) * f j
      = if i < k then p * rowExp k T i f else 0 := by
  by_cases hi : i < k
  · simp only [hi, true_and, if_true]
    rw [sum_range_succ]
    simp only [lt_irrefl, if_false, zero_mul, add_zero, rowExp, mul_sum]
    apply sum_congr rfl
    intro j hj
    rw [if_pos (mem_range.mp hj)]; ring
  · simp [hi]

theorem sum_block2 (k i : ℕ) (p : K) (T : ℕ → ℕ → K) (f : ℕ → K) :
    ∑ j ∈ range (k + 1), (if i < k ∧ 1 ≤ j then p * T i (j - 1) else 0) * f j
      = if i < k then p * rowExp k T i (fun j => f (j + 1)) else 0 := by
  by_cases hi : i < k
  · simp only [hi, true_and, if_true]
    rw [sum_range_succ']
    simp only [Nat.le_add_left, if_true, Nat.add_sub_cancel, rowExp, mul_sum]
    simp only [show ¬ (1 ≤ 0) by omega, if_false, zero_mul, add_zero]
    apply sum_congr rfl
    intro j _; ring
  · simp [hi]

theorem sum_block3 (k i : ℕ) (p : K) (T : ℕ → ℕ → K) (f : ℕ → K) :
    ∑ j ∈ range (k + 1), (if 1 ≤ i ∧ j < k then p * T (i - 1) j else 0) * f j
      = if 1 ≤ i then p * rowExp k T (i - 1) f else 0 := by
  by_cases hi : 1 ≤ i
  · simp only [hi, true_and, if_true]
    rw [sum_range_succ]
    simp only [lt_irrefl, if_false, zero_mul, add_zero, rowExp, mul_sum]
    apply sum_congr rfl
    intro j hj
    rw [if_pos (mem_range.mp hj)]; ring
  · simp [hi]

theorem sum_block4 (k i : ℕ) (p : K) (T : ℕ → ℕ → K) (f : ℕ → K) :
    ∑ j ∈ range (k + 1), (if 1 ≤ i ∧ 1 ≤ j then p * T (i - 1) (j - 1) else 0) * f j
      = if 1 ≤ i then p * rowExp k T (i - 1) (fun j => f (j + 1)) else 0 := by
  by_cases hi : 1 ≤ i
  · simp only [hi, true_and, if_true]
    rw [sum_range_succ']
    simp only [Nat.le_add_left, if_true, Nat.add_sub_cancel, rowExp, mul_sum]
    simp only [show ¬ (1 ≤ 0) by omega, if_false, zero_mul, add_zero]
    apply sum_congr rfl
    intro j _; ring
  · simp [hi]

/-- **Step lemma.** Expectation under a row of the matrix produced by one application of the
    `elif n > 2` branch. -/
theorem rowExp_step (k i : ℕ) (p q : K) (T : ℕ → ℕ → K) (f : ℕ → K) :
    rowExp (k + 1) (rouwStepFn k p q T) i f =
      (if 1 ≤ i ∧ i < k then (1 / 2 : K) else 1) *
        ((if i < k then p * rowExp k T i f else 0)
          + (if i < k then (1 - p) * rowExp k T i (fun j => f (j + 1)) else 0)
          + (if 1 ≤ i then (1 - q) * rowExp k T (i - 1) f else 0)
          + (if 1 ≤ i then q * rowExp k T (i - 1) (fun j => f (j + 1)) else 0)) := by
  rw [← sum_block1, ← sum_block2, ← sum_block3, ← sum_block4]
  rw [← sum_add_distrib, ← sum_add_distrib, ← sum_add_distrib, mul_sum]
  unfold rowExp rouwStepFn
  apply sum_congr rfl
  intro j _
  by_cases hc : 1 ≤ i ∧ i < k
  · simp only [hc, and_self, if_true]
    have h2 : ((1 : K) + 1) = 2 := by norm_num
    rw [h2]; ring
  · simp only [hc, if_false]; ring


theorem rowExp_congr (n : ℕ) (T T' : ℕ → ℕ → K) (i : ℕ) (f : ℕ → K)
    (h : ∀ j, j < n → T i j = T' i j) : rowExp n T i f = rowExp n T' i f := by
  unfold rowExp
  apply sum_congr rfl
  intro j hj; rw [h j (mem_range.mp hj)]

theorem rowExp_add (n : ℕ) (T : ℕ → ℕ → K) (i : ℕ) (f g : ℕ → K) :
    rowExp n T i (fun j => f j + g j) = rowExp n T i f + rowExp n T i g := by
  unfold rowExp; rw [← sum_add_distrib]; apply sum_congr rfl; intro j _; ring

theorem rowExp_smul (n : ℕ) (T : ℕ → ℕ → K) (i : ℕ) (c : K) (f : ℕ → K) :
    rowExp n T i (fun j => c * f j) = c * rowExp n T i f := by
  unfold rowExp; rw [mul_sum]; apply sum_congr rfl; intro j _; ring

/-- entries of `row_build_mat(m+3)` in terms of those of `row_build_mat(m+2)` -/
theorem rouwMat_get_succ (p q : K) (m i j : ℕ) (hi : i < m + 3) (hj : j < m + 3) :
    (rouwMat p q (m + 1)).get i j = rouwStepFn (m + 2) p q (rouwMat p q m).get i j := by
  show (M.tab (m + 3) (m + 3) (rouwStepFn (m + 2) p q (rouwMat p q m).get)).get i j = _
  rw [M.get_tab _ _ _ _ _ hi hj]

theorem rouwMat_get_zero (p q : K) (i j : ℕ) (hi : i < 2) (hj : j < 2) :
    (rouwMat p q 0).get i j = rouwBaseFn p q i j := by
  show (M.tab 2 2 (rouwBaseFn p q)).get i j = _
  rw [M.get_tab _ _ _ _ _ hi hj]

/-- expectation of `f` under row `i` of the `(m+2)`-state Rouwenhorst matrix -/
def rowE (p q : K) (m i : ℕ) (f : ℕ → K) : K := rowExp (m + 2) (rouwMat p q m).get i f

theorem rowE_zero (p q : K) (i : ℕ) (hi : i < 2) (f : ℕ → K) :
    rowE p q 0 i f = rouwBaseFn p q i 0 * f 0 + rouwBaseFn p q i 1 * f 1 := by
  unfold rowE rowExp
  rw [sum_range_succ, sum_range_succ, sum_range_zero, zero_add,
    rouwMat_get_zero p q i 0 hi (by omega), rouwMat_get_zero p q i 1 hi (by omega)]

theorem rowE_succ (p q : K) (m i : ℕ) (hi : i < m + 3) (f : ℕ → K) :
    rowE p q (m + 1) i f =
      (if 1 ≤ i ∧ i < m + 2 then (1 / 2 : K) else 1) *
        ((if i < m + 2 then p * rowE p q m i f else 0)
          + (if i < m + 2 then (1 - p) * rowE p q m i (fun j => f (j + 1)) else 0)
          + (if 1 ≤ i then (1 - q) * rowE p q m (i - 1) f else 0)
          + (if 1 ≤ i then q * rowE p q m (i - 1) (fun j => f (j + 1)) else 0)) := by
  unfold rowE
  rw [← rowExp_step]
  exact rowExp_congr _ _ _ _ _ (fun j hj => rouwMat_get_succ p q m i j hi hj)

/-- the three kinds of rows: first, last, interior -/
theorem rowE_succ_first (p q : K) (m : ℕ) (f : ℕ → K) :
    rowE p q (m + 1) 0 f = p * rowE p q m 0 f + (1 - p) * rowE p q m 0 (fun j => f (j + 1)) := by
  rw [rowE_succ p q m 0 (by omega)]
  simp

theorem rowE_succ_last (p q : K) (m : ℕ) (f : ℕ → K) :
    rowE p q (m + 1) (m + 2) f =
      (1 - q) * rowE p q m (m + 1) f + q * rowE p q m (m + 1) (fun j => f (j + 1)) := by
  rw [rowE_succ p q m (m + 2) (by omega)]
  simp

theorem rowE_succ_interior (p q : K) (m i : ℕ) (hi : i < m + 1) (f : ℕ → K) :
    rowE p q (m + 1) (i + 1) f =
      (1 / 2 : K) * (p * rowE p q m (i + 1) f + (1 - p) * rowE p q m (i + 1) (fun j => f (j + 1))
        + (1 - q) * rowE p q m i f + q * rowE p q m i (fun j => f (j + 1))) := by
  rw [rowE_succ p q m (i + 1) (by omega)]
  have h1 : i + 1 < m + 2 := by omega
  simp [h1]

theorem rowE_add (p q : K) (m i : ℕ) (f g : ℕ → K) :
    rowE p q m i (fun j => f j + g j) = rowE p q m i f + rowE p q m i g := rowExp_add _ _ _ _ _

theorem rowE_smul (p q : K) (m i : ℕ) (c : K) (f : ℕ → K) :
    rowE p q m i (fun j => c * f j) = c * rowE p q m i f := rowExp_smul _ _ _ _ _

end

section
variable {K : Type} [Field K] [CharZero K]

/-- **Generating function of a row**: row `i` of the `(m+2)`-state matrix is the law of a sum of
    `m+1-i` Bernoulli(`1-p`) and `i` Bernoulli(`q`) variables. -/
theorem rowE_genfun (p q x : K) (m i : ℕ) (hi : i < m + 2) :
    rowE p q m i (fun j => x ^ j) = (p + (1 - p) * x) ^ (m + 1 - i) * (1 - q + q * x) ^ i := by
  have hf : (fun j : ℕ => x ^ (j + 1)) = fun j => x * x ^ j := by funext j; rw [pow_succ']
  induction m generalizing i with
  | zero =>
    rw [rowE_zero p q i hi]
    have : i = 0 ∨ i = 1 := by omega
    rcases this with rfl | rfl <;> simp [rouwBaseFn]
  | succ m ih =>
    rcases Nat.eq_zero_or_pos i with rfl | hpos
    · rw [rowE_succ_first, hf, rowE_smul, ih 0 (by omega)]
      simp only [Nat.sub_zero, pow_zero, mul_one]
      ring
    · obtain ⟨i, rfl⟩ : ∃ i', i = i' + 1 := ⟨i - 1, by omega⟩
      by_cases hlast : i = m + 1
      · subst hlast
        rw [rowE_succ_last, hf, rowE_smul, ih (m + 1) (by omega)]
        simp only [Nat.sub_self, pow_zero, one_mul]
        ring
      · have hi' : i < m + 1 := by omega
        obtain ⟨d, rfl⟩ : ∃ d, m = i + d := ⟨m - i, by omega⟩
        rw [rowE_succ_interior p q (i + d) i hi', hf, rowE_smul, rowE_smul,
          ih (i + 1) (by omega), ih i (by omega)]
        have e1 : i + d + 1 - (i + 1) = d := by omega
        have e2 : i + d + 1 - i = d + 1 := by omega
        have e3 : i + d + 1 + 1 - (i + 1) = d + 1 := by omega
        rw [e1, e2, e3]
        field_simp
        ring

/-- **Row sums are one** (any `p`, `q`). -/
theorem rowE_one (p q : K) (m i : ℕ) (hi : i < m + 2) : rowE p q m i (fun _ => 1) = 1 := by
  have h := rowE_genfun p q 1 m i hi
  simpa using h

theorem rowE_const (p q c : K) (m i : ℕ) (hi : i < m + 2) : rowE p q m i (fun _ => c) = c := by
  have h := rowE_smul p q m i c (fun _ => 1)
  simp only [mul_one] at h
  rw [h, rowE_one p q m i hi, mul_one]

/-- **Conditional mean of the index.** -/
theorem rowE_id (p q : K) (m i : ℕ) (hi : i < m + 2) :
    rowE p q m i (fun j => (j : K)) = ((m : K) + 1) * (1 - p) + (i : K) * (p + q - 1) := by
  have hf : (fun j : ℕ => ((j + 1 : ℕ) : K)) = fun j : ℕ => (j : K) + 1 := by
    funext j; push_cast; ring
  have hs : ∀ m i, i < m + 2 → rowE p q m i (fun j => ((j + 1 : ℕ) : K))
      = rowE p q m i (fun j => (j : K)) + 1 := by
    intro m i hi
    rw [hf, rowE_add, rowE_const p q 1 m i hi]
  induction m generalizing i with
  | zero =>
    rw [rowE_zero p q i hi]
    have : i = 0 ∨ i = 1 := by omega
    rcases this with rfl | rfl
    · simp [rouwBaseFn]
    · simp [rouwBaseFn]
  | succ m ih =>
    rcases Nat.eq_zero_or_pos i with rfl | hpos
    · rw [rowE_succ_first, hs m 0 (by omega), ih 0 (by omega)]
      push_cast; ring
    · obtain ⟨i, rfl⟩ : ∃ i', i = i' + 1 := ⟨i - 1, by omega⟩
      by_cases hlast : i = m + 1
      · subst hlast
        rw [rowE_succ_last, hs m (m + 1) (by omega), ih (m + 1) (by omega)]
        push_cast; ring
      · have hi' : i < m + 1 := by omega
        rw [rowE_succ_interior p q m i hi', hs m (i + 1) (by omega), hs m i (by omega),
          ih (i + 1) (by omega), ih i (by omega)]
        push_cast; field_simp; ring

/-- **Second moment of the index** = variance + mean², with
    mean `(m+1-i)(1-p) + i q` and variance `(m+1-i) p (1-p) + i q (1-q)`. -/
theorem rowE_sq (p q : K) (m i : ℕ) (hi : i < m + 2) :
    rowE p q m i (fun j => (j : K) ^ 2) =
      (((m : K) + 1 - i) * (p * (1 - p)) + (i : K) * (q * (1 - q)))
        + (((m : K) + 1 - i) * (1 - p) + (i : K) * q) ^ 2 := by
  have hf : (fun j : ℕ => (((j + 1 : ℕ) : K)) ^ 2) = fun j : ℕ => (j : K) ^ 2 + (2 * (j : K) + 1) := by
    funext j; push_cast; ring
  have hs : ∀ m i, i < m + 2 → rowE p q m i (fun j => (((j + 1 : ℕ) : K)) ^ 2)
      = rowE p q m i (fun j => (j : K) ^ 2)
        + (2 * (((m : K) + 1) * (1 - p) + (i : K) * (p + q - 1)) + 1) := by
    intro m i hi
    rw [hf, rowE_add, rowE_add, rowE_smul, rowE_const p q 1 m i hi, rowE_id p q m i hi]
  induction m generalizing i with
  | zero =>
    rw [rowE_zero p q i hi]
    have : i = 0 ∨ i = 1 := by omega
    rcases this with rfl | rfl <;> simp [rouwBaseFn] <;> ring
  | succ m ih =>
    rcases Nat.eq_zero_or_pos i with rfl | hpos
    · rw [rowE_succ_first, hs m 0 (by omega), ih 0 (by omega)]
      push_cast; ring
    · obtain ⟨i, rfl⟩ : ∃ i', i = i' + 1 := ⟨i - 1, by omega⟩
      by_cases hlast : i = m + 1
      · subst hlast
        rw [rowE_succ_last, hs m (m + 1) (by omega), ih (m + 1) (by omega)]
        push_cast; ring
      · have hi' : i < m + 1 := by omega
        rw [rowE_succ_interior p q m i hi', hs m (i + 1) (by omega), hs m i (by omega),
          ih (i + 1) (by omega), ih i (by omega)]
        push_cast; field_simp; ring

end

section
variable {K : Type} [Field K] [LinearOrder K] [IsStrictOrderedRing K]

theorem rouwStepFn_nonneg (k : ℕ) (p q : K) (hp0 : 0 ≤ p) (hp1 : p ≤ 1) (hq0 : 0 ≤ q) (hq1 : q ≤ 1)
    (T : ℕ → ℕ → K) (hT : ∀ i j, i < k → j < k → 0 ≤ T i j) (i j : ℕ) (hi : i < k + 1) (hj : j < k + 1) :
    0 ≤ rouwStepFn k p q T i j := by
  have hp' : 0 ≤ 1 - p := by linarith
  have hq' : 0 ≤ 1 - q := by linarith
  have h1 : 0 ≤ (if i < k ∧ j < k then p * T i j else 0) := by
    split_ifs with h
    · exact mul_nonneg hp0 (hT i j h.1 h.2)
    · exact le_rfl
  have h2 : 0 ≤ (if i < k ∧ 1 ≤ j then (1 - p) * T i (j - 1) else 0) := by
    split_ifs with h
    · exact mul_nonneg hp' (hT i (j - 1) h.1 (by omega))
    · exact le_rfl
  have h3 : 0 ≤ (if 1 ≤ i ∧ j < k then (1 - q) * T (i - 1) j else 0) := by
    split_ifs with h
    · exact mul_nonneg hq' (hT (i - 1) j (by omega) h.2)
    · exact le_rfl
  have h4 : 0 ≤ (if 1 ≤ i ∧ 1 ≤ j then q * T (i - 1) (j - 1) else 0) := by
    split_ifs with h
    · exact mul_nonneg hq0 (hT (i - 1) (j - 1) (by omega) (by omega))
    · exact le_rfl
  have hs := add_nonneg (add_nonneg (add_nonneg h1 h2) h3) h4
  unfold rouwStepFn
  by_cases hc : 1 ≤ i ∧ i < k
  · simp only [if_pos hc]
    exact div_nonneg hs (by norm_num)
  · simp only [if_neg hc]
    exact hs

theorem rouwMat_nonneg (p q : K) (hp0 : 0 ≤ p) (hp1 : p ≤ 1) (hq0 : 0 ≤ q) (hq1 : q ≤ 1)
    (m i j : ℕ) (hi : i < m + 2) (hj : j < m + 2) : 0 ≤ (rouwMat p q m).get i j := by
  induction m generalizing i j with
  | zero =>
    rw [rouwMat_get_zero p q i j hi hj]
    unfold rouwBaseFn
    split_ifs <;> linarith
  | succ m ih =>
    rw [rouwMat_get_succ p q m i j hi hj]
    exact rouwStepFn_nonneg (m + 2) p q hp0 hp1 hq0 hq1 _ (fun i j hi hj => ih i j hi hj) i j hi hj

theorem rouwStepFn_pos (k : ℕ) (hk : 1 ≤ k) (p q : K) (hp0 : 0 < p) (hp1 : p < 1) (hq0 : 0 < q) (hq1 : q < 1)
    (T : ℕ → ℕ → K) (hT : ∀ i j, i < k → j < k → 0 < T i j) (i j : ℕ) (hi : i < k + 1) (hj : j < k + 1) :
    0 < rouwStepFn k p q T i j := by
  have hp' : 0 < 1 - p := by linarith
  have hq' : 0 < 1 - q := by linarith
  have h1 : 0 ≤ (if i < k ∧ j < k then p * T i j else 0) := by
    split_ifs with h
    · exact (mul_pos hp0 (hT i j h.1 h.2)).le
    · exact le_rfl
  have h2 : 0 ≤ (if i < k ∧ 1 ≤ j then (1 - p) * T i (j - 1) else 0) := by
    split_ifs with h
    · exact (mul_pos hp' (hT i (j - 1) h.1 (by omega))).le
    · exact le_rfl
  have h3 : 0 ≤ (if 1 ≤ i ∧ j < k then (1 - q) * T (i - 1) j else 0) := by
    split_ifs with h
    · exact (mul_pos hq' (hT (i - 1) j (by omega) h.2)).le
    · exact le_rfl
  have h4 : 0 ≤ (if 1 ≤ i ∧ 1 ≤ j then q * T (i - 1) (j - 1) else 0) := by
    split_ifs with h
    · exact (mul_pos hq0 (hT (i - 1) (j - 1) (by omega) (by omega))).le
    · exact le_rfl
  have hs : 0 < (if i < k ∧ j < k then p * T i j else 0)
      + (if i < k ∧ 1 ≤ j then (1 - p) * T i (j - 1) else 0)
      + (if 1 ≤ i ∧ j < k then (1 - q) * T (i - 1) j else 0)
      + (if 1 ≤ i ∧ 1 ≤ j then q * T (i - 1) (j - 1) else 0) := by
    by_cases hik : i < k
    · by_cases hjk : j < k
      · have : 0 < (if i < k ∧ j < k then p * T i j else 0) := by
          rw [if_pos ⟨hik, hjk⟩]; exact mul_pos hp0 (hT i j hik hjk)
        linarith
      · have hj1 : 1 ≤ j := by omega
        have : 0 < (if i < k ∧ 1 ≤ j then (1 - p) * T i (j - 1) else 0) := by
          rw [if_pos ⟨hik, hj1⟩]; exact mul_pos hp' (hT i (j - 1) hik (by omega))
        linarith
    · have hi1 : 1 ≤ i := by omega
      by_cases hjk : j < k
      · have : 0 < (if 1 ≤ i ∧ j < k then (1 - q) * T (i - 1) j else 0) := by
          rw [if_pos ⟨hi1, hjk⟩]; exact mul_pos hq' (hT (i - 1) j (by omega) hjk)
        linarith
      · have hj1 : 1 ≤ j := by omega
        have : 0 < (if 1 ≤ i ∧ 1 ≤ j then q * T (i - 1) (j - 1) else 0) := by
          rw [if_pos ⟨hi1, hj1⟩]; exact mul_pos hq0 (hT (i - 1) (j - 1) (by omega) (by omega))
        linarith
  unfold rouwStepFn
  by_cases hc : 1 ≤ i ∧ i < k
  · simp only [if_pos hc]
    exact div_pos hs (by norm_num)
  · simp only [if_neg hc]
    exact hs

/-- all entries are strictly positive for `p, q ∈ (0,1)` -/
theorem rouwMat_pos (p q : K) (hp0 : 0 < p) (hp1 : p < 1) (hq0 : 0 < q) (hq1 : q < 1)
    (m i j : ℕ) (hi : i < m + 2) (hj : j < m + 2) : 0 < (rouwMat p q m).get i j := by
  induction m generalizing i j with
  | zero =>
    rw [rouwMat_get_zero p q i j hi hj]
    unfold rouwBaseFn
    split_ifs <;> linarith
  | succ m ih =>
    rw [rouwMat_get_succ p q m i j hi hj]
    exact rouwStepFn_pos (m + 2) (by omega) p q hp0 hp1 hq0 hq1 _ (fun i j hi hj => ih i j hi hj) i j hi hj

end

end QE.C13
