/-
  Lemmas for C13, part 1: the Rouwenhorst recursion (`rouwStepFn`, `rouwMat`).
  The central fact is `rowE_succ`: the expectation of any function under row `i` of the
  `(k+1)`-state matrix in terms of expectations under rows `i`, `i-1` of the `k`-state matrix.
-/
import Mathlib.Algebra.BigOperators.Group.Finset.Basic
import Mathlib.Algebra.BigOperators.Ring.Finset
import Mathlib.Algebra.Order.Field.Basic
import Mathlib.Tactic.Ring
import Mathlib.Tactic.FieldSimp
import Mathlib.Tactic.Linarith
import QEModel.C13
namespace QE.C13
open QE Finset

section
variable {K : Type} [Field K]

/-- expectation of `f` under row `i` of an `n`-column matrix given as an index function -/
def rowExp (n : ℕ) (T : ℕ → ℕ → K) (i : ℕ) (f : ℕ → K) : K := ∑ j ∈ range n, T i j * f j

theorem sum_block1 (k i : ℕ) (p : K) (T : ℕ → ℕ → K) (f : ℕ → K) :
    ∑ j ∈ range (k + 1), (if i < k ∧ j < k then p * T i j else 0) * f j
      = if i < k then p * rowExp k T i f else 0 := by
  by_cases hi : i < k
  · simp only [hi, true_and, if_true]
    rw [sum_range_succ]
    simp only [lt_irrefl, if_false, zero_mul, add_zero, rowExp, mul_sum]
    apply sum_congr rfl
    intro j hj
    rw [if_pos (mem_range.mp hj)]; ring
  · simp [hi]

theorem sum_block2 (k i : ℕ) (p : K) (T : ℕ → ℕ → K) (f : ℕ → K) :
    ∑ j ∈ range (k + 1), (if i < k ∧ 1 ≤ j then p * T i (j - 1) else 0) * f j
      = if i < k then p * rowExp k T i (fun j => f (j + 1)) else 0 := by
  by_cases hi : i < k
  · simp only [hi, true_and, if_true]
    rw [sum_range_succ']
    simp only [Nat.le_add_left, if_true, Nat.add_sub_cancel, rowExp, mul_sum]
    simp only [show ¬ (1 ≤ 0) by omega, if_false, zero_mul, add_zero]
    apply sum_congr rfl
    intro j _; ring
  · simp [hi]

theorem sum_block3 (k i : ℕ) (p : K) (T : ℕ → ℕ → K) (f : ℕ → K) :
    ∑ j ∈ range (k + 1), (if 1 ≤ i ∧ j < k then p * T (i - 1) j else 0) * f j
      = if 1 ≤ i then p * rowExp k T (i - 1) f else 0 := by
  by_cases hi : 1 ≤ i
  · simp only [hi, true_and, if_true]
    rw [sum_range_succ]
    simp only [lt_irrefl, if_false, zero_mul, add_zero, rowExp, mul_sum]
    apply sum_congr rfl
    intro j hj
    rw [if_pos (mem_range.mp hj)]; ring
  · simp [hi]

theorem sum_block4 (k i : ℕ) (p : K) (T : ℕ → ℕ → K) (f : ℕ → K) :
    ∑ j ∈ range (k + 1), (if 1 ≤ i ∧ 1 ≤ j then p * T (i - 1) (j - 1) else 0) * f j
      = if 1 ≤ i then p * rowExp k T (i - 1) (fun j => f (j + 1)) else 0 := by
  by_cases hi : 1 ≤ i
  · simp only [hi, true_and, if_true]
    rw [sum_range_succ']
    simp only [Nat.le_add_left, if_true, Nat.add_sub_cancel, rowExp, mul_sum]
    simp only [show ¬ (1 ≤ 0) by omega, if_false, zero_mul, add_zero]
    apply sum_congr rfl
    intro j _; ring
  · simp [hi]

/-- **Step lemma.** Expectation under a row of the matrix produced by one application of the
    `elif n > 2` branch. -/
theorem rowExp_step (k i : ℕ) (p q : K) (T : ℕ → ℕ → K) (f : ℕ → K) :
    rowExp (k + 1) (rouwStepFn k p q T) i f =
      (if 1 ≤ i ∧ i < k then (1 / 2 : K) else 1) *
        ((if i < k then p * rowExp k T i f else 0)
          + (if i < k then (1 - p) * rowExp k T i (fun j => f (j + 1)) else 0)
          + (if 1 ≤ i then (1 - q) * rowExp k T (i - 1) f else 0)
          + (if 1 ≤ i then q * rowExp k T (i - 1) (fun j => f (j + 1)) else 0)) := by
  rw [← sum_block1, ← sum_block2, ← sum_block3, ← sum_block4]
  rw [← sum_add_distrib, ← sum_add_distrib, ← sum_add_distrib, mul_sum]
  unfold rowExp rouwStepFn
  apply sum_congr rfl
  intro j _
  by_cases hc : 1 ≤ i ∧ i < k
  · simp only [hc, and_self, if_true]
    have h2 : ((1 : K) + 1) = 2 := by norm_num
    rw [h2]; ring
  · simp only [hc, if_false]; ring


theorem rowExp_congr (n : ℕ) (T T' : ℕ → ℕ → K) (i : ℕ) (f : ℕ → K)
    (h : ∀ j, j < n → T i j = T' i j) : rowExp n T i f = rowExp n T' i f := by
  unfold rowExp
  apply sum_congr rfl
  intro j hj; rw [h j (mem_range.mp hj)]

theorem rowExp_add (n : ℕ) (T : ℕ → ℕ → K) (i : ℕ) (f g : ℕ → K) :
    rowExp n T i (fun j => f j + g j) = rowExp n T i f + rowExp n T i g := by
  unfold rowExp; rw [← sum_add_distrib]; apply sum_congr rfl; intro j _; ring

theorem rowExp_smul (n : ℕ) (T : ℕ → ℕ → K) (i : ℕ) (c : K) (f : ℕ → K) :
    rowExp n T i (fun j => c * f j) = c * rowExp n T i f := by
  unfold rowExp; rw [mul_sum]; apply sum_congr rfl; intro j _; ring

/-- entries of `row_build_mat(m+3)` in terms of those of `row_build_mat(m+2)` -/
theorem rouwMat_get_succ (p q : K) (m i j : ℕ) (hi : i < m + 3) (hj : j < m + 3) :
    (rouwMat p q (m + 1)).get i j = rouwStepFn (m + 2) p q (rouwMat p q m).get i j := by
  show (M.tab (m + 3) (m + 3) (rouwStepFn (m + 2) p q (rouwMat p q m).get)).get i j = _
  rw [M.get_tab _ _ _ _ _ hi hj]

theorem rouwMat_get_zero (p q : K) (i j : ℕ) (hi : i < 2) (hj : j < 2) :
    (rouwMat p q 0).get i j = rouwBaseFn p q i j := by
  show (M.tab 2 2 (rouwBaseFn p q)).get i j = _
  rw [M.get_tab _ _ _ _ _ hi hj]

/-- expectation of `f` under row `i` of the `(m+2)`-state Rouwenhorst matrix -/
def rowE (p q : K) (m i : ℕ) (f : ℕ → K) : K := rowExp (m + 2) (rouwMat p q m).get i f

theorem rowE_zero (p q : K) (i : ℕ) (hi : i < 2) (f : ℕ → K) :
    rowE p q 0 i f = rouwBaseFn p q i 0 * f 0 + rouwBaseFn p q i 1 * f 1 := by
  unfold rowE rowExp
  rw [sum_range_succ, sum_range_succ, sum_range_zero, zero_add,
    rouwMat_get_zero p q i 0 hi (by omega), rouwMat_get_zero p q i 1 hi (by omega)]

theorem rowE_succ (p q : K) (m i : ℕ) (hi : i < m + 3) (f : ℕ → K) :
    rowE p q (m + 1) i f =
      (if 1 ≤ i ∧ i < m + 2 then (1 / 2 : K) else 1) *
        ((if i < m + 2 then p * rowE p q m i f else 0)
          + (if i < m + 2 then (1 - p) * rowE p q m i (fun j => f (j + 1)) else 0)
          + (if 1 ≤ i then (1 - q) * rowE p q m (i - 1) f else 0)
          + (if 1 ≤ i then q * rowE p q m (i - 1) (fun j => f (j + 1)) else 0)) := by
  unfold rowE
  rw [← rowExp_step]
  exact rowExp_congr _ _ _ _ _ (fun j hj => rouwMat_get_succ p q m i j hi hj)

/-- the three kinds of rows: first, last, interior -/
theorem rowE_succ_first (p q : K) (m : ℕ) (f : ℕ → K) :
    rowE p q (m + 1) 0 f = p * rowE p q m 0 f + (1 - p) * rowE p q m 0 (fun j => f (j + 1)) := by
  rw [rowE_succ p q m 0 (by omega)]
  simp

theorem rowE_succ_last (p q : K) (m : ℕ) (f : ℕ → K) :
    rowE p q (m + 1) (m + 2) f =
      (1 - q) * rowE p q m (m + 1) f + q * rowE p q m (m + 1) (fun j => f (j + 1)) := by
  rw [rowE_succ p q m (m + 2) (by omega)]
  simp

theorem rowE_succ_interior (p q : K) (m i : ℕ) (hi : i < m + 1) (f : ℕ → K) :
    rowE p q (m + 1) (i + 1) f =
      (1 / 2 : K) * (p * rowE p q m (i + 1) f + (1 - p) * rowE p q m (i + 1) (fun j => f (j + 1))
        + (1 - q) * rowE p q m i f + q * rowE p q m i (fun j => f (j + 1))) := by
  rw [rowE_succ p q m (i + 1) (by omega)]
  have h1 : i + 1 < m + 2 := by omega
  simp [h1]

end

end QE.C13
