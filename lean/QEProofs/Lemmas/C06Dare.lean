/-
  C06 helper lemmas, part 4: the algebra that turns the Riccati equation with
  cross term into the symplectic ("SDA") form iterated by the doubling loop.
  Pure Mathlib matrices (rectangular `B : k × n`, `N : n × k`).
-/
import Mathlib.Data.Matrix.Basic
import Mathlib.Data.Matrix.Mul
import Mathlib.Tactic.Abel

namespace QE.C06
open Matrix

variable {K : Type} [CommRing K] {k n : ℕ}

/-- **Key identity.** With `R̂ V = I`, `S = R̂ + B'HB`, `S Si = Si S = I`,
    `(I + B V B' H) Wi = I`, symmetric `H, V, S`:
    `A0' (H Wi) A0 = A'HA − M' Si M + N̂' V N̂`, where `A0 = A − B V N̂`, `M = N̂ + B'HA`. -/
theorem sda_form_identity
    (A H Wi : Matrix (Fin k) (Fin k) K) (B : Matrix (Fin k) (Fin n) K) (Nh : Matrix (Fin n) (Fin k) K)
    (Rh V S Si : Matrix (Fin n) (Fin n) K)
    (hH : Hᵀ = H) (hV : Vᵀ = V) (hSt : Sᵀ = S)
    (hRV : Rh * V = 1)
    (hS : S = Rh + Bᵀ * H * B) (hSiS : Si * S = 1) (hSSi : S * Si = 1)
    (hW : (1 + B * V * Bᵀ * H) * Wi = 1) :
    (A - B * V * Nh)ᵀ * (H * Wi) * (A - B * V * Nh)
      = Aᵀ * H * A - (Nh + Bᵀ * H * A)ᵀ * Si * (Nh + Bᵀ * H * A) + Nhᵀ * V * Nh := by
  have hL : Bᵀ * H * B = S - Rh := by rw [hS]; abel
  have hSiLV : Si * (Bᵀ * H * B) * V = V - Si := by
    rw [hL, Matrix.mul_sub, Matrix.sub_mul, hSiS, Matrix.one_mul, Matrix.mul_assoc, hRV, Matrix.mul_one]
  -- (i) Woodbury: H (I + G0 H)^{-1} = H − H B S^{-1} B' H
  have hT0 : (H - H * B * Si * Bᵀ * H) * (1 + B * V * Bᵀ * H) = H := by
    have e : H * B * Si * Bᵀ * H * (B * V * Bᵀ * H) = H * B * (Si * (Bᵀ * H * B) * V) * Bᵀ * H := by
      simp only [Matrix.mul_assoc]
    rw [Matrix.sub_mul, Matrix.mul_add, Matrix.mul_add, Matrix.mul_one, Matrix.mul_one, e, hSiLV]
    simp only [Matrix.mul_sub, Matrix.sub_mul, Matrix.mul_assoc]
    abel
  have hT : H * Wi = H - H * B * Si * Bᵀ * H := by
    calc H * Wi = ((H - H * B * Si * Bᵀ * H) * (1 + B * V * Bᵀ * H)) * Wi := by rw [hT0]
      _ = (H - H * B * Si * Bᵀ * H) * ((1 + B * V * Bᵀ * H) * Wi) := by rw [Matrix.mul_assoc]
      _ = H - H * B * Si * Bᵀ * H := by rw [hW, Matrix.mul_one]
  -- cancellation helpers (right-associated products)
  have c1 : ∀ X : Matrix (Fin n) (Fin k) K, Si * (S * X) = X := fun X => by
    rw [← Matrix.mul_assoc, hSiS, Matrix.one_mul]
  have c2 : ∀ X : Matrix (Fin n) (Fin k) K, S * (Si * X) = X := fun X => by
    rw [← Matrix.mul_assoc, hSSi, Matrix.one_mul]
  have c3 : ∀ X : Matrix (Fin n) (Fin k) K, Rh * (V * X) = X := fun X => by
    rw [← Matrix.mul_assoc, hRV, Matrix.one_mul]
  obtain ⟨A0, hA0⟩ : ∃ A0, A0 = A - B * V * Nh := ⟨_, rfl⟩
  obtain ⟨Mm, hM⟩ : ∃ Mm, Mm = Nh + Bᵀ * H * A := ⟨_, rfl⟩
  rw [← hA0, ← hM, hT]
  -- (a) B'H A0 = M − S V N̂
  have ha : Bᵀ * H * A0 = Mm - S * V * Nh := by
    have e : Bᵀ * H * (B * V * Nh) = (Bᵀ * H * B) * V * Nh := by simp only [Matrix.mul_assoc]
    have e2 : Rh * V * Nh = Nh := by rw [hRV, Matrix.one_mul]
    rw [hA0, Matrix.mul_sub, e, hL, hM, Matrix.sub_mul, Matrix.sub_mul, e2]
    abel
  -- (b) its transpose
  have hb : A0ᵀ * H * B = Mmᵀ - Nhᵀ * V * S := by
    calc A0ᵀ * H * B = (Bᵀ * H * A0)ᵀ := by
          simp only [transpose_mul, transpose_transpose, hH, Matrix.mul_assoc]
      _ = (Mm - S * V * Nh)ᵀ := by rw [ha]
      _ = Mmᵀ - Nhᵀ * V * S := by
          simp only [transpose_sub, transpose_mul, hV, hSt, Matrix.mul_assoc]
  -- (c) split
  have hc : A0ᵀ * (H - H * B * Si * Bᵀ * H) * A0
      = A0ᵀ * H * A0 - (A0ᵀ * H * B) * Si * (Bᵀ * H * A0) := by
    simp only [Matrix.mul_sub, Matrix.sub_mul, Matrix.mul_assoc]
  -- (d) the quadratic term
  have hd : (Mmᵀ - Nhᵀ * V * S) * Si * (Mm - S * V * Nh)
      = Mmᵀ * Si * Mm - Mmᵀ * V * Nh - Nhᵀ * V * Mm + Nhᵀ * V * S * V * Nh := by
    simp only [Matrix.mul_sub, Matrix.sub_mul, Matrix.mul_assoc, c1, c2]
    abel
  -- (e) A0' H A0
  have he : A0ᵀ * H * A0
      = Aᵀ * H * A - Aᵀ * H * B * V * Nh - Nhᵀ * V * Bᵀ * H * A + Nhᵀ * V * (S - Rh) * V * Nh := by
    rw [← hL, hA0]
    simp only [transpose_sub, transpose_mul, hV, Matrix.mul_sub, Matrix.sub_mul, Matrix.mul_assoc]
    abel
  have hm1 : Mmᵀ * V * Nh = Nhᵀ * V * Nh + Aᵀ * H * B * V * Nh := by
    rw [hM]
    simp only [transpose_add, transpose_mul, transpose_transpose, hH, Matrix.add_mul, Matrix.mul_assoc]
  have hm2 : Nhᵀ * V * Mm = Nhᵀ * V * Nh + Nhᵀ * V * Bᵀ * H * A := by
    rw [hM]
    simp only [Matrix.mul_add, Matrix.mul_assoc]
  have hv : Nhᵀ * V * (S - Rh) * V * Nh = Nhᵀ * V * S * V * Nh - Nhᵀ * V * Nh := by
    simp only [Matrix.mul_sub, Matrix.sub_mul, Matrix.mul_assoc, c3]
  rw [hc, ha, hb, hd, he, hm1, hm2, hv]
  abel

/-- **Riccati equation ⇔ SDA form.** `X = H + γI` solves the Riccati equation with cross term
    iff `H` solves `H = H0 + A0' H (I + G0 H)^{-1} A0` for the triple
    `A0 = A − B R̂^{-1} N̂`, `G0 = B R̂^{-1} B'`, `H0 = Q + γA'A − γI − N̂' R̂^{-1} N̂`
    (`R̂ = R + γB'B`, `N̂ = N + γB'A`; `V`, `Si`, `Wi` are the inverses involved). -/
theorem dare_iff_sda_form
    (A Q H Wi X : Matrix (Fin k) (Fin k) K) (B : Matrix (Fin k) (Fin n) K) (N Nh : Matrix (Fin n) (Fin k) K)
    (R Rh V S Si : Matrix (Fin n) (Fin n) K) (g : K)
    (hH : Hᵀ = H) (hR : Rᵀ = R)
    (hRh : Rh = R + g • (Bᵀ * B)) (hNh : Nh = N + g • (Bᵀ * A)) (hX : X = H + g • (1 : Matrix (Fin k) (Fin k) K))
    (hS : S = R + Bᵀ * X * B)
    (hRV : Rh * V = 1) (hSiS : Si * S = 1) (hSSi : S * Si = 1)
    (hW : (1 + B * V * Bᵀ * H) * Wi = 1) :
    (X = Aᵀ * X * A - (N + Bᵀ * X * A)ᵀ * Si * (N + Bᵀ * X * A) + Q) ↔
    (H = (Q + g • (Aᵀ * A) - g • (1 : Matrix (Fin k) (Fin k) K) - Nhᵀ * V * Nh)
          + (A - B * V * Nh)ᵀ * (H * Wi) * (A - B * V * Nh)) := by
  have hRht : Rhᵀ = Rh := by
    rw [hRh, transpose_add, transpose_smul, transpose_mul, transpose_transpose, hR]
  have hV : Vᵀ = V := by
    have h1 : Vᵀ * Rh = 1 := by rw [← hRht, ← transpose_mul, hRV, transpose_one]
    calc Vᵀ = Vᵀ * (Rh * V) := by rw [hRV, Matrix.mul_one]
      _ = (Vᵀ * Rh) * V := by rw [Matrix.mul_assoc]
      _ = V := by rw [h1, Matrix.one_mul]
  have eS : S = Rh + Bᵀ * H * B := by
    rw [hS, hX, hRh]
    simp only [Matrix.mul_add, Matrix.add_mul, Matrix.mul_smul, Matrix.smul_mul, Matrix.mul_one]
    abel
  have eM : N + Bᵀ * X * A = Nh + Bᵀ * H * A := by
    rw [hX, hNh]
    simp only [Matrix.mul_add, Matrix.add_mul, Matrix.mul_smul, Matrix.smul_mul, Matrix.mul_one]
    abel
  have eA : Aᵀ * X * A = Aᵀ * H * A + g • (Aᵀ * A) := by
    rw [hX]
    simp only [Matrix.mul_add, Matrix.add_mul, Matrix.mul_smul, Matrix.smul_mul, Matrix.mul_one]
  have hSt : Sᵀ = S := by
    rw [eS, transpose_add, hRht, transpose_mul, transpose_mul, transpose_transpose, hH, Matrix.mul_assoc]
  have key := sda_form_identity A H Wi B Nh Rh V S Si hH hV hSt hRV eS hSiS hSSi hW
  rw [eM, eA, key, ← sub_eq_zero, ← sub_eq_zero (a := H)]
  have : X - (Aᵀ * H * A + g • (Aᵀ * A) - (Nh + Bᵀ * H * A)ᵀ * Si * (Nh + Bᵀ * H * A) + Q)
      = H - (Q + g • (Aᵀ * A) - g • (1 : Matrix (Fin k) (Fin k) K) - Nhᵀ * V * Nh
          + (Aᵀ * H * A - (Nh + Bᵀ * H * A)ᵀ * Si * (Nh + Bᵀ * H * A) + Nhᵀ * V * Nh)) := by
    rw [hX]; abel
  rw [this]

/-- **closed-loop matrix as SDA witness.** With `S = R̂ + B'HB`, `M = N̂ + B'HA`, `V = R̂^{-1}`,
    `Si = S^{-1}`: `(I + B V B' H)(A − B Si M) = A − B V N̂`, i.e. the closed-loop matrix `A − B F`,
    `F = S^{-1} M`, is `(I + G0 H)^{-1} A0`. -/
theorem closed_loop_witness
    (A H : Matrix (Fin k) (Fin k) K) (B : Matrix (Fin k) (Fin n) K) (Nh : Matrix (Fin n) (Fin k) K)
    (Rh V S Si : Matrix (Fin n) (Fin n) K)
    (hVR : V * Rh = 1) (hS : S = Rh + Bᵀ * H * B) (hSSi : S * Si = 1) :
    (1 + B * V * Bᵀ * H) * (A - B * Si * (Nh + Bᵀ * H * A)) = A - B * V * Nh := by
  have hL : Bᵀ * H * B = S - Rh := by rw [hS]; abel
  have c1 : ∀ X : Matrix (Fin n) (Fin k) K, S * (Si * X) = X := fun X => by
    rw [← Matrix.mul_assoc, hSSi, Matrix.one_mul]
  have c2 : ∀ X : Matrix (Fin n) (Fin k) K, V * (Rh * X) = X := fun X => by
    rw [← Matrix.mul_assoc, hVR, Matrix.one_mul]
  have e : B * V * Bᵀ * H * (B * Si * (Nh + Bᵀ * H * A))
      = B * V * ((Bᵀ * H * B) * (Si * (Nh + Bᵀ * H * A))) := by simp only [Matrix.mul_assoc]
  rw [Matrix.add_mul, Matrix.one_mul, Matrix.mul_sub, e, hL, Matrix.sub_mul, c1]
  simp only [Matrix.mul_sub, Matrix.mul_add, Matrix.mul_assoc, c2]
  abel

end QE.C06
