/-
  C04 — termination of `solve_tableau` from a lexicographically positive start: the
  criterion row (read along right-hand side, then the `slack_start` block) strictly
  lex-decreases at every pivot and is determined by the basis, so no basis recurs and the
  number of iterations is bounded by the number of bases + 1.
-/
import QEProofs.Lemmas.C04LexInv
import QEProofs.Lemmas.C04MinmaxTie
import Mathlib.Data.List.Sections
import Mathlib.Data.List.Perm.Subperm
namespace QE.C04
open QE QE.Pivot Finset

variable {K : Type} [Field K] [LinearOrder K] [IsStrictOrderedRing K]

/-! ### the reverse span: the initial rows are combinations of the current rows -/

omit [LinearOrder K] [IsStrictOrderedRing K] in
theorem inSpan_pivot_rev [DecidableEq K] (T : M K) (L N c r : ℕ) (v : ℕ → K) (hs : Shape T L N)
    (hr : r < L) (hp : T.get r c ≠ 0) (h : InSpan T L N v) : InSpan (pivot T c r) L N v := by
  obtain ⟨w, hw⟩ := h
  refine ⟨fun i => if i = r then ∑ k ∈ range L, w k * T.get k c else w i, fun j hj => ?_⟩
  rw [hw j hj]
  have hrm : r ∈ range L := Finset.mem_range.mpr hr
  rw [← Finset.add_sum_erase _ _ hrm, ← Finset.add_sum_erase (range L)
    (fun i => (if i = r then ∑ k ∈ range L, w k * T.get k c else w i) * (pivot T c r).get i j) hrm]
  simp only [if_true]
  have h1 : ∑ i ∈ (range L).erase r,
      (if i = r then ∑ k ∈ range L, w k * T.get k c else w i) * (pivot T c r).get i j
      = ∑ i ∈ (range L).erase r, w i * T.get i j
        - T.get r j / T.get r c * ∑ i ∈ (range L).erase r, w i * T.get i c := by
    rw [Finset.mul_sum, ← Finset.sum_sub_distrib]
    apply Finset.sum_congr rfl
    intro i hi
    have hir : i ≠ r := Finset.ne_of_mem_erase hi
    have hiL : i < L := Finset.mem_range.mp (Finset.mem_of_mem_erase hi)
    rw [if_neg hir, pivot_get_i T c r i j (by rw [hs.1]; omega) (by rw [hs.2]; exact hj) hir]
    ring
  have h2 : ∑ k ∈ range L, w k * T.get k c
      = w r * T.get r c + ∑ i ∈ (range L).erase r, w i * T.get i c :=
    (Finset.add_sum_erase _ _ hrm).symm
  rw [h1, h2, pivot_get_r T c r j (by rw [hs.1]; omega) (by rw [hs.2]; exact hj)]
  field_simp
  ring

omit [LinearOrder K] [IsStrictOrderedRing K] in
theorem rowsSpanRev_pivot [DecidableEq K] (T0 T : M K) (L N c r : ℕ) (hs : Shape T L N) (hr : r < L)
    (hp : T.get r c ≠ 0) (h : RowsSpan T T0 L N) : RowsSpan (pivot T c r) T0 L N :=
  fun q hq => inSpan_pivot_rev T L N c r _ hs hr hp (h q hq)

/-! ### the criterion row is determined by the basis -/

omit [LinearOrder K] [IsStrictOrderedRing K] in
theorem crit_of_basis (T0 T T' : M K) (b : List ℕ) (L N : ℕ) (base : ℕ → K)
    (hc : Canon T b L N) (hc' : Canon T' b L N)
    (hrev : RowsSpan T T0 L N) (hcs : CritSpan T0 T L N base) (hcs' : CritSpan T0 T' L N base) :
    ∀ j, j < N + 1 → T.get L j = T'.get L j := by
  obtain ⟨w, hw⟩ := hcs
  obtain ⟨w', hw'⟩ := hcs'
  -- coefficients of the initial rows w.r.t. the current rows are read off the basic columns
  have hcoef : ∀ q, q < L → ∀ j, j < N + 1 →
      T0.get q j = ∑ k ∈ range L, T0.get q (b.getD k 0) * T.get k j := by
    intro q hq
    exact span_coeff_cols T L N (fun k => b.getD k 0) (fun j => T0.get q j)
      (fun k hk => by have := (hc.2 k hk).1; omega)
      (fun k k' hk hk' => by
        rw [(hc.2 k' hk').2 k (by omega)])
      (hrev q hq)
  have hzero : ∀ k, k < L → ∑ q ∈ range L, (w q - w' q) * T0.get q (b.getD k 0) = 0 := by
    intro k hk
    have hbk := (hc.2 k hk).1
    have e1 := hw (b.getD k 0) (by omega)
    have e2 := hw' (b.getD k 0) (by omega)
    simp only at e1 e2
    rw [(hc.2 k hk).2 L (by omega), if_neg (by omega)] at e1
    rw [(hc'.2 k hk).2 L (by omega), if_neg (by omega)] at e2
    simp only [sub_mul, Finset.sum_sub_distrib]
    rw [← e1, ← e2]; ring
  intro j hj
  have e1 := hw j hj
  have e2 := hw' j hj
  simp only at e1 e2
  have hdiff : ∑ q ∈ range L, (w q - w' q) * T0.get q j = 0 := by
    have : ∀ q ∈ range L, (w q - w' q) * T0.get q j
        = ∑ k ∈ range L, ((w q - w' q) * T0.get q (b.getD k 0)) * T.get k j := by
      intro q hq
      rw [hcoef q (Finset.mem_range.mp hq) j hj, Finset.mul_sum]
      apply Finset.sum_congr rfl; intro k _; ring
    rw [Finset.sum_congr rfl this, Finset.sum_comm]
    apply Finset.sum_eq_zero
    intro k hk
    rw [← Finset.sum_mul, hzero k (Finset.mem_range.mp hk), zero_mul]
  simp only [sub_mul, Finset.sum_sub_distrib] at hdiff
  rw [← e1, ← e2] at hdiff
  linear_combination -hdiff

/-! ### the termination invariant -/

structure TermInv (T0 : M K) (base : ℕ → K) (L N : ℕ) (T : M K) (b : List ℕ) : Prop where
  shape : Shape T L N
  canon : Canon T b L N
  fwd : RowsSpan T0 T L N
  rev : RowsSpan T T0 L N
  crit : CritSpan T0 T L N base
  lex : LexRows T L N (N - L)

theorem termInv_step (skip : Bool) (T0 : M K) (base : ℕ → K) (L N : ℕ) (hLN : L ≤ N) (T : M K)
    (b : List ℕ) (T' : M K) (b' : List ℕ) (h : TermInv T0 base L N T b)
    (hst : Step (tol0 : Tol K) skip T b T' b') :
    TermInv T0 base L N T' b' ∧
      LexLt (lexCols L N (N - L)) (fun col => T'.get L col) (fun col => T.get L col) := by
  obtain ⟨c, r, hc, hr, hp, hpos, hmin, hT, hb⟩ := step_data_lex skip T b T' b' L N h.shape hst
  subst hT hb
  have hcN : c < N := by omega
  have hss : N - L + L ≤ N + 1 := by omega
  exact ⟨⟨shape_pivot T L N c r h.shape,
    canon_pivot T b L N c r h.shape h.canon hcN hr (ne_of_gt hp),
    rowsSpan_pivot T0 T L N c r h.shape hr h.fwd,
    rowsSpanRev_pivot T0 T L N c r h.shape hr (ne_of_gt hp) h.rev,
    critSpan_pivot T0 T L N c r base h.shape hr h.fwd h.crit,
    lexRows_pivot T L N (N - L) c r h.shape hss h.lex hr hp hmin⟩,
    crit_lex_decreases T L N (N - L) c r h.shape hss h.lex hr hp hpos⟩

/-! ### finitely many bases -/

/-- all conceivable bases: lists of `L` column indices `< N` -/
def allBases (L N : ℕ) : List (List ℕ) := (List.replicate L (List.range N)).sections

omit [LinearOrder K] [IsStrictOrderedRing K] in
theorem mem_allBases (T : M K) (b : List ℕ) (L N : ℕ) (h : Canon T b L N) : b ∈ allBases L N := by
  unfold allBases
  rw [List.mem_sections, List.forall₂_iff_get]
  refine ⟨by simp [h.1], fun i h1 h2 => ?_⟩
  simp only [List.get_eq_getElem, List.getElem_replicate, List.mem_range]
  have := (h.2 i (by simpa using h2)).1
  rwa [← List.getElem_eq_getD (h := h1) 0] at this

/-- **iteration bound**: started from a state satisfying the termination invariant, having
    already seen the (pairwise different) bases `seen`, `solve_tableau` performs at most
    `#bases + 1 − #seen` iterations — whatever `max_iter` -/
theorem solveTableau_iters_bound (skip : Bool) (T0 : M K) (base : ℕ → K) (L N : ℕ) (hLN : L ≤ N) :
    ∀ (fuel : ℕ) (T : M K) (b : List ℕ) (seen : List (List ℕ)),
      TermInv T0 base L N T b → seen ⊆ allBases L N → seen.Nodup →
      (∀ b' ∈ seen, ∃ T', TermInv T0 base L N T' b' ∧
        LexLt (lexCols L N (N - L)) (fun col => T.get L col) (fun col => T'.get L col)) →
      (solveTableau (tol0 : Tol K) skip fuel T b).iters + seen.length ≤ (allBases L N).length + 1 := by
  intro fuel
  have hseenlen : ∀ seen : List (List ℕ), seen ⊆ allBases L N → seen.Nodup →
      seen.length ≤ (allBases L N).length :=
    fun seen hsub hnd => (List.subperm_of_subset hnd hsub).length_le
  induction fuel with
  | zero =>
    intro T b seen _ hsub hnd _
    have := hseenlen seen hsub hnd
    simp only [solveTableau]; omega
  | succ fuel ih =>
    intro T b seen hinv hsub hnd hseen
    have hlen := hseenlen seen hsub hnd
    unfold solveTableau
    cases hpc : pivotCol T skip (tol0 : Tol K).fea with
    | none => simp only; omega
    | some c =>
      simp only
      by_cases hf : (lexMinRatio (dropLast T) c (T.nc - (T.nr - 1) - 1) (tol0 : Tol K).piv
          (tol0 : Tol K).diff).1 = true
      · rw [if_pos hf]
        have hst : Step (tol0 : Tol K) skip T b
            (pivot T c (lexMinRatio (dropLast T) c (T.nc - (T.nr - 1) - 1)
              (tol0 : Tol K).piv (tol0 : Tol K).diff).2)
            (b.set (lexMinRatio (dropLast T) c (T.nc - (T.nr - 1) - 1)
              (tol0 : Tol K).piv (tol0 : Tol K).diff).2 c) := ⟨c, hpc, hf, rfl, rfl⟩
        obtain ⟨hinv', hlt⟩ := termInv_step skip T0 base L N hLN T b _ _ hinv hst
        have hns : b ∉ seen := by
          intro hb
          obtain ⟨T', hT', hlt'⟩ := hseen b hb
          have heq := crit_of_basis T0 T T' b L N base hinv.canon hT'.canon hinv.rev hinv.crit hT'.crit
          have hcols := lexCols_lt L N (N - L) (by omega)
          have := lexLt_congr _ _ _ _ _ (fun _ _ => rfl)
            (fun col hcol => (heq col (hcols col hcol)).symm) hlt'
          exact lexLt_irrefl _ _ this
        have := ih _ _ (b :: seen) hinv'
          (by
            intro x hx
            rcases List.mem_cons.mp hx with rfl | hx
            · exact mem_allBases T _ L N hinv.canon
            · exact hsub hx)
          (List.nodup_cons.mpr ⟨hns, hnd⟩)
          (by
            intro b' hb'
            rcases List.mem_cons.mp hb' with rfl | hb'
            · exact ⟨T, hinv, hlt⟩
            · obtain ⟨T', hT', hlt'⟩ := hseen b' hb'
              exact ⟨T', hT', lexLt_trans _ _ _ _ hlt hlt'⟩)
        simp only [List.length_cons] at this
        simp only
        omega
      · rw [if_neg hf]; simp only; omega

/-- **termination**: from a state satisfying the termination invariant, `solve_tableau` does not
    stop at the iteration cap as soon as `max_iter > #bases + 1` -/
theorem solveTableau_terminates (skip : Bool) (T0 : M K) (base : ℕ → K) (L N : ℕ) (hLN : L ≤ N)
    (fuel : ℕ) (T : M K) (b : List ℕ) (h : TermInv T0 base L N T b)
    (hfuel : (allBases L N).length + 1 < fuel) :
    (solveTableau (tol0 : Tol K) skip fuel T b).status ≠ 1 ∧
      (solveTableau (tol0 : Tol K) skip fuel T b).iters ≤ (allBases L N).length + 1 := by
  have hb := solveTableau_iters_bound skip T0 base L N hLN fuel T b [] h (by simp) List.nodup_nil
    (by simp)
  simp only [List.length_nil, add_zero] at hb
  refine ⟨fun h1 => ?_, hb⟩
  have := solveTableau_status1 (tol0 : Tol K) skip fuel T b h1
  omega

end QE.C04
