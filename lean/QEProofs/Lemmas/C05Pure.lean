/-
  Lemmas for property C05, pure_nash_brute: `np.ndindex` enumerates exactly the action
  profiles, each once; `payoff_vector.max()` is the maximum.
-/
import QEModel.C05
import Mathlib.Algebra.Order.Field.Basic
import Mathlib.Data.List.Nodup
import Mathlib.Data.List.Range
import Mathlib.Tactic.Linarith

namespace QE.C05
open QE

/-- `a` is an action profile of a game with `nums` actions per player -/
def IsProfile (nums a : List ℕ) : Prop :=
  a.length = nums.length ∧ ∀ i, i < nums.length → a.getD i 0 < nums.getD i 0

theorem mem_profiles : ∀ (nums a : List ℕ), a ∈ profiles nums ↔ IsProfile nums a
  | [], a => by
    unfold profiles IsProfile
    constructor
    · intro h
      have : a = [] := by simpa using h
      subst this; simp
    · rintro ⟨h, _⟩
      have : a = [] := List.length_eq_zero_iff.mp h
      subst this; simp
  | n :: ns, a => by
    unfold profiles IsProfile
    rw [List.mem_flatMap]
    constructor
    · rintro ⟨x, hx, ha⟩
      rw [List.mem_map] at ha
      obtain ⟨r, hr, rfl⟩ := ha
      have ih := (mem_profiles ns r).mp hr
      refine ⟨by simp [ih.1], ?_⟩
      intro i hi
      cases i with
      | zero => simpa using List.mem_range.mp hx
      | succ i =>
        have := ih.2 i (by simpa using hi)
        simpa using this
    · rintro ⟨hl, hb⟩
      cases a with
      | nil => simp at hl
      | cons x r =>
        refine ⟨x, ?_, ?_⟩
        · have := hb 0 (by simp)
          exact List.mem_range.mpr (by simpa using this)
        · rw [List.mem_map]
          refine ⟨r, ?_, rfl⟩
          apply (mem_profiles ns r).mpr
          refine ⟨by simpa using hl, ?_⟩
          intro i hi
          have := hb (i + 1) (by simpa using hi)
          simpa using this

theorem profiles_nodup : ∀ (nums : List ℕ), (profiles nums).Nodup
  | [] => by unfold profiles; simp
  | n :: ns => by
    unfold profiles
    rw [List.nodup_flatMap]
    constructor
    · intro x _
      exact (profiles_nodup ns).map (fun r s h => by simpa using h)
    · apply List.Nodup.pairwise_of_forall_ne (List.nodup_range)
      intro x _ y _ hxy
      simp only [Function.onFun, List.disjoint_left]
      intro a ha hb
      rw [List.mem_map] at ha hb
      obtain ⟨r, _, rfl⟩ := ha
      obtain ⟨s, _, hs⟩ := hb
      apply hxy
      have := List.cons_eq_cons.mp hs
      exact this.1.symm

section
set_option linter.unusedSectionVars false
variable {K : Type} [Field K] [LinearOrder K] [IsStrictOrderedRing K]

theorem foldl_max_spec (f : ℕ → K) : ∀ (l : List ℕ) (a0 : K),
    let r := l.foldl (fun acc b => if acc < f b then f b else acc) a0
    a0 ≤ r ∧ (∀ b, b ∈ l → f b ≤ r) ∧ (r = a0 ∨ ∃ b, b ∈ l ∧ r = f b)
  | [], a0 => by simp
  | x :: xs, a0 => by
    intro r
    have ih := foldl_max_spec f xs (if a0 < f x then f x else a0)
    obtain ⟨h1, h2, h3⟩ := ih
    have hstep : a0 ≤ (if a0 < f x then f x else a0) ∧ f x ≤ (if a0 < f x then f x else a0) := by
      split
      · rename_i h; exact ⟨le_of_lt h, le_refl _⟩
      · rename_i h; exact ⟨le_refl _, not_lt.mp h⟩
    refine ⟨le_trans hstep.1 h1, ?_, ?_⟩
    · intro b hb
      rcases List.mem_cons.mp hb with rfl | hb
      · exact le_trans hstep.2 h1
      · exact h2 b hb
    · rcases h3 with h3 | ⟨b, hb, h3⟩
      · by_cases hlt : a0 < f x
        · right; exact ⟨x, List.mem_cons_self, by show List.foldl _ _ xs = f x; rw [h3, if_pos hlt]⟩
        · left; show List.foldl _ _ xs = a0; rw [h3, if_neg hlt]
      · right; exact ⟨b, List.mem_cons_of_mem _ hb, h3⟩

/-- `payoff_vector.max()` on a non-empty vector is an upper bound that is attained -/
theorem vecMax_spec (n : ℕ) (hn : 0 < n) (f : ℕ → K) :
    (∀ b, b < n → f b ≤ vecMax n f) ∧ ∃ b, b < n ∧ vecMax n f = f b := by
  have h := foldl_max_spec f (List.range n) (f 0)
  obtain ⟨_, h2, h3⟩ := h
  refine ⟨fun b hb => h2 b (List.mem_range.mpr hb), ?_⟩
  rcases h3 with h3 | ⟨b, hb, h3⟩
  · exact ⟨0, hn, h3⟩
  · exact ⟨b, List.mem_range.mp hb, h3⟩

/-- the best-response test of `is_best_response` for a pure action, read as a statement about
    unilateral deviations -/
theorem isBR_iff (nums : List ℕ) (pay : List (List K)) (tol : K) (a : List ℕ) (i : ℕ)
    (hn : 0 < nums.getD i 0) :
    isBR nums pay tol a i = true ↔
      ∀ b, b < nums.getD i 0 → payoffAt nums pay i a b ≤ payoffAt nums pay i a (a.getD i 0) + tol := by
  unfold isBR
  obtain ⟨hub, b0, hb0, hmax⟩ := vecMax_spec (nums.getD i 0) hn (payoffAt nums pay i a)
  simp only [decide_eq_true_eq]
  constructor
  · intro h b hb
    have := hub b hb
    linarith
  · intro h
    have := h b0 hb0
    rw [hmax]; linarith

end
end QE.C05
