/-
  Lemmas for C09, part 5: `_generate_a_indptr` (bounded scan) — structure for all
  inputs, counts on sorted inputs, agreement with the unguarded scan.
-/
import Mathlib.Tactic.Linarith
import QEModel.C09
namespace QE.C09

/-! ### all inputs: the scan consumes a prefix of what is left and never leaves the array -/

/-- `scanState` stops after `k` further elements: the remainder is the remainder dropped by `k`,
    the index advanced by `k`, and `k` does not exceed what is left — so every element the
    loop inspects is an element of the array (no read at an index `≥ len`). -/
theorem scanState_drop (s : Nat) : ∀ (rest : List Nat) (idx : Nat),
    ∃ k, k ≤ rest.length ∧ scanState s rest idx = (idx + k, rest.drop k) ∧
      (∀ x ∈ rest.take k, x = s) ∧ (∀ x, (rest.drop k).head? = some x → x ≠ s) := by
  intro rest
  induction rest with
  | nil => intro idx; exact ⟨0, by simp, by simp [scanState], by simp, by simp⟩
  | cons x xs ih =>
    intro idx
    by_cases hx : x = s
    · obtain ⟨k, hk, he, h1, h2⟩ := ih (idx + 1)
      refine ⟨k + 1, by simp; omega, ?_, ?_, ?_⟩
      · simp only [scanState, if_pos hx, he, List.drop_succ_cons]
        congr 1; omega
      · intro y hy
        simp only [List.take_succ_cons, List.mem_cons] at hy
        rcases hy with rfl | hy
        · exact hx
        · exact h1 y hy
      · simpa using h2
    · refine ⟨0, by simp, by simp [scanState, hx], by simp, ?_⟩
      intro y hy
      simp at hy
      subst hy; exact hx

/-- invariant of the outer loop relative to the whole array `S`: positions stay `≤ len S`,
    are non-decreasing, and what is left is always `S` minus the consumed prefix -/
theorem genLoop_inv (S : List Nat) : ∀ (ss : List Nat) (rest : List Nat) (idx : Nat),
    rest = S.drop idx → idx ≤ S.length →
    (genLoop rest idx ss).length = ss.length ∧
    (∀ y ∈ genLoop rest idx ss, idx ≤ y ∧ y ≤ S.length) ∧
    List.Pairwise (· ≤ ·) (genLoop rest idx ss) := by
  intro ss
  induction ss with
  | nil => intro rest idx _ _; simp [genLoop]
  | cons s ss ih =>
    intro rest idx hr hi
    obtain ⟨k, hk, he, _, _⟩ := scanState_drop s rest idx
    have hk' : idx + k ≤ S.length := by
      rw [hr, List.length_drop] at hk; omega
    have hr' : rest.drop k = S.drop (idx + k) := by
      rw [hr, List.drop_drop]
    obtain ⟨h1, h2, h3⟩ := ih (rest.drop k) (idx + k) hr' hk'
    simp only [genLoop, he]
    refine ⟨by simp [h1], ?_, ?_⟩
    · intro y hy
      rcases List.mem_cons.mp hy with rfl | hy
      · omega
      · have := h2 y hy; omega
    · rw [List.pairwise_cons]
      exact ⟨fun y hy => (h2 y hy).1, h3⟩

/-! ### sorted inputs: the pointer is the count of smaller states -/

/-- on a sorted remainder whose elements are all `≥ s` the scan for `s` consumes exactly the
    elements `< s+1`, leaves a sorted remainder with elements `≥ s+1`, and counts split -/
theorem scanState_sorted (s : Nat) : ∀ (rest : List Nat) (idx : Nat),
    List.Pairwise (· ≤ ·) rest → (∀ x ∈ rest, s ≤ x) →
    scanState s rest idx = (idx + rest.countP (· < s + 1), rest.drop (rest.countP (· < s + 1))) ∧
    (∀ x ∈ rest.drop (rest.countP (· < s + 1)), s + 1 ≤ x) ∧
    (∀ t, s + 1 ≤ t → rest.countP (· < t)
        = rest.countP (· < s + 1) + (rest.drop (rest.countP (· < s + 1))).countP (· < t)) := by
  intro rest
  induction rest with
  | nil => intro idx _ _; simp [scanState]
  | cons x xs ih =>
    intro idx hp hge
    rw [List.pairwise_cons] at hp
    have hxs : ∀ y ∈ xs, s ≤ y := fun y hy => hge y (List.mem_cons_of_mem _ hy)
    by_cases hx : x = s
    · obtain ⟨h1, h2, h3⟩ := ih (idx + 1) hp.2 hxs
      have hc : (x :: xs).countP (· < s + 1) = xs.countP (· < s + 1) + 1 := by
        rw [List.countP_cons]; simp [hx]
      rw [hc]
      refine ⟨?_, ?_, ?_⟩
      · simp only [scanState, if_pos hx, h1, List.drop_succ_cons]
        congr 1; omega
      · simpa using h2
      · intro t ht
        rw [List.countP_cons, h3 t ht, List.drop_succ_cons]
        have : decide (x < t) = true := by simp; omega
        simp [this]; omega
    · have hxgt : s + 1 ≤ x := by
        have := hge x List.mem_cons_self; omega
      have hall : ∀ y ∈ (x :: xs), s + 1 ≤ y := by
        intro y hy
        rcases List.mem_cons.mp hy with rfl | hy
        · exact hxgt
        · have := hp.1 y hy; omega
      have hc : (x :: xs).countP (· < s + 1) = 0 := by
        rw [List.countP_eq_zero]
        intro y hy
        have := hall y hy
        simp; omega
      rw [hc]
      refine ⟨by simp [scanState, hx], by simpa using hall, ?_⟩
      intro t _; simp

theorem genLoop_sorted : ∀ (k s0 : Nat) (rest : List Nat) (idx : Nat),
    List.Pairwise (· ≤ ·) rest → (∀ x ∈ rest, s0 ≤ x) →
    genLoop rest idx (List.range' s0 k)
      = (List.range' s0 k).map fun s => idx + rest.countP (· < s + 1) := by
  intro k
  induction k with
  | zero => intro s0 rest idx _ _; simp [genLoop]
  | succ k ih =>
    intro s0 rest idx hp hge
    obtain ⟨h1, h2, h3⟩ := scanState_sorted s0 rest idx hp hge
    rw [List.range'_succ]
    simp only [genLoop, h1, List.map_cons]
    congr 1
    rw [ih (s0 + 1) _ _ (hp.sublist (List.drop_sublist _ _)) h2]
    apply List.map_congr_left
    intro s hs
    rw [List.mem_range'_1] at hs
    rw [h3 (s + 1) (by omega)]
    omega

/-- **`a_indptr` on sorted input**: entry `k` is the number of pairs whose state is `< k`
    (for `k < n`; also for `k = n` when all states are `< n`). -/
theorem generateAIndptr_sorted (n : Nat) (S : List Nat) (hp : List.Pairwise (· ≤ ·) S) (k : Nat) :
    (k < n → (generateAIndptr n S)[k]? = some (S.countP (· < k))) ∧
    (k = n → (generateAIndptr n S)[k]? = some S.length) := by
  unfold generateAIndptr
  by_cases hn : n = 0
  · subst hn
    simp
    intro h; subst h; simp
  rw [if_neg hn]
  have hg := genLoop_sorted (n - 1) 0 S 0 hp (fun _ _ => Nat.zero_le _)
  rw [← List.range_eq_range'] at hg
  rw [hg]
  constructor
  · intro hk
    cases k with
    | zero => simp
    | succ k =>
      rw [List.getElem?_append_left (by simp; omega), List.getElem?_cons_succ]
      simp [List.getElem?_range (by omega : k < n - 1)]
  · intro hk
    subst hk
    cases k with
    | zero => exact absurd rfl hn
    | succ k =>
      rw [List.getElem?_append_right (by simp)]
      simp

/-! ### the unguarded scan agrees with the guarded one whenever it stays inside the array -/

theorem scanStateU_some (s : Nat) : ∀ (rest : List Nat) (idx : Nat) (r : Nat × List Nat),
    scanStateU s rest idx = some r → scanState s rest idx = r := by
  intro rest
  induction rest with
  | nil => intro idx r h; simp [scanStateU] at h
  | cons x xs ih =>
    intro idx r h
    by_cases hx : x = s
    · simp only [scanStateU, if_pos hx] at h
      simp only [scanState, if_pos hx]
      exact ih _ _ h
    · simp only [scanStateU, if_neg hx, Option.some.injEq] at h
      simp only [scanState, if_neg hx]
      exact h

/-- the unguarded scan runs off the array exactly when everything that is left equals `s` -/
theorem scanStateU_none_iff (s : Nat) : ∀ (rest : List Nat) (idx : Nat),
    scanStateU s rest idx = none ↔ ∀ x ∈ rest, x = s := by
  intro rest
  induction rest with
  | nil => intro idx; simp [scanStateU]
  | cons x xs ih =>
    intro idx
    by_cases hx : x = s
    · subst hx
      simp [scanStateU, ih]
    · simp [scanStateU, hx]

theorem genLoopU_some : ∀ (ss : List Nat) (rest : List Nat) (idx : Nat) (l : List Nat),
    genLoopU rest idx ss = some l → genLoop rest idx ss = l := by
  intro ss
  induction ss with
  | nil => intro rest idx l h; simp [genLoopU] at h; simp [genLoop, h]
  | cons s ss ih =>
    intro rest idx l h
    simp only [genLoopU] at h
    cases hs : scanStateU s rest idx with
    | none => simp [hs] at h
    | some r =>
      simp only [hs] at h
      have hr := scanStateU_some s rest idx r hs
      cases hg : genLoopU r.2 r.1 ss with
      | none => simp [hg] at h
      | some l' =>
        simp only [hg, Option.map_some, Option.some.injEq] at h
        subst h
        simp only [genLoop, hr, ih _ _ _ hg]


theorem genLoopU_none_iff : ∀ (k s0 : Nat) (rest : List Nat) (idx : Nat),
    List.Pairwise (· ≤ ·) rest → (∀ x ∈ rest, s0 ≤ x) →
    (genLoopU rest idx (List.range' s0 k) = none ↔ 0 < k ∧ ∀ x ∈ rest, x < s0 + k) := by
  intro k
  induction k with
  | zero => intro s0 rest idx _ _; simp [genLoopU]
  | succ k ih =>
    intro s0 rest idx hp hge
    rw [List.range'_succ]
    simp only [genLoopU]
    cases hs : scanStateU s0 rest idx with
    | none =>
      have hall := (scanStateU_none_iff s0 rest idx).mp hs
      simp only [true_iff]
      exact ⟨by omega, fun x hx => by rw [hall x hx]; omega⟩
    | some r =>
      have hr := scanStateU_some s0 rest idx r hs
      obtain ⟨h1, h2, _⟩ := scanState_sorted s0 rest idx hp hge
      obtain ⟨k', hk', he, htake, _⟩ := scanState_drop s0 rest idx
      have hck : k' = rest.countP (· < s0 + 1) := by
        rw [h1] at he
        have := congrArg Prod.fst he
        simp at this; omega
      subst hck
      rw [h1] at hr
      subst hr
      simp only [Option.map_eq_none_iff]
      rw [ih (s0 + 1) _ _ (hp.sublist (List.drop_sublist _ _)) h2]
      have hnotall : ¬ ∀ x ∈ rest, x = s0 := by
        intro hall
        rw [(scanStateU_none_iff s0 rest idx).mpr hall] at hs
        cases hs
      constructor
      · rintro ⟨_, hb⟩
        refine ⟨by omega, ?_⟩
        intro x hx
        rw [← List.take_append_drop (rest.countP (· < s0 + 1)) rest, List.mem_append] at hx
        rcases hx with hx | hx
        · rw [htake x hx]; omega
        · have := hb x hx; omega
      · rintro ⟨_, hb⟩
        constructor
        · by_contra hk0
          apply hnotall
          intro x hx
          have := hb x hx
          have := hge x hx
          omega
        · intro x hx
          have := hb x (List.mem_of_mem_drop hx)
          omega

/-- **Why the guard was needed (F4).** On sorted input the scan *without* the guard
    `idx < L` reads past the end of `s_indices` **iff** `n ≥ 2` and no pair belongs to a state
    `≥ n-1` — for states `< n`: iff the last state has no pair. -/
theorem generateAIndptrUnbounded_none_iff (n : Nat) (S : List Nat) (hp : List.Pairwise (· ≤ ·) S) :
    generateAIndptrUnbounded n S = none ↔ 2 ≤ n ∧ ∀ x ∈ S, x < n - 1 := by
  unfold generateAIndptrUnbounded
  by_cases hn : n = 0
  · simp [hn]
  · rw [if_neg hn, Option.map_eq_none_iff, List.range_eq_range',
      genLoopU_none_iff (n - 1) 0 S 0 hp (fun _ _ => Nat.zero_le _)]
    simp only [Nat.zero_add]
    constructor
    · rintro ⟨h1, h2⟩; exact ⟨by omega, h2⟩
    · rintro ⟨h1, h2⟩; exact ⟨by omega, h2⟩

end QE.C09
