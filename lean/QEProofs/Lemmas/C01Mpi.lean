/-
  Lemmas for C01, part 4: constant shifts (`T(v + c·1) = T v + βc·1` for stochastic rows),
  super- and sub-solutions, `vmin` and `vmax`, and the exit condition of `mpiLoop`.
-/
import QEProofs.Lemmas.C01Loops

set_option linter.unusedSectionVars false

namespace QE.C01
open List

variable {K : Type} [Field K] [LinearOrder K] [IsStrictOrderedRing K]

/-! ### constant shifts -/

@[simp] theorem addConst_length (v : List K) (c : K) : (addConst v c).length = v.length := by
  simp [addConst]

theorem addConst_addConst (v : List K) (a b : K) : addConst (addConst v a) b = addConst v (a + b) := by
  simp [addConst, add_assoc]

theorem qval_addConst {n : ℕ} {x : Act K} (hx : Stoch n x) (β c : K) {v : List K} (hv : v.length = n) :
    qval β (addConst v c) x = qval β v x + β * c := by
  unfold qval
  rw [dot_addConst c x.q v (by rw [hx.2.2, hv]), hx.2.1]
  ring

section scan
variable {γ : Type}

theorem scanMax_congr (f g : γ → K) : ∀ (xs : List γ) (m : γ),
    (∀ a ∈ m :: xs, ∀ b ∈ m :: xs, (f a < f b ↔ g a < g b)) → scanMax f m xs = scanMax g m xs := by
  intro xs
  induction xs with
  | nil => intro m _; rfl
  | cons x xs ih =>
    intro m h
    simp only [scanMax]
    have hmx := h m (by simp) x (by simp)
    by_cases hlt : f m < f x
    · rw [if_pos hlt, if_pos (hmx.mp hlt)]
      exact ih x fun a ha b hb => h a (by simp only [mem_cons] at ha ⊢; tauto)
        b (by simp only [mem_cons] at hb ⊢; tauto)
    · rw [if_neg hlt, if_neg (fun hh => hlt (hmx.mpr hh))]
      exact ih m fun a ha b hb => h a (by simp only [mem_cons] at ha ⊢; tauto)
        b (by simp only [mem_cons] at hb ⊢; tauto)

end scan

theorem bestAct_addConst {n : ℕ} {acts : List (Act K)} (hs : ∀ x ∈ acts, Stoch n x) (β c : K)
    {v : List K} (hv : v.length = n) : bestAct β (addConst v c) acts = bestAct β v acts := by
  cases acts with
  | nil => rfl
  | cons x xs =>
    apply scanMax_congr
    intro a ha b hb
    rw [qval_addConst (hs a ha) β c hv, qval_addConst (hs b hb) β c hv]
    exact add_lt_add_iff_right _

/-- `T(v + c·1) = T v + βc·1` -/
theorem bellman_addConst {P : Prob K} (hP : WF P) (β c : K) {v : List K} (hv : v.length = P.length) :
    bellman P β (addConst v c) = addConst (bellman P β v) (β * c) := by
  simp only [bellman, addConst, map_map]
  apply map_congr_left
  intro acts ha
  simp only [Function.comp]
  have hb := bestAct_addConst (hP.stoch acts ha) β c hv
  have := qval_addConst (hP.stoch acts ha _ (bestAct_mem (β := β) (v := v) (hP.nonempty acts ha))) β c hv
  simp only [addConst] at hb this
  rw [hb, this]

theorem greedy_addConst {P : Prob K} (hP : WF P) (β c : K) {v : List K} (hv : v.length = P.length) :
    greedy P β (addConst v c) = greedy P β v := by
  simp only [greedy]
  apply map_congr_left
  intro acts ha
  rw [bestAct_addConst (hP.stoch acts ha) β c hv]

theorem polActs_stoch {P : Prob K} (hP : WF P) {σ : List ℕ} (hf : Feasible P σ) :
    ∀ y ∈ polActs P σ, Stoch P.length y := by
  have key : ∀ (Q : Prob K) (σ : List ℕ), Feasible Q σ → (∀ acts ∈ Q, ∀ x ∈ acts, Stoch P.length x) →
      ∀ y ∈ polActs Q σ, Stoch P.length y := by
    intro Q σ hf
    unfold Feasible at hf
    induction hf with
    | nil => intro _ y hy; simp [polActs] at hy
    | cons hx _ ih =>
      intro hs y hy
      simp only [polActs, zipWith_cons_cons, mem_cons] at hy
      rcases hy with rfl | hy
      · exact hs _ (by simp) _ (findAct_exists hx)
      · exact ih (fun acts' h' => hs acts' (by simp [h'])) y hy
  exact key P σ hf hP.stoch

/-- `T_σ(v + c·1) = T_σ v + βc·1` for a feasible `σ` -/
theorem tSigma_addConst {P : Prob K} (hP : WF P) {σ : List ℕ} (hf : Feasible P σ) (β c : K)
    {v : List K} (hv : v.length = P.length) :
    tSigma P β σ (addConst v c) = addConst (tSigma P β σ v) (β * c) := by
  simp only [tSigma, addConst, map_map]
  apply map_congr_left
  intro y hy
  simp only [Function.comp]
  have := qval_addConst (polActs_stoch hP hf y hy) β c hv
  simpa [addConst] using this

/-! ### entrywise order and shifts -/

theorem leAdd_addConst_right {c d : K} {v w : List K} :
    LeAdd d v (addConst w c) ↔ LeAdd (c + d) v w := by
  unfold LeAdd addConst
  rw [forall₂_map_right_iff]
  constructor <;> intro h <;> exact h.imp fun a b hab => by linarith

theorem leAdd_addConst_left {c d : K} {v w : List K} :
    LeAdd d (addConst v c) w ↔ LeAdd (d - c) v w := by
  unfold LeAdd addConst
  rw [forall₂_map_left_iff]
  constructor <;> intro h <;> exact h.imp fun a b hab => by linarith

theorem leAdd_of_diff_le {c : K} : ∀ {u v : List K}, u.length = v.length →
    (∀ x ∈ zipWith (fun a b => a - b) u v, x ≤ c) → LeAdd c u v := by
  intro u
  induction u with
  | nil => intro v h _; cases v with
    | nil => exact Forall₂.nil
    | cons _ _ => simp at h
  | cons a u ih =>
    intro v h hx
    cases v with
    | nil => simp at h
    | cons b v =>
      simp only [zipWith_cons_cons, mem_cons, forall_eq_or_imp] at hx
      exact Forall₂.cons (by linarith [hx.1]) (ih (by simpa using h) hx.2)

theorem leAdd_of_le_diff {c : K} : ∀ {u v : List K}, u.length = v.length →
    (∀ x ∈ zipWith (fun a b => a - b) u v, c ≤ x) → LeAdd (-c) v u := by
  intro u
  induction u with
  | nil => intro v h _; cases v with
    | nil => exact Forall₂.nil
    | cons _ _ => simp at h
  | cons a u ih =>
    intro v h hx
    cases v with
    | nil => simp at h
    | cons b v =>
      simp only [zipWith_cons_cons, mem_cons, forall_eq_or_imp] at hx
      exact Forall₂.cons (by linarith [hx.1]) (ih (by simpa using h) hx.2)

/-! ### `vmin`, `vmax` -/

theorem le_vmax (z : List K) : ∀ x ∈ z, x ≤ vmax z := by
  cases z with
  | nil => intro x hx; simp at hx
  | cons a as =>
    intro x hx
    have := (foldl_maxA_le_iff as a (vmax (a :: as))).mp le_rfl
    rcases mem_cons.mp hx with rfl | hx
    · exact this.1
    · exact this.2 x hx

theorem vmin_le (z : List K) : ∀ x ∈ z, vmin z ≤ x := by
  cases z with
  | nil => intro x hx; simp at hx
  | cons a as =>
    intro x hx
    have := (foldl_minA_ge_iff as a (vmin (a :: as))).mp le_rfl
    rcases mem_cons.mp hx with rfl | hx
    · exact this.1
    · exact this.2 x hx

theorem vmin_le_vmax (z : List K) : vmin z ≤ vmax z := by
  cases z with
  | nil => simp [vmin, vmax]
  | cons a as => exact le_trans (vmin_le _ a (by simp)) (le_vmax _ a (by simp))

/-! ### super- and sub-solutions of a monotone, sub-homogeneous operator -/

/-- `T` keeps the length `n`, and `a ≤ b + c` (`c ≥ 0`) implies `T a ≤ T b + βc` -/
structure MonoShift (T : List K → List K) (n : ℕ) (β : K) : Prop where
  len : ∀ v, v.length = n → (T v).length = n
  mono : ∀ c, 0 ≤ c → ∀ a b, LeAdd c a b → LeAdd (β * c) (T a) (T b)

/-- a super-solution `T w ≤ w` dominates the fixed point -/
theorem MonoShift.super {T : List K → List K} {n : ℕ} {β : K} (h : MonoShift T n β)
    (hβ0 : 0 ≤ β) (hβ1 : β < 1) {vS w : List K} (fS : T vS = vS) (hS : vS.length = n)
    (hw : w.length = n) (hsup : LeAdd 0 (T w) w) : LeAdd 0 vS w := by
  have hlen : vS.length = w.length := hS.trans hw.symm
  have hd0 := exc_nonneg vS w
  have h1 : LeAdd (exc vS w) vS w := leAdd_exc hlen
  have h2 := h.mono _ hd0 _ _ h1
  rw [fS] at h2
  have h3 : LeAdd (β * exc vS w + 0) vS w := h2.trans hsup
  have h4 : exc vS w ≤ β * exc vS w + 0 :=
    (exc_le_iff hlen _).mpr ⟨by have := mul_nonneg hβ0 hd0; linarith, h3⟩
  have h5 : exc vS w = 0 := by nlinarith
  rw [← h5]; exact h1

/-- a sub-solution `z ≤ T z` is dominated by the fixed point -/
theorem MonoShift.sub {T : List K → List K} {n : ℕ} {β : K} (h : MonoShift T n β)
    (hβ0 : 0 ≤ β) (hβ1 : β < 1) {w z : List K} (fW : T w = w) (hw : w.length = n)
    (hz : z.length = n) (hsub : LeAdd 0 z (T z)) : LeAdd 0 z w := by
  have hlen : z.length = w.length := hz.trans hw.symm
  have hd0 := exc_nonneg z w
  have h1 : LeAdd (exc z w) z w := leAdd_exc hlen
  have h2 := h.mono _ hd0 _ _ h1
  rw [fW] at h2
  have h3 : LeAdd (0 + β * exc z w) z w := hsub.trans h2
  have h4 : exc z w ≤ 0 + β * exc z w :=
    (exc_le_iff hlen _).mpr ⟨by have := mul_nonneg hβ0 hd0; linarith, h3⟩
  have h5 : exc z w = 0 := by nlinarith
  rw [← h5]; exact h1

theorem monoShift_bellman {P : Prob K} (hs : ∀ acts ∈ P, ∀ x ∈ acts, SubStoch x) {β : K} (hβ : 0 ≤ β) :
    MonoShift (bellman P β) P.length β :=
  ⟨fun v _ => by simp, fun c hc a b h => bellman_leAdd hs hβ hc h⟩

theorem monoShift_tSigma {P : Prob K} (hs : ∀ acts ∈ P, ∀ x ∈ acts, SubStoch x) {β : K} (hβ : 0 ≤ β)
    {σ : List ℕ} (hσ : σ.length = P.length) : MonoShift (tSigma P β σ) P.length β :=
  ⟨fun v _ => by simp [tSigma_length, hσ], fun c hc a b h => tSigma_leAdd hs hβ hc σ h⟩

theorem forall₂_and {α β : Type} {R S : α → β → Prop} {a : List α} {b : List β}
    (h1 : Forall₂ R a b) (h2 : Forall₂ S a b) : Forall₂ (fun x y => R x y ∧ S x y) a b := by
  induction h1 with
  | nil => exact Forall₂.nil
  | cons hr _ ih =>
    cases h2 with
    | cons hs h2' => exact Forall₂.cons ⟨hr, hs⟩ (ih h2')

/-! ### the loop of `modified_policy_iteration` -/

theorem iterate_length {T : List K → List K} {n : ℕ} (hT : ∀ v, v.length = n → (T v).length = n) :
    ∀ (k : ℕ) (v : List K), v.length = n → (T^[k] v).length = n := by
  intro k
  induction k with
  | zero => intro v hv; simpa using hv
  | succ k ih => intro v hv; rw [Function.iterate_succ, Function.comp]; exact ih _ (hT v hv)

/-- if the loop was left through the span test, the outputs are those of the exit pass at some
    iterate `v` of length `n` -/
theorem mpiLoop_stopped (P : Prob K) (β : K) (tol : Tol K) (k : ℕ) :
    ∀ (fuel : ℕ) (v : List K) (σl : List ℕ) (cnt : ℕ), v.length = P.length →
    (mpiLoop P β tol k fuel v σl cnt).stopped = true →
    ∃ v' : List K, v'.length = P.length ∧
      tol.passes (span (zipWith (fun a b => a - b) (bellman P β v') v')) = true ∧
      (mpiLoop P β tol k fuel v σl cnt).v =
        addConst (bellman P β v')
          (midrange (zipWith (fun a b => a - b) (bellman P β v') v') * β / (1 - β)) ∧
      (mpiLoop P β tol k fuel v σl cnt).sigma = greedy P β v' := by
  intro fuel
  induction fuel with
  | zero => intro v σl cnt _ h; simp [mpiLoop] at h
  | succ fuel ih =>
    intro v σl cnt hv h
    simp only [mpiLoop] at h ⊢
    by_cases hp : tol.passes (span (zipWith (fun a b => a - b) (bellman P β v) v)) = true
    · rw [if_pos hp]
      exact ⟨v, hv, hp, rfl, rfl⟩
    · rw [if_neg hp] at h ⊢
      refine ih _ _ _ ?_ h
      rw [opIter_noTest]
      exact iterate_length (fun w hw => by simp [tSigma_length, hw]) k _ (by simp)

theorem mpiLoop_count (P : Prob K) (β : K) (tol : Tol K) (k : ℕ) :
    ∀ (fuel : ℕ) (v : List K) (σl : List ℕ) (cnt : ℕ),
    (mpiLoop P β tol k fuel v σl cnt).iters ≤ cnt + fuel := by
  intro fuel
  induction fuel with
  | zero => intro v σl cnt; simp [mpiLoop]
  | succ fuel ih =>
    intro v σl cnt
    simp only [mpiLoop]
    split_ifs
    · simp
    · have := ih (opIter (tSigma P β (greedy P β v)) .noTest k (bellman P β v) 0).1 (greedy P β v) (cnt + 1)
      omega

theorem mpiLoop_count_eq (P : Prob K) (β : K) (tol : Tol K) (k : ℕ) :
    ∀ (fuel : ℕ) (v : List K) (σl : List ℕ) (cnt : ℕ),
    (mpiLoop P β tol k fuel v σl cnt).stopped = false →
    (mpiLoop P β tol k fuel v σl cnt).iters = cnt + fuel := by
  intro fuel
  induction fuel with
  | zero => intro v σl cnt _; simp [mpiLoop]
  | succ fuel ih =>
    intro v σl cnt h
    simp only [mpiLoop] at h ⊢
    by_cases hp : tol.passes (span (zipWith (fun a b => a - b) (bellman P β v) v)) = true
    · rw [if_pos hp] at h; simp at h
    · rw [if_neg hp] at h ⊢
      have := ih _ _ _ h; omega

/-- **Puterman 6.6.5 bounds.** With `u = T v`, `lo = min(u − v)`, `hi = max(u − v)`, `L = β lo/(1−β)`,
    `H = β hi/(1−β)`: every fixed point `vS` of `T` satisfies `u + L ≤ vS ≤ u + H`, and the value
    `w` of the `v`-greedy policy satisfies `u + L ≤ w` (and `w ≤ vS`). -/
theorem mpi_bounds {P : Prob K} (hP : WF P) {β : K} (hβ0 : 0 ≤ β) (hβ1 : β < 1)
    {v : List K} (hv : v.length = P.length) {vS : List K} (hS : bellman P β vS = vS) :
    let u := bellman P β v
    let d := zipWith (fun a b => a - b) u v
    LeAdd 0 (addConst u (β * (vmin d / (1 - β)))) vS ∧
    LeAdd 0 vS (addConst u (β * (vmax d / (1 - β)))) ∧
    ∀ w, tSigma P β (greedy P β v) w = w →
      LeAdd 0 (addConst u (β * (vmin d / (1 - β)))) w := by
  intro u d
  have hs : ∀ acts ∈ P, ∀ x ∈ acts, SubStoch x := fun a ha x hx => (hP.stoch a ha x hx).sub
  have hM := monoShift_bellman hs hβ0
  have hSl : vS.length = P.length := by rw [← hS]; simp
  have hul : u.length = v.length := by simp [u, hv]
  have hpos : 0 < 1 - β := by linarith
  have hne : (1 : K) - β ≠ 0 := ne_of_gt hpos
  have A1 : LeAdd (vmax d) u v := leAdd_of_diff_le hul (le_vmax d)
  have A2 : LeAdd (-(vmin d)) v u := leAdd_of_le_diff hul (vmin_le d)
  -- sub-solution z = v + lo/(1−β)
  have hz : LeAdd 0 (addConst v (vmin d / (1 - β))) (addConst u (β * (vmin d / (1 - β)))) := by
    rw [leAdd_addConst_right, leAdd_addConst_left]
    have : β * (vmin d / (1 - β)) + 0 - vmin d / (1 - β) = -(vmin d) := by field_simp; ring
    rw [this]; exact A2
  refine ⟨?_, ?_, ?_⟩
  · have hsub : LeAdd 0 (addConst v (vmin d / (1 - β))) (bellman P β (addConst v (vmin d / (1 - β)))) := by
      rw [bellman_addConst hP β _ hv]; exact hz
    have h1 := hM.sub hβ0 hβ1 hS hSl (by simp [hv]) hsub
    have h2 := hM.mono 0 le_rfl _ _ h1
    rw [hS, bellman_addConst hP β _ hv, mul_zero] at h2
    exact h2
  · have hsup : LeAdd 0 (bellman P β (addConst v (vmax d / (1 - β)))) (addConst v (vmax d / (1 - β))) := by
      rw [bellman_addConst hP β _ hv, leAdd_addConst_right, leAdd_addConst_left]
      have : vmax d / (1 - β) + 0 - β * (vmax d / (1 - β)) = vmax d := by field_simp; ring
      rw [this]; exact A1
    have h1 := hM.super hβ0 hβ1 hS hSl (by simp [hv]) hsup
    have h2 := hM.mono 0 le_rfl _ _ h1
    rw [hS, bellman_addConst hP β _ hv, mul_zero] at h2
    exact h2
  · intro w hw
    have hf := greedy_feasible hP.nonempty β v
    have hσl : (greedy P β v).length = P.length := by simp
    have hMσ := monoShift_tSigma hs hβ0 hσl
    have hwl : w.length = P.length := by rw [← hw, tSigma_length, hσl]; simp
    have hTv : tSigma P β (greedy P β v) v = u := tSigma_greedy hP.nonempty hP.nodup β v
    have hsub : LeAdd 0 (addConst v (vmin d / (1 - β)))
        (tSigma P β (greedy P β v) (addConst v (vmin d / (1 - β)))) := by
      rw [tSigma_addConst hP hf β _ hv, hTv]; exact hz
    have h1 := hMσ.sub hβ0 hβ1 hw hwl (by simp [hv]) hsub
    have h2 := hMσ.mono 0 le_rfl _ _ h1
    rw [hw, tSigma_addConst hP hf β _ hv, hTv, mul_zero] at h2
    exact h2

end QE.C01
