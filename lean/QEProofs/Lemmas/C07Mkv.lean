/-
  C07 helper lemmas, part 17: `LQMarkov.compute_sequence` — the regime-dependent closed loop,
  pointwise (induction over the regime path).
-/
import QEModel.C07

set_option linter.unusedSectionVars false

namespace QE.C07
open QE QE.MatAlg

variable {α : Type} [Zero α] [One α] [Add α] [Sub α] [Mul α] [Div α] [Neg α] [BEq α]

theorem mkvLoop_spec (lqs : List (LQ α)) (Fs : List (M α)) (W : M α) :
    ∀ (r : List Nat), r ≠ [] → ∀ (t : Nat) (x u : M α),
      (mkvLoop lqs Fs W r t x u).1.length = r.length + 1 ∧
      (mkvLoop lqs Fs W r t x u).2.length = r.length ∧
      (mkvLoop lqs Fs W r t x u).1[0]? = some x ∧
      (mkvLoop lqs Fs W r t x u).2[0]? = some u ∧
      ∀ i, i < r.length → ∃ xi ui si,
        (mkvLoop lqs Fs W r t x u).1[i]? = some xi ∧
        (mkvLoop lqs Fs W r t x u).2[i]? = some ui ∧
        r[i]? = some si ∧
        (mkvLoop lqs Fs W r t x u).1[i + 1]? = some (mkvStep (nthLQ lqs si) xi ui (col W (t + i))) ∧
        (i + 1 < r.length → (mkvLoop lqs Fs W r t x u).2[i + 1]?
          = some (ctrl (nth Fs si) (mkvStep (nthLQ lqs si) xi ui (col W (t + i))))) := by
  intro r
  induction r with
  | nil => intro h; exact absurd rfl h
  | cons s r' ih =>
    intro _ t x u
    cases r' with
    | nil =>
      refine ⟨rfl, rfl, rfl, rfl, ?_⟩
      intro i hi
      have : i = 0 := by simpa using hi
      subst this
      exact ⟨x, u, s, rfl, rfl, rfl, rfl, fun h => by simp at h⟩
    | cons s2 r'' =>
      obtain ⟨l1, l2, h0x, h0u, hstep⟩ := ih (by simp) (t + 1) (mkvStep (nthLQ lqs s) x u (col W t))
        (ctrl (nth Fs s) (mkvStep (nthLQ lqs s) x u (col W t)))
      refine ⟨by simp only [mkvLoop, List.length_cons] at l1 ⊢; omega,
        by simp only [mkvLoop, List.length_cons] at l2 ⊢; omega, by simp [mkvLoop], by simp [mkvLoop], ?_⟩
      intro i hi
      cases i with
      | zero =>
        refine ⟨x, u, s, by simp [mkvLoop], by simp [mkvLoop], by simp, ?_, ?_⟩
        · simp only [mkvLoop, List.getElem?_cons_succ]
          exact h0x
        · intro _
          simp only [mkvLoop, List.getElem?_cons_succ]
          exact h0u
      | succ i =>
        obtain ⟨xi, ui, si, e1, e2, e3, e4, e5⟩ := hstep i (by simp only [List.length_cons] at hi ⊢; omega)
        have ht : t + 1 + i = t + (i + 1) := by omega
        rw [ht] at e4 e5
        refine ⟨xi, ui, si, by simp only [mkvLoop, List.getElem?_cons_succ]; exact e1,
          by simp only [mkvLoop, List.getElem?_cons_succ]; exact e2,
          by simp only [List.getElem?_cons_succ]; exact e3,
          by simp only [mkvLoop, List.getElem?_cons_succ]; exact e4, ?_⟩
        intro h2
        simp only [mkvLoop, List.getElem?_cons_succ]
        exact e5 (by simp only [List.length_cons] at h2 ⊢; omega)

end QE.C07
