/-
  Lemmas for C16: closed form of the overflow guard of `comb_jit` — the largest intermediate
  product is `t · C(N,k)` with `t = min k (N−k)`.
-/
import Mathlib.Data.Nat.Choose.Basic
import Mathlib.Tactic.Ring
import Mathlib.Tactic.Linarith
import QEProofs.Lemmas.C16Comb
namespace QE.C16

/-- binomials increase up to the middle -/
theorem choose_le_of_le_half (N : Nat) {a b : Nat} (hab : a ≤ b) (hb : b ≤ N / 2) :
    Nat.choose N a ≤ Nat.choose N b := by
  induction b, hab using Nat.le_induction with
  | base => exact Nat.le_refl _
  | succ b hab' ih =>
    exact Nat.le_trans (ih (by omega)) (Nat.choose_le_succ_of_lt_half_left (by omega))

/-- the product formed in iteration `j+1` is `(j+1) · C(N, j+1)` -/
theorem combProd_eq (N j : Nat) (hj : j ≤ N) :
    combProd N j = (((j + 1) * Nat.choose N (j + 1) : Nat) : Int) := by
  unfold combProd
  have h := Nat.choose_succ_right_eq N j
  have e : ((N : Int) - (j : Int)) = ((N - j : Nat) : Int) := by omega
  rw [e, ← Int.natCast_mul, ← h, Nat.mul_comm]

/-- every product of the loop is bounded by the last one, `t · C(N,t)` -/
theorem combProd_le_last (N t j : Nat) (ht : t ≤ N / 2) (hj : j < t) :
    combProd N j ≤ ((t * Nat.choose N t : Nat) : Int) := by
  rw [combProd_eq N j (by omega)]
  have h1 : Nat.choose N (j + 1) ≤ Nat.choose N t := choose_le_of_le_half N (by omega) ht
  have h2 : (j + 1) * Nat.choose N (j + 1) ≤ t * Nat.choose N t := Nat.mul_le_mul (by omega) h1
  exact_mod_cast h2

end QE.C16
