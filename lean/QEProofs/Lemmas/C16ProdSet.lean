/-
  Lemmas for C16, part: the product list `cartProd` contains exactly the tuples with one entry
  from each grid, and each of them once when the grids have no repeated node.
-/
import Mathlib.Data.List.Nodup
import Mathlib.Data.List.Forall2
import QEProofs.Lemmas.C16Prod
namespace QE.C16

variable {α : Type}

/-- a row belongs to the product iff it takes one entry from each grid, in order -/
theorem mem_cartProd : ∀ (nodes : List (List α)) (row : List α),
    row ∈ cartProd nodes ↔ List.Forall₂ (fun a g => a ∈ g) row nodes
  | [], row => by simp [cartProd, List.forall₂_nil_right_iff]
  | g :: gs, row => by
    rw [List.forall₂_cons_right_iff]
    simp only [cartProd, List.mem_flatMap, List.mem_map]
    constructor
    · rintro ⟨a, ha, t, ht, rfl⟩
      exact ⟨a, t, ha, (mem_cartProd gs t).mp ht, rfl⟩
    · rintro ⟨a, t, ha, ht, rfl⟩
      exact ⟨a, ha, t, (mem_cartProd gs t).mpr ht, rfl⟩

/-- grids without repeated nodes give a product without repeated rows -/
theorem nodup_cartProd : ∀ (nodes : List (List α)), (∀ g ∈ nodes, g.Nodup) →
    (cartProd nodes).Nodup
  | [], _ => by simp [cartProd]
  | g :: gs, h => by
    have ih := nodup_cartProd gs (fun g' hg' => h g' (List.mem_cons_of_mem _ hg'))
    have hg := h g List.mem_cons_self
    simp only [cartProd]
    rw [List.nodup_flatMap]
    constructor
    · intro a _
      exact ih.map (fun t1 t2 e => (List.cons.inj e).2)
    · apply hg.pairwise_of_forall_ne
      intro a _ b _ hab
      show List.Disjoint _ _
      intro row h1 h2
      obtain ⟨t1, _, rfl⟩ := List.mem_map.mp h1
      obtain ⟨t2, _, e⟩ := List.mem_map.mp h2
      exact hab (List.cons.inj e).1.symm

end QE.C16
