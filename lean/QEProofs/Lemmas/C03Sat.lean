/-
  Lemmas for C03, part 4: `n` rounds of frontier expansion always reach saturation
  (cardinality argument), so `reachFrom` never answers `none`.
-/
import Mathlib.Data.List.Basic
import QEProofs.Lemmas.C03Reach
namespace QE.C03

/-- `S` is a sub-list of `range n` in increasing order (a filter of `range n`) -/
def IsSub (n : Nat) (S : List Nat) : Prop := S = (List.range n).filter fun v => S.contains v

theorem isSub_filter (n : Nat) (p : Nat → Bool) : IsSub n ((List.range n).filter p) := by
  unfold IsSub
  apply List.filter_congr
  intro x hx
  simp only [List.contains_eq_mem, List.mem_filter, hx, true_and]
  cases p x <;> simp

theorem isSub_length_le (n : Nat) (S : List Nat) (h : IsSub n S) : S.length ≤ n := by
  rw [h]
  calc ((List.range n).filter _).length ≤ (List.range n).length := List.length_filter_le _ _
    _ = n := List.length_range

theorem sub_expand (g : G) (S : List Nat) (h : IsSub g.n S) : List.Sublist S (expand g S) := by
  have h2 : List.Sublist ((List.range g.n).filter fun v => S.contains v) (expand g S) := by
    unfold expand
    apply List.monotone_filter_right
    intro a ha
    simp only [Bool.or_eq_true]
    exact Or.inl ha
  rw [← h] at h2
  exact h2

theorem expand_grows (g : G) (S : List Nat) (h : IsSub g.n S) (hne : expand g S ≠ S) :
    S.length < (expand g S).length := by
  have hs := sub_expand g S h
  have hle := hs.length_le
  by_contra hc
  exact hne (hs.eq_of_length (by omega)).symm

theorem reachLoop_isSome (g : G) (k : Nat) (S : List Nat) (h : IsSub g.n S)
    (hk : g.n ≤ k + S.length) : (reachLoop g k S).isSome = true := by
  induction k generalizing S with
  | zero =>
    unfold reachLoop
    split
    · rfl
    · rename_i hne
      have hne' : expand g S ≠ S := by simpa using hne
      have h1 := expand_grows g S h hne'
      have h2 := isSub_length_le g.n (expand g S) (isSub_filter _ _)
      omega
  | succ k ih =>
    unfold reachLoop
    split
    · rfl
    · rename_i hne
      have hne' : expand g S ≠ S := by simpa using hne
      have h1 := expand_grows g S h hne'
      exact ih (expand g S) (isSub_filter _ _) (by omega)

theorem reachFrom_isSome (g : G) (s : Nat) : (reachFrom g s).isSome = true := by
  unfold reachFrom
  exact reachLoop_isSome g g.n _ (isSub_filter _ _) (by omega)

theorem reachOK_true (g : G) : reachOK g = true := by
  unfold reachOK
  rw [List.all_eq_true]
  intro u _
  exact reachFrom_isSome g u

end QE.C03
