/-
  Lemmas for C01, part 9: termination of the policy-iteration loop `piLoop` — abstractly
  (values never decrease, equal values give equal greedy policies, finitely many policies),
  and the finite list of all feasible policies of a problem.
-/
import QEProofs.Lemmas.C01More
import Mathlib.Data.List.Sections
import Mathlib.Data.List.Perm.Subperm
import Mathlib.Algebra.Order.Archimedean.Basic

set_option linter.unusedSectionVars false

namespace QE.C01
open List

variable {K : Type} [Field K] [LinearOrder K] [IsStrictOrderedRing K]

/-- **abstract termination.**  `A` is a finite list containing the start policy and closed under
    the improvement step `gr ∘ ev`; `le` is a transitive, antisymmetric relation on values under
    which an improvement step never decreases the value.  Then the loop leaves through its `break`
    whenever `fuel + |seen| ≥ |A| + 2`, where `seen` are pairwise different policies of `A` whose
    values lie strictly below the value of the current policy. -/
theorem piLoop_terminates_aux (ev : List ℕ → List K) (gr : List K → List ℕ) (A : List (List ℕ))
    (le : List K → List K → Prop)
    (le_trans : ∀ a b c, le a b → le b c → le a c)
    (le_antisymm : ∀ a b, le a b → le b a → a = b)
    (hA : ∀ σ ∈ A, gr (ev σ) ∈ A)
    (himp : ∀ σ ∈ A, le (ev σ) (ev (gr (ev σ)))) :
    ∀ (fuel : ℕ) (σ : List ℕ) (vl : List K) (cnt : ℕ) (seen : List (List ℕ)),
      σ ∈ A → seen ⊆ A → seen.Nodup → σ ∉ seen →
      (∀ τ ∈ seen, le (ev τ) (ev σ) ∧ ev τ ≠ ev σ) →
      A.length + 2 ≤ fuel + seen.length →
      (piLoop ev gr fuel σ vl cnt).stopped = true := by
  intro fuel
  induction fuel with
  | zero =>
    intro σ vl cnt seen hσ hsub hnd hns _ hcount
    exfalso
    have h1 : (σ :: seen).Nodup := nodup_cons.mpr ⟨hns, hnd⟩
    have h2 : (σ :: seen) ⊆ A := by
      intro x hx
      rcases mem_cons.mp hx with rfl | hx
      · exact hσ
      · exact hsub hx
    have := (subperm_of_subset h1 h2).length_le
    simp only [length_cons] at this
    omega
  | succ fuel ih =>
    intro σ vl cnt seen hσ hsub hnd hns hlow hcount
    simp only [piLoop]
    by_cases hp : gr (ev σ) = σ
    · rw [if_pos hp]
    · rw [if_neg hp]
      by_cases hev : ev (gr (ev σ)) = ev σ
      · -- the value did not change: the next pass finds the same greedy policy and stops
        cases fuel with
        | zero =>
          exfalso
          have h1 : (σ :: seen).Nodup := nodup_cons.mpr ⟨hns, hnd⟩
          have h2 : (σ :: seen) ⊆ A := by
            intro x hx
            rcases mem_cons.mp hx with rfl | hx
            · exact hσ
            · exact hsub hx
          have := (subperm_of_subset h1 h2).length_le
          simp only [length_cons] at this
          omega
        | succ fuel =>
          simp only [piLoop]
          rw [if_pos (by rw [hev])]
      · -- the value strictly increased: remember σ and continue
        refine ih (gr (ev σ)) (ev σ) (cnt + 1) (σ :: seen) (hA σ hσ) ?_ ?_ ?_ ?_ ?_
        · intro x hx
          rcases mem_cons.mp hx with rfl | hx
          · exact hσ
          · exact hsub hx
        · exact nodup_cons.mpr ⟨hns, hnd⟩
        · intro hmem
          rcases mem_cons.mp hmem with h | h
          · exact hp h
          · have := (hlow _ h).1
            -- ev (gr (ev σ)) ≤ ev σ and ev σ ≤ ev (gr (ev σ)) force equality
            exact hev (le_antisymm _ _ this (himp σ hσ))
        · intro τ hτ
          rcases mem_cons.mp hτ with rfl | hτ
          · exact ⟨himp τ hσ, fun h => hev h.symm⟩
          · have h1 := hlow τ hτ
            refine ⟨le_trans _ _ _ h1.1 (himp σ hσ), fun h => ?_⟩
            -- ev τ = ev σ' ≥ ev σ ≥ ev τ  ⇒ ev σ = ev τ
            have h2 : le (ev σ) (ev τ) := by rw [h]; exact himp σ hσ
            exact h1.2 (le_antisymm _ _ h1.1 h2)
        · simp only [length_cons]; omega

/-! ### the feasible policies of a problem form a finite list -/

/-- all ways of choosing one action label per state -/
def allPolicies (P : Prob K) : List (List ℕ) := (P.map fun acts => acts.map fun x => x.a).sections

theorem mem_allPolicies {P : Prob K} {σ : List ℕ} : σ ∈ allPolicies P ↔ Feasible P σ := by
  unfold allPolicies Feasible
  rw [mem_sections, forall₂_map_right_iff]
  constructor
  · intro h
    exact h.flip.imp fun acts a ha => by
      obtain ⟨x, hx, rfl⟩ := mem_map.mp ha
      exact ⟨x, hx, rfl⟩
  · intro h
    exact h.flip.imp fun a acts ha => by
      obtain ⟨x, hx, rfl⟩ := ha
      exact mem_map.mpr ⟨x, hx, rfl⟩

/-! ### `operator_iteration` stops once the successive differences are small -/

/-- if the test passes at some iterate `T^[j] v` with `j < fuel`, the loop is left through the
    tolerance `break` -/
theorem opIter_stops (T : List K → List K) (tol : Tol K) : ∀ (fuel : ℕ) (v : List K) (cnt j : ℕ),
    j < fuel → tol.passes (supDist (T^[j + 1] v) (T^[j] v)) = true →
    (opIter T tol fuel v cnt).2.2 = true := by
  intro fuel
  induction fuel with
  | zero => intro v cnt j hj; omega
  | succ fuel ih =>
    intro v cnt j hj hp
    simp only [opIter]
    by_cases h0 : tol.passes (supDist (T v) v) = true
    · rw [if_pos h0]
    · rw [if_neg h0]
      cases j with
      | zero => exact absurd hp h0
      | succ j =>
        exact ih (T v) (cnt + 1) j (by omega) (by simpa [Function.iterate_succ_apply] using hp)

/-- successive differences of the iterates of a β-contraction decay geometrically -/
theorem Contr.iterate_diff {T : List K → List K} {n : ℕ} {β : K} (h : Contr T n β) (hβ0 : 0 ≤ β)
    {v : List K} (hv : v.length = n) :
    ∀ k : ℕ, supDist (T^[k + 1] v) (T^[k] v) ≤ β ^ k * supDist (T v) v := by
  intro k
  induction k with
  | zero => simp
  | succ k ih =>
    have hl : ∀ j, (T^[j] v).length = n := fun j => iterate_length h.len j v hv
    have h1 := h.contr (T^[k + 1] v) (T^[k] v) (hl _) (hl _)
    rw [← Function.iterate_succ_apply' T (k + 1) v, ← Function.iterate_succ_apply' T k v] at h1
    calc supDist (T^[k + 1 + 1] v) (T^[k + 1] v) ≤ β * supDist (T^[k + 1] v) (T^[k] v) := h1
      _ ≤ β * (β ^ k * supDist (T v) v) := mul_le_mul_of_nonneg_left ih hβ0
      _ = β ^ (k + 1) * supDist (T v) v := by ring

/-- over an Archimedean field the stopping test of a β-contraction (`β < 1`) with a positive
    tolerance eventually passes -/
theorem Contr.exists_pass [Archimedean K] {T : List K → List K} {n : ℕ} {β : K} (h : Contr T n β)
    (hβ0 : 0 ≤ β) (hβ1 : β < 1) {v : List K} (hv : v.length = n) {t : K} (ht : 0 < t) :
    ∃ k : ℕ, supDist (T^[k + 1] v) (T^[k] v) < t := by
  by_cases hd : supDist (T v) v = 0
  · exact ⟨0, by simpa [hd] using ht⟩
  · have hdpos : 0 < supDist (T v) v := lt_of_le_of_ne (supDist_nonneg _ _) (Ne.symm hd)
    obtain ⟨k, hk⟩ := exists_pow_lt_of_lt_one (div_pos ht hdpos) hβ1
    refine ⟨k, lt_of_le_of_lt (h.iterate_diff hβ0 hv k) ?_⟩
    have := mul_lt_mul_of_pos_right hk hdpos
    rwa [div_mul_cancel₀ _ hd] at this

/-- whatever the exit, the loop returns the `num_iter`-th iterate of `T` (started with count 0) -/
theorem opIter_eq_iterate (T : List K → List K) (tol : Tol K) : ∀ (fuel : ℕ) (v : List K) (cnt : ℕ),
    (opIter T tol fuel v cnt).1 = T^[(opIter T tol fuel v cnt).2.1 - cnt] v ∧
    cnt ≤ (opIter T tol fuel v cnt).2.1 := by
  intro fuel
  induction fuel with
  | zero => intro v cnt; simp [opIter]
  | succ fuel ih =>
    intro v cnt
    simp only [opIter]
    by_cases hp : tol.passes (supDist (T v) v) = true
    · rw [if_pos hp]; simp
    · rw [if_neg hp]
      obtain ⟨h1, h2⟩ := ih (T v) (cnt + 1)
      refine ⟨?_, by omega⟩
      rw [h1]
      have : (opIter T tol fuel (T v) (cnt + 1)).2.1 - cnt
          = ((opIter T tol fuel (T v) (cnt + 1)).2.1 - (cnt + 1)) + 1 := by omega
      rw [this, Function.iterate_succ_apply]

/-- geometric convergence of the iterates of a β-contraction towards its fixed point -/
theorem Contr.iterate_bound {T : List K → List K} {n : ℕ} {β : K} (h : Contr T n β) (hβ0 : 0 ≤ β)
    (hβ1 : β < 1) {v vS : List K} (hv : v.length = n) (hS : T vS = vS) (hSl : vS.length = n) :
    ∀ k : ℕ, supDist (T^[k] v) vS ≤ β ^ k / (1 - β) * supDist (T v) v := by
  have hpos : 0 < 1 - β := by linarith
  have h0 : supDist v vS ≤ 1 / (1 - β) * supDist (T v) v := by
    have := h.fp_near hβ1 hS hSl hv
    rwa [supDist_comm (hSl.trans hv.symm)] at this
  intro k
  induction k with
  | zero => simpa using h0
  | succ k ih =>
    have hl : (T^[k] v).length = n := iterate_length h.len k v hv
    have h1 := h.contr (T^[k] v) vS hl hSl
    rw [hS, ← Function.iterate_succ_apply' T k v] at h1
    calc supDist (T^[k + 1] v) vS ≤ β * supDist (T^[k] v) vS := h1
      _ ≤ β * (β ^ k / (1 - β) * supDist (T v) v) := mul_le_mul_of_nonneg_left ih hβ0
      _ = β ^ (k + 1) / (1 - β) * supDist (T v) v := by field_simp; ring

end QE.C01
