/-
  C04 — the lexicographic ratio test always resolves its ties on the tableaux of
  `linprog_simplex`: the rows of every tableau are combinations of the initial
  rows with the artificial block as coefficients, the tableau is canonical, hence
  two different rows cannot have proportional entries on the whole artificial
  block.  Consequently "ratio test found no row" means "no positive entry in the
  entering column", and status 3 really is unboundedness.
-/
import QEProofs.Lemmas.C04Dual
namespace QE.Pivot
open QE

variable {K : Type} [Field K] [LinearOrder K]

/-! ### the minimisers form a sublist of the candidates -/

theorem minRatioStep_sublist (T : M K) (pc tc : ℕ) (tp td : K) (st : MRState K) (i : ℕ) :
    (minRatioStep T pc tc tp td st i).2.Sublist (st.2 ++ [i]) := by
  obtain ⟨o, l⟩ := st
  unfold minRatioStep
  by_cases hle : T.get i pc ≤ tp
  · rw [if_pos hle]; exact List.sublist_append_left _ _
  · rw [if_neg hle]
    cases o with
    | none => exact List.sublist_append_right _ _
    | some rmin =>
      simp only
      split_ifs
      · exact List.sublist_append_left _ _
      · exact List.sublist_append_right _ _
      · exact List.Sublist.refl _

theorem foldl_minRatioStep_sublist (T : M K) (pc tc : ℕ) (tp td : K) (cands : List ℕ) :
    ∀ st : MRState K, ((cands.foldl (minRatioStep T pc tc tp td) st).2).Sublist (st.2 ++ cands) := by
  induction cands with
  | nil => intro st; simp
  | cons i rest ih =>
    intro st
    rw [List.foldl_cons]
    have h1 := ih (minRatioStep T pc tc tp td st i)
    have h2 := minRatioStep_sublist T pc tc tp td st i
    have h3 : ((minRatioStep T pc tc tp td st i).2 ++ rest).Sublist ((st.2 ++ [i]) ++ rest) :=
      List.Sublist.append h2 (List.Sublist.refl _)
    have : (st.2 ++ [i]) ++ rest = st.2 ++ i :: rest := by simp
    rw [this] at h3
    exact h1.trans h3

theorem minRatioNoTie_sublist (T : M K) (pc tc : ℕ) (cands : List ℕ) (tp td : K) :
    (minRatioNoTie T pc tc cands tp td).Sublist cands := by
  unfold minRatioNoTie
  simpa using foldl_minRatioStep_sublist T pc tc tp td cands (none, [])

theorem minRatioNoTie_nodup (T : M K) (pc tc : ℕ) (cands : List ℕ) (tp td : K) (h : cands.Nodup) :
    (minRatioNoTie T pc tc cands tp td).Nodup :=
  List.Nodup.sublist (minRatioNoTie_sublist T pc tc cands tp td) h

/-! ### what an unresolved lexicographic loop leaves behind -/

/-- if the lexicographic passes over the columns `js` end without a unique minimiser, at least
    two different rows survive, and they have equal ratios in every column of `js` (other than
    the pivot column, which is skipped) -/
theorem lexLoop_false (T : M K) (pc : ℕ) (tp : K) (js : List ℕ) :
    ∀ a : List ℕ, a.Nodup → 2 ≤ a.length → (∀ i ∈ a, tp < T.get i pc) →
      (lexLoop T pc tp 0 js a).1 = false →
      (lexLoop T pc tp 0 js a).2.Nodup ∧ 2 ≤ (lexLoop T pc tp 0 js a).2.length ∧
      (∀ i ∈ (lexLoop T pc tp 0 js a).2, i ∈ a) ∧
      ∀ j ∈ js, j ≠ pc → ∀ i ∈ (lexLoop T pc tp 0 js a).2, ∀ i' ∈ (lexLoop T pc tp 0 js a).2,
        T.get i j / T.get i pc = T.get i' j / T.get i' pc := by
  induction js with
  | nil =>
    intro a hnd hlen _ _
    simp only [lexLoop]
    exact ⟨hnd, hlen, fun i hi => hi, fun j hj => by simp at hj⟩
  | cons j js ih =>
    intro a hnd hlen hpos hf
    by_cases hjp : j = pc
    · have e : lexLoop T pc tp 0 (j :: js) a = lexLoop T pc tp 0 js a := by
        simp only [lexLoop, if_pos hjp]
      rw [e] at hf ⊢
      obtain ⟨g1, g2, g3, g4⟩ := ih a hnd hlen hpos hf
      refine ⟨g1, g2, g3, ?_⟩
      intro j' hj' hne i hi i' hi'
      rcases List.mem_cons.mp hj' with e' | hj''
      · exact absurd (e'.trans hjp) hne
      · exact g4 j' hj'' hne i hi i' hi'
    · by_cases h1 : (minRatioNoTie T pc j a tp 0).length = 1
      · have e : lexLoop T pc tp 0 (j :: js) a = (true, minRatioNoTie T pc j a tp 0) := by
          simp only [lexLoop, if_neg hjp, if_pos h1]
        rw [e] at hf; simp at hf
      · have e : lexLoop T pc tp 0 (j :: js) a = lexLoop T pc tp 0 js (minRatioNoTie T pc j a tp 0) := by
          simp only [lexLoop, if_neg hjp, if_neg h1]
        rw [e] at hf ⊢
        set a' := minRatioNoTie T pc j a tp 0 with ha'
        have hne : a' ≠ [] := by
          intro hnil
          have hall := minRatioNoTie_eq_nil T pc j a tp 0 hnil
          obtain ⟨x, hx⟩ := List.exists_mem_of_length_pos (by omega : 0 < a.length)
          exact absurd (hpos x hx) (not_lt.mpr (hall x hx))
        have hlen' : 2 ≤ a'.length := by
          have : a'.length ≠ 0 := fun h => hne (List.length_eq_zero_iff.mp h)
          omega
        have hmem' : ∀ i ∈ a', i ∈ a ∧ tp < T.get i pc :=
          fun i hi => minRatioNoTie_mem T pc j a tp 0 i hi
        obtain ⟨g1, g2, g3, g4⟩ := ih a' (minRatioNoTie_nodup T pc j a tp 0 hnd) hlen'
          (fun i hi => (hmem' i hi).2) hf
        refine ⟨g1, g2, fun i hi => (hmem' i (g3 i hi)).1, ?_⟩
        intro j' hj' hne' i hi i' hi'
        rcases List.mem_cons.mp hj' with e' | hj''
        · subst e'
          exact minRatioNoTie_ratio_eq T pc j' a tp i i' (g3 i hi) (g3 i' hi')
        · exact g4 j' hj'' hne' i hi i' hi'

end QE.Pivot

namespace QE.C04
open QE QE.Pivot Finset

variable {K : Type} [Field K] [LinearOrder K] [IsStrictOrderedRing K]

omit [LinearOrder K] [IsStrictOrderedRing K] in
/-- when the initial tableau has the identity in the block `ss .. ss+L-1`, the coefficients of a
    row in the span are its own entries in that block -/
theorem span_coeff (T0 : M K) (L N ss : ℕ) (v : ℕ → K) (hss : ss + L ≤ N)
    (hid : ∀ q q', q < L → q' < L → T0.get q (ss + q') = if q = q' then 1 else 0)
    (h : InSpan T0 L N v) : ∀ j, j < N + 1 → v j = ∑ q ∈ range L, v (ss + q) * T0.get q j := by
  obtain ⟨w, hw⟩ := h
  have hwq : ∀ q', q' < L → v (ss + q') = w q' := by
    intro q' hq'
    rw [hw (ss + q') (by omega)]
    have : ∀ q ∈ range L, w q * T0.get q (ss + q') = if q = q' then w q else 0 := by
      intro q hq
      rw [hid q q' (Finset.mem_range.mp hq) hq']
      split_ifs <;> simp
    rw [Finset.sum_congr rfl this, Finset.sum_ite_eq']
    simp [hq']
  intro j hj
  rw [hw j hj]
  exact Finset.sum_congr rfl (fun q hq => by rw [hwq q (Finset.mem_range.mp hq)])

/-- **no unresolved tie**: on a canonical tableau whose rows are in the span of an initial
    tableau with identity block `ss .. ss+L-1`, the lexicographic ratio test (tolerances 0)
    fails only when the entering column has no positive entry -/
theorem no_unresolved_tie (T0 T : M K) (b : List ℕ) (L N ss c : ℕ) (hs : Shape T L N)
    (hc : Canon T b L N) (hss : ss + L ≤ N)
    (hid : ∀ q q', q < L → q' < L → T0.get q (ss + q') = if q = q' then 1 else 0)
    (hspan : RowsSpan T0 T L N)
    (hnf : (lexMinRatio (dropLast T) c ss (0 : K) 0).1 = false) :
    ∀ i, i < L → T.get i c ≤ 0 := by
  have hL : T.nr - 1 = L := by rw [hs.1]; rfl
  rcases lexMinRatio_not_found (dropLast T) c ss 0 0 hnf with hall | htie
  · simp only [dropLast_nr, dropLast_get, hL] at hall; exact hall
  · exfalso
    simp only [dropLast_nr, dropLast_nc, hL] at htie
    set a0 := minRatioNoTie (dropLast T) c (T.nc - 1) (List.range L) (0 : K) 0 with ha0
    have hloop : (lexLoop (dropLast T) c (0 : K) 0 ((List.range L).map (· + ss)) a0).1 = false := by
      unfold lexMinRatio at hnf
      simp only [dropLast_nr, dropLast_nc, hL] at hnf
      rw [← ha0] at hnf
      have h1 : ¬ a0.length = 1 := by omega
      rw [if_neg h1, if_pos htie] at hnf
      exact hnf
    have hpos0 : ∀ i ∈ a0, i ∈ List.range L ∧ (0 : K) < (dropLast T).get i c :=
      fun i hi => minRatioNoTie_mem (dropLast T) c (T.nc - 1) (List.range L) 0 0 i hi
    obtain ⟨gnd, glen, gmem, gtie⟩ := lexLoop_false (dropLast T) c 0 ((List.range L).map (· + ss)) a0
      (minRatioNoTie_nodup _ _ _ _ _ _ List.nodup_range) htie (fun i hi => (hpos0 i hi).2) hloop
    set af := (lexLoop (dropLast T) c (0 : K) 0 ((List.range L).map (· + ss)) a0).2 with haf
    -- two different surviving rows
    obtain ⟨i, i', hi, hi', hne⟩ : ∃ i i', i ∈ af ∧ i' ∈ af ∧ i ≠ i' := by
      match hm : af, gnd, glen with
      | x :: y :: rest, hnd, _ =>
        refine ⟨x, y, by simp, by simp, ?_⟩
        intro e; subst e; simp at hnd
      | [], _, hl => simp at hl
      | [x], _, hl => simp at hl
    have hiL : i < L := List.mem_range.mp (hpos0 i (gmem i hi)).1
    have hi'L : i' < L := List.mem_range.mp (hpos0 i' (gmem i' hi')).1
    have hpi : (0 : K) < T.get i c := (hpos0 i (gmem i hi)).2
    have hpi' : (0 : K) < T.get i' c := (hpos0 i' (gmem i' hi')).2
    -- equal ratios on the whole block
    have hblock : ∀ q, q < L → T.get i (ss + q) / T.get i c = T.get i' (ss + q) / T.get i' c := by
      intro q hq
      by_cases hqc : ss + q = c
      · rw [hqc, div_self (ne_of_gt hpi), div_self (ne_of_gt hpi')]
      · have hmemj : q + ss ∈ (List.range L).map (· + ss) :=
          List.mem_map.mpr ⟨q, List.mem_range.mpr hq, rfl⟩
        have := gtie (q + ss) hmemj (by omega) i hi i' hi'
        simp only [dropLast_get] at this
        rw [Nat.add_comm ss q]; exact this
    -- hence equal ratios in every column
    have hci := span_coeff T0 L N ss (fun j => T.get i j) hss hid (hspan i hiL)
    have hci' := span_coeff T0 L N ss (fun j => T.get i' j) hss hid (hspan i' hi'L)
    have hall : ∀ j, j < N + 1 → T.get i j / T.get i c = T.get i' j / T.get i' c := by
      intro j hj
      rw [hci j hj, hci' j hj, Finset.sum_div, Finset.sum_div]
      apply Finset.sum_congr rfl
      intro q hq
      have := hblock q (Finset.mem_range.mp hq)
      rw [mul_div_right_comm, mul_div_right_comm, this]
    -- contradiction at the basic column of row i
    have hb := (hc.2 i hiL)
    have h1 := hb.2 i (by omega)
    have h2 := hb.2 i' (by omega)
    rw [if_pos rfl] at h1
    rw [if_neg (fun e => hne e.symm)] at h2
    have := hall (b.getD i 0) (by omega)
    rw [h1, h2, zero_div] at this
    exact (ne_of_gt (div_pos one_pos hpi)) this

end QE.C04
