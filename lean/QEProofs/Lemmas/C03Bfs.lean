/-
  Lemmas for C03, part 5: the queue BFS with fuel `n` visits every node reachable
  from node 0 (completeness), walks from reachability.
-/
import Mathlib.Data.List.Basic
import Mathlib.Data.List.Perm.Subperm
import QEProofs.Lemmas.C03Reach
namespace QE.C03

theorem visited_append (vis t : Vis) (v : Nat) (h : visited vis v = true) :
    visited (vis ++ t) v = true := by
  unfold visited visLookup at *
  rw [List.find?_append]
  cases hh : List.find? (fun e => e.1 == v) vis with
  | none => rw [hh] at h; simp at h
  | some e => simp

theorem bfsVisit_prefix (u lu : Nat) (vs : List Nat) (vis : Vis) :
    ∃ t, bfsVisit vis u lu vs = vis ++ t := by
  induction vs generalizing vis with
  | nil => exact ⟨[], by simp [bfsVisit]⟩
  | cons v vs ih =>
    unfold bfsVisit
    split
    · exact ih vis
    · obtain ⟨t, ht⟩ := ih (vis ++ [(v, some u, lu + 1)])
      exact ⟨[(v, some u, lu + 1)] ++ t, by rw [ht, List.append_assoc]⟩

theorem visited_self_append (vis : Vis) (v : Nat) (p : Option Nat) (l : Nat) :
    visited (vis ++ [(v, p, l)]) v = true := by
  unfold visited visLookup
  rw [List.find?_append]
  cases hh : List.find? (fun e => e.1 == v) vis with
  | none => simp
  | some e => simp

theorem bfsVisit_visits (u lu : Nat) (vs : List Nat) (vis : Vis) (v : Nat) (hv : v ∈ vs) :
    visited (bfsVisit vis u lu vs) v = true := by
  induction vs generalizing vis with
  | nil => simp at hv
  | cons w vs ih =>
    unfold bfsVisit
    rcases List.mem_cons.1 hv with rfl | h
    · split
      · rename_i hvis
        obtain ⟨t, ht⟩ := bfsVisit_prefix u lu vs vis
        rw [ht]; exact visited_append vis t v hvis
      · obtain ⟨t, ht⟩ := bfsVisit_prefix u lu vs (vis ++ [(v, some u, lu + 1)])
        rw [ht]; exact visited_append _ t v (visited_self_append vis v _ _)
    · split
      · exact ih vis h
      · exact ih _ h

/-- the first `i` queue entries have been processed: all their successors are visited -/
def Processed (g : G) (i : Nat) (vis : Vis) : Prop :=
  i ≤ vis.length ∧ ∀ j, j < i → ∀ e, vis[j]? = some e → ∀ v, v ∈ g.out e.1 → visited vis v = true

theorem vis_length_le (g : G) (vis : Vis) (hinv : VisInv g vis) : vis.length ≤ g.n := by
  have hsub : (vis.map fun e => e.1) ⊆ List.range g.n := by
    intro x hx
    obtain ⟨e, he, rfl⟩ := List.mem_map.1 hx
    exact List.mem_range.2 (hinv.lt e.1 e.2.1 e.2.2 he)
  have := (List.subperm_of_subset hinv.nodup hsub).length_le
  simpa using this

theorem bfsLoop_complete (g : G) (hwf : g.wf = true) (fuel i : Nat) (vis : Vis)
    (hinv : VisInv g vis) (hq : Processed g i vis) (hfuel : i + fuel = g.n) :
    (∃ t, bfsLoop g fuel i vis = vis ++ t) ∧
      Processed g (bfsLoop g fuel i vis).length (bfsLoop g fuel i vis) := by
  induction fuel generalizing i vis with
  | zero =>
    unfold bfsLoop
    refine ⟨⟨[], by simp⟩, ?_⟩
    have hle := vis_length_le g vis hinv
    have : i = vis.length := by have := hq.1; omega
    rw [← this]; exact hq
  | succ fuel ih =>
    unfold bfsLoop
    split
    · rename_i hnone
      refine ⟨⟨[], by simp⟩, ?_⟩
      have : vis.length ≤ i := List.getElem?_eq_none_iff.1 hnone
      have : i = vis.length := by have := hq.1; omega
      rw [← this]; exact hq
    · rename_i e he
      have hmem : e ∈ vis := List.mem_of_getElem? he
      have hinv' : VisInv g (bfsVisit vis e.1 e.2.2 (g.out e.1)) :=
        bfsVisit_inv g e.1 e.2.2 (g.out e.1) vis hinv ⟨e.2.1, hmem⟩
          (fun v hv => ⟨hv, (E_lt g hwf hv).2⟩)
      obtain ⟨t, ht⟩ := bfsVisit_prefix e.1 e.2.2 (g.out e.1) vis
      have hilt : i < vis.length := (List.getElem?_eq_some_iff.1 he).1
      have hq' : Processed g (i + 1) (bfsVisit vis e.1 e.2.2 (g.out e.1)) := by
        refine ⟨by rw [ht, List.length_append]; omega, ?_⟩
        intro j hj e' he' v hv
        have hjlt : j < vis.length := by omega
        have he'' : vis[j]? = some e' := by
          rw [ht, List.getElem?_append_left hjlt] at he'; exact he'
        by_cases hji : j < i
        · rw [ht]; exact visited_append vis t v (hq.2 j hji e' he'' v hv)
        · have : j = i := by omega
          subst this
          rw [he] at he''
          cases he''
          exact bfsVisit_visits e.1 e.2.2 (g.out e.1) vis v hv
      obtain ⟨⟨t', ht'⟩, hfin⟩ := ih (i + 1) _ hinv' hq' (by omega)
      refine ⟨⟨t ++ t', ?_⟩, hfin⟩
      rw [ht', ht, List.append_assoc]

/-- **BFS completeness**: every node reachable from node 0 is visited -/
theorem bfs_visits_reachable (g : G) (hwf : g.wf = true) (hn : 0 < g.n) (v : Nat)
    (h : Reach g 0 v) : visited (bfs g) v = true := by
  have hinv0 : VisInv g [(0, none, 0)] := visInv_init g hn
  have hq0 : Processed g 0 [(0, none, 0)] := ⟨by simp, fun j hj => absurd hj (Nat.not_lt_zero j)⟩
  obtain ⟨⟨t, ht⟩, hfin⟩ := bfsLoop_complete g hwf g.n 0 _ hinv0 hq0 (by omega)
  have hroot : visited (bfs g) 0 = true := by
    unfold bfs; rw [ht]
    apply visited_append
    decide
  induction h with
  | refl => exact hroot
  | @tail b c _ e ih =>
    unfold visited at ih
    cases hl : visLookup (bfs g) b with
    | none => rw [hl] at ih; simp at ih
    | some en =>
      obtain ⟨hmem, hb⟩ := mem_of_visLookup _ b en hl
      obtain ⟨j, hj⟩ := List.mem_iff_getElem?.1 hmem
      have hjlt : j < (bfs g).length := (List.getElem?_eq_some_iff.1 hj).1
      have := hfin.2 j hjlt en hj c (by rw [hb]; exact e)
      exact this

theorem bfs_allVisited (g : G) (hwf : g.wf = true) (hn : 0 < g.n)
    (h : ∀ v, v < g.n → Reach g 0 v) : allVisited g (bfs g) = true := by
  unfold allVisited
  rw [List.all_eq_true]
  intro v hv
  exact bfs_visits_reachable g hwf hn v (h v (List.mem_range.1 hv))

/-- the root is the first queue entry, at level 0 -/
theorem bfs_root (g : G) (hwf : g.wf = true) (hn : 0 < g.n) : levelOf g.n (bfs g) 0 = 0 := by
  have hinv0 : VisInv g [(0, none, 0)] := visInv_init g hn
  have hq0 : Processed g 0 [(0, none, 0)] := ⟨by simp, fun j hj => absurd hj (Nat.not_lt_zero j)⟩
  obtain ⟨⟨t, ht⟩, _⟩ := bfsLoop_complete g hwf g.n 0 _ hinv0 hq0 (by omega)
  have hmem : ((0, none, 0) : Nat × Option Nat × Nat) ∈ bfs g := by
    unfold bfs; rw [ht]; simp
  have := levelArr_spec g (bfs g) (bfs_inv g hwf hn) _ hmem
  simpa using this

/-- every prefix length of a walk is realised -/
theorem walk_prefix (g : G) {u w L : Nat} (h : Walk g u w L) (j : Nat) (hj : j ≤ L) :
    ∃ x, Walk g u x j := by
  induction h generalizing j with
  | nil u => exact ⟨u, by have : j = 0 := by omega
                          subst this; exact Walk.nil u⟩
  | @cons u v w L e _ ih =>
    cases j with
    | zero => exact ⟨u, Walk.nil u⟩
    | succ j =>
      obtain ⟨x, hx⟩ := ih j (by omega)
      exact ⟨x, Walk.cons e hx⟩

theorem walk_end_lt (g : G) (hwf : g.wf = true) {u w L : Nat} (h : Walk g u w L) (hu : u < g.n) :
    w < g.n := by
  induction h with
  | nil u => exact hu
  | cons e _ ih => exact ih (E_lt g hwf e).2

/-! ### walks from reachability -/

theorem reach_walk (g : G) {u v : Nat} (h : Reach g u v) : ∃ L, Walk g u v L := by
  induction h with
  | refl => exact ⟨0, Walk.nil u⟩
  | tail _ e ih =>
    obtain ⟨L, hL⟩ := ih
    exact ⟨L + 1, hL.snoc e⟩

theorem walk_reach (g : G) {u v L : Nat} (h : Walk g u v L) : Reach g u v := by
  induction h with
  | nil u => exact Relation.ReflTransGen.refl
  | cons e _ ih => exact Relation.ReflTransGen.head e ih

theorem walk_zero_eq (g : G) {u v : Nat} (h : Walk g u v 0) : u = v := by
  cases h; rfl

end QE.C03
