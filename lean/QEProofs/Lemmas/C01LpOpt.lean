/-
  Lemmas for C01, part 11: the linear-programming method in exact arithmetic (tolerances 0).
  (1) a canonical tableau whose basis is a policy and whose reduced costs are `≤ 0` yields
      `T_σ v = v` and `T v = v`;
  (2) "the basis is a policy" is an invariant of `solve_tableau` (pigeonhole on the feasible
      basic solution: every state carries positive mass);
  (3) the `n` initial pivots.
-/
import QEProofs.Lemmas.C01Lp

set_option linter.unusedSectionVars false

namespace QE.C01
open List QE.Pivot

variable {K : Type} [Field K] [LinearOrder K] [IsStrictOrderedRing K]

/-- the basic column of row `i` is a pair of state `i` (what `sigma[i] = a_indices[basis[i]]`
    presupposes) -/
def PolicyBasis (P : Prob K) (b : List ℕ) : Prop :=
  b.length = P.length ∧ ∀ i, i < P.length →
    b.getD i 0 < (lpCols P).length ∧ ((lpCols P).getD (b.getD i 0) dfltCol).1 = i

/-- `sigma[i] = a_indices[basis[i]]` -/
def sigmaOfBasis (P : Prob K) (b : List ℕ) : List ℕ :=
  b.map fun j => ((lpCols P).getD j dfltCol).2.a

/-- the pair in the basic column of row `i` is a feasible pair of state `i` -/
theorem policyBasis_mem {P : Prob K} {b : List ℕ} (h : PolicyBasis P b) (i : ℕ) (hi : i < P.length) :
    ((lpCols P).getD (b.getD i 0) dfltCol).2 ∈ P[i] := by
  obtain ⟨hj, hst⟩ := h.2 i hi
  have hmem : (lpCols P).getD (b.getD i 0) dfltCol ∈ lpCols P := by
    rw [← getElem_eq_getD (h := hj) dfltCol]; exact getElem_mem hj
  obtain ⟨h1, h2⟩ := lpCols_mem.mp hmem
  simp only [hst] at h2
  exact h2

theorem feasible_of_policyBasis {P : Prob K} {b : List ℕ} (h : PolicyBasis P b) :
    Feasible P (sigmaOfBasis P b) := by
  unfold Feasible
  rw [forall₂_iff_get]
  refine ⟨by simp [sigmaOfBasis, h.1], fun i h1 h2 => ?_⟩
  simp only [get_eq_getElem, sigmaOfBasis, getElem_map]
  have hib : i < b.length := by rw [h.1]; exact h1
  have := policyBasis_mem h i h1
  rw [← getElem_eq_getD (h := hib) 0] at this
  exact ⟨_, this, rfl⟩

/-- **optimality from a canonical policy basis with non-positive reduced costs** -/
theorem opt_of_policy_basis {P : Prob K} (hP : WF P) {β : K} {T : M K} {b : List ℕ}
    (hinv : RowInv (lpTableau P β) T P.length (lpCols P).length)
    (hcan : QE.C04.Canon T b P.length ((lpCols P).length + P.length))
    (hpb : PolicyBasis P b)
    (hred : ∀ j < (lpCols P).length, T.get P.length j ≤ 0) :
    Feasible P (sigmaOfBasis P b) ∧
    tSigma P β (sigmaOfBasis P b) (vOfTab P T) = vOfTab P T ∧
    bellman P β (vOfTab P T) = vOfTab P T := by
  have hf := feasible_of_policyBasis hpb
  have hval : tSigma P β (sigmaOfBasis P b) (vOfTab P T) = vOfTab P T := by
    apply ext_getElem (by simp [tSigma_length, sigmaOfBasis, hpb.1])
    intro i h1 h2
    have hi : i < P.length := by simpa using h2
    have hib : i < b.length := by rw [hpb.1]; exact hi
    obtain ⟨hj, hst⟩ := hpb.2 i hi
    have hx := policyBasis_mem hpb i hi
    set x := ((lpCols P).getD (b.getD i 0) dfltCol).2 with hxdef
    have hcol : (lpCols P).getD (b.getD i 0) dfltCol = (i, x) := Prod.ext hst rfl
    have hq := (hP.stoch _ (getElem_mem hi) x hx).2.2
    have hrc := rowInv_reduced_cost hinv (b.getD i 0) hj i x hcol hi hq
    have hzero := (hcan.2 i hi).2 P.length (by omega)
    rw [if_neg (by omega)] at hzero
    rw [hzero] at hrc
    change 0 = qval β (vOfTab P T) x - (vOfTab P T).getD i 0 at hrc
    simp only [tSigma, polActs, getElem_map, getElem_zipWith, sigmaOfBasis]
    have hbi : b[i] = b.getD i 0 := getElem_eq_getD 0
    rw [hbi]
    have hfind : findAct P[i] x.a = x :=
      findAct_eq_of_mem P[i] dfltAct x hx (hP.nodup _ (getElem_mem hi))
    rw [← hxdef, hfind, getElem_eq_getD 0]
    linarith
  refine ⟨hf, hval, ?_⟩
  have hdual := dual_feasible_of_rowInv hP (β := β) hinv hred
  have h := tSigma_le_bellman hf β (vOfTab P T)
  rw [hval] at h
  exact leAdd_antisymm hdual h

/-! ### (2) the basis stays a policy -/

theorem lpTableau_rhs (P : Prob K) (β : K) (s : ℕ) (hs : s < P.length) :
    (lpTableau P β).get s ((lpCols P).length + P.length) = 1 := by
  unfold lpTableau
  rw [M.get_tab _ _ _ _ _ (by omega) (by omega)]
  simp [hs]

theorem lpCols_stoch {P : Prob K} (hP : WF P) (j : ℕ) (hj : j < (lpCols P).length) :
    ((lpCols P).getD j dfltCol).1 < P.length ∧ Stoch P.length ((lpCols P).getD j dfltCol).2 := by
  have hmem : (lpCols P).getD j dfltCol ∈ lpCols P := by
    rw [← getElem_eq_getD (h := hj) dfltCol]; exact getElem_mem hj
  obtain ⟨h1, h2⟩ := lpCols_mem.mp hmem
  exact ⟨h1, hP.stoch _ (getElem_mem h1) _ h2⟩

/-- **every state carries a basic column** in a feasible canonical tableau whose constraint rows
    have the solutions of the initial tableau and whose basic columns are structural: the basic
    solution `y ≥ 0` satisfies `Σ_{a} y(s,a) = 1 + β Σ q(s|·) y ≥ 1` -/
theorem state_covered {P : Prob K} (hP : WF P) {β : K} (hβ0 : 0 ≤ β) {T : M K} {b : List ℕ}
    (hs : QE.C04.Shape T P.length ((lpCols P).length + P.length))
    (hcan : QE.C04.Canon T b P.length ((lpCols P).length + P.length))
    (hrhs : QE.C04.RhsNonneg T P.length ((lpCols P).length + P.length))
    (hsol : ∀ z, RowsSat T z P.length → RowsSat (lpTableau P β) z P.length)
    (hstr : ∀ i, i < P.length → b.getD i 0 < (lpCols P).length)
    (s : ℕ) (hsn : s < P.length) :
    ∃ i, i < P.length ∧ ((lpCols P).getD (b.getD i 0) dfltCol).1 = s := by
  by_contra hno
  have hno' : ∀ i, i < P.length → ((lpCols P).getD (b.getD i 0) dfltCol).1 ≠ s :=
    fun i hi h => hno ⟨i, hi, h⟩
  set N := (lpCols P).length + P.length with hN
  set y := QE.C04.bsol T b P.length N with hy
  have hy0 : ∀ j, 0 ≤ y j := fun j => QE.C04.bsol_nonneg T b P.length N j hrhs
  have hsat := hsol y (QE.C04.bsol_rowsSat T b P.length N hs hcan) s hsn
  unfold RowSat at hsat
  have hnc : (lpTableau P β).nc - 1 = N := by rw [lpTableau_nc]; rfl
  rw [hnc, lpTableau_rhs P β s hsn] at hsat
  have hle : ∑ j ∈ Finset.range N, (lpTableau P β).get s j * y j ≤ 0 := by
    apply Finset.sum_nonpos
    intro j hj
    have hjN := Finset.mem_range.mp hj
    by_cases hjL : j < (lpCols P).length
    · rw [lpTableau_body P β s j hsn hjL]
      obtain ⟨_, hst⟩ := lpCols_stoch hP j hjL
      by_cases hsj : ((lpCols P).getD j dfltCol).1 = s
      · -- a column of state s is non-basic, so y j = 0
        have : y j = 0 := by
          apply QE.C04.bsol_nonbasic
          intro i hi e
          exact hno' i hi (by rw [e]; exact hsj)
        rw [this]; simp
      · rw [if_neg hsj, add_zero]
        have hq : 0 ≤ ((lpCols P).getD j dfltCol).2.q.getD s 0 := by
          have hsl : s < ((lpCols P).getD j dfltCol).2.q.length := by rw [hst.2.2]; exact hsn
          rw [← getElem_eq_getD (h := hsl) 0]; exact hst.1 _ (getElem_mem hsl)
        have := mul_nonneg (mul_nonneg hq hβ0) (hy0 j)
        nlinarith
    · -- slack columns are non-basic
      have : y j = 0 := by
        apply QE.C04.bsol_nonbasic
        intro i hi e
        have := hstr i hi
        omega
      rw [this]; simp
  linarith

/-- the loop invariant in exact arithmetic: C04's invariant relative to the initial tableau of the
    dual LP, and the basis is a policy -/
def LpInv (P : Prob K) (β : K) (T : M K) (b : List ℕ) : Prop :=
  QE.C04.Inv0 (lpTableau P β) P.length ((lpCols P).length + P.length) T b ∧ PolicyBasis P b

theorem lpInv_step {P : Prob K} (hP : WF P) {β : K} (hβ0 : 0 ≤ β) {T T' : M K} {b b' : List ℕ}
    (h : LpInv P β T b) (hst : QE.C04.Step (QE.C04.tol0 : QE.C04.Tol K) true T b T' b') :
    LpInv P β T' b' := by
  obtain ⟨hinv, hpb⟩ := h
  have hinv' := QE.C04.inv0_step true _ _ _ T b T' b' hinv hst
  obtain ⟨c, r, hc, hr, _, _, _, hT, hb⟩ :=
    QE.C04.step_data true T b T' b' _ _ hinv.shape hst
  refine ⟨hinv', ?_⟩
  have hcL : c < (lpCols P).length := by simp only [if_true] at hc; omega
  have hlen : b'.length = P.length := by rw [hb]; simpa using hpb.1
  have hget : ∀ i, b'.getD i 0 = if i = r then c else b.getD i 0 := by
    intro i; rw [hb]; exact QE.C04.getD_set b r c i (by rw [hpb.1]; exact hr)
  have hstr : ∀ i, i < P.length → b'.getD i 0 < (lpCols P).length := by
    intro i hi
    rw [hget i]
    split_ifs
    · exact hcL
    · exact (hpb.2 i hi).1
  refine ⟨hlen, fun i hi => ⟨hstr i hi, ?_⟩⟩
  by_cases hir : i = r
  · -- state r must be covered by some basic column; the others belong to their own states
    obtain ⟨i', hi', hcov⟩ := state_covered hP hβ0 hinv'.shape hinv'.canon hinv'.rhs
      (fun z hz => (hinv'.sol z).mp hz) hstr r hr
    by_cases hi'r : i' = r
    · rw [hir, ← hi'r]; rw [hi'r]; rw [hi'r] at hcov; exact hcov
    · rw [hget i', if_neg hi'r] at hcov
      have := (hpb.2 i' hi').2
      omega
  · rw [hget i, if_neg hir]
    exact (hpb.2 i hi).2

/-- **exit of the LP method at tolerances 0.** From a start satisfying the invariant, for every
    cap: at status 0 the basis is a policy `σ`, `T_σ v = v` and `T v = v`. -/
theorem lp_opt_of_start {P : Prob K} (hP : WF P) {β : K} (hβ0 : 0 ≤ β) (T1 : M K) (b0 : List ℕ)
    (hstart : LpInv P β T1 b0)
    (hrow : RowInv (lpTableau P β) T1 P.length (lpCols P).length) (fuel : ℕ)
    (hst : (QE.C04.solveTableau (QE.C04.tol0 : QE.C04.Tol K) true fuel T1 b0).status = 0) :
    Feasible P (sigmaOfBasis P (QE.C04.solveTableau (QE.C04.tol0 : QE.C04.Tol K) true fuel T1 b0).basis) ∧
    tSigma P β (sigmaOfBasis P (QE.C04.solveTableau (QE.C04.tol0 : QE.C04.Tol K) true fuel T1 b0).basis)
        (vOfTab P (QE.C04.solveTableau (QE.C04.tol0 : QE.C04.Tol K) true fuel T1 b0).T)
      = vOfTab P (QE.C04.solveTableau (QE.C04.tol0 : QE.C04.Tol K) true fuel T1 b0).T ∧
    bellman P β (vOfTab P (QE.C04.solveTableau (QE.C04.tol0 : QE.C04.Tol K) true fuel T1 b0).T)
      = vOfTab P (QE.C04.solveTableau (QE.C04.tol0 : QE.C04.Tol K) true fuel T1 b0).T := by
  have hfin : LpInv P β (QE.C04.solveTableau (QE.C04.tol0 : QE.C04.Tol K) true fuel T1 b0).T
      (QE.C04.solveTableau (QE.C04.tol0 : QE.C04.Tol K) true fuel T1 b0).basis :=
    QE.C04.solveTableau_induct (QE.C04.tol0 : QE.C04.Tol K) true (LpInv P β)
      (fun T b T' b' h hs => lpInv_step hP hβ0 h hs) fuel T1 b0 hstart
  have hri := solveTableau_inv (QE.C04.tol0 : QE.C04.Tol K) fuel T1 b0 hrow
  exact opt_of_policy_basis hP hri.1 hfin.1.canon hfin.2 (hri.2 hst)

/-! ### (3) the start: `_find_indices` and the `n` initial pivots -/

theorem foldl_last_sat (p : ℕ → Prop) [DecidablePred p] : ∀ n : ℕ, (∃ j, j < n ∧ p j) →
    p ((range n).foldl (fun cur j => if p j then j else cur) 0) ∧
    (range n).foldl (fun cur j => if p j then j else cur) 0 < n := by
  intro n
  induction n with
  | zero => rintro ⟨j, hj, _⟩; omega
  | succ n ih =>
    rintro ⟨j, hj, hpj⟩
    rw [range_succ, foldl_append]
    simp only [foldl_cons, foldl_nil]
    by_cases hn : p n
    · rw [if_pos hn]; exact ⟨hn, by omega⟩
    · rw [if_neg hn]
      have hjn : j < n := by
        rcases Nat.lt_succ_iff_lt_or_eq.mp hj with h | h
        · exact h
        · subst h; exact absurd hpj hn
      obtain ⟨h1, h2⟩ := ih ⟨j, hjn, hpj⟩
      exact ⟨h1, by omega⟩

/-- the basis built by `_find_indices` from a feasible policy is a policy basis naming that policy -/
theorem policyBasis_start {P : Prob K} {σ0 : List ℕ} (hf : Feasible P σ0) :
    PolicyBasis P ((range P.length).map fun i => findCol (lpCols P) i (σ0.getD i 0)) := by
  refine ⟨by simp, fun i hi => ?_⟩
  have hg : ((range P.length).map fun i => findCol (lpCols P) i (σ0.getD i 0)).getD i 0
      = findCol (lpCols P) i (σ0.getD i 0) := by
    rw [← getElem_eq_getD (h := by simp [hi]) 0]; simp
  rw [hg]
  -- some column holds the pair (i, σ0 i)
  unfold Feasible at hf
  rw [forall₂_iff_get] at hf
  have hσ : i < σ0.length := by rw [← hf.1]; exact hi
  obtain ⟨x, hx, hxa⟩ := hf.2 i hi hσ
  simp only [get_eq_getElem] at hx hxa
  have hmem : (i, x) ∈ lpCols P := lpCols_mem.mpr ⟨hi, hx⟩
  obtain ⟨j, hj, hjeq⟩ := mem_iff_getElem.mp hmem
  have hex : ∃ j, j < (lpCols P).length ∧
      (((lpCols P).getD j dfltCol).1 = i ∧ ((lpCols P).getD j dfltCol).2.a = σ0.getD i 0) := by
    refine ⟨j, hj, ?_⟩
    rw [← getElem_eq_getD (h := hj) dfltCol, hjeq, ← getElem_eq_getD (h := hσ) 0]
    exact ⟨rfl, hxa⟩
  obtain ⟨h1, h2⟩ := foldl_last_sat
    (fun j => ((lpCols P).getD j dfltCol).1 = i ∧ ((lpCols P).getD j dfltCol).2.a = σ0.getD i 0) _ hex
  exact ⟨h2, h1.1⟩

/-- the start basis of `ddp_linprog_simplex` (`_find_indices` on the start policy) -/
def lpBasis0 (P : Prob K) (σ0 : List ℕ) : List ℕ :=
  (range P.length).map fun i => findCol (lpCols P) i (σ0.getD i 0)

/-- the tableau after the first `i` initial pivots -/
def lpStartUpTo (P : Prob K) (β : K) (b0 : List ℕ) (i : ℕ) : M K :=
  (range i).foldl (fun T k => pivot T (b0.getD k 0) k) (lpTableau P β)

theorem lpStartUpTo_succ (P : Prob K) (β : K) (b0 : List ℕ) (i : ℕ) :
    lpStartUpTo P β b0 (i + 1) = pivot (lpStartUpTo P β b0 i) (b0.getD i 0) i := by
  simp [lpStartUpTo, range_succ, foldl_append]

/-- what the Boolean fold of `lpStartChk` computes -/
theorem lpStartChk_fold (P : Prob K) (β : K) (b0 : List ℕ) : ∀ i : ℕ,
    ((range i).foldl (fun (st : M K × Bool) k =>
        (pivot st.1 (b0.getD k 0) k, st.2 && !(st.1.get k (b0.getD k 0) == 0))) (lpTableau P β, true)).1
      = lpStartUpTo P β b0 i ∧
    (((range i).foldl (fun (st : M K × Bool) k =>
        (pivot st.1 (b0.getD k 0) k, st.2 && !(st.1.get k (b0.getD k 0) == 0))) (lpTableau P β, true)).2
      = true → ∀ k, k < i → (lpStartUpTo P β b0 k).get k (b0.getD k 0) ≠ 0) := by
  intro i
  induction i with
  | zero => exact ⟨rfl, fun _ k hk => by omega⟩
  | succ i ih =>
    rw [range_succ, foldl_append]
    simp only [foldl_cons, foldl_nil]
    obtain ⟨h1, h2⟩ := ih
    refine ⟨by rw [h1, lpStartUpTo_succ], fun hb k hk => ?_⟩
    simp only [Bool.and_eq_true, Bool.not_eq_true', beq_eq_false_iff_ne] at hb
    rcases Nat.lt_succ_iff_lt_or_eq.mp hk with hlt | heq
    · exact h2 hb.1 k hlt
    · subst heq; rw [← h1]; exact hb.2

theorem getD_map_range_nat (n : ℕ) (f : ℕ → ℕ) (j : ℕ) (hj : j < n) :
    ((List.range n).map f).getD j 0 = f j := by
  rw [List.getD_eq_getElem?_getD, List.getElem?_map, List.getElem?_range hj]; rfl

theorem canon_congr {T : M K} {b b' : List ℕ} {L N : ℕ} (hl : b'.length = L)
    (hg : ∀ i, i < L → b'.getD i 0 = b.getD i 0) (h : QE.C04.Canon T b L N) : QE.C04.Canon T b' L N := by
  refine ⟨hl, fun i hi => ?_⟩
  rw [hg i hi]
  exact h.2 i hi

/-- with non-zero pivot elements, the tableau after `i` initial pivots is canonical for the mixed
    basis (the first `i` rows carry the policy's columns, the others their slack columns) and is
    equivalent to the initial tableau -/
theorem lpStartUpTo_inv (P : Prob K) (β : K) (b0 : List ℕ)
    (hb0 : ∀ k, k < P.length → b0.getD k 0 < (lpCols P).length) :
    ∀ i, i ≤ P.length → (∀ k, k < i → (lpStartUpTo P β b0 k).get k (b0.getD k 0) ≠ 0) →
      QE.C04.Shape (lpStartUpTo P β b0 i) P.length ((lpCols P).length + P.length) ∧
      QE.C04.Canon (lpStartUpTo P β b0 i)
        ((range P.length).map fun k => if k < i then b0.getD k 0 else (lpCols P).length + k)
        P.length ((lpCols P).length + P.length) ∧
      (∀ z, RowsSat (lpStartUpTo P β b0 i) z P.length ↔ RowsSat (lpTableau P β) z P.length) ∧
      (∀ z, RowsSat (lpStartUpTo P β b0 i) z P.length →
        resid (lpStartUpTo P β b0 i) z P.length = resid (lpTableau P β) z P.length) := by
  intro i
  induction i with
  | zero =>
    intro _ _
    refine ⟨⟨lpTableau_nr P β, lpTableau_nc P β⟩, ⟨by simp, fun k hk => ?_⟩, fun _ => Iff.rfl, fun _ _ => rfl⟩
    rw [getD_map_range_nat _ _ k hk]
    simp only [Nat.not_lt_zero, if_false]
    refine ⟨by omega, fun i' hi' => ?_⟩
    exact lpTableau_slack P β i' k (by omega) hk
  | succ i ih =>
    intro hi hnz
    obtain ⟨hs, hc, hsol, hobj⟩ := ih (by omega) (fun k hk => hnz k (by omega))
    have hp := hnz i (by omega)
    rw [lpStartUpTo_succ]
    refine ⟨QE.C04.shape_pivot _ _ _ _ _ hs, ?_,
      QE.C04.solset_pivot _ _ _ _ _ _ hs (by omega) hp hsol,
      QE.C04.obj_pivot _ _ _ _ _ _ hs (by omega) hp hobj⟩
    have hc' := QE.C04.canon_pivot _ _ _ _ (b0.getD i 0) i hs hc
      (by have := hb0 i (by omega); omega) (by omega) hp
    refine canon_congr (by simp) (fun k hk => ?_) hc'
    rw [QE.C04.getD_set _ _ _ _ (by simp; omega), getD_map_range_nat _ _ k hk,
      getD_map_range_nat _ _ k hk]
    by_cases hki : k = i
    · subst hki; simp
    · by_cases hlt : k < i
      · simp [hki, hlt, show k < i + 1 by omega]
      · simp [hki, hlt, show ¬ k < i + 1 by omega]

/-- **the start validation implies C04's invariant for the start tableau** -/
theorem inv0_of_startChk {P : Prob K} {β : K} {σ0 : List ℕ} (hf0 : Feasible P σ0)
    (h : lpStartChk P β (lpBasis0 P σ0) = true) :
    QE.C04.Inv0 (lpTableau P β) P.length ((lpCols P).length + P.length)
      (lpStart P β (lpBasis0 P σ0)) (lpBasis0 P σ0) := by
  unfold lpStartChk at h
  rw [Bool.and_eq_true] at h
  obtain ⟨h1, h2⟩ := h
  have hnz := (lpStartChk_fold P β (lpBasis0 P σ0) P.length).2 h1
  have hpb := policyBasis_start (P := P) hf0
  have hb0 : ∀ k, k < P.length → (lpBasis0 P σ0).getD k 0 < (lpCols P).length :=
    fun k hk => (hpb.2 k hk).1
  obtain ⟨hs, hc, hsol, hobj⟩ := lpStartUpTo_inv P β (lpBasis0 P σ0) hb0 P.length le_rfl hnz
  have hT : lpStartUpTo P β (lpBasis0 P σ0) P.length = lpStart P β (lpBasis0 P σ0) := rfl
  rw [hT] at hs hc hsol hobj
  refine ⟨hs, ?_, ?_, hsol, hobj⟩
  · refine canon_congr (by simp [lpBasis0]) (fun k hk => ?_) hc
    rw [getD_map_range_nat _ _ k hk, if_pos hk]
  · intro i hi
    rw [all_eq_true] at h2
    have := h2 i (mem_range.mpr hi)
    simpa using this

/-- exit of the model of `ddp_linprog_simplex` at tolerances 0, given that the tableau after the
    `n` initial pivots satisfies C04's invariant relative to the initial tableau -/
theorem lpSolve_opt_of_start {P : Prob K} (hP : WF P) {β : K} (hβ0 : 0 ≤ β) {σ0 : List ℕ}
    (hf0 : Feasible P σ0) (maxIter : ℕ)
    (hstart : QE.C04.Inv0 (lpTableau P β) P.length ((lpCols P).length + P.length)
      (lpStart P β (lpBasis0 P σ0)) (lpBasis0 P σ0))
    (hstop : (lpSolve (QE.C04.tol0 : QE.C04.Tol K) P β σ0 maxIter).stopped = true) :
    Feasible P (lpSolve (QE.C04.tol0 : QE.C04.Tol K) P β σ0 maxIter).sigma ∧
    tSigma P β (lpSolve (QE.C04.tol0 : QE.C04.Tol K) P β σ0 maxIter).sigma
        (lpSolve (QE.C04.tol0 : QE.C04.Tol K) P β σ0 maxIter).v
      = (lpSolve (QE.C04.tol0 : QE.C04.Tol K) P β σ0 maxIter).v ∧
    bellman P β (lpSolve (QE.C04.tol0 : QE.C04.Tol K) P β σ0 maxIter).v
      = (lpSolve (QE.C04.tol0 : QE.C04.Tol K) P β σ0 maxIter).v := by
  have hst : (QE.C04.solveTableau (QE.C04.tol0 : QE.C04.Tol K) true (maxIter - P.length)
      (lpStart P β (lpBasis0 P σ0)) (lpBasis0 P σ0)).status = 0 := by
    have : ((QE.C04.solveTableau (QE.C04.tol0 : QE.C04.Tol K) true (maxIter - P.length)
      (lpStart P β (lpBasis0 P σ0)) (lpBasis0 P σ0)).status == 0) = true := hstop
    simpa using this
  exact lp_opt_of_start hP hβ0 _ _ ⟨hstart, policyBasis_start hf0⟩
    (rowInv_start P β (lpBasis0 P σ0)) (maxIter - P.length) hst

end QE.C01
