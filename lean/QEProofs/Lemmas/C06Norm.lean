/-
  C06 helper lemmas, part 9: max-row-sum bounds (`RowBound A a`: every absolute row sum of `A` is
  at most `a`, i.e. `‖A‖∞ ≤ a`) and entrywise bounds (`EntryBound M g`: `‖M‖_max ≤ g`) over an
  ordered field: sub-multiplicativity, powers, congruences, sums, and the geometric bound of the
  doubling sums `Σ_{j<m} a^j b (aᵀ)^j` when `‖a‖∞ ≤ ρ < 1`.
-/
import QEProofs.Lemmas.C06LyapPsd
import Mathlib.Algebra.Order.BigOperators.Group.Finset
import Mathlib.Algebra.Order.BigOperators.Ring.Finset
import Mathlib.Tactic.Positivity

set_option linter.unusedSectionVars false

namespace QE.C06
open Matrix Finset

variable {K : Type} [Field K] [LinearOrder K] [IsStrictOrderedRing K] {n : ℕ}

/-- `‖A‖∞ ≤ a`: every absolute row sum is at most `a` -/
def RowBound (A : Matrix (Fin n) (Fin n) K) (a : K) : Prop := ∀ p, ∑ c, |A p c| ≤ a

/-- `‖M‖_max ≤ g`: every entry is at most `g` in absolute value -/
def EntryBound (M : Matrix (Fin n) (Fin n) K) (g : K) : Prop := ∀ p q, |M p q| ≤ g

/-- sub-multiplicativity of the max-row-sum norm -/
theorem rowBound_mul {A B : Matrix (Fin n) (Fin n) K} {a b : K} (hA : RowBound A a) (hB : RowBound B b)
    (hb : 0 ≤ b) : RowBound (A * B) (a * b) := by
  intro p
  calc ∑ c, |(A * B) p c| ≤ ∑ c, ∑ d, |A p d| * |B d c| := by
        apply sum_le_sum; intro c _
        rw [Matrix.mul_apply]
        refine le_trans (abs_sum_le_sum_abs _ _) (le_of_eq ?_)
        exact sum_congr rfl fun d _ => abs_mul _ _
    _ = ∑ d, |A p d| * ∑ c, |B d c| := by
        rw [sum_comm]; exact sum_congr rfl fun d _ => (mul_sum _ _ _).symm
    _ ≤ ∑ d, |A p d| * b := sum_le_sum fun d _ => mul_le_mul_of_nonneg_left (hB d) (abs_nonneg _)
    _ = (∑ d, |A p d|) * b := (sum_mul _ _ _).symm
    _ ≤ a * b := mul_le_mul_of_nonneg_right (hA p) hb

theorem rowBound_one : RowBound (1 : Matrix (Fin n) (Fin n) K) 1 := by
  intro p
  have : ∀ c, |(1 : Matrix (Fin n) (Fin n) K) p c| = if p = c then 1 else 0 := by
    intro c; rw [Matrix.one_apply]; split <;> simp
  simp only [this, sum_ite_eq, mem_univ, if_true, le_refl]

theorem rowBound_pow {A : Matrix (Fin n) (Fin n) K} {a : K} (hA : RowBound A a) (ha : 0 ≤ a) (j : ℕ) :
    RowBound (A ^ j) (a ^ j) := by
  induction j with
  | zero => simpa using (rowBound_one : RowBound (1 : Matrix (Fin n) (Fin n) K) 1)
  | succ j ih => rw [pow_succ, pow_succ]; exact rowBound_mul ih hA ha

theorem entryBound_mul_left {A M : Matrix (Fin n) (Fin n) K} {a g : K} (hA : RowBound A a)
    (hM : EntryBound M g) (hg : 0 ≤ g) : EntryBound (A * M) (a * g) := by
  intro p q
  rw [Matrix.mul_apply]
  calc |∑ c, A p c * M c q| ≤ ∑ c, |A p c| * |M c q| :=
        le_trans (abs_sum_le_sum_abs _ _) (le_of_eq (sum_congr rfl fun c _ => abs_mul _ _))
    _ ≤ ∑ c, |A p c| * g := sum_le_sum fun c _ => mul_le_mul_of_nonneg_left (hM c q) (abs_nonneg _)
    _ = (∑ c, |A p c|) * g := (sum_mul _ _ _).symm
    _ ≤ a * g := mul_le_mul_of_nonneg_right (hA p) hg

theorem entryBound_mul_right_transpose {A M : Matrix (Fin n) (Fin n) K} {a g : K} (hM : EntryBound M g)
    (hA : RowBound A a) (hg : 0 ≤ g) : EntryBound (M * Aᵀ) (g * a) := by
  intro p q
  rw [Matrix.mul_apply]
  calc |∑ d, M p d * Aᵀ d q| ≤ ∑ d, |M p d| * |A q d| :=
        le_trans (abs_sum_le_sum_abs _ _)
          (le_of_eq (sum_congr rfl fun d _ => by rw [abs_mul, transpose_apply]))
    _ ≤ ∑ d, g * |A q d| := sum_le_sum fun d _ => mul_le_mul_of_nonneg_right (hM p d) (abs_nonneg _)
    _ = g * ∑ d, |A q d| := (mul_sum _ _ _).symm
    _ ≤ g * a := mul_le_mul_of_nonneg_left (hA q) hg

/-- congruence: `‖α γ αᵀ‖_max ≤ ‖α‖∞ · ‖γ‖_max · ‖α‖∞` -/
theorem entryBound_conj {A M : Matrix (Fin n) (Fin n) K} {a g : K} (hA : RowBound A a) (ha : 0 ≤ a)
    (hM : EntryBound M g) (hg : 0 ≤ g) : EntryBound (A * M * Aᵀ) (a * g * a) :=
  entryBound_mul_right_transpose (entryBound_mul_left hA hM hg) hA (mul_nonneg ha hg)

theorem entryBound_sum {ι : Type} (s : Finset ι) (f : ι → Matrix (Fin n) (Fin n) K) (β : ι → K)
    (h : ∀ i ∈ s, EntryBound (f i) (β i)) : EntryBound (∑ i ∈ s, f i) (∑ i ∈ s, β i) := by
  intro p q
  rw [Matrix.sum_apply]
  exact le_trans (abs_sum_le_sum_abs _ _) (sum_le_sum fun i hi => h i hi p q)

theorem entryBound_mono {M : Matrix (Fin n) (Fin n) K} {g g' : K} (h : EntryBound M g) (hg : g ≤ g') :
    EntryBound M g' := fun p q => le_trans (h p q) hg

/-- geometric sums: `Σ_{j<m} x^j ≤ 1/(1-x)` for `0 ≤ x < 1` -/
theorem geom_sum_le (x : K) (hx0 : 0 ≤ x) (hx1 : x < 1) (m : ℕ) : ∑ j ∈ range m, x ^ j ≤ 1 / (1 - x) := by
  have h1 : 0 < 1 - x := sub_pos.mpr hx1
  have key : (∑ j ∈ range m, x ^ j) * (1 - x) = 1 - x ^ m := by
    induction m with
    | zero => simp
    | succ m ih => rw [sum_range_succ, add_mul, ih, pow_succ]; ring
  rw [le_div_iff₀ h1, key]
  linarith [pow_nonneg hx0 m]

section doubling
variable (a b : Matrix (Fin n) (Fin n) K) (ρ β : K)

/-- `‖a^j b (aᵀ)^j‖_max ≤ β (ρ²)^j` -/
theorem tterm_entryBound (ha : RowBound a ρ) (hρ : 0 ≤ ρ) (hb : EntryBound b β) (hβ : 0 ≤ β) (j : ℕ) :
    EntryBound (tterm a b j) (β * (ρ ^ 2) ^ j) := by
  unfold tterm
  rw [← transpose_pow]
  have := entryBound_conj (rowBound_pow ha hρ j) (pow_nonneg hρ j) hb hβ
  refine entryBound_mono this (le_of_eq ?_)
  rw [← pow_mul, mul_comm 2 j, pow_mul]; ring

/-- uniform bound of the partial sums: `‖Σ_{j<m} a^j b (aᵀ)^j‖_max ≤ β / (1 − ρ²)` -/
theorem dsum_entryBound (ha : RowBound a ρ) (hρ : 0 ≤ ρ) (hρ1 : ρ < 1) (hb : EntryBound b β) (hβ : 0 ≤ β)
    (m : ℕ) : EntryBound (dsum a b aᵀ m) (β / (1 - ρ ^ 2)) := by
  rw [dsum_eq_sum_tterm]
  have h2 : ρ ^ 2 < 1 := by nlinarith
  have h := entryBound_sum (range m) (tterm a b) (fun j => β * (ρ ^ 2) ^ j)
    (fun j _ => tterm_entryBound a b ρ β ha hρ hb hβ j)
  refine entryBound_mono h ?_
  rw [← mul_sum, div_eq_mul_one_div]
  exact mul_le_mul_of_nonneg_left (geom_sum_le _ (sq_nonneg ρ) h2 m) hβ

/-- the doubling increment `a^m γ_m (aᵀ)^m` (and every Cauchy difference `γ_(m+p) − γ_m`) is at most
    `β/(1−ρ²) · (ρ^m)²` entrywise -/
theorem increment_entryBound (ha : RowBound a ρ) (hρ : 0 ≤ ρ) (hρ1 : ρ < 1) (hb : EntryBound b β)
    (hβ : 0 ≤ β) (m p : ℕ) :
    EntryBound (a ^ m * dsum a b aᵀ p * aᵀ ^ m) (β / (1 - ρ ^ 2) * (ρ ^ m) ^ 2) := by
  rw [← transpose_pow]
  have h2 : 0 < 1 - ρ ^ 2 := by nlinarith
  have hC : 0 ≤ β / (1 - ρ ^ 2) := div_nonneg hβ (le_of_lt h2)
  have := entryBound_conj (rowBound_pow ha hρ m) (pow_nonneg hρ m)
    (dsum_entryBound a b ρ β ha hρ hρ1 hb hβ p) hC
  exact entryBound_mono this (le_of_eq (by ring))

end doubling
end QE.C06
