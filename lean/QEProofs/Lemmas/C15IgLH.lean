/-
  Lemmas for C15, part 11: Lemke–Howson on the imitation game in exact arithmetic
  (`tol_piv = tol_ratio_diff = 0`). The pivoting loop and the read-out are QEModel.C05's
  definitions; the tableaux `[I | I | 1]`, `[I | P | 1]` of `_initialize_tableaux_ig` are NOT of the
  form C05's theorems are stated for (C05's `initT0` always has a strictly positive payoff block, the
  mover's block here is the identity), so C05's generic one-tableau step `tab_step'` is re-used and
  the loop invariant is re-proved for these tableaux: at every pivot of every run — converged or
  not — both tableaux are canonical for their bases and feasible. Consequence: `rho` is a
  probability vector, or the zero vector (exactly when the basic values of the `y` variables sum
  to 0).
-/
import Mathlib.Algebra.Order.Field.Basic
import Mathlib.Tactic.Linarith
import QEModel.C15
import QEProofs.Lemmas.C05LHOut
import QEProofs.Lemmas.C15Nash
import QEProofs.Lemmas.C15Convex
namespace QE.C15
open QE QE.Pivot QE.C05 Finset

set_option linter.unusedSectionVars false
variable {K : Type} [Field K] [LinearOrder K] [IsStrictOrderedRing K]

/-! ### the initial tableaux -/

theorem igT0_get (m i j : Nat) (hi : i < m) (hj : j < 2 * m + 1) :
    (igT0 m : M K).get i j = if j = i ∨ j = i + m then 1 else if j = 2 * m then 1 else 0 := by
  unfold igT0; rw [M.get_tab _ _ _ _ _ hi hj]

theorem igT1_get_slack (m : Nat) (X Y : List (List K)) (i j : Nat) (hi : i < m) (hj : j < m) :
    (igT1 m X Y).get i j = if j = i then 1 else 0 := by
  unfold igT1; simp only
  rw [M.get_tab _ _ _ _ _ hi (by omega), if_pos hj]

theorem igT1_get_rhs (m : Nat) (X Y : List (List K)) (i : Nat) (hi : i < m) :
    (igT1 m X Y).get i (2 * m) = 1 := by
  unfold igT1; simp only
  rw [M.get_tab _ _ _ _ _ hi (by omega), if_neg (by omega), if_neg (by omega)]

theorem ig0_shape (m : Nat) : TShape (igT0 m : M K) m (2 * m) := ⟨rfl, rfl⟩
theorem ig1_shape (m : Nat) (X Y : List (List K)) : TShape (igT1 m X Y) m (2 * m) := ⟨rfl, rfl⟩

theorem ig0_canon (m : Nat) : TCanon (igT0 m : M K) ((List.range m).map (· + m)) m (2 * m) := by
  refine ⟨by simp, ?_⟩
  intro i hi
  rw [b0_getD m m i hi]
  refine ⟨by omega, ?_⟩
  intro i' hi'
  rw [igT0_get m i' (i + m) hi' (by omega)]
  by_cases h : i' = i
  · rw [if_pos (Or.inr (by omega)), if_pos h]
  · rw [if_neg (by omega), if_neg (by omega), if_neg h]

theorem ig1_canon (m : Nat) (X Y : List (List K)) : TCanon (igT1 m X Y) (List.range m) m (2 * m) := by
  refine ⟨by simp, ?_⟩
  intro i hi
  rw [b1_getD m i hi]
  refine ⟨by omega, ?_⟩
  intro i' hi'
  rw [igT1_get_slack m X Y i' i hi' hi]
  by_cases h : i' = i
  · rw [if_pos h.symm, if_pos h]
  · rw [if_neg (fun e => h e.symm), if_neg h]

theorem ig0_rhs (m : Nat) : TRhs (igT0 m : M K) m (2 * m) := by
  intro i hi
  rw [igT0_get m i (2 * m) hi (by omega), if_neg (by omega), if_pos rfl]; exact zero_le_one

theorem ig1_rhs (m : Nat) (X Y : List (List K)) : TRhs (igT1 m X Y) m (2 * m) := by
  intro i hi; rw [igT1_get_rhs m X Y i hi]; exact zero_le_one

theorem ig0_nonneg (m i j : Nat) (hi : i < m) (hj : j < 2 * m) : 0 ≤ (igT0 m : M K).get i j := by
  rw [igT0_get m i j hi (by omega)]
  split_ifs <;> first | exact zero_le_one | exact le_refl _

theorem ig1_nonneg (m : Nat) (X Y : List (List K)) (i j : Nat) (hi : i < m) (hj : j < 2 * m) :
    0 ≤ (igT1 m X Y).get i j := by
  by_cases h : j < m
  · rw [igT1_get_slack m X Y i j hi h]; split_ifs <;> first | exact zero_le_one | exact le_refl _
  · have e : j = m + (j - m) := by omega
    rw [e]
    exact le_trans zero_le_one (igT1_payoff_ge_one m X Y i (j - m) hi (by omega))

theorem ig0_col_pos (m c : Nat) (hc : c < 2 * m) : ∃ i0, i0 < m ∧ 0 < (igT0 m : M K).get i0 c := by
  by_cases h : c < m
  · refine ⟨c, h, ?_⟩
    rw [igT0_get m c c h (by omega), if_pos (Or.inl rfl)]; exact zero_lt_one
  · refine ⟨c - m, by omega, ?_⟩
    rw [igT0_get m (c - m) c (by omega) (by omega), if_pos (Or.inr (by omega))]; exact zero_lt_one

theorem ig1_col_pos (m : Nat) (hm : 1 ≤ m) (X Y : List (List K)) (c : Nat) (hc : c < 2 * m) :
    ∃ i0, i0 < m ∧ 0 < (igT1 m X Y).get i0 c := by
  by_cases h : c < m
  · refine ⟨c, h, ?_⟩
    rw [igT1_get_slack m X Y c c h h, if_pos rfl]; exact zero_lt_one
  · refine ⟨0, by omega, ?_⟩
    have e : c = m + (c - m) := by omega
    rw [e]
    exact lt_of_lt_of_le zero_lt_one (igT1_payoff_ge_one m X Y 0 (c - m) (by omega) (by omega))

/-! ### the loop invariant -/

structure IGBase (m : Nat) (X Y : List (List K)) (s : LHState K) : Prop where
  sh0 : TShape s.T0 m (2 * m)
  sh1 : TShape s.T1 m (2 * m)
  can0 : TCanon s.T0 s.b0 m (2 * m)
  can1 : TCanon s.T1 s.b1 m (2 * m)
  rhs0 : TRhs s.T0 m (2 * m)
  rhs1 : TRhs s.T1 m (2 * m)
  sol0 : ∀ z, RowsSat s.T0 z m ↔ RowsSat (igT0 m : M K) z m
  sol1 : ∀ z, RowsSat s.T1 z m ↔ RowsSat (igT1 m X Y) z m
  piv : s.pivot < 2 * m

theorem igStep_inv (m : Nat) (hm : 1 ≤ m) (X Y : List (List K)) (s : LHState K) (pl : Nat)
    (hb : IGBase m X Y s) : IGBase m X Y (lhStep m 0 0 s pl) := by
  by_cases hpl : pl = 0
  · obtain ⟨hr, hsh, hcan, hrhs, hsol⟩ :=
      tab_step' s.T0 (igT0 m) s.b0 m (2 * m) s.pivot m hb.sh0 (ig0_shape m) hb.can0 hb.rhs0 hb.sol0
        (fun i j hi hj => ig0_nonneg m i j hi hj) hb.piv (ig0_col_pos m s.pivot hb.piv)
    unfold lhStep; rw [if_pos hpl]
    exact ⟨hsh, hb.sh1, hcan, hb.can1, hrhs, hb.rhs1, hsol, hb.sol1, (hb.can0.2 _ hr).1⟩
  · obtain ⟨hr, hsh, hcan, hrhs, hsol⟩ :=
      tab_step' s.T1 (igT1 m X Y) s.b1 m (2 * m) s.pivot 0 hb.sh1 (ig1_shape m X Y) hb.can1 hb.rhs1 hb.sol1
        (fun i j hi hj => ig1_nonneg m X Y i j hi hj) hb.piv (ig1_col_pos m hm X Y s.pivot hb.piv)
    unfold lhStep; rw [if_neg hpl]
    exact ⟨hb.sh0, hsh, hb.can0, hcan, hb.rhs0, hrhs, hb.sol0, hsol, (hb.can1.2 _ hr).1⟩

theorem igLoop_inv (m : Nat) (hm : 1 ≤ m) (X Y : List (List K)) (ip : Nat) :
    ∀ (fuel : Nat) (s : LHState K) (pl : Nat), IGBase m X Y s →
      IGBase m X Y (lhLoop m ip 0 0 fuel s pl).2
  | 0, s, pl => by
    intro hb; unfold lhLoop; exact igStep_inv m hm X Y s pl hb
  | fuel + 1, s, pl => by
    intro hb
    unfold lhLoop
    dsimp only
    split
    · exact igStep_inv m hm X Y s pl hb
    · exact igLoop_inv m hm X Y ip fuel _ _ (igStep_inv m hm X Y s pl hb)

/-- **every state of the inner Lemke–Howson run is canonical and feasible** (any history, any
    `max_piv`, converged or not; exact arithmetic) -/
theorem igLH_base (X Y : List (List K)) (hX : X ≠ []) (maxPiv : Nat) :
    IGBase X.length X Y (igLH X Y maxPiv 0 0).2 := by
  have hm : 1 ≤ X.length := by
    cases X with
    | nil => exact absurd rfl hX
    | cons a as => simp
  unfold igLH
  apply igLoop_inv X.length hm X Y
  exact ⟨ig0_shape _, ig1_shape _ X Y, ig0_canon _, ig1_canon _ X Y, ig0_rhs _, ig1_rhs _ X Y,
    fun _ => Iff.rfl, fun _ => Iff.rfl, by show X.length - 1 < 2 * X.length; omega⟩

/-! ### rho -/

theorem fsum_eq_sum (l : List K) : fsum l = ∑ i ∈ range l.length, l.getD i 0 := by
  induction l with
  | nil => simp [fsum_nil]
  | cons x xs ih =>
    rw [fsum_cons, List.length_cons, Finset.sum_range_succ', ih]
    simp [add_comm]

/-- **`rho` is a probability vector or the zero vector**, in exact arithmetic, for every history
    and every `max_piv`, whether or not the inner run converged: it has one non-negative weight per
    stored point; if the basic values of the `y` variables do not sum to 0 the weights sum to one,
    otherwise they are all 0 (the code skips the normalisation when `sum_ == 0`). -/
theorem igRho_spec (X Y : List (List K)) (hX : X ≠ []) (maxPiv : Nat) :
    (igRho X Y maxPiv 0 0).length = X.length ∧
    (∀ r ∈ igRho X Y maxPiv 0 0, 0 ≤ r) ∧
    (basicSum (igLH X Y maxPiv 0 0).2.T1 (igLH X Y maxPiv 0 0).2.b1 X.length (2 * X.length) ≠ 0 →
      fsum (igRho X Y maxPiv 0 0) = 1) ∧
    (basicSum (igLH X Y maxPiv 0 0).2.T1 (igLH X Y maxPiv 0 0).2.b1 X.length (2 * X.length) = 0 →
      ∀ r ∈ igRho X Y maxPiv 0 0, r = 0) := by
  have hb := igLH_base X Y hX maxPiv
  set m := X.length with hm
  set s := (igLH X Y maxPiv 0 0).2 with hs
  have e2 : 2 * m = m + m := by omega
  have hlen : (igRho X Y maxPiv 0 0).length = m := by
    unfold igRho mixedOf; simp; omega
  have hbv : ∀ j, basicVal s.T1 s.b1 (m + j) = tsol s.T1 s.b1 m (2 * m) (m + j) :=
    fun j => basicVal_eq_tsol s.T1 s.b1 m (2 * m) (m + j) hb.sh1 hb.can1
  have hbvnn : ∀ j, 0 ≤ basicVal s.T1 s.b1 (m + j) := fun j => by
    rw [hbv j]; exact tsol_nonneg s.T1 s.b1 m (2 * m) hb.rhs1 _
  have hS : basicSum s.T1 s.b1 m (m + m) = ∑ j ∈ range m, basicVal s.T1 s.b1 (m + j) := by
    rw [basicSum_eq s.T1 s.b1 m (2 * m) m m hb.sh1]
    apply Finset.sum_congr rfl; intro j _; rw [hbv j]
  have hSnn : 0 ≤ basicSum s.T1 s.b1 m (m + m) := by
    rw [hS]; exact Finset.sum_nonneg (fun j _ => hbvnn j)
  have hget : ∀ j, j < m → (igRho X Y maxPiv 0 0).getD j 0 =
      if basicSum s.T1 s.b1 m (m + m) = 0 then basicVal s.T1 s.b1 (m + j)
      else basicVal s.T1 s.b1 (m + j) / basicSum s.T1 s.b1 m (m + m) := by
    intro j hj
    have := mixedOf_getD s.T1 s.b1 m m j hj
    unfold igRho
    simp only
    rw [← hm, ← hs, e2]; exact this
  have hmem : ∀ r ∈ igRho X Y maxPiv 0 0, ∃ j, j < m ∧ r = (igRho X Y maxPiv 0 0).getD j 0 := by
    intro r hr
    obtain ⟨j, hj, rfl⟩ := List.mem_iff_getElem.mp hr
    refine ⟨j, by rw [← hlen]; exact hj, ?_⟩
    rw [List.getD_eq_getElem?_getD, List.getElem?_eq_getElem hj]; rfl
  refine ⟨hlen, ?_, ?_, ?_⟩
  · intro r hr
    obtain ⟨j, hj, rfl⟩ := hmem r hr
    rw [hget j hj]
    split_ifs
    · exact hbvnn j
    · exact div_nonneg (hbvnn j) hSnn
  · intro hne
    rw [e2] at hne
    rw [fsum_eq_sum, hlen]
    rw [Finset.sum_congr rfl (fun j hj => hget j (Finset.mem_range.mp hj))]
    simp only [hne, if_false]
    rw [← Finset.sum_div, ← hS]; exact div_self hne
  · intro h0 r hr
    rw [e2] at h0
    obtain ⟨j, hj, rfl⟩ := hmem r hr
    rw [hget j hj, if_pos h0]
    have hz := (Finset.sum_eq_zero_iff_of_nonneg (fun j _ => hbvnn j)).mp (by rw [← hS]; exact h0)
    exact hz j (Finset.mem_range.mpr hj)

end QE.C15
