/-
  C04 — the entering rule `_pivot_col` and the `solve_tableau` loop:
  specification of `pivotCol`, an induction principle for `solveTableau`
  (any invariant of the pivoting step holds at exit, for every fuel), and what
  each exit status says about the final tableau.
-/
import QEProofs.Lemmas.C04Defs
namespace QE.C04
open QE QE.Pivot Finset

variable {K : Type} [Field K] [LinearOrder K]

/-! ### `_pivot_col` -/

/-- invariant of the scan after the columns `< k` -/
def PCInv (T : M K) (fea : K) (k : ℕ) (st : K × Option ℕ) : Prop :=
  match st.2 with
  | none => st.1 = fea ∧ ∀ j, j < k → T.get (T.nr - 1) j ≤ fea
  | some c => c < k ∧ st.1 = T.get (T.nr - 1) c ∧ fea < st.1 ∧ ∀ j, j < k → T.get (T.nr - 1) j ≤ st.1

theorem pcInv_step (T : M K) (fea : K) (k : ℕ) (st : K × Option ℕ) (h : PCInv T fea k st) :
    PCInv T fea (k + 1) (pivotColStep T st k) := by
  obtain ⟨co, o⟩ := st
  unfold pivotColStep
  cases o with
  | none =>
    obtain ⟨h1, h2⟩ := h
    simp only at h1 h2 ⊢
    by_cases hlt : co < T.get (T.nr - 1) k
    · simp only [if_pos hlt, PCInv]
      refine ⟨by omega, trivial, by rw [← h1]; exact hlt, ?_⟩
      intro j hj
      rcases Nat.lt_succ_iff_lt_or_eq.mp hj with hj | hj
      · exact le_trans (h2 j hj) (by rw [← h1]; exact le_of_lt hlt)
      · subst hj; exact le_refl _
    · simp only [if_neg hlt, PCInv]
      refine ⟨h1, ?_⟩
      intro j hj
      rcases Nat.lt_succ_iff_lt_or_eq.mp hj with hj | hj
      · exact h2 j hj
      · subst hj; rw [← h1]; exact not_lt.mp hlt
  | some c =>
    obtain ⟨h0, h1, h2, h3⟩ := h
    simp only at h0 h1 h2 h3 ⊢
    by_cases hlt : co < T.get (T.nr - 1) k
    · simp only [if_pos hlt, PCInv]
      refine ⟨by omega, trivial, lt_trans h2 hlt, ?_⟩
      intro j hj
      rcases Nat.lt_succ_iff_lt_or_eq.mp hj with hj | hj
      · exact le_trans (h3 j hj) (le_of_lt hlt)
      · subst hj; exact le_refl _
    · simp only [if_neg hlt, PCInv]
      refine ⟨by omega, h1, h2, ?_⟩
      intro j hj
      rcases Nat.lt_succ_iff_lt_or_eq.mp hj with hj | hj
      · exact h3 j hj
      · subst hj; exact not_lt.mp hlt

theorem pcInv_foldl (T : M K) (fea : K) (n : ℕ) :
    PCInv T fea n ((List.range n).foldl (pivotColStep T) (fea, none)) := by
  induction n with
  | zero => simp [PCInv]
  | succ n ih =>
    rw [List.range_succ, List.foldl_append]
    exact pcInv_step T fea n _ ih

/-- `_pivot_col` finds nothing: every scanned criterion coefficient is `≤ fea_tol` -/
theorem pivotCol_none (T : M K) (skip : Bool) (fea : K) (h : pivotCol T skip fea = none) :
    ∀ j, j < T.nc - 1 - (if skip then T.nr - 1 else 0) → T.get (T.nr - 1) j ≤ fea := by
  have := pcInv_foldl T fea (T.nc - 1 - (if skip then T.nr - 1 else 0))
  unfold pivotCol at h
  simp only at h
  unfold PCInv at this
  rw [h] at this
  exact this.2

/-- `_pivot_col` returns `c`: a scanned column, coefficient `> fea_tol`, maximal -/
theorem pivotCol_some (T : M K) (skip : Bool) (fea : K) (c : ℕ) (h : pivotCol T skip fea = some c) :
    c < T.nc - 1 - (if skip then T.nr - 1 else 0) ∧ fea < T.get (T.nr - 1) c ∧
      ∀ j, j < T.nc - 1 - (if skip then T.nr - 1 else 0) → T.get (T.nr - 1) j ≤ T.get (T.nr - 1) c := by
  have := pcInv_foldl T fea (T.nc - 1 - (if skip then T.nr - 1 else 0))
  unfold pivotCol at h
  simp only at h
  unfold PCInv at this
  rw [h] at this
  obtain ⟨h0, h1, h2, h3⟩ := this
  exact ⟨h0, by rw [← h1]; exact h2, by rw [← h1]; exact h3⟩

/-! ### `solve_tableau` -/

/-- **induction principle**: whatever is preserved by one pivoting iteration holds for the
    tableau and basis returned by `solveTableau`, for every fuel (= `max_iter`) -/
theorem solveTableau_induct (tol : Tol K) (skip : Bool) (Inv : M K → List ℕ → Prop)
    (hstep : ∀ T b T' b', Inv T b → Step tol skip T b T' b' → Inv T' b') :
    ∀ (fuel : ℕ) (T : M K) (b : List ℕ), Inv T b →
      Inv (solveTableau tol skip fuel T b).T (solveTableau tol skip fuel T b).basis := by
  intro fuel
  induction fuel with
  | zero => intro T b h; simpa [solveTableau] using h
  | succ fuel ih =>
    intro T b h
    unfold solveTableau
    cases hpc : pivotCol T skip tol.fea with
    | none => simpa using h
    | some c =>
      simp only
      by_cases hf : (lexMinRatio (dropLast T) c (T.nc - (T.nr - 1) - 1) tol.piv tol.diff).1 = true
      · rw [if_pos hf]
        exact ih _ _ (hstep T b _ _ h ⟨c, hpc, hf, rfl, rfl⟩)
      · rw [if_neg hf]; exact h

theorem solveTableau_status (tol : Tol K) (skip : Bool) :
    ∀ (fuel : ℕ) (T : M K) (b : List ℕ),
      (solveTableau tol skip fuel T b).status = 0 ∨ (solveTableau tol skip fuel T b).status = 1 ∨
        (solveTableau tol skip fuel T b).status = 3 := by
  intro fuel
  induction fuel with
  | zero => intro T b; simp [solveTableau]
  | succ fuel ih =>
    intro T b
    unfold solveTableau
    cases hpc : pivotCol T skip tol.fea with
    | none => simp
    | some c =>
      simp only
      by_cases hf : (lexMinRatio (dropLast T) c (T.nc - (T.nr - 1) - 1) tol.piv tol.diff).1 = true
      · rw [if_pos hf]; exact ih _ _
      · rw [if_neg hf]; simp

/-- status 0: the entering rule found no column in the final tableau -/
theorem solveTableau_status0 (tol : Tol K) (skip : Bool) :
    ∀ (fuel : ℕ) (T : M K) (b : List ℕ), (solveTableau tol skip fuel T b).status = 0 →
      pivotCol (solveTableau tol skip fuel T b).T skip tol.fea = none := by
  intro fuel
  induction fuel with
  | zero => intro T b h; simp [solveTableau] at h
  | succ fuel ih =>
    intro T b
    unfold solveTableau
    cases hpc : pivotCol T skip tol.fea with
    | none => intro _; simpa using hpc
    | some c =>
      simp only
      by_cases hf : (lexMinRatio (dropLast T) c (T.nc - (T.nr - 1) - 1) tol.piv tol.diff).1 = true
      · rw [if_pos hf]; exact ih _ _
      · rw [if_neg hf]; intro h; simp at h

/-- status 3: an entering column exists in the final tableau and the ratio test found no row -/
theorem solveTableau_status3 (tol : Tol K) (skip : Bool) :
    ∀ (fuel : ℕ) (T : M K) (b : List ℕ), (solveTableau tol skip fuel T b).status = 3 →
      ∃ c, pivotCol (solveTableau tol skip fuel T b).T skip tol.fea = some c ∧
        (lexMinRatio (dropLast (solveTableau tol skip fuel T b).T) c
          ((solveTableau tol skip fuel T b).T.nc - ((solveTableau tol skip fuel T b).T.nr - 1) - 1)
          tol.piv tol.diff).1 = false := by
  intro fuel
  induction fuel with
  | zero => intro T b h; simp [solveTableau] at h
  | succ fuel ih =>
    intro T b
    unfold solveTableau
    cases hpc : pivotCol T skip tol.fea with
    | none => intro h; simp at h
    | some c =>
      simp only
      by_cases hf : (lexMinRatio (dropLast T) c (T.nc - (T.nr - 1) - 1) tol.piv tol.diff).1 = true
      · rw [if_pos hf]; exact ih _ _
      · rw [if_neg hf]; intro _
        exact ⟨c, hpc, by simpa using hf⟩

/-- the loop never runs more than `max_iter` iterations -/
theorem solveTableau_iters_le (tol : Tol K) (skip : Bool) :
    ∀ (fuel : ℕ) (T : M K) (b : List ℕ), (solveTableau tol skip fuel T b).iters ≤ fuel := by
  intro fuel
  induction fuel with
  | zero => intro T b; simp [solveTableau]
  | succ fuel ih =>
    intro T b
    unfold solveTableau
    cases hpc : pivotCol T skip tol.fea with
    | none => simp
    | some c =>
      simp only
      by_cases hf : (lexMinRatio (dropLast T) c (T.nc - (T.nr - 1) - 1) tol.piv tol.diff).1 = true
      · rw [if_pos hf]; have := ih (pivot T c (lexMinRatio (dropLast T) c (T.nc - (T.nr - 1) - 1) tol.piv tol.diff).2)
          (b.set (lexMinRatio (dropLast T) c (T.nc - (T.nr - 1) - 1) tol.piv tol.diff).2 c)
        simp only; omega
      · rw [if_neg hf]; simp

/-- status 1 is reported only when the iteration cap is exhausted -/
theorem solveTableau_status1 (tol : Tol K) (skip : Bool) :
    ∀ (fuel : ℕ) (T : M K) (b : List ℕ), (solveTableau tol skip fuel T b).status = 1 →
      (solveTableau tol skip fuel T b).iters = fuel := by
  intro fuel
  induction fuel with
  | zero => intro T b _; simp [solveTableau]
  | succ fuel ih =>
    intro T b
    unfold solveTableau
    cases hpc : pivotCol T skip tol.fea with
    | none => intro h; simp at h
    | some c =>
      simp only
      by_cases hf : (lexMinRatio (dropLast T) c (T.nc - (T.nr - 1) - 1) tol.piv tol.diff).1 = true
      · rw [if_pos hf]; intro h
        have := ih _ _ h
        simp only; omega
      · rw [if_neg hf]; intro h; simp at h

end QE.C04
