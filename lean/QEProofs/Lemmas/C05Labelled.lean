/-
  Lemmas for property C05: completely labelled pairs of points of the best-response
  polytopes are Nash equilibria after normalisation; Nash equilibria are invariant under the
  payoff shifts the solvers apply.
-/
import QEProofs.Lemmas.C05Nash
import Mathlib.Algebra.BigOperators.Field
import Mathlib.Algebra.Order.Field.Basic

namespace QE.C05
open QE QE.MatAlg Finset

set_option linter.unusedSectionVars false
variable {K : Type} [Field K] [LinearOrder K] [IsStrictOrderedRing K]

theorem payoffVec_div (n : ℕ) (A : ℕ → ℕ → K) (y : ℕ → K) (s : K) (i : ℕ) :
    payoffVec n A (fun j => y j / s) i = payoffVec n A y i / s := by
  rw [payoffVec_eq, payoffVec_eq, sum_div]
  apply sum_congr rfl
  intro j _
  rw [mul_div_assoc]

theorem isProb_div (n : ℕ) (x : ℕ → K) (hx : ∀ i, i < n → 0 ≤ x i)
    (hs : ∑ i ∈ range n, x i ≠ 0) : IsProb n (fun i => x i / ∑ i ∈ range n, x i) := by
  have hnn : 0 ≤ ∑ i ∈ range n, x i := sum_nonneg fun i hi => hx i (mem_range.mp hi)
  have hpos : 0 < ∑ i ∈ range n, x i := lt_of_le_of_ne hnn (Ne.symm hs)
  refine ⟨fun i hi => div_nonneg (hx i hi) hnn, ?_⟩
  rw [sumRange_eq_sum, ← sum_div, div_self hs]

/-- **A completely labelled pair is Nash.** `x̃ ≥ 0` with `B x̃ ≤ c0` (a point of `c0·P`),
    `ỹ ≥ 0` with `A ỹ ≤ c1` (a point of `c1·Q`), both non-zero, such that every label is
    binding for one of them (`x̃_i = 0` or `(Aỹ)_i = c1`; `ỹ_j = 0` or `(Bx̃)_j = c0`):
    the normalised pair is a Nash equilibrium of `(A, B)`. -/
theorem completely_labelled_nash' (m n : ℕ) (A B : ℕ → ℕ → K) (x y : ℕ → K) (c0 c1 : K)
    (hx0 : ∀ i, i < m → 0 ≤ x i) (hy0 : ∀ j, j < n → 0 ≤ y j)
    (hP : ∀ j, j < n → payoffVec m B x j ≤ c0) (hQ : ∀ i, i < m → payoffVec n A y i ≤ c1)
    (hl0 : ∀ i, i < m → x i = 0 ∨ payoffVec n A y i = c1)
    (hl1 : ∀ j, j < n → y j = 0 ∨ payoffVec m B x j = c0)
    (hsx : ∑ i ∈ range m, x i ≠ 0) (hsy : ∑ j ∈ range n, y j ≠ 0) :
    IsNash m n A B (fun i => x i / ∑ i ∈ range m, x i) (fun j => y j / ∑ j ∈ range n, y j) := by
  have hsxp : 0 < ∑ i ∈ range m, x i :=
    lt_of_le_of_ne (sum_nonneg fun i hi => hx0 i (mem_range.mp hi)) (Ne.symm hsx)
  have hsyp : 0 < ∑ j ∈ range n, y j :=
    lt_of_le_of_ne (sum_nonneg fun i hi => hy0 i (mem_range.mp hi)) (Ne.symm hsy)
  apply support_br_nash' m n A B _ _ (c1 / ∑ j ∈ range n, y j) (c0 / ∑ i ∈ range m, x i)
    (isProb_div m x hx0 hsx) (isProb_div n y hy0 hsy)
  · intro i hi
    rw [payoffVec_div]
    exact div_le_div_of_nonneg_right (hQ i hi) (le_of_lt hsyp)
  · intro i hi hne
    rw [payoffVec_div]
    rcases hl0 i hi with h | h
    · exact absurd (by rw [h, zero_div]) hne
    · rw [h]
  · intro j hj
    rw [payoffVec_div]
    exact div_le_div_of_nonneg_right (hP j hj) (le_of_lt hsxp)
  · intro j hj hne
    rw [payoffVec_div]
    rcases hl1 j hj with h | h
    · exact absurd (by rw [h, zero_div]) hne
    · rw [h]

/-- Nash equilibria do not change when a constant per opponent action is added to a player's
    payoffs (the shifts of `_initialize_tableaux` and `_BestResponsePolytope`). -/
theorem nash_shift' (m n : ℕ) (A B A' B' : ℕ → ℕ → K) (s r : ℕ → K) (x y : ℕ → K)
    (hA : ∀ i j, A' i j = A i j + s j) (hB : ∀ j i, B' j i = B j i + r i)
    (h : IsNash m n A' B' x y) : IsNash m n A B x y := by
  obtain ⟨hx, hy, h0, h1⟩ := h
  have hxs : ∑ i ∈ range m, x i = 1 := by have := hx.2; rwa [sumRange_eq_sum] at this
  have hys : ∑ j ∈ range n, y j = 1 := by have := hy.2; rwa [sumRange_eq_sum] at this
  have e0 : ∀ i, payoffVec n A' y i = payoffVec n A y i + ∑ j ∈ range n, s j * y j := by
    intro i
    rw [payoffVec_eq, payoffVec_eq, ← sum_add_distrib]
    apply sum_congr rfl
    intro j _
    rw [hA]; ring
  have e1 : ∀ j, payoffVec m B' x j = payoffVec m B x j + ∑ i ∈ range m, r i * x i := by
    intro j
    rw [payoffVec_eq, payoffVec_eq, ← sum_add_distrib]
    apply sum_congr rfl
    intro i _
    rw [hB]; ring
  have d0 : dotTo m x (payoffVec n A' y)
      = dotTo m x (payoffVec n A y) + ∑ j ∈ range n, s j * y j := by
    rw [dotTo_eq, dotTo_eq]
    have : ∀ i ∈ range m, x i * payoffVec n A' y i
        = x i * payoffVec n A y i + x i * ∑ j ∈ range n, s j * y j := by
      intro i _; rw [e0]; ring
    rw [sum_congr rfl this, sum_add_distrib, ← sum_mul, hxs, one_mul]
  have d1 : dotTo n y (payoffVec m B' x)
      = dotTo n y (payoffVec m B x) + ∑ i ∈ range m, r i * x i := by
    rw [dotTo_eq, dotTo_eq]
    have : ∀ j ∈ range n, y j * payoffVec m B' x j
        = y j * payoffVec m B x j + y j * ∑ i ∈ range m, r i * x i := by
      intro j _; rw [e1]; ring
    rw [sum_congr rfl this, sum_add_distrib, ← sum_mul, hys, one_mul]
  refine ⟨hx, hy, ?_, ?_⟩
  · intro i hi
    have := h0 i hi
    rw [e0, d0] at this
    linarith
  · intro j hj
    have := h1 j hj
    rw [e1, d1] at this
    linarith

end QE.C05
