/-
  C06 helper lemmas, part 3: structured doubling (Riccati).
  `np.linalg.solve` is the parameter `sol` of the model; `SolSpec` states what is
  assumed of it (LAPACK is not modelled): a returned `X` has the right shape,
  satisfies `W X = B`, and `W` is invertible.
-/
import QEProofs.Lemmas.C06Mat
import QEProofs.Lemmas.C06Dare
import Mathlib.Tactic.FieldSimp
import Mathlib.Algebra.Field.Basic

set_option linter.unusedSectionVars false

namespace QE.C06
open QE QE.MatAlg Finset Matrix

section
variable {K : Type} [CommRing K]

/-- assumed behaviour of `solve` on `k × k` systems -/
def SolSpec (sol : M K → M K → Option (M K)) (k : ℕ) : Prop :=
  ∀ (p : ℕ) (W Bm X : M K), Dim W k k → Dim Bm k p → sol W Bm = some X →
    Dim X k p ∧ toMat k k W * toMat k p X = toMat k p Bm ∧
    ∃ V : Matrix (Fin k) (Fin k) K, V * toMat k k W = 1 ∧ toMat k k W * V = 1

/-! ### pure matrix algebra behind lines 214-216 -/

variable {k : ℕ}

/-- `A G S` is symmetric when `(I + H G) S = A'`, `G' = G`, `H' = H` -/
theorem sda_G_term_symm (A G H S : Matrix (Fin k) (Fin k) K) (hG : Gᵀ = G) (hH : Hᵀ = H)
    (hS : (1 + H * G) * S = Aᵀ) : (A * G * S)ᵀ = A * G * S := by
  have hA : A = Sᵀ * (1 + G * H) := by
    have := congrArg transpose hS
    rw [transpose_transpose, transpose_mul, transpose_add, transpose_one, transpose_mul, hG, hH] at this
    exact this.symm
  calc (A * G * S)ᵀ = Sᵀ * G * Aᵀ := by
        rw [transpose_mul, transpose_mul, hG, mul_assoc]
    _ = Sᵀ * G * ((1 + H * G) * S) := by rw [hS]
    _ = (Sᵀ * (1 + G * H)) * G * S := by noncomm_ring
    _ = A * G * S := by rw [← hA]

/-- `A' S` is symmetric when `(I + H G) S = H A`, `I + H G` invertible, `G' = G`, `H' = H` -/
theorem sda_H_term_symm (A G H S V : Matrix (Fin k) (Fin k) K) (hG : Gᵀ = G) (hH : Hᵀ = H)
    (hVW : V * (1 + H * G) = 1) (hS : (1 + H * G) * S = H * A) : (Aᵀ * S)ᵀ = Aᵀ * S := by
  have hSe : S = V * H * A := by
    calc S = (V * (1 + H * G)) * S := by rw [hVW, one_mul]
      _ = V * ((1 + H * G) * S) := by rw [mul_assoc]
      _ = V * H * A := by rw [hS, mul_assoc]
  have hWt : (1 + H * G)ᵀ = 1 + G * H := by
    rw [transpose_add, transpose_one, transpose_mul, hG, hH]
  have hWV : (1 + G * H) * Vᵀ = 1 := by
    rw [← hWt, ← transpose_mul, hVW, transpose_one]
  have hcomm : V * H = H * Vᵀ := by
    calc V * H = V * H * ((1 + G * H) * Vᵀ) := by rw [hWV, mul_one]
      _ = (V * (1 + H * G)) * H * Vᵀ := by noncomm_ring
      _ = H * Vᵀ := by rw [hVW, one_mul]
  calc (Aᵀ * S)ᵀ = Sᵀ * A := by rw [transpose_mul, transpose_transpose]
    _ = (V * H * A)ᵀ * A := by rw [← hSe]
    _ = Aᵀ * (H * Vᵀ) * A := by
        rw [transpose_mul, transpose_mul, hH]
    _ = Aᵀ * (V * H * A) := by rw [← hcomm]; noncomm_ring
    _ = Aᵀ * S := by rw [← hSe]

/-! ### the model's `sdaStep`, read as matrices -/

theorem sdaStep_toMat (sol : M K → M K → Option (M K)) (hsol : SolSpec sol k) (s s1 : Sda K)
    (hA : Dim s.A k k) (hG : Dim s.G k k) (hH : Dim s.H k k) (h : sdaStep sol s = some s1) :
    Dim s1.A k k ∧ Dim s1.G k k ∧ Dim s1.H k k ∧
    ∃ S1 S2 S3 V1 V2 : Matrix (Fin k) (Fin k) K,
      (1 + toMat k k s.G * toMat k k s.H) * S1 = toMat k k s.A ∧
      (1 + toMat k k s.H * toMat k k s.G) * S2 = (toMat k k s.A)ᵀ ∧
      (1 + toMat k k s.H * toMat k k s.G) * S3 = toMat k k s.H * toMat k k s.A ∧
      V1 * (1 + toMat k k s.G * toMat k k s.H) = 1 ∧ (1 + toMat k k s.G * toMat k k s.H) * V1 = 1 ∧
      V2 * (1 + toMat k k s.H * toMat k k s.G) = 1 ∧ (1 + toMat k k s.H * toMat k k s.G) * V2 = 1 ∧
      toMat k k s1.A = toMat k k s.A * S1 ∧
      toMat k k s1.G = toMat k k s.G + toMat k k s.A * toMat k k s.G * S2 ∧
      toMat k k s1.H = toMat k k s.H + (toMat k k s.A)ᵀ * S3 := by
  unfold sdaStep at h
  simp only at h
  have hI : Dim (ident s.A.nr : M K) k k := by rw [hA.nr]; exact dim_ident k
  have hIm : toMat k k (ident s.A.nr : M K) = 1 := by rw [hA.nr]; exact toMat_ident k
  have hW1 : Dim (madd (ident s.A.nr) (mmul s.G s.H)) k k := dim_madd hI
  have hW2 : Dim (madd (ident s.A.nr) (mmul s.H s.G)) k k := dim_madd hI
  have hW1m : toMat k k (madd (ident s.A.nr) (mmul s.G s.H)) = 1 + toMat k k s.G * toMat k k s.H := by
    rw [toMat_madd hI, hIm, toMat_mmul hG hH]
  have hW2m : toMat k k (madd (ident s.A.nr) (mmul s.H s.G)) = 1 + toMat k k s.H * toMat k k s.G := by
    rw [toMat_madd hI, hIm, toMat_mmul hH hG]
  split at h
  · rename_i X1 X2 X3 e1 e2 e3
    cases h
    obtain ⟨d1, m1, V1, v1a, v1b⟩ := hsol k _ _ _ hW1 hA e1
    obtain ⟨d2, m2, V2, v2a, v2b⟩ := hsol k _ _ _ hW2 (dim_mT hA) e2
    obtain ⟨d3, m3, _, _, _⟩ := hsol k _ _ _ hW2 (dim_mmul hH hA) e3
    rw [hW1m] at m1 v1a v1b
    rw [hW2m] at m2 m3 v2a v2b
    rw [toMat_mT hA] at m2
    rw [toMat_mmul hH hA] at m3
    refine ⟨dim_mmul hA d1, dim_madd hG, dim_madd hH, toMat k k X1, toMat k k X2, toMat k k X3, V1, V2,
      m1, m2, m3, v1a, v1b, v2a, v2b, ?_, ?_, ?_⟩
    · exact toMat_mmul hA d1
    · show toMat k k (madd s.G (mmul (mmul s.A s.G) X2)) = _
      rw [toMat_madd hG, toMat_mmul (dim_mmul hA hG) d2, toMat_mmul hA hG]
    · show toMat k k (madd s.H (mmul (mT s.A) X3)) = _
      rw [toMat_madd hH, toMat_mmul (dim_mT hA) d3, toMat_mT hA]
  · cases h

end

/-! ### the model's `riccInit`, read as matrices -/

section init
variable {K : Type} [CommRing K] {k n : ℕ}

theorem riccInit_toMat (sol : M K → M K → Option (M K)) (hsol : SolSpec sol n) (g : K)
    (A B Q R N : M K) (s : Sda K)
    (hA : Dim A k k) (hB : Dim B k n) (hQ : Dim Q k k) (hR : Dim R n n) (hN : Dim N n k)
    (h : riccInit sol g A B Q R N = some s) :
    Dim s.A k k ∧ Dim s.G k k ∧ Dim s.H k k ∧
    ∃ V : Matrix (Fin n) (Fin n) K,
      V * (toMat n n R + g • ((toMat k n B)ᵀ * toMat k n B)) = 1 ∧
      (toMat n n R + g • ((toMat k n B)ᵀ * toMat k n B)) * V = 1 ∧
      toMat k k s.A = toMat k k A - toMat k n B * V * (toMat n k N + g • ((toMat k n B)ᵀ * toMat k k A)) ∧
      toMat k k s.G = toMat k n B * V * (toMat k n B)ᵀ ∧
      toMat k k s.H = toMat k k Q + g • ((toMat k k A)ᵀ * toMat k k A) - g • (1 : Matrix (Fin k) (Fin k) K)
        - (toMat n k N + g • ((toMat k n B)ᵀ * toMat k k A))ᵀ * V
            * (toMat n k N + g • ((toMat k n B)ᵀ * toMat k k A)) := by
  unfold riccInit at h
  simp only at h
  have hI : Dim (ident Q.nr : M K) k k := by rw [hQ.nr]; exact dim_ident k
  have hIm : toMat k k (ident Q.nr : M K) = 1 := by rw [hQ.nr]; exact toMat_ident k
  have hBB : Dim (mmul (mT B) B) n n := dim_mmul (dim_mT hB) hB
  have hBA : Dim (mmul (mT B) A) n k := dim_mmul (dim_mT hB) hA
  have hRh : Dim (madd R (smul g (mmul (mT B) B))) n n := dim_madd hR
  have hRhm : toMat n n (madd R (smul g (mmul (mT B) B)))
      = toMat n n R + g • ((toMat k n B)ᵀ * toMat k n B) := by
    rw [toMat_madd hR, toMat_smul g hBB, toMat_mmul (dim_mT hB) hB, toMat_mT hB]
  have hNh : Dim (madd N (smul g (mmul (mT B) A))) n k := dim_madd hN
  have hNhm : toMat n k (madd N (smul g (mmul (mT B) A)))
      = toMat n k N + g • ((toMat k n B)ᵀ * toMat k k A) := by
    rw [toMat_madd hN, toMat_smul g hBA, toMat_mmul (dim_mT hB) hA, toMat_mT hB]
  split at h
  · rename_i X1 X2 X3 e1 e2 e3
    cases h
    obtain ⟨d1, m1, V, va, vb⟩ := hsol k _ _ _ hRh hNh e1
    obtain ⟨d2, m2, _, _, _⟩ := hsol k _ _ _ hRh (dim_mT hB) e2
    obtain ⟨d3, m3, _, _, _⟩ := hsol k _ _ _ hRh hN e3
    rw [hRhm] at m1 m2 m3 va vb
    rw [hNhm] at m1
    rw [toMat_mT hB] at m2
    -- solutions through the inverse
    have inv : ∀ (X Y : Matrix (Fin n) (Fin k) K),
        (toMat n n R + g • ((toMat k n B)ᵀ * toMat k n B)) * X = Y → X = V * Y := by
      intro X Y hXY
      rw [← hXY, ← Matrix.mul_assoc, va, Matrix.one_mul]
    have x1 := inv _ _ m1
    have x2 := inv _ _ m2
    have x3 := inv _ _ m3
    have dG : Dim (mmul B X2) k k := dim_mmul hB d2
    have dIG : Dim (msub (ident Q.nr) (smul g (mmul B X2))) k k := dim_msub hI
    have dA0 : Dim (msub (mmul (msub (ident Q.nr) (smul g (mmul B X2))) A) (mmul B X3)) k k :=
      dim_msub (dim_mmul dIG hA)
    have dQt1 : Dim (madd (mneg Q) (mmul (mT N) X1)) k k := dim_madd (dim_mneg hQ)
    have dQt : Dim (madd (madd (mneg Q) (mmul (mT N) X1)) (smul g (ident Q.nr))) k k := dim_madd dQt1
    have dAA0 : Dim (mmul (mT A) (msub (mmul (msub (ident Q.nr) (smul g (mmul B X2))) A) (mmul B X3))) k k :=
      dim_mmul (dim_mT hA) dA0
    have hA0 : toMat k k (msub (mmul (msub (ident Q.nr) (smul g (mmul B X2))) A) (mmul B X3))
        = toMat k k A - toMat k n B * V * (toMat n k N + g • ((toMat k n B)ᵀ * toMat k k A)) := by
      rw [toMat_msub (dim_mmul dIG hA), toMat_mmul dIG hA, toMat_msub hI, hIm, toMat_smul g dG,
        toMat_mmul hB d2, toMat_mmul hB d3, x2, x3]
      simp only [Matrix.mul_add, Matrix.sub_mul, Matrix.mul_smul, Matrix.smul_mul,
        Matrix.one_mul, Matrix.mul_assoc]
      abel
    refine ⟨dA0, dG, dim_msub (dim_smul g dAA0), V, va, vb, hA0, ?_, ?_⟩
    · show toMat k k (mmul B X2) = _
      rw [toMat_mmul hB d2, x2, Matrix.mul_assoc]
    · show toMat k k (msub (smul g (mmul (mT A) _)) _) = _
      rw [toMat_msub (dim_smul g dAA0), toMat_smul g dAA0, toMat_mmul (dim_mT hA) dA0, hA0, toMat_mT hA,
        toMat_madd dQt1, toMat_madd (dim_mneg hQ), toMat_mneg hQ, toMat_smul g hI, hIm,
        toMat_mmul (dim_mT hN) d1, toMat_mT hN, x1]
      simp only [Matrix.mul_add, Matrix.add_mul, Matrix.mul_sub, Matrix.mul_smul,
        Matrix.smul_mul, Matrix.mul_assoc, transpose_add, transpose_smul, transpose_mul,
        transpose_transpose, smul_add, smul_sub]
      abel
  · cases h

end init

/-! ### a concrete `solve` on 1 × 1 systems satisfying `SolSpec` (non-vacuity) -/

section scalar
variable {K : Type} [Field K] [DecidableEq K]

/-- exact solver for `1 × 1` systems -/
def sol1 (W Bm : M K) : Option (M K) :=
  if W.get 0 0 = 0 then none else some (M.tab 1 Bm.nc fun _ j => Bm.get 0 j / W.get 0 0)

theorem sol1_spec : SolSpec (sol1 : M K → M K → Option (M K)) 1 := by
  intro p W Bm X hW hB h
  unfold sol1 at h
  split at h
  · cases h
  · rename_i hne
    cases h
    refine ⟨⟨rfl, hB.nc⟩, ?_, ?_⟩
    · ext i j
      have hi : i = 0 := Subsingleton.elim _ _
      subst hi
      have hj : (j : ℕ) < Bm.nc := by rw [hB.nc]; exact j.2
      simp only [Matrix.mul_apply, Fin.sum_univ_one, toMat, Fin.val_zero]
      rw [M.get_tab _ _ _ _ _ (by omega) hj]
      field_simp
    · refine ⟨(1 / W.get 0 0) • (1 : Matrix (Fin 1) (Fin 1) K), ?_, ?_⟩
      · ext i j
        have hi : i = 0 := Subsingleton.elim _ _
        have hj : j = 0 := Subsingleton.elim _ _
        subst hi; subst hj
        simp only [Matrix.smul_mul, Matrix.one_mul, Matrix.smul_apply, toMat, smul_eq_mul,
          Matrix.one_apply_eq, Fin.val_zero]
        field_simp
      · ext i j
        have hi : i = 0 := Subsingleton.elim _ _
        have hj : j = 0 := Subsingleton.elim _ _
        subst hi; subst hj
        simp only [Matrix.mul_smul, Matrix.mul_one, Matrix.smul_apply, toMat, smul_eq_mul,
          Matrix.one_apply_eq, Fin.val_zero]
        field_simp

end scalar
end QE.C06
