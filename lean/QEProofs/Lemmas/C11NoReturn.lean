/-
  The run of `lcpLemke` (tolerances 0) never returns to a primary-ray tableau: at a status-2
  exit the ray direction has a non-zero `z` part.
-/
import QEProofs.Lemmas.C11Orbit

namespace QE.C11
open QE QE.Pivot Finset
set_option linter.unusedVariables false
set_option linter.unusedSectionVars false

variable {K : Type} [Field K] [LinearOrder K] [IsStrictOrderedRing K]

/-- every `w_i` and the artificial variable are basic or entering when the direction has no
    `z` part (first half of `ray_primary_of_zh_zero`) -/
theorem ray_primary_mem {n : ℕ} {T : M K} {basis : ℕ → ℕ} {c : ℕ} (hn : 0 < n)
    (Mm : ℕ → ℕ → K) (q d : ℕ → K) (hd : ∀ i, i < n → 0 < d i)
    (h : Inv1 n (initTableau n Mm q d) T basis) (he : Enter n basis c) (hc : c < 2 * n)
    (hcol : ∀ k, k < n → T.get k c ≤ 0)
    (hz : ∀ j, j < n → rayDir n T basis c (n + j) = 0) :
    ∀ v, (v < n ∨ v = 2 * n) → v = c ∨ ∃ a, a < n ∧ basis a = v := by
  have hnn := rayDir_nonneg (basis := basis) hcol
  have hw : ∀ i, i < n → rayDir n T basis c i = d i * rayDir n T basis c (2 * n) := by
    intro i hi
    rw [rayDir_initHom Mm q d h he i hi]
    have : ∑ j ∈ range n, Mm i j * rayDir n T basis c (n + j) = 0 := by
      apply Finset.sum_eq_zero
      intro j hj
      rw [hz j (mem_range.mp hj), mul_zero]
    rw [this, zero_add]
  have h0pos : 0 < rayDir n T basis c (2 * n) := by
    apply lt_of_le_of_ne (hnn _)
    intro e0
    have hcc := rayDir_self (T := T) he
    by_cases hcn : c < n
    · rw [hw c hcn, ← e0, mul_zero] at hcc; exact zero_ne_one hcc
    · have := hz (c - n) (by omega)
      rw [show n + (c - n) = c by omega, hcc] at this
      exact one_ne_zero this
  intro v hv
  by_contra hne
  push Not at hne
  have hzero := rayDir_eq_zero (T := T) (c := c) v hne.1 (fun a ha => hne.2 a ha)
  rcases hv with hv | hv
  · rw [hw v hv] at hzero
    have := mul_pos (hd v hv) h0pos
    linarith
  · rw [hv] at hzero; linarith

theorem lexPosOn_head_nonneg (f : ℕ → K) (j : ℕ) (js : List ℕ) (h : LexPosOn f (j :: js)) :
    0 ≤ f j := by
  rcases h with h | ⟨h, _⟩
  · exact le_of_lt h
  · rw [h]

theorem lexPosOn_range'_neg (f : ℕ → K) (i : ℕ) (hneg : f i < 0) : ∀ (m s : ℕ), s ≤ i → i < s + m →
    (∀ j, s ≤ j → j < i → f j = 0) → ¬ LexPosOn f (List.range' s m) := by
  intro m
  induction m with
  | zero => intro s h1 h2 _; omega
  | succ m ih =>
    intro s h1 h2 hz hL
    rw [List.range'_succ] at hL
    by_cases hs : s = i
    · rcases hL with hL | ⟨hL, _⟩
      · rw [hs] at hL; linarith
      · rw [hs] at hL; linarith
    · rcases hL with hL | ⟨_, hL⟩
      · rw [hz s (le_refl _) (by omega)] at hL; exact lt_irrefl _ hL
      · exact ih (s + 1) (by omega) (by omega) (fun j hj1 hj2 => hz j (by omega) hj2) hL

section
variable (n : ℕ) (Mm : ℕ → ℕ → K) (q d : ℕ → K)

/-- a lexicographically feasible tableau whose basic variables are the artificial one and all
    `w_i`, `i ≠ c`, is the one produced by the first pivot: `c` is the first pivot row -/
theorem primary_c_eq (hn : 0 < n) (hd : ∀ i, i < n → 0 < d i) {T : M K} {basis : ℕ → ℕ} {c : ℕ}
    (h : Inv1 n (initTableau n Mm q d) T basis) (hlp : LP n T) (hc : c < n)
    (hmem : ∀ v, (v < n ∨ v = 2 * n) → v = c ∨ ∃ a, a < n ∧ basis a = v) :
    c = firstPivotRow n q d 0 := by
  obtain ⟨hr0, hmin⟩ := firstPivotRow_argmin n hn q d
  have hlast := firstPivotRow_last n q d
  set r0 := firstPivotRow n q d 0 with hr0def
  -- the tableau obtained by a first pivot in row c
  have hIc : Inv1 n (initTableau n Mm q d) (pivot (initTableau n Mm q d) (2 * n) c)
      (setBasis initBasis c (2 * n)) := by
    apply inv1_pivot hn (init_inv1 n Mm q d hn) (init_enter n) hc
    rw [init_get_art n Mm q d hn c hc]
    exact neg_ne_zero.mpr (ne_of_gt (hd c hc))
  have hset : ∀ a, a < n → ∃ a', a' < n ∧ basis a' = setBasis initBasis c (2 * n) a := by
    intro a ha
    unfold setBasis initBasis
    by_cases hac : a = c
    · rw [if_pos hac]
      rcases hmem (2 * n) (Or.inr rfl) with e | e
      · omega
      · exact e
    · rw [if_neg hac]
      rcases hmem a (Or.inl ha) with e | e
      · exact absurd e hac
      · exact e
  -- its rows are rows of T, hence lexicographically positive
  have hlpc : ∀ a, a < n → LexPosOn (fun j => (pivot (initTableau n Mm q d) (2 * n) c).get a j)
      ((2 * n + 1) :: List.range n) := by
    intro a ha
    obtain ⟨a', ha', e⟩ := hset a ha
    have hrows := rows_determined hIc h hset a a' ha ha' e
    apply lexPosOn_congr _ _ _ _ (hlp a' ha')
    intro j hj
    apply hrows
    rcases List.mem_cons.mp hj with e | e
    · omega
    · have := List.mem_range.mp e; omega
  have hnr : (initTableau n Mm q d).nr = n := rfl
  have hnc : (initTableau n Mm q d).nc = 2 * n + 2 := rfl
  have hdc := hd c hc
  -- right-hand sides
  have hval : ∀ a, a < n → a ≠ c →
      (pivot (initTableau n Mm q d) (2 * n) c).get a (2 * n + 1) = q a - q c / d c * d a := by
    intro a ha hac
    rw [pivot_get_i _ _ _ _ _ (by omega) (by omega) hac, init_get_art n Mm q d hn c hc,
      init_get_art n Mm q d hn a ha, init_get_rhs n Mm q d c hc, init_get_rhs n Mm q d a ha, div_neg]
    ring
  -- c is an arg-min
  have hcmin : ∀ a, a < n → q c / d c ≤ q a / d a := by
    intro a ha
    by_cases hac : a = c
    · rw [hac]
    · have : 0 ≤ (pivot (initTableau n Mm q d) (2 * n) c).get a (2 * n + 1) :=
        lexPosOn_head_nonneg _ _ _ (hlpc a ha)
      rw [hval a ha hac] at this
      rw [le_div_iff₀ (hd a ha)]
      linarith
  by_contra hne
  have heq : q c / d c = q r0 / d r0 := le_antisymm (hcmin r0 hr0) (hmin c hc)
  have hlt : c < r0 := by
    by_contra hnot
    have : r0 < c := by omega
    have := hlast c this hc
    rw [heq] at this
    exact lt_irrefl _ this
  -- row r0 of the tableau: rhs 0, then e_{r0} − (d_{r0}/d_c) e_c
  have hr0c : r0 ≠ c := fun e => hne e.symm
  have hL := hlpc r0 hr0
  rcases hL with hL | ⟨_, hL⟩
  · have hL' : 0 < (pivot (initTableau n Mm q d) (2 * n) c).get r0 (2 * n + 1) := hL
    rw [hval r0 hr0 hr0c, heq, div_mul_cancel₀ _ (ne_of_gt (hd r0 hr0)), sub_self] at hL'
    exact lt_irrefl _ hL'
  · rw [List.range_eq_range'] at hL
    apply lexPosOn_range'_neg _ c _ n 0 (Nat.zero_le _) (by omega) _ hL
    · show (pivot (initTableau n Mm q d) (2 * n) c).get r0 c < 0
      have e1 : (initTableau n Mm q d).get r0 c = 0 := by
        rw [init_get n Mm q d r0 c hr0 (by omega), if_pos hc, if_neg (show ¬ c = r0 by omega)]
      have e2 : (initTableau n Mm q d).get c c = 1 := by
        rw [init_get n Mm q d c c hc (by omega), if_pos hc, if_pos rfl]
      rw [pivot_get_i _ _ _ _ _ (by omega) (by omega) hr0c, e1, e2,
        init_get_art n Mm q d hn c hc, init_get_art n Mm q d hn r0 hr0]
      have : 1 / -d c * -d r0 = d r0 / d c := by rw [div_neg]; ring
      rw [this, zero_sub, neg_lt_zero]
      exact div_pos (hd r0 hr0) hdc
    · intro j _ hj
      show (pivot (initTableau n Mm q d) (2 * n) c).get r0 j = 0
      have e1 : (initTableau n Mm q d).get r0 j = 0 := by
        rw [init_get n Mm q d r0 j hr0 (by omega), if_pos (show j < n by omega),
          if_neg (show ¬ j = r0 by omega)]
      have e2 : (initTableau n Mm q d).get c j = 0 := by
        rw [init_get n Mm q d c j hc (by omega), if_pos (show j < n by omega),
          if_neg (show ¬ j = c by omega)]
      rw [pivot_get_i _ _ _ _ _ (by omega) (by omega) hr0c, e1, e2]
      ring

/-! ### the loop as iteration of the step map -/

theorem loop_iter : ∀ (fuel : ℕ) (s : St K) (it : ℕ),
    ((lemkeLoop n (0 : K) 0 fuel s.T s.basis s.c it).status = 2 →
      ∃ k st, Path.iter (stepF n) k s = some st ∧
        (lemkeLoop n (0 : K) 0 fuel s.T s.basis s.c it).T = st.T ∧
        (lemkeLoop n (0 : K) 0 fuel s.T s.basis s.c it).basis = st.basis ∧
        (lexMinRatio st.T st.c 0 (0 : K) 0).1 = false) ∧
    ((lemkeLoop n (0 : K) 0 fuel s.T s.basis s.c it).status = 1 →
      ∃ st, Path.iter (stepF n) fuel s = some st) := by
  intro fuel
  induction fuel with
  | zero =>
    intro s it
    rw [lemkeLoop_zero]
    exact ⟨fun h => by simp at h, fun _ => ⟨s, rfl⟩⟩
  | succ fuel ih =>
    intro s it
    rw [lemkeLoop_succ]
    by_cases hf : (lexMinRatio s.T s.c 0 (0 : K) 0).1 = false
    · rw [if_pos hf]
      exact ⟨fun _ => ⟨0, s, rfl, rfl, rfl, hf⟩, fun h => by simp at h⟩
    · rw [if_neg hf]
      by_cases hl : s.basis (lexMinRatio s.T s.c 0 (0 : K) 0).2 = 2 * n
      · rw [if_pos hl]
        exact ⟨fun h => by simp at h, fun h => by simp at h⟩
      · rw [if_neg hl]
        have hstep : stepF n s = some ⟨pivot s.T s.c (lexMinRatio s.T s.c 0 (0 : K) 0).2,
            setBasis s.basis (lexMinRatio s.T s.c 0 (0 : K) 0).2 s.c,
            complement n (s.basis (lexMinRatio s.T s.c 0 (0 : K) 0).2)⟩ := by
          unfold stepF
          rw [if_pos ⟨by simpa using hf, hl⟩]
        obtain ⟨i1, i2⟩ := ih ⟨pivot s.T s.c (lexMinRatio s.T s.c 0 (0 : K) 0).2,
            setBasis s.basis (lexMinRatio s.T s.c 0 (0 : K) 0).2 s.c,
            complement n (s.basis (lexMinRatio s.T s.c 0 (0 : K) 0).2)⟩ (it + 1)
        constructor
        · intro h
          obtain ⟨k, st, hk, e1, e2, e3⟩ := i1 h
          refine ⟨k + 1, st, ?_, e1, e2, e3⟩
          rw [Path.iter_succ, hstep]; exact hk
        · intro h
          obtain ⟨st, hk⟩ := i2 h
          refine ⟨st, ?_⟩
          rw [Path.iter_succ, hstep]; exact hk

/-- the state after the first pivot -/
def startSt : St K :=
  ⟨(firstPivot n Mm q d 0).1, (firstPivot n Mm q d 0).2.1, (firstPivot n Mm q d 0).2.2⟩

theorem startSt_good (hn : 0 < n) (hd : ∀ i, i < n → 0 < d i) (hq : ∃ i, i < n ∧ q i < 0) :
    Good n Mm q d (startSt n Mm q d) := by
  obtain ⟨h1, he, hc⟩ := firstPivot_inv1 n Mm q d hn (fun i hi => ne_of_gt (hd i hi)) (0 : K)
  exact ⟨h1, he, hc, firstPivot_lp n Mm q d hn hd hq⟩

/-- instance of the abstract path lemma -/
theorem no_palindrome_lemke (hn : 0 < n) (k : ℕ) (s1 st : St K) (hg : Good n Mm q d s1)
    (h : Path.iter (stepF n) (k + 1) s1 = some st) : ¬ SameSet n (flipSt n st) s1 :=
  Path.no_palindrome (stepF n) (flipSt n) (SameSet n) (Good n Mm q d)
    (good_step n Mm q d hn) (good_flip n Mm q d) (sameSet_symm n) (sameSet_trans n)
    (step_sameSet n Mm q d hn) (step_rev n Mm q d hn) (not_sameSet_flip n Mm q d hn)
    (not_sameSet_flip_step n Mm q d hn) k s1 st hg h

/-- **the run never returns to a primary-ray tableau**: at a status-2 exit the direction of
    the ray has a non-zero `z` component -/
theorem ray_zh_ne_zero (hn : 0 < n) (hd : ∀ i, i < n → 0 < d i) (hq : ∃ i, i < n ∧ q i < 0)
    (maxIter : ℕ) (hs : (lemkeRun n Mm q d maxIter (0 : K) 0).status = 2) :
    ∃ c, c < 2 * n ∧ Enter n (lemkeRun n Mm q d maxIter (0 : K) 0).basis c ∧
      (∀ k, k < n → (lemkeRun n Mm q d maxIter (0 : K) 0).T.get k c ≤ 0) ∧
      ∃ j, j < n ∧ rayDir n (lemkeRun n Mm q d maxIter (0 : K) 0).T
        (lemkeRun n Mm q d maxIter (0 : K) 0).basis c (n + j) ≠ 0 := by
  have hg1 := startSt_good n Mm q d hn hd hq
  have hrun : lemkeRun n Mm q d maxIter (0 : K) 0
      = lemkeLoop n (0 : K) 0 (maxIter - 1) (startSt n Mm q d).T (startSt n Mm q d).basis
          (startSt n Mm q d).c 1 := rfl
  rw [hrun] at hs ⊢
  obtain ⟨k, st, hk, e1, e2, hnf⟩ := (loop_iter n (maxIter - 1) (startSt n Mm q d) 1).1 hs
  rw [e1, e2]
  have hgt : Good n Mm q d st :=
    Path.iter_good (stepF n) (Good n Mm q d) (good_step n Mm q d hn) k _ st hg1 hk
  obtain ⟨hI, he, hc, hlp⟩ := hgt
  have hcol : ∀ i, i < n → st.T.get i st.c ≤ 0 := by
    intro i hi
    by_contra hpos
    have := lexMinRatio_found_of_pos Mm q d hI st.c ⟨i, hi, not_le.mp hpos⟩
    rw [hnf] at this; exact absurd this (by simp)
  refine ⟨st.c, hc, he, hcol, ?_⟩
  by_contra hzero
  have hz : ∀ j, j < n → rayDir n st.T st.basis st.c (n + j) = 0 := by
    intro j hj
    by_contra hne
    exact hzero ⟨j, hj, hne⟩
  obtain ⟨hcn, hb⟩ := ray_primary_of_zh_zero hn Mm q d hd hI he hc hcol hz
  have hmem := ray_primary_mem hn Mm q d hd hI he hc hcol hz
  have hceq := primary_c_eq n Mm q d hn hd hI hlp hcn hmem
  have hr0 := firstPivotRow_lt n hn q d (0 : K)
  cases k with
  | zero =>
    simp [Path.iter] at hk
    have : st.c = firstPivotRow n q d 0 + n := by rw [← hk]; rfl
    omega
  | succ k' =>
    apply no_palindrome_lemke n Mm q d hn k' _ st hg1 hk
    constructor
    · show complement n st.c = firstPivotRow n q d 0 + n
      unfold complement
      rw [if_pos hcn, hceq]
    · intro v
      show (∃ i, i < n ∧ st.basis i = v) ↔
        (∃ i, i < n ∧ setBasis initBasis (firstPivotRow n q d 0) (2 * n) i = v)
      rw [setBasis_set n (basis := initBasis) (fun i j _ _ e => e) (firstPivotRow n q d 0) (2 * n) hr0 v]
      constructor
      · rintro ⟨i, hi, e⟩
        rcases hb i hi with e2 | e2
        · left; rw [← e, e2]
        · right
          refine ⟨⟨v, by rw [← e]; exact e2, rfl⟩, ?_⟩
          show v ≠ firstPivotRow n q d 0
          rw [← hceq, ← e]
          exact he.notin i hi
      · rintro (e | ⟨⟨i, hi, e⟩, hne⟩)
        · rcases hmem v (Or.inr e) with e2 | e2
          · omega
          · exact e2
        · have hv : v < n := by rw [← e]; exact hi
          rcases hmem v (Or.inl hv) with e2 | e2
          · exfalso; apply hne; show v = firstPivotRow n q d 0; rw [← hceq]; exact e2
          · exact e2

end

end QE.C11
