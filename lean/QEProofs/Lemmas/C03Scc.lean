/-
  Lemmas for C03, part 3: the class list is a partition by mutual reachability;
  class index vs membership; sink labels.
-/
import Mathlib.Data.List.Nodup
import QEProofs.Lemmas.C03Reach
namespace QE.C03

/-- what `sccClasses g = some Cs` unpacks to -/
theorem sccClasses_some (g : G) (Cs : List (List Nat)) (h : sccClasses g = some Cs) :
    reachOK g = true ∧ Cs = sccList (reachTable g) g.n := by
  unfold sccClasses at h
  split at h
  · rename_i hok; cases h; exact ⟨hok, rfl⟩
  · cases h

/-- the partition facts about the class list -/
structure IsPartition (g : G) (Cs : List (List Nat)) : Prop where
  char : ∀ C, C ∈ Cs → ∃ m, m < g.n ∧ m ∈ C ∧ ∀ v, v ∈ C ↔ (v < g.n ∧ Reach g m v ∧ Reach g v m)
  cover : ∀ u, u < g.n → ∃ C, C ∈ Cs ∧ u ∈ C
  disj : ∀ C, C ∈ Cs → ∀ C', C' ∈ Cs → ∀ v, v ∈ C → v ∈ C' → C = C'
  nodup : Cs.Nodup

theorem sccList_partition (g : G) (hwf : g.wf = true) (hok : reachOK g = true) :
    IsPartition g (sccList (reachTable g) g.n) := by
  have hchar : ∀ C, C ∈ sccList (reachTable g) g.n →
      ∃ m, m < g.n ∧ m ∈ C ∧ ∀ v, v ∈ C ↔ (v < g.n ∧ Reach g m v ∧ Reach g v m) := by
    intro C hC
    obtain ⟨m, hm, _, rfl⟩ := (mem_sccList _ _ _).1 hC
    refine ⟨m, hm, self_mem_sccOf g hwf hok m hm, ?_⟩
    intro v
    rw [mem_sccOf]
    constructor
    · rintro ⟨hv, hc⟩; exact ⟨hv, (comm_iff g hwf hok m v hm hv).1 hc⟩
    · rintro ⟨hv, hc⟩; exact ⟨hv, (comm_iff g hwf hok m v hm hv).2 hc⟩
  refine ⟨hchar, ?_, ?_, ?_⟩
  · intro u hu
    have hself := self_mem_sccOf g hwf hok u hu
    cases hh : (sccOf (reachTable g) g.n u).head? with
    | none =>
      rw [List.head?_eq_none_iff] at hh
      rw [hh] at hself; simp at hself
    | some m =>
      have hm : m ∈ sccOf (reachTable g) g.n u := List.mem_of_head? hh
      obtain ⟨hmn, hc⟩ := (mem_sccOf _ _ _ _).1 hm
      have heq := sccOf_congr g hwf hok u m hu hmn hc
      refine ⟨sccOf (reachTable g) g.n m, (mem_sccList _ _ _).2 ⟨m, hmn, by rw [← heq]; exact hh, rfl⟩, ?_⟩
      rw [← heq]; exact hself
  · intro C hC C' hC' v hv hv'
    obtain ⟨m, hm, _, rfl⟩ := (mem_sccList _ _ _).1 hC
    obtain ⟨m', hm', _, rfl⟩ := (mem_sccList _ _ _).1 hC'
    obtain ⟨hvn, hc⟩ := (mem_sccOf _ _ _ _).1 hv
    obtain ⟨_, hc'⟩ := (mem_sccOf _ _ _ _).1 hv'
    rw [sccOf_congr g hwf hok m v hm hvn hc, sccOf_congr g hwf hok m' v hm' hvn hc']
  · unfold sccList
    apply List.Nodup.map_on
    · intro x hx y hy hxy
      simp only [List.mem_filter, List.mem_range, beq_iff_eq] at hx hy
      have := hx.2
      rw [hxy, hy.2] at this
      exact (Option.some.inj this).symm
    · exact List.Nodup.filter _ List.nodup_range

theorem sccClasses_partition (g : G) (hwf : g.wf = true) (Cs : List (List Nat))
    (h : sccClasses g = some Cs) : IsPartition g Cs := by
  obtain ⟨hok, rfl⟩ := sccClasses_some g Cs h
  exact sccList_partition g hwf hok

/-! ### class index (`scc_proj`) versus membership -/

theorem classIdx_lt_of_mem (Cs : List (List Nat)) (u k : Nat) (hk : k < Cs.length) (hu : u ∈ Cs[k]) :
    classIdx Cs u < Cs.length := by
  unfold classIdx
  apply List.findIdx_lt_length_of_exists
  exact ⟨Cs[k], List.getElem_mem hk, by simpa using hu⟩

theorem mem_of_classIdx (Cs : List (List Nat)) (u : Nat) (h : classIdx Cs u < Cs.length) :
    u ∈ Cs[classIdx Cs u] := by
  have := List.findIdx_getElem (p := fun C : List Nat => C.contains u) (xs := Cs) (w := h)
  simpa [classIdx] using this

theorem classIdx_eq_of_mem (g : G) (Cs : List (List Nat)) (hp : IsPartition g Cs) (u k : Nat)
    (hk : k < Cs.length) (hu : u ∈ Cs[k]) : classIdx Cs u = k := by
  have hlt := classIdx_lt_of_mem Cs u k hk hu
  have hmem := mem_of_classIdx Cs u hlt
  have heq := hp.disj _ (List.getElem_mem hlt) _ (List.getElem_mem hk) u hmem hu
  exact (List.Nodup.getElem_inj_iff hp.nodup).1 heq

theorem classIdx_lt (g : G) (Cs : List (List Nat)) (hp : IsPartition g Cs) (u : Nat) (hu : u < g.n) :
    classIdx Cs u < Cs.length := by
  obtain ⟨C, hC, huC⟩ := hp.cover u hu
  obtain ⟨k, hk, rfl⟩ := List.getElem_of_mem hC
  exact classIdx_lt_of_mem Cs u k hk huC

/-! ### sink labels -/

theorem mem_condEdges (g : G) (Cs : List (List Nat)) (a b : Nat) :
    (a, b) ∈ condEdges g Cs ↔
      ∃ u v, u < g.n ∧ g.E u v ∧ classIdx Cs u ≠ classIdx Cs v ∧ a = classIdx Cs u ∧ b = classIdx Cs v := by
  unfold condEdges
  simp only [List.mem_map, List.mem_filter, bne_iff_ne, ne_eq, Prod.mk.injEq, Prod.exists]
  constructor
  · rintro ⟨u, v, ⟨hm, hne⟩, rfl, rfl⟩
    obtain ⟨hu, he⟩ := (mem_edges g u v).1 hm
    exact ⟨u, v, hu, he, hne, rfl, rfl⟩
  · rintro ⟨u, v, hu, he, hne, rfl, rfl⟩
    exact ⟨u, v, ⟨(mem_edges g u v).2 ⟨hu, he⟩, hne⟩, rfl, rfl⟩

theorem mem_sinkLabels (g : G) (Cs : List (List Nat)) (k : Nat) :
    k ∈ sinkLabels g Cs ↔ k < Cs.length ∧
      ∀ u v, u < g.n → g.E u v → classIdx Cs u = k → classIdx Cs v = k := by
  unfold sinkLabels
  simp only [List.mem_filter, List.mem_range, Bool.not_eq_true', List.any_eq_false, beq_iff_eq]
  constructor
  · rintro ⟨hk, h⟩
    refine ⟨hk, ?_⟩
    intro u v hu he hcu
    by_contra hcv
    have hne : classIdx Cs u ≠ classIdx Cs v := by rw [hcu]; exact fun h' => hcv h'.symm
    have hm := (mem_condEdges g Cs _ _).2 ⟨u, v, hu, he, hne, rfl, rfl⟩
    exact h _ hm hcu
  · rintro ⟨hk, h⟩
    refine ⟨hk, ?_⟩
    rintro ⟨a, b⟩ hm ha
    obtain ⟨u, v, hu, he, hne, rfl, rfl⟩ := (mem_condEdges g Cs _ _).1 hm
    simp only at ha
    exact hne (by rw [ha, h u v hu he ha])

end QE.C03
