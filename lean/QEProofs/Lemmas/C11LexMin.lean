/-
  Functional specification of `_lex_min_ratio_test` (`QEModel.Pivot.lexMinRatio`) with
  tolerances 0: the returned row is the *strict lexicographic minimiser* of the ratio
  vectors `(T[k,rhs]/T[k,c], T[k,s]/T[k,c], T[k,s+1]/T[k,c], …)` among the rows with
  positive pivot-column entry.
-/
import QEProofs.Lemmas.C04Ratio
import Mathlib.Algebra.Order.Field.Basic
import Mathlib.Tactic.Linarith

namespace QE.C11
open QE QE.Pivot
set_option linter.unusedVariables false
set_option linter.unusedSectionVars false

variable {K : Type} [Field K] [LinearOrder K] [IsStrictOrderedRing K]

/-- the first non-zero value of `f` along the list `L` exists and is positive -/
def LexPosOn (f : ℕ → K) : List ℕ → Prop
  | [] => False
  | j :: js => 0 < f j ∨ (f j = 0 ∧ LexPosOn f js)

/-- difference of the ratio vectors of rows `k` and `r` at column `j` -/
def ratioDiff (T : M K) (c r k j : ℕ) : K := T.get k j / T.get k c - T.get r j / T.get r c

/-- strictness invariant of the no-tie-breaking scan: processed rows with positive entry that
    are not in the current list have a ratio strictly above the current minimum -/
def SInv (T : M K) (pc tc : ℕ) (tp : K) (P : List ℕ) : MRState K → Prop
  | (none, _) => True
  | (some rmin, l) => ∀ k ∈ P, tp < T.get k pc → k ∉ l → rmin < T.get k tc / T.get k pc

theorem sinv_step (T : M K) (pc tc : ℕ) (tp : K) (P : List ℕ) (st : MRState K) (i : ℕ)
    (hr : RInv T pc tc tp 0 P st) (hs : SInv T pc tc tp P st) :
    SInv T pc tc tp (P ++ [i]) (minRatioStep T pc tc tp 0 st i) := by
  obtain ⟨o, l⟩ := st
  unfold minRatioStep
  by_cases hle : T.get i pc ≤ tp
  · rw [if_pos hle]
    cases o with
    | none => trivial
    | some rmin =>
      intro k hk hpos hnot
      rcases List.mem_append.mp hk with hk | hk
      · exact hs k hk hpos hnot
      · rw [List.mem_singleton] at hk; subst hk; exact absurd hle (not_le.mpr hpos)
  · rw [if_neg hle]
    cases o with
    | none =>
      rw [rinv_none] at hr
      show SInv T pc tc tp (P ++ [i]) (some (T.get i tc / T.get i pc), [i])
      intro k hk hpos hnot
      rcases List.mem_append.mp hk with hk | hk
      · exact absurd (hr.2 k hk) (not_le.mpr hpos)
      · rw [List.mem_singleton] at hk; subst hk; exact absurd (List.mem_singleton.mpr rfl) hnot
    | some rmin =>
      rw [rinv_some] at hr
      obtain ⟨_, _, h3⟩ := hr
      have h3' := h3 rfl
      show SInv T pc tc tp (P ++ [i])
        (if rmin + 0 < T.get i tc / T.get i pc then (some rmin, l)
         else if T.get i tc / T.get i pc < rmin - 0 then (some (T.get i tc / T.get i pc), [i])
         else (some rmin, l ++ [i]))
      split_ifs with c1 c2
      · intro k hk hpos hnot
        rcases List.mem_append.mp hk with hk | hk
        · exact hs k hk hpos hnot
        · rw [List.mem_singleton] at hk; subst hk; rw [add_zero] at c1; exact c1
      · intro k hk hpos hnot
        rw [sub_zero] at c2
        rcases List.mem_append.mp hk with hk | hk
        · by_cases hkl : k ∈ l
          · rw [h3'.1 k hkl]; exact c2
          · exact lt_trans c2 (hs k hk hpos hkl)
        · rw [List.mem_singleton] at hk; subst hk; exact absurd (List.mem_singleton.mpr rfl) hnot
      · intro k hk hpos hnot
        rcases List.mem_append.mp hk with hk | hk
        · exact hs k hk hpos (fun hkl => hnot (List.mem_append_left _ hkl))
        · rw [List.mem_singleton] at hk; subst hk
          exact absurd (List.mem_append_right _ (List.mem_singleton.mpr rfl)) hnot

theorem sinv_foldl (T : M K) (pc tc : ℕ) (tp : K) (cands : List ℕ) :
    ∀ (P : List ℕ) (st : MRState K), RInv T pc tc tp 0 P st → SInv T pc tc tp P st →
      SInv T pc tc tp (P ++ cands) (cands.foldl (minRatioStep T pc tc tp 0) st) := by
  induction cands with
  | nil => intro P st _ h; simpa using h
  | cons i cs ih =>
    intro P st hr hs
    have := ih (P ++ [i]) _ (rinv_step T pc tc tp 0 P st i hr) (sinv_step T pc tc tp P st i hr hs)
    simpa [List.append_assoc] using this

/-- rows with positive entry that are not returned have a strictly larger ratio -/
theorem minRatioNoTie_strict (T : M K) (pc tc : ℕ) (cands : List ℕ) (tp : K) (i k : ℕ)
    (hi : i ∈ minRatioNoTie T pc tc cands tp 0) (hk : k ∈ cands) (hkpos : tp < T.get k pc)
    (hnot : k ∉ minRatioNoTie T pc tc cands tp 0) :
    T.get i tc / T.get i pc < T.get k tc / T.get k pc := by
  have hR := rinv_final T pc tc cands tp 0
  have hS : SInv T pc tc tp cands (cands.foldl (minRatioStep T pc tc tp 0) (none, [])) := by
    have h0 : RInv T pc tc tp 0 [] (none, []) := by rw [rinv_none]; exact ⟨rfl, by simp⟩
    simpa using sinv_foldl T pc tc tp cands [] (none, []) h0 trivial
  unfold minRatioNoTie at hi hnot
  generalize cands.foldl (minRatioStep T pc tc tp 0) (none, []) = st at hR hS hi hnot
  obtain ⟨o, l⟩ := st
  cases o with
  | none => rw [rinv_none] at hR; rw [hR.1] at hi; simp at hi
  | some rmin =>
    rw [rinv_some] at hR
    obtain ⟨_, _, h3⟩ := hR
    rw [(h3 rfl).1 i hi]
    exact hS k hk hkpos hnot

theorem list_eq_singleton_headD (l : List ℕ) (h : l.length = 1) : l = [l.headD 0] := by
  match l, h with
  | [x], _ => rfl

/-- the tie-breaking loop: every other remaining candidate is strictly lexicographically
    larger than the row found, along the columns scanned -/
theorem lexLoop_strict (T : M K) (c : ℕ) (js : List ℕ) :
    ∀ (a : List ℕ), (∀ i ∈ a, 0 < T.get i c) → (lexLoop T c (0 : K) 0 js a).1 = true →
      ∀ k ∈ a, k ≠ (lexLoop T c (0 : K) 0 js a).2.headD 0 →
        LexPosOn (ratioDiff T c ((lexLoop T c (0 : K) 0 js a).2.headD 0) k) js := by
  induction js with
  | nil => intro a _ hf; simp [lexLoop] at hf
  | cons j js ih =>
    intro a hpos hf k hk hne
    have hrmem : (lexLoop T c (0 : K) 0 (j :: js) a).2.headD 0 ∈ a :=
      lexLoop_mem T c 0 0 (j :: js) a _
        (headD_mem_of_length_one _ (lexLoop_true_length T c 0 0 (j :: js) a hf))
    unfold lexLoop at hf hne hrmem ⊢
    by_cases hj : j = c
    · rw [if_pos hj] at hf hne hrmem ⊢
      right
      constructor
      · unfold ratioDiff
        rw [hj, div_self (ne_of_gt (hpos k hk)), div_self (ne_of_gt (hpos _ hrmem)), sub_self]
      · exact ih a hpos hf k hk hne
    · rw [if_neg hj] at hf hne hrmem ⊢
      by_cases hl : (minRatioNoTie T c j a (0 : K) 0).length = 1
      · simp only [hl, if_true] at hne hrmem ⊢
        have hsingle := list_eq_singleton_headD _ hl
        have hr' : (minRatioNoTie T c j a (0 : K) 0).headD 0 ∈ minRatioNoTie T c j a (0 : K) 0 :=
          headD_mem_of_length_one _ hl
        have hknot : k ∉ minRatioNoTie T c j a (0 : K) 0 := by
          intro hkm
          rw [hsingle, List.mem_singleton] at hkm
          exact hne hkm
        left
        unfold ratioDiff
        have := minRatioNoTie_strict T c j a (0 : K) _ k hr' hk (hpos k hk) hknot
        linarith
      · simp only [hl, if_false] at hf hne hrmem ⊢
        have hpos' : ∀ i ∈ minRatioNoTie T c j a (0 : K) 0, 0 < T.get i c :=
          fun i hi => hpos i (minRatioNoTie_mem T c j a 0 0 i hi).1
        have hr' : (lexLoop T c (0 : K) 0 js (minRatioNoTie T c j a (0 : K) 0)).2.headD 0
            ∈ minRatioNoTie T c j a (0 : K) 0 :=
          lexLoop_mem T c 0 0 js _ _
            (headD_mem_of_length_one _ (lexLoop_true_length T c 0 0 js _ hf))
        by_cases hkm : k ∈ minRatioNoTie T c j a (0 : K) 0
        · right
          constructor
          · unfold ratioDiff
            rw [minRatioNoTie_ratio_eq T c j a (0 : K) k _ hkm hr', sub_self]
          · exact ih _ hpos' hf k hkm hne
        · left
          unfold ratioDiff
          have := minRatioNoTie_strict T c j a (0 : K) _ k hr' hk (hpos k hk) hkm
          linarith

/-- **`_lex_min_ratio_test`, tolerances 0: the row found is the strict lexicographic
    minimiser** of the ratio vectors over the columns `rhs, s, s+1, …, s+nr-1` (`s` =
    `slack_start`) among all rows with positive pivot-column entry. -/
theorem lexMinRatio_strict (T : M K) (c ss : ℕ) (hf : (lexMinRatio T c ss (0 : K) 0).1 = true) :
    ∀ k, k < T.nr → k ≠ (lexMinRatio T c ss (0 : K) 0).2 → 0 < T.get k c →
      LexPosOn (ratioDiff T c (lexMinRatio T c ss (0 : K) 0).2 k)
        ((T.nc - 1) :: (List.range T.nr).map (· + ss)) := by
  intro k hk hne hkpos
  have hmem := lexMinRatio_mem T c ss (0 : K) 0 hf
  unfold lexMinRatio at hf hne hmem ⊢
  by_cases h1 : (minRatioNoTie T c (T.nc - 1) (List.range T.nr) (0 : K) 0).length = 1
  · simp only [h1, if_true] at hne hmem ⊢
    have hsingle := list_eq_singleton_headD _ h1
    have hknot : k ∉ minRatioNoTie T c (T.nc - 1) (List.range T.nr) (0 : K) 0 := by
      intro hkm
      rw [hsingle, List.mem_singleton] at hkm
      exact hne hkm
    left
    unfold ratioDiff
    have := minRatioNoTie_strict T c (T.nc - 1) (List.range T.nr) (0 : K) _ k hmem
      (List.mem_range.mpr hk) hkpos hknot
    linarith
  · simp only [h1, if_false] at hf hne hmem ⊢
    by_cases h2 : (minRatioNoTie T c (T.nc - 1) (List.range T.nr) (0 : K) 0).length ≥ 2
    · simp only [h2, if_true] at hf hne hmem ⊢
      have hpos' : ∀ i ∈ minRatioNoTie T c (T.nc - 1) (List.range T.nr) (0 : K) 0, 0 < T.get i c :=
        fun i hi => (minRatioNoTie_mem T c (T.nc - 1) (List.range T.nr) 0 0 i hi).2
      by_cases hkm : k ∈ minRatioNoTie T c (T.nc - 1) (List.range T.nr) (0 : K) 0
      · right
        constructor
        · unfold ratioDiff
          rw [minRatioNoTie_ratio_eq T c (T.nc - 1) (List.range T.nr) (0 : K) k _ hkm hmem, sub_self]
        · exact lexLoop_strict T c _ _ hpos' hf k hkm hne
      · left
        unfold ratioDiff
        have := minRatioNoTie_strict T c (T.nc - 1) (List.range T.nr) (0 : K) _ k hmem
          (List.mem_range.mpr hk) hkpos hkm
        linarith
    · simp only [h2, if_false] at hf
      exact absurd hf (by simp)

end QE.C11
