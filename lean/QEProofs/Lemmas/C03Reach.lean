/-
  Lemmas for C03, part 2: frontier saturation computes the reachable set; mutual
  reachability classes.
-/
import Mathlib.Logic.Relation
import QEProofs.Lemmas.C03Period
namespace QE.C03

/-- `v` is reachable from `s` in 0 or more steps -/
abbrev Reach (g : G) (s v : Nat) : Prop := Relation.ReflTransGen g.E s v

theorem mem_expand (g : G) (S : List Nat) (v : Nat) :
    v ∈ expand g S ↔ v < g.n ∧ (v ∈ S ∨ ∃ u, u ∈ S ∧ g.E u v) := by
  unfold expand G.E
  simp only [List.mem_filter, List.mem_range, Bool.or_eq_true, List.contains_eq_mem,
    decide_eq_true_eq, List.any_eq_true]

theorem reach_lt (g : G) (hwf : g.wf = true) {s v : Nat} (hs : s < g.n) (h : Reach g s v) : v < g.n := by
  induction h with
  | refl => exact hs
  | tail _ e _ => exact (E_lt g hwf e).2

/-- the loop invariant: the start node is in, and everything in is reachable -/
def ReachInv (g : G) (s : Nat) (S : List Nat) : Prop := s ∈ S ∧ ∀ v, v ∈ S → Reach g s v

theorem reachInv_expand (g : G) (s : Nat) (hs : s < g.n) (S : List Nat) (h : ReachInv g s S) :
    ReachInv g s (expand g S) := by
  refine ⟨(mem_expand g S s).2 ⟨hs, Or.inl h.1⟩, ?_⟩
  intro v hv
  rcases ((mem_expand g S v).1 hv).2 with h1 | ⟨u, hu, he⟩
  · exact h.2 v h1
  · exact Relation.ReflTransGen.tail (h.2 u hu) he

theorem reachLoop_some (g : G) (s : Nat) (hs : s < g.n) (k : Nat) (S T : List Nat)
    (hinv : ReachInv g s S) (h : reachLoop g k S = some T) :
    ReachInv g s T ∧ expand g T = T := by
  induction k generalizing S with
  | zero =>
    unfold reachLoop at h
    split at h
    · rename_i heq
      cases h
      exact ⟨hinv, by simpa using heq⟩
    · cases h
  | succ k ih =>
    unfold reachLoop at h
    split at h
    · rename_i heq
      cases h
      exact ⟨hinv, by simpa using heq⟩
    · exact ih _ (reachInv_expand g s hs S hinv) h

/-- a successor-closed set containing `s` contains everything reachable from `s` -/
theorem closed_contains_reach (g : G) (hwf : g.wf = true) (s : Nat) (T : List Nat)
    (hs : s ∈ T) (hcl : expand g T = T) (v : Nat) (h : Reach g s v) : v ∈ T := by
  induction h with
  | refl => exact hs
  | tail _ e ih =>
    rw [← hcl]
    exact (mem_expand g T _).2 ⟨(E_lt g hwf e).2, Or.inr ⟨_, ih, e⟩⟩

theorem reachFrom_spec (g : G) (hwf : g.wf = true) (s : Nat) (hs : s < g.n) (T : List Nat)
    (h : reachFrom g s = some T) (v : Nat) : v ∈ T ↔ Reach g s v := by
  unfold reachFrom at h
  have h0 : ReachInv g s ((List.range g.n).filter fun v => v == s) := by
    refine ⟨by simp [hs], ?_⟩
    intro v hv
    simp only [List.mem_filter, List.mem_range, beq_iff_eq] at hv
    rw [hv.2]
  obtain ⟨hinv, hcl⟩ := reachLoop_some g s hs g.n _ T h0 h
  exact ⟨hinv.2 v, closed_contains_reach g hwf s T hinv.1 hcl v⟩

/-! ### the reachability table -/

theorem reachTable_getD (g : G) (u : Nat) (hu : u < g.n) :
    (reachTable g).getD u [] = (reachFrom g u).getD [] := by
  unfold reachTable
  rw [List.getD_eq_getElem?_getD, List.getElem?_map, List.getElem?_range hu]
  rfl

theorem reachOK_some (g : G) (hok : reachOK g = true) (u : Nat) (hu : u < g.n) :
    ∃ T, reachFrom g u = some T := by
  unfold reachOK at hok
  rw [List.all_eq_true] at hok
  have := hok u (List.mem_range.2 hu)
  exact Option.isSome_iff_exists.1 this

theorem reachTable_contains (g : G) (hwf : g.wf = true) (hok : reachOK g = true) (u v : Nat)
    (hu : u < g.n) : ((reachTable g).getD u []).contains v = true ↔ Reach g u v := by
  obtain ⟨T, hT⟩ := reachOK_some g hok u hu
  rw [reachTable_getD g u hu, hT]
  simp only [Option.getD_some, List.contains_eq_mem, decide_eq_true_eq]
  exact reachFrom_spec g hwf u hu T hT v

theorem comm_iff (g : G) (hwf : g.wf = true) (hok : reachOK g = true) (u v : Nat)
    (hu : u < g.n) (hv : v < g.n) :
    comm (reachTable g) u v = true ↔ Reach g u v ∧ Reach g v u := by
  unfold comm
  rw [Bool.and_eq_true, reachTable_contains g hwf hok u v hu, reachTable_contains g hwf hok v u hv]

theorem mem_sccOf (R : List (List Nat)) (n u v : Nat) :
    v ∈ sccOf R n u ↔ v < n ∧ comm R u v = true := by
  unfold sccOf
  simp [List.mem_filter]

/-- communicating nodes have the same class list -/
theorem sccOf_congr (g : G) (hwf : g.wf = true) (hok : reachOK g = true) (u w : Nat)
    (hu : u < g.n) (hw : w < g.n) (h : comm (reachTable g) u w = true) :
    sccOf (reachTable g) g.n u = sccOf (reachTable g) g.n w := by
  unfold sccOf
  apply List.filter_congr
  intro v hv
  have hv' : v < g.n := List.mem_range.1 hv
  have huw := (comm_iff g hwf hok u w hu hw).1 h
  rw [Bool.eq_iff_iff, comm_iff g hwf hok u v hu hv', comm_iff g hwf hok w v hw hv']
  constructor
  · rintro ⟨h1, h2⟩; exact ⟨huw.2.trans h1, h2.trans huw.1⟩
  · rintro ⟨h1, h2⟩; exact ⟨huw.1.trans h1, h2.trans huw.2⟩

theorem self_mem_sccOf (g : G) (hwf : g.wf = true) (hok : reachOK g = true) (u : Nat) (hu : u < g.n) :
    u ∈ sccOf (reachTable g) g.n u :=
  (mem_sccOf _ _ _ _).2 ⟨hu, (comm_iff g hwf hok u u hu hu).2 ⟨Relation.ReflTransGen.refl, Relation.ReflTransGen.refl⟩⟩

theorem mem_sccList (R : List (List Nat)) (n : Nat) (C : List Nat) :
    C ∈ sccList R n ↔ ∃ m, m < n ∧ (sccOf R n m).head? = some m ∧ C = sccOf R n m := by
  unfold sccList
  simp only [List.mem_map, List.mem_filter, List.mem_range, beq_iff_eq]
  constructor
  · rintro ⟨m, ⟨h1, h2⟩, rfl⟩; exact ⟨m, h1, h2, rfl⟩
  · rintro ⟨m, h1, h2, rfl⟩; exact ⟨m, ⟨h1, h2⟩, rfl⟩

end QE.C03
