/-
  Lemmas for C03, part 7: closed walks split into simple cycles, so a number dividing
  the length of every simple cycle divides the length of every closed walk.
-/
import Mathlib.Data.List.Basic
import Mathlib.Data.List.Nodup
import QEProofs.Lemmas.C03Period
namespace QE.C03

/-- a walk together with the list of the nodes it leaves (every node except the last one) -/
inductive WalkV (g : G) : Nat → Nat → List Nat → Prop
  | nil (u : Nat) : WalkV g u u []
  | cons {u v w : Nat} {vs : List Nat} : g.E u v → WalkV g v w vs → WalkV g u w (u :: vs)

theorem WalkV.toWalk {g : G} {u w : Nat} {vs : List Nat} (h : WalkV g u w vs) : Walk g u w vs.length := by
  induction h with
  | nil u => exact Walk.nil u
  | cons e _ ih => exact Walk.cons e ih

theorem Walk.toWalkV {g : G} {u w L : Nat} (h : Walk g u w L) : ∃ vs, WalkV g u w vs ∧ vs.length = L := by
  induction h with
  | nil u => exact ⟨[], WalkV.nil u, rfl⟩
  | @cons u v w L e _ ih =>
    obtain ⟨vs, hvs, hl⟩ := ih
    exact ⟨u :: vs, WalkV.cons e hvs, by simp [hl]⟩

theorem WalkV.append {g : G} {u x w : Nat} {l1 l2 : List Nat} (h1 : WalkV g u x l1) (h2 : WalkV g x w l2) :
    WalkV g u w (l1 ++ l2) := by
  induction h1 with
  | nil u => simpa using h2
  | cons e _ ih => exact WalkV.cons e (ih h2)

theorem WalkV.split {g : G} {u w x : Nat} (l1 l2 : List Nat) (h : WalkV g u w (l1 ++ x :: l2)) :
    WalkV g u x l1 ∧ WalkV g x w (x :: l2) := by
  induction l1 generalizing u with
  | nil =>
    simp only [List.nil_append] at h
    cases h with
    | cons e rest => exact ⟨WalkV.nil _, WalkV.cons e rest⟩
  | cons a l1 ih =>
    simp only [List.cons_append] at h
    cases h with
    | cons e rest =>
      obtain ⟨h1, h2⟩ := ih rest
      exact ⟨WalkV.cons e h1, h2⟩

theorem not_nodup_split (l : List Nat) (h : ¬ l.Nodup) :
    ∃ p x m s, l = p ++ x :: m ++ x :: s := by
  induction l with
  | nil => simp at h
  | cons a t ih =>
    by_cases ha : a ∈ t
    · obtain ⟨m, s, hms⟩ := List.append_of_mem ha
      exact ⟨[], a, m, s, by simp [hms]⟩
    · have ht : ¬ t.Nodup := fun hn => h (List.nodup_cons.2 ⟨ha, hn⟩)
      obtain ⟨p, x, m, s, hl⟩ := ih ht
      exact ⟨a :: p, x, m, s, by simp [hl]⟩

/-- **cycle decomposition.** If `q` divides the length of every simple cycle (closed walk that
    leaves pairwise different nodes), it divides the length of every closed walk. -/
theorem dvd_closed_of_dvd_cycles (g : G) (q : Nat)
    (hq : ∀ u vs, WalkV g u u vs → vs ≠ [] → vs.Nodup → q ∣ vs.length) :
    ∀ n u vs, vs.length = n → WalkV g u u vs → q ∣ vs.length := by
  intro n
  induction n using Nat.strong_induction_on with
  | _ n ih =>
    intro u vs hlen hw
    by_cases hnd : vs.Nodup
    · by_cases hne : vs = []
      · subst hne; simp
      · exact hq u vs hw hne hnd
    · obtain ⟨p, x, m, s, hl⟩ := not_nodup_split vs hnd
      subst hl
      have h1 := WalkV.split (p ++ x :: m) s hw
      have h2 := WalkV.split p m h1.1
      have hinner : q ∣ (x :: m).length :=
        ih (x :: m).length (by rw [← hlen]; simp; omega) x (x :: m) rfl h2.2
      have houter : q ∣ (p ++ x :: s).length :=
        ih (p ++ x :: s).length (by rw [← hlen]; simp; omega) u (p ++ x :: s) rfl (h2.1.append h1.2)
      have hsum : (p ++ x :: m ++ x :: s).length = (x :: m).length + (p ++ x :: s).length := by
        simp; omega
      rw [hsum]
      exact Nat.dvd_add hinner houter

end QE.C03
