/-
  C04 — one pivot preserves the invariants of the simplex loop:
  shape, canonical form, non-negative right-hand sides (given the ratio test),
  the solution set of the constraint rows and the objective function.
-/
import QEProofs.Lemmas.C04Defs
namespace QE.C04
open QE QE.Pivot Finset

variable {K : Type} [Field K] [LinearOrder K] [IsStrictOrderedRing K]

theorem getD_set (b : List ℕ) (r c i : ℕ) (hr : r < b.length) :
    (b.set r c).getD i 0 = if i = r then c else b.getD i 0 := by
  simp only [List.getD_eq_getElem?_getD, List.getElem?_set]
  by_cases h : r = i
  · subst h; simp [hr]
  · have h' : ¬ i = r := fun e => h e.symm
    simp [h, h']

omit [IsStrictOrderedRing K] in
theorem shape_pivot (T : M K) (L N c r : ℕ) (hs : Shape T L N) : Shape (pivot T c r) L N := by
  unfold Shape at *; simpa using hs

omit [IsStrictOrderedRing K] in
/-- canonical form is preserved when column `c` enters at row `r` -/
theorem canon_pivot (T : M K) (b : List ℕ) (L N c r : ℕ) (hs : Shape T L N) (hc : Canon T b L N)
    (hcN : c < N) (hr : r < L) (hp : T.get r c ≠ 0) : Canon (pivot T c r) (b.set r c) L N := by
  obtain ⟨hnr, hnc⟩ := hs
  obtain ⟨hlen, hcan⟩ := hc
  refine ⟨by simpa using hlen, ?_⟩
  intro i hi
  rw [getD_set b r c i (by omega)]
  by_cases hir : i = r
  · subst hir
    simp only
    refine ⟨hcN, ?_⟩
    intro i' hi'
    by_cases h : i' = i
    · subst h; simp only
      exact pivot_col_r T c i' (by omega) (by omega) hp
    · simp only [if_neg h]
      exact pivot_col_i T c i i' (by omega) (by omega) h hp
  · simp only [if_neg hir]
    obtain ⟨hbi, hcol⟩ := hcan i hi
    refine ⟨hbi, ?_⟩
    intro i' hi'
    have hz : T.get r (b.getD i 0) = 0 := by
      have := hcol r (by omega)
      rw [this]; simp; exact fun e => hir e.symm
    rw [pivot_col_keep T c r i' (b.getD i 0) (by omega) (by omega) hz]
    exact hcol i' hi'

/-- the ratio test keeps the right-hand sides non-negative -/
theorem rhs_pivot (T : M K) (L N c r : ℕ) (hs : Shape T L N) (hrhs : RhsNonneg T L N) (hr : r < L)
    (hp : 0 < T.get r c)
    (hmin : ∀ k, k < L → 0 < T.get k c → T.get r N / T.get r c ≤ T.get k N / T.get k c) :
    RhsNonneg (pivot T c r) L N := by
  obtain ⟨hnr, hnc⟩ := hs
  intro i hi
  have hratio : 0 ≤ T.get r N / T.get r c := div_nonneg (hrhs r hr) (le_of_lt hp)
  by_cases hir : i = r
  · subst hir
    rw [pivot_get_r T c i N (by omega) (by omega)]
    exact hratio
  · rw [pivot_get_i T c r i N (by omega) (by omega) hir]
    by_cases hpos : 0 < T.get i c
    · have h1 := hmin i hi hpos
      have h2 : T.get r N / T.get r c * T.get i c ≤ T.get i N := by
        have := mul_le_mul_of_nonneg_right h1 (le_of_lt hpos)
        rwa [div_mul_cancel₀ _ (ne_of_gt hpos)] at this
      linarith
    · have hle : T.get i c ≤ 0 := not_lt.mp hpos
      have : T.get r N / T.get r c * T.get i c ≤ 0 := mul_nonpos_of_nonneg_of_nonpos hratio hle
      have := hrhs i hi
      linarith

omit [IsStrictOrderedRing K] in
/-- the solution set of the constraint rows is preserved -/
theorem solset_pivot (T T0 : M K) (L N c r : ℕ) (hs : Shape T L N) (hr : r < L)
    (hp : T.get r c ≠ 0) (h : ∀ z, RowsSat T z L ↔ RowsSat T0 z L) :
    ∀ z, RowsSat (pivot T c r) z L ↔ RowsSat T0 z L := by
  obtain ⟨hnr, hnc⟩ := hs
  intro z
  rw [pivot_rowsSat T z c r L (by omega) hr (by omega) hp]
  exact h z

omit [IsStrictOrderedRing K] in
/-- the objective (residual of the criterion row) is preserved on the solution set -/
theorem obj_pivot (T T0 : M K) (L N c r : ℕ) (hs : Shape T L N) (hr : r < L) (hp : T.get r c ≠ 0)
    (h : ∀ z, RowsSat T z L → resid T z L = resid T0 z L) :
    ∀ z, RowsSat (pivot T c r) z L → resid (pivot T c r) z L = resid T0 z L := by
  obtain ⟨hnr, hnc⟩ := hs
  intro z hz
  have hz' : RowsSat T z L := (pivot_rowsSat T z c r L (by omega) hr (by omega) hp).mp hz
  rw [pivot_resid_keep T z c r L (by omega) (by omega) (by omega) (hz' r hr)]
  exact h z hz'

omit [IsStrictOrderedRing K] in
/-- a pivot on a row with right-hand side `0` leaves all right-hand sides unchanged -/
theorem rhs_pivot_zero_row (T : M K) (L N c r : ℕ) (hs : Shape T L N) (hr : r < L)
    (hz : T.get r N = 0) : ∀ i, i < L → (pivot T c r).get i N = T.get i N := by
  obtain ⟨hnr, hnc⟩ := hs
  intro i hi
  by_cases hir : i = r
  · subst hir; rw [pivot_get_r T c i N (by omega) (by omega), hz]; simp
  · rw [pivot_get_i T c r i N (by omega) (by omega) hir, hz]; simp

end QE.C04
