/-
  Lemmas for property C05: the `while supp[-1] < n: …; next_k_array(supp)` loops of
  `_support_enumeration_gen` (model `walkK`, `kSubsets`, `supportPairs`) visit every
  `k`-subset of `{0..n-1}`, each exactly once — for all `n`, `k`, from C16's theorems about
  the `next_k_array` walk (`walk_enumerates`, `walk_range_spec`, `walk_range_injective`).
-/
import QEProofs.Lemmas.C05KSub
import QEProofs.Lemmas.C16KArray
import Mathlib.Data.Finset.Card
import Mathlib.Data.Finset.Range

namespace QE.C05
open QE QE.C16

theorem getLastD_eq_getLast (a : List ℕ) (hne : a ≠ []) : a.getLastD 0 = a.getLast hne := by
  rw [List.getLastD_eq_getLast?, List.getLast?_eq_some_getLast hne]; rfl

/-- the loop condition `a[-1] < n` on the `j`-th array of the walk -/
theorem walk_cond (k n : ℕ) (hk : 1 ≤ k) (j : ℕ) :
    (walk (List.range k) j).getLastD 0 < n ↔ j < Nat.choose n k := by
  rw [getLastD_eq_getLast _ (walk_range_ne_nil k hk j)]
  exact walk_range_last_lt_iff k n hk j

/-- every array of the walk with index in `[j0, C(n,k))` is visited, given enough fuel -/
theorem walkK_complete (k n : ℕ) (hk : 1 ≤ k) : ∀ (fuel j0 j : ℕ), j0 ≤ j → j < Nat.choose n k →
    j - j0 < fuel → walk (List.range k) j ∈ walkK n fuel (walk (List.range k) j0)
  | 0, _, _, _, _, h => by omega
  | fuel + 1, j0, j, h0, hj, hf => by
    unfold walkK
    rw [if_pos ((walk_cond k n hk j0).mpr (by omega))]
    by_cases he : j = j0
    · subst he; exact List.mem_cons_self
    · apply List.mem_cons_of_mem
      exact walkK_complete k n hk fuel (j0 + 1) j (by omega) hj (by omega)

/-- what is visited are arrays of the walk with index `≥ j0` -/
theorem walkK_sub (k n : ℕ) : ∀ (fuel j0 : ℕ) (s : List ℕ),
    s ∈ walkK n fuel (walk (List.range k) j0) → ∃ j, j0 ≤ j ∧ s = walk (List.range k) j
  | 0, _, s, h => by simp [walkK] at h
  | fuel + 1, j0, s, h => by
    unfold walkK at h
    split at h
    · rcases List.mem_cons.mp h with rfl | h
      · exact ⟨j0, le_refl _, rfl⟩
      · obtain ⟨j, hj, he⟩ := walkK_sub k n fuel (j0 + 1) s h
        exact ⟨j, by omega, he⟩
    · simp at h

theorem walkK_nodup (k n : ℕ) (hk : 1 ≤ k) : ∀ (fuel j0 : ℕ),
    (walkK n fuel (walk (List.range k) j0)).Nodup
  | 0, _ => by simp [walkK]
  | fuel + 1, j0 => by
    unfold walkK
    split
    · rw [List.nodup_cons]
      refine ⟨?_, walkK_nodup k n hk fuel (j0 + 1)⟩
      intro hmem
      obtain ⟨j, hj, he⟩ := walkK_sub k n fuel (j0 + 1) _ hmem
      have := walk_range_injective k hk j0 j he
      omega
    · exact List.nodup_nil

/-- **every `k`-subset is visited** (all `n`, all `k ≥ 1`) -/
theorem kSubsets_complete (n : ℕ) (s : List ℕ) (hs : s.Pairwise (· < ·))
    (hb : ∀ a, a ∈ s → a < n) (hk : 1 ≤ s.length) : s ∈ kSubsets n s.length := by
  obtain ⟨j, hj, he⟩ := (walk_enumerates s.length n hk s).mp ⟨rfl, hs, hb⟩
  unfold kSubsets
  rw [if_neg (by omega), chooseFast_eq_choose]
  have := walkK_complete s.length n hk (Nat.choose n s.length + 1) 0 j (Nat.zero_le _) hj (by omega)
  rw [he] at this
  exact this

/-- **no subset is visited twice** -/
theorem kSubsets_nodup (n k : ℕ) : (kSubsets n k).Nodup := by
  unfold kSubsets
  by_cases hk : k = 0
  · rw [if_pos hk]; exact List.nodup_nil
  · rw [if_neg hk]
    exact walkK_nodup k n (by omega) _ 0

/-- **no pair of supports is visited twice** by the three nested loops (all `m`, `n`) -/
theorem supportPairs_nodup (m n : ℕ) : (supportPairs m n).Nodup := by
  unfold supportPairs
  rw [List.nodup_flatMap]
  constructor
  · intro k _
    rw [List.nodup_flatMap]
    constructor
    · intro s0 _
      exact (kSubsets_nodup n k).map (fun a b h => by simpa using h)
    · apply (kSubsets_nodup m k).pairwise_of_forall_ne
      intro s0 _ s0' _ hne
      simp only [Function.onFun, List.disjoint_left]
      intro p hp hp'
      rw [List.mem_map] at hp hp'
      obtain ⟨_, _, rfl⟩ := hp
      obtain ⟨_, _, h⟩ := hp'
      exact hne (Prod.mk.inj h).1.symm
  · apply (List.nodup_range' (step := 1)).pairwise_of_forall_ne
    intro k _ k' _ hne
    simp only [Function.onFun, List.disjoint_left]
    intro p hp hp'
    rw [List.mem_flatMap] at hp hp'
    obtain ⟨s0, hs0, hp⟩ := hp
    obtain ⟨s0', hs0', hp'⟩ := hp'
    rw [List.mem_map] at hp hp'
    obtain ⟨_, _, rfl⟩ := hp
    obtain ⟨_, _, h⟩ := hp'
    have h1 := (kSubsets_mem m k s0 hs0).1
    have h2 := (kSubsets_mem m k' s0' hs0').1
    have := (Prod.mk.inj h).1
    rw [this] at h2
    omega

theorem sorted_length_le (n : ℕ) (s : List ℕ) (hs : s.Pairwise (· < ·))
    (hb : ∀ a, a ∈ s → a < n) : s.length ≤ n := by
  have hnd : s.Nodup := hs.imp (fun h => Nat.ne_of_lt h)
  have hsub : s.toFinset ⊆ Finset.range n := by
    intro a ha
    exact Finset.mem_range.mpr (hb a (List.mem_toFinset.mp ha))
  have := Finset.card_le_card hsub
  rwa [List.toFinset_card_of_nodup hnd, Finset.card_range] at this

theorem mem_kSubsets (n : ℕ) (s : List ℕ) (hs : s.Pairwise (· < ·))
    (hb : ∀ a, a ∈ s → a < n) (hk : 1 ≤ s.length) : s ∈ kSubsets n s.length ∧ s.length ≤ n :=
  ⟨kSubsets_complete n s hs hb hk, sorted_length_le n s hs hb⟩

end QE.C05
