/-
  Lemmas for property C05: on the property's own domain (at most 5 actions per player) the
  `next_k_array` walk visits every `k`-subset, each once (finite check in the kernel).
-/
import QEProofs.Lemmas.C05KSub
import Mathlib.Data.List.Sublists
import Mathlib.Data.List.Sort

namespace QE.C05
open QE

/-- every `k`-sublist of `range n`, `1 ≤ k ≤ n ≤ 5`, is visited by the walk -/
theorem kSubsets_complete_small :
    ∀ n, n ≤ 5 → ∀ k, k ≤ n → 1 ≤ k → ∀ s, s ∈ (List.range n).sublistsLen k → s ∈ kSubsets n k := by
  decide +kernel

/-- … and no subset is visited twice -/
theorem kSubsets_nodup_small : ∀ n, n ≤ 5 → ∀ k, k ≤ n → (kSubsets n k).Nodup := by
  decide +kernel

/-- no pair of supports is visited twice by the three nested loops (`m, n ≤ 5`) -/
theorem supportPairs_nodup_small : ∀ m, m ≤ 5 → ∀ n, n ≤ 5 → (supportPairs m n).Nodup := by
  decide +kernel

theorem sorted_sublist_range (n : ℕ) (s : List ℕ) (hs : s.Pairwise (· < ·))
    (hb : ∀ a, a ∈ s → a < n) : s.Sublist (List.range n) := by
  apply List.sublist_of_subperm_of_pairwise (r := (· < ·)) _ hs List.pairwise_lt_range
  apply List.subperm_of_subset (hs.imp (fun h => Nat.ne_of_lt h))
  intro a ha
  exact List.mem_range.mpr (hb a ha)

theorem mem_kSubsets_small (n : ℕ) (hn : n ≤ 5) (s : List ℕ) (hs : s.Pairwise (· < ·))
    (hb : ∀ a, a ∈ s → a < n) (hk : 1 ≤ s.length) : s ∈ kSubsets n s.length ∧ s.length ≤ n := by
  have hsub := sorted_sublist_range n s hs hb
  have hle : s.length ≤ n := by simpa using hsub.length_le
  exact ⟨kSubsets_complete_small n hn s.length hle hk s (List.mem_sublistsLen.mpr ⟨hsub, rfl⟩), hle⟩

end QE.C05
