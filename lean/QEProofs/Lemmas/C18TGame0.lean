/-
  Lemmas for C18, part 9: player 0's array of the tournament game — the `while a[-1] < d` walk
  over the `k`-subsets of the successor list.
-/
import Mathlib.Data.List.Nodup
import Mathlib.Data.List.Range
import Mathlib.Logic.Function.Iterate
import Mathlib.Tactic.Ring
import QEModel.C18
import QEProofs.Lemmas.C18TGame
import QEProofs.Lemmas.C18NextK
namespace QE.C18
open QE.C16

/-- the `j`-th array of the walk from `(0, …, k-1)` -/
def walk (k j : Nat) : List Nat := nextKArray^[j] (List.range k)

theorem walk_succ (k j : Nat) : walk k (j + 1) = nextKArray (walk k j) := by
  unfold walk; rw [Function.iterate_succ_apply']

/-- `X[j] = indices[indptr[i] + a[j]]` -/
def pick (succ a : List Nat) : List Nat := a.map fun t => succ.getD t 0

/-- the last entry of the `j`-th array is below `d` exactly for the first `C(d,k)` arrays -/
theorem walk_last_lt_iff (k : Nat) (hk : 1 ≤ k) (d j : Nat) :
    (walk k j).getD ((walk k j).length - 1) 0 < d ↔ j < Nat.choose d k := by
  obtain ⟨h1, h2, h3⟩ := walk_spec k hk j
  have hb := kArrayRank_bounds (walk k j) (by unfold walk; omega) h2
  unfold walk at hb ⊢
  rw [h3, h1] at hb
  constructor
  · intro h
    have := Nat.choose_le_choose k (show (nextKArray^[j] (List.range k)).getD ((nextKArray^[j] (List.range k)).length - 1) 0 + 1 ≤ d from h)
    rw [h1] at this h
    omega
  · intro h
    by_contra hc
    have := Nat.choose_le_choose k (show d ≤ (nextKArray^[j] (List.range k)).getD ((nextKArray^[j] (List.range k)).length - 1) 0 from by omega)
    rw [h1] at this
    omega

/-- the loop, unrolled: started at the `j`-th array with `t` more arrays below `d` to come, it marks
    the ranks of the picked subsets of those `t` arrays and stops -/
theorem tg0Loop_run (d : Nat) (succ : List Nat) (k : Nat) : ∀ (t j fuel : Nat) (row : List Nat),
    (∀ j', j ≤ j' → j' < j + t → (walk k j').getD ((walk k j').length - 1) 0 < d) →
    ¬ (walk k (j + t)).getD ((walk k (j + t)).length - 1) 0 < d → t + 1 ≤ fuel →
    tg0Loop d succ fuel (walk k j) row
      = markRow row ((List.range' j t).map fun j' => kArrayRank (pick succ (walk k j')))
  | 0, j, fuel, row, _, hstop, hf => by
    obtain ⟨fuel, rfl⟩ : ∃ f, fuel = f + 1 := ⟨fuel - 1, by omega⟩
    unfold tg0Loop
    rw [if_neg (by simpa using hstop)]
    simp [markRow]
  | t + 1, j, fuel, row, hlt, hstop, hf => by
    obtain ⟨fuel, rfl⟩ : ∃ f, fuel = f + 1 := ⟨fuel - 1, by omega⟩
    unfold tg0Loop
    rw [if_pos (hlt j (le_refl _) (by omega))]
    simp only
    rw [← walk_succ, tg0Loop_run d succ k t (j + 1) fuel _
      (fun j' h1 h2 => hlt j' (by omega) (by omega))
      (by rw [show j + 1 + t = j + (t + 1) from by omega]; exact hstop) (by omega)]
    simp [markRow, pick, List.range'_succ]

/-- row `i` of player 0's array in closed form -/
theorem tg0Row_eq (m k : Nat) (hk : 1 ≤ k) (succ : List Nat) (hm : Nat.choose succ.length k ≤ m) :
    tg0Row (α := Nat) m k succ
      = if succ.length ≥ k then
          markRow (List.replicate m 0)
            ((List.range (Nat.choose succ.length k)).map fun j => kArrayRank (pick succ (walk k j)))
        else List.replicate m 0 := by
  unfold tg0Row
  simp only
  split
  · have := tg0Loop_run succ.length succ k (Nat.choose succ.length k) 0 (m + 1) (List.replicate m 0)
      (fun j' _ h2 => (walk_last_lt_iff k hk succ.length j').2 (by omega))
      (by rw [walk_last_lt_iff k hk]; omega) (by omega)
    rw [show walk k 0 = List.range k from rfl] at this
    rw [this, List.range_eq_range']
  · rfl

/-! ### increasing arrays -/

theorem incr_lt (a : List Nat) (ha : Incr a) : ∀ d i, i + (d + 1) < a.length →
    a.getD i 0 < a.getD (i + (d + 1)) 0
  | 0, i, h => ha i h
  | d + 1, i, h => by
    have h1 := incr_lt a ha d i (by omega)
    have h2 := ha (i + (d + 1)) (by omega)
    rw [show i + (d + 1 + 1) = i + (d + 1) + 1 from by ring]
    omega

theorem incr_lt' (a : List Nat) (ha : Incr a) (i j : Nat) (hij : i < j) (hj : j < a.length) :
    a.getD i 0 < a.getD j 0 := by
  have := incr_lt a ha (j - i - 1) i (by omega)
  rwa [show i + (j - i - 1 + 1) = j from by omega] at this

theorem incr_ge_index (a : List Nat) (ha : Incr a) : ∀ j, j < a.length → j ≤ a.getD j 0
  | 0, _ => Nat.zero_le _
  | j + 1, h => by
    have := incr_ge_index a ha j (by omega)
    have := ha j h
    omega

theorem incr_length_le (a : List Nat) (ha : Incr a) (n : Nat) (hlt : ∀ x ∈ a, x < n) : a.length ≤ n := by
  by_contra hc
  have hpos : a.length - 1 < a.length := by omega
  have h1 := incr_ge_index a ha (a.length - 1) hpos
  have h2 : a.getD (a.length - 1) 0 < n := by
    apply hlt; rw [List.getD_eq_getElem?_getD]; simp [hpos]
  omega

theorem mem_iff_getD (l : List Nat) (x : Nat) : x ∈ l ↔ ∃ j, j < l.length ∧ l.getD j 0 = x := by
  rw [List.mem_iff_getElem]
  constructor
  · rintro ⟨j, hj, rfl⟩; exact ⟨j, hj, by rw [List.getD_eq_getElem?_getD]; simp [hj]⟩
  · rintro ⟨j, hj, rfl⟩; exact ⟨j, hj, by rw [List.getD_eq_getElem?_getD]; simp [hj]⟩

theorem incr_all_lt (a : List Nat) (ha : Incr a) (d : Nat) (hk : 1 ≤ a.length)
    (hlast : a.getD (a.length - 1) 0 < d) : ∀ j, j < a.length → a.getD j 0 < d := by
  intro j hj
  have := incr_le_last a ha (a.length - 1 - j) j (by omega)
  rw [show j + (a.length - 1 - j) = a.length - 1 from by omega] at this
  omega

theorem incr_of_pairwise (l : List Nat) (h : l.Pairwise (· < ·)) : Incr l := by
  intro j hj
  have := (List.pairwise_iff_getElem.1 h) j (j + 1) (by omega) hj (by omega)
  rw [List.getD_eq_getElem?_getD, List.getD_eq_getElem?_getD]
  simpa [show j < l.length by omega, hj] using this

theorem rank_lt_choose (S : List Nat) (n : Nat) (hk : 1 ≤ S.length) (hinc : Incr S)
    (hlt : ∀ x ∈ S, x < n) : kArrayRank S < Nat.choose n S.length := by
  have hlast : S.getD (S.length - 1) 0 < n := by
    apply hlt
    rw [List.getD_eq_getElem?_getD]
    have : S.length - 1 < S.length := by omega
    simp [this]
  have hb := kArrayRank_bounds S hk hinc
  have := Nat.choose_le_choose S.length (show S.getD (S.length - 1) 0 + 1 ≤ n from hlast)
  omega

/-! ### picking successors -/

theorem pick_length (succ a : List Nat) : (pick succ a).length = a.length := by simp [pick]

theorem pick_getD (succ a : List Nat) (j : Nat) (hj : j < a.length) :
    (pick succ a).getD j 0 = succ.getD (a.getD j 0) 0 := by
  simp [pick, List.getD_eq_getElem?_getD, hj]

/-- picking at increasing positions `< d` of an increasing list gives an increasing list of its members -/
theorem pick_incr (succ a : List Nat) (hs : Incr succ) (ha : Incr a)
    (hlt : ∀ j, j < a.length → a.getD j 0 < succ.length) :
    Incr (pick succ a) ∧ ∀ x ∈ pick succ a, x ∈ succ := by
  constructor
  · intro j hj
    rw [pick_length] at hj
    rw [pick_getD _ _ _ (by omega), pick_getD _ _ _ hj]
    exact incr_lt' succ hs _ _ (ha j hj) (hlt (j + 1) hj)
  · intro x hx
    obtain ⟨j, hj, rfl⟩ := (mem_iff_getD _ _).1 hx
    rw [pick_length] at hj
    rw [pick_getD _ _ _ hj]
    exact (mem_iff_getD _ _).2 ⟨_, hlt j hj, rfl⟩

theorem getD_idxOf (l : List Nat) (x : Nat) (h : x ∈ l) : l.getD (l.idxOf x) 0 = x := by
  have hl := List.idxOf_lt_length_of_mem h
  rw [List.getD_eq_getElem?_getD, List.getElem?_eq_getElem hl]
  simp [List.getElem_idxOf]

/-- conversely every increasing list of members of `succ` is picked at increasing positions -/
theorem exists_positions (succ S : List Nat) (hs : Incr succ) (hS : Incr S) (hmem : ∀ x ∈ S, x ∈ succ) :
    ∃ b, b.length = S.length ∧ Incr b ∧ (∀ j, j < b.length → b.getD j 0 < succ.length) ∧ pick succ b = S := by
  refine ⟨S.map fun x => succ.idxOf x, by simp, ?_, ?_, ?_⟩
  · intro j hj
    simp only [List.length_map] at hj
    have hj0 : j < S.length := by omega
    have e1 : (S.map fun x => succ.idxOf x).getD j 0 = succ.idxOf (S.getD j 0) := by
      simp [List.getD_eq_getElem?_getD, hj0]
    have e2 : (S.map fun x => succ.idxOf x).getD (j + 1) 0 = succ.idxOf (S.getD (j + 1) 0) := by
      simp [List.getD_eq_getElem?_getD, hj]
    rw [e1, e2]
    have m1 : S.getD j 0 ∈ succ := hmem _ ((mem_iff_getD _ _).2 ⟨j, hj0, rfl⟩)
    have m2 : S.getD (j + 1) 0 ∈ succ := hmem _ ((mem_iff_getD _ _).2 ⟨j + 1, hj, rfl⟩)
    have l1 := List.idxOf_lt_length_of_mem m1
    have l2 := List.idxOf_lt_length_of_mem m2
    have g1 : succ.getD (succ.idxOf (S.getD j 0)) 0 = S.getD j 0 := getD_idxOf _ _ m1
    have g2 : succ.getD (succ.idxOf (S.getD (j + 1) 0)) 0 = S.getD (j + 1) 0 := getD_idxOf _ _ m2
    have hlt := hS j hj
    by_contra hc
    rcases Nat.lt_or_eq_of_le (not_lt.1 hc) with h | h
    · have := incr_lt' succ hs _ _ h l1
      rw [g1, g2] at this; omega
    · rw [h] at g2; rw [g2] at g1; omega
  · intro j hj
    simp only [List.length_map] at hj
    have e1 : (S.map fun x => succ.idxOf x).getD j 0 = succ.idxOf (S.getD j 0) := by
      simp [List.getD_eq_getElem?_getD, hj]
    rw [e1]
    exact List.idxOf_lt_length_of_mem (hmem _ ((mem_iff_getD _ _).2 ⟨j, hj, rfl⟩))
  · unfold pick
    rw [List.map_map]
    conv_rhs => rw [← List.map_id S]
    apply List.map_congr_left
    intro x hx
    simpa using getD_idxOf succ x (hmem x hx)

end QE.C18
