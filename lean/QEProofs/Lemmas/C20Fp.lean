/-
  Lemmas for C20, part 3: the belief update `scaleAdd` over a linearly ordered commutative ring.
-/
import Mathlib.Algebra.Order.Ring.Defs
import Mathlib.Tactic.Ring
import Mathlib.Tactic.Linarith
import QEModel.C20
namespace QE.C20

section ring
variable {K : Type} [CommRing K]

theorem sum_map_mul (x : List K) (c : K) : (x.map (fun v => v * c)).sum = x.sum * c := by
  induction x with
  | nil => simp
  | cons a l ih => simp [ih, add_mul]

theorem sum_setK (d : List K) (i : Nat) (v : K) (hi : i < d.length) :
    (d.set i v).sum = d.sum - d.getD i 0 + v := by
  induction d generalizing i with
  | nil => simp at hi
  | cons x xs ih =>
    cases i with
    | zero => simp [List.set]; ring
    | succ i =>
      have := ih i (by simpa using hi)
      simp [List.set, this]; ring

theorem scaleAdd_length (x : List K) (γ : K) (b : Nat) : (scaleAdd x γ b).length = x.length := by
  simp [scaleAdd]

/-- entrywise: `new[j] = (1-γ)·x[j] + γ·[j = b]` -/
theorem scaleAdd_getD (x : List K) (γ : K) (b j : Nat) (hb : b < x.length) :
    (scaleAdd x γ b).getD j 0 = x.getD j 0 * (1 - γ) + (if j = b then γ else 0) := by
  unfold scaleAdd
  have hmap : ∀ k, (x.map (fun v => v * (1 - γ))).getD k 0 = x.getD k 0 * (1 - γ) := by
    intro k
    simp only [List.getD_eq_getElem?_getD, List.getElem?_map]
    cases x[k]? <;> simp
  by_cases hjb : j = b
  · subst hjb
    simp only [List.getD_eq_getElem?_getD, List.getElem?_set, List.length_map, hb, if_true]
    simp only [← List.getD_eq_getElem?_getD, hmap]
    simp
  · have : b ≠ j := fun h => hjb h.symm
    simp only [List.getD_eq_getElem?_getD, List.getElem?_set, this, if_false]
    simp only [← List.getD_eq_getElem?_getD, hmap, hjb, if_false, add_zero]

theorem scaleAdd_sum (x : List K) (γ : K) (b : Nat) (hb : b < x.length) :
    (scaleAdd x γ b).sum = x.sum * (1 - γ) + γ := by
  unfold scaleAdd
  rw [sum_setK _ _ _ (by simpa using hb), sum_map_mul]; ring

end ring

section ordered
variable {K : Type} [CommRing K] [LinearOrder K] [IsStrictOrderedRing K]

/-- a probability vector: non-negative entries summing to one -/
def IsProb (x : List K) : Prop := (∀ j, j < x.length → 0 ≤ x.getD j 0) ∧ x.sum = 1

/-- the belief update keeps a probability vector a probability vector, for every step size in [0,1]
    and every in-range target action -/
theorem scaleAdd_prob (x : List K) (γ : K) (b : Nat) (hb : b < x.length) (h0 : 0 ≤ γ) (h1 : γ ≤ 1)
    (hx : IsProb x) : IsProb (scaleAdd x γ b) := by
  obtain ⟨hnn, hs⟩ := hx
  refine ⟨?_, ?_⟩
  · intro j hj
    rw [scaleAdd_length] at hj
    rw [scaleAdd_getD x γ b j hb]
    have h2 : 0 ≤ x.getD j 0 * (1 - γ) := mul_nonneg (hnn j hj) (by linarith)
    split <;> linarith
  · rw [scaleAdd_sum x γ b hb, hs]; ring

end ordered
end QE.C20
