/-
  Lemmas for C10, part 5: `MarkovChain.cdfs1d` (markov/core.py 426-437).  For a canonical CSR
  structure the per-row assignments tile the whole array, so the slice the sparse kernel
  searches is exactly the cumulative sum of that row's stored masses.
-/
import Mathlib.Order.Defs.LinearOrder
import QEModel.C10
import QEProofs.Lemmas.C10Search
import QEProofs.Lemmas.C10Cdf
import QEProofs.Lemmas.C10Path
namespace QE.C10
variable {α : Type}

/-- row `i` of `cdfs1d`: `data[indptr[i]:indptr[i+1]].cumsum()` -/
def rowCum [Add α] (data : List α) (indptr : List Nat) (i : Nat) : List α :=
  cumsum (slice data (indptr.getD i 0) (indptr.getD (i + 1) 0))

theorem cdfs1d_eq [Add α] (data : List α) (indptr : List Nat) (n : Nat) :
    cdfs1d data indptr n = (List.range n).flatMap (rowCum data indptr) := rfl

/-- the CSR structure `scipy.sparse.csr_matrix` maintains for an `n × n` matrix, plus "every row
    stores at least one entry" (implied by the constructor's row-sum test) -/
structure CsrCanon (n : Nat) (data : List α) (indices indptr : List Nat) : Prop where
  len : indptr.length = n + 1
  start : indptr.getD 0 0 = 0
  mono : ∀ s, s < n → indptr.getD s 0 < indptr.getD (s + 1) 0
  total : indptr.getD n 0 = data.length
  ilen : indices.length = data.length
  cols : ∀ j ∈ indices, j < n

theorem CsrCanon.le {n : Nat} {data : List α} {indices indptr : List Nat}
    (h : CsrCanon n data indices indptr) :
    ∀ b, b ≤ n → ∀ a, a ≤ b → indptr.getD a 0 ≤ indptr.getD b 0 := by
  intro b
  induction b with
  | zero => intro _ a ha; have : a = 0 := by omega
            subst this; exact Nat.le_refl _
  | succ b ih =>
    intro hb a ha
    by_cases hab : a = b + 1
    · subst hab; exact Nat.le_refl _
    · have h1 := ih (by omega) a (by omega)
      have h2 := h.mono b (by omega)
      omega

theorem rowCum_length [Add α] {n : Nat} {data : List α} {indices indptr : List Nat}
    (h : CsrCanon n data indices indptr) (s : Nat) (hs : s < n) :
    (rowCum data indptr s).length = indptr.getD (s + 1) 0 - indptr.getD s 0 := by
  unfold rowCum
  rw [cumsum_length, slice_length]
  have := h.le n (Nat.le_refl _) (s + 1) (by omega)
  rw [h.total] at this; exact this

theorem prefix_length [Add α] {n : Nat} {data : List α} {indices indptr : List Nat}
    (h : CsrCanon n data indices indptr) :
    ∀ m, m ≤ n → ((List.range m).flatMap (rowCum data indptr)).length = indptr.getD m 0 := by
  intro m
  induction m with
  | zero => intro _; rw [h.start]; rfl
  | succ m ih =>
    intro hm
    rw [List.range_succ, List.flatMap_append, List.length_append, ih (by omega)]
    simp only [List.flatMap_cons, List.flatMap_nil, List.append_nil]
    rw [rowCum_length h m (by omega)]
    have := h.mono m (by omega)
    omega

/-- **`cdfs1d` tiles.** The slice of `cdfs1d` belonging to row `s` is the cumulative sum of the
    row's stored masses. -/
theorem cdfs1d_slice [Add α] {n : Nat} {data : List α} {indices indptr : List Nat}
    (h : CsrCanon n data indices indptr) (s : Nat) (hs : s < n) :
    slice (cdfs1d data indptr n) (indptr.getD s 0) (indptr.getD (s + 1) 0) = rowCum data indptr s := by
  rw [cdfs1d_eq]
  have hn : n = (s + 1) + (n - (s + 1)) := by omega
  rw [hn, List.range_add, List.flatMap_append, List.range_succ, List.flatMap_append]
  simp only [List.flatMap_cons, List.flatMap_nil, List.append_nil]
  unfold slice
  rw [List.append_assoc, List.drop_left' (prefix_length h s (by omega))]
  exact List.take_left' (rowCum_length h s hs)

theorem cdfs1d_length [Add α] {n : Nat} {data : List α} {indices indptr : List Nat}
    (h : CsrCanon n data indices indptr) : (cdfs1d data indptr n).length = data.length := by
  rw [cdfs1d_eq, prefix_length h n (Nat.le_refl _), h.total]

/-- a canonical CSR matrix gives the kernel arrays it can walk without leaving them -/
theorem CsrCanon.csrOK [Add α] {n : Nat} {data : List α} {indices indptr : List Nat}
    (h : CsrCanon n data indices indptr) : CsrOK n (cdfs1d data indptr n) indices indptr := by
  refine ⟨?_, h.cols⟩
  intro s hs
  have h1 : indptr[s]? = some (indptr.getD s 0) := by
    rw [List.getD_eq_getElem?_getD, List.getElem?_eq_getElem (by rw [h.len]; omega)]; rfl
  have h2 : indptr[s + 1]? = some (indptr.getD (s + 1) 0) := by
    rw [List.getD_eq_getElem?_getD, List.getElem?_eq_getElem (by rw [h.len]; omega)]; rfl
  have hle := h.le n (Nat.le_refl _) (s + 1) (by omega)
  rw [h.total] at hle
  exact ⟨_, _, h1, h2, h.mono s hs, by rw [cdfs1d_length h]; exact hle, by rw [h.ilen]; exact hle⟩

theorem slice_getElem (x : List α) (lo hi k : Nat) (hk : k < (slice x lo hi).length)
    (hx : lo + k < x.length) : (slice x lo hi)[k] = x[lo + k] := by
  have : (slice x lo hi)[k]? = x[lo + k]? := by
    unfold slice
    have hk' : k < hi - lo := by
      unfold slice at hk; simp only [List.length_take] at hk; omega
    rw [List.getElem?_take_of_lt hk', List.getElem?_drop]
  rw [List.getElem?_eq_getElem hk, List.getElem?_eq_getElem hx] at this
  exact Option.some.inj this

/-- **CSR step: stored entry with positive mass.**  From state `s`, for any `u ≥ 0`, the sparse
    kernel moves to the column of a stored entry of row `s` whose mass is positive. -/
theorem sparseStep_mass_pos [LinearOrder α] [Add α] [Zero α] (hadd0 : ∀ x : α, x + 0 = x)
    {n : Nat} {data : List α} {indices indptr : List Nat} (h : CsrCanon n data indices indptr)
    (hnn : ∀ x ∈ data, (0 : α) ≤ x)
    (htot : ∀ s, s < n → ∀ hc : rowCum data indptr s ≠ [], 0 < (rowCum data indptr s).getLast hc)
    (s : Nat) (hs : s < n) (u : α) (hu : 0 ≤ u) :
    ∃ k, ∃ (_ : indptr.getD s 0 + k < indptr.getD (s + 1) 0)
      (hd : indptr.getD s 0 + k < data.length) (hi : indptr.getD s 0 + k < indices.length),
      k = searchsortedCdf (cumsum (slice data (indptr.getD s 0) (indptr.getD (s + 1) 0))) u ∧
      sparseStep (cdfs1d data indptr n) indices indptr s u = some indices[indptr.getD s 0 + k] ∧
      0 < data[indptr.getD s 0 + k] := by
  have h1 : indptr[s]? = some (indptr.getD s 0) := by
    rw [List.getD_eq_getElem?_getD, List.getElem?_eq_getElem (by rw [h.len]; omega)]; rfl
  have h2 : indptr[s + 1]? = some (indptr.getD (s + 1) 0) := by
    rw [List.getD_eq_getElem?_getD, List.getElem?_eq_getElem (by rw [h.len]; omega)]; rfl
  have hle := h.le n (Nat.le_refl _) (s + 1) (by omega)
  rw [h.total] at hle
  have hmono := h.mono s hs
  generalize hlo : indptr.getD s 0 = lo at *
  generalize hhi : indptr.getD (s + 1) 0 = hi at *
  have hpl : (slice data lo hi).length = hi - lo := slice_length data lo hi hle
  have hpne : slice data lo hi ≠ [] := by
    intro h0; rw [h0] at hpl; simp at hpl; omega
  have hmem : ∀ x ∈ slice data lo hi, (0 : α) ≤ x := by
    intro x hx
    unfold slice at hx
    exact hnn x (List.mem_of_mem_drop (List.mem_of_mem_take hx))
  have hrc : rowCum data indptr s = cumsum (slice data lo hi) := by
    unfold rowCum; rw [hlo, hhi]
  obtain ⟨hklt, hkpos⟩ := searchsortedCdf_mass_pos hadd0 (slice data lo hi) u hmem hu
    (fun hc => by have := htot s hs (by rw [hrc]; exact hc); simpa [hrc] using this) hpne
  have hsl := cdfs1d_slice h s hs
  rw [hlo, hhi, hrc] at hsl
  refine ⟨searchsortedCdf (cumsum (slice data lo hi)) u, by omega, by omega, by rw [h.ilen]; omega, rfl, ?_, ?_⟩
  · unfold sparseStep
    rw [h1, h2]
    simp only [hsl]
    have : (cumsum (slice data lo hi)).isEmpty = false := by
      have := cumsum_ne_nil hpne
      cases hcs : cumsum (slice data lo hi) with
      | nil => exact absurd hcs this
      | cons _ _ => rfl
    simp only [this, Bool.false_eq_true, if_false]
    exact List.getElem?_eq_getElem _
  · rw [slice_getElem data lo hi _ hklt (by omega)] at hkpos
    exact hkpos

end QE.C10
