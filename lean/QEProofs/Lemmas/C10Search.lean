/-
  Lemmas for C10, part 1: the binary search `searchsorted` (util/array.py 54-62), the
  back-off loop of `searchsorted_cdf` (90-95) and NumPy's `searchsorted` as used by
  `DiscreteRV.draw`.  The range facts need nothing but a decidable `<` and a `==`
  (so they are literally true of the `Float` instance the driver runs, NaN included);
  the characterisations are over an arbitrary linear order.
-/
import Mathlib.Order.Defs.LinearOrder
import QEModel.C10
namespace QE.C10
variable {α : Type}

/-! ### range of the binary search: no assumption on the array or the order -/

theorem ssLoop_bounds [LT α] [DecidableLT α] (a : List α) (v : α) :
    ∀ (d lo1 hi : Nat), hi - lo1 = d → lo1 ≤ hi →
      lo1 ≤ ssLoop a v lo1 hi ∧ ssLoop a v lo1 hi ≤ hi := by
  intro d
  induction d using Nat.strongRecOn with
  | _ d ih =>
    intro lo1 hi hd hle
    rw [ssLoop]
    split
    · rename_i h
      simp only []
      split
      · split
        · have := ih (((lo1 + hi - 1) / 2) - lo1) (by omega) lo1 ((lo1 + hi - 1) / 2) rfl (by omega)
          omega
        · have := ih (hi - ((lo1 + hi - 1) / 2 + 1)) (by omega) ((lo1 + hi - 1) / 2 + 1) hi rfl (by omega)
          omega
      · omega
    · omega

theorem searchsorted_le [LT α] [DecidableLT α] (a : List α) (v : α) :
    searchsorted a v ≤ a.length :=
  (ssLoop_bounds a v _ 0 a.length rfl (Nat.zero_le _)).2

/-- **Local characterisation, valid for every array (sorted or not).**  The loop keeps
    "`a[lo] ≤ v` or `lo = -1`" and "`v < a[hi]` or `hi = len a`"; at exit `lo + 1 = hi`. -/
theorem ssLoop_local [LT α] [DecidableLT α] (a : List α) (v : α) :
    ∀ (d lo1 hi : Nat), hi - lo1 = d → lo1 ≤ hi → hi ≤ a.length →
      (lo1 = 0 ∨ ∃ x, a[lo1 - 1]? = some x ∧ ¬ v < x) →
      (hi = a.length ∨ ∃ x, a[hi]? = some x ∧ v < x) →
      (ssLoop a v lo1 hi = 0 ∨ ∃ x, a[ssLoop a v lo1 hi - 1]? = some x ∧ ¬ v < x) ∧
      (ssLoop a v lo1 hi = a.length ∨ ∃ x, a[ssLoop a v lo1 hi]? = some x ∧ v < x) := by
  intro d
  induction d using Nat.strongRecOn with
  | _ d ih =>
    intro lo1 hi hd hle hlen hlo hhi
    rw [ssLoop]
    split
    · rename_i h
      simp only []
      have hm : (lo1 + hi - 1) / 2 < a.length := by omega
      split
      · rename_i x hx
        split
        · rename_i hv
          exact ih (((lo1 + hi - 1) / 2) - lo1) (by omega) lo1 ((lo1 + hi - 1) / 2) rfl (by omega)
            (by omega) hlo (Or.inr ⟨x, hx, hv⟩)
        · rename_i hv
          exact ih (hi - ((lo1 + hi - 1) / 2 + 1)) (by omega) ((lo1 + hi - 1) / 2 + 1) hi rfl
            (by omega) hlen (Or.inr ⟨x, by simpa using hx, hv⟩) hhi
      · rename_i hnone
        rw [List.getElem?_eq_none_iff] at hnone
        omega
    · have : lo1 = hi := by omega
      subst this
      exact ⟨hlo, hhi⟩

/-- `searchsorted a v = i`: `i = 0` or `a[i-1] ≤ v` (as `¬ v < a[i-1]`), and `i = len a`
    or `v < a[i]` — for every array. -/
theorem searchsorted_local [LT α] [DecidableLT α] (a : List α) (v : α) :
    (searchsorted a v = 0 ∨ ∃ x, a[searchsorted a v - 1]? = some x ∧ ¬ v < x) ∧
    (searchsorted a v = a.length ∨ ∃ x, a[searchsorted a v]? = some x ∧ v < x) :=
  ssLoop_local a v _ 0 a.length rfl (Nat.zero_le _) (Nat.le_refl _) (Or.inl rfl) (Or.inl rfl)

/-! ### the back-off loop -/

theorem backoff_le [BEq α] (cdf : List α) : ∀ i, backoff cdf i ≤ i
  | 0 => Nat.le_refl _
  | i + 1 => by
    rw [backoff]
    split
    · exact Nat.le_succ_of_le (backoff_le cdf i)
    · exact Nat.le_refl _

/-- the loop stops at `0` or at an index whose predecessor compares different (`==` false) -/
theorem backoff_stop [BEq α] (cdf : List α) :
    ∀ i, backoff cdf i = 0 ∨ (cdf[backoff cdf i - 1]? == cdf[backoff cdf i]?) = false
  | 0 => Or.inl rfl
  | i + 1 => by
    rw [backoff]
    split
    · exact backoff_stop cdf i
    · rename_i h
      right
      simpa using h

/-- all entries passed over are equal to the entry the loop started from -/
theorem backoff_eq [BEq α] [LawfulBEq α] (cdf : List α) :
    ∀ i j, backoff cdf i ≤ j → j ≤ i → cdf[j]? = cdf[i]?
  | 0, j, _, h2 => by
    have : j = 0 := by omega
    rw [this]
  | i + 1, j, h1, h2 => by
    rw [backoff] at h1
    split at h1
    · rename_i h
      by_cases hj : j = i + 1
      · rw [hj]
      · rw [backoff_eq cdf i j h1 (by omega)]
        exact eq_of_beq h
    · have : j = i + 1 := by omega
      rw [this]

/-! ### `searchsorted_cdf` never leaves the array -/

/-- **Range.** For a nonempty array `searchsorted_cdf` returns a valid index — for *every*
    value `v` (no assumption that `v < 1`, that the array is sorted, or on the order at all). -/
theorem searchsortedCdf_lt [LT α] [DecidableLT α] [BEq α] (cdf : List α) (v : α) (h : cdf ≠ []) :
    searchsortedCdf cdf v < cdf.length := by
  have hpos : 0 < cdf.length := List.length_pos_iff.mpr h
  unfold searchsortedCdf
  simp only []
  split
  · have := backoff_le cdf (cdf.length - 1)
    omega
  · have := searchsorted_le cdf v
    omega

theorem searchsortedCdf_of_lt [LT α] [DecidableLT α] [BEq α] (cdf : List α) (v : α)
    (h : searchsorted cdf v ≠ cdf.length) : searchsortedCdf cdf v = searchsorted cdf v := by
  unfold searchsortedCdf; simp [h]

theorem searchsortedCdf_of_eq [LT α] [DecidableLT α] [BEq α] (cdf : List α) (v : α)
    (h : searchsorted cdf v = cdf.length) :
    searchsortedCdf cdf v = backoff cdf (cdf.length - 1) := by
  unfold searchsortedCdf; simp [h]

/-! ### sorted arrays over a linear order -/

/-- the specification of a right-bisection point -/
def IsBisect [LT α] [LE α] (a : List α) (v : α) (r : Nat) : Prop :=
  r ≤ a.length ∧ (∀ i (h : i < a.length), i < r → a[i] ≤ v) ∧ (∀ i (h : i < a.length), r ≤ i → v < a[i])

theorem IsBisect.unique [LinearOrder α] {a : List α} {v : α} {r s : Nat}
    (hr : IsBisect a v r) (hs : IsBisect a v s) : r = s := by
  rcases Nat.lt_trichotomy r s with h | h | h
  · have h1 := hs.2.1 r (by have := hs.1; omega) h
    have h2 := hr.2.2 r (by have := hs.1; omega) (Nat.le_refl _)
    exact absurd h2 (not_lt.mpr h1)
  · exact h
  · have h1 := hr.2.1 s (by have := hr.1; omega) h
    have h2 := hs.2.2 s (by have := hr.1; omega) (Nat.le_refl _)
    exact absurd h2 (not_lt.mpr h1)

/-- **searchsorted, full specification** on a sorted array over any linear order (hence exact
    on doubles): everything before the result is `≤ v`, everything from it on is `> v`. -/
theorem searchsorted_isBisect [LinearOrder α] (a : List α) (v : α) (hs : a.Pairwise (· ≤ ·)) :
    IsBisect a v (searchsorted a v) := by
  have hp := List.pairwise_iff_getElem.mp hs
  obtain ⟨h1, h2⟩ := searchsorted_local a v
  refine ⟨searchsorted_le a v, ?_, ?_⟩
  · intro i hi hir
    rcases h1 with h0 | ⟨x, hx, hvx⟩
    · omega
    · obtain ⟨hb, rfl⟩ := List.getElem?_eq_some_iff.mp hx
      have hxv : a[searchsorted a v - 1] ≤ v := not_lt.mp hvx
      by_cases hi' : i = searchsorted a v - 1
      · subst hi'; exact hxv
      · exact le_trans (hp i (searchsorted a v - 1) hi hb (by omega)) hxv
  · intro i hi hri
    rcases h2 with h0 | ⟨x, hx, hvx⟩
    · omega
    · obtain ⟨hb, rfl⟩ := List.getElem?_eq_some_iff.mp hx
      by_cases hi' : i = searchsorted a v
      · subst hi'; exact hvx
      · exact lt_of_lt_of_le hvx (hp (searchsorted a v) i hb hi (by omega))

end QE.C10
