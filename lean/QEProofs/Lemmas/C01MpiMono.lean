/-
  Lemmas for C01, part 13: modified policy iteration started from a sub-solution `v ≤ T v`
  (Puterman 6.5): the iterates increase, stay sub-solutions, stay below the optimal value, the
  error contracts by β per outer iteration, and the span test eventually passes.
-/
import QEProofs.Lemmas.C01Term

set_option linter.unusedSectionVars false

namespace QE.C01
open List

variable {K : Type} [Field K] [LinearOrder K] [IsStrictOrderedRing K]

/-- one outer iteration of `modified_policy_iteration` that does not stop:
    `k` sweeps of `T_σ` (σ the `v`-greedy policy) applied to `T v` -/
def mpiStep (P : Prob K) (β : K) (k : ℕ) (v : List K) : List K :=
  (opIter (tSigma P β (greedy P β v)) .noTest k (bellman P β v) 0).1

theorem mpiStep_eq (P : Prob K) (β : K) (k : ℕ) (v : List K) :
    mpiStep P β k v = (tSigma P β (greedy P β v))^[k] (bellman P β v) := opIter_noTest _ _ _ _

theorem LeAdd.trans0 {u v w : List K} (h1 : LeAdd 0 u v) (h2 : LeAdd 0 v w) : LeAdd 0 u w := by
  have := h1.trans h2; rwa [zero_add] at this

/-- iterating a monotone operator from a sub-solution gives an increasing chain -/
theorem iterate_chain (S : List K → List K) (hmono : ∀ a b, LeAdd 0 a b → LeAdd 0 (S a) (S b))
    {x : List K} (hx : LeAdd 0 x (S x)) :
    ∀ k : ℕ, LeAdd 0 (S^[k] x) (S^[k + 1] x) ∧ LeAdd 0 x (S^[k] x) := by
  intro k
  induction k with
  | zero => exact ⟨by simpa using hx, by simpa using leAdd_refl x⟩
  | succ k ih =>
    refine ⟨?_, ih.2.trans0 ih.1⟩
    have h1 := ih.1
    rw [Function.iterate_succ_apply' S k x] at h1
    rw [Function.iterate_succ_apply' S (k + 1) x, Function.iterate_succ_apply' S k x]
    exact hmono _ _ h1

/-- **one outer iteration from a sub-solution** `v ≤ T v`: with `v' = mpiStep v`,
    `T v ≤ v'`, `v ≤ v'`, and `v' ≤ T v'` again. -/
theorem mpiStep_mono {P : Prob K} (hP : WF P) {β : K} (hβ0 : 0 ≤ β) (k : ℕ) {v : List K}
    (hv : LeAdd 0 v (bellman P β v)) :
    LeAdd 0 (bellman P β v) (mpiStep P β k v) ∧ LeAdd 0 v (mpiStep P β k v) ∧
    LeAdd 0 (mpiStep P β k v) (bellman P β (mpiStep P β k v)) := by
  have hs : ∀ acts ∈ P, ∀ x ∈ acts, SubStoch x := fun a ha x hx => (hP.stoch a ha x hx).sub
  set σ := greedy P β v with hσ
  have hf : Feasible P σ := greedy_feasible hP.nonempty β v
  have hmono : ∀ a b, LeAdd 0 a b → LeAdd 0 (tSigma P β σ a) (tSigma P β σ b) := by
    intro a b h
    have := tSigma_leAdd hs hβ0 le_rfl σ h
    rwa [mul_zero] at this
  have hSv : tSigma P β σ v = bellman P β v := tSigma_greedy hP.nonempty hP.nodup β v
  have hu : LeAdd 0 (bellman P β v) (tSigma P β σ (bellman P β v)) := by
    have := hmono _ _ hv
    rwa [hSv] at this
  rw [mpiStep_eq]
  obtain ⟨h1, h2⟩ := iterate_chain (tSigma P β σ) hmono hu k
  refine ⟨h2, hv.trans0 h2, ?_⟩
  rw [Function.iterate_succ_apply'] at h1
  exact h1.trans0 (tSigma_le_bellman hf β _)

/-- a sub-solution lies below the optimal value -/
theorem sub_le_vStar {P : Prob K} (hP : WF P) {β : K} (hβ0 : 0 ≤ β) (hβ1 : β < 1) {v vS : List K}
    (hv : LeAdd 0 v (bellman P β v)) (hS : bellman P β vS = vS) : LeAdd 0 v vS := by
  have hs : ∀ acts ∈ P, ∀ x ∈ acts, SubStoch x := fun a ha x hx => (hP.stoch a ha x hx).sub
  have hSl : vS.length = P.length := by rw [← hS]; simp
  have hvl : v.length = P.length := by rw [hv.length_eq]; simp
  exact (monoShift_bellman hs hβ0).sub hβ0 hβ1 hS hSl hvl hv

/-- all outer iterates from a sub-solution are sub-solutions, increase, and stay below `v*` -/
theorem mpiStep_iterate {P : Prob K} (hP : WF P) {β : K} (hβ0 : 0 ≤ β) (k : ℕ) {v : List K}
    (hv : LeAdd 0 v (bellman P β v)) : ∀ j : ℕ,
    LeAdd 0 ((mpiStep P β k)^[j] v) (bellman P β ((mpiStep P β k)^[j] v)) ∧
    LeAdd 0 ((mpiStep P β k)^[j] v) ((mpiStep P β k)^[j + 1] v) := by
  intro j
  induction j with
  | zero => exact ⟨by simpa using hv, by simpa using (mpiStep_mono hP hβ0 k hv).2.1⟩
  | succ j ih =>
    rw [Function.iterate_succ_apply' _ (j + 1), Function.iterate_succ_apply' _ j]
    have := mpiStep_mono hP hβ0 k ih.1
    exact ⟨this.2.2, (mpiStep_mono hP hβ0 k this.2.2).2.1⟩

/-- **the error contracts**: from a sub-solution, `max(v* − v') ≤ β · max(v* − v)` -/
theorem mpiStep_error {P : Prob K} (hP : WF P) {β : K} (hβ0 : 0 ≤ β) (k : ℕ) {v vS : List K}
    (hv : LeAdd 0 v (bellman P β v)) (hS : bellman P β vS = vS) :
    exc vS (mpiStep P β k v) ≤ β * exc vS v := by
  have hs : ∀ acts ∈ P, ∀ x ∈ acts, SubStoch x := fun a ha x hx => (hP.stoch a ha x hx).sub
  have hSl : vS.length = P.length := by rw [← hS]; simp
  have hvl : v.length = P.length := by rw [hv.length_eq]; simp
  have h1 : LeAdd (exc vS v) vS v := leAdd_exc (hSl.trans hvl.symm)
  have h2 := bellman_leAdd hs hβ0 (exc_nonneg vS v) h1
  rw [hS] at h2
  have h3 := h2.trans (mpiStep_mono hP hβ0 k hv).1
  rw [add_zero] at h3
  exact (exc_le_iff h3.length_eq _).mpr ⟨mul_nonneg hβ0 (exc_nonneg _ _), h3⟩

theorem mpiStep_error_iterate {P : Prob K} (hP : WF P) {β : K} (hβ0 : 0 ≤ β) (k : ℕ) {v vS : List K}
    (hv : LeAdd 0 v (bellman P β v)) (hS : bellman P β vS = vS) :
    ∀ j : ℕ, exc vS ((mpiStep P β k)^[j] v) ≤ β ^ j * exc vS v := by
  intro j
  induction j with
  | zero => simp
  | succ j ih =>
    rw [Function.iterate_succ_apply']
    calc exc vS (mpiStep P β k ((mpiStep P β k)^[j] v))
        ≤ β * exc vS ((mpiStep P β k)^[j] v) :=
          mpiStep_error hP hβ0 k (mpiStep_iterate hP hβ0 k hv j).1 hS
      _ ≤ β * (β ^ j * exc vS v) := mul_le_mul_of_nonneg_left ih hβ0
      _ = β ^ (j + 1) * exc vS v := by ring

theorem zipWith_sub_bounds {e : K} : ∀ {u v : List K},
    Forall₂ (fun a b => 0 ≤ a - b ∧ a - b ≤ e) u v →
    ∀ x ∈ zipWith (fun a b => a - b) u v, 0 ≤ x ∧ x ≤ e := by
  intro u v h
  induction h with
  | nil => intro x hx; simp at hx
  | cons hab _ ih =>
    intro x hx
    simp only [zipWith_cons_cons, mem_cons] at hx
    rcases hx with rfl | hx
    · exact hab
    · exact ih x hx

theorem span_le_of_bounds {e : K} (he : 0 ≤ e) (z : List K) (h : ∀ x ∈ z, 0 ≤ x ∧ x ≤ e) :
    span z ≤ e := by
  unfold span
  cases z with
  | nil => simp [vmax, vmin, he]
  | cons a as =>
    have h1 : vmax (a :: as) ≤ e := by
      unfold vmax
      exact (foldl_maxA_le_iff as a e).mpr ⟨(h a (by simp)).2, fun x hx => (h x (by simp [hx])).2⟩
    have h2 : 0 ≤ vmin (a :: as) := by
      unfold vmin
      exact (foldl_minA_ge_iff as a 0).mpr ⟨(h a (by simp)).1, fun x hx => (h x (by simp [hx])).1⟩
    linarith

/-- for a sub-solution the span statistic is bounded by the distance to the optimum -/
theorem span_le_exc {P : Prob K} (hP : WF P) {β : K} (hβ0 : 0 ≤ β) (hβ1 : β < 1) {v vS : List K}
    (hv : LeAdd 0 v (bellman P β v)) (hS : bellman P β vS = vS) :
    span (zipWith (fun a b => a - b) (bellman P β v) v) ≤ exc vS v := by
  have hs : ∀ acts ∈ P, ∀ x ∈ acts, SubStoch x := fun a ha x hx => (hP.stoch a ha x hx).sub
  have hSl : vS.length = P.length := by rw [← hS]; simp
  have hvl : v.length = P.length := by rw [hv.length_eq]; simp
  have hle : LeAdd 0 v vS := sub_le_vStar hP hβ0 hβ1 hv hS
  have h1 := bellman_leAdd hs hβ0 le_rfl hle
  rw [hS, mul_zero] at h1
  have h2 : LeAdd (0 + exc vS v) (bellman P β v) v := h1.trans (leAdd_exc (hSl.trans hvl.symm))
  apply span_le_of_bounds (exc_nonneg _ _)
  apply zipWith_sub_bounds
  have h3 := forall₂_and h2 hv.flip
  exact h3.imp fun a b hab => ⟨by linarith [hab.2], by linarith [hab.1]⟩

/-- if the span test passes at some outer iterate `(mpiStep)^[j] v` with `j < fuel`, the loop is left
    through the span test -/
theorem mpiLoop_stops (P : Prob K) (β : K) (tol : Tol K) (k : ℕ) :
    ∀ (fuel : ℕ) (v : List K) (σl : List ℕ) (cnt j : ℕ), j < fuel →
    tol.passes (span (zipWith (fun a b => a - b) (bellman P β ((mpiStep P β k)^[j] v))
      ((mpiStep P β k)^[j] v))) = true →
    (mpiLoop P β tol k fuel v σl cnt).stopped = true := by
  intro fuel
  induction fuel with
  | zero => intro v σl cnt j hj; omega
  | succ fuel ih =>
    intro v σl cnt j hj hp
    simp only [mpiLoop]
    by_cases h0 : tol.passes (span (zipWith (fun a b => a - b) (bellman P β v) v)) = true
    · rw [if_pos h0]
    · rw [if_neg h0]
      cases j with
      | zero => exact absurd hp h0
      | succ j =>
        exact ih (mpiStep P β k v) _ (cnt + 1) j (by omega)
          (by simpa [Function.iterate_succ_apply] using hp)

/-- **MPI terminates from a sub-solution** (Archimedean field): the span test passes after finitely
    many outer iterations, for every `k` -/
theorem mpi_terminates_aux [Archimedean K] {P : Prob K} (hP : WF P) {β ε : K} (hβ0 : 0 ≤ β)
    (hβ1 : β < 1) (hε : 0 < ε) (k : ℕ) {vInit vS : List K}
    (hv : LeAdd 0 vInit (bellman P β vInit)) (hS : bellman P β vS = vS) :
    ∃ N, ∀ maxIter, N ≤ maxIter → (modifiedPI P β ε vInit maxIter k).stopped = true := by
  by_cases hβ : 0 < β
  · have ht : 0 < ε * (1 - β) / β := div_pos (mul_pos hε (by linarith)) hβ
    have hex : ∃ j : ℕ, β ^ j * exc vS vInit < ε * (1 - β) / β := by
      by_cases he : exc vS vInit = 0
      · exact ⟨0, by rw [he]; simpa using ht⟩
      · have hepos : 0 < exc vS vInit := lt_of_le_of_ne (exc_nonneg _ _) (Ne.symm he)
        obtain ⟨j, hj⟩ := exists_pow_lt_of_lt_one (div_pos ht hepos) hβ1
        refine ⟨j, ?_⟩
        have := mul_lt_mul_of_pos_right hj hepos
        rwa [div_mul_cancel₀ _ he] at this
    obtain ⟨j, hj⟩ := hex
    refine ⟨j + 1, fun maxIter hN => ?_⟩
    apply mpiLoop_stops P β (mpiTol β ε) k maxIter vInit [] 0 j (by omega)
    simp only [mpiTol, if_pos hβ, Tol.passes, decide_eq_true_eq]
    calc span _ ≤ exc vS ((mpiStep P β k)^[j] vInit) :=
          span_le_exc hP hβ0 hβ1 (mpiStep_iterate hP hβ0 k hv j).1 hS
      _ ≤ β ^ j * exc vS vInit := mpiStep_error_iterate hP hβ0 k hv hS j
      _ < ε * (1 - β) / β := hj
  · refine ⟨1, fun maxIter hN => ?_⟩
    apply mpiLoop_stops P β (mpiTol β ε) k maxIter vInit [] 0 0 (by omega)
    simp [mpiTol, if_neg hβ, Tol.passes]

/-! ### the default start `min r/(1−β)` is a sub-solution -/

theorem dot_zeros : ∀ (q : List K) (m : ℕ), dot q (replicate m (0 : K)) = 0 := by
  intro q
  induction q with
  | nil => intro m; simp [dot]
  | cons a q ih =>
    intro m
    cases m with
    | zero => simp [dot]
    | succ m => simp [replicate_succ, dot, ih m]

theorem mpiInit_eq (P : Prob K) (β : K) :
    mpiInit P β = addConst (replicate P.length (0 : K))
      (vmin ((P.flatMap id).map fun x => x.r) / (1 - β)) := by
  unfold mpiInit addConst
  apply ext_getElem (by simp)
  intro i h1 h2
  simp

theorem mpiInit_sub {P : Prob K} (hP : WF P) {β : K} (hβ1 : β < 1) :
    LeAdd 0 (mpiInit P β) (bellman P β (mpiInit P β)) := by
  rw [mpiInit_eq]
  set m := vmin ((P.flatMap id).map fun x => x.r) with hm
  set c := m / (1 - β) with hc
  have hpos : 0 < 1 - β := by linarith
  rw [bellman_addConst hP β c (by simp)]
  unfold LeAdd addConst bellman
  simp only [map_map]
  rw [forall₂_map_left_iff, forall₂_map_right_iff]
  rw [forall₂_iff_get]
  refine ⟨by simp, fun i h1 h2 => ?_⟩
  have hi : i < P.length := by simpa using h2
  simp only [get_eq_getElem, getElem_replicate, Function.comp]
  have hx : bestAct β (replicate P.length (0 : K)) P[i] ∈ P[i] :=
    bestAct_mem (hP.nonempty _ (getElem_mem hi))
  set x := bestAct β (replicate P.length (0 : K)) P[i]
  have hr : m ≤ x.r := by
    apply vmin_le
    apply mem_map.mpr
    exact ⟨x, mem_flatMap.mpr ⟨P[i], getElem_mem hi, hx⟩, rfl⟩
  have hq : qval β (replicate P.length (0 : K)) x = x.r := by
    unfold qval; rw [dot_zeros]; ring
  rw [hq]
  have hcm : c = m + β * c := by rw [hc]; field_simp; ring
  linarith

end QE.C01
