/-
  C07 helper lemmas, part 6: `RBLQ.b_operator` read as matrices.
-/
import QEProofs.Lemmas.C07Bridge

set_option linter.unusedSectionVars false

namespace QE.C07
open QE QE.MatAlg QE.C06 Finset Matrix

variable {K : Type} [CommRing K] {n k j : ℕ} {lq : LQ K}

/-- what a successful `b_operator` (with a control, `pure_forecasting = False`) returns -/
theorem rblqB_toMat (sol : M K → M K → Option (M K)) (hsol : SolSpec sol k) (h : LQDim lq n k j)
    {P F P' : M K} (hP : Dim P n n) (hb : rblqB sol lq false P = some (F, P')) :
    Dim F k n ∧ Dim P' n n ∧
    toMat k k (lqS1 lq P) * toMat k n F
      = lq.beta • ((toMat n k lq.B)ᵀ * (toMat n n P * toMat n n lq.A)) ∧
    toMat n n P' = toMat n n lq.R
      - (lq.beta • ((toMat n k lq.B)ᵀ * (toMat n n P * toMat n n lq.A)))ᵀ * toMat k n F
      + lq.beta • ((toMat n n lq.A)ᵀ * (toMat n n P * toMat n n lq.A)) ∧
    ∃ V : Matrix (Fin k) (Fin k) K, V * toMat k k (lqS1 lq P) = 1 ∧ toMat k k (lqS1 lq P) * V = 1 := by
  unfold rblqB at hb
  simp only [Bool.false_eq_true, if_false] at hb
  have dS2 : Dim (smul lq.beta (mmul (mT lq.B) (mmul P lq.A))) k n :=
    dim_smul _ (dim_mmul (dim_mT h.B) (dim_mmul hP h.A))
  have mS2 : toMat k n (smul lq.beta (mmul (mT lq.B) (mmul P lq.A)))
      = lq.beta • ((toMat n k lq.B)ᵀ * (toMat n n P * toMat n n lq.A)) := by
    rw [toMat_smul _ (dim_mmul (dim_mT h.B) (dim_mmul hP h.A)),
      toMat_mmul (dim_mT h.B) (dim_mmul hP h.A), toMat_mmul hP h.A, toMat_mT h.B]
  split at hb
  · cases hb
  · rename_i F0 hs
    simp only [Option.some.injEq, Prod.mk.injEq] at hb
    obtain ⟨hF0, hP'⟩ := hb
    subst hF0
    subst hP'
    obtain ⟨dF, mF, V, hV⟩ := hsol n _ _ _ (lqS1_dim h P) dS2 hs
    rw [mS2] at mF
    refine ⟨dF, dim_madd (dim_msub h.R), mF, ?_, V, hV⟩
    rw [toMat_madd (dim_msub h.R), toMat_msub h.R, toMat_mmul (dim_mT dS2) dF, toMat_mT dS2, mS2]
    congr 1
    exact lqS3_toMat h hP

end QE.C07
