/-
  Lemmas for C01, part 12: the `n` initial pivots of `ddp_linprog_simplex` onto a feasible policy
  never meet a zero pivot element and leave non-negative right-hand sides.
  Invariant (an M-matrix argument): in the columns of the not-yet-processed states every
  off-"diagonal" entry is `≤ 0` and the column sums over the not-yet-processed rows are `> 0`;
  the right-hand sides stay `≥ 0`.
-/
import QEProofs.Lemmas.C01LpOpt
import Mathlib.Algebra.BigOperators.Intervals
import Mathlib.Algebra.Order.BigOperators.Ring.Finset

set_option linter.unusedSectionVars false

namespace QE.C01
open List QE.Pivot

variable {K : Type} [Field K] [LinearOrder K] [IsStrictOrderedRing K]

/-- the invariant before the `i`-th initial pivot; `c s` is the basic column chosen for state `s` -/
structure ZInv (n N : ℕ) (c : ℕ → ℕ) (T : M K) (i : ℕ) : Prop where
  nr : T.nr = n + 1
  nc : T.nc = N + 1
  z1 : ∀ s, i ≤ s → s < n → ∀ k, k < n → k ≠ s → T.get k (c s) ≤ 0
  z2 : ∀ s, i ≤ s → s < n → 0 < ∑ k ∈ Finset.Ico i n, T.get k (c s)
  z3 : ∀ k, k < n → 0 ≤ T.get k N

theorem zinv_pivot_pos {n N : ℕ} {c : ℕ → ℕ} {T : M K} {i : ℕ} (h : ZInv n N c T i) (hi : i < n) :
    0 < T.get i (c i) := by
  have hs := h.z2 i le_rfl hi
  rw [Finset.sum_eq_sum_Ico_succ_bot hi] at hs
  have : ∑ k ∈ Finset.Ico (i + 1) n, T.get k (c i) ≤ 0 := by
    apply Finset.sum_nonpos
    intro k hk
    have := Finset.mem_Ico.mp hk
    exact h.z1 i le_rfl hi k this.2 (by omega)
  linarith

theorem zinv_step {n N : ℕ} {c : ℕ → ℕ} (hc : ∀ s, s < n → c s < N) {T : M K} {i : ℕ}
    (h : ZInv n N c T i) (hi : i < n) : ZInv n N c (pivot T (c i) i) (i + 1) := by
  have hp := zinv_pivot_pos h hi
  have hir : i < T.nr := by rw [h.nr]; omega
  refine ⟨by simpa using h.nr, by simpa using h.nc, ?_, ?_, ?_⟩
  · intro s hs hsn k hk hks
    have hcs : c s < T.nc := by rw [h.nc]; have := hc s hsn; omega
    have hti : T.get i (c s) ≤ 0 := h.z1 s (by omega) hsn i hi (by omega)
    by_cases hki : k = i
    · subst hki
      rw [pivot_get_r T (c k) k (c s) hir hcs]
      exact div_nonpos_of_nonpos_of_nonneg hti hp.le
    · rw [pivot_get_i T (c i) i k (c s) (by rw [h.nr]; omega) hcs hki]
      have h1 : T.get k (c s) ≤ 0 := h.z1 s (by omega) hsn k hk hks
      have h2 : T.get k (c i) ≤ 0 := h.z1 i le_rfl hi k hk hki
      have h3 : T.get i (c s) / T.get i (c i) ≤ 0 := div_nonpos_of_nonpos_of_nonneg hti hp.le
      have := mul_nonneg_of_nonpos_of_nonpos h3 h2
      linarith
  · intro s hs hsn
    have hcs : c s < T.nc := by rw [h.nc]; have := hc s hsn; omega
    have hti : T.get i (c s) ≤ 0 := h.z1 s (by omega) hsn i hi (by omega)
    have hSs := h.z2 s (by omega) hsn
    have hSi := h.z2 i le_rfl hi
    rw [Finset.sum_eq_sum_Ico_succ_bot hi] at hSs hSi
    have hcong : ∑ k ∈ Finset.Ico (i + 1) n, (pivot T (c i) i).get k (c s)
        = ∑ k ∈ Finset.Ico (i + 1) n, (T.get k (c s) - T.get i (c s) / T.get i (c i) * T.get k (c i)) := by
      apply Finset.sum_congr rfl
      intro k hk
      have := Finset.mem_Ico.mp hk
      rw [pivot_get_i T (c i) i k (c s) (by rw [h.nr]; omega) hcs (by omega)]
    rw [hcong, Finset.sum_sub_distrib, ← Finset.mul_sum]
    set A := ∑ k ∈ Finset.Ico (i + 1) n, T.get k (c s)
    set B := ∑ k ∈ Finset.Ico (i + 1) n, T.get k (c i)
    set t := T.get i (c s)
    set p := T.get i (c i)
    -- A − (t/p) B = (t + A) − t (p + B)/p  ≥ t + A > 0
    have hkey : A - t / p * B = (t + A) + (-t) * (p + B) / p := by
      field_simp; ring
    rw [hkey]
    have : 0 ≤ (-t) * (p + B) / p := div_nonneg (mul_nonneg (by linarith) hSi.le) hp.le
    linarith
  · intro k hk
    have hN : N < T.nc := by rw [h.nc]; omega
    by_cases hki : k = i
    · subst hki
      rw [pivot_get_r T (c k) k N hir hN]
      exact div_nonneg (h.z3 k hk) hp.le
    · rw [pivot_get_i T (c i) i k N (by rw [h.nr]; omega) hN hki]
      have h2 : T.get k (c i) ≤ 0 := h.z1 i le_rfl hi k hk hki
      have h3 : 0 ≤ T.get i N / T.get i (c i) := div_nonneg (h.z3 i hi) hp.le
      have := mul_nonpos_of_nonneg_of_nonpos h3 h2
      have := h.z3 k hk
      linarith

theorem map_getD_range (q : List K) : (range q.length).map (fun k => q.getD k 0) = q := by
  apply ext_getElem (by simp)
  intro k h1 h2
  simp only [getElem_map, getElem_range]
  exact (getElem_eq_getD 0).symm

theorem sum_getD_range (q : List K) (n : ℕ) (hq : q.length = n) :
    ∑ k ∈ Finset.range n, q.getD k 0 = q.sum := by
  rw [← list_sum_range_eq, ← hq, map_getD_range]

/-- the initial tableau satisfies the invariant -/
theorem zinv_init {P : Prob K} (hP : WF P) {β : K} (hβ0 : 0 ≤ β) (hβ1 : β < 1) {b0 : List ℕ}
    (hpb : PolicyBasis P b0) :
    ZInv P.length ((lpCols P).length + P.length) (fun s => b0.getD s 0) (lpTableau P β) 0 := by
  refine ⟨lpTableau_nr P β, lpTableau_nc P β, ?_, ?_, ?_⟩
  · intro s _ hsn k hk hks
    obtain ⟨hj, hst⟩ := hpb.2 s hsn
    rw [lpTableau_body P β k _ hk hj, hst, if_neg (fun e => hks e.symm), add_zero]
    obtain ⟨_, hS⟩ := lpCols_stoch hP _ hj
    have hkl : k < ((lpCols P).getD (b0.getD s 0) dfltCol).2.q.length := by rw [hS.2.2]; exact hk
    have hq : 0 ≤ ((lpCols P).getD (b0.getD s 0) dfltCol).2.q.getD k 0 := by
      rw [← getElem_eq_getD (h := hkl) 0]; exact hS.1 _ (getElem_mem hkl)
    nlinarith
  · intro s _ hsn
    obtain ⟨hj, hst⟩ := hpb.2 s hsn
    obtain ⟨_, hS⟩ := lpCols_stoch hP _ hj
    rw [← Finset.range_eq_Ico]
    rw [Finset.sum_congr rfl fun k hk => lpTableau_body P β k _ (Finset.mem_range.mp hk) hj]
    rw [Finset.sum_add_distrib, ← Finset.sum_mul, sum_getD_range _ _ hS.2.2, hS.2.1, hst]
    rw [Finset.sum_ite_eq]
    simp only [Finset.mem_range, hsn, if_true]
    linarith
  · intro k hk
    rw [lpTableau_rhs P β k hk]
    exact zero_le_one

/-- the invariant holds before every initial pivot, and every pivot element met is positive -/
theorem zinv_upTo {P : Prob K} (hP : WF P) {β : K} (hβ0 : 0 ≤ β) (hβ1 : β < 1) {b0 : List ℕ}
    (hpb : PolicyBasis P b0) : ∀ i, i ≤ P.length →
    ZInv P.length ((lpCols P).length + P.length) (fun s => b0.getD s 0) (lpStartUpTo P β b0 i) i ∧
    ∀ k, k < i → 0 < (lpStartUpTo P β b0 k).get k (b0.getD k 0) := by
  have hc : ∀ s, s < P.length → (fun s => b0.getD s 0) s < (lpCols P).length + P.length := by
    intro s hs; have := (hpb.2 s hs).1; simp only; omega
  intro i
  induction i with
  | zero => intro _; exact ⟨zinv_init hP hβ0 hβ1 hpb, fun k hk => by omega⟩
  | succ i ih =>
    intro hi
    obtain ⟨hz, hpos⟩ := ih (by omega)
    refine ⟨?_, fun k hk => ?_⟩
    · rw [lpStartUpTo_succ]
      exact zinv_step hc hz (by omega)
    · rcases Nat.lt_succ_iff_lt_or_eq.mp hk with hlt | heq
      · exact hpos k hlt
      · subst heq; exact zinv_pivot_pos hz (by omega)

/-- converse direction of `lpStartChk_fold`: non-zero pivot elements make the Boolean fold true -/
theorem lpStartChk_fold_true (P : Prob K) (β : K) (b0 : List ℕ) : ∀ i : ℕ,
    (∀ k, k < i → (lpStartUpTo P β b0 k).get k (b0.getD k 0) ≠ 0) →
    ((range i).foldl (fun (st : M K × Bool) k =>
        (pivot st.1 (b0.getD k 0) k, st.2 && !(st.1.get k (b0.getD k 0) == 0))) (lpTableau P β, true)).2
      = true := by
  intro i
  induction i with
  | zero => intro _; rfl
  | succ i ih =>
    intro h
    rw [range_succ, foldl_append]
    simp only [foldl_cons, foldl_nil]
    have h1 := (lpStartChk_fold P β b0 i).1
    rw [ih fun k hk => h k (by omega), h1]
    simp only [Bool.true_and, Bool.not_eq_true', beq_eq_false_iff_ne]
    exact h i (by omega)

/-- **the start validation always holds** for a feasible start policy, a well-formed problem and
    `0 ≤ β < 1` -/
theorem lpStartChk_holds {P : Prob K} (hP : WF P) {β : K} (hβ0 : 0 ≤ β) (hβ1 : β < 1) {σ0 : List ℕ}
    (hf0 : Feasible P σ0) : lpStartChk P β (lpBasis0 P σ0) = true := by
  have hpb : PolicyBasis P (lpBasis0 P σ0) := policyBasis_start hf0
  obtain ⟨hz, hpos⟩ := zinv_upTo hP hβ0 hβ1 hpb P.length le_rfl
  unfold lpStartChk
  rw [Bool.and_eq_true]
  refine ⟨lpStartChk_fold_true P β _ P.length fun k hk => ne_of_gt (hpos k hk), ?_⟩
  rw [all_eq_true]
  intro i hi
  have hT : lpStartUpTo P β (lpBasis0 P σ0) P.length = lpStart P β (lpBasis0 P σ0) := rfl
  rw [← hT]
  simpa using hz.z3 i (mem_range.mp hi)

end QE.C01
