/-
  Lemmas for C03, part 1: walks, the gcd loop of `_compute_period`, the BFS invariant
  (tree edges have value 0), telescoping along walks.
-/
import Mathlib.Tactic.Ring
import Mathlib.Tactic.Linarith
import Mathlib.Logic.Relation
import Mathlib.Data.List.Nodup
import QEModel.C03
namespace QE.C03

/-- `u → v` is a stored entry of the CSR matrix -/
def G.E (g : G) (u v : Nat) : Prop := v ∈ g.out u

/-- `Walk g u w len`: a directed walk `u → … → w` with `len` edges -/
inductive Walk (g : G) : Nat → Nat → Nat → Prop
  | nil (u : Nat) : Walk g u u 0
  | cons {u v w len : Nat} : g.E u v → Walk g v w len → Walk g u w (len + 1)

theorem Walk.snoc {g : G} {u v w len : Nat} (h : Walk g u v len) (e : g.E v w) :
    Walk g u w (len + 1) := by
  induction h with
  | nil u => exact Walk.cons e (Walk.nil _)
  | cons e' _ ih => exact Walk.cons e' (ih e)

theorem Walk.append {g : G} {u v w a b : Nat} (h1 : Walk g u v a) (h2 : Walk g v w b) :
    Walk g u w (a + b) := by
  induction h1 with
  | nil u => simpa using h2
  | cons e _ ih =>
    have := Walk.cons e (ih h2)
    rw [show ∀ x : Nat, x + 1 + b = x + b + 1 by intro x; omega]
    exact this

/-! ### shape -/

theorem out_nil_of_ge (g : G) (hwf : g.wf = true) (u : Nat) (hu : g.n ≤ u) : g.out u = [] := by
  unfold G.wf at hwf
  simp only [Bool.and_eq_true, beq_iff_eq] at hwf
  unfold G.out
  rw [List.getD_eq_getElem?_getD, List.getElem?_eq_none (by omega)]
  rfl

theorem E_lt (g : G) (hwf : g.wf = true) {u v : Nat} (h : g.E u v) : u < g.n ∧ v < g.n := by
  have hu : u < g.n := by
    by_contra hc
    have := out_nil_of_ge g hwf u (by omega)
    unfold G.E at h; rw [this] at h; simp at h
  refine ⟨hu, ?_⟩
  unfold G.wf at hwf
  simp only [Bool.and_eq_true, beq_iff_eq, List.all_eq_true, decide_eq_true_eq] at hwf
  unfold G.E G.out at h
  have hlen : u < g.succ.length := by omega
  rw [List.getD_eq_getElem?_getD, List.getElem?_eq_getElem hlen] at h
  exact hwf.2 _ (List.getElem_mem hlen) v h

theorem mem_edges (g : G) (u v : Nat) : (u, v) ∈ g.edges ↔ u < g.n ∧ g.E u v := by
  unfold G.edges G.E
  simp only [List.mem_flatMap, List.mem_range, List.mem_map, Prod.mk.injEq]
  constructor
  · rintro ⟨a, ha, b, hb, rfl, rfl⟩; exact ⟨ha, hb⟩
  · rintro ⟨h1, h2⟩; exact ⟨u, h1, v, h2, rfl, rfl⟩

/-! ### the gcd loop -/

/-- the early `return` at `d == 1` does not change the value: `gcd 1 x = 1` -/
theorem gcdStep_eq (lev : Nat → Int) (d : Nat) (e : Nat × Nat) :
    gcdStep lev d e = Nat.gcd d (edgeVal lev e).natAbs := by
  unfold gcdStep
  split
  · rename_i h
    have : d = 1 := by simpa using h
    subst this; simp
  · rfl

theorem foldl_gcdStep_dvd_init (lev : Nat → Int) (es : List (Nat × Nat)) (d : Nat) :
    es.foldl (gcdStep lev) d ∣ d := by
  induction es generalizing d with
  | nil => simp
  | cons e es ih =>
    simp only [List.foldl_cons]
    refine Nat.dvd_trans (ih _) ?_
    rw [gcdStep_eq]; exact Nat.gcd_dvd_left _ _

theorem foldl_gcdStep_dvd_mem (lev : Nat → Int) (es : List (Nat × Nat)) (d : Nat)
    (e : Nat × Nat) (he : e ∈ es) :
    es.foldl (gcdStep lev) d ∣ (edgeVal lev e).natAbs := by
  induction es generalizing d with
  | nil => simp at he
  | cons e' es ih =>
    simp only [List.foldl_cons]
    rcases List.mem_cons.1 he with rfl | h
    · refine Nat.dvd_trans (foldl_gcdStep_dvd_init lev es _) ?_
      rw [gcdStep_eq]; exact Nat.gcd_dvd_right _ _
    · exact ih _ h

/-- any common divisor of the start value and of all edge values divides the result -/
theorem dvd_foldl_gcdStep (lev : Nat → Int) (es : List (Nat × Nat)) (d c : Nat)
    (hd : c ∣ d) (hes : ∀ e ∈ es, c ∣ (edgeVal lev e).natAbs) :
    c ∣ es.foldl (gcdStep lev) d := by
  induction es generalizing d with
  | nil => simpa using hd
  | cons e es ih =>
    simp only [List.foldl_cons]
    apply ih
    · rw [gcdStep_eq]; exact Nat.dvd_gcd hd (hes e (List.mem_cons_self))
    · intro e' he'; exact hes e' (List.mem_cons_of_mem _ he')

/-! ### telescoping along a walk -/

/-- if `d` divides `lev u − lev v + 1` on every edge, then along any walk
    `len ≡ lev w − lev u (mod d)` -/
theorem walk_telescope (g : G) (lev : Nat → Int) (d : Int)
    (hd : ∀ u v, g.E u v → d ∣ lev u - lev v + 1)
    {u w len : Nat} (h : Walk g u w len) : d ∣ (len : Int) - (lev w - lev u) := by
  induction h with
  | nil u => simp
  | @cons u v w len e _ ih =>
    have h1 := hd u v e
    have := Int.dvd_add h1 ih
    have heq : lev u - lev v + 1 + ((len : Int) - (lev w - lev v)) = ((len + 1 : Nat) : Int) - (lev w - lev u) := by
      push_cast; ring
    rw [heq] at this
    exact this

/-! ### BFS invariant -/

/-- nodes are pairwise different, and every non-root entry points to an entry one level lower -/
structure VisInv (g : G) (vis : Vis) : Prop where
  nodup : (vis.map fun e => e.1).Nodup
  tree : ∀ v u l, (v, some u, l) ∈ vis → ∃ p l', (u, p, l') ∈ vis ∧ l = l' + 1
  walk : ∀ v p l, (v, p, l) ∈ vis → Walk g 0 v l
  lt : ∀ v p l, (v, p, l) ∈ vis → v < g.n
  root : ∃ t, vis = (0, none, 0) :: t
  ordered : ∀ j e, 0 < j → vis[j]? = some e →
    ∃ u i p l', i < j ∧ e.2.1 = some u ∧ vis[i]? = some (u, p, l') ∧ e.2.2 = l' + 1

theorem visLookup_of_mem (vis : Vis) (hn : (vis.map fun e => e.1).Nodup)
    (e : Nat × Option Nat × Nat) (he : e ∈ vis) : visLookup vis e.1 = some e := by
  unfold visLookup
  induction vis with
  | nil => simp at he
  | cons a vis ih =>
    simp only [List.map_cons, List.nodup_cons] at hn
    rcases List.mem_cons.1 he with rfl | h
    · simp
    · have hne : a.1 ≠ e.1 := by
        intro heq
        apply hn.1
        rw [heq]
        exact List.mem_map.2 ⟨e, h, rfl⟩
      rw [List.find?_cons_of_neg (by simpa using hne)]
      exact ih hn.2 h

theorem mem_of_visLookup (vis : Vis) (v : Nat) (e : Nat × Option Nat × Nat)
    (h : visLookup vis v = some e) : e ∈ vis ∧ e.1 = v := by
  unfold visLookup at h
  refine ⟨List.mem_of_find?_eq_some h, ?_⟩
  have := List.find?_some h
  simpa using this

theorem not_mem_of_not_visited (vis : Vis) (v : Nat) (h : visited vis v = false) :
    v ∉ vis.map fun e => e.1 := by
  intro hm
  obtain ⟨e, he, rfl⟩ := List.mem_map.1 hm
  unfold visited visLookup at h
  have : (vis.find? fun x => x.1 == e.1) = none := by
    cases hh : vis.find? fun x => x.1 == e.1 with
    | none => rfl
    | some _ => rw [hh] at h; simp at h
  rw [List.find?_eq_none] at this
  have := this e he
  simp at this

theorem visited_of_mem (vis : Vis) (e : Nat × Option Nat × Nat) (he : e ∈ vis) :
    visited vis e.1 = true := by
  by_contra hc
  have hc' : visited vis e.1 = false := by simpa using hc
  exact not_mem_of_not_visited vis e.1 hc' (List.mem_map.2 ⟨e, he, rfl⟩)

theorem bfsVisit_inv (g : G) (u lu : Nat) (vs : List Nat) (vis : Vis)
    (hinv : VisInv g vis) (hu : ∃ p, (u, p, lu) ∈ vis) (hvs : ∀ v ∈ vs, g.E u v ∧ v < g.n) :
    VisInv g (bfsVisit vis u lu vs) := by
  induction vs generalizing vis with
  | nil => simpa [bfsVisit] using hinv
  | cons v vs ih =>
    unfold bfsVisit
    have hvs' : ∀ v ∈ vs, g.E u v ∧ v < g.n := fun w hw => hvs w (List.mem_cons_of_mem _ hw)
    split
    · exact ih vis hinv hu hvs'
    · rename_i hnv
      have hnv' : visited vis v = false := by simpa using hnv
      obtain ⟨p, hp⟩ := hu
      apply ih
      · refine ⟨?_, ?_, ?_, ?_, ?_, ?_⟩
        · rw [List.map_append, List.nodup_append]
          refine ⟨hinv.nodup, by simp, ?_⟩
          intro a ha b hb
          simp only [List.map_cons, List.map_nil, List.mem_singleton] at hb
          subst hb
          intro heq; subst heq
          exact not_mem_of_not_visited vis a hnv' ha
        · intro v' u' l' hm
          rcases List.mem_append.1 hm with h | h
          · obtain ⟨p', l'', h1, h2⟩ := hinv.tree v' u' l' h
            exact ⟨p', l'', List.mem_append_left _ h1, h2⟩
          · simp only [List.mem_singleton, Prod.mk.injEq, Option.some.injEq] at h
            obtain ⟨rfl, rfl, rfl⟩ := h
            exact ⟨p, lu, List.mem_append_left _ hp, rfl⟩
        · intro v' p' l' hm
          rcases List.mem_append.1 hm with h | h
          · exact hinv.walk v' p' l' h
          · simp only [List.mem_singleton, Prod.mk.injEq] at h
            obtain ⟨rfl, rfl, rfl⟩ := h
            exact (hinv.walk u p lu hp).snoc (hvs v' (List.mem_cons_self)).1
        · intro v' p' l' hm
          rcases List.mem_append.1 hm with h | h
          · exact hinv.lt v' p' l' h
          · simp only [List.mem_singleton, Prod.mk.injEq] at h
            obtain ⟨rfl, rfl, rfl⟩ := h
            exact (hvs v' (List.mem_cons_self)).2
        · obtain ⟨t, ht⟩ := hinv.root
          exact ⟨t ++ [(v, some u, lu + 1)], by rw [ht]; rfl⟩
        · intro j e hj he
          by_cases hjl : j < vis.length
          · rw [List.getElem?_append_left hjl] at he
            obtain ⟨u', i, p', l', hi, h1, h2, h3⟩ := hinv.ordered j e hj he
            exact ⟨u', i, p', l', hi, h1, by rw [List.getElem?_append_left (by omega)]; exact h2, h3⟩
          · rw [List.getElem?_append_right (by omega)] at he
            have hj0 : j - vis.length = 0 := by
              by_contra hc
              rw [List.getElem?_eq_none (by simp; omega)] at he
              cases he
            rw [hj0] at he
            simp only [List.getElem?_cons_zero, Option.some.injEq] at he
            subst he
            obtain ⟨i, hi⟩ := List.mem_iff_getElem?.1 hp
            have hil : i < vis.length := (List.getElem?_eq_some_iff.1 hi).1
            exact ⟨u, i, p, lu, by omega, rfl, by rw [List.getElem?_append_left hil]; exact hi, rfl⟩
      · exact ⟨p, List.mem_append_left _ hp⟩
      · exact hvs'

theorem bfsLoop_inv (g : G) (hwf : g.wf = true) (fuel i : Nat) (vis : Vis) (hinv : VisInv g vis) :
    VisInv g (bfsLoop g fuel i vis) := by
  induction fuel generalizing i vis with
  | zero => simpa [bfsLoop] using hinv
  | succ fuel ih =>
    unfold bfsLoop
    split
    · exact hinv
    · rename_i e he
      apply ih
      have hmem : e ∈ vis := List.mem_of_getElem? he
      apply bfsVisit_inv g e.1 e.2.2 (g.out e.1) vis hinv ⟨e.2.1, hmem⟩
      intro v hv
      exact ⟨hv, (E_lt g hwf hv).2⟩

theorem visInv_init (g : G) (hn : 0 < g.n) : VisInv g [(0, none, 0)] := by
  refine ⟨by simp, ?_, ?_, ?_, ⟨[], rfl⟩, ?_⟩
  · intro v u l h; simp at h
  · intro v p l h
    simp only [List.mem_singleton, Prod.mk.injEq] at h
    obtain ⟨rfl, rfl, rfl⟩ := h
    exact Walk.nil 0
  · intro v p l h
    simp only [List.mem_singleton, Prod.mk.injEq] at h
    obtain ⟨rfl, rfl, rfl⟩ := h
    exact hn
  · intro j e hj he
    rw [List.getElem?_eq_none (by simp; omega)] at he
    cases he

theorem bfs_inv (g : G) (hwf : g.wf = true) (hn : 0 < g.n) : VisInv g (bfs g) := by
  unfold bfs
  exact bfsLoop_inv g hwf _ _ _ (visInv_init g hn)

/-! ### the level loop recomputes the levels noted at discovery -/

theorem levStep_length (lev : List Int) (e : Nat × Option Nat × Nat) :
    (levStep lev e).length = lev.length := by
  unfold levStep; simp

/-- after the first `k ≥ 1` queue entries the array holds their levels -/
theorem levelArr_prefix (g : G) (vis : Vis) (hinv : VisInv g vis) (k : Nat) (hk1 : 1 ≤ k)
    (hk : k ≤ vis.length) :
    ((vis.take k).tail.foldl levStep (List.replicate g.n 0)).length = g.n ∧
    ∀ j e, j < k → vis[j]? = some e →
      ((vis.take k).tail.foldl levStep (List.replicate g.n 0)).getD e.1 0 = (e.2.2 : Int) := by
  induction k with
  | zero => omega
  | succ k ih =>
    by_cases hk0 : k = 0
    · subst hk0
      obtain ⟨t, ht⟩ := hinv.root
      refine ⟨by rw [ht]; simp, ?_⟩
      intro j e hj he
      have hj0 : j = 0 := by omega
      subst hj0
      rw [ht] at he
      simp only [List.getElem?_cons_zero, Option.some.injEq] at he
      subst he
      rw [ht]
      simp only [List.take_succ_cons, List.take_zero, List.tail_cons, List.foldl_nil]
      rw [List.getD_eq_getElem?_getD]
      by_cases h0 : 0 < g.n
      · simp [h0]
      · have hz : g.n = 0 := by omega
        simp [hz]
    · have hklt : k < vis.length := by omega
      obtain ⟨hlen, hlev⟩ := ih (by omega) (by omega)
      have htake : vis.take (k + 1) = vis.take k ++ [vis[k]] := by
        rw [List.take_add_one, List.getElem?_eq_getElem hklt]; rfl
      have hne : vis.take k ≠ [] := by
        intro hc
        have h1 : (vis.take k).length = min k vis.length := List.length_take
        rw [hc, List.length_nil] at h1
        omega
      have htail : (vis.take (k + 1)).tail = (vis.take k).tail ++ [vis[k]] := by
        rw [htake, List.tail_append_of_ne_nil hne]
      rw [htail, List.foldl_append]
      simp only [List.foldl_cons, List.foldl_nil]
      set lev := (vis.take k).tail.foldl levStep (List.replicate g.n 0) with hlevdef
      have hek : vis[k]? = some vis[k] := List.getElem?_eq_getElem hklt
      obtain ⟨u, i, p, l', hik, hpred, hui, hl⟩ := hinv.ordered k vis[k] (by omega) hek
      have hlu : lev.getD u 0 = (l' : Int) := hlev i (u, p, l') hik hui
      have hvn : (vis[k]).1 < g.n := hinv.lt _ _ _ (List.getElem_mem hklt)
      refine ⟨by rw [levStep_length]; exact hlen, ?_⟩
      intro j e hj he
      unfold levStep
      rw [hpred]
      simp only [Option.getD_some]
      rw [hlu]
      by_cases hjk : j = k
      · subst hjk
        rw [hek] at he
        cases he
        rw [List.getD_eq_getElem?_getD, List.getElem?_set_self (by rw [hlen]; exact hvn)]
        simp [hl]
      · have hjl : j < vis.length := (List.getElem?_eq_some_iff.1 he).1
        have hne1 : (vis[k]).1 ≠ e.1 := by
          intro heq
          have hnd := hinv.nodup
          have h1 : (vis.map fun e => e.1)[k]'(by simpa using hklt) = (vis.map fun e => e.1)[j]'(by simpa using hjl) := by
            simp only [List.getElem_map]
            rw [heq]
            have := (List.getElem?_eq_some_iff.1 he).2
            rw [this]
          have := (List.Nodup.getElem_inj_iff hnd).1 h1
          omega
        rw [List.getD_eq_getElem?_getD, List.getElem?_set_ne hne1, ← List.getD_eq_getElem?_getD]
        exact hlev j e (by omega) he

/-- **the level loop is correct**: for every queue entry, `level[node]` is the level noted at
    discovery -/
theorem levelArr_spec (g : G) (vis : Vis) (hinv : VisInv g vis) (e : Nat × Option Nat × Nat)
    (he : e ∈ vis) : levelOf g.n vis e.1 = (e.2.2 : Int) := by
  obtain ⟨t, ht⟩ := hinv.root
  have hlen : 1 ≤ vis.length := by rw [ht]; simp
  obtain ⟨j, hj⟩ := List.mem_iff_getElem?.1 he
  have hjl : j < vis.length := (List.getElem?_eq_some_iff.1 hj).1
  have := (levelArr_prefix g vis hinv vis.length hlen (le_refl _)).2 j e hjl hj
  rw [List.take_length] at this
  exact this

/-- on a tree edge (`predecessors[v] = u`) the value `level[u] − level[v] + 1` is 0 -/
theorem tree_edge_val (g : G) (vis : Vis) (hinv : VisInv g vis) (u v : Nat)
    (h : predOf vis v = some u) : edgeVal (levelOf g.n vis) (u, v) = 0 := by
  unfold predOf at h
  cases hl : visLookup vis v with
  | none => rw [hl] at h; simp at h
  | some e =>
    rw [hl] at h
    simp only [Option.bind_some] at h
    obtain ⟨hmem, hv⟩ := mem_of_visLookup vis v e hl
    obtain ⟨a, b, c⟩ := e
    simp only at h hv
    subst hv; subst h
    obtain ⟨p, l', hu, hlev⟩ := hinv.tree a u c hmem
    have h1 := levelArr_spec g vis hinv _ hu
    have h2 := levelArr_spec g vis hinv _ hmem
    simp only at h1 h2
    unfold edgeVal
    simp only [h1, h2, hlev]
    push_cast; ring

/-- **the value of the loop divides the value of every stored edge** (tree edges
    included, which the loop skips) -/
theorem periodBFS_dvd_edge (g : G) (vis : Vis) (hinv : VisInv g vis) (u v : Nat)
    (hu : u < g.n) (he : g.E u v) :
    ((periodBFS g vis : Nat) : Int) ∣ edgeVal (levelOf g.n vis) (u, v) := by
  by_cases ht : predOf vis v = some u
  · rw [tree_edge_val g vis hinv u v ht]; exact Int.dvd_zero _
  · rw [Int.natCast_dvd]
    unfold periodBFS
    apply foldl_gcdStep_dvd_mem
    unfold nonTree
    rw [List.mem_filter]
    refine ⟨(mem_edges g u v).2 ⟨hu, he⟩, ?_⟩
    simpa using ht

end QE.C03
