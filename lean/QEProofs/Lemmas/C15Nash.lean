/-
  Lemmas for C15, part 2: maxima by folds (sup-norm distance, `payoff_vector.max()`), over a
  linearly ordered field.
-/
import Mathlib.Algebra.Order.Field.Basic
import Mathlib.Algebra.Order.AbsoluteValue.Basic
import Mathlib.Tactic.Linarith
import Mathlib.Tactic.Ring
import QEModel.C15
namespace QE.C15

set_option linter.unusedSectionVars false
variable {K : Type} [Field K] [LinearOrder K] [IsStrictOrderedRing K]

theorem foldl_max_le_iff (l : List K) (a t : K) :
    l.foldl (fun acc v => if acc < v then v else acc) a ≤ t ↔ a ≤ t ∧ ∀ v ∈ l, v ≤ t := by
  induction l generalizing a with
  | nil => simp
  | cons v l ih =>
    rw [List.foldl_cons, ih]
    have h : (if a < v then v else a) ≤ t ↔ a ≤ t ∧ v ≤ t := by
      split_ifs with hc
      · exact ⟨fun h => ⟨le_trans (le_of_lt hc) h, h⟩, fun h => h.2⟩
      · exact ⟨fun h => ⟨h, le_trans (not_lt.mp hc) h⟩, fun h => h.1⟩
    rw [h]
    simp only [List.mem_cons, forall_eq_or_imp]
    tauto

/-- the fold is one of its arguments: it is attained -/
theorem foldl_max_mem (l : List K) (a : K) :
    l.foldl (fun acc v => if acc < v then v else acc) a = a ∨
    l.foldl (fun acc v => if acc < v then v else acc) a ∈ l := by
  induction l generalizing a with
  | nil => simp
  | cons v l ih =>
    rw [List.foldl_cons]
    rcases ih (if a < v then v else a) with h | h
    · rw [h]
      split_ifs
      · right; simp
      · left; rfl
    · right; exact List.mem_cons_of_mem _ h

theorem absv_eq_abs (x : K) : absv x = |x| := by
  unfold absv
  split_ifs with h
  · exact (abs_of_neg h).symm
  · exact (abs_of_nonneg (not_lt.mp h)).symm

theorem maxOf_le_iff (l : List K) (t : K) (ht : 0 ≤ t) : maxOf l ≤ t ↔ ∀ v ∈ l, v ≤ t := by
  unfold maxOf
  rw [foldl_max_le_iff]
  exact ⟨fun h => h.2, fun h => ⟨ht, h⟩⟩

theorem maxOf_nonneg (l : List K) : 0 ≤ maxOf l := by
  by_contra h
  have h' : maxOf l ≤ maxOf l := le_refl _
  unfold maxOf at h h'
  rw [foldl_max_le_iff] at h'
  exact h h'.1

/-- **sup-norm characterisation**: `maxAbsDiff a b ≤ t` iff every coordinate differs by at most `t` -/
theorem maxAbsDiff_le_iff (a b : List K) (t : K) (ht : 0 ≤ t) :
    maxAbsDiff a b ≤ t ↔ ∀ i, i < a.length → i < b.length → |a.getD i 0 - b.getD i 0| ≤ t := by
  unfold maxAbsDiff
  rw [maxOf_le_iff _ _ ht]
  constructor
  · intro h i hi hj
    apply h
    rw [List.mem_iff_getElem]
    refine ⟨i, by simp [hi, hj], ?_⟩
    simp [List.getElem_zipWith, absv_eq_abs, List.getElem?_eq_getElem hi, List.getElem?_eq_getElem hj]
  · intro h v hv
    rw [List.mem_iff_getElem] at hv
    obtain ⟨i, hi, rfl⟩ := hv
    have hi' : i < a.length ∧ i < b.length := by simpa using hi
    have := h i hi'.1 hi'.2
    simpa [List.getElem_zipWith, absv_eq_abs, List.getElem?_eq_getElem hi'.1,
      List.getElem?_eq_getElem hi'.2] using this

theorem maxAbsDiff_nonneg (a b : List K) : 0 ≤ maxAbsDiff a b := maxOf_nonneg _

/-- `payoff_vector.max() ≤ t` iff every entry is `≤ t` (non-empty vector) -/
theorem vecMax_le_iff (pv : List K) (hne : pv ≠ []) (t : K) : vecMax pv ≤ t ↔ ∀ p ∈ pv, p ≤ t := by
  cases pv with
  | nil => exact absurd rfl hne
  | cons p ps =>
    unfold vecMax
    simp only [List.tail_cons, List.headD_cons]
    rw [foldl_max_le_iff]
    simp

/-- the maximum is attained -/
theorem vecMax_mem (pv : List K) (hne : pv ≠ []) : vecMax pv ∈ pv := by
  cases pv with
  | nil => exact absurd rfl hne
  | cons p ps =>
    unfold vecMax
    simp only [List.tail_cons, List.headD_cons]
    rcases foldl_max_mem ps p with h | h
    · rw [h]; simp
    · exact List.mem_cons_of_mem _ h

/-- the running minimum of `_initialize_tableaux_ig` (lines 339-340) is a lower bound -/
theorem foldl_min_le (g : Nat → K) (l : List Nat) (a : K) :
    l.foldl (fun mn i => if g i < mn then g i else mn) a ≤ a ∧
    ∀ i ∈ l, l.foldl (fun mn i => if g i < mn then g i else mn) a ≤ g i := by
  induction l generalizing a with
  | nil => simp
  | cons x l ih =>
    rw [List.foldl_cons]
    obtain ⟨h1, h2⟩ := ih (if g x < a then g x else a)
    have hx : (if g x < a then g x else a) ≤ a ∧ (if g x < a then g x else a) ≤ g x := by
      split_ifs with hc
      · exact ⟨le_of_lt hc, le_refl _⟩
      · exact ⟨le_refl _, not_lt.mp hc⟩
    refine ⟨le_trans h1 hx.1, ?_⟩
    intro i hi
    rcases List.mem_cons.mp hi with rfl | hi
    · exact le_trans h1 hx.2
    · exact h2 i hi

/-- **the imitator's payoffs are shifted to be `≥ 1`** (lines 336-347): every entry of the payoff
    block of `tableaux[1]` is at least one, as Lemke–Howson's ratio tests require -/
theorem igT1_payoff_ge_one (m : Nat) (X Y : List (List K)) (i j : Nat) (hi : i < m) (hj : j < m) :
    1 ≤ (igT1 m X Y).get i (m + j) := by
  unfold igT1
  simp only
  rw [M.get_tab _ _ _ _ _ hi (by omega)]
  rw [if_neg (by omega), if_pos (by omega)]
  have hjj : m + j - m = j := by omega
  rw [hjj]
  have hmin : (Array.ofFn (n := m) fun j : Fin m =>
      (List.range m).foldl (fun mn i =>
        if (M.tab m m fun i j => sqSum (X.getD i []) (Y.getD j []) * (-(1 : K))).get i j.1 < mn
        then (M.tab m m fun i j => sqSum (X.getD i []) (Y.getD j []) * (-(1 : K))).get i j.1 else mn) 0).getD j 0
      ≤ (M.tab m m fun i j => sqSum (X.getD i []) (Y.getD j []) * (-(1 : K))).get i j := by
    have e : (Array.ofFn (n := m) fun j : Fin m =>
      (List.range m).foldl (fun mn i =>
        if (M.tab m m fun i j => sqSum (X.getD i []) (Y.getD j []) * (-(1 : K))).get i j.1 < mn
        then (M.tab m m fun i j => sqSum (X.getD i []) (Y.getD j []) * (-(1 : K))).get i j.1 else mn) 0).getD j 0
        = (List.range m).foldl (fun mn i =>
        if (M.tab m m fun i j => sqSum (X.getD i []) (Y.getD j []) * (-(1 : K))).get i j < mn
        then (M.tab m m fun i j => sqSum (X.getD i []) (Y.getD j []) * (-(1 : K))).get i j else mn) 0 := by
      simp [Array.getD, hj]
    rw [e]
    exact (foldl_min_le (fun i => (M.tab m m fun i j => sqSum (X.getD i []) (Y.getD j []) * (-(1 : K))).get i j)
      (List.range m) 0).2 i (List.mem_range.mpr hi)
  linarith

end QE.C15
