/-
  C04 — the simplex run inside `minmax` never ends in status 3.  `minmax` ignores the
  status it gets back, so this matters: the lexicographic columns `n .. n+m` of the game
  tableau do *not* contain an identity (row `m`, `Σ y = 1`, is zero there), but together
  with the right-hand side they do, and the first pass of the ratio test is on the
  right-hand side — so ties are still always resolved; and the game LP is bounded.
-/
import QEProofs.Lemmas.C04Tie
import QEProofs.Lemmas.C04Minmax
import Mathlib.Algebra.Order.AbsoluteValue.Basic
namespace QE.C04
open QE QE.Pivot Finset

variable {K : Type} [Field K] [LinearOrder K] [IsStrictOrderedRing K]

omit [LinearOrder K] [IsStrictOrderedRing K] in
theorem span_coeff_cols (T0 : M K) (L N : ℕ) (col : ℕ → ℕ) (v : ℕ → K)
    (hcolN : ∀ q, q < L → col q < N + 1)
    (hid : ∀ q q', q < L → q' < L → T0.get q (col q') = if q = q' then 1 else 0)
    (h : InSpan T0 L N v) : ∀ j, j < N + 1 → v j = ∑ q ∈ range L, v (col q) * T0.get q j := by
  obtain ⟨w, hw⟩ := h
  have hwq : ∀ q', q' < L → v (col q') = w q' := by
    intro q' hq'
    rw [hw (col q') (hcolN q' hq')]
    have : ∀ q ∈ range L, w q * T0.get q (col q') = if q = q' then w q else 0 := by
      intro q hq
      rw [hid q q' (Finset.mem_range.mp hq) hq']
      split_ifs <;> simp
    rw [Finset.sum_congr rfl this, Finset.sum_ite_eq']
    simp [hq']
  intro j hj
  rw [hw j hj]
  exact Finset.sum_congr rfl (fun q hq => by rw [hwq q (Finset.mem_range.mp hq)])

/-- **no unresolved tie, general form**: the initial rows have an identity in columns `col q`,
    each of which is either the right-hand side or one of the lexicographic columns -/
theorem no_unresolved_tie_cols (T0 T : M K) (b : List ℕ) (L N ss c : ℕ) (col : ℕ → ℕ)
    (hs : Shape T L N) (hc : Canon T b L N)
    (hid : ∀ q q', q < L → q' < L → T0.get q (col q') = if q = q' then 1 else 0)
    (hcov : ∀ q, q < L → col q = N ∨ (ss ≤ col q ∧ col q < ss + L))
    (hssN : ss + L ≤ N + 1)
    (hspan : RowsSpan T0 T L N)
    (hnf : (lexMinRatio (dropLast T) c ss (0 : K) 0).1 = false) :
    ∀ i, i < L → T.get i c ≤ 0 := by
  have hL : T.nr - 1 = L := by rw [hs.1]; rfl
  have hN : T.nc - 1 = N := by rw [hs.2]; rfl
  rcases lexMinRatio_not_found (dropLast T) c ss 0 0 hnf with hall | htie
  · simp only [dropLast_nr, dropLast_get, hL] at hall; exact hall
  · exfalso
    simp only [dropLast_nr, dropLast_nc, hL] at htie
    set a0 := minRatioNoTie (dropLast T) c (T.nc - 1) (List.range L) (0 : K) 0 with ha0
    have hloop : (lexLoop (dropLast T) c (0 : K) 0 ((List.range L).map (· + ss)) a0).1 = false := by
      unfold lexMinRatio at hnf
      simp only [dropLast_nr, dropLast_nc, hL] at hnf
      rw [← ha0] at hnf
      have h1 : ¬ a0.length = 1 := by omega
      rw [if_neg h1, if_pos htie] at hnf
      exact hnf
    have hpos0 : ∀ i ∈ a0, i ∈ List.range L ∧ (0 : K) < (dropLast T).get i c :=
      fun i hi => minRatioNoTie_mem (dropLast T) c (T.nc - 1) (List.range L) 0 0 i hi
    obtain ⟨gnd, glen, gmem, gtie⟩ := lexLoop_false (dropLast T) c 0 ((List.range L).map (· + ss)) a0
      (minRatioNoTie_nodup _ _ _ _ _ _ List.nodup_range) htie (fun i hi => (hpos0 i hi).2) hloop
    set af := (lexLoop (dropLast T) c (0 : K) 0 ((List.range L).map (· + ss)) a0).2 with haf
    obtain ⟨i, i', hi, hi', hne⟩ : ∃ i i', i ∈ af ∧ i' ∈ af ∧ i ≠ i' := by
      match hm : af, gnd, glen with
      | x :: y :: rest, hnd, _ =>
        refine ⟨x, y, by simp, by simp, ?_⟩
        intro e; subst e; simp at hnd
      | [], _, hl => simp at hl
      | [x], _, hl => simp at hl
    have hiL : i < L := List.mem_range.mp (hpos0 i (gmem i hi)).1
    have hi'L : i' < L := List.mem_range.mp (hpos0 i' (gmem i' hi')).1
    have hpi : (0 : K) < T.get i c := (hpos0 i (gmem i hi)).2
    have hpi' : (0 : K) < T.get i' c := (hpos0 i' (gmem i' hi')).2
    have hrhs : T.get i N / T.get i c = T.get i' N / T.get i' c := by
      have := minRatioNoTie_ratio_eq (dropLast T) c (T.nc - 1) (List.range L) 0 i i' (gmem i hi) (gmem i' hi')
      simp only [dropLast_get, hN] at this
      exact this
    have hblock : ∀ q, q < L → T.get i (col q) / T.get i c = T.get i' (col q) / T.get i' c := by
      intro q hq
      rcases hcov q hq with e | ⟨h1, h2⟩
      · rw [e]; exact hrhs
      · by_cases hqc : col q = c
        · rw [hqc, div_self (ne_of_gt hpi), div_self (ne_of_gt hpi')]
        · have hmemj : col q ∈ (List.range L).map (· + ss) :=
            List.mem_map.mpr ⟨col q - ss, List.mem_range.mpr (by omega), by omega⟩
          have := gtie (col q) hmemj hqc i hi i' hi'
          simp only [dropLast_get] at this
          exact this
    have hcolN : ∀ q, q < L → col q < N + 1 := by
      intro q hq; rcases hcov q hq with e | ⟨_, h2⟩ <;> omega
    have hci := span_coeff_cols T0 L N col (fun j => T.get i j) hcolN hid (hspan i hiL)
    have hci' := span_coeff_cols T0 L N col (fun j => T.get i' j) hcolN hid (hspan i' hi'L)
    have hall : ∀ j, j < N + 1 → T.get i j / T.get i c = T.get i' j / T.get i' c := by
      intro j hj
      rw [hci j hj, hci' j hj, Finset.sum_div, Finset.sum_div]
      apply Finset.sum_congr rfl
      intro q hq
      have := hblock q (Finset.mem_range.mp hq)
      rw [mul_div_right_comm, mul_div_right_comm, this]
    have hb := (hc.2 i hiL)
    have h1 := hb.2 i (by omega)
    have h2 := hb.2 i' (by omega)
    rw [if_pos rfl] at h1
    rw [if_neg (fun e => hne e.symm)] at h2
    have := hall (b.getD i 0) (by omega)
    rw [h1, h2, zero_div] at this
    exact (ne_of_gt (div_pos one_pos hpi)) this

/-- **the simplex run of `minmax` never reports status 3** (exact arithmetic) -/
theorem minmax_not_status3 (A : ℕ → ℕ → K) (m n fuel : ℕ) (hm : 1 ≤ m) (hn : 1 ≤ n) :
    (minmax A m n fuel tol0).status ≠ 3 := by
  intro h3
  obtain ⟨hs2, hc2, hr2, hsol, hobj, hrsp, hcsp⟩ := mmStart_facts A m n hm hn
  set T0 := mmTableau A m n with hT0
  set L := m + 1 with hL
  set N := n + 1 + m with hN
  set b0 := mmBasis m n (mmPivRow T0 m) with hb0
  set r := solveTableau (tol0 : Tol K) false (fuel - 2) (mmStart A m n) b0 with hr
  have h3' : r.status = 3 := h3
  have hinv := solveTableau_inv0 false (fuel - 2) (mmStart A m n) b0 L N hs2 hc2 hr2
  obtain ⟨hrows, _⟩ := solveTableau_span false (fuel - 2) T0 (mmStart A m n) b0 L N
    (fun j => T0.get L j) hs2 hrsp hcsp
  rw [← hr] at hinv hrows
  obtain ⟨c, hpc, hnf⟩ := solveTableau_status3 (tol0 : Tol K) false (fuel - 2) (mmStart A m n) b0 h3'
  rw [← hr] at hpc hnf
  have hLr : r.T.nr - 1 = L := by rw [hinv.shape.1]; rfl
  have hNr : r.T.nc - 1 = N := by rw [hinv.shape.2]; rfl
  obtain ⟨hc1, hc2', _⟩ := pivotCol_some r.T false (tol0 : Tol K).fea c hpc
  rw [hLr, hNr] at hc1
  rw [hLr] at hc2'
  simp only [Bool.false_eq_true, if_false, Nat.sub_zero] at hc1
  have hss : r.T.nc - (r.T.nr - 1) - 1 = n := by rw [hinv.shape.1, hinv.shape.2]; omega
  rw [hss] at hnf
  -- identity columns of the game tableau: slack `n+1+q` for `q < m`, right-hand side for `q = m`
  let col : ℕ → ℕ := fun q => if q < m then n + 1 + q else N
  have hid : ∀ q q', q < L → q' < L → T0.get q (col q') = if q = q' then 1 else 0 := by
    intro q q' hq hq'
    simp only [col]
    by_cases h' : q' < m
    · rw [if_pos h', hT0, mmTableau_get A m n q _ (by omega) (by omega)]
      by_cases hqm : q < m
      · rw [if_pos hqm, if_neg (by omega), if_neg (by omega)]
        by_cases e : q = q'
        · subst e; simp
        · rw [if_neg (by omega), if_neg e]
      · have : q = m := by omega
        rw [if_neg hqm, if_pos this, if_neg (by omega), if_neg (by omega)]
    · have hq'm : q' = m := by omega
      rw [if_neg h', hT0, mmTableau_get A m n q _ (by omega) (by omega)]
      by_cases hqm : q < m
      · rw [if_pos hqm, if_neg (by omega), if_neg (by omega), if_neg (by omega), if_neg (by omega)]
      · have : q = m := by omega
        rw [if_neg hqm, if_pos this, if_pos (Or.inr rfl), if_pos (by omega)]
  have hcov : ∀ q, q < L → col q = N ∨ (n ≤ col q ∧ col q < n + L) := by
    intro q hq
    simp only [col]
    by_cases h' : q < m
    · right; rw [if_pos h']; omega
    · left; rw [if_neg h']
  have hcol := no_unresolved_tie_cols T0 r.T r.basis L N n c col hinv.shape hinv.canon hid hcov
    (by omega) hrows hnf
  -- the game LP is bounded: objective −v ≤ 0 on non-negative points
  set g := r.T.get L c with hg
  set t : K := |r.T.get L N| / g + 1 with ht
  have ht0 : 0 ≤ t := by
    have : 0 ≤ |r.T.get L N| / g := div_nonneg (abs_nonneg _) (le_of_lt hc2')
    linarith
  obtain ⟨hz0, hzrows, hzobj⟩ := inv0_ray (mmStart A m n) L N r.T r.basis c hinv hc1 hc2' hcol t ht0
  have hzrows0 := hzrows
  rw [hobj _ hzrows0, mm_obj A m n] at hzobj
  have hvn := hz0 n
  have hval : - r.T.get L N + t * g = |r.T.get L N| - r.T.get L N + g := by
    rw [ht, add_mul, div_mul_cancel₀ _ (ne_of_gt hc2')]; ring
  have := le_abs_self (r.T.get L N)
  have hgpos : (0 : K) < g := hc2'
  rw [← hg] at hzobj
  linarith

end QE.C04
