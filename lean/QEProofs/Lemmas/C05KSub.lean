/-
  Lemmas for property C05: `next_k_array` (model C16.nextKArray) keeps a strictly
  increasing array strictly increasing, so every support visited by the `while` loops of
  `_support_enumeration_gen` is a duplicate-free list of valid action indices.
-/
import QEModel.C05
import Mathlib.Data.List.Nodup
import Mathlib.Data.List.Range
import Mathlib.Tactic.Linarith

namespace QE.C05
open QE QE.C16

/-- strictly increasing, in terms of the total read `getD` -/
def Sorted' (a : List ℕ) : Prop := ∀ p q, p < q → q < a.length → a.getD p 0 < a.getD q 0

theorem getD_set' (a : List ℕ) (i j v : ℕ) :
    (a.set i v).getD j 0 = if i = j ∧ i < a.length then v else a.getD j 0 := by
  simp only [List.getD_eq_getElem?_getD, List.getElem?_set]
  by_cases h : i = j
  · subst h
    by_cases h2 : i < a.length
    · simp [h2]
    · simp [h2]
  · simp [h]

/-- the `while` loop of `next_k_array`, followed by the final write `a[i] = x` -/
theorem nkLoop_spec (k : ℕ) : ∀ (fuel : ℕ) (a : List ℕ) (i x : ℕ),
    a.length = k → 1 ≤ i → i < k → x = a.getD i 0 + 1 →
    (∀ p, p < i → a.getD p 0 = p) →
    (∀ p q, i ≤ p → p < q → q < k → a.getD p 0 < a.getD q 0) →
    i ≤ a.getD i 0 → k - i ≤ fuel →
    Sorted' ((nkLoop k fuel a i x).1.set (nkLoop k fuel a i x).2.1 (nkLoop k fuel a i x).2.2) ∧
    ((nkLoop k fuel a i x).1.set (nkLoop k fuel a i x).2.1 (nkLoop k fuel a i x).2.2).length = k
  | 0, a, i, x => by
    intro _ _ hik _ _ _ _ hf
    omega
  | fuel + 1, a, i, x => by
    intro hl h1 hik hx hpre htail hge hf
    unfold nkLoop
    by_cases hc : i < k - 1 ∧ x = a.getD (i + 1) 0
    · rw [if_pos hc]
      dsimp only
      have hi1 : i + 1 - 1 = i := by omega
      rw [hi1]
      apply nkLoop_spec k fuel (a.set i i) (i + 1) _
      · simpa using hl
      · omega
      · omega
      · rfl
      · intro p hp
        rw [getD_set']
        by_cases hpi : i = p
        · rw [if_pos ⟨hpi, by omega⟩]; exact hpi
        · rw [if_neg (by tauto)]; exact hpre p (by omega)
      · intro p q hp hpq hq
        rw [getD_set', getD_set', if_neg (by omega), if_neg (by omega)]
        exact htail p q (by omega) hpq hq
      · rw [getD_set', if_neg (by omega)]
        omega
      · omega
    · rw [if_neg hc]
      dsimp only
      refine ⟨?_, by simpa using hl⟩
      intro p q hpq hq
      have hq' : q < k := by simpa [hl] using hq
      rw [getD_set', getD_set']
      have hnext : i + 1 < k → a.getD i 0 + 1 < a.getD (i + 1) 0 := by
        intro h
        have h1 := htail i (i + 1) (le_refl _) (by omega) h
        have : ¬ (x = a.getD (i + 1) 0) := fun he => hc ⟨by omega, he⟩
        omega
      by_cases hp : i = p
      · rw [if_pos ⟨hp, by omega⟩, if_neg (by omega)]
        subst hp
        have h2 := hnext (by omega)
        by_cases hq1 : q = i + 1
        · subst hq1; omega
        · have := htail (i + 1) q (by omega) (by omega) hq'
          omega
      · rw [if_neg (by tauto)]
        by_cases hqi : i = q
        · rw [if_pos ⟨hqi, by omega⟩]
          have := hpre p (by omega)
          omega
        · rw [if_neg (by tauto)]
          by_cases hpl : p < i
          · have h3 := hpre p hpl
            by_cases hql : q < i
            · have := hpre q hql; omega
            · have := htail i q (le_refl _) (by omega) hq'
              omega
          · exact htail p q (by omega) hpq hq'

/-- `next_k_array` maps a strictly increasing array of length `k ≥ 1` to a strictly
    increasing array of the same length -/
theorem nextKArray_sorted (a : List ℕ) (hk : 1 ≤ a.length) (hs : Sorted' a) :
    Sorted' (nextKArray a) ∧ (nextKArray a).length = a.length := by
  unfold nextKArray
  dsimp only
  by_cases hc : a.length = 1 ∨ a.getD 0 0 + 1 < a.getD 1 0
  · rw [if_pos hc]
    refine ⟨?_, by simp⟩
    intro p q hpq hq
    have hq' : q < a.length := by simpa using hq
    have hq0 : ¬ (0 = q ∧ 0 < a.length) := by omega
    rw [getD_set', getD_set', if_neg hq0]
    by_cases hp : 0 = p
    · rw [if_pos ⟨hp, by omega⟩]
      rcases hc with hc | hc
      · omega
      · by_cases hq1 : q = 1
        · subst hq1; exact hc
        · have := hs 1 q (by omega) hq'
          omega
    · rw [if_neg (by tauto)]
      exact hs p q hpq hq'
  · rw [if_neg hc]
    have hk2 : 2 ≤ a.length := by
      by_contra h
      exact hc (Or.inl (by omega))
    have hl0 : (a.set 0 0).length = a.length := by simp
    have key := nkLoop_spec a.length a.length (a.set 0 0) 1 ((a.set 0 0).getD 1 0 + 1)
      hl0 (le_refl _) (by omega) rfl
      (by
        intro p hp
        have : p = 0 := by omega
        subst this
        rw [getD_set', if_pos ⟨rfl, by omega⟩])
      (by
        intro p q hp hpq hq
        rw [getD_set', getD_set', if_neg (by omega), if_neg (by omega)]
        exact hs p q hpq hq)
      (by
        rw [getD_set', if_neg (by omega)]
        have := hs 0 1 (by omega) (by omega)
        omega)
      (by omega)
    exact key

theorem sorted_range (k : ℕ) : Sorted' (List.range k) := by
  intro p q hpq hq
  have hq' : q < k := by simpa using hq
  have hp' : p < k := by omega
  simp [List.getD_eq_getElem?_getD, hq', hp', hpq]

/-- every array visited by `while a[-1] < n: …; next_k_array(a)` -/
theorem walkK_mem (n k : ℕ) (hk : 1 ≤ k) : ∀ (fuel : ℕ) (a : List ℕ), a.length = k → Sorted' a →
    ∀ s, s ∈ walkK n fuel a → s.length = k ∧ Sorted' s ∧ s.getLastD 0 < n
  | 0, _, _, _ => by intro s hs; simp [walkK] at hs
  | fuel + 1, a, hl, hs => by
    intro s hmem
    unfold walkK at hmem
    by_cases hc : a.getLastD 0 < n
    · rw [if_pos hc] at hmem
      rcases List.mem_cons.mp hmem with rfl | hmem
      · exact ⟨hl, hs, hc⟩
      · have h := nextKArray_sorted a (by omega) hs
        exact walkK_mem n k hk fuel (nextKArray a) (by rw [h.2, hl]) h.1 s hmem
    · rw [if_neg hc] at hmem
      simp at hmem

theorem getLastD_eq (s : List ℕ) : s.getLastD 0 = s.getD (s.length - 1) 0 := by
  rw [List.getLastD_eq_getLast?, List.getLast?_eq_getElem?, List.getD_eq_getElem?_getD]

theorem sorted_nodup (s : List ℕ) (hs : Sorted' s) : s.Nodup := by
  have hp : s.Pairwise (· < ·) := by
    rw [List.pairwise_iff_getElem]
    intro i j hi hj hij
    have := hs i j hij hj
    simpa [List.getD_eq_getElem?_getD, List.getElem?_eq_getElem hi, List.getElem?_eq_getElem hj]
      using this
  exact hp.imp (fun h => Nat.ne_of_lt h)

/-- **the supports visited by the enumeration**: every element of `kSubsets n k` has length
    `k`, no repeated entry, and entries below `n` -/
theorem kSubsets_mem (n k : ℕ) (s : List ℕ) (h : s ∈ kSubsets n k) :
    s.length = k ∧ s.Nodup ∧ ∀ a, a ∈ s → a < n := by
  unfold kSubsets at h
  by_cases hk : k = 0
  · rw [if_pos hk] at h; simp at h
  · rw [if_neg hk] at h
    obtain ⟨hl, hs, hlast⟩ := walkK_mem n k (by omega) _ (List.range k) (by simp) (sorted_range k) s h
    refine ⟨hl, sorted_nodup s hs, ?_⟩
    intro a ha
    obtain ⟨t, ht, rfl⟩ := List.mem_iff_getElem.mp ha
    rw [getLastD_eq] at hlast
    have hget : s.getD t 0 = s[t] := by
      simp [List.getD_eq_getElem?_getD, List.getElem?_eq_getElem ht]
    by_cases hte : t = s.length - 1
    · subst hte; rw [← hget]; exact hlast
    · have := hs t (s.length - 1) (by omega) (by omega)
      rw [← hget]; omega

end QE.C05
