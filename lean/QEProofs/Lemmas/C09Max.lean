/-
  Lemmas for C09, part 1: the "first maximum" loop of `_s_wise_max_argmax` /
  `ndarray.argmax`, the order on `Ext K`, and the shape of `bellman`.
-/
import Mathlib.Order.Basic
import Mathlib.Order.Defs.LinearOrder
import Mathlib.Tactic.Linarith
import QEModel.C09
namespace QE.C09

/-! ### the loop over an abstract strict weak order -/

section loop
variable {γ : Type} [LT γ] [DecidableLT γ]

/-- the loop `for j in js: if g j > g m: m = j` on an abstract key function -/
def firstMax (g : Nat → γ) (m : Nat) (js : List Nat) : Nat :=
  js.foldl (fun m j => if g m < g j then j else m) m

/-- Invariant of the scan over `range(a, a+k)` started with the first maximum `m` of `[lo, a)`:
    the result is the first maximum of `[lo, a+k)`. Only irreflexivity, transitivity and
    "`¬ x < y → x < z → y < z`" (totality of the induced preorder) are used. -/
theorem firstMax_range' (g : Nat → γ)
    (irr : ∀ x : γ, ¬ x < x) (tr : ∀ x y z : γ, x < y → y < z → x < z)
    (tot : ∀ x y z : γ, ¬ x < y → x < z → y < z) (lo : Nat) :
    ∀ (k a m : Nat), lo ≤ m → m < a →
      (∀ j, lo ≤ j → j < a → ¬ g m < g j) → (∀ j, lo ≤ j → j < m → g j < g m) →
      lo ≤ firstMax g m (List.range' a k) ∧ firstMax g m (List.range' a k) < a + k ∧
      (∀ j, lo ≤ j → j < a + k → ¬ g (firstMax g m (List.range' a k)) < g j) ∧
      (∀ j, lo ≤ j → j < firstMax g m (List.range' a k) →
        g j < g (firstMax g m (List.range' a k))) := by
  intro k
  induction k with
  | zero =>
    intro a m h1 h2 h3 h4
    simp only [List.range'_zero, firstMax, List.foldl_nil, Nat.add_zero]
    exact ⟨h1, h2, h3, h4⟩
  | succ k ih =>
    intro a m h1 h2 h3 h4
    have hstep : firstMax g m (List.range' a (k + 1))
        = firstMax g (if g m < g a then a else m) (List.range' (a + 1) k) := by
      simp [firstMax, List.range'_succ]
    rw [hstep]
    have e : a + (k + 1) = a + 1 + k := by omega
    rw [e]
    by_cases hc : g m < g a
    · rw [if_pos hc]
      refine ih (a + 1) a (by omega) (by omega) ?_ ?_
      · intro j hj1 hj2 hlt
        by_cases hja : j = a
        · subst hja; exact irr _ hlt
        · exact h3 j hj1 (by omega) (tr _ _ _ hc hlt)
      · intro j hj1 hj2
        exact tot _ _ _ (h3 j hj1 hj2) hc
    · rw [if_neg hc]
      refine ih (a + 1) m h1 (by omega) ?_ h4
      intro j hj1 hj2
      by_cases hja : j = a
      · subst hja; exact hc
      · exact h3 j hj1 (by omega)

end loop

/-! ### the order on `Ext K` -/

section ext
variable {K : Type} [LinearOrder K]

theorem Ext.lt_irrefl' (x : Ext K) : ¬ x < x := by
  cases x with
  | ninf => exact fun h => h
  | fin a => exact fun h => lt_irrefl a h

theorem Ext.lt_trans' (x y z : Ext K) : x < y → y < z → x < z := by
  cases x <;> cases y <;> cases z <;> intro h1 h2
  all_goals first
    | exact trivial
    | exact (h1 : False).elim
    | exact (h2 : False).elim
    | exact lt_trans (h1 : _ < _) (h2 : _ < _)

theorem Ext.lt_of_not_lt' (x y z : Ext K) : ¬ x < y → x < z → y < z := by
  cases x <;> cases y <;> cases z <;> intro h1 h2
  all_goals first
    | exact trivial
    | exact (h2 : False).elim
    | exact (h1 trivial).elim
    | exact lt_of_le_of_lt (not_lt.mp h1) h2

@[simp] theorem Ext.fin_lt_fin (a b : K) : (Ext.fin a < Ext.fin b) ↔ a < b := Iff.rfl
@[simp] theorem Ext.ninf_lt_fin (b : K) : (Ext.ninf < Ext.fin b) := trivial
@[simp] theorem Ext.not_lt_ninf (x : Ext K) : ¬ x < Ext.ninf := by
  cases x <;> exact fun h => h

end ext

end QE.C09
