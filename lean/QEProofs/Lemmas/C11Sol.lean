/-
  The basic solution of a Lemke tableau (`QEModel.C11`), the read-out
  `getSolution`, and the state after the first pivot.
-/
import QEProofs.Lemmas.C11Inv
import Mathlib.Algebra.BigOperators.Ring.Finset
import Mathlib.Algebra.BigOperators.Intervals
import Mathlib.Algebra.Order.BigOperators.Group.Finset

namespace QE.C11
open QE QE.Pivot Finset
set_option linter.unusedVariables false
set_option linter.unusedSectionVars false

variable {K : Type} [Field K] [LinearOrder K] [IsStrictOrderedRing K]

/-- basic solution of `(T, basis)`: variable `v` takes the right-hand side of the row in
    which it is basic, `0` if it is not basic -/
def basicSol (n : ℕ) (T : M K) (basis : ℕ → ℕ) (v : ℕ) : K :=
  ∑ i ∈ range n, if basis i = v then T.get i (2 * n + 1) else 0

/-- the basic solution satisfies every row of its own tableau (basic columns are unit
    vectors) -/
theorem basicSol_rowSat {n : ℕ} {T0 T : M K} {basis : ℕ → ℕ} (h : Inv1 n T0 T basis)
    (k : ℕ) (hk : k < n) : RowSat T (basicSol n T basis) k := by
  unfold RowSat
  have hnc1 : T.nc - 1 = 2 * n + 1 := by rw [h.nc]; rfl
  rw [hnc1]
  unfold basicSol
  simp only [Finset.mul_sum, mul_ite, mul_zero]
  rw [Finset.sum_comm]
  have key : ∀ i ∈ range n,
      ∑ j ∈ range (2 * n + 1), (if basis i = j then T.get k j * T.get i (2 * n + 1) else 0)
        = if k = i then T.get i (2 * n + 1) else 0 := by
    intro i hi
    have hi' := mem_range.mp hi
    rw [Finset.sum_ite_eq, if_pos (mem_range.mpr (by have := h.le i hi'; omega)),
      h.unit i k hi' hk]
    split <;> simp
  rw [Finset.sum_congr rfl key, Finset.sum_ite_eq, if_pos (mem_range.mpr hk)]

theorem basicSol_nonneg {n : ℕ} {T : M K} {basis : ℕ → ℕ} (hf : Feas n T) (v : ℕ) :
    0 ≤ basicSol n T basis v := by
  unfold basicSol
  apply Finset.sum_nonneg
  intro i hi
  split
  · exact hf i (mem_range.mp hi)
  · exact le_refl _

theorem basicSol_eq_zero {n : ℕ} {T : M K} {basis : ℕ → ℕ} (v : ℕ)
    (hv : ∀ i, i < n → basis i ≠ v) : basicSol n T basis v = 0 := by
  unfold basicSol
  apply Finset.sum_eq_zero
  intro i hi
  rw [if_neg (hv i (mem_range.mp hi))]

/-- complementarity of the basic solution: `w_i · z_i = 0` -/
theorem basicSol_compl {n : ℕ} {T0 T : M K} {basis : ℕ → ℕ} (h : Inv1 n T0 T basis)
    (i : ℕ) (hi : i < n) : basicSol n T basis i * basicSol n T basis (n + i) = 0 := by
  by_cases hex : ∃ a, a < n ∧ basis a = i
  · obtain ⟨a, ha, hai⟩ := hex
    have : basicSol n T basis (n + i) = 0 := by
      apply basicSol_eq_zero
      intro b hb e
      have := h.nopair b a hb ha (by omega)
      rw [hai] at this
      unfold complement at this
      rw [if_pos hi] at this
      omega
    rw [this, mul_zero]
  · have : basicSol n T basis i = 0 := by
      apply basicSol_eq_zero
      intro b hb e
      exact hex ⟨b, hb, e⟩
    rw [this, zero_mul]

/-! ### `getSolution` reads the `z` part of the basic solution -/

theorem getSolution_eq {n : ℕ} {T0 T : M K} {basis : ℕ → ℕ} (h : Inv1 n T0 T basis)
    (j : ℕ) (hj : j < n) : getSolution n T basis j = basicSol n T basis (n + j) := by
  have hnc1 : T.nc - 1 = 2 * n + 1 := by rw [h.nc]; rfl
  unfold getSolution basicSol
  rw [hnc1]
  have gen : ∀ m, m ≤ n →
      (List.range m).foldl (fun z i =>
        if n ≤ basis i ∧ basis i < 2 * n then setVec z (basis i - n) (T.get i (2 * n + 1)) else z)
        (fun _ => (0 : K)) j
      = ∑ i ∈ range m, if basis i = n + j then T.get i (2 * n + 1) else 0 := by
    intro m
    induction m with
    | zero => intro _; simp
    | succ m ih =>
      intro hm
      rw [List.range_succ, List.foldl_append, Finset.sum_range_succ]
      simp only [List.foldl_cons, List.foldl_nil]
      have ihm := ih (by omega)
      by_cases hb : basis m = n + j
      · have hguard : n ≤ basis m ∧ basis m < 2 * n := by omega
        rw [if_pos hguard, if_pos hb]
        have hz : ∑ i ∈ range m, (if basis i = n + j then T.get i (2 * n + 1) else 0) = 0 := by
          apply Finset.sum_eq_zero
          intro i hi
          have hi' := mem_range.mp hi
          rw [if_neg]
          intro e
          have := h.inj i m (by omega) (by omega) (by rw [e, hb])
          omega
        rw [hz, zero_add]
        unfold setVec
        rw [if_pos (by omega)]
      · rw [if_neg hb, add_zero, ← ihm]
        by_cases hguard : n ≤ basis m ∧ basis m < 2 * n
        · rw [if_pos hguard]
          unfold setVec
          rw [if_neg (by omega)]
        · rw [if_neg hguard]
  exact gen n (le_refl n)

/-! ### rows of the initial tableau -/

theorem init_rowSat (n : ℕ) (Mm : ℕ → ℕ → K) (q d : ℕ → K) (x : ℕ → K) (k : ℕ) (hk : k < n) :
    RowSat (initTableau n Mm q d) x k ↔
      x k - ∑ j ∈ range n, Mm k j * x (n + j) - d k * x (2 * n) = q k := by
  unfold RowSat
  have hnc1 : (initTableau n Mm q d).nc - 1 = 2 * n + 1 := rfl
  rw [hnc1, init_get n Mm q d k (2 * n + 1) hk (by omega)]
  rw [if_neg (by omega), if_neg (by omega), if_neg (by omega)]
  rw [Finset.sum_range_succ, two_mul, Finset.sum_range_add]
  have h1 : ∑ j ∈ range n, (initTableau n Mm q d).get k j * x j = x k := by
    have : ∀ j ∈ range n, (initTableau n Mm q d).get k j * x j = if k = j then x j else 0 := by
      intro j hj
      have hj' := mem_range.mp hj
      rw [init_get n Mm q d k j hk (by omega), if_pos hj']
      by_cases e : j = k
      · rw [if_pos e, if_pos e.symm, one_mul]
      · rw [if_neg e, if_neg (fun e' => e e'.symm), zero_mul]
    rw [Finset.sum_congr rfl this, Finset.sum_ite_eq, if_pos (mem_range.mpr hk)]
  have h2 : ∑ j ∈ range n, (initTableau n Mm q d).get k (n + j) * x (n + j)
      = - ∑ j ∈ range n, Mm k j * x (n + j) := by
    rw [← Finset.sum_neg_distrib]
    apply Finset.sum_congr rfl
    intro j hj
    have hj' := mem_range.mp hj
    rw [init_get n Mm q d k (n + j) hk (by omega), if_neg (by omega), if_pos (by omega)]
    rw [Nat.add_sub_cancel_left]; ring
  have h3 : (initTableau n Mm q d).get k (n + n) = - d k := by
    rw [init_get n Mm q d k (n + n) hk (by omega), if_neg (by omega), if_neg (by omega),
      if_pos (by omega)]
  rw [h1, h2, h3]
  constructor <;> intro h <;> linarith

end QE.C11
