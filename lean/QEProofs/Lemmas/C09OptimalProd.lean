/-
  Lemmas for C09, part 13: optimality of backward induction in PRODUCT form — values of
  Markov policy sequences are bounded by, and the reported policies attain, the
  backward-induction values.
-/
import QEProofs.Lemmas.C09Optimal
namespace QE.C09
set_option linter.unusedSectionVars false
section
variable {K : Type} [CommRing K] [LinearOrder K] [IsOrderedRing K]

/-- one period under policy `σ` (product form), finite values only -/
def stepPolicyP (d : ProdDDP K) (sigma : List Nat) (u : List K) : Option (List K) :=
  (d.tSigma sigma u).bind fun x => x.mapM Ext.toOption

/-- value of the policy sequence `σs = [σ_{T-1}, …, σ_0]` (last period first) from `u` -/
def seqValueP (d : ProdDDP K) : List (List Nat) → List K → Option (List K)
  | [], u => some u
  | sigma :: rest, u => (stepPolicyP d sigma u).bind fun u' => seqValueP d rest u'

theorem stepPolicyP_some (d : ProdDDP K) (sigma : List Nat) (u u' : List K)
    (h : stepPolicyP d sigma u = some u') :
    ∃ (b : List K) (Q' : List (List K)), d.rqSigma sigma = some (b.map Ext.fin, Q') ∧
      b.length = d.n ∧ Q'.length = d.n ∧
      ∀ w, stepPolicyP d sigma w = some (List.zipWith (fun r q => r + d.beta * dot q w) b Q') := by
  unfold stepPolicyP ProdDDP.tSigma at h
  cases hrq : d.rqSigma sigma with
  | none => simp [hrq] at h
  | some rq =>
    obtain ⟨R', Q'⟩ := rq
    simp only [hrq, Option.map_some, Option.bind_some] at h
    obtain ⟨_, _, hl1, hl2, _⟩ := prod_rqSigma_rows d sigma R' Q' hrq
    have hR := mapM_toOption_eq_some _ _ h
    have hfin : ∃ b : List K, R' = b.map Ext.fin := by
      apply all_fin_eq_map
      intro i hi
      have hi2 : i < Q'.length := by omega
      have hx := tSigmaOf_getElem? d.beta R' Q' u i hi hi2
      rw [hR, List.getElem?_map] at hx
      cases hu : u'[i]? with
      | none => rw [hu] at hx; cases hx
      | some y =>
        rw [hu] at hx
        simp only [Option.map_some, Option.some.injEq] at hx
        rw [List.getElem?_eq_getElem hi]
        cases hr : R'[i] with
        | fin r => exact ⟨r, rfl⟩
        | ninf =>
          exfalso
          have : R'.getD i Ext.ninf = Ext.ninf := by
            rw [List.getD_eq_getElem?_getD, List.getElem?_eq_getElem hi, hr]; rfl
          rw [this] at hx
          cases hx
    obtain ⟨b, hb⟩ := hfin
    subst hb
    refine ⟨b, Q', rfl, by simpa using hl1, hl2, ?_⟩
    intro w
    unfold stepPolicyP ProdDDP.tSigma
    rw [hrq]
    simp only [Option.map_some, Option.bind_some]
    rw [tSigmaOf_fin, mapM_toOption_map_fin]

/-- non-negative transition probabilities of a product-form instance -/
def ProdDDP.QNonneg (d : ProdDDP K) : Prop := ∀ qs ∈ d.Q, ∀ row ∈ qs, ∀ x ∈ row, (0 : K) ≤ x

theorem prod_row_nonneg (d : ProdDDP K) (hQ : d.QNonneg) (s a : Nat) :
    ∀ x ∈ (d.Q.getD s []).getD a [], 0 ≤ x := by
  by_cases hs : s < d.Q.length
  · have : d.Q.getD s [] = d.Q[s] := by simp [List.getD_eq_getElem?_getD, List.getElem?_eq_getElem hs]
    rw [this]
    exact getD_nonneg d.Q[s] (hQ _ (List.getElem_mem hs)) a
  · have : d.Q.getD s [] = [] := by
      simp [List.getD_eq_getElem?_getD, List.getElem?_eq_none (by omega : d.Q.length ≤ s)]
    rw [this]; intro x hx; simp at hx

/-- one period: a policy step from `u` is dominated by the Bellman step from `v ≥ u` -/
theorem step_le_bellmanP (d : ProdDDP K) (hf : d.Feasible) (hn : d.n = d.R.length) (hβ : 0 ≤ d.beta)
    (hQ : d.QNonneg) (sigma : List Nat)
    (u v u' tv : List K) (huv : List.Forall₂ (· ≤ ·) u v)
    (hstep : stepPolicyP d sigma u = some u') (hT : (d.bellman v).1 = tv.map Ext.fin) :
    List.Forall₂ (· ≤ ·) u' tv := by
  obtain ⟨b, Q', hrq, hbl, hQl, hform⟩ := stepPolicyP_some d sigma u u' hstep
  have hu' : u' = List.zipWith (fun r q => r + d.beta * dot q u) b Q' := by
    have := hform u; rw [hstep] at this; exact Option.some.inj this
  obtain ⟨hsl, hsm, _, _, hrows⟩ := prod_rqSigma_rows d sigma _ _ hrq
  have htvl : tv.length = d.n := by
    have := congrArg List.length hT
    rw [ProdDDP.bellman_length d v hf.lenQ, List.length_map] at this; omega
  apply forall₂_of_getElem?
  · rw [hu', List.length_zipWith, hbl, hQl, htvl]; simp
  · intro i a c ha hc
    have hi : i < d.n := by
      have := (List.getElem?_eq_some_iff.mp hc).1; omega
    have hiR : i < d.R.length := by omega
    obtain ⟨hRi, hQi⟩ := hrows i hi
    -- the action of the policy in state i
    have hsi : sigma.getD i 0 < d.m := by
      apply hsm
      rw [List.getD_eq_getElem?_getD, List.getElem?_eq_getElem (by omega : i < sigma.length)]
      exact List.getElem_mem _
    obtain ⟨a0, _, hTv, _, hmax, _⟩ := prod_bellman_spec d v i hiR hf.lenQ d.m (by omega) (hf.rowR i hiR) (hf.rowQ i hiR)
    have hdom := hmax (sigma.getD i 0) hsi
    rw [hT, List.getElem?_map, hc] at hTv
    simp only [Option.map_some, Option.some.injEq] at hTv
    -- reward of the chosen action is the finite b[i]
    have hbi : (d.R.getD i []).getD (sigma.getD i 0) .ninf = Ext.fin b[i] := by
      rw [List.getElem?_map, List.getElem?_eq_getElem (by omega : i < b.length)] at hRi
      simp only [Option.map_some, Option.some.injEq] at hRi
      exact hRi.symm
    have hle : b[i] + d.beta * dot ((d.Q.getD i []).getD (sigma.getD i 0) []) v ≤ c := by
      rw [← hTv] at hdom
      unfold ProdDDP.actVal qval at hdom
      rw [hbi] at hdom
      exact not_lt.mp hdom
    rw [hu', List.getElem?_zipWith, List.getElem?_eq_getElem (by omega : i < b.length), hQi] at ha
    simp only [Option.some.injEq] at ha
    subst ha
    have hd := dot_mono _ u v (prod_row_nonneg d hQ i (sigma.getD i 0)) huv
    calc b[i] + d.beta * dot ((d.Q.getD i []).getD (sigma.getD i 0) []) u
        ≤ b[i] + d.beta * dot ((d.Q.getD i []).getD (sigma.getD i 0) []) v :=
          add_le_add (le_refl _) (mul_le_mul_of_nonneg_left hd hβ)
      _ ≤ c := hle

/-- upper bound by induction on the horizon (product form) -/
theorem seqValueP_le_backward (d : ProdDDP K) (hf : d.Feasible) (hn : d.n = d.R.length)
    (hβ : 0 ≤ d.beta) (hQ : d.QNonneg) :
    ∀ (σs : List (List Nat)) (u v x : List K) (vs : List (List K)) (ss : List (List Nat)),
      List.Forall₂ (· ≤ ·) u v →
      seqValueP d σs u = some x → backwardLoop (DDP.prod d) σs.length v = some (vs, ss) →
      ∃ w, (vs ++ [v])[0]? = some w ∧ List.Forall₂ (· ≤ ·) x w := by
  intro σs
  induction σs with
  | nil =>
    intro u v x vs ss huv hx hb
    simp only [seqValueP, Option.some.injEq] at hx
    simp only [List.length_nil, backwardLoop, Option.some.injEq, Prod.mk.injEq] at hb
    obtain ⟨rfl, rfl⟩ := hb
    subst hx
    exact ⟨v, by simp, huv⟩
  | cons σ rest ih =>
    intro u v x vs ss huv hx hb
    simp only [seqValueP] at hx
    cases hstep : stepPolicyP d σ u with
    | none => simp [hstep] at hx
    | some u' =>
      simp only [hstep, Option.bind_some] at hx
      simp only [List.length_cons, backwardLoop] at hb
      cases hm : ((DDP.prod d).bellman v).1.mapM Ext.toOption with
      | none => simp [hm] at hb
      | some tv =>
        simp only [hm] at hb
        cases hbl : backwardLoop (DDP.prod d) rest.length tv with
        | none => simp [hbl] at hb
        | some p =>
          obtain ⟨vs', ss'⟩ := p
          simp only [hbl, Option.some.injEq, Prod.mk.injEq] at hb
          obtain ⟨rfl, rfl⟩ := hb
          have hT : (d.bellman v).1 = tv.map Ext.fin := mapM_toOption_eq_some _ _ hm
          have hu'tv := step_le_bellmanP d hf hn hβ hQ σ u v u' tv huv hstep hT
          obtain ⟨w, hw, hxw⟩ := ih u' tv x vs' ss' hu'tv hx hbl
          refine ⟨w, ?_, hxw⟩
          rw [List.getElem?_append_left (by simp)]
          exact hw


theorem ProdDDP.bellman_snd_length (d : ProdDDP K) (v : List K) (h : d.Q.length = d.R.length) :
    (d.bellman v).2.length = d.R.length := by
  simp [ProdDDP.bellman, ProdDDP.vals, List.unzip_eq_map, h]

/-- one period under the greedy policy reproduces the Bellman operator's values (product form) -/
theorem greedy_stepP (d : ProdDDP K) (hf : d.Feasible) (hn : d.n = d.R.length) (v tv : List K)
    (hT : (d.bellman v).1 = tv.map Ext.fin) : stepPolicyP d (d.bellman v).2 v = some tv := by
  set sg := (d.bellman v).2 with hsg
  have hsl : sg.length = d.n := by rw [hn]; exact ProdDDP.bellman_snd_length d v hf.lenQ
  have hspec : ∀ i, i < d.n → ∃ a, a < d.m ∧ (d.bellman v).1[i]? = some (d.actVal v i a) ∧ sg[i]? = some a := by
    intro i hi
    have hiR : i < d.R.length := by omega
    obtain ⟨b, hb, _⟩ := hf.feas i hiR
    obtain ⟨a, ha, h1, h2, _, _⟩ := prod_bellman_spec d v i hiR hf.lenQ d.m (by omega) (hf.rowR i hiR) (hf.rowQ i hiR)
    exact ⟨a, ha, h1, h2⟩
  have hall : sg.all (fun a => decide (a < d.m)) = true := by
    rw [List.all_eq_true]
    intro a ha
    obtain ⟨i, hi, rfl⟩ := List.mem_iff_getElem.mp ha
    obtain ⟨a', ha', _, h2⟩ := hspec i (by omega)
    rw [List.getElem?_eq_getElem hi] at h2
    have : sg[i] = a' := Option.some.inj h2
    simp [this, ha']
  have hrq : d.rqSigma sg = some
      ((List.range d.n).map (fun s => (d.R.getD s []).getD (sg.getD s 0) Ext.ninf),
       (List.range d.n).map (fun s => (d.Q.getD s []).getD (sg.getD s 0) [])) := by
    unfold ProdDDP.rqSigma
    rw [if_pos ⟨hsl, hall⟩]
  have heq : tSigmaOf d.beta
      ((List.range d.n).map (fun s => (d.R.getD s []).getD (sg.getD s 0) Ext.ninf),
       (List.range d.n).map (fun s => (d.Q.getD s []).getD (sg.getD s 0) [])) v = (d.bellman v).1 := by
    apply List.ext_getElem?
    intro i
    by_cases hi : i < d.n
    · obtain ⟨a, _, h1, h2⟩ := hspec i hi
      rw [tSigmaOf_getElem? _ _ _ v i (by simp; exact hi) (by simp; exact hi), h1]
      have hsa : sg.getD i 0 = a := by rw [List.getD_eq_getElem?_getD, h2]; rfl
      simp only [List.getD_eq_getElem?_getD, List.getElem?_map, List.getElem?_range hi, Option.map_some,
        Option.getD_some]
      unfold ProdDDP.actVal
      simp only [List.getD_eq_getElem?_getD] at hsa ⊢
      rw [hsa]
    · rw [List.getElem?_eq_none (by simp [tSigmaOf]; omega),
        List.getElem?_eq_none (by rw [ProdDDP.bellman_length d v hf.lenQ]; omega)]
  unfold stepPolicyP ProdDDP.tSigma
  rw [hrq]
  simp only [Option.map_some, Option.bind_some]
  rw [heq, hT, mapM_toOption_map_fin]

/-- the reported policies attain the reported values, every horizon (product form) -/
theorem backward_attainedP (d : ProdDDP K) (hf : d.Feasible) (hn : d.n = d.R.length) :
    ∀ (k : Nat) (v : List K) (vs : List (List K)) (ss : List (List Nat)),
      backwardLoop (DDP.prod d) k v = some (vs, ss) →
      ∃ w, (vs ++ [v])[0]? = some w ∧ seqValueP d ss.reverse v = some w := by
  intro k
  induction k with
  | zero =>
    intro v vs ss h
    simp only [backwardLoop, Option.some.injEq, Prod.mk.injEq] at h
    obtain ⟨rfl, rfl⟩ := h
    exact ⟨v, by simp, by simp [seqValueP]⟩
  | succ k ih =>
    intro v vs ss h
    simp only [backwardLoop] at h
    cases hm : ((DDP.prod d).bellman v).1.mapM Ext.toOption with
    | none => simp [hm] at h
    | some tv =>
      simp only [hm] at h
      cases hbl : backwardLoop (DDP.prod d) k tv with
      | none => simp [hbl] at h
      | some p =>
        obtain ⟨vs', ss'⟩ := p
        simp only [hbl, Option.some.injEq, Prod.mk.injEq] at h
        obtain ⟨rfl, rfl⟩ := h
        have hT : (d.bellman v).1 = tv.map Ext.fin := mapM_toOption_eq_some _ _ hm
        obtain ⟨w, hw, hseq⟩ := ih tv vs' ss' hbl
        refine ⟨w, ?_, ?_⟩
        · rw [List.getElem?_append_left (by simp)]; exact hw
        · rw [List.reverse_append, List.reverse_singleton, List.singleton_append]
          simp only [seqValueP]
          have : stepPolicyP d ((DDP.prod d).bellman v).2 v = some tv := greedy_stepP d hf hn v tv hT
          rw [this]
          exact hseq


/-- an accepted product-form instance has `0 ≤ β ≤ 1` -/
theorem mkProd_ok_beta (beta : K) (R : List (List (Ext K))) (Q : List (List (List K))) (d : ProdDDP K)
    (h : mkProd beta R Q = .ok d) : 0 ≤ beta ∧ beta ≤ 1 := by
  unfold mkProd at h
  simp only at h
  split at h
  · cases h
  · cases hc : checkFeasibleProd R with
    | error e' => rw [hc] at h; cases h
    | ok u =>
      rw [hc] at h
      simp only at h
      unfold checkBeta at h
      by_cases hb : 0 ≤ beta ∧ beta ≤ 1
      · exact hb
      · rw [if_neg hb] at h; cases h

end
end QE.C09
