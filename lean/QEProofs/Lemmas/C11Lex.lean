/-
  The lexicographic ratio test never fails to break a tie on a Lemke tableau
  (`QEModel.C11` / `QEModel.Pivot`, tolerances 0): two distinct rows of the
  `w`-block of a tableau that is row-equivalent to `[I | −M | −d | q]` and has unit
  basic columns cannot be proportional.
-/
import QEProofs.Lemmas.C11Run

namespace QE.C11
open QE QE.Pivot Finset
set_option linter.unusedVariables false
set_option linter.unusedSectionVars false

variable {K : Type} [Field K] [LinearOrder K] [IsStrictOrderedRing K]

/-- a combination `a·row_i − b·row_k` of two distinct rows that vanishes on the `w` columns
    `0..n-1` is impossible unless `a = 0` -/
theorem rows_not_proportional {n : ℕ} {T : M K} {basis : ℕ → ℕ} (Mm : ℕ → ℕ → K) (q d : ℕ → K)
    (h : Inv1 n (initTableau n Mm q d) T basis) (i k : ℕ) (hi : i < n) (hk : k < n) (hik : i ≠ k)
    (a b : K) (ha : a ≠ 0) (hprop : ∀ j, j < n → a * T.get i j = b * T.get k j) : False := by
  have hn : 0 < n := by omega
  have hnc1 : T.nc - 1 = 2 * n + 1 := by rw [h.nc]; rfl
  -- the combined equation holds on every solution of the initial system
  have key : ∀ x : ℕ → K, RowsSat (initTableau n Mm q d) x n →
      ∑ j ∈ range (2 * n + 1), (a * T.get i j - b * T.get k j) * x j
        = a * T.get i (2 * n + 1) - b * T.get k (2 * n + 1) := by
    intro x hx
    have hx' := (h.equiv x).mpr hx
    have e1 := hx' i hi
    have e2 := hx' k hk
    unfold RowSat at e1 e2
    rw [hnc1] at e1 e2
    rw [← e1, ← e2, Finset.mul_sum, Finset.mul_sum, ← Finset.sum_sub_distrib]
    apply Finset.sum_congr rfl
    intro j _; ring
  have g0 : ∀ j, j < n → a * T.get i j - b * T.get k j = 0 := fun j hj => sub_eq_zero.mpr (hprop j hj)
  -- right-hand side
  have grhs : a * T.get i (2 * n + 1) - b * T.get k (2 * n + 1) = 0 := by
    have hx0 : RowsSat (initTableau n Mm q d) (fun j => if j < n then q j else 0) n := by
      intro r hr
      rw [init_rowSat n Mm q d _ r hr]
      simp only [if_pos hr]
      rw [if_neg (by omega)]
      have : ∑ j ∈ range n, Mm r j * (if n + j < n then q (n + j) else 0) = 0 := by
        apply Finset.sum_eq_zero
        intro j _
        rw [if_neg (by omega), mul_zero]
      rw [this]; ring
    rw [← key _ hx0]
    apply Finset.sum_eq_zero
    intro j _
    by_cases hj : j < n
    · rw [g0 j hj, zero_mul]
    · simp only [if_neg hj, mul_zero]
  -- the `z`, `z₀` columns
  have gz : ∀ v, n ≤ v → v ≤ 2 * n → a * T.get i v - b * T.get k v = 0 := by
    intro v hv1 hv2
    have hxv : RowsSat (initTableau n Mm q d)
        (fun j => if j < n then q j - (initTableau n Mm q d).get j v
          else if j = v then 1 else 0) n := by
      intro r hr
      rw [init_rowSat n Mm q d _ r hr]
      simp only [if_pos hr]
      rw [if_neg (show ¬ 2 * n < n by omega)]
      have hsum : ∑ j ∈ range n, Mm r j *
          (if n + j < n then q (n + j) - (initTableau n Mm q d).get (n + j) v
            else if n + j = v then (1 : K) else 0)
          = if v < 2 * n then Mm r (v - n) else 0 := by
        have : ∀ j ∈ range n, Mm r j *
            (if n + j < n then q (n + j) - (initTableau n Mm q d).get (n + j) v
              else if n + j = v then (1 : K) else 0)
            = if v - n = j then (if n + j = v then Mm r j else 0) else 0 := by
          intro j _
          rw [if_neg (by omega)]
          by_cases e : n + j = v
          · rw [if_pos e, if_pos (by omega), if_pos e, mul_one]
          · rw [if_neg e, mul_zero]
            split <;> rfl
        rw [Finset.sum_congr rfl this, Finset.sum_ite_eq]
        by_cases hv : v < 2 * n
        · rw [if_pos (mem_range.mpr (by omega)), if_pos (by omega), if_pos hv]
        · rw [if_neg (by rw [mem_range]; omega), if_neg hv]
      rw [hsum, init_get n Mm q d r v hr (by omega), if_neg (by omega)]
      by_cases hv : v < 2 * n
      · rw [if_pos hv, if_pos hv, if_neg (by omega)]; ring
      · rw [if_neg hv, if_neg hv, if_pos (by omega), if_pos (by omega)]; ring
    have e := key _ hxv
    rw [grhs] at e
    rw [← e]
    symm
    rw [Finset.sum_eq_single v]
    · simp only [if_neg (show ¬ v < n by omega), if_true, mul_one]
    · intro j _ hjv
      by_cases hj : j < n
      · rw [g0 j hj, zero_mul]
      · simp only [if_neg hj, if_neg hjv, mul_zero]
    · intro hv; exact absurd (mem_range.mpr (by omega)) hv
  -- evaluate at the basic column of row `i`
  have hb := h.le i hi
  have hg : a * T.get i (basis i) - b * T.get k (basis i) = 0 := by
    by_cases hlt : basis i < n
    · exact g0 _ hlt
    · exact gz _ (by omega) hb
  rw [h.unit i i hi hi, h.unit i k hi hk, if_pos rfl, if_neg (fun e => hik e.symm)] at hg
  apply ha
  linarith

/-! ### the no-tie-breaking scan returns a sublist of its candidates -/

omit [IsStrictOrderedRing K] in
theorem minRatioStep_sublist (T : M K) (pc tc : ℕ) (tp td : K) (st : MRState K) (i : ℕ)
    (P : List ℕ) (h : st.2.Sublist P) :
    (minRatioStep T pc tc tp td st i).2.Sublist (P ++ [i]) := by
  obtain ⟨o, l⟩ := st
  unfold minRatioStep
  by_cases hle : T.get i pc ≤ tp
  · rw [if_pos hle]; exact h.trans (List.sublist_append_left P [i])
  · rw [if_neg hle]
    cases o with
    | none => exact List.sublist_append_right P [i]
    | some rmin =>
      show (if rmin + td < T.get i tc / T.get i pc then (some rmin, l)
         else if T.get i tc / T.get i pc < rmin - td then (some (T.get i tc / T.get i pc), [i])
         else (some rmin, l ++ [i])).2.Sublist (P ++ [i])
      split_ifs
      · exact h.trans (List.sublist_append_left P [i])
      · exact List.sublist_append_right P [i]
      · exact List.Sublist.append h (List.Sublist.refl _)

omit [IsStrictOrderedRing K] in
theorem minRatioNoTie_sublist (T : M K) (pc tc : ℕ) (cands : List ℕ) (tp td : K) :
    (minRatioNoTie T pc tc cands tp td).Sublist cands := by
  unfold minRatioNoTie
  have gen : ∀ (cs P : List ℕ) (st : MRState K), st.2.Sublist P →
      (cs.foldl (minRatioStep T pc tc tp td) st).2.Sublist (P ++ cs) := by
    intro cs
    induction cs with
    | nil => intro P st h; simpa using h
    | cons i cs ih =>
      intro P st h
      have := ih (P ++ [i]) _ (minRatioStep_sublist T pc tc tp td st i P h)
      simpa [List.append_assoc] using this
  simpa using gen cands [] (none, []) (List.Sublist.refl _)

/-! ### a failed lexicographic pass leaves two rows with equal ratios in every column tested -/

omit [IsStrictOrderedRing K] in
theorem lexLoop_false (T : M K) (c : ℕ) (js : List ℕ) :
    ∀ (a : List ℕ), a.Nodup → 2 ≤ a.length → (∀ i ∈ a, 0 < T.get i c) →
      (lexLoop T c (0 : K) 0 js a).1 = false →
      (lexLoop T c (0 : K) 0 js a).2.Nodup ∧ 2 ≤ (lexLoop T c (0 : K) 0 js a).2.length ∧
      (∀ i ∈ (lexLoop T c (0 : K) 0 js a).2, i ∈ a) ∧
      ∀ j ∈ js, j ≠ c → ∀ i ∈ (lexLoop T c (0 : K) 0 js a).2, ∀ k ∈ (lexLoop T c (0 : K) 0 js a).2,
        T.get i j / T.get i c = T.get k j / T.get k c := by
  induction js with
  | nil =>
    intro a hnd hlen hpos hf
    refine ⟨hnd, hlen, fun i hi => hi, ?_⟩
    intro j hj; simp at hj
  | cons j js ih =>
    intro a hnd hlen hpos hf
    unfold lexLoop at hf ⊢
    by_cases hj : j = c
    · rw [if_pos hj] at hf ⊢
      obtain ⟨r1, r2, r3, r4⟩ := ih a hnd hlen hpos hf
      refine ⟨r1, r2, r3, ?_⟩
      intro j' hj' hne
      rcases List.mem_cons.mp hj' with e | e
      · exact absurd (e.trans hj) hne
      · exact r4 j' e hne
    · rw [if_neg hj] at hf ⊢
      by_cases hl : (minRatioNoTie T c j a (0 : K) 0).length = 1
      · simp only [hl, if_true] at hf
        exact absurd hf (by simp)
      · simp only [hl, if_false] at hf ⊢
        have hsub := minRatioNoTie_sublist T c j a (0 : K) 0
        have hnd' : (minRatioNoTie T c j a (0 : K) 0).Nodup := hnd.sublist hsub
        have hne : minRatioNoTie T c j a (0 : K) 0 ≠ [] := by
          intro e
          have hall := (minRatioNoTie_eq_nil_iff T c j a (0 : K) 0).mp e
          obtain ⟨x, hx⟩ := List.exists_mem_of_length_pos (show 0 < a.length by omega)
          exact absurd (hall x hx) (not_le.mpr (hpos x hx))
        have hlen' : 2 ≤ (minRatioNoTie T c j a (0 : K) 0).length := by
          have := List.length_pos_iff.mpr hne
          omega
        have hpos' : ∀ i ∈ minRatioNoTie T c j a (0 : K) 0, 0 < T.get i c :=
          fun i hi => hpos i (hsub.subset hi)
        obtain ⟨r1, r2, r3, r4⟩ := ih _ hnd' hlen' hpos' hf
        refine ⟨r1, r2, fun i hi => hsub.subset (r3 i hi), ?_⟩
        intro j' hj' hne' i hi k hk
        rcases List.mem_cons.mp hj' with e | e
        · rw [e]
          exact minRatioNoTie_ratio_eq T c j a (0 : K) i k (r3 i hi) (r3 k hk)
        · exact r4 j' e hne' i hi k hk

/-- **the lexicographic ratio test always finds a row** on a Lemke tableau when the pivot
    column has a positive entry (tolerances 0) -/
theorem lexMinRatio_found_of_pos {n : ℕ} {T : M K} {basis : ℕ → ℕ} (Mm : ℕ → ℕ → K) (q d : ℕ → K)
    (h : Inv1 n (initTableau n Mm q d) T basis) (c : ℕ) (hex : ∃ k, k < n ∧ 0 < T.get k c) :
    (lexMinRatio T c 0 (0 : K) 0).1 = true := by
  by_contra hf
  have hf' : (lexMinRatio T c 0 (0 : K) 0).1 = false := by simpa using hf
  rcases lexMinRatio_not_found T c 0 (0 : K) 0 hf' with hall | h2
  · obtain ⟨k, hk, hpos⟩ := hex
    exact absurd (hall k (by rw [h.nr]; exact hk)) (not_le.mpr hpos)
  · -- a tie that the lexicographic pass did not resolve
    unfold lexMinRatio at hf'
    have h1 : (minRatioNoTie T c (T.nc - 1) (List.range T.nr) (0 : K) 0).length ≠ 1 := by omega
    simp only [h1, if_false, h2, if_true] at hf'
    have hsub := minRatioNoTie_sublist T c (T.nc - 1) (List.range T.nr) (0 : K) 0
    have hnd : (minRatioNoTie T c (T.nc - 1) (List.range T.nr) (0 : K) 0).Nodup :=
      (List.nodup_range).sublist hsub
    have hpos : ∀ i ∈ minRatioNoTie T c (T.nc - 1) (List.range T.nr) (0 : K) 0, 0 < T.get i c :=
      fun i hi => (minRatioNoTie_mem T c (T.nc - 1) (List.range T.nr) (0 : K) 0 i hi).2
    obtain ⟨r1, r2, r3, r4⟩ := lexLoop_false T c _ _ hnd h2 hpos hf'
    -- two distinct rows of the final list
    generalize hL : (lexLoop T c (0 : K) 0 ((List.range T.nr).map (· + 0))
      (minRatioNoTie T c (T.nc - 1) (List.range T.nr) (0 : K) 0)).2 = L at r1 r2 r3 r4
    match L, r1, r2 with
    | i :: k :: rest, r1, _ =>
      have hik : i ≠ k := by
        intro e
        rw [e] at r1
        exact (List.nodup_cons.mp r1).1 (by simp)
      have hi_mem := r3 i (by simp)
      have hk_mem := r3 k (by simp)
      have hi : i < n := by
        have := List.mem_range.mp (hsub.subset hi_mem); rw [h.nr] at this; exact this
      have hk : k < n := by
        have := List.mem_range.mp (hsub.subset hk_mem); rw [h.nr] at this; exact this
      have hpi := hpos i hi_mem
      have hpk := hpos k hk_mem
      apply rows_not_proportional Mm q d h i k hi hk hik (T.get i c)⁻¹ (T.get k c)⁻¹
        (inv_ne_zero (ne_of_gt hpi))
      intro j hj
      by_cases hjc : j = c
      · rw [hjc, inv_mul_cancel₀ (ne_of_gt hpi), inv_mul_cancel₀ (ne_of_gt hpk)]
      · have hjm : j ∈ (List.range T.nr).map (· + 0) := by
          rw [h.nr]; simp [hj]
        have := r4 j hjm hjc i (by simp) k (by simp)
        rw [div_eq_inv_mul, div_eq_inv_mul] at this
        exact this

/-- **status 2 is a genuine ray** (tolerances 0): the loop stops with status 2 only at a
    tableau whose entering column — non-basic, with non-basic complement — has no positive
    entry; and with status 1 only when the fuel is exhausted -/
theorem lemkeLoop_ray {n : ℕ} (hn : 0 < n) (Mm : ℕ → ℕ → K) (q d : ℕ → K) :
    ∀ (fuel : ℕ) (T : M K) (basis : ℕ → ℕ) (c it : ℕ),
      Inv1 n (initTableau n Mm q d) T basis → Enter n basis c → c < 2 * n →
      (lemkeLoop n (0 : K) 0 fuel T basis c it).status = 2 →
      ∃ c', c' < 2 * n ∧ Enter n (lemkeLoop n (0 : K) 0 fuel T basis c it).basis c' ∧
        ∀ k, k < n → (lemkeLoop n (0 : K) 0 fuel T basis c it).T.get k c' ≤ 0 := by
  intro fuel
  induction fuel with
  | zero =>
    intro T basis c it h he hc hs
    rw [lemkeLoop_zero] at hs; simp at hs
  | succ fuel ih =>
    intro T basis c it h he hc hs
    rw [lemkeLoop_succ] at hs ⊢
    by_cases hf : (lexMinRatio T c 0 (0 : K) 0).1 = false
    · rw [if_pos hf]
      refine ⟨c, hc, he, ?_⟩
      intro k hk
      by_contra hpos
      have := lexMinRatio_found_of_pos Mm q d h c ⟨k, hk, not_le.mp hpos⟩
      rw [hf] at this; exact absurd this (by simp)
    · rw [if_neg hf] at hs ⊢
      have hf' : (lexMinRatio T c 0 (0 : K) 0).1 = true := by simpa using hf
      obtain ⟨hr, hpos⟩ := lexMinRatio_found_pos T c 0 (0 : K) 0 hf'
      rw [h.nr] at hr
      have hp : T.get (lexMinRatio T c 0 (0 : K) 0).2 c ≠ 0 := ne_of_gt hpos
      have h' := inv1_pivot hn h he hr hp
      by_cases hl : basis (lexMinRatio T c 0 (0 : K) 0).2 = 2 * n
      · rw [if_pos hl] at hs; simp at hs
      · rw [if_neg hl] at hs ⊢
        have hlt : basis (lexMinRatio T c 0 (0 : K) 0).2 < 2 * n := by
          have := h.le _ hr; omega
        exact ih _ _ _ _ h' (enter_next h he hr hl) (complement_lt n _ hlt) hs

end QE.C11
