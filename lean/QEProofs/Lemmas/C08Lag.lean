/-
  Lemmas for C08, part 9: the generalised Laguerre recurrence of `_qnwgamma1` as a function of `n`,
  the polynomials in `K[X]`, and the derivative formula `X Lₙ' = n Lₙ − (n + a) Lₙ₋₁` behind `pp`.
-/
import QEProofs.Lemmas.C08Deriv
namespace QE.C08
open Polynomial

set_option linter.unusedSectionVars false

variable {K : Type} [Field K] [LinearOrder K] [IsStrictOrderedRing K]

/-- generalised Laguerre values by the recurrence of the code:
    `(n+2) L_{n+2} = (2n+3 + a − z) L_{n+1} − (n+1 + a) L_n`, `L_0 = 1`, `L_1 = 1 + a − z`. -/
def laguerreP (a z : K) : Nat → K
  | 0 => 1
  | 1 => 1 + a - z
  | n + 2 => ((((2 * n + 3 : Nat) : K) + a - z) * laguerreP a z (n + 1)
      - (((n + 1 : Nat) : K) + a) * laguerreP a z n) / ((n + 2 : Nat) : K)

theorem lagLoop_spec (a z : K) : ∀ (rem k : Nat),
    lagLoop a z rem (k + 1 + 1) (laguerreP a z (k + 1)) (laguerreP a z k)
      = (laguerreP a z (k + 1 + rem), laguerreP a z (k + rem)) := by
  intro rem
  induction rem with
  | zero => intro k; simp [lagLoop]
  | succ rem ih =>
    intro k
    rw [lagLoop]
    have e : ((((2 * (k + 1 + 1) - 1 : Nat) : K) + a - z) * laguerreP a z (k + 1)
        - (((k + 1 + 1 - 1 : Nat) : K) + a) * laguerreP a z k) / ((k + 1 + 1 : Nat) : K)
        = laguerreP a z (k + 2) := by
      rw [laguerreP]
      have h1 : 2 * (k + 1 + 1) - 1 = 2 * k + 3 := by omega
      have h2 : k + 1 + 1 - 1 = k + 1 := by omega
      rw [h1, h2]
    rw [e, ih (k + 1)]
    congr 2 <;> omega

/-- after the `for j in range(1, n+1)` loop of `_qnwgamma1`: `(p1, p2) = (L_n, L_{n−1})` -/
theorem lagLoop_succ (a z : K) (n : Nat) :
    lagLoop a z (n + 1) 1 1 0 = (laguerreP a z (n + 1), laguerreP a z n) := by
  rw [lagLoop]
  have e : ((((2 * 1 - 1 : Nat) : K) + a - z) * 1 - (((1 - 1 : Nat) : K) + a) * 0) / ((1 : Nat) : K)
      = laguerreP a z 1 := by
    simp [laguerreP]
  rw [e]
  have := lagLoop_spec a z n 0
  simp only [Nat.zero_add] at this
  rw [show (1 : K) = laguerreP a z 0 from rfl, this]
  congr 2; omega

/-- generalised Laguerre polynomials in `K[X]` by the same recurrence -/
noncomputable def laguerrePoly (a : K) : Nat → K[X]
  | 0 => 1
  | 1 => 1 + C a - X
  | n + 2 => C (1 / ((n + 2 : Nat) : K)) *
      ((((2 * n + 3 : Nat) : K[X]) + C a - X) * laguerrePoly a (n + 1)
        - (((n + 1 : Nat) : K[X]) + C a) * laguerrePoly a n)

theorem laguerrePoly_eval (a z : K) : ∀ n, (laguerrePoly a n).eval z = laguerreP a z n := by
  intro n
  induction n using Nat.strongRecOn with
  | _ n ih =>
    match n with
    | 0 => simp [laguerrePoly, laguerreP]
    | 1 => simp [laguerrePoly, laguerreP]
    | n + 2 =>
      rw [laguerrePoly, laguerreP]
      simp only [eval_mul, eval_C, eval_sub, eval_add, eval_natCast, eval_X, ih (n + 1) (by omega),
        ih n (by omega)]
      ring

theorem laguerrePoly_rec (a : K) (n : Nat) :
    ((n + 2 : Nat) : K[X]) * laguerrePoly a (n + 2)
      = (((2 * n + 3 : Nat) : K[X]) + C a - X) * laguerrePoly a (n + 1)
        - (((n + 1 : Nat) : K[X]) + C a) * laguerrePoly a n := by
  rw [laguerrePoly]
  have h : ((n + 2 : Nat) : K) ≠ 0 := by
    have : (n + 2 : Nat) ≠ 0 := by omega
    exact_mod_cast this
  have hc : ((n + 2 : Nat) : K[X]) * C (1 / ((n + 2 : Nat) : K)) = 1 := by
    rw [← C_eq_natCast, ← C_mul, mul_one_div_cancel h, C_1]
  rw [← mul_assoc, hc, one_mul]

/-- the two identities carried through the induction (`m = n + 1`):
    `Lₘ' − Lₘ₋₁' + Lₘ₋₁ = 0` and `X Lₘ' = m Lₘ − (m + a) Lₘ₋₁` -/
theorem laguerrePoly_deriv_pair (a : K) : ∀ n : Nat,
    (derivative (laguerrePoly a (n + 1)) - derivative (laguerrePoly a n) + laguerrePoly a n = 0) ∧
    (X * derivative (laguerrePoly a (n + 1))
        = ((n + 1 : Nat) : K[X]) * laguerrePoly a (n + 1) - (((n + 1 : Nat) : K[X]) + C a) * laguerrePoly a n) := by
  intro n
  induction n with
  | zero =>
    constructor
    · simp [laguerrePoly]
    · simp [laguerrePoly]
  | succ n ih =>
    obtain ⟨hF, hG⟩ := ih
    have h1 := laguerrePoly_rec a n
    have h2 := congrArg derivative h1
    simp only [derivative_mul, derivative_sub, derivative_add, derivative_natCast, derivative_X, derivative_C,
      zero_mul, zero_add, add_zero, zero_sub] at h2
    have hs : ((n + 2 : Nat) : K[X]) ≠ 0 := by
      have : (n + 2 : Nat) ≠ 0 := by omega
      exact_mod_cast this
    have hF' : derivative (laguerrePoly a (n + 2)) - derivative (laguerrePoly a (n + 1))
        + laguerrePoly a (n + 1) = 0 := by
      have : ((n + 2 : Nat) : K[X]) * (derivative (laguerrePoly a (n + 2)) - derivative (laguerrePoly a (n + 1))
          + laguerrePoly a (n + 1)) = ((n + 2 : Nat) : K[X]) * 0 := by
        push_cast at h2 hG ⊢
        linear_combination h2 + (((n : K[X]) + 1) + C a) * hF - hG
      exact mul_left_cancel₀ hs this
    refine ⟨hF', ?_⟩
    push_cast at h1 hG hF' ⊢
    linear_combination X * hF' + hG - h1

end QE.C08
