/-
  Lemmas for C19, part 5: the pairwise Gini sum of a sorted sample in terms of its cumulative sums
  (the identity behind `gini = 1 − 2·(area under the Lorenz curve)`).
-/
import Mathlib.Algebra.BigOperators.Group.Finset.Basic
import Mathlib.Algebra.BigOperators.Ring.Finset
import Mathlib.Tactic.LinearCombination
import Mathlib.Algebra.Order.BigOperators.Group.List
import Mathlib.Algebra.Order.BigOperators.Group.Finset
import QEProofs.Lemmas.C19Ineq
set_option linter.unusedSectionVars false
namespace QE.C19
open Finset

section
variable {K : Type} [Field K] [LinearOrder K] [IsStrictOrderedRing K]

/-- `Σ_{i<n} (s_i + s_{i+1})` for `s = acc :: cumsumFrom acc l` (twice the un-normalised trapezoid area) -/
def trapSum (acc : K) (l : List K) : K :=
  ∑ i ∈ range l.length, ((acc :: cumsumFrom acc l).getD i 0 + (acc :: cumsumFrom acc l).getD (i + 1) 0)

theorem trapSum_nil (acc : K) : trapSum acc [] = 0 := by simp [trapSum]

theorem trapSum_cons (acc x : K) (xs : List K) :
    trapSum acc (x :: xs) = (acc + (acc + x)) + trapSum (acc + x) xs := by
  unfold trapSum
  rw [List.length_cons, sum_range_succ']
  simp only [cumsumFrom, List.getD_cons_succ, List.getD_cons_zero]
  ring

/-- row sum of the smallest element: `Σ_b |x − b| = Σ b − m·x` -/
theorem giniRowSum_le_all (x : K) (l : List K) (h : ∀ b ∈ l, x ≤ b) :
    giniRowSum l x = l.sum - (l.length : K) * x := by
  unfold giniRowSum
  induction l with
  | nil => simp
  | cons b bs ih =>
    have hb : x ≤ b := h b (List.mem_cons_self)
    have ih' := ih (fun c hc => h c (List.mem_cons_of_mem _ hc))
    simp only [List.map_cons, List.sum_cons, List.length_cons, ih']
    rw [absv_eq_abs, abs_of_nonpos (by linarith)]
    push_cast
    ring

theorem giniRowSum_cons (x a : K) (l : List K) : giniRowSum (x :: l) a = absv (a - x) + giniRowSum l a := by
  unfold giniRowSum; simp

/-- peeling off the minimum: `G(x :: zs) = 2 (Σ zs − m x) + G(zs)` when `x ≤` every element of `zs` -/
theorem giniNum_cons_min (x : K) (zs : List K) (h : ∀ b ∈ zs, x ≤ b) :
    giniNum (x :: zs) = (1 + 1) * (zs.sum - (zs.length : K) * x) + giniNum zs := by
  unfold giniNum
  rw [List.map_cons, List.sum_cons, giniRowSum_cons, giniRowSum_le_all x zs h]
  have hsum : ∀ (l : List K), (∀ b ∈ l, x ≤ b) →
      (l.map (giniRowSum (x :: zs))).sum = (l.sum - (l.length : K) * x) + (l.map (giniRowSum zs)).sum := by
    intro l hl
    induction l with
    | nil => simp
    | cons a as ih =>
      have ha : x ≤ a := hl a (List.mem_cons_self)
      have ih' := ih (fun c hc => hl c (List.mem_cons_of_mem _ hc))
      simp only [List.map_cons, List.sum_cons, List.length_cons, ih', giniRowSum_cons]
      rw [absv_eq_abs, abs_of_nonneg (by linarith)]
      push_cast
      ring
  rw [hsum zs h, absv_eq_abs, sub_self, abs_zero]
  ring

/-- **key identity** for a sorted sample: `G(l) + 2·trapSum acc l = 2 n Σl + 4 n acc` -/
theorem giniNum_trapSum (l : List K) (hs : l.Pairwise (· ≤ ·)) (acc : K) :
    giniNum l + (1 + 1) * trapSum acc l
      = (1 + 1) * (l.length : K) * l.sum + (1 + 1) * (1 + 1) * (l.length : K) * acc := by
  induction l generalizing acc with
  | nil => simp [giniNum, trapSum_nil]
  | cons x zs ih =>
    have hp := List.pairwise_cons.mp hs
    rw [giniNum_cons_min x zs hp.1, trapSum_cons]
    have := ih hp.2 (acc + x)
    simp only [List.length_cons, List.sum_cons]
    push_cast
    linear_combination this

theorem cumsumFrom_nonneg (acc : K) (l : List K) (hacc : 0 ≤ acc) (hl : ∀ v ∈ l, 0 ≤ v) :
    ∀ v ∈ acc :: cumsumFrom acc l, 0 ≤ v := by
  induction l generalizing acc with
  | nil => intro v hv; simp [cumsumFrom] at hv; rw [hv]; exact hacc
  | cons x xs ih =>
    intro v hv
    rcases List.mem_cons.mp hv with rfl | hv'
    · exact hacc
    · exact ih (acc + x) (add_nonneg hacc (hl x List.mem_cons_self))
        (fun w hw => hl w (List.mem_cons_of_mem _ hw)) v hv'

theorem getD_nonneg_of_all (l : List K) (h : ∀ v ∈ l, 0 ≤ v) (i : ℕ) : 0 ≤ l.getD i 0 := by
  by_cases hi : i < l.length
  · rw [List.getD_eq_getElem _ _ hi]; exact h _ (List.getElem_mem _)
  · rw [List.getD_eq_default _ _ (by omega)]

theorem trapSum_nonneg (acc : K) (l : List K) (hacc : 0 ≤ acc) (hl : ∀ v ∈ l, 0 ≤ v) : 0 ≤ trapSum acc l := by
  unfold trapSum
  apply Finset.sum_nonneg
  intro i _
  have h := cumsumFrom_nonneg acc l hacc hl
  exact add_nonneg (getD_nonneg_of_all _ h i) (getD_nonneg_of_all _ h (i + 1))

theorem giniNum_nonneg (y : List K) : 0 ≤ giniNum y := by
  unfold giniNum
  apply List.sum_nonneg
  intro v hv
  obtain ⟨a, _, rfl⟩ := List.mem_map.mp hv
  unfold giniRowSum
  apply List.sum_nonneg
  intro w hw
  obtain ⟨b, _, rfl⟩ := List.mem_map.mp hw
  rw [absv_eq_abs]
  exact abs_nonneg _

theorem cumsum_getD_take (acc : K) (l : List K) (i : ℕ) (hi : i ≤ l.length) :
    (acc :: cumsumFrom acc l).getD i 0 = acc + (l.take i).sum := by
  induction l generalizing acc i with
  | nil =>
    have : i = 0 := by simpa using hi
    subst this; simp
  | cons x xs ih =>
    cases i with
    | zero => simp
    | succ i =>
      have := ih (acc + x) i (by simpa using hi)
      simp only [cumsumFrom, List.getD_cons_succ, List.take_succ_cons, List.sum_cons]
      rw [this]; ring

/-- in a sorted list the first `i` elements have at most the average: `n · Σ_{k<i} z_k ≤ i · Σ z` -/
theorem sorted_prefix_mean (z : List K) (hs : z.Pairwise (· ≤ ·)) (i : ℕ) (hi : i ≤ z.length) :
    (z.length : K) * (z.take i).sum ≤ (i : K) * z.sum := by
  by_cases hi0 : i = 0
  · subst hi0; simp
  by_cases hin : i = z.length
  · subst hin; simp
  have hlt : i < z.length := by omega
  -- pivot
  set m := z.getD (i - 1) 0 with hm
  have ha : ∀ v ∈ z.take i, v ≤ m := by
    intro v hv
    obtain ⟨j, hj, rfl⟩ := List.getElem_of_mem hv
    have hl : (z.take i).length = i := by simp; omega
    have hj' : j < i := by omega
    rw [List.getElem_take]
    have h' := sorted_getD_le hs j (i - 1) (by omega) (by omega)
    rw [List.getD_eq_getElem _ _ (by omega)] at h'
    exact h'
  have hb : ∀ v ∈ z.drop i, m ≤ v := by
    intro v hv
    obtain ⟨j, hj, rfl⟩ := List.getElem_of_mem hv
    rw [List.getElem_drop]
    have hj' : i + j < z.length := by
      have : (z.drop i).length = z.length - i := by simp
      omega
    have := sorted_getD_le hs (i - 1) (i + j) (by omega) hj'
    rw [List.getD_eq_getElem _ 0 hj'] at this
    exact this
  have h1 : (z.take i).sum ≤ (i : K) * m := by
    have := List.sum_le_card_nsmul (z.take i) m ha
    have hl : (z.take i).length = i := by simp; omega
    rw [hl, nsmul_eq_mul] at this
    exact this
  have h2 : ((z.length - i : ℕ) : K) * m ≤ (z.drop i).sum := by
    have := List.card_nsmul_le_sum (z.drop i) m hb
    have hl : (z.drop i).length = z.length - i := by simp
    rw [hl, nsmul_eq_mul] at this
    exact this
  have hsplit : z.sum = (z.take i).sum + (z.drop i).sum := by
    rw [← List.sum_append, List.take_append_drop]
  have hc : ((z.length - i : ℕ) : K) = (z.length : K) - (i : K) := by
    rw [Nat.cast_sub (by omega)]
  have hipos : (0 : K) ≤ (i : K) := Nat.cast_nonneg i
  have hnpos : (0 : K) ≤ (z.length : K) - (i : K) := by rw [← hc]; exact Nat.cast_nonneg _
  rw [hsplit]
  rw [hc] at h2
  nlinarith [mul_le_mul_of_nonneg_left h1 hnpos, mul_le_mul_of_nonneg_left h2 hipos]

theorem list_sum_eq_zero_iff (l : List K) (h : ∀ x ∈ l, 0 ≤ x) : l.sum = 0 ↔ ∀ x ∈ l, x = 0 := by
  induction l with
  | nil => simp
  | cons a as ih =>
    have ha : 0 ≤ a := h a List.mem_cons_self
    have has : ∀ x ∈ as, 0 ≤ x := fun x hx => h x (List.mem_cons_of_mem _ hx)
    have hs : 0 ≤ as.sum := List.sum_nonneg has
    rw [List.sum_cons]
    constructor
    · intro h0
      have h1 : a = 0 := by linarith
      have h2 : as.sum = 0 := by linarith
      intro x hx
      rcases List.mem_cons.mp hx with rfl | hx'
      · exact h1
      · exact (ih has).mp h2 x hx'
    · intro hall
      rw [hall a List.mem_cons_self, (ih has).mpr (fun x hx => hall x (List.mem_cons_of_mem _ hx))]
      ring

/-- the pairwise sum vanishes exactly for constant samples -/
theorem giniNum_eq_zero_iff (y : List K) : giniNum y = 0 ↔ ∀ a ∈ y, ∀ b ∈ y, a = b := by
  unfold giniNum
  have hrow : ∀ a, 0 ≤ giniRowSum y a := by
    intro a
    unfold giniRowSum
    apply List.sum_nonneg
    intro w hw
    obtain ⟨b, _, rfl⟩ := List.mem_map.mp hw
    rw [absv_eq_abs]; exact abs_nonneg _
  rw [list_sum_eq_zero_iff _ (by intro v hv; obtain ⟨a, _, rfl⟩ := List.mem_map.mp hv; exact hrow a)]
  constructor
  · intro h a ha b hb
    have h1 : giniRowSum y a = 0 := h _ (List.mem_map.mpr ⟨a, ha, rfl⟩)
    unfold giniRowSum at h1
    rw [list_sum_eq_zero_iff _ (by intro w hw; obtain ⟨c, _, rfl⟩ := List.mem_map.mp hw; rw [absv_eq_abs]; exact abs_nonneg _)] at h1
    have h2 := h1 _ (List.mem_map.mpr ⟨b, hb, rfl⟩)
    rw [absv_eq_abs, abs_eq_zero, sub_eq_zero] at h2
    exact h2
  · intro h v hv
    obtain ⟨a, ha, rfl⟩ := List.mem_map.mp hv
    unfold giniRowSum
    rw [list_sum_eq_zero_iff _ (by intro w hw; obtain ⟨c, _, rfl⟩ := List.mem_map.mp hw; rw [absv_eq_abs]; exact abs_nonneg _)]
    intro w hw
    obtain ⟨b, hb, rfl⟩ := List.mem_map.mp hw
    rw [h a ha b hb, sub_self, absv_eq_abs, abs_zero]

/-- the last trapezoid already contains the total: `trapSum 0 l ≥ Σ l` for a non-negative sample, and the excess
    is `Σ_{i<n−1}(s_i + s_{i+1}) + s_{n−1}` -/
theorem trapSum_ge_total (l : List K) (hl : ∀ v ∈ l, 0 ≤ v) (hne : l ≠ []) : l.sum ≤ trapSum 0 l := by
  obtain ⟨m, hm⟩ : ∃ m, l.length = m + 1 := ⟨l.length - 1, by
    have : 0 < l.length := List.length_pos_iff.mpr hne
    omega⟩
  unfold trapSum
  rw [hm, Finset.sum_range_succ]
  have hall := cumsumFrom_nonneg 0 l (le_refl _) hl
  have h1 : 0 ≤ ∑ i ∈ Finset.range m, ((0 :: cumsumFrom 0 l).getD i 0 + (0 :: cumsumFrom 0 l).getD (i + 1) 0) := by
    apply Finset.sum_nonneg
    intro i _
    exact add_nonneg (getD_nonneg_of_all _ hall i) (getD_nonneg_of_all _ hall (i + 1))
  have h2 : 0 ≤ (0 :: cumsumFrom 0 l).getD m 0 := getD_nonneg_of_all _ hall m
  have h3 : (0 :: cumsumFrom 0 l).getD (m + 1) 0 = l.sum := by
    have := cumsum_last (0 : K) l
    rw [hm, zero_add] at this
    exact this
  rw [h3]
  linarith

/-- equality in `trapSum_ge_total`: exactly when every entry except the last one is zero -/
theorem trapSum_eq_total_iff (l : List K) (hl : ∀ v ∈ l, 0 ≤ v) (hne : l ≠ []) :
    trapSum 0 l = l.sum ↔ ∀ i, i + 1 < l.length → l.getD i 0 = 0 := by
  obtain ⟨m, hm⟩ : ∃ m, l.length = m + 1 := ⟨l.length - 1, by
    have : 0 < l.length := List.length_pos_iff.mpr hne
    omega⟩
  have hall := cumsumFrom_nonneg 0 l (le_refl _) hl
  have hs : ∀ i, 0 ≤ (0 :: cumsumFrom 0 l).getD i 0 := fun i => getD_nonneg_of_all _ hall i
  have hlast : (0 :: cumsumFrom 0 l).getD (m + 1) 0 = l.sum := by
    have := cumsum_last (0 : K) l
    rw [hm, zero_add] at this
    exact this
  have hsplit : trapSum 0 l = ∑ i ∈ Finset.range m, ((0 :: cumsumFrom 0 l).getD i 0 + (0 :: cumsumFrom 0 l).getD (i + 1) 0)
      + (0 :: cumsumFrom 0 l).getD m 0 + l.sum := by
    unfold trapSum
    rw [hm, Finset.sum_range_succ, hlast]
    ring
  have hsumnn : 0 ≤ ∑ i ∈ Finset.range m, ((0 :: cumsumFrom 0 l).getD i 0 + (0 :: cumsumFrom 0 l).getD (i + 1) 0) :=
    Finset.sum_nonneg (fun i _ => add_nonneg (hs i) (hs (i + 1)))
  rw [hm]
  constructor
  · intro h i hi
    have hi' : i < m := by omega
    have h0 : ∑ i ∈ Finset.range m, ((0 :: cumsumFrom 0 l).getD i 0 + (0 :: cumsumFrom 0 l).getD (i + 1) 0) = 0 := by
      have := hs m
      linarith
    have hterm := (Finset.sum_eq_zero_iff_of_nonneg (fun i _ => add_nonneg (hs i) (hs (i + 1)))).mp h0 i
      (Finset.mem_range.mpr hi')
    have ha : (0 :: cumsumFrom 0 l).getD i 0 = 0 := by have := hs i; have := hs (i + 1); linarith
    have hb : (0 :: cumsumFrom 0 l).getD (i + 1) 0 = 0 := by have := hs i; have := hs (i + 1); linarith
    have hstep := cumsum_step (0 : K) l i (by omega)
    rw [ha, hb] at hstep
    linarith
  · intro h
    have hzero : ∀ i, i ≤ m → (0 :: cumsumFrom 0 l).getD i 0 = 0 := by
      intro i hi
      rw [cumsum_getD_take 0 l i (by omega), zero_add]
      apply List.sum_eq_zero
      intro x hx
      obtain ⟨j, hj, rfl⟩ := List.getElem_of_mem hx
      have hjl : j < i := by
        have : (l.take i).length ≤ i := by simp
        omega
      rw [List.getElem_take]
      have := h j (by omega)
      rw [List.getD_eq_getElem _ _ (by omega)] at this
      exact this
    rw [hsplit, hzero m (le_refl _)]
    have : ∑ i ∈ Finset.range m, ((0 :: cumsumFrom 0 l).getD i 0 + (0 :: cumsumFrom 0 l).getD (i + 1) 0) = 0 := by
      apply Finset.sum_eq_zero
      intro i hi
      have hi' : i < m := Finset.mem_range.mp hi
      rw [hzero i (by omega), hzero (i + 1) (by omega)]; ring
    rw [this]; ring

end
end QE.C19
