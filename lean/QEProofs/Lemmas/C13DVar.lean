/-
  Lemmas for C13, part 10: `linspace` is strictly increasing; the grids of `discrete_var`.
-/
import QEProofs.Lemmas.C13Grid
import QEProofs.Lemmas.C13Est
namespace QE.C13
open QE

section
variable {K : Type} [Field K] [LinearOrder K] [IsStrictOrderedRing K]

/-- `np.linspace(a, b, n)` is strictly increasing for `a < b`, `n ≥ 2` -/
theorem linspace_pairwise_lt (a b : K) (hab : a < b) (n : ℕ) (hn : 2 ≤ n) :
    (linspace a b n).Pairwise (· < ·) := by
  rw [List.pairwise_iff_getElem]
  intro i j hi hj hij
  have hi' : i < n := by rw [linspace_length] at hi; exact hi
  have hj' : j < n := by rw [linspace_length] at hj; exact hj
  have e1 := linspace_getD a b n hn i hi'
  have e2 := linspace_getD a b n hn j hj'
  rw [List.getD_eq_getElem?_getD, List.getElem?_eq_getElem hi] at e1
  rw [List.getD_eq_getElem?_getD, List.getElem?_eq_getElem hj] at e2
  simp only [Option.getD_some] at e1 e2
  rw [e1, e2]
  have hpos : (0 : K) < (n : K) - 1 := by
    have : (2 : K) ≤ (n : K) := by exact_mod_cast hn
    linarith
  have hstep : 0 < (b - a) / ((n : K) - 1) := div_pos (by linarith) hpos
  have hij' : (i : K) < (j : K) := by exact_mod_cast hij
  have := mul_lt_mul_of_pos_right hij' hstep
  linarith

omit [IsStrictOrderedRing K] in
/-- one point: `np.linspace(a, b, 1) = [a]` -/
theorem linspace_one (a b : K) : linspace a b 1 = [a] := by
  simp [linspace]

/-- a `linspace` with at least one point, `a ≤ b`, is non-empty and sorted -/
theorem linspace_sorted (a b : K) (hab : a < b) (n : ℕ) (hn : 1 ≤ n) :
    linspace a b n ≠ [] ∧ (linspace a b n).Pairwise (· ≤ ·) := by
  constructor
  · intro h
    have := linspace_length a b n
    rw [h] at this; simp at this; omega
  · by_cases h1 : n = 1
    · subst h1; rw [linspace_one]; simp
    · exact (linspace_pairwise_lt a b hab n (by omega)).imp (fun h => le_of_lt h)

omit [IsStrictOrderedRing K] in
theorem dvarGrids_length (sigmaVec : List K) (std : K) (sizes : List ℕ) :
    (dvarGrids sigmaVec std sizes).length = sigmaVec.length := by
  simp [dvarGrids]

omit [IsStrictOrderedRing K] in
theorem dvarGrids_getD (sigmaVec : List K) (std : K) (sizes : List ℕ) (i : ℕ) (hi : i < sigmaVec.length) :
    (dvarGrids sigmaVec std sizes).getD i []
      = linspace (-(std * sigmaVec.getD i 0)) (std * sigmaVec.getD i 0) (sizes.getD i 0) := by
  unfold dvarGrids
  rw [getD_map_range _ _ i hi]

end
end QE.C13
