/-
  C04 — work buffers are irrelevant: `_initialize_tableau` writing into a caller-supplied
  `tableau=` array of the right shape (`initTableauBuf`, the sequence of partial writes of the
  code) produces the tableau `initTableau P`, whatever the array contained before.
-/
import QEProofs.Lemmas.C04Init
namespace QE.C04
open QE QE.Pivot Finset

variable {K : Type} [Field K] [LinearOrder K]

omit [LinearOrder K] in
theorem writeRegion_get (old : M K) (inR : ℕ → ℕ → Bool) (f : ℕ → ℕ → K) (i j : ℕ)
    (hi : i < old.nr) (hj : j < old.nc) :
    (writeRegion old inR f).get i j = if inR i j then f i j else old.get i j := by
  unfold writeRegion
  rw [M.get_tab _ _ _ _ _ hi hj]

/-- **the previous content of the `tableau=` buffer does not matter** -/
theorem initTableauBuf_eq (buf : M K) (P : LP K) (hnr : buf.nr = P.m + P.k + 1)
    (hnc : buf.nc = P.n + P.m + (P.m + P.k) + 1) (i j : ℕ) (hi : i < P.m + P.k + 1)
    (hj : j < P.n + P.m + (P.m + P.k) + 1) :
    (initTableauBuf buf P).get i j = (initTableau P).get i j := by
  -- value of a constraint-row cell after the third group of writes
  have key : ∀ i', i' < P.m + P.k → ∀ j', j' < P.n + P.m + (P.m + P.k) + 1 →
      (writeRegion (writeRegion (writeRegion buf
          (fun i j => decide (i < P.m + P.k) && decide (j < P.n))
          (fun i j => if i < P.m then P.Aub i j else P.Aeq (i - P.m) j))
          (fun i j => decide (i < P.m + P.k) && decide (P.n ≤ j) && decide (j < P.n + P.m + (P.m + P.k)))
          (fun _ _ => 0))
          (fun i j => decide (i < P.m + P.k) && (decide (j < P.n) || decide (i < P.m ∧ j = P.n + i)
            || decide (j = P.n + P.m + i) || decide (j = P.n + P.m + (P.m + P.k))))
          (fun i j =>
            if j < P.n then
              (if (if i < P.m then P.bub i else P.beq (i - P.m)) < 0 then
                - (writeRegion (writeRegion buf
                    (fun i j => decide (i < P.m + P.k) && decide (j < P.n))
                    (fun i j => if i < P.m then P.Aub i j else P.Aeq (i - P.m) j))
                    (fun i j => decide (i < P.m + P.k) && decide (P.n ≤ j) && decide (j < P.n + P.m + (P.m + P.k)))
                    (fun _ _ => 0)).get i j
              else (writeRegion (writeRegion buf
                    (fun i j => decide (i < P.m + P.k) && decide (j < P.n))
                    (fun i j => if i < P.m then P.Aub i j else P.Aeq (i - P.m) j))
                    (fun i j => decide (i < P.m + P.k) && decide (P.n ≤ j) && decide (j < P.n + P.m + (P.m + P.k)))
                    (fun _ _ => 0)).get i j)
            else if j = P.n + P.m + (P.m + P.k) then
              (if (if i < P.m then P.bub i else P.beq (i - P.m)) < 0
                then - (if i < P.m then P.bub i else P.beq (i - P.m))
                else (if i < P.m then P.bub i else P.beq (i - P.m)))
            else if j = P.n + P.m + i then 1
            else (if (if i < P.m then P.bub i else P.beq (i - P.m)) < 0 then -1 else 1))).get i' j'
        = initEntry P i' j' := by
    intro i' hi' j' hj'
    have h1 : i' < buf.nr := by rw [hnr]; omega
    have h2 : j' < buf.nc := by rw [hnc]; exact hj'
    rw [writeRegion_get _ _ _ i' j' (by exact h1) (by exact h2)]
    unfold initEntry
    by_cases hjn : j' < P.n
    · -- structural cell
      simp only [hi', hjn, decide_true, Bool.true_and, Bool.true_or, if_true]
      rw [writeRegion_get _ _ _ i' j' (by exact h1) (by exact h2), writeRegion_get _ _ _ i' j' (by exact h1) (by exact h2)]
      have hn : ¬ P.n ≤ j' := by omega
      simp only [hi', hjn, hn, decide_true, decide_false, Bool.true_and, Bool.and_false, Bool.false_and,
        if_true, Bool.false_eq_true, if_false]
      by_cases him : i' < P.m <;> simp [him]
    · by_cases hjN : j' = P.n + P.m + (P.m + P.k)
      · subst hjN
        have a1 : ¬ (P.n + P.m + (P.m + P.k) < P.n) := by omega
        have a2 : ¬ (P.n + P.m + (P.m + P.k) < P.n + P.m) := by omega
        have a3 : ¬ (P.n + P.m + (P.m + P.k) < P.n + P.m + (P.m + P.k)) := by omega
        simp only [hi', a1, a2, a3, decide_true, decide_false, Bool.true_and, Bool.or_true, if_true, if_false]
        by_cases him : i' < P.m <;> simp [him]
      · by_cases hart : j' = P.n + P.m + i'
        · subst hart
          have a1 : ¬ (P.n + P.m + i' < P.n) := by omega
          have a2 : ¬ (P.n + P.m + i' < P.n + P.m) := by omega
          have a3 : P.n + P.m + i' < P.n + P.m + (P.m + P.k) := by omega
          simp only [hi', a1, a2, a3, hjN, decide_true, decide_false, Bool.true_and, Bool.or_true, Bool.true_or,
            if_true, if_false]
          by_cases him : i' < P.m <;> simp [him]
        · by_cases hsl : i' < P.m ∧ j' = P.n + i'
          · obtain ⟨him, hje⟩ := hsl
            subst hje
            have a1 : ¬ (P.n + i' < P.n) := by omega
            have a2 : P.n + i' < P.n + P.m := by omega
            simp only [hi', him, a1, a2, hjN, hart, and_self, decide_true, decide_false, Bool.true_and,
              Bool.or_true, Bool.true_or, if_true, if_false]
          · -- a cell only touched by the zero fill
            have hreg : (decide (i' < P.m + P.k) && (decide (j' < P.n) || decide (i' < P.m ∧ j' = P.n + i')
                || decide (j' = P.n + P.m + i') || decide (j' = P.n + P.m + (P.m + P.k)))) = false := by
              simp [hjn, hsl, hart, hjN]
            rw [hreg]
            simp only [Bool.false_eq_true, if_false]
            rw [writeRegion_get _ _ _ i' j' (by exact h1) (by exact h2)]
            have hz : (decide (i' < P.m + P.k) && decide (P.n ≤ j') && decide (j' < P.n + P.m + (P.m + P.k))) = true := by
              simp [hi']; omega
            rw [hz]
            simp only [if_true, hjn, if_false]
            by_cases him : i' < P.m
            · have : ¬ j' = P.n + i' := fun e => hsl ⟨him, e⟩
              simp only [him, if_true, this, if_false]
              by_cases c1 : j' < P.n + P.m
              · simp [c1]
              · have c2 : j' < P.n + P.m + (P.m + P.k) := by omega
                simp [c1, c2, hart]
            · simp only [him, if_false]
              by_cases c1 : j' < P.n + P.m
              · simp [c1]
              · have c2 : j' < P.n + P.m + (P.m + P.k) := by omega
                simp [c1, c2, hart]
  unfold initTableauBuf
  simp only
  have h1 : i < buf.nr := by rw [hnr]; exact hi
  have h2 : j < buf.nc := by rw [hnc]; exact hj
  rw [writeRegion_get _ _ _ i j (by exact h1) (by exact h2)]
  by_cases hiL : i < P.m + P.k
  · have : (i == P.m + P.k) = false := by simp; omega
    rw [this]
    simp only [Bool.false_eq_true, if_false]
    rw [initTableau_get_row P i j hiL hj]
    exact key i hiL j hj
  · have hiE : i = P.m + P.k := by omega
    subst hiE
    simp only [beq_self_eq_true, if_true]
    rw [initTableau_get_crit P j hj]
    by_cases hc : j < P.n + P.m ∨ j = P.n + P.m + (P.m + P.k)
    · rw [if_pos hc, if_pos hc, sumRows_eq_sum]
      apply Finset.sum_congr rfl
      intro i' hi'
      exact key i' (Finset.mem_range.mp hi') j hj
    · rw [if_neg hc, if_neg hc]

end QE.C04
