/-
  C07 helper lemmas, part 9: one pass of `solve_discrete_riccati_system` on identical regimes.
-/
import QEProofs.Lemmas.C07Nash
import Mathlib.Algebra.Module.BigOperators

set_option linter.unusedSectionVars false

namespace QE.C07
open QE QE.MatAlg QE.C06 Finset Matrix

section lists
variable {β γ : Type}

theorem allSome_map_some (f : γ → β) (l : List γ) : allSome (l.map (fun a => some (f a))) = some (l.map f) := by
  induction l with
  | nil => rfl
  | cons a r ih => simp [allSome, ih]

theorem allSome_map_none (l : List γ) (h : l ≠ []) : allSome (l.map (fun _ => (none : Option β))) = none := by
  cases l with
  | nil => exact absurd rfl h
  | cons a r => rfl

end lists

section msum
variable {K : Type} [CommRing K]

theorem msum_succ (r c m : ℕ) (f : ℕ → M K) : msum r c (m + 1) f = madd (msum r c m f) (f m) := by
  unfold msum
  rw [List.range_succ, List.foldl_append]
  rfl

theorem msum_toMat (r c : ℕ) (f : ℕ → M K) :
    ∀ m, (∀ j, j < m → Dim (f j) r c) →
      Dim (msum r c m f) r c ∧ toMat r c (msum r c m f) = ∑ j ∈ range m, toMat r c (f j) := by
  intro m
  induction m with
  | zero =>
    intro _
    refine ⟨dim_zero r c, ?_⟩
    ext a b
    simp [msum, toMat, MatAlg.zero, M.get_tab]
  | succ m ih =>
    intro hd
    obtain ⟨d, e⟩ := ih (fun j hj => hd j (by omega))
    rw [msum_succ]
    refine ⟨dim_madd d, ?_⟩
    rw [toMat_madd d, e, Finset.sum_range_succ]

end msum

section step
variable {K : Type} [CommRing K] {n k j : ℕ}

theorem getD_replicate_lt {β : Type} (m : ℕ) (a d : β) (i : ℕ) (hi : i < m) :
    (List.replicate m a).getD i d = a := by
  simp [List.getD_eq_getElem?_getD, hi]

/-- regime `i` of one pass on `m` identical regimes at `(P, …, P)`, as matrices -/
theorem markovStepI_identical (sol : M K → M K → Option (M K)) (hsol : SolSpec sol k)
    (lq : LQ K) (h : LQDim lq n k j) (m : ℕ) (Pi : M K) (i : ℕ) (hi : i < m)
    (hrow : ∑ c ∈ range m, Pi.get i c = 1) (P : M K) (hP : Dim P n n) (P' : M K)
    (hm : markovStepI sol Pi (List.replicate m lq) lq.beta (List.replicate m P) i = some P') :
    ∃ X : M K, Dim X k n ∧
      (toMat k k lq.Q + lq.beta • ((toMat n k lq.B)ᵀ * toMat n n P * toMat n k lq.B)) * toMat k n X
        = lq.beta • ((toMat n k lq.B)ᵀ * toMat n n P * toMat n n lq.A) + toMat k n lq.N ∧
      toMat n n P' = toMat n n lq.R + lq.beta • ((toMat n n lq.A)ᵀ * toMat n n P * toMat n n lq.A)
        - (lq.beta • ((toMat n n lq.A)ᵀ * toMat n n P * toMat n k lq.B) + (toMat k n lq.N)ᵀ) * toMat k n X := by
  have hQ := h.Q; have hR := h.R; have hA := h.A; have hB := h.B; have hN := h.N
  unfold markovStepI at hm
  simp only [List.length_replicate, getD_replicate_lt m lq _ i hi] at hm
  have hcongr : (List.range m).map (fun c => markovTerm sol lq lq.beta (Pi.get i c) (nth (List.replicate m P) c))
      = (List.range m).map (fun c => markovTerm sol lq lq.beta (Pi.get i c) P) := by
    apply List.map_congr_left
    intro c hc
    rw [nth, getD_replicate_lt m P _ c (List.mem_range.mp hc)]
  rw [hcongr] at hm
  have hne : List.range m ≠ [] := by
    intro hc
    have := congrArg List.length hc
    simp at this; omega
  cases hX : sol (madd lq.Q (smul lq.beta (mmul (mmul (mT lq.B) P) lq.B)))
      (madd (smul lq.beta (mmul (mmul (mT lq.B) P) lq.A)) lq.N) with
  | none =>
    have : (fun c => markovTerm sol lq lq.beta (Pi.get i c) P) = fun _ => none := by
      funext c; simp [markovTerm, hX]
    rw [this, allSome_map_none _ hne] at hm
    cases hm
  | some X =>
    have dS1 : Dim (madd lq.Q (smul lq.beta (mmul (mmul (mT lq.B) P) lq.B))) k k := by dim_tac
    have dS2 : Dim (madd (smul lq.beta (mmul (mmul (mT lq.B) P) lq.A)) lq.N) k n := by dim_tac
    obtain ⟨dX, mX, _⟩ := hsol n _ _ _ dS1 dS2 hX
    simp (disch := dim_tac) only [toMat_mmul, toMat_madd, toMat_smul, toMat_mT] at mX
    have : (fun c => markovTerm sol lq lq.beta (Pi.get i c) P)
        = fun c => some (smul (lq.beta * Pi.get i c) (mmul (mmul (mT lq.A) P) lq.A),
            smul (Pi.get i c) (mmul (madd (smul lq.beta (mmul (mmul (mT lq.A) P) lq.B)) (mT lq.N)) X)) := by
      funext c; simp [markovTerm, hX]
    rw [this, allSome_map_some] at hm
    simp only [Option.some.injEq] at hm
    subst hm
    refine ⟨X, dX, mX, ?_⟩
    obtain ⟨fT, hfT⟩ : ∃ fT : ℕ → M K × M K, fT = fun c =>
        (smul (lq.beta * Pi.get i c) (mmul (mmul (mT lq.A) P) lq.A),
          smul (Pi.get i c) (mmul (madd (smul lq.beta (mmul (mmul (mT lq.A) P) lq.B)) (mT lq.N)) X)) := ⟨_, rfl⟩
    rw [← hfT]
    have hnr : lq.R.nr = n := hR.nr
    rw [hnr]
    have hget : ∀ c, c < m → ((List.range m).map fT).getD c (zero n n, zero n n) = fT c := by
      intro c hc
      simp [List.getD_eq_getElem?_getD, hc]
    have hf1 : ∀ c, (fT c).1 = smul (lq.beta * Pi.get i c) (mmul (mmul (mT lq.A) P) lq.A) := by
      intro c; rw [hfT]
    have hf2 : ∀ c, (fT c).2
        = smul (Pi.get i c) (mmul (madd (smul lq.beta (mmul (mmul (mT lq.A) P) lq.B)) (mT lq.N)) X) := by
      intro c; rw [hfT]
    obtain ⟨d1, e1⟩ := msum_toMat n n (fun c => (((List.range m).map fT).getD c (zero n n, zero n n)).1) m
      (by intro c hc; rw [hget c hc, hf1]; dim_tac)
    obtain ⟨d2, e2⟩ := msum_toMat n n (fun c => (((List.range m).map fT).getD c (zero n n, zero n n)).2) m
      (by intro c hc; rw [hget c hc, hf2]; dim_tac)
    rw [toMat_msub (dim_madd hR), toMat_madd hR, e1, e2]
    have s1 : ∑ c ∈ range m, toMat n n (((List.range m).map fT).getD c (zero n n, zero n n)).1
        = ∑ c ∈ range m, (lq.beta * Pi.get i c) • ((toMat n n lq.A)ᵀ * toMat n n P * toMat n n lq.A) := by
      apply Finset.sum_congr rfl
      intro c hc
      rw [hget c (Finset.mem_range.mp hc), hf1]
      simp (disch := dim_tac) only [toMat_mmul, toMat_smul, toMat_mT]
    have s2 : ∑ c ∈ range m, toMat n n (((List.range m).map fT).getD c (zero n n, zero n n)).2
        = ∑ c ∈ range m, (Pi.get i c) • ((lq.beta • ((toMat n n lq.A)ᵀ * toMat n n P * toMat n k lq.B)
            + (toMat k n lq.N)ᵀ) * toMat k n X) := by
      apply Finset.sum_congr rfl
      intro c hc
      rw [hget c (Finset.mem_range.mp hc), hf2]
      simp (disch := dim_tac) only [toMat_mmul, toMat_madd, toMat_smul, toMat_mT]
    rw [s1, s2, ← Finset.sum_smul, ← Finset.sum_smul, ← Finset.mul_sum, hrow, mul_one, one_smul]

end step
end QE.C07
