/-
  Lemmas for C09, part 11: uniqueness of the fixed point of T_sigma for beta < 1.
-/
import Mathlib.Algebra.Order.Ring.Abs
import Mathlib.Tactic.Linarith
import QEProofs.Lemmas.C09Optimal
namespace QE.C09
set_option linter.unusedSectionVars false
section
variable {K : Type} [CommRing K] [LinearOrder K] [IsStrictOrderedRing K]

/-- `q · (v - w) = q·v - q·w` -/
theorem dot_sub_right : ∀ (q v w : List K), v.length = w.length →
    dot q (List.zipWith (· - ·) v w) = dot q v - dot q w := by
  intro q
  induction q with
  | nil => intro v w _; simp
  | cons a as ih =>
    intro v w h
    cases v with
    | nil => cases w with
      | nil => simp
      | cons _ _ => simp at h
    | cons b bs => cases w with
      | nil => simp at h
      | cons c cs =>
        simp only [List.length_cons, Nat.add_right_cancel_iff] at h
        simp only [List.zipWith_cons_cons, dot_cons, ih bs cs h]
        ring

theorem list_sum_nonneg : ∀ (l : List K), (∀ a ∈ l, 0 ≤ a) → 0 ≤ l.sum := by
  intro l
  induction l with
  | nil => intro _; simp
  | cons a as ih =>
    intro h
    rw [List.sum_cons]
    exact add_nonneg (h a List.mem_cons_self) (ih (fun x hx => h x (List.mem_cons_of_mem _ hx)))

/-- `|q · z| ≤ M · Σq` for `q ≥ 0` and `|z_j| ≤ M` -/
theorem dot_abs_bound (M : K) (hM : 0 ≤ M) : ∀ (q z : List K), (∀ a ∈ q, 0 ≤ a) → (∀ c ∈ z, |c| ≤ M) →
    |dot q z| ≤ M * q.sum := by
  intro q
  induction q with
  | nil => intro z _ _; simp
  | cons a as ih =>
    intro z hq hz
    have ha : 0 ≤ a := hq a List.mem_cons_self
    have has : 0 ≤ as.sum := list_sum_nonneg as (fun x hx => hq x (List.mem_cons_of_mem _ hx))
    cases z with
    | nil =>
      simp only [dot_nil_right, abs_zero, List.sum_cons]
      exact mul_nonneg hM (add_nonneg ha has)
    | cons c cs =>
      have hc := hz c List.mem_cons_self
      have hrest := ih cs (fun x hx => hq x (List.mem_cons_of_mem _ hx))
        (fun x hx => hz x (List.mem_cons_of_mem _ hx))
      simp only [dot_cons, List.sum_cons]
      have h1 : |a * c| ≤ a * M := by
        rw [abs_mul, abs_of_nonneg ha]
        exact mul_le_mul_of_nonneg_left hc ha
      calc |a * c + dot as cs| ≤ |a * c| + |dot as cs| := abs_add_le _ _
        _ ≤ a * M + M * as.sum := add_le_add h1 hrest
        _ = M * (a + as.sum) := by ring

/-- the largest absolute value of a list -/
def maxAbs : List K → K
  | [] => 0
  | c :: cs => max |c| (maxAbs cs)

theorem maxAbs_nonneg : ∀ z : List K, 0 ≤ maxAbs z
  | [] => le_refl _
  | c :: _ => le_trans (abs_nonneg c) (le_max_left _ _)

theorem le_maxAbs : ∀ (z : List K) (c : K), c ∈ z → |c| ≤ maxAbs z := by
  intro z
  induction z with
  | nil => intro c hc; simp at hc
  | cons a as ih =>
    intro c hc
    rcases List.mem_cons.mp hc with rfl | hc
    · exact le_max_left _ _
    · exact le_trans (ih c hc) (le_max_right _ _)

theorem maxAbs_attained : ∀ z : List K, maxAbs z = 0 ∨ ∃ c ∈ z, |c| = maxAbs z := by
  intro z
  induction z with
  | nil => exact Or.inl rfl
  | cons a as ih =>
    by_cases h : maxAbs as ≤ |a|
    · right; exact ⟨a, List.mem_cons_self, by simp [maxAbs, max_eq_left h]⟩
    · have h' : |a| ≤ maxAbs as := le_of_lt (not_le.mp h)
      rcases ih with h0 | ⟨c, hc, hcm⟩
      · exfalso
        rw [h0] at h
        exact h (abs_nonneg a)
      · right; exact ⟨c, List.mem_cons_of_mem _ hc, by simp [maxAbs, max_eq_right h', hcm]⟩

/-- **uniqueness of the fixed point of `T_σ` for `0 ≤ β < 1`** (rows of `Q_σ` non-negative with
    sum `≤ 1`): two vectors of length `n` that both satisfy `x = b + β Q_σ x` are equal. -/
theorem tSigma_fixed_point_unique (beta : K) (hb0 : 0 ≤ beta) (hb1 : beta < 1)
    (b : List K) (Q' : List (List K)) (hQn : ∀ row ∈ Q', ∀ a ∈ row, 0 ≤ a)
    (hQs : ∀ row ∈ Q', row.sum ≤ 1) (x y : List K) (hxy : x.length = y.length)
    (hx : List.zipWith (fun r q => r + beta * dot q x) b Q' = x)
    (hy : List.zipWith (fun r q => r + beta * dot q y) b Q' = y) : x = y := by
  set z := List.zipWith (· - ·) x y with hz
  have hM := maxAbs_nonneg z
  -- every difference is `β` times a row of `Q'` dotted with the differences
  have hrow : ∀ c ∈ z, |c| ≤ beta * maxAbs z := by
    intro c hc
    rw [List.mem_iff_getElem] at hc
    obtain ⟨i, hi, rfl⟩ := hc
    have hix : i < x.length := by simp [hz] at hi; omega
    have hiy : i < y.length := by omega
    have hxi : x[i]? = some x[i] := List.getElem?_eq_getElem hix
    have hyi : y[i]? = some y[i] := List.getElem?_eq_getElem hiy
    -- unfold the two fixed-point equations at index i
    have ex := congrArg (fun l => l[i]?) hx
    have ey := congrArg (fun l => l[i]?) hy
    simp only [List.getElem?_zipWith, hxi, hyi] at ex ey
    cases hbi : b[i]? with
    | none => rw [hbi] at ex; simp at ex
    | some r =>
      cases hqi : Q'[i]? with
      | none => rw [hbi, hqi] at ex; simp at ex
      | some q =>
        rw [hbi, hqi] at ex ey
        simp only [Option.some.injEq] at ex ey
        have hqmem : q ∈ Q' := List.mem_of_getElem? hqi
        have hzi : z[i] = beta * dot q z := by
          simp only [hz, List.getElem_zipWith]
          rw [dot_sub_right q x y hxy, ← ex, ← ey]
          ring
        rw [hzi, abs_mul, abs_of_nonneg hb0]
        apply mul_le_mul_of_nonneg_left _ hb0
        calc |dot q z| ≤ maxAbs z * q.sum := dot_abs_bound _ hM q z (hQn q hqmem) (le_maxAbs z)
          _ ≤ maxAbs z * 1 := mul_le_mul_of_nonneg_left (hQs q hqmem) hM
          _ = maxAbs z := mul_one _
  have hzero : maxAbs z = 0 := by
    rcases maxAbs_attained z with h0 | ⟨c, hc, hcm⟩
    · exact h0
    · have := hrow c hc
      rw [hcm] at this
      have : (1 - beta) * maxAbs z ≤ 0 := by linarith
      have hpos : 0 < 1 - beta := by linarith
      have : maxAbs z ≤ 0 := by
        by_contra hne
        have : 0 < maxAbs z := lt_of_not_ge hne
        have := mul_pos hpos this
        linarith
      exact le_antisymm this hM
  apply List.ext_getElem hxy
  intro i hi1 hi2
  have hiz : i < z.length := by simp [hz]; omega
  have := le_maxAbs z z[i] (List.getElem_mem hiz)
  rw [hzero] at this
  have h0 : z[i] = 0 := abs_eq_zero.mp (le_antisymm this (abs_nonneg _))
  simp only [hz, List.getElem_zipWith] at h0
  exact sub_eq_zero.mp h0

end
end QE.C09
