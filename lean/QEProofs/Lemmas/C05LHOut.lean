/-
  Lemmas for property C05 (Lemke-Howson): the read-out `_get_mixed_actions` (model
  `basicVal`, `basicSum`, `mixedOf`) in terms of the basic solutions, the initial state, the
  capping loop, and the final Nash statement.
-/
import QEProofs.Lemmas.C05LH
import QEProofs.Lemmas.C05Vertex

namespace QE.C05
open QE QE.Pivot QE.MatAlg Finset

set_option linter.unusedSectionVars false
variable {K : Type} [Field K] [LinearOrder K] [IsStrictOrderedRing K]

/-! ### read-out -/

theorem basicVal_fold (T : M K) (b : List ℕ) (L N k : ℕ)
    (hinj : ∀ i i', i < L → i' < L → b.getD i 0 = b.getD i' 0 → i = i') :
    ∀ L', L' ≤ L →
      (List.range L').foldl (fun acc i => if b.getD i 0 = k then T.get i N else acc) 0
        = ∑ i ∈ range L', if b.getD i 0 = k then T.get i N else 0 := by
  intro L'
  induction L' with
  | zero => intro _; simp
  | succ L' ih =>
    intro hle
    rw [List.range_succ, List.foldl_append, ih (by omega), sum_range_succ]
    simp only [List.foldl_cons, List.foldl_nil]
    by_cases h : b.getD L' 0 = k
    · rw [if_pos h, if_pos h]
      have : ∑ i ∈ range L', (if b.getD i 0 = k then T.get i N else 0) = 0 := by
        apply sum_eq_zero
        intro i hi
        have hi' := mem_range.mp hi
        rw [if_neg]
        intro he
        have := hinj i L' (by omega) (by omega) (by rw [he, h])
        omega
      rw [this, zero_add]
    · rw [if_neg h, if_neg h, add_zero]

theorem basicVal_eq_tsol (T : M K) (b : List ℕ) (L N k : ℕ) (hs : TShape T L N)
    (hc : TCanon T b L N) : basicVal T b k = tsol T b L N k := by
  unfold basicVal tsol
  rw [hs.1, hs.2, Nat.add_sub_cancel]
  exact basicVal_fold T b L N k (fun i i' hi hi' h => tcanon_inj T b L N hc i i' hi hi' h) L (le_refl _)

theorem foldl_cond_sum' (c : ℕ → Prop) [DecidablePred c] (g : ℕ → K) :
    ∀ (l : List ℕ) (a : K),
      l.foldl (fun acc t => if c t then acc + g t else acc) a
        = a + (l.map fun t => if c t then g t else 0).sum
  | [], a => by simp
  | x :: xs, a => by
    rw [List.foldl_cons, foldl_cond_sum' c g xs, List.map_cons, List.sum_cons]
    by_cases hc : c x
    · rw [if_pos hc, if_pos hc]; ring
    · rw [if_neg hc, if_neg hc]; ring

theorem basicSum_eq (T : M K) (b : List ℕ) (L N start cnt : ℕ) (hs : TShape T L N) :
    basicSum T b start (start + cnt) = ∑ j ∈ range cnt, tsol T b L N (start + j) := by
  unfold basicSum tsol
  rw [hs.1, hs.2, Nat.add_sub_cancel]
  dsimp only
  rw [foldl_cond_sum' (fun i => start ≤ b.getD i 0 ∧ b.getD i 0 < start + cnt)
    (fun i => T.get i N) (List.range L) 0, zero_add, list_range_map_sum, sum_comm]
  apply sum_congr rfl
  intro i _
  by_cases hin : start ≤ b.getD i 0 ∧ b.getD i 0 < start + cnt
  · rw [if_pos hin]
    have : ∀ j ∈ range cnt, (if b.getD i 0 = start + j then T.get i N else 0)
        = if b.getD i 0 - start = j then T.get i N else 0 := by
      intro j _
      by_cases h : b.getD i 0 = start + j
      · rw [if_pos h, if_pos (by omega)]
      · rw [if_neg h, if_neg (by omega)]
    rw [sum_congr rfl this, sum_ite_eq (range cnt) (b.getD i 0 - start) (fun _ => T.get i N),
      if_pos (mem_range.mpr (by omega))]
  · rw [if_neg hin]
    symm
    apply sum_eq_zero
    intro j hj
    have := mem_range.mp hj
    rw [if_neg (by omega)]

theorem mixedOf_getD (T : M K) (b : List ℕ) (start cnt j : ℕ) (hj : j < cnt) :
    (mixedOf T b start (start + cnt)).getD j 0 =
      if basicSum T b start (start + cnt) = 0 then basicVal T b (start + j)
      else basicVal T b (start + j) / basicSum T b start (start + cnt) := by
  unfold mixedOf
  dsimp only
  have hc : start + cnt - start = cnt := by omega
  rw [hc]
  by_cases h0 : basicSum T b start (start + cnt) = 0
  · simp [List.getD_eq_getElem?_getD, hj, h0]
  · simp [List.getD_eq_getElem?_getD, hj, h0]

/-! ### the final state -/

/-- **read-out of a completely labelled feasible pair of tableaux is Nash** -/
theorem lhFinal_nash (m n : ℕ) (A B : ℕ → ℕ → K) (s : LHState K) (hb : LHBase m n A B s)
    (hlab : ∀ k, ¬ InB s.b0 k ∨ ¬ InB s.b1 k)
    (hsx : basicSum s.T0 s.b0 0 m ≠ 0) :
    IsNash m n A B (fun i => (lhMixedActions m n s).1.getD i 0)
      (fun j => (lhMixedActions m n s).2.getD j 0) := by
  -- the two basic solutions
  have hz0 := (hb.sol0 _).mp (tsol_rowsSat s.T0 s.b0 n (m + n) hb.sh0 hb.can0)
  have hz1 := (hb.sol1 _).mp (tsol_rowsSat s.T1 s.b1 m (m + n) hb.sh1 hb.can1)
  have nn0 := tsol_nonneg s.T0 s.b0 n (m + n) hb.rhs0
  have nn1 := tsol_nonneg s.T1 s.b1 m (m + n) hb.rhs1
  have e0 := init0_rows m n B _ hz0
  have e1 := init1_rows m n A _ hz1
  have sx : basicSum s.T0 s.b0 0 m = ∑ i ∈ range m, tsol s.T0 s.b0 n (m + n) i := by
    have := basicSum_eq s.T0 s.b0 n (m + n) 0 m hb.sh0
    simpa using this
  have sy : basicSum s.T1 s.b1 m (m + n) = ∑ j ∈ range n, tsol s.T1 s.b1 m (m + n) (m + j) :=
    basicSum_eq s.T1 s.b1 m (m + n) m n hb.sh1
  -- if `y` were the zero vector, all slacks `r_i` would be 1, hence basic, hence `x = 0`
  have hsy : basicSum s.T1 s.b1 m (m + n) ≠ 0 := by
    intro hy0
    apply hsx
    rw [sy] at hy0
    have hy : ∀ j, j < n → tsol s.T1 s.b1 m (m + n) (m + j) = 0 := by
      intro j hj
      exact (sum_eq_zero_iff_of_nonneg (fun j _ => nn1 (m + j))).mp hy0 j (mem_range.mpr hj)
    rw [sx]
    apply sum_eq_zero
    intro i hi
    have hi' := mem_range.mp hi
    have hpay : payoffVec n (shA m n A) (fun j => tsol s.T1 s.b1 m (m + n) (m + j)) i = 0 := by
      rw [payoffVec_eq]
      apply sum_eq_zero
      intro j hj
      rw [hy j (mem_range.mp hj), mul_zero]
    have hr := e1 i hi'
    rw [hpay, add_zero] at hr
    rcases hlab i with h | h
    · exact tsol_nonbasic s.T0 s.b0 n (m + n) hb.can0.1 i h
    · rw [tsol_nonbasic s.T1 s.b1 m (m + n) hb.can1.1 i h] at hr
      exact absurd hr zero_ne_one
  have key := completely_labelled_nash' m n (shA m n A) (shB m n B)
    (tsol s.T0 s.b0 n (m + n)) (fun j => tsol s.T1 s.b1 m (m + n) (m + j)) 1 1
    (fun i _ => nn0 i) (fun j _ => nn1 (m + j))
    (by intro j hj; have := e0 j hj; have := nn0 (m + j); linarith)
    (by intro i hi; have := e1 i hi; have := nn1 i; linarith)
    (by
      intro i hi
      rcases hlab i with h | h
      · exact Or.inl (tsol_nonbasic s.T0 s.b0 n (m + n) hb.can0.1 i h)
      · right
        have := e1 i hi
        rw [tsol_nonbasic s.T1 s.b1 m (m + n) hb.can1.1 i h, zero_add] at this
        exact this)
    (by
      intro j hj
      rcases hlab (m + j) with h | h
      · right
        have := e0 j hj
        rw [tsol_nonbasic s.T0 s.b0 n (m + n) hb.can0.1 (m + j) h, add_zero] at this
        exact this
      · exact Or.inl (tsol_nonbasic s.T1 s.b1 m (m + n) hb.can1.1 (m + j) h))
    (by rw [← sx]; exact hsx) (by rw [← sy]; exact hsy)
  have key2 := nash_shift' m n A B (shA m n A) (shB m n B)
    (fun _ => shiftConst m n A) (fun _ => shiftConst n m B) _ _ (fun _ _ => rfl) (fun _ _ => rfl) key
  apply isNash_congr m n A B _ _ _ _ _ _ key2
  · intro i hi
    unfold lhMixedActions
    dsimp only
    have := mixedOf_getD s.T0 s.b0 0 m i hi
    rw [Nat.zero_add] at this
    rw [this, if_neg hsx, Nat.zero_add, basicVal_eq_tsol s.T0 s.b0 n (m + n) i hb.sh0 hb.can0, sx]
  · intro j hj
    unfold lhMixedActions
    dsimp only
    rw [mixedOf_getD s.T1 s.b1 m n j hj, if_neg hsy,
      basicVal_eq_tsol s.T1 s.b1 m (m + n) (m + j) hb.sh1 hb.can1, sy]

/-! ### the initial state -/

theorem inB_b0 (m n k : ℕ) (h : InB ((List.range n).map (· + m)) k) : m ≤ k := by
  obtain ⟨i, hi, he⟩ := h
  have hi' : i < n := by simpa using hi
  rw [b0_getD m n i hi'] at he
  omega

theorem inB_b1 (m k : ℕ) (h : InB (List.range m) k) : k < m := by
  obtain ⟨i, hi, he⟩ := h
  have hi' : i < m := by simpa using hi
  rw [b1_getD m i hi'] at he
  omega

theorem inB_of_mem (b : List ℕ) (k : ℕ) (h : k ∈ b) : InB b k := mem_getD b k h

theorem mem_of_inB (b : List ℕ) (k : ℕ) (h : InB b k) : k ∈ b := by
  obtain ⟨i, hi, he⟩ := h
  rw [← he, getD_of_lt b i hi]
  exact List.getElem_mem _

theorem lhInit_base (m n : ℕ) (A B : ℕ → ℕ → K) (ip : ℕ) : LHBase m n A B (lhInit m n A B ip) :=
  ⟨init0_shape m n B, init1_shape m n A, init0_canon m n B, init1_canon m n A,
    init0_rhs m n B, init1_rhs m n A, fun _ => Iff.rfl, fun _ => Iff.rfl⟩

/-- `_lemke_howson_tbl`: when it reports convergence the two bases
    are completely labelled and the tableaux feasible and equivalent to the initial ones -/
theorem lhTbl_inv (m n : ℕ) (hm : 1 ≤ m) (hn : 1 ≤ n) (A B : ℕ → ℕ → K) (ip maxIter : ℕ)
    (hip : ip < m + n) :
    LHBase m n A B (lhTbl m n A B ip maxIter 0 0).2 ∧
    ((lhTbl m n A B ip maxIter 0 0).1 = true →
      ∀ k, ¬ InB (lhTbl m n A B ip maxIter 0 0).2.b0 k ∨ ¬ InB (lhTbl m n A B ip maxIter 0 0).2.b1 k) := by
  unfold lhTbl
  dsimp only
  have hlab : ∀ k, k ≠ ip → ¬ InB (lhInit m n A B ip).b0 k ∨ ¬ InB (lhInit m n A B ip).b1 k := by
    intro k _
    by_cases hk : k < m
    · left; intro h; have := inB_b0 m n k h; omega
    · right; intro h; have := inB_b1 m k h; omega
  by_cases hc : (lhInit m n A B ip).b0.contains ip = true
  · rw [if_pos hc]
    have hmem : ip ∈ (lhInit m n A B ip).b0 := by simpa using hc
    have hge := inB_b0 m n ip (inB_of_mem _ _ hmem)
    apply lhLoop_inv m n hm hn A B ip _ _ 1 (Or.inr rfl) (lhInit_base m n A B ip) _ hip
    refine ⟨hlab, ?_, Or.inl rfl⟩
    rw [if_neg (by omega)]
    intro h
    have := inB_b1 m ip h
    omega
  · rw [if_neg hc]
    have hmem : ip ∉ (lhInit m n A B ip).b0 := by simpa using hc
    apply lhLoop_inv m n hm hn A B ip _ _ 0 (Or.inl rfl) (lhInit_base m n A B ip) _ hip
    refine ⟨hlab, ?_, Or.inl rfl⟩
    rw [if_pos rfl]
    intro h
    exact hmem (mem_of_inB _ _ h)

/-- the capping loop returns the outcome of one run of `_lemke_howson_tbl` from freshly
    initialised tableaux, for some initial pivot `< m+n` and some iteration bound -/
theorem lhCapLoop_is_tbl (m n : ℕ) (A B : ℕ → ℕ → K) (maxIter capping : ℕ) (tp td : K) :
    ∀ (rem initCurr maxIterCurr total : ℕ), initCurr < m + n →
      ∃ ip mi, ip < m + n ∧
        (lhCapLoop m n A B maxIter capping tp td rem initCurr maxIterCurr total).converged
          = (lhTbl m n A B ip mi tp td).1 ∧
        (lhCapLoop m n A B maxIter capping tp td rem initCurr maxIterCurr total).st
          = (lhTbl m n A B ip mi tp td).2
  | 0, initCurr, maxIterCurr, total, h => ⟨initCurr, maxIterCurr, h, rfl, rfl⟩
  | rem + 1, initCurr, maxIterCurr, total, h => by
    unfold lhCapLoop
    dsimp only
    split
    · exact ⟨initCurr, min maxIterCurr capping, h, rfl, rfl⟩
    · apply lhCapLoop_is_tbl m n A B maxIter capping tp td rem
      split <;> omega

end QE.C05
