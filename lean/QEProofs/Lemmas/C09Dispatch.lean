/-
  Lemmas for C09, part 14: the shape stage of `DiscreteDP.__init__` (`dispatch`).
  Proved by exhaustive case analysis on the list shapes (lengths 0..3 and longer).
-/
import Mathlib.Tactic.SplitIfs
import Mathlib.Tactic.Tauto
import QEModel.C09
namespace QE.C09
set_option linter.unusedTactic false

theorem dispatch_sa_iff' (x : RawArgs) (L n : Nat) (sp : Bool) :
    dispatch x = .ok (.sa L n sp) ↔
      (x.qShape = [L, n] ∧ x.rShape = [L] ∧ x.sLen = some L ∧ x.aLen = some L ∧ x.qSparse = sp) := by
  obtain ⟨rs, qs, qsp, sl, al⟩ := x
  rcases qs with _ | ⟨q0, _ | ⟨q1, _ | ⟨q2, _ | ⟨q3, qt⟩⟩⟩⟩ <;>
  rcases rs with _ | ⟨r0, _ | ⟨r1, _ | ⟨r2, rt⟩⟩⟩ <;>
  cases qsp <;> cases sl <;> cases al <;>
  simp [dispatch] <;> (try split_ifs) <;> (try simp_all) <;> (try omega) <;> (try tauto)

theorem dispatch_prod_iff' (x : RawArgs) (n m : Nat) :
    dispatch x = .ok (.prod n m) ↔
      (x.qSparse = false ∧ x.rShape = [n, m] ∧ x.qShape = [n, m, n]) := by
  obtain ⟨rs, qs, qsp, sl, al⟩ := x
  rcases qs with _ | ⟨q0, _ | ⟨q1, _ | ⟨q2, _ | ⟨q3, qt⟩⟩⟩⟩ <;>
  rcases rs with _ | ⟨r0, _ | ⟨r1, _ | ⟨r2, rt⟩⟩⟩ <;>
  cases qsp <;> cases sl <;> cases al <;>
  simp [dispatch] <;> (try split_ifs) <;> (try simp_all) <;> (try omega) <;> (try tauto)

/-- which error, exactly (the order of the tests in the code) -/
theorem dispatch_error_iff' (x : RawArgs) (hsp : x.qSparse = true → x.qShape.length = 2) :
    (dispatch x = .error .qDim ↔ (x.qSparse = false ∧ x.qShape.length ≠ 2 ∧ x.qShape.length ≠ 3)) ∧
    (dispatch x = .error .rDim ↔ ((x.qSparse = true ∨ x.qShape.length = 2 ∨ x.qShape.length = 3) ∧
        x.rShape.length ≠ 1 ∧ x.rShape.length ≠ 2)) := by
  obtain ⟨rs, qs, qsp, sl, al⟩ := x
  rcases qs with _ | ⟨q0, _ | ⟨q1, _ | ⟨q2, _ | ⟨q3, qt⟩⟩⟩⟩ <;>
  rcases rs with _ | ⟨r0, _ | ⟨r1, _ | ⟨r2, rt⟩⟩⟩ <;>
  cases qsp <;> cases sl <;> cases al <;>
  simp [dispatch] at hsp ⊢ <;> (try split_ifs) <;> (try simp_all) <;> (try omega) <;> (try tauto)

theorem dispatch_index_errors' (x : RawArgs) :
    (dispatch x = .error .sMissing ↔ ∃ L n, x.qShape = [L, n] ∧ x.rShape = [L] ∧ x.sLen = none) ∧
    (dispatch x = .error .aMissing ↔ ∃ L n, x.qShape = [L, n] ∧ x.rShape = [L] ∧ x.sLen ≠ none ∧ x.aLen = none) ∧
    (dispatch x = .error .length ↔ ∃ L n sl al, x.qShape = [L, n] ∧ x.rShape = [L] ∧ x.sLen = some sl ∧
        x.aLen = some al ∧ ¬ (sl = L ∧ al = L)) := by
  obtain ⟨rs, qs, qsp, sl, al⟩ := x
  rcases qs with _ | ⟨q0, _ | ⟨q1, _ | ⟨q2, _ | ⟨q3, qt⟩⟩⟩⟩ <;>
  rcases rs with _ | ⟨r0, _ | ⟨r1, _ | ⟨r2, rt⟩⟩⟩ <;>
  cases qsp <;> cases sl <;> cases al <;>
  simp [dispatch] <;> (try split_ifs) <;> (try simp_all) <;> (try omega) <;> (try tauto)
end QE.C09
