/-
  Lemmas for C20, part 1 (integers only): `bump`, `cumsum`/`searchRight`/`locate`,
  validity of an action distribution, and "move one player".
-/
import Mathlib.Order.Defs.LinearOrder
import Mathlib.Tactic.Linarith
import QEModel.C20
namespace QE.C20

/-! ### `bump` -/

theorem bump_length (d : List Int) (i : Nat) (δ : Int) : (bump d i δ).length = d.length := by
  simp [bump]

theorem bump_getD (d : List Int) (i j : Nat) (δ : Int) (hi : i < d.length) :
    (bump d i δ).getD j 0 = d.getD j 0 + (if j = i then δ else 0) := by
  unfold bump
  by_cases hji : j = i
  · subst hji
    simp [List.getD_eq_getElem?_getD, hi]
  · have : i ≠ j := fun h => hji h.symm
    simp [List.getD_eq_getElem?_getD, this, hji]

theorem sum_set (d : List Int) (i : Nat) (v : Int) (hi : i < d.length) :
    (d.set i v).sum = d.sum - d.getD i 0 + v := by
  induction d generalizing i with
  | nil => simp at hi
  | cons x xs ih =>
    cases i with
    | zero => simp [List.set]; omega
    | succ i =>
      have := ih i (by simpa using hi)
      simp [List.set, this]; omega

theorem bump_sum (d : List Int) (i : Nat) (δ : Int) (hi : i < d.length) :
    (bump d i δ).sum = d.sum + δ := by
  unfold bump; rw [sum_set d i _ hi]; omega

/-- out-of-range `bump` is the identity in the model (the code raises `IndexError` there; the
    time-series model `series` returns `none` before this can happen) -/
theorem bump_oob (d : List Int) (i : Nat) (δ : Int) (hi : d.length ≤ i) : bump d i δ = d := by
  unfold bump; exact List.set_eq_of_length_le hi

/-! ### validity -/

/-- "a vector of non-negative integers of length `n` summing to the number of players `N`" -/
def Valid (N : Int) (n : Nat) (d : List Int) : Prop :=
  d.length = n ∧ (∀ j, j < d.length → 0 ≤ d.getD j 0) ∧ d.sum = N

/-- remove one player from action `a`, add one to action `b` -/
def move (d : List Int) (a b : Nat) : List Int := bump (bump d a (-1)) b 1

theorem move_getD (d : List Int) (a b j : Nat) (ha : a < d.length) (hb : b < d.length) :
    (move d a b).getD j 0 = d.getD j 0 - (if j = a then 1 else 0) + (if j = b then 1 else 0) := by
  unfold move
  rw [bump_getD _ _ _ _ (by rw [bump_length]; exact hb), bump_getD _ _ _ _ ha]
  split <;> split <;> omega

theorem move_valid (N : Int) (n : Nat) (d : List Int) (a b : Nat) (hv : Valid N n d)
    (ha : a < n) (hpos : 0 < d.getD a 0) (hb : b < n) : Valid N n (move d a b) := by
  obtain ⟨hl, hnn, hs⟩ := hv
  have ha' : a < d.length := by omega
  have hb' : b < d.length := by omega
  refine ⟨by simp [move, bump_length, hl], ?_, ?_⟩
  · intro j hj
    have hj' : j < d.length := by simpa [move, bump_length] using hj
    rw [move_getD d a b j ha' hb']
    have := hnn j hj'
    split <;> split <;> first | omega | (subst_vars; omega)
  · unfold move
    rw [bump_sum _ _ _ (by rw [bump_length]; exact hb'), bump_sum _ _ _ ha']; omega

/-- at most one player moves: the ℓ¹ distance between consecutive states is 0 or 2 -/
theorem move_self (d : List Int) (a : Nat) (ha : a < d.length) : move d a a = d := by
  apply List.ext_getElem
  · simp [move, bump_length]
  · intro j h1 h2
    have := move_getD d a a j ha ha
    simp only [List.getD_eq_getElem?_getD, List.getElem?_eq_getElem h1, List.getElem?_eq_getElem h2,
      Option.getD_some] at this
    rw [this]; split <;> omega

/-! ### `cumsum`, `searchsorted(side='right')`, `locate` -/

theorem searchRight_cons (x : Int) (xs : List Int) (p : Int) :
    searchRight (x :: xs) p = if x ≤ p then searchRight xs p + 1 else 0 := by
  unfold searchRight
  by_cases h : x ≤ p <;> simp [h]

theorem take_sum_nonneg (d : List Int) (hnn : ∀ j, j < d.length → 0 ≤ d.getD j 0) : 0 ≤ d.sum := by
  induction d with
  | nil => simp
  | cons x xs ih =>
    have h0 := hnn 0 (by simp)
    have := ih (fun j hj => by simpa using hnn (j + 1) (by simpa using hj))
    simp at h0 ⊢; omega

/-- the core of `locate`: binary/linear search on the running sums finds the cell of `p` -/
theorem searchRight_cumsumFrom (d : List Int) :
    ∀ (acc p : Int), (∀ j, j < d.length → 0 ≤ d.getD j 0) → acc ≤ p → p < acc + d.sum →
      let a := searchRight (cumsumFrom acc d) p
      a < d.length ∧ 0 < d.getD a 0 ∧ acc + (d.take a).sum ≤ p ∧ p < acc + (d.take (a + 1)).sum := by
  induction d with
  | nil => intro acc p _ h1 h2; simp at h2; omega
  | cons x xs ih =>
    intro acc p hnn h1 h2
    have hx := hnn 0 (by simp)
    simp only [List.getD_cons_zero] at hx
    simp only [cumsumFrom, searchRight_cons]
    by_cases hc : acc + x ≤ p
    · rw [if_pos hc]
      have h2' : p < (acc + x) + xs.sum := by simp at h2; omega
      obtain ⟨i1, i2, i3, i4⟩ := ih (acc + x) p
        (fun j hj => by simpa using hnn (j + 1) (by simpa using hj)) hc h2'
      refine ⟨by simpa using i1, by simpa using i2, ?_, ?_⟩
      · simp [List.take_succ_cons]; omega
      · simp [List.take_succ_cons] at i4 ⊢; omega
    · rw [if_neg hc]
      refine ⟨by simp, by simp; omega, by simp; omega, by simp; omega⟩

/-- if the player index is not below the total count, the search runs off the end
    (`action = num_actions`, the code's `IndexError`) -/
theorem searchRight_cumsumFrom_ge (d : List Int) :
    ∀ (acc p : Int), (∀ j, j < d.length → 0 ≤ d.getD j 0) → acc + d.sum ≤ p →
      searchRight (cumsumFrom acc d) p = d.length := by
  induction d with
  | nil => intro acc p _ _; simp [cumsumFrom, searchRight]
  | cons x xs ih =>
    intro acc p hnn h
    have hx := hnn 0 (by simp)
    simp only [List.getD_cons_zero] at hx
    have hxs : 0 ≤ xs.sum := take_sum_nonneg xs (fun j hj => by simpa using hnn (j + 1) (by simpa using hj))
    simp only [cumsumFrom, searchRight_cons]
    have hc : acc + x ≤ p := by simp at h; omega
    rw [if_pos hc, ih (acc + x) p (fun j hj => by simpa using hnn (j + 1) (by simpa using hj))
      (by simp at h; omega)]
    simp

/-! ### `_set_action_dist` / `bincount` -/

theorem bincount_length (n : Nat) (s : List Nat) : (bincount n s).length = n := by
  simp [bincount]

theorem bincount_getD (n : Nat) (s : List Nat) (c : Nat) (hc : c < n) :
    (bincount n s).getD c 0 = (s.count c : Int) := by
  simp [bincount, List.getD_eq_getElem?_getD, hc]

theorem bincount_cons (n a : Nat) (s : List Nat) (ha : a < n) :
    bincount n (a :: s) = bump (bincount n s) a 1 := by
  apply List.ext_getElem
  · simp [bincount_length, bump_length]
  · intro c h1 h2
    have hc : c < n := by simpa [bincount_length] using h1
    have e1 := bincount_getD n (a :: s) c hc
    have e2 := bump_getD (bincount n s) a c 1 (by simpa [bincount_length] using ha)
    rw [bincount_getD n s c hc] at e2
    simp only [List.getD_eq_getElem?_getD, List.getElem?_eq_getElem h1, List.getElem?_eq_getElem h2,
      Option.getD_some] at e1 e2
    rw [e1, e2, List.count_cons]
    by_cases hca : c = a
    · subst hca; simp
    · have : ¬ (a == c) = true := by simpa using fun h : a = c => hca h.symm
      simp [hca, this]

/-- `_set_action_dist(actions)` of `N` in-range actions is a valid state: the initial condition the
    code draws for itself (`init_action_dist=None`) satisfies the invariant -/
theorem setActionDist_valid (n : Nat) (acts : List Nat) (h : ∀ a ∈ acts, a < n) :
    Valid (acts.length : Int) n (setActionDist n acts) := by
  unfold setActionDist
  refine ⟨bincount_length n acts, ?_, ?_⟩
  · intro j hj
    rw [bincount_length] at hj
    rw [bincount_getD n acts j hj]; exact Int.natCast_nonneg _
  · induction acts with
    | nil =>
      have hz : ∀ l : List Nat, (l.map (fun _ => (0 : Int))).sum = 0 := by
        intro l; induction l <;> simp_all
      simpa [bincount] using hz (List.range n)
    | cons a s ih =>
      have ha := h a (by simp)
      rw [bincount_cons n a s ha, bump_sum _ _ _ (by simpa [bincount_length] using ha),
        ih (fun b hb => h b (List.mem_cons_of_mem _ hb))]
      simp

end QE.C20

namespace QE.C20

/-- ℓ¹ distance between two action distributions (number of "player-moves" × 2) -/
def l1dist (x y : List Int) : Nat :=
  ((List.range x.length).map (fun j => (x.getD j 0 - y.getD j 0).natAbs)).sum

theorem sum_two_indicators (a b : Nat) : ∀ n : Nat,
    ((List.range n).map (fun j => (if j = a then 1 else 0) + (if j = b then 1 else 0))).sum =
      (if a < n then 1 else 0) + (if b < n then 1 else 0) := by
  intro n
  induction n with
  | zero => simp
  | succ n ih =>
    rw [List.range_succ, List.map_append, List.sum_append, ih]
    simp only [List.map_cons, List.map_nil, List.sum_cons, List.sum_nil, Nat.add_zero]
    split_ifs <;> omega

/-- moving one player changes the distribution by ℓ¹ distance 2 (or 0 if the player stays) -/
theorem l1dist_move (d : List Int) (a b : Nat) (ha : a < d.length) (hb : b < d.length) :
    l1dist (move d a b) d = if a = b then 0 else 2 := by
  unfold l1dist
  have hlen : (move d a b).length = d.length := by simp [move, bump_length]
  rw [hlen]
  have hf : ∀ j, ((move d a b).getD j 0 - d.getD j 0).natAbs =
      if a = b then 0 else ((if j = a then 1 else 0) + (if j = b then 1 else 0)) := by
    intro j
    rw [move_getD d a b j ha hb]
    by_cases hab : a = b
    · subst hab; by_cases hj : j = a <;> simp [hj]
    · simp only [hab, if_false]
      split_ifs <;> omega
  simp only [hf]
  by_cases hab : a = b
  · have hz : ∀ l : List Nat, (l.map (fun _ => (0 : Nat))).sum = 0 := by
      intro l; induction l <;> simp_all
    simpa [hab] using hz (List.range d.length)
  · simp only [hab, if_false]
    rw [sum_two_indicators a b d.length]
    simp [ha, hb]

end QE.C20
