/-
  Lemmas for C15, part 6: Howson's LCP (`polym_lcp_solver`). An induction principle for the
  flattened double loop `hRun`, and the invariants every pivot of the run preserves:
  row-equivalence with the initial system, canonical form of the basic columns, feasibility.
-/
import Mathlib.Algebra.Order.Field.Basic
import Mathlib.Tactic.Linarith
import Mathlib.Tactic.Ring
import QEModel.C15
import QEProofs.Lemmas.PivotLemmas
import QEProofs.Lemmas.C04Ratio
namespace QE.C15
open QE QE.Pivot Finset

set_option linter.unusedSectionVars false
variable {K : Type} [Field K] [LinearOrder K] [IsStrictOrderedRing K]

/-! ### induction principle for the run -/

/-- Whatever is preserved by one pivoting step of the inner loop (ratio test on the entering
    column, pivot, basis update, ghost flag) holds at the end of the run, for every fuel,
    `max_iter`, start and level: the control flow (levels, back-tracking, `max_iter`) only decides
    *which* columns enter. -/
theorem hRun_inv (nums start : List Nat) (maxIter : Int) (tp td : K)
    (Q : M K → List Nat → Bool → Prop)
    (hstep : ∀ (T : M K) (b : List Nat) (af : Bool) (c : Nat), Q T b af →
      Q (pivot T c (lexMinRatio T c 0 tp td).2) (b.set (lexMinRatio T c 0 tp td).2 c)
        (af && (lexMinRatio T c 0 tp td).1 &&
          decide (c < 2 * (nums.foldl (· + ·) 0 + nums.length)))) :
    ∀ (fuel : Nat) (st : HState K) (pc : Option Nat), Q st.T st.basis st.allFound →
      Q (hRun nums start maxIter tp td fuel st pc).T (hRun nums start maxIter tp td fuel st pc).basis
        (hRun nums start maxIter tp td fuel st pc).allFound := by
  intro fuel
  induction fuel with
  | zero => intro st pc h; exact h
  | succ f ih =>
    intro st pc h
    cases pc with
    | none =>
      unfold hRun
      simp only
      split_ifs <;> first | exact h | (apply ih; exact h)
    | some c =>
      unfold hRun
      simp only
      have hs := hstep st.T st.basis st.allFound c h
      split_ifs <;> first | (apply ih; exact h) | (apply ih; exact hs)

/-! ### well-formed tableaux -/

/-- reads outside the declared shape give `0` (true of every `M.tab`) -/
def WF (T : M K) : Prop := ∀ i j, (T.nr ≤ i ∨ T.nc ≤ j) → T.get i j = 0

theorem wf_tab (n m : Nat) (f : Nat → Nat → K) : WF (M.tab n m f) := by
  intro i j h
  unfold M.tab M.get
  rcases h with h | h
  · have h' : n ≤ i := h
    have : ¬ i < n := by omega
    simp [Array.getD, this]
  · have h' : m ≤ j := h
    have : ¬ j < m := by omega
    by_cases hi : i < n <;> simp [Array.getD, hi, this]

theorem wf_pivot (T : M K) (c r : Nat) : WF (pivot T c r) := by
  unfold pivot; exact wf_tab _ _ _

/-! ### the invariant -/

/-- `T` has the shape `n × (2n+1)`, is row-equivalent to `T0` (same solutions of the `n` equations),
    its basic columns are the unit vectors (`T[i, basis[j]] = δ_ij`), all basic variables are
    variable columns -/
structure HInv (n : Nat) (T0 T : M K) (b : List Nat) : Prop where
  nr : T.nr = n
  nc : T.nc = 2 * n + 1
  wf : WF T
  equiv : ∀ z : Nat → K, RowsSat T z n ↔ RowsSat T0 z n
  blen : b.length = n
  bvar : ∀ j, j < n → b.getD j 0 < 2 * n
  canon : ∀ i j, i < n → j < n → T.get i (b.getD j 0) = if i = j then 1 else 0

theorem getD_set_eq (b : List Nat) (r c j : Nat) (hr : r < b.length) :
    (b.set r c).getD j 0 = if j = r then c else b.getD j 0 := by
  rw [List.getD_eq_getElem?_getD, List.getD_eq_getElem?_getD, List.getElem?_set]
  by_cases h : r = j
  · subst h; simp [hr]
  · have : ¬ j = r := fun e => h e.symm
    simp [h, this]

/-- one step of the inner loop preserves the invariant as long as the ghost flag stays true -/
theorem hinv_step (n : Nat) (T0 : M K) (tp td : K) (htp : 0 ≤ tp) (T : M K) (b : List Nat) (c : Nat)
    (h : HInv n T0 T b) (hf : (lexMinRatio T c 0 tp td).1 = true) (hc : c < 2 * n) :
    HInv n T0 (pivot T c (lexMinRatio T c 0 tp td).2) (b.set (lexMinRatio T c 0 tp td).2 c) := by
  obtain ⟨hr, hpos⟩ := lexMinRatio_found_pos T c 0 tp td hf
  set r := (lexMinRatio T c 0 tp td).2 with hrdef
  have hp : T.get r c ≠ 0 := ne_of_gt (lt_of_le_of_lt htp hpos)
  have hrn : r < n := by rw [← h.nr]; exact hr
  have hcnc : c < T.nc := by rw [h.nc]; omega
  refine ⟨by simp [h.nr], by simp [h.nc], wf_pivot T c r, ?_, by simp [h.blen], ?_, ?_⟩
  · intro z
    rw [pivot_rowsSat T z c r n (by rw [h.nr]) hrn (by rw [h.nc]; omega) hp]
    exact h.equiv z
  · intro j hj
    rw [getD_set_eq b r c j (by rw [h.blen]; exact hrn)]
    split_ifs
    · exact hc
    · exact h.bvar j hj
  · intro i j hi hj
    rw [getD_set_eq b r c j (by rw [h.blen]; exact hrn)]
    have hinr : i < T.nr := by rw [h.nr]; exact hi
    by_cases hjr : j = r
    · rw [if_pos hjr]
      by_cases hir : i = r
      · rw [hir, pivot_col_r T c r hr hcnc hp, if_pos hjr.symm]
      · rw [pivot_col_i T c r i hinr hcnc hir hp, if_neg (by rw [hjr]; exact hir)]
    · rw [if_neg hjr]
      have hz : T.get r (b.getD j 0) = 0 := by
        rw [h.canon r j hrn hj, if_neg (fun e => hjr e.symm)]
      rw [pivot_col_keep T c r i (b.getD j 0) hinr (by rw [h.nc]; have := h.bvar j hj; omega) hz]
      exact h.canon i j hi hj

/-- the invariant along the whole run (guarded by the ghost flag) -/
theorem hRun_hinv (nums start : List Nat) (maxIter : Int) (tp td : K) (htp : 0 ≤ tp) (T0 : M K)
    (fuel : Nat) (st : HState K) (pc : Option Nat)
    (h0 : st.allFound = true → HInv (nums.foldl (· + ·) 0 + nums.length) T0 st.T st.basis) :
    (hRun nums start maxIter tp td fuel st pc).allFound = true →
      HInv (nums.foldl (· + ·) 0 + nums.length) T0 (hRun nums start maxIter tp td fuel st pc).T
        (hRun nums start maxIter tp td fuel st pc).basis := by
  apply hRun_inv nums start maxIter tp td
    (fun T b af => af = true → HInv (nums.foldl (· + ·) 0 + nums.length) T0 T b) _ fuel st pc h0
  intro T b af c hQ haf
  simp only [Bool.and_eq_true, decide_eq_true_eq] at haf
  exact hinv_step _ T0 tp td htp T b c (hQ haf.1.1) haf.1.2 haf.2

end QE.C15
