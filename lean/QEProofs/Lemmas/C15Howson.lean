/-
  Lemmas for C15, part 6: Howson's LCP (`polym_lcp_solver`). An induction principle for the
  flattened double loop `hRun`, and the invariants every pivot of the run preserves:
  row-equivalence with the initial system, canonical form of the basic columns, feasibility.
-/
import Mathlib.Algebra.Order.Field.Basic
import Mathlib.Tactic.Linarith
import Mathlib.Tactic.Ring
import QEModel.C15
import QEProofs.Lemmas.PivotLemmas
import QEProofs.Lemmas.C04Ratio
namespace QE.C15
open QE QE.Pivot Finset

set_option linter.unusedSectionVars false
variable {K : Type} [Field K] [LinearOrder K] [IsStrictOrderedRing K]

/-! ### induction principle for the run -/

/-- Whatever is preserved by one pivoting step of the inner loop (ratio test on the entering
    column, pivot, basis update, ghost flag) holds at the end of the run, for every fuel,
    `max_iter`, start and level: the control flow (levels, back-tracking, `max_iter`) only decides
    *which* columns enter. -/
theorem hRun_inv (nums start : List Nat) (maxIter : Int) (tp td : K)
    (Q : M K → List Nat → Bool → Prop)
    (hstep : ∀ (T : M K) (b : List Nat) (af : Bool) (c : Nat), Q T b af →
      Q (pivot T c (lexMinRatio T c 0 tp td).2) (b.set (lexMinRatio T c 0 tp td).2 c)
        (af && (lexMinRatio T c 0 tp td).1 &&
          decide (c < 2 * (nums.foldl (· + ·) 0 + nums.length)))) :
    ∀ (fuel : Nat) (st : HState K) (pc : Option Nat), Q st.T st.basis st.allFound →
      Q (hRun nums start maxIter tp td fuel st pc).T (hRun nums start maxIter tp td fuel st pc).basis
        (hRun nums start maxIter tp td fuel st pc).allFound := by
  intro fuel
  induction fuel with
  | zero => intro st pc h; exact h
  | succ f ih =>
    intro st pc h
    cases pc with
    | none =>
      unfold hRun
      simp only
      split_ifs <;> first | exact h | (apply ih; exact h)
    | some c =>
      unfold hRun
      simp only
      have hs := hstep st.T st.basis st.allFound c h
      split_ifs <;> first | (apply ih; exact h) | (apply ih; exact hs)

/-! ### well-formed tableaux -/

/-- reads outside the declared shape give `0` (true of every `M.tab`) -/
def WF (T : M K) : Prop := ∀ i j, (T.nr ≤ i ∨ T.nc ≤ j) → T.get i j = 0

theorem wf_tab (n m : Nat) (f : Nat → Nat → K) : WF (M.tab n m f) := by
  intro i j h
  unfold M.tab M.get
  rcases h with h | h
  · have h' : n ≤ i := h
    have : ¬ i < n := by omega
    simp [Array.getD, this]
  · have h' : m ≤ j := h
    have : ¬ j < m := by omega
    by_cases hi : i < n <;> simp [Array.getD, hi, this]

theorem wf_pivot (T : M K) (c r : Nat) : WF (pivot T c r) := by
  unfold pivot; exact wf_tab _ _ _

/-! ### the invariant -/

/-- `T` has the shape `n × (2n+1)`, is row-equivalent to `T0` (same solutions of the `n` equations),
    its basic columns are the unit vectors (`T[i, basis[j]] = δ_ij`), all basic variables are
    variable columns -/
structure HInv (n : Nat) (T0 T : M K) (b : List Nat) : Prop where
  nr : T.nr = n
  nc : T.nc = 2 * n + 1
  wf : WF T
  equiv : ∀ z : Nat → K, RowsSat T z n ↔ RowsSat T0 z n
  blen : b.length = n
  bvar : ∀ j, j < n → b.getD j 0 < 2 * n
  canon : ∀ i j, i < n → j < n → T.get i (b.getD j 0) = if i = j then 1 else 0

theorem getD_set_eq (b : List Nat) (r c j : Nat) (hr : r < b.length) :
    (b.set r c).getD j 0 = if j = r then c else b.getD j 0 := by
  rw [List.getD_eq_getElem?_getD, List.getD_eq_getElem?_getD, List.getElem?_set]
  by_cases h : r = j
  · subst h; simp [hr]
  · have : ¬ j = r := fun e => h e.symm
    simp [h, this]

/-- a pivot on a non-zero element of a variable column preserves the invariant -/
theorem hinv_pivot (n : Nat) (T0 T : M K) (b : List Nat) (c r : Nat)
    (h : HInv n T0 T b) (hrn : r < n) (hc : c < 2 * n) (hp : T.get r c ≠ 0) :
    HInv n T0 (pivot T c r) (b.set r c) := by
  have hr : r < T.nr := by rw [h.nr]; exact hrn
  have hcnc : c < T.nc := by rw [h.nc]; omega
  refine ⟨h.nr, h.nc, wf_pivot T c r, ?_, by simp [h.blen], ?_, ?_⟩
  · intro z
    rw [pivot_rowsSat T z c r n (by rw [h.nr]) hrn (by rw [h.nc]; omega) hp]
    exact h.equiv z
  · intro j hj
    rw [getD_set_eq b r c j (by rw [h.blen]; exact hrn)]
    split_ifs
    · exact hc
    · exact h.bvar j hj
  · intro i j hi hj
    rw [getD_set_eq b r c j (by rw [h.blen]; exact hrn)]
    have hinr : i < T.nr := by rw [h.nr]; exact hi
    by_cases hjr : j = r
    · rw [if_pos hjr]
      by_cases hir : i = r
      · rw [hir, pivot_col_r T c r hr hcnc hp, if_pos hjr.symm]
      · rw [pivot_col_i T c r i hinr hcnc hir hp, if_neg (by rw [hjr]; exact hir)]
    · rw [if_neg hjr]
      have hz : T.get r (b.getD j 0) = 0 := by
        rw [h.canon r j hrn hj, if_neg (fun e => hjr e.symm)]
      rw [pivot_col_keep T c r i (b.getD j 0) hinr (by rw [h.nc]; have := h.bvar j hj; omega) hz]
      exact h.canon i j hi hj

/-- one step of the inner loop preserves the invariant as long as the ghost flag stays true -/
theorem hinv_step (n : Nat) (T0 : M K) (tp td : K) (htp : 0 ≤ tp) (T : M K) (b : List Nat) (c : Nat)
    (h : HInv n T0 T b) (hf : (lexMinRatio T c 0 tp td).1 = true) (hc : c < 2 * n) :
    HInv n T0 (pivot T c (lexMinRatio T c 0 tp td).2) (b.set (lexMinRatio T c 0 tp td).2 c) := by
  obtain ⟨hr, hpos⟩ := lexMinRatio_found_pos T c 0 tp td hf
  exact hinv_pivot n T0 T b c _ h (by rw [← h.nr]; exact hr) hc (ne_of_gt (lt_of_le_of_lt htp hpos))

/-- the invariant along the whole run (guarded by the ghost flag) -/
theorem hRun_hinv (nums start : List Nat) (maxIter : Int) (tp td : K) (htp : 0 ≤ tp) (T0 : M K)
    (fuel : Nat) (st : HState K) (pc : Option Nat)
    (h0 : st.allFound = true → HInv (nums.foldl (· + ·) 0 + nums.length) T0 st.T st.basis) :
    (hRun nums start maxIter tp td fuel st pc).allFound = true →
      HInv (nums.foldl (· + ·) 0 + nums.length) T0 (hRun nums start maxIter tp td fuel st pc).T
        (hRun nums start maxIter tp td fuel st pc).basis := by
  apply hRun_inv nums start maxIter tp td
    (fun T b af => af = true → HInv (nums.foldl (· + ·) 0 + nums.length) T0 T b) _ fuel st pc h0
  intro T b af c hQ haf
  simp only [Bool.and_eq_true, decide_eq_true_eq] at haf
  exact hinv_step _ T0 tp td htp T b c (hQ haf.1.1) haf.1.2 haf.2

/-! ### feasibility at tolerances 0 -/

/-- one step of the minimum-ratio rule with `tol_piv = tol_ratio_diff = 0` keeps the right-hand
    side non-negative -/
theorem feas_step (T : M K) (c : Nat) (hnc : 0 < T.nc)
    (hfeas : ∀ i, i < T.nr → 0 ≤ T.get i (T.nc - 1))
    (hf : (lexMinRatio T c 0 (0 : K) 0).1 = true) :
    ∀ i, i < T.nr → 0 ≤ (pivot T c (lexMinRatio T c 0 (0 : K) 0).2).get i (T.nc - 1) := by
  have hpair : lexMinRatio T c 0 (0 : K) 0 = (true, (lexMinRatio T c 0 (0 : K) 0).2) := by
    rw [← hf]
  obtain ⟨hr, hpos, hmin⟩ := lexMinRatio_found T c 0 (0 : K) _ hpair
  set r := (lexMinRatio T c 0 (0 : K) 0).2
  have hlast : T.nc - 1 < T.nc := by omega
  have hrr : 0 ≤ T.get r (T.nc - 1) / T.get r c := div_nonneg (hfeas r hr) (le_of_lt hpos)
  intro i hi
  by_cases hir : i = r
  · rw [hir, pivot_get_r T c r _ hr hlast]; exact hrr
  · rw [pivot_get_i T c r i _ hi hlast hir]
    by_cases hic : 0 < T.get i c
    · have h1 := hmin i hi hic
      rw [div_le_div_iff₀ hpos hic] at h1
      have : T.get r (T.nc - 1) / T.get r c * T.get i c ≤ T.get i (T.nc - 1) := by
        rw [div_mul_eq_mul_div, div_le_iff₀ hpos]; linarith
      linarith
    · have : T.get r (T.nc - 1) / T.get r c * T.get i c ≤ 0 :=
        mul_nonpos_of_nonneg_of_nonpos hrr (not_lt.mp hic)
      have := hfeas i hi
      linarith

/-- feasibility along the whole run at tolerances 0 (guarded by the ghost flag) -/
theorem hRun_feas (nums start : List Nat) (maxIter : Int) (n : Nat)
    (fuel : Nat) (st : HState K) (pc : Option Nat)
    (h0 : st.allFound = true → (st.T.nr = n ∧ 0 < st.T.nc ∧ ∀ i, i < n → 0 ≤ st.T.get i (st.T.nc - 1))) :
    (hRun nums start maxIter (0 : K) 0 fuel st pc).allFound = true →
      ∀ i, i < n → 0 ≤ (hRun nums start maxIter (0 : K) 0 fuel st pc).T.get i
        ((hRun nums start maxIter (0 : K) 0 fuel st pc).T.nc - 1) := by
  intro haf
  have := hRun_inv nums start maxIter (0 : K) 0
    (fun T b af => af = true → (T.nr = n ∧ 0 < T.nc ∧ ∀ i, i < n → 0 ≤ T.get i (T.nc - 1))) ?_ fuel st pc h0 haf
  · exact this.2.2
  · intro T b af c hQ haf'
    simp only [Bool.and_eq_true, decide_eq_true_eq] at haf'
    obtain ⟨hnr, hnc, hfe⟩ := hQ haf'.1.1
    refine ⟨hnr, hnc, ?_⟩
    intro i hi
    exact feas_step T c hnc (fun i hi => hfe i (by omega)) haf'.1.2 i (by omega)

end QE.C15
