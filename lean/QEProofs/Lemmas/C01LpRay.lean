/-
  Lemmas for C01, part 14: the LP method never reports "unbounded" (status 3) in exact arithmetic.
  A tableau column with positive reduced cost and no positive entry would give a non-negative
  direction `d ≠ 0` with `(I − βQ)ᵀ`-type rows `A d = 0`; summing the rows gives `(1−β) Σ d = 0`.
-/
import QEProofs.Lemmas.C01LpStart
import QEProofs.Lemmas.C04Tie
import QEProofs.Lemmas.C04Dual

set_option linter.unusedSectionVars false

namespace QE.C01
open List QE.Pivot

variable {K : Type} [Field K] [LinearOrder K] [IsStrictOrderedRing K]

/-- `RowInv` gives C04's `RowsSpan` (the multipliers are the slack block) -/
theorem rowsSpan_of_rowInv {T0 T : M K} {n L : ℕ} (h : RowInv T0 T n L) :
    QE.C04.RowsSpan T0 T n (L + n) := by
  intro i hi
  refine ⟨fun k => T.get i (L + k), fun j hj => ?_⟩
  have := h.2.2 i (by omega) j (by omega)
  rw [if_neg (by omega), zero_add] at this
  exact this

/-- every structural column of the initial tableau sums to `1 − β` over the constraint rows -/
theorem lpTableau_colsum {P : Prob K} (hP : WF P) (β : K) (j : ℕ) (hj : j < (lpCols P).length) :
    ∑ s ∈ Finset.range P.length, (lpTableau P β).get s j = 1 - β := by
  obtain ⟨hst, hS⟩ := lpCols_stoch hP j hj
  rw [Finset.sum_congr rfl fun k hk => lpTableau_body P β k j (Finset.mem_range.mp hk) hj]
  rw [Finset.sum_add_distrib, ← Finset.sum_mul, sum_getD_range _ _ hS.2.2, hS.2.1]
  rw [Finset.sum_ite_eq]
  simp only [Finset.mem_range, hst, if_true]
  ring

theorem lpTableau_slack_colsum (P : Prob K) (β : K) (k : ℕ) (hk : k < P.length) :
    ∑ s ∈ Finset.range P.length, (lpTableau P β).get s ((lpCols P).length + k) = 1 := by
  rw [Finset.sum_congr rfl fun s hs =>
    lpTableau_slack P β s k (le_of_lt (Finset.mem_range.mp hs)) hk]
  rw [Finset.sum_ite_eq']
  simp [hk]

/-- a non-negative vector in the kernel of the constraint rows of the initial tableau vanishes on
    the structural columns -/
theorem kernel_nonneg_zero {P : Prob K} (hP : WF P) {β : K} (hβ1 : β < 1) (d : ℕ → K)
    (hd : ∀ j, 0 ≤ d j)
    (hker : ∀ s, s < P.length →
      ∑ j ∈ Finset.range ((lpCols P).length + P.length), (lpTableau P β).get s j * d j = 0)
    (c : ℕ) (hc : c < (lpCols P).length) : d c = 0 := by
  have hpos : 0 < 1 - β := by linarith
  have hsum : ∑ s ∈ Finset.range P.length,
      ∑ j ∈ Finset.range ((lpCols P).length + P.length), (lpTableau P β).get s j * d j = 0 :=
    Finset.sum_eq_zero fun s hs => hker s (Finset.mem_range.mp hs)
  rw [Finset.sum_comm] at hsum
  have hterm : ∀ j ∈ Finset.range ((lpCols P).length + P.length),
      0 ≤ ∑ s ∈ Finset.range P.length, (lpTableau P β).get s j * d j := by
    intro j hj
    rw [← Finset.sum_mul]
    have hjN := Finset.mem_range.mp hj
    by_cases hjL : j < (lpCols P).length
    · rw [lpTableau_colsum hP β j hjL]; exact mul_nonneg hpos.le (hd j)
    · have : j = (lpCols P).length + (j - (lpCols P).length) := by omega
      rw [this, lpTableau_slack_colsum P β _ (by omega)]
      simpa using hd _
  have hzero := (Finset.sum_eq_zero_iff_of_nonneg hterm).mp hsum c
    (Finset.mem_range.mpr (by omega))
  rw [← Finset.sum_mul, lpTableau_colsum hP β c hc] at hzero
  rcases mul_eq_zero.mp hzero with h | h
  · linarith
  · exact h

/-- **no status 3**: on a tableau satisfying the invariants, a column with positive reduced cost has a
    positive entry (otherwise the ray it defines would be a non-trivial non-negative kernel vector) -/
theorem no_ray {P : Prob K} (hP : WF P) {β : K} (hβ1 : β < 1) {T : M K} {b : List ℕ}
    (hinv : LpInv P β T b) (c : ℕ) (hc : c < (lpCols P).length)
    (hpos : 0 < T.get P.length c) (hcol : ∀ i, i < P.length → T.get i c ≤ 0) : False := by
  set N := (lpCols P).length + P.length with hN
  have hray := QE.C04.inv0_ray (lpTableau P β) P.length N T b c hinv.1 (by omega) hpos hcol
  obtain ⟨_, h0, _⟩ := hray 0 le_rfl
  obtain ⟨_, h1, _⟩ := hray 1 zero_le_one
  set d := QE.C04.rayDir T b P.length c with hd
  have hdn : ∀ j, 0 ≤ d j := by
    intro j
    rw [hd]; unfold QE.C04.rayDir
    split_ifs
    · exact zero_le_one
    · apply Finset.sum_nonneg
      intro i hi
      split_ifs
      · have := hcol i (Finset.mem_range.mp hi); linarith
      · exact le_rfl
  have hnc : (lpTableau P β).nc - 1 = N := by rw [lpTableau_nc]; rfl
  have hker : ∀ s, s < P.length →
      ∑ j ∈ Finset.range N, (lpTableau P β).get s j * d j = 0 := by
    intro s hs
    have e0 := h0 s hs
    have e1 := h1 s hs
    unfold RowSat at e0 e1
    rw [hnc] at e0 e1
    simp only [zero_mul, add_zero, one_mul] at e0 e1
    have : ∑ j ∈ Finset.range N, (lpTableau P β).get s j * (QE.C04.bsol T b P.length N j + d j)
        = ∑ j ∈ Finset.range N, (lpTableau P β).get s j * QE.C04.bsol T b P.length N j
          + ∑ j ∈ Finset.range N, (lpTableau P β).get s j * d j := by
      rw [← Finset.sum_add_distrib]; apply Finset.sum_congr rfl; intro j _; ring
    rw [this, e0] at e1
    linarith
  have hz := kernel_nonneg_zero hP hβ1 d hdn hker c hc
  have : d c = 1 := by rw [hd]; unfold QE.C04.rayDir; simp
  rw [this] at hz
  exact one_ne_zero hz

/-- `solve_tableau` started from a tableau satisfying the invariants never reports status 3 -/
theorem solveTableau_not_unbounded {P : Prob K} (hP : WF P) {β : K} (hβ0 : 0 ≤ β) (hβ1 : β < 1)
    (T1 : M K) (b0 : List ℕ) (hstart : LpInv P β T1 b0)
    (hrow : RowInv (lpTableau P β) T1 P.length (lpCols P).length) (fuel : ℕ) :
    (QE.C04.solveTableau (QE.C04.tol0 : QE.C04.Tol K) true fuel T1 b0).status ≠ 3 := by
  intro h3
  obtain ⟨c, hpc, hnf⟩ := QE.C04.solveTableau_status3 (QE.C04.tol0 : QE.C04.Tol K) true fuel T1 b0 h3
  have hfin : LpInv P β (QE.C04.solveTableau (QE.C04.tol0 : QE.C04.Tol K) true fuel T1 b0).T
      (QE.C04.solveTableau (QE.C04.tol0 : QE.C04.Tol K) true fuel T1 b0).basis :=
    QE.C04.solveTableau_induct (QE.C04.tol0 : QE.C04.Tol K) true (LpInv P β)
      (fun T b T' b' h hs => lpInv_step hP hβ0 h hs) fuel T1 b0 hstart
  have hri := (solveTableau_inv (QE.C04.tol0 : QE.C04.Tol K) fuel T1 b0 hrow).1
  set r := QE.C04.solveTableau (QE.C04.tol0 : QE.C04.Tol K) true fuel T1 b0 with hr
  have hsh := hfin.1.shape
  obtain ⟨h1, h2, _⟩ := QE.C04.pivotCol_some r.T true (QE.C04.tol0 : QE.C04.Tol K).fea c hpc
  have hL : r.T.nr - 1 = P.length := by rw [hsh.1]; rfl
  have hN : r.T.nc - 1 = (lpCols P).length + P.length := by rw [hsh.2]; rfl
  simp only [if_true] at h1
  rw [hL, hN] at h1
  rw [hL] at h2
  have hss : r.T.nc - (r.T.nr - 1) - 1 = (lpCols P).length := by rw [hsh.1, hsh.2]; omega
  rw [hss] at hnf
  have hcol := QE.C04.no_unresolved_tie (lpTableau P β) r.T r.basis P.length
    ((lpCols P).length + P.length) (lpCols P).length c hsh hfin.1.canon le_rfl
    (fun q q' hq hq' => lpTableau_slack P β q q' (le_of_lt hq) hq')
    (rowsSpan_of_rowInv hri) hnf
  exact no_ray hP hβ1 hfin c (by omega) h2 hcol

/-- **the LP method either reports success or has exhausted `max_iter`** (tolerances 0) -/
theorem lpSolve_stopped_or_cap {P : Prob K} (hP : WF P) {β : K} (hβ0 : 0 ≤ β) (hβ1 : β < 1)
    {σ0 : List ℕ} (hf0 : Feasible P σ0) (maxIter : ℕ) :
    (lpSolve (QE.C04.tol0 : QE.C04.Tol K) P β σ0 maxIter).stopped = true ∨
    (lpSolve (QE.C04.tol0 : QE.C04.Tol K) P β σ0 maxIter).iters = (maxIter - P.length) + P.length := by
  have hstart : LpInv P β (lpStart P β (lpBasis0 P σ0)) (lpBasis0 P σ0) :=
    ⟨inv0_of_startChk hf0 (lpStartChk_holds hP hβ0 hβ1 hf0), policyBasis_start hf0⟩
  have hrow := rowInv_start P β (lpBasis0 P σ0)
  have h3 := solveTableau_not_unbounded hP hβ0 hβ1 _ _ hstart hrow (maxIter - P.length)
  rcases QE.C04.solveTableau_status (QE.C04.tol0 : QE.C04.Tol K) true (maxIter - P.length)
    (lpStart P β (lpBasis0 P σ0)) (lpBasis0 P σ0) with h | h | h
  · left
    show ((QE.C04.solveTableau (QE.C04.tol0 : QE.C04.Tol K) true (maxIter - P.length)
      (lpStart P β (lpBasis0 P σ0)) (lpBasis0 P σ0)).status == 0) = true
    rw [h]; rfl
  · right
    have := QE.C04.solveTableau_status1 (QE.C04.tol0 : QE.C04.Tol K) true (maxIter - P.length)
      (lpStart P β (lpBasis0 P σ0)) (lpBasis0 P σ0) h
    show (QE.C04.solveTableau (QE.C04.tol0 : QE.C04.Tol K) true (maxIter - P.length)
      (lpStart P β (lpBasis0 P σ0)) (lpBasis0 P σ0)).iters + P.length = _
    rw [this]
  · exact absurd h h3

end QE.C01
