/-
  The whole run of `lcpLemke` (`QEModel.C11`): state after the first pivot, the
  almost-complementary basic feasible solution at every exit, the read-out.
-/
import QEProofs.Lemmas.C11Sol

namespace QE.C11
open QE QE.Pivot Finset
set_option linter.unusedVariables false
set_option linter.unusedSectionVars false

variable {K : Type} [Field K] [LinearOrder K] [IsStrictOrderedRing K]

theorem firstFoldIdx (q d : ℕ → K) (t : K) : ∀ (l : List ℕ) (st : ℕ × K),
    (l.foldl (firstStep q d t) st).1 = st.1 ∨ (l.foldl (firstStep q d t) st).1 ∈ l := by
  intro l
  induction l with
  | nil => intro st; exact Or.inl rfl
  | cons i l ih =>
    intro st
    rw [List.foldl_cons]
    rcases ih (firstStep q d t st i) with h | h
    · rw [h, firstStep_eq]
      split
      · exact Or.inr (by simp)
      · exact Or.inl rfl
    · exact Or.inr (List.mem_cons_of_mem _ h)

/-- the first pivot row is a row index, for every tie tolerance -/
theorem firstPivotRow_lt (n : ℕ) (hn : 0 < n) (q d : ℕ → K) (td : K) :
    firstPivotRow n q d td < n := by
  unfold firstPivotRow
  rcases firstFoldIdx q d td (List.range' 1 (n - 1)) (0, q 0 / d 0) with h | h
  · rw [h]; exact hn
  · have := List.mem_range'_1.mp h; omega

section run
variable (n : ℕ) (Mm : ℕ → ℕ → K) (q d : ℕ → K)

theorem firstPivot_fst (td : K) : (firstPivot n Mm q d td).1 =
    pivot (initTableau n Mm q d) (2 * n) (firstPivotRow n q d td) := rfl
theorem firstPivot_snd (td : K) : (firstPivot n Mm q d td).2.1 =
    setBasis initBasis (firstPivotRow n q d td) (2 * n) := rfl
theorem firstPivot_trd (td : K) : (firstPivot n Mm q d td).2.2 = firstPivotRow n q d td + n := rfl

theorem init_get_art (hn : 0 < n) (i : ℕ) (hi : i < n) :
    (initTableau n Mm q d).get i (2 * n) = - d i := by
  rw [init_get n Mm q d i (2 * n) hi (by omega), if_neg (by omega), if_neg (by omega), if_pos rfl]

theorem init_get_rhs (i : ℕ) (hi : i < n) :
    (initTableau n Mm q d).get i (2 * n + 1) = q i := by
  rw [init_get n Mm q d i (2 * n + 1) hi (by omega), if_neg (by omega), if_neg (by omega),
    if_neg (by omega)]

/-- state after the first pivot (lcp_lemke.py 141-157): bookkeeping invariant, admissible
    entering column `pivrow + n` -/
theorem firstPivot_inv1 (hn : 0 < n) (hd : ∀ i, i < n → d i ≠ 0) (td : K) :
    Inv1 n (initTableau n Mm q d) (firstPivot n Mm q d td).1 (firstPivot n Mm q d td).2.1 ∧
    Enter n (firstPivot n Mm q d td).2.1 (firstPivot n Mm q d td).2.2 ∧
    (firstPivot n Mm q d td).2.2 < 2 * n := by
  have hr := firstPivotRow_lt n hn q d td
  rw [firstPivot_fst, firstPivot_snd, firstPivot_trd]
  have h0 := init_inv1 n Mm q d hn
  have he := init_enter n
  refine ⟨?_, ?_, by omega⟩
  · apply inv1_pivot hn h0 he hr
    rw [init_get_art n Mm q d hn _ hr]
    exact neg_ne_zero.mpr (hd _ hr)
  · have := enter_next (c := 2 * n) h0 he hr (by unfold initBasis; omega)
    have hc : complement n (initBasis (firstPivotRow n q d td)) = firstPivotRow n q d td + n := by
      unfold initBasis complement; rw [if_pos hr]
    rwa [hc] at this

/-- after the first pivot the right-hand side is non-negative (this is where the
    arg-min property of the first ratio test is needed) -/
theorem firstPivot_feas (hn : 0 < n) (hd : ∀ i, i < n → 0 < d i) (hq : ∃ i, i < n ∧ q i < 0) :
    Feas n (firstPivot n Mm q d 0).1 := by
  obtain ⟨hr, hmin⟩ := firstPivotRow_argmin n hn q d
  rw [firstPivot_fst]
  set r := firstPivotRow n q d 0 with hrdef
  have hnr : (initTableau n Mm q d).nr = n := rfl
  have hnc : (initTableau n Mm q d).nc = 2 * n + 2 := rfl
  have hdr := hd r hr
  have hqr : q r / d r < 0 := by
    obtain ⟨i, hi, hqi⟩ := hq
    exact lt_of_le_of_lt (hmin i hi) (div_neg_of_neg_of_pos hqi (hd i hi))
  intro i hi
  by_cases hir : i = r
  · rw [hir, pivot_get_r _ _ _ _ (by omega) (by omega), init_get_art n Mm q d hn r hr,
      init_get_rhs n Mm q d r hr, div_neg]
    linarith
  · rw [pivot_get_i _ _ _ _ _ (by omega) (by omega) hir, init_get_art n Mm q d hn r hr,
      init_get_art n Mm q d hn i hi, init_get_rhs n Mm q d r hr, init_get_rhs n Mm q d i hi]
    have h1 := hmin i hi
    rw [le_div_iff₀ (hd i hi)] at h1
    have : q r / -d r * -d i = q r / d r * d i := by rw [div_neg]; ring
    rw [this]; linarith

end run

/-! ### the solution notion -/

/-- `z` solves the LCP `(M, q)` of size `n`: `z ≥ 0`, `Mz + q ≥ 0`, `z_i (Mz+q)_i = 0` -/
def LCPSol (n : ℕ) (Mm : ℕ → ℕ → K) (q z : ℕ → K) : Prop :=
  (∀ j, j < n → 0 ≤ z j) ∧
  (∀ i, i < n → 0 ≤ ∑ j ∈ range n, Mm i j * z j + q i) ∧
  (∀ i, i < n → z i * (∑ j ∈ range n, Mm i j * z j + q i) = 0)

theorem trivialExit_iff (n : ℕ) (q : ℕ → K) : trivialExit n q = true ↔ ∀ i, i < n → 0 ≤ q i := by
  unfold trivialExit
  rw [List.all_eq_true]
  constructor
  · intro h i hi
    exact of_decide_eq_true (h i (List.mem_range.mpr hi))
  · intro h i hi
    exact decide_eq_true (h i (List.mem_range.mp hi))

/-- **every exit of the non-trivial branch carries an almost complementary basic feasible
    solution** (tolerances 0): with `x` the basic solution of the final tableau/basis,
    `w = x[0..n)`, `z = x[n..2n)`, `z₀ = x[2n]`: all `≥ 0`, `w = Mz + q + d z₀`,
    `w_i z_i = 0`; the read-out is `z`; on status 0, `z₀ = 0`. -/
theorem lemkeRun_basic (n : ℕ) (hn : 0 < n) (Mm : ℕ → ℕ → K) (q d : ℕ → K)
    (hd : ∀ i, i < n → 0 < d i) (hq : ∃ i, i < n ∧ q i < 0) (maxIter : ℕ) :
    let o := lemkeRun n Mm q d maxIter (0 : K) 0
    let x := basicSol n o.T o.basis
    (∀ v, 0 ≤ x v) ∧
    (∀ i, i < n → x i = ∑ j ∈ range n, Mm i j * x (n + j) + q i + d i * x (2 * n)) ∧
    (∀ i, i < n → x i * x (n + i) = 0) ∧
    (∀ j, j < n → getSolution n o.T o.basis j = x (n + j)) ∧
    (o.status = 0 → x (2 * n) = 0) := by
  intro o x
  obtain ⟨h1, he, hc⟩ := firstPivot_inv1 n Mm q d hn (fun i hi => ne_of_gt (hd i hi)) (0 : K)
  have hfe := firstPivot_feas n Mm q d hn hd hq
  have hI := lemkeLoop_inv1 hn (initTableau n Mm q d) (0 : K) 0 (le_refl _) (maxIter - 1)
    _ _ _ 1 h1 he hc
  have hF := lemkeLoop_feas hn (initTableau n Mm q d) (maxIter - 1) _ _ _ 1 h1 he hc hfe
  have hI1 : Inv1 n (initTableau n Mm q d) o.T o.basis := hI.1
  have hF1 : Feas n o.T := hF
  refine ⟨fun v => basicSol_nonneg hF1 v, ?_, fun i hi => basicSol_compl hI1 i hi,
    fun j hj => getSolution_eq hI1 j hj, ?_⟩
  · intro i hi
    have hrows : RowsSat o.T x n := fun k hk => basicSol_rowSat hI1 k hk
    have h0 := (hI1.equiv x).mp hrows i hi
    rw [init_rowSat n Mm q d x i hi] at h0
    linarith
  · intro hs
    exact basicSol_eq_zero _ (hI.2 hs)

/-! ### iteration counter and status -/

theorem lemkeLoop_count (n : ℕ) (tp td : K) : ∀ (fuel : ℕ) (T : M K) (basis : ℕ → ℕ) (c it : ℕ),
    it ≤ (lemkeLoop n tp td fuel T basis c it).numIter ∧
    (lemkeLoop n tp td fuel T basis c it).numIter ≤ it + fuel ∧
    ((lemkeLoop n tp td fuel T basis c it).status = 1 →
      (lemkeLoop n tp td fuel T basis c it).numIter = it + fuel) ∧
    ((lemkeLoop n tp td fuel T basis c it).status = 0 →
      it < (lemkeLoop n tp td fuel T basis c it).numIter) ∧
    (lemkeLoop n tp td fuel T basis c it).status ≤ 2 := by
  intro fuel
  induction fuel with
  | zero => intro T basis c it; rw [lemkeLoop_zero]; simp
  | succ fuel ih =>
    intro T basis c it
    rw [lemkeLoop_succ]
    by_cases hf : (lexMinRatio T c 0 tp td).1 = false
    · rw [if_pos hf]; simp
    · rw [if_neg hf]
      by_cases hl : basis (lexMinRatio T c 0 tp td).2 = 2 * n
      · rw [if_pos hl]; simp
      · rw [if_neg hl]
        obtain ⟨h1, h2, h3, h4, h5⟩ := ih (pivot T c (lexMinRatio T c 0 tp td).2)
          (setBasis basis (lexMinRatio T c 0 tp td).2 c)
          (complement n (basis (lexMinRatio T c 0 tp td).2)) (it + 1)
        refine ⟨by omega, by omega, fun h => by have := h3 h; omega, fun h => by have := h4 h; omega, h5⟩

/-- a run that does not stop at the iteration limit is the same for every larger limit -/
theorem lemkeLoop_fuel_irrelevant (n : ℕ) (tp td : K) :
    ∀ (fuel : ℕ) (T : M K) (basis : ℕ → ℕ) (c it : ℕ),
      (lemkeLoop n tp td fuel T basis c it).status ≠ 1 →
      ∀ k, lemkeLoop n tp td (fuel + k) T basis c it = lemkeLoop n tp td fuel T basis c it := by
  intro fuel
  induction fuel with
  | zero => intro T basis c it hs; rw [lemkeLoop_zero] at hs; exact absurd rfl hs
  | succ fuel ih =>
    intro T basis c it hs k
    rw [show fuel + 1 + k = (fuel + k) + 1 by omega, lemkeLoop_succ, lemkeLoop_succ]
    rw [lemkeLoop_succ] at hs
    by_cases hf : (lexMinRatio T c 0 tp td).1 = false
    · rw [if_pos hf, if_pos hf]
    · rw [if_neg hf, if_neg hf]
      rw [if_neg hf] at hs
      by_cases hl : basis (lexMinRatio T c 0 tp td).2 = 2 * n
      · rw [if_pos hl, if_pos hl]
      · rw [if_neg hl, if_neg hl]
        rw [if_neg hl] at hs
        exact ih _ _ _ _ hs k

/-- unless the run succeeds the artificial variable stays basic -/
theorem lemkeLoop_art (n : ℕ) (tp td : K) :
    ∀ (fuel : ℕ) (T : M K) (basis : ℕ → ℕ) (c it : ℕ),
      (∃ i, i < n ∧ basis i = 2 * n) →
      (lemkeLoop n tp td fuel T basis c it).status ≠ 0 →
      ∃ i, i < n ∧ (lemkeLoop n tp td fuel T basis c it).basis i = 2 * n := by
  intro fuel
  induction fuel with
  | zero => intro T basis c it hb _; rw [lemkeLoop_zero]; exact hb
  | succ fuel ih =>
    intro T basis c it hb hs
    rw [lemkeLoop_succ] at hs ⊢
    by_cases hf : (lexMinRatio T c 0 tp td).1 = false
    · rw [if_pos hf]; exact hb
    · rw [if_neg hf] at hs ⊢
      by_cases hl : basis (lexMinRatio T c 0 tp td).2 = 2 * n
      · rw [if_pos hl] at hs; exact absurd rfl hs
      · rw [if_neg hl] at hs ⊢
        apply ih _ _ _ _ _ hs
        obtain ⟨i, hi, hbi⟩ := hb
        refine ⟨i, hi, ?_⟩
        unfold setBasis
        rw [if_neg (by intro e; rw [e] at hbi; exact hl hbi)]
        exact hbi

/-! ### ties of the first ratio test go to the last row -/

theorem firstFoldLast (q d : ℕ → K) : ∀ (l : List ℕ) (st : ℕ × K) (S : ℕ → Prop),
    l.Pairwise (· < ·) → (∀ x ∈ l, st.1 < x) → (∀ k, S k → ∀ x ∈ l, k < x) →
    (∀ k, S k → st.1 < k → st.2 < q k / d k) →
    ∀ k, (S k ∨ k ∈ l) → (l.foldl (firstStep q d 0) st).1 < k →
      (l.foldl (firstStep q d 0) st).2 < q k / d k := by
  intro l
  induction l with
  | nil =>
    intro st S _ _ _ h3 k hk hlt
    rcases hk with hk | hk
    · exact h3 k hk hlt
    · simp at hk
  | cons i l ih =>
    intro st S hpw hgt hS h3 k hk hlt
    rw [List.foldl_cons] at hlt ⊢
    have hpw' := (List.pairwise_cons.mp hpw)
    have hsti : st.1 < i := hgt i (by simp)
    refine ih (firstStep q d 0 st i) (fun k => S k ∨ k = i) hpw'.2 ?_ ?_ ?_ k ?_ hlt
    · intro x hx
      rw [firstStep_eq]
      split
      · exact hpw'.1 x hx
      · exact hgt x (List.mem_cons_of_mem _ hx)
    · intro k' hk' x hx
      rcases hk' with hk' | hk'
      · exact hS k' hk' x (List.mem_cons_of_mem _ hx)
      · rw [hk']; exact hpw'.1 x hx
    · intro k' hk' hlt'
      rw [firstStep_eq] at hlt' ⊢
      by_cases hc : q i / d i ≤ st.2 + 0
      · rw [if_pos hc] at hlt' ⊢
        rcases hk' with hk' | hk'
        · have := hS k' hk' i (by simp)
          exact absurd hlt' (by simp only; omega)
        · rw [hk'] at hlt'; exact absurd hlt' (by simp)
      · rw [if_neg hc] at hlt' ⊢
        rcases hk' with hk' | hk'
        · exact h3 k' hk' hlt'
        · rw [hk']; rw [add_zero] at hc; exact not_le.mp hc
    · rcases hk with hk | hk
      · exact Or.inl (Or.inl hk)
      · rcases List.mem_cons.mp hk with hk | hk
        · exact Or.inl (Or.inr hk)
        · exact Or.inr hk

/-! ### the first ratio test with a tie tolerance `td ≥ 0`: an approximate arg-min -/

theorem firstFoldTol (q d : ℕ → K) (td : K) (htd : 0 ≤ td) : ∀ (l : List ℕ) (st : ℕ × K) (S : ℕ → Prop)
    (e : K), 0 ≤ e → st.2 = q st.1 / d st.1 → (∀ k, S k → st.2 ≤ q k / d k + e) →
    (l.foldl (firstStep q d td) st).2
      = q (l.foldl (firstStep q d td) st).1 / d (l.foldl (firstStep q d td) st).1 ∧
    ∀ k, (S k ∨ k ∈ l) → (l.foldl (firstStep q d td) st).2 ≤ q k / d k + (e + l.length * td) := by
  intro l
  induction l with
  | nil =>
    intro st S e he h1 h3
    refine ⟨h1, ?_⟩
    intro k hk
    rcases hk with hk | hk
    · simpa using h3 k hk
    · simp at hk
  | cons i l ih =>
    intro st S e he h1 h3
    rw [List.foldl_cons]
    have key : (firstStep q d td st i).2 = q (firstStep q d td st i).1 / d (firstStep q d td st i).1 ∧
        ∀ k, (S k ∨ k = i) → (firstStep q d td st i).2 ≤ q k / d k + (e + td) := by
      rw [firstStep_eq]
      by_cases hc : q i / d i ≤ st.2 + td
      · rw [if_pos hc]
        refine ⟨rfl, ?_⟩
        intro k hk
        rcases hk with hk | hk
        · have := h3 k hk
          show q i / d i ≤ q k / d k + (e + td)
          linarith
        · rw [hk]; show q i / d i ≤ q i / d i + (e + td)
          linarith
      · rw [if_neg hc]
        refine ⟨h1, ?_⟩
        intro k hk
        rcases hk with hk | hk
        · have := h3 k hk; linarith
        · rw [hk]
          have := not_le.mp hc
          linarith
    obtain ⟨k1, k3⟩ := key
    obtain ⟨r1, r3⟩ := ih (firstStep q d td st i) (fun k => S k ∨ k = i) (e + td) (by linarith) k1 k3
    refine ⟨r1, ?_⟩
    intro k hk
    have : q k / d k + (e + td + (l.length : K) * td) = q k / d k + (e + ((i :: l).length : K) * td) := by
      simp only [List.length_cons, Nat.cast_add, Nat.cast_one]; ring
    rw [← this]
    apply r3
    rcases hk with hk | hk
    · exact Or.inl (Or.inl hk)
    · rcases List.mem_cons.mp hk with hk | hk
      · exact Or.inl (Or.inr hk)
      · exact Or.inr hk

end QE.C11
