/-
  C12 helper lemmas, part 3: the LinearStateSpace functions of `QEModel/C12.lean` read as
  Mathlib matrices — simulation kernel, moment recursion, impulse responses, geometric
  sums, and the constant-state ordering.
-/
import QEProofs.Lemmas.C12Kalman
import QEProofs.Lemmas.C06Ricc

set_option linter.unusedSectionVars false
set_option linter.unusedVariables false

namespace QE.C12
open QE QE.MatAlg Matrix Finset
open QE.C06 (toMat Dim dim_mmul dim_madd dim_msub dim_mT dim_smul dim_ident toMat_mmul toMat_madd
  toMat_msub toMat_mT toMat_smul toMat_ident dsum dsum_add SolSpec)

section
variable {K : Type} [CommRing K] {n m k l : ℕ}

/-! ### simulation kernel -/

/-- column `t` of `v` as an `n × 1` matrix -/
def vcol (n : ℕ) (v : M K) (t : ℕ) : Matrix (Fin n) (Fin 1) K := fun i _ => v.get i t

theorem list_sum_range_map (f : ℕ → K) (N : ℕ) : ((List.range N).map f).sum = ∑ j ∈ range N, f j := by
  have h := foldl_add_eq_sum (List.range N) f 0
  rw [zero_add] at h
  rw [← h]
  exact sumRange_eq_sum N f

theorem simCol_dim (A x v : M K) (t : ℕ) (hA : Dim A n n) : Dim (simCol A x v t) n 1 :=
  ⟨by simp [simCol, M.tab, hA.nr], by simp [simCol, M.tab]⟩

/-- the `for i … for j` double loop is `A x + v[:, t]` -/
theorem simCol_toMat (A x v : M K) (t : ℕ) (hA : Dim A n n) :
    toMat n 1 (simCol A x v t) = toMat n n A * toMat n 1 x + vcol n v t := by
  ext i j
  have hi : (i : ℕ) < A.nr := by rw [hA.nr]; exact i.2
  have hj : (j : ℕ) < 1 := j.2
  have hj0 : (j : ℕ) = 0 := by omega
  simp only [toMat, vcol, Matrix.add_apply, Matrix.mul_apply]
  unfold simCol
  rw [M.get_tab _ _ _ _ _ hi hj, foldl_add_eq_sum, list_sum_range_map, hA.nr,
    ← Fin.sum_univ_eq_sum_range (fun q => A.get i q * x.get q 0) n, add_comm, hj0]

theorem simCols_dim (A x0 v : M K) (hA : Dim A n n) (hx : Dim x0 n 1) (t : ℕ) :
    Dim (simCols A x0 v t) n 1 := by
  cases t with
  | zero => exact hx
  | succ t => exact simCol_dim A _ v t hA

/-- the `for t` loop: `x_{t+1} = A x_t + v_t` -/
theorem simCols_succ (A x0 v : M K) (hA : Dim A n n) (t : ℕ) :
    toMat n 1 (simCols A x0 v (t + 1)) = toMat n n A * toMat n 1 (simCols A x0 v t) + vcol n v t :=
  simCol_toMat A _ v t hA

/-- entry `(i, t)` of the returned array is entry `i` of column `t` -/
theorem simulateLinear_get (A x0 v : M K) (ts i t : ℕ) (hi : i < A.nr) (ht : t < ts) :
    (simulateLinear A x0 v ts).get i t = (simCols A x0 v t).get i 0 := by
  unfold simulateLinear
  rw [M.get_tab _ _ _ _ _ hi ht]

theorem simulateLinear_dim (A x0 v : M K) (ts : ℕ) (hA : Dim A n n) :
    Dim (simulateLinear A x0 v ts) n ts :=
  ⟨by simp [simulateLinear, M.tab, hA.nr], by simp [simulateLinear, M.tab]⟩

/-- `vcol` of a product is the product with the column -/
theorem vcol_mmul (C w : M K) (T t : ℕ) (hC : Dim C n m) (hw : Dim w m T) (ht : t < T) :
    vcol n (mmul C w) t = toMat n m C * vcol m w t := by
  ext i j
  have hi : (i : ℕ) < C.nr := by rw [hC.nr]; exact i.2
  have ht' : t < w.nc := by rw [hw.nc]; exact ht
  simp only [vcol, Matrix.mul_apply, toMat]
  rw [mmul_get C w _ _ hi ht', hC.nc, ← Fin.sum_univ_eq_sum_range (fun q => C.get i q * w.get q t) m]

/-! ### moment recursion -/

theorem dsum_succ' {R : Type*} [Ring R] (a b a' : R) (t : ℕ) :
    dsum a b a' (t + 1) = b + a * dsum a b a' t * a' := by
  rw [add_comm t 1, dsum_add]
  simp [dsum]

/-- `(mu_x, Sigma_x)` after `t` passes: `A^t μ₀` and `A^t Σ₀ A'^t + Σ_{j<t} A^j CC' A'^j` -/
theorem momentState_spec (A C mu0 Sig0 : M K) (hA : Dim A n n) (hC : Dim C n m)
    (hmu : Dim mu0 n 1) (hS : Dim Sig0 n n) (t : ℕ) :
    Dim (momentState A C mu0 Sig0 t).1 n 1 ∧ Dim (momentState A C mu0 Sig0 t).2 n n ∧
    toMat n 1 (momentState A C mu0 Sig0 t).1 = toMat n n A ^ t * toMat n 1 mu0 ∧
    toMat n n (momentState A C mu0 Sig0 t).2 =
      toMat n n A ^ t * toMat n n Sig0 * (toMat n n A)ᵀ ^ t +
        dsum (toMat n n A) (toMat n m C * (toMat n m C)ᵀ) (toMat n n A)ᵀ t := by
  induction t with
  | zero => simp [momentState, hmu, hS, dsum]
  | succ t ih =>
    obtain ⟨d1, d2, e1, e2⟩ := ih
    have hAt : Dim (mT A) n n := dim_mT hA
    have hAS : Dim (mmul A (momentState A C mu0 Sig0 t).2) n n := dim_mmul hA d2
    refine ⟨dim_mmul hA d1, dim_madd (dim_mmul hAS hAt), ?_, ?_⟩
    · show toMat n 1 (mmul A (momentState A C mu0 Sig0 t).1) = _
      rw [toMat_mmul hA d1, e1, pow_succ', Matrix.mul_assoc]
    · show toMat n n (madd (mmul (mmul A (momentState A C mu0 Sig0 t).2) (mT A)) (mmul C (mT C))) = _
      rw [toMat_madd (dim_mmul hAS hAt), toMat_mmul hAS hAt, toMat_mmul hA d2, toMat_mT hA,
        toMat_mmul hC (dim_mT hC), toMat_mT hC, e2, dsum_succ', pow_succ', pow_succ]
      noncomm_ring

/-- the yielded tuple: `mu_y = G mu_x`, `Sigma_y = G Sigma_x G' (+ H H')` -/
theorem momentOut_spec (G : M K) (H : Option (M K)) (s : M K × M K) (hG : Dim G k n)
    (hH : ∀ Hm, H = some Hm → Dim Hm k l) (h1 : Dim s.1 n 1) (h2 : Dim s.2 n n) :
    (momentOut G H s).mux = s.1 ∧ (momentOut G H s).sigx = s.2 ∧
    toMat k 1 (momentOut G H s).muy = toMat k n G * toMat n 1 s.1 ∧
    toMat k k (momentOut G H s).sigy = toMat k n G * toMat n n s.2 * (toMat k n G)ᵀ +
      (match H with | some Hm => toMat k l Hm * (toMat k l Hm)ᵀ | none => 0) := by
  have hGS : Dim (mmul G s.2) k n := dim_mmul hG h2
  refine ⟨rfl, rfl, ?_, ?_⟩
  · show toMat k 1 (mmul G s.1) = _
    rw [toMat_mmul hG h1]
  · cases H with
    | none =>
      show toMat k k (mmul (mmul G s.2) (mT G)) = _
      rw [toMat_mmul hGS (dim_mT hG), toMat_mmul hG h2, toMat_mT hG, add_zero]
    | some Hm =>
      have hHm := hH Hm rfl
      show toMat k k (madd (mmul (mmul G s.2) (mT G)) (mmul Hm (mT Hm))) = _
      rw [toMat_madd (dim_mmul hGS (dim_mT hG)), toMat_mmul hGS (dim_mT hG), toMat_mmul hG h2,
        toMat_mT hG, toMat_mmul hHm (dim_mT hHm), toMat_mT hHm]

/-! ### impulse responses -/

/-- loop invariant of `impulse_response`: after `j` passes `Apower = A^(j+1)`,
    `xcoef = [A^i C]_{i ≤ j}`, `ycoef = [G A^i C]_{i ≤ j}` -/
theorem impulseState_spec (A C G : M K) (hA : Dim A n n) (hC : Dim C n m) (hG : Dim G k n) (j : ℕ) :
    Dim (impulseState A C G j).1 n n ∧
    toMat n n (impulseState A C G j).1 = toMat n n A ^ (j + 1) ∧
    (impulseState A C G j).2.1.map (toMat n m) =
      (List.range (j + 1)).map (fun i => toMat n n A ^ i * toMat n m C) ∧
    (impulseState A C G j).2.2.map (toMat k m) =
      (List.range (j + 1)).map (fun i => toMat k n G * (toMat n n A ^ i * toMat n m C)) := by
  induction j with
  | zero =>
    refine ⟨hA, by simp [impulseState], ?_, ?_⟩
    · simp [impulseState]
    · simp [impulseState, toMat_mmul hG hC]
  | succ j ih =>
    obtain ⟨d, e, ex, ey⟩ := ih
    have hPC : Dim (mmul (impulseState A C G j).1 C) n m := dim_mmul d hC
    refine ⟨dim_mmul d hA, ?_, ?_, ?_⟩
    · show toMat n n (mmul (impulseState A C G j).1 A) = _
      rw [toMat_mmul d hA, e, ← pow_succ]
    · show ((impulseState A C G j).2.1 ++ [mmul (impulseState A C G j).1 C]).map (toMat n m) = _
      rw [List.map_append, ex, List.range_succ (n := j + 1), List.map_append]
      simp [toMat_mmul d hC, e]
    · show ((impulseState A C G j).2.2 ++ [mmul G (mmul (impulseState A C G j).1 C)]).map (toMat k m) = _
      rw [List.map_append, ey, List.range_succ (n := j + 1), List.map_append]
      simp [toMat_mmul hG hPC, toMat_mmul d hC, e]

/-! ### geometric sums -/

theorem geometricSums_spec (sol : M K → M K → Option (M K)) (hsol : SolSpec sol n) (A G : M K)
    (beta : K) (x Sx Sy : M K) (hA : Dim A n n) (hG : Dim G k n) (hx : Dim x n 1)
    (h : geometricSums sol A G beta x = some (Sx, Sy)) :
    Dim Sx n 1 ∧ Dim Sy k 1 ∧
    (1 - beta • toMat n n A) * toMat n 1 Sx = toMat n 1 x ∧
    toMat k 1 Sy = toMat k n G * toMat n 1 Sx := by
  unfold geometricSums at h
  have hW : Dim (msub (ident A.nr) (smul beta A)) n n := by
    rw [hA.nr]; exact dim_msub (dim_ident n)
  cases hs : sol (msub (ident A.nr) (smul beta A)) x with
  | none => rw [hs] at h; cases h
  | some S =>
    rw [hs] at h
    simp only [Option.map_some, Option.some.injEq, Prod.mk.injEq] at h
    obtain ⟨h1, h2⟩ := h
    subst h1; subst h2
    obtain ⟨dS, e, -⟩ := hsol 1 _ x S hW hx hs
    have hWm : toMat n n (msub (ident A.nr) (smul beta A)) = 1 - beta • toMat n n A := by
      rw [hA.nr, toMat_msub (dim_ident n), toMat_ident, toMat_smul beta hA]
    rw [hWm] at e
    exact ⟨dS, dim_mmul hG dS, e, toMat_mmul hG dS⟩

/-! ### ordering of the constant states -/

/-- `sortedIdx` over the first `N` indices -/
def sortedIdxUpTo (p : ℕ → Bool) (N : ℕ) : List ℕ × ℕ :=
  (List.range N).foldl (fun (acc : List ℕ × ℕ) idx =>
    if p idx then (idx :: acc.1, acc.2 + 1) else (acc.1 ++ [idx], acc.2)) ([], 0)

theorem sortedIdxUpTo_eq (p : ℕ → Bool) (N : ℕ) :
    sortedIdxUpTo p N = (((List.range N).filter p).reverse ++ (List.range N).filter (fun i => !p i),
      ((List.range N).filter p).length) := by
  induction N with
  | zero => simp [sortedIdxUpTo]
  | succ N ih =>
    unfold sortedIdxUpTo at ih ⊢
    rw [List.range_succ, List.foldl_append, ih, List.filter_append, List.filter_append]
    by_cases hp : p N = true
    · simp [hp]
    · simp [hp]

/-! ### stationary distributions: what is assembled -/

/-- assumed behaviour of the Lyapunov solver on `q × q` problems (Bartels–Stewart is not
    modelled): a returned `X` has the right shape and satisfies `X = A X A' + B` -/
def LyapSpec (lyap : M K → M K → Option (M K)) (q : ℕ) : Prop :=
  ∀ A B X : M K, Dim A q q → Dim B q q → lyap A B = some X →
    Dim X q q ∧ toMat q q X = toMat q q A * toMat q q X * (toMat q q A)ᵀ + toMat q q B

theorem dim_tab (r c : ℕ) (f : ℕ → ℕ → K) : Dim (M.tab r c f) r c :=
  ⟨by simp [M.tab], by simp [M.tab]⟩

theorem toMat_tab (r c : ℕ) (f : ℕ → ℕ → K) :
    toMat r c (M.tab r c f) = Matrix.of (fun (i : Fin r) (j : Fin c) => f i j) := by
  ext i j
  simp only [toMat, Matrix.of_apply]
  rw [M.get_tab _ _ _ _ _ i.2 j.2]

/-- `stationary_distributions` unpacked: the non-constant block solves
    `(I − A22) μ = A21 μ_c` (`= 0` without constant states) and the Lyapunov equation, the
    results are carried back with `P'`, and `mu_y = G mu_x`, `Sigma_y = G Sigma_x G' (+ HH')`,
    `Sigma_yx = G Sigma_x`. -/
theorem stationaryDist_unpack [DecidableEq K] (sol lyap : M K → M K → Option (M K)) (A C G : M K) (H : Option (M K))
    (mu0 : M K) (nc : ℕ) (hA : Dim A n n) (hG : Dim G k n) (hH : ∀ Hm, H = some Hm → Dim Hm k l)
    (hnc : (partition A C).numConst = nc)
    (hsol : SolSpec sol (n - nc)) (hlyap : LyapSpec lyap (n - nc))
    (mux muy sigx sigy sigyx : M K)
    (h : stationaryDist sol lyap A C G H mu0 = .ok mux muy sigx sigy sigyx) :
    ∃ mu Sg : M K, Dim mu (n - nc) 1 ∧ Dim Sg (n - nc) (n - nc) ∧
      (1 - toMat (n - nc) (n - nc) (partition A C).A22) * toMat (n - nc) 1 mu =
        (if 0 < nc then toMat (n - nc) nc (partition A C).A21 *
            Matrix.of (fun (i : Fin nc) (_ : Fin 1) => mu0.get ((partition A C).idx.getD i n) 0)
          else 0) ∧
      toMat (n - nc) (n - nc) Sg =
        toMat (n - nc) (n - nc) (partition A C).A22 * toMat (n - nc) (n - nc) Sg *
          (toMat (n - nc) (n - nc) (partition A C).A22)ᵀ +
        toMat (n - nc) C.nc (partition A C).C2 * (toMat (n - nc) C.nc (partition A C).C2)ᵀ ∧
      toMat n 1 mux = (toMat n n (partition A C).P)ᵀ *
        Matrix.of (fun (i : Fin n) (_ : Fin 1) =>
          if (i : ℕ) < nc then mu0.get ((partition A C).idx.getD i n) 0 else mu.get (i - nc) 0) ∧
      toMat n n sigx = (toMat n n (partition A C).P)ᵀ *
        Matrix.of (fun (i j : Fin n) =>
          if nc ≤ (i : ℕ) ∧ nc ≤ (j : ℕ) then Sg.get (i - nc) (j - nc) else 0) *
        toMat n n (partition A C).P ∧
      toMat k 1 muy = toMat k n G * toMat n 1 mux ∧
      toMat k k sigy = toMat k n G * toMat n n sigx * (toMat k n G)ᵀ +
        (match H with | some Hm => toMat k l Hm * (toMat k l Hm)ᵀ | none => 0) ∧
      toMat k n sigyx = toMat k n G * toMat n n sigx := by
  obtain ⟨hAr, hAc⟩ := hA
  subst hAr
  subst hnc
  have hP : Dim (partition A C).P A.nr A.nr := ⟨rfl, rfl⟩
  have hA21 : Dim (partition A C).A21 (A.nr - (partition A C).numConst) (partition A C).numConst :=
    ⟨rfl, rfl⟩
  have hA22 : Dim (partition A C).A22 (A.nr - (partition A C).numConst)
      (A.nr - (partition A C).numConst) := ⟨rfl, rfl⟩
  have hC2 : Dim (partition A C).C2 (A.nr - (partition A C).numConst) C.nc := ⟨rfl, rfl⟩
  unfold stationaryDist at h
  dsimp only at h
  split at h
  · cases h
  · rename_i mu hmu
    split at h
    · cases h
    · rename_i Sg hSg
      injection h with e1 e2 e3 e4 e5
      subst e1; subst e3; subst e2; subst e4; subst e5
      -- the linear system
      have hW : Dim (msub (ident (A.nr - (partition A C).numConst)) (partition A C).A22)
          (A.nr - (partition A C).numConst) (A.nr - (partition A C).numConst) := dim_msub (dim_ident _)
      have hrhs : Dim (if (partition A C).numConst > 0 then
          mmul (partition A C).A21 (M.tab (partition A C).numConst 1 fun i _ =>
            mu0.get ((partition A C).idx.getD i A.nr) 0) else MatAlg.zero A.nr 1)
          (A.nr - (partition A C).numConst) 1 := by
        split
        · exact dim_mmul hA21 (dim_tab _ _ _)
        · rename_i h0
          have : (partition A C).numConst = 0 := by omega
          rw [this]
          exact dim_tab _ _ _
      obtain ⟨dmu, emu, -⟩ := hsol 1 _ _ mu hW hrhs hmu
      obtain ⟨dSg, eSg⟩ := hlyap _ _ Sg hA22 (dim_mmul hC2 (dim_mT hC2)) hSg
      have hmux0 := dim_tab (K := K) A.nr 1 (fun i _ =>
        if i < (partition A C).numConst then mu0.get ((partition A C).idx.getD i A.nr) 0
        else mu.get (i - (partition A C).numConst) 0)
      have hsig0 := dim_tab (K := K) A.nr A.nr (fun i j =>
        if (partition A C).numConst ≤ i ∧ (partition A C).numConst ≤ j then
          Sg.get (i - (partition A C).numConst) (j - (partition A C).numConst) else 0)
      have hPt : Dim (mT (partition A C).P) A.nr A.nr := dim_mT hP
      have hmux := dim_mmul hPt hmux0
      have hsigx := dim_mmul (dim_mmul hPt hsig0) hP
      have hG' : Dim G k A.nr := hG
      refine ⟨mu, Sg, dmu, dSg, ?_, ?_, ?_, ?_, ?_, ?_, ?_⟩
      · rw [toMat_msub (dim_ident _), toMat_ident] at emu
        rw [emu]
        by_cases h0 : 0 < (partition A C).numConst
        · rw [if_pos h0, if_pos h0, toMat_mmul hA21 (dim_tab _ _ _), toMat_tab]
        · rw [if_neg h0, if_neg h0]
          have : (partition A C).numConst = 0 := by omega
          ext i j
          simp only [toMat, MatAlg.zero, Matrix.zero_apply]
          rw [M.get_tab _ _ _ _ _ (by have := i.2; omega) j.2]
      · rw [toMat_mmul hC2 (dim_mT hC2), toMat_mT hC2] at eSg
        exact eSg
      · rw [toMat_mmul hPt hmux0, toMat_mT hP, toMat_tab]
      · rw [toMat_mmul (dim_mmul hPt hsig0) hP, toMat_mmul hPt hsig0, toMat_mT hP, toMat_tab]
      · rw [toMat_mmul hG' hmux]
      · cases H with
        | none =>
          show toMat k k (mmul (mmul G _) (mT G)) = _
          rw [toMat_mmul (dim_mmul hG' hsigx) (dim_mT hG'), toMat_mmul hG' hsigx, toMat_mT hG', add_zero]
        | some Hm =>
          have hHm := hH Hm rfl
          show toMat k k (madd (mmul (mmul G _) (mT G)) (mmul Hm (mT Hm))) = _
          rw [toMat_madd (dim_mmul (dim_mmul hG' hsigx) (dim_mT hG')),
            toMat_mmul (dim_mmul hG' hsigx) (dim_mT hG'), toMat_mmul hG' hsigx, toMat_mT hG',
            toMat_mmul hHm (dim_mT hHm), toMat_mT hHm]
      · rw [toMat_mmul hG' hsigx]

end
/-! ### deviations from stationary moments, partial sums of the geometric series -/

section
variable {K : Type} [CommRing K] {n m k l : ℕ}

/-- one pass of lines 280-282 as matrices -/
theorem momentState_step (A C mu0 Sig0 : M K) (hA : Dim A n n) (hC : Dim C n m)
    (hmu : Dim mu0 n 1) (hS : Dim Sig0 n n) (t : ℕ) :
    toMat n 1 (momentState A C mu0 Sig0 (t + 1)).1 = toMat n n A * toMat n 1 (momentState A C mu0 Sig0 t).1 ∧
    toMat n n (momentState A C mu0 Sig0 (t + 1)).2 =
      toMat n n A * toMat n n (momentState A C mu0 Sig0 t).2 * (toMat n n A)ᵀ +
        toMat n m C * (toMat n m C)ᵀ := by
  obtain ⟨d1, d2, -, -⟩ := momentState_spec A C mu0 Sig0 hA hC hmu hS t
  have hAt : Dim (mT A) n n := dim_mT hA
  have hAS : Dim (mmul A (momentState A C mu0 Sig0 t).2) n n := dim_mmul hA d2
  refine ⟨?_, ?_⟩
  · show toMat n 1 (mmul A (momentState A C mu0 Sig0 t).1) = _
    rw [toMat_mmul hA d1]
  · show toMat n n (madd (mmul (mmul A (momentState A C mu0 Sig0 t).2) (mT A)) (mmul C (mT C))) = _
    rw [toMat_madd (dim_mmul hAS hAt), toMat_mmul hAS hAt, toMat_mmul hA d2, toMat_mT hA,
      toMat_mmul hC (dim_mT hC), toMat_mT hC]

/-- if `μ = A μ` and `S = A S A' + CC'`, the moment sequence deviates from them by exactly
    `A^t (μ₀ − μ)` and `A^t (Σ₀ − S) A'^t` -/
theorem momentState_deviation (A C mu0 Sig0 : M K) (hA : Dim A n n) (hC : Dim C n m)
    (hmu : Dim mu0 n 1) (hS : Dim Sig0 n n) (mus : Matrix (Fin n) (Fin 1) K)
    (Ss : Matrix (Fin n) (Fin n) K) (hmus : toMat n n A * mus = mus)
    (hSs : Ss = toMat n n A * Ss * (toMat n n A)ᵀ + toMat n m C * (toMat n m C)ᵀ) (t : ℕ) :
    toMat n 1 (momentState A C mu0 Sig0 t).1 - mus = toMat n n A ^ t * (toMat n 1 mu0 - mus) ∧
    toMat n n (momentState A C mu0 Sig0 t).2 - Ss =
      toMat n n A ^ t * (toMat n n Sig0 - Ss) * (toMat n n A)ᵀ ^ t := by
  induction t with
  | zero => simp [momentState]
  | succ t ih =>
    obtain ⟨s1, s2⟩ := momentState_step A C mu0 Sig0 hA hC hmu hS t
    obtain ⟨i1, i2⟩ := ih
    refine ⟨?_, ?_⟩
    · rw [s1, pow_succ', Matrix.mul_assoc, ← i1, Matrix.mul_sub, hmus]
    · rw [s2, pow_succ', pow_succ]
      have : toMat n n A * toMat n n A ^ t * (toMat n n Sig0 - Ss) * ((toMat n n A)ᵀ ^ t * (toMat n n A)ᵀ)
          = toMat n n A * (toMat n n A ^ t * (toMat n n Sig0 - Ss) * (toMat n n A)ᵀ ^ t) * (toMat n n A)ᵀ := by
        simp only [Matrix.mul_assoc]
      rw [this, ← i2]
      conv_lhs => rw [hSs]
      simp only [Matrix.mul_sub, Matrix.sub_mul]
      abel

/-- `S = x + B S` unrolled: `S = Σ_{j<N} B^j x + B^N S` -/
theorem geometric_partial_sums (B : Matrix (Fin n) (Fin n) K) (S x : Matrix (Fin n) (Fin 1) K)
    (h : (1 - B) * S = x) (N : ℕ) :
    S = (∑ j ∈ range N, B ^ j) * x + B ^ N * S := by
  have hS : S = x + B * S := by
    rw [← h, Matrix.sub_mul, Matrix.one_mul]; abel
  induction N with
  | zero => simp
  | succ N ih =>
    rw [Finset.sum_range_succ, Matrix.add_mul, pow_succ, Matrix.mul_assoc]
    have : B ^ N * (B * S) = B ^ N * S - B ^ N * x := by
      have h2 := congrArg (B ^ N * ·) hS
      simp only [Matrix.mul_add] at h2
      rw [h2]; abel
    rw [this]
    calc S = (∑ j ∈ range N, B ^ j) * x + B ^ N * S := ih
      _ = _ := by abel

end
/-! ### `stationary_coefficients`: the loop invariant -/

section
variable {K : Type} [CommRing K] {n k : ℕ}

theorem coefState_spec (G Kg Pmat P0 c0 : M K) (hG : Dim G k n) (hK : Dim Kg n k) (hP : Dim Pmat n n)
    (hP0 : Dim P0 n n) (j : ℕ) :
    Dim (coefState G Kg Pmat P0 c0 j).1 n n ∧
    toMat n n (coefState G Kg Pmat P0 c0 j).1 = toMat n n P0 * toMat n n Pmat ^ j ∧
    (coefState G Kg Pmat P0 c0 j).2.map (toMat k k) =
      toMat k k c0 :: (List.range j).map
        (fun i => toMat k n G * (toMat n n P0 * toMat n n Pmat ^ i) * toMat n k Kg) := by
  induction j with
  | zero => exact ⟨hP0, by simp [coefState], by simp [coefState]⟩
  | succ j ih =>
    obtain ⟨d, e, el⟩ := ih
    refine ⟨dim_mmul d hP, ?_, ?_⟩
    · show toMat n n (mmul (coefState G Kg Pmat P0 c0 j).1 Pmat) = _
      rw [toMat_mmul d hP, e, pow_succ, Matrix.mul_assoc]
    · show ((coefState G Kg Pmat P0 c0 j).2 ++ [mmul (mmul G (coefState G Kg Pmat P0 c0 j).1) Kg]).map (toMat k k) = _
      rw [List.map_append, el, List.range_succ, List.map_append]
      simp [toMat_mmul (dim_mmul hG d) hK, toMat_mmul hG d, e]

end
end QE.C12
