/-
  A concrete instance of the hypotheses of `support_enum_complete_exact` (non-vacuity):
  the mixed equilibrium of the 2×2 coordination game.
-/
import QEProofs.Lemmas.C05Complete
import Mathlib.Tactic.Linarith
namespace QE.C05
open QE QE.MatAlg Finset

theorem ex_solves (P : ℕ → ℕ → ℚ) (hP : ∀ i j, P i j = if i = j then 1 else 0) (z : ℕ → ℚ)
    (h : Solves (indiffSys P [0, 1] [0, 1]) (indiffRhs 2) z) :
    z 0 = 1/2 ∧ z 1 = 1/2 ∧ z 2 = 1/2 := by
  have hnr : (indiffSys P [0, 1] [0, 1]).nr = 3 := rfl
  have e0 := h 0 (by rw [hnr]; omega)
  have e1 := h 1 (by rw [hnr]; omega)
  have e2 := h 2 (by rw [hnr]; omega)
  have hnc : (indiffSys P [0, 1] [0, 1]).nc = 3 := rfl
  rw [hnc, sumRange_eq_sum] at e0 e1 e2
  simp only [sum_range_succ, sum_range_zero, zero_add] at e0 e1 e2
  rw [indiffSys_get P _ _ 0 0 (by simp) (by simp), indiffSys_get P _ _ 0 1 (by simp) (by simp),
    indiffSys_get P _ _ 0 2 (by simp) (by simp), indiffRhs_get 2 0 (by omega)] at e0
  rw [indiffSys_get P _ _ 1 0 (by simp) (by simp), indiffSys_get P _ _ 1 1 (by simp) (by simp),
    indiffSys_get P _ _ 1 2 (by simp) (by simp), indiffRhs_get 2 1 (by omega)] at e1
  rw [indiffSys_get P _ _ 2 0 (by simp) (by simp), indiffSys_get P _ _ 2 1 (by simp) (by simp),
    indiffSys_get P _ _ 2 2 (by simp) (by simp), indiffRhs_get 2 2 (by omega)] at e2
  simp [hP] at e0 e1 e2
  refine ⟨by linarith, by linarith, by linarith⟩


def exA : ℕ → ℕ → ℚ := fun i j => if i = j then 1 else 0
def exx : ℕ → ℚ := fun i => if i < 2 then 1/2 else 0

theorem ex_uniq (z' z'' : ℕ → ℚ)
    (h' : Solves (indiffSys exA [0, 1] [0, 1]) (indiffRhs 2) z')
    (h'' : Solves (indiffSys exA [0, 1] [0, 1]) (indiffRhs 2) z'') (t : ℕ) (ht : t < 2 + 1) :
    z' t = z'' t := by
  obtain ⟨a0, a1, a2⟩ := ex_solves exA (fun _ _ => rfl) z' h'
  obtain ⟨b0, b1, b2⟩ := ex_solves exA (fun _ _ => rfl) z'' h''
  have : t = 0 ∨ t = 1 ∨ t = 2 := by omega
  rcases this with rfl | rfl | rfl
  · rw [a0, b0]
  · rw [a1, b1]
  · rw [a2, b2]

theorem ex_supp (i : ℕ) : i ∈ [0, 1] ↔ i < 2 ∧ exx i ≠ 0 := by
  constructor
  · intro h
    have : i = 0 ∨ i = 1 := by simpa using h
    rcases this with rfl | rfl <;> simp [exx]
  · rintro ⟨h, _⟩
    have : i = 0 ∨ i = 1 := by omega
    simpa using this


end QE.C05
