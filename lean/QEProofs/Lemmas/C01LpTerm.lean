/-
  Lemmas for C01, part 15: the LP method terminates (tolerances 0).  Every basic variable of a
  tableau in the run carries positive mass (non-degeneracy), so each pivot strictly improves the
  objective; a basis determines the objective value, so no basis recurs; there are finitely many
  bases.
-/
import QEProofs.Lemmas.C01LpRay
import QEProofs.Lemmas.C04Mono
import Mathlib.Data.List.Sections
import Mathlib.Data.List.Perm.Subperm

set_option linter.unusedSectionVars false

namespace QE.C01
open List QE.Pivot

variable {K : Type} [Field K] [LinearOrder K] [IsStrictOrderedRing K]

/-- **non-degeneracy**: under the invariants every right-hand side is positive -/
theorem rhs_pos {P : Prob K} (hP : WF P) {β : K} (hβ0 : 0 ≤ β) {T : M K} {b : List ℕ}
    (hinv : LpInv P β T b) (s : ℕ) (hsn : s < P.length) :
    0 < T.get s ((lpCols P).length + P.length) := by
  obtain ⟨h0, hpb⟩ := hinv
  set N := (lpCols P).length + P.length with hN
  have hge := h0.rhs s hsn
  rcases lt_or_eq_of_le hge with h | h
  · exact h
  · exfalso
    set y := QE.C04.bsol T b P.length N with hy
    have hy0 : ∀ j, 0 ≤ y j := fun j => QE.C04.bsol_nonneg T b P.length N j h0.rhs
    have hsat := (h0.sol y).mp (QE.C04.bsol_rowsSat T b P.length N h0.shape h0.canon) s hsn
    unfold RowSat at hsat
    have hnc : (lpTableau P β).nc - 1 = N := by rw [lpTableau_nc]; rfl
    rw [hnc, lpTableau_rhs P β s hsn] at hsat
    have hle : ∑ j ∈ Finset.range N, (lpTableau P β).get s j * y j ≤ 0 := by
      apply Finset.sum_nonpos
      intro j hj
      by_cases hjL : j < (lpCols P).length
      · rw [lpTableau_body P β s j hsn hjL]
        obtain ⟨_, hst⟩ := lpCols_stoch hP j hjL
        by_cases hsj : ((lpCols P).getD j dfltCol).1 = s
        · -- a column of state s: either the basic one of row s (mass T[s,N] = 0) or non-basic
          have : y j = 0 := by
            by_cases hb : ∃ i, i < P.length ∧ b.getD i 0 = j
            · obtain ⟨i, hi, hij⟩ := hb
              have his : i = s := by rw [← (hpb.2 i hi).2, hij]; exact hsj
              subst his
              rw [← hij, hy, QE.C04.bsol_basic T b P.length N i h0.canon hi]
              exact h.symm
            · apply QE.C04.bsol_nonbasic
              intro i hi e
              exact hb ⟨i, hi, e⟩
          rw [this]; simp
        · rw [if_neg hsj, add_zero]
          have hq : 0 ≤ ((lpCols P).getD j dfltCol).2.q.getD s 0 := by
            have hsl : s < ((lpCols P).getD j dfltCol).2.q.length := by rw [hst.2.2]; exact hsn
            rw [← getElem_eq_getD (h := hsl) 0]; exact hst.1 _ (getElem_mem hsl)
          have := mul_nonneg (mul_nonneg hq hβ0) (hy0 j)
          nlinarith
      · have : y j = 0 := by
          apply QE.C04.bsol_nonbasic
          intro i hi e
          have := (hpb.2 i hi).1
          omega
        rw [this]; simp
    linarith

/-- a pivoting iteration strictly improves the objective (`T[n,N]` strictly decreases) -/
theorem step_strict {P : Prob K} (hP : WF P) {β : K} (hβ0 : 0 ≤ β) {T T' : M K} {b b' : List ℕ}
    (hinv : LpInv P β T b) (hst : QE.C04.Step (QE.C04.tol0 : QE.C04.Tol K) true T b T' b') :
    T'.get P.length ((lpCols P).length + P.length) < T.get P.length ((lpCols P).length + P.length) := by
  obtain ⟨c, r, _, hr, hp, hpos, _, hT, _⟩ :=
    QE.C04.step_data true T b T' b' _ _ hinv.1.shape hst
  subst hT
  rw [pivot_get_i T c r P.length _ (by rw [hinv.1.shape.1]; omega) (by rw [hinv.1.shape.2]; omega)
    (by omega)]
  have := rhs_pos hP hβ0 hinv r hr
  have : 0 < T.get r ((lpCols P).length + P.length) / T.get r c * T.get P.length c :=
    mul_pos (div_pos this hp) hpos
  linarith

/-- two tableaux of the run with the same basis have the same objective cell -/
theorem obj_of_basis {P : Prob K} {β : K} {T T' : M K} {b : List ℕ}
    (h : LpInv P β T b) (h' : LpInv P β T' b) :
    T.get P.length ((lpCols P).length + P.length) = T'.get P.length ((lpCols P).length + P.length) := by
  refine (QE.C04.basis_determines_vertex T T' b _ _ h.1.shape h'.1.shape h.1.canon h'.1.canon
    (fun z => (h.1.sol z).trans (h'.1.sol z).symm)).2.2 ?_
  intro z hz
  rw [h.1.obj z hz, h'.1.obj z ((h'.1.sol z).mpr ((h.1.sol z).mp hz))]

/-- in a tableau of the run, an entering column always finds its leaving row -/
theorem found_of_pivotCol {P : Prob K} (hP : WF P) {β : K} (hβ1 : β < 1) {T : M K} {b : List ℕ}
    (hinv : LpInv P β T b) (hrow : RowInv (lpTableau P β) T P.length (lpCols P).length) (c : ℕ)
    (hpc : QE.C04.pivotCol T true (QE.C04.tol0 : QE.C04.Tol K).fea = some c) :
    (lexMinRatio (QE.C04.dropLast T) c (T.nc - (T.nr - 1) - 1) (QE.C04.tol0 : QE.C04.Tol K).piv
      (QE.C04.tol0 : QE.C04.Tol K).diff).1 = true := by
  by_contra hnf
  have hnf' : (lexMinRatio (QE.C04.dropLast T) c (T.nc - (T.nr - 1) - 1) (0 : K) 0).1 = false := by
    have : (lexMinRatio (QE.C04.dropLast T) c (T.nc - (T.nr - 1) - 1) (QE.C04.tol0 : QE.C04.Tol K).piv
      (QE.C04.tol0 : QE.C04.Tol K).diff).1 = false := by simpa using hnf
    exact this
  have hsh := hinv.1.shape
  obtain ⟨h1, h2, _⟩ := QE.C04.pivotCol_some T true (QE.C04.tol0 : QE.C04.Tol K).fea c hpc
  have hL : T.nr - 1 = P.length := by rw [hsh.1]; rfl
  have hN : T.nc - 1 = (lpCols P).length + P.length := by rw [hsh.2]; rfl
  simp only [if_true] at h1
  rw [hL, hN] at h1
  rw [hL] at h2
  have hss : T.nc - (T.nr - 1) - 1 = (lpCols P).length := by rw [hsh.1, hsh.2]; omega
  rw [hss] at hnf'
  have hcol := QE.C04.no_unresolved_tie (lpTableau P β) T b P.length
    ((lpCols P).length + P.length) (lpCols P).length c hsh hinv.1.canon le_rfl
    (fun q q' hq hq' => lpTableau_slack P β q q' (le_of_lt hq) hq')
    (rowsSpan_of_rowInv hrow) hnf'
  exact no_ray hP hβ1 hinv c (by omega) h2 hcol

/-- all conceivable bases: lists of `n` structural column indices -/
def allBases (P : Prob K) : List (List ℕ) :=
  (replicate P.length (range (lpCols P).length)).sections

theorem mem_allBases {P : Prob K} {b : List ℕ} (h : PolicyBasis P b) : b ∈ allBases P := by
  unfold allBases
  rw [mem_sections, forall₂_iff_get]
  refine ⟨by simp [h.1], fun i h1 h2 => ?_⟩
  simp only [get_eq_getElem, getElem_replicate, mem_range]
  have := (h.2 i (by simpa using h2)).1
  rwa [← getElem_eq_getD (h := h1) 0] at this

/-- **termination**: with enough fuel `solve_tableau` reports status 0 -/
theorem solveTableau_terminates {P : Prob K} (hP : WF P) {β : K} (hβ0 : 0 ≤ β) (hβ1 : β < 1) :
    ∀ (fuel : ℕ) (T : M K) (b : List ℕ) (seen : List (List ℕ)),
      LpInv P β T b → RowInv (lpTableau P β) T P.length (lpCols P).length →
      seen ⊆ allBases P → seen.Nodup →
      (∀ b' ∈ seen, ∃ T', LpInv P β T' b' ∧
        T.get P.length ((lpCols P).length + P.length) < T'.get P.length ((lpCols P).length + P.length)) →
      (allBases P).length + 1 ≤ fuel + seen.length →
      (QE.C04.solveTableau (QE.C04.tol0 : QE.C04.Tol K) true fuel T b).status = 0 := by
  intro fuel
  induction fuel with
  | zero =>
    intro T b seen hinv _ hsub hnd hseen hcount
    exfalso
    have hns : b ∉ seen := by
      intro hb
      obtain ⟨T', hT', hlt⟩ := hseen b hb
      rw [obj_of_basis hinv hT'] at hlt
      exact lt_irrefl _ hlt
    have h1 : (b :: seen).Nodup := nodup_cons.mpr ⟨hns, hnd⟩
    have h2 : (b :: seen) ⊆ allBases P := by
      intro x hx
      rcases mem_cons.mp hx with rfl | hx
      · exact mem_allBases hinv.2
      · exact hsub hx
    have := (subperm_of_subset h1 h2).length_le
    simp only [length_cons] at this
    omega
  | succ fuel ih =>
    intro T b seen hinv hrow hsub hnd hseen hcount
    unfold QE.C04.solveTableau
    cases hpc : QE.C04.pivotCol T true (QE.C04.tol0 : QE.C04.Tol K).fea with
    | none => rfl
    | some c =>
      simp only
      have hf := found_of_pivotCol hP hβ1 hinv hrow c hpc
      rw [if_pos hf]
      have hst : QE.C04.Step (QE.C04.tol0 : QE.C04.Tol K) true T b
          (pivot T c (lexMinRatio (QE.C04.dropLast T) c (T.nc - (T.nr - 1) - 1)
            (QE.C04.tol0 : QE.C04.Tol K).piv (QE.C04.tol0 : QE.C04.Tol K).diff).2)
          (b.set (lexMinRatio (QE.C04.dropLast T) c (T.nc - (T.nr - 1) - 1)
            (QE.C04.tol0 : QE.C04.Tol K).piv (QE.C04.tol0 : QE.C04.Tol K).diff).2 c) :=
        ⟨c, hpc, hf, rfl, rfl⟩
      have hinv' := lpInv_step hP hβ0 hinv hst
      have hrow' := rowInv_step (QE.C04.tol0 : QE.C04.Tol K) hrow hst
      have hlt := step_strict hP hβ0 hinv hst
      have hns : b ∉ seen := by
        intro hb
        obtain ⟨T', hT', hlt'⟩ := hseen b hb
        rw [obj_of_basis hinv hT'] at hlt'
        exact lt_irrefl _ hlt'
      show (QE.C04.solveTableau (QE.C04.tol0 : QE.C04.Tol K) true fuel _ _).status = 0
      refine ih _ _ (b :: seen) hinv' hrow' ?_ (nodup_cons.mpr ⟨hns, hnd⟩) ?_ ?_
      · intro x hx
        rcases mem_cons.mp hx with rfl | hx
        · exact mem_allBases hinv.2
        · exact hsub hx
      · intro b' hb'
        rcases mem_cons.mp hb' with rfl | hb'
        · exact ⟨T, hinv, hlt⟩
        · obtain ⟨T', hT', hlt'⟩ := hseen b' hb'
          exact ⟨T', hT', lt_trans hlt hlt'⟩
      · simp only [length_cons]; omega

theorem lpSolve_terminates {P : Prob K} (hP : WF P) {β : K} (hβ0 : 0 ≤ β) (hβ1 : β < 1)
    {σ0 : List ℕ} (hf0 : Feasible P σ0) (maxIter : ℕ)
    (hN : P.length + (allBases P).length + 1 ≤ maxIter) :
    (lpSolve (QE.C04.tol0 : QE.C04.Tol K) P β σ0 maxIter).stopped = true := by
  have hstart : LpInv P β (lpStart P β (lpBasis0 P σ0)) (lpBasis0 P σ0) :=
    ⟨inv0_of_startChk hf0 (lpStartChk_holds hP hβ0 hβ1 hf0), policyBasis_start hf0⟩
  have hrow := rowInv_start P β (lpBasis0 P σ0)
  have h := solveTableau_terminates hP hβ0 hβ1 (maxIter - P.length) _ _ [] hstart hrow
    (by simp) nodup_nil (by simp) (by simp only [length_nil]; omega)
  show ((QE.C04.solveTableau (QE.C04.tol0 : QE.C04.Tol K) true (maxIter - P.length)
    (lpStart P β (lpBasis0 P σ0)) (lpBasis0 P σ0)).status == 0) = true
  rw [h]; rfl

end QE.C01
