/-
  C07 helper lemmas, part 12: the model-side evaluator of a linear rule (`ruleCostM`, `ruleGapM`,
  `ruleEndM`, run by the driver op `rulecost`) computes the quantities `clCost`, `ruleGap` and the
  closed-loop state of the optimality theorems.
-/
import QEProofs.Lemmas.C07Opt
import QEProofs.Lemmas.C07Nash

set_option linter.unusedSectionVars false

namespace QE.C07
open QE QE.MatAlg QE.C06 Finset Matrix

variable {K : Type} [CommRing K] {n k j : ℕ}

/-- an `n × 1` model matrix as a vector -/
def vec (n : ℕ) (x : M K) : Fin n → K := fun i => x.get i 0

theorem toMat_col (x : M K) : toMat n 1 x = colM (vec n x) := by
  ext i a
  have := Fin.eq_zero a
  subst this
  rfl

theorem colM_inj {a b : Fin n → K} (h : colM a = colM b) : a = b := by
  funext i
  exact congrFun (congrFun h i) 0

theorem quadM_eq {Mx x : M K} (hM : Dim Mx n n) (hx : Dim x n 1) :
    quadM Mx x = qf (toMat n n Mx) (vec n x) := by
  have e : quadM Mx x = toMat 1 1 (mmul (mT x) (mmul Mx x)) 0 0 := rfl
  rw [e]
  simp (disch := dim_tac) only [toMat_mmul, toMat_mT]
  rw [toMat_col, qf, Matrix.mul_assoc]

theorem crossM_eq {u N x : M K} (hu : Dim u k 1) (hN : Dim N k n) (hx : Dim x n 1) :
    crossM u N x = bf (vec k u) (toMat k n N) (vec n x) := by
  have e : crossM u N x = toMat 1 1 (mmul (mT u) (mmul N x)) 0 0 := rfl
  rw [e]
  simp (disch := dim_tac) only [toMat_mmul, toMat_mT]
  rw [toMat_col, toMat_col, bf, Matrix.mul_assoc]

variable {lq : LQ K}

theorem stageM_eq (h : LQDim lq n k j) {x u : M K} (hx : Dim x n 1) (hu : Dim u k 1) :
    stageM lq x u = stage (toMat n n lq.R) (toMat k k lq.Q) (toMat k n lq.N) (vec n x) (vec k u) := by
  unfold stageM stage
  rw [quadM_eq h.R hx, quadM_eq h.Q hu, crossM_eq hu h.N hx, one_add_one_eq_two]

theorem ctrl_dim {G x : M K} (hG : Dim G k n) (hx : Dim x n 1) : Dim (ctrl G x) k 1 := by
  unfold ctrl; dim_tac

theorem vec_ctrl {G x : M K} (hG : Dim G k n) (hx : Dim x n 1) :
    vec k (ctrl G x) = -(toMat k n G *ᵥ vec n x) := by
  apply colM_inj
  rw [← toMat_col, colM_neg, colM_mulVec, ← toMat_col]
  unfold ctrl
  simp (disch := dim_tac) only [toMat_mmul, toMat_mneg]

theorem stepM_dim (h : LQDim lq n k j) {x u : M K} (hx : Dim x n 1) (hu : Dim u k 1) :
    Dim (stepM lq x u) n 1 := by
  have := h.A; have := h.B
  unfold stepM; dim_tac

theorem vec_stepM (h : LQDim lq n k j) {x u : M K} (hx : Dim x n 1) (hu : Dim u k 1) :
    vec n (stepM lq x u) = toMat n n lq.A *ᵥ vec n x + toMat n k lq.B *ᵥ vec k u := by
  have := h.A; have := h.B
  apply colM_inj
  rw [← toMat_col, colM_add, colM_mulVec, colM_mulVec, ← toMat_col, ← toMat_col]
  unfold stepM
  simp (disch := dim_tac) only [toMat_mmul, toMat_madd]

/-- **the evaluator computes `clCost`** -/
theorem ruleCostM_eq (h : LQDim lq n k j) {G : M K} (hG : Dim G k n) :
    ∀ (T : ℕ) (x : M K), Dim x n 1 →
      ruleCostM lq G T x
        = clCost (toMat n n lq.R) (toMat n n lq.A) (toMat k k lq.Q) (toMat k n lq.N) (toMat k n G)
            (toMat n k lq.B) lq.beta T (vec n x) := by
  intro T
  induction T with
  | zero => intro x _; rfl
  | succ T ih =>
    intro x hx
    have hu := ctrl_dim hG hx
    simp only [ruleCostM, clCost]
    rw [stageM_eq h hx hu, ih _ (stepM_dim h hx hu), vec_stepM h hx hu, vec_ctrl hG hx]

theorem ruleGapM_eq (h : LQDim lq n k j) {S1 F G : M K} (hS : Dim S1 k k) (hF : Dim F k n) (hG : Dim G k n) :
    ∀ (T : ℕ) (x : M K), Dim x n 1 →
      ruleGapM lq S1 F G T x
        = ruleGap (toMat n n lq.A) (toMat n k lq.B) (toMat k n F) (toMat k n G) (toMat k k S1) lq.beta T
            (vec n x) := by
  intro T
  induction T with
  | zero => intro x _; rfl
  | succ T ih =>
    intro x hx
    have hu := ctrl_dim hG hx
    have hd : Dim (mmul (msub F G) x) k 1 := by dim_tac
    have hv : vec k (mmul (msub F G) x) = (toMat k n F - toMat k n G) *ᵥ vec n x := by
      apply colM_inj
      rw [← toMat_col, colM_mulVec, ← toMat_col]
      simp (disch := dim_tac) only [toMat_mmul, toMat_msub]
    simp only [ruleGapM, ruleGap]
    rw [quadM_eq hS hd, hv, ih _ (stepM_dim h hx hu), vec_stepM h hx hu, vec_ctrl hG hx]

theorem ruleEndM_eq (h : LQDim lq n k j) {G : M K} (hG : Dim G k n) :
    ∀ (T : ℕ) (x : M K) (b : K), Dim x n 1 →
      Dim (ruleEndM lq G T x b).1 n 1 ∧
      vec n (ruleEndM lq G T x b).1 = ((toMat n n lq.A - toMat n k lq.B * toMat k n G) ^ T) *ᵥ vec n x ∧
      (ruleEndM lq G T x b).2 = b * lq.beta ^ T := by
  intro T
  induction T with
  | zero => intro x b hx; exact ⟨hx, by simp [ruleEndM], by simp [ruleEndM]⟩
  | succ T ih =>
    intro x b hx
    have hu := ctrl_dim hG hx
    obtain ⟨d, e1, e2⟩ := ih (stepM lq x (ctrl G x)) (b * lq.beta) (stepM_dim h hx hu)
    refine ⟨d, ?_, ?_⟩
    · show vec n (ruleEndM lq G T (stepM lq x (ctrl G x)) (b * lq.beta)).1 = _
      rw [e1, vec_stepM h hx hu, vec_ctrl hG hx, closed_loop_step, Matrix.mulVec_mulVec, ← pow_succ]
    · show (ruleEndM lq G T (stepM lq x (ctrl G x)) (b * lq.beta)).2 = _
      rw [e2, pow_succ]; ring

end QE.C07
