/-
  Lemmas for C08, part 8: the Legendre polynomials as Mathlib polynomials, and the derivative
  formula `(X² − 1) Pₙ' = n (X Pₙ − Pₙ₋₁)` behind the `pp` of `_qnwlege1`.
-/
import QEProofs.Lemmas.C08Rec
import Mathlib.Algebra.Polynomial.Derivative
import Mathlib.Algebra.Polynomial.Eval.Degree
import Mathlib.Tactic.LinearCombination
namespace QE.C08
open Polynomial

set_option linter.unusedSectionVars false

variable {K : Type} [Field K] [LinearOrder K] [IsStrictOrderedRing K]

/-- Legendre polynomials in `K[X]` by Bonnet's recurrence -/
noncomputable def legendrePoly : Nat → K[X]
  | 0 => 1
  | 1 => X
  | n + 2 => C (1 / ((n + 2 : Nat) : K)) *
      (((2 * n + 3 : Nat) : K[X]) * X * legendrePoly (n + 1) - ((n + 1 : Nat) : K[X]) * legendrePoly n)

theorem legendrePoly_eval (z : K) : ∀ n, (legendrePoly n).eval z = legendreP z n := by
  intro n
  induction n using Nat.strongRecOn with
  | _ n ih =>
    match n with
    | 0 => simp [legendrePoly, legendreP]
    | 1 => simp [legendrePoly, legendreP]
    | n + 2 =>
      rw [legendrePoly, legendreP]
      simp only [eval_mul, eval_C, eval_sub, eval_natCast, eval_X, ih (n + 1) (by omega), ih n (by omega)]
      ring

/-- Bonnet: `(n+2) P_{n+2} = (2n+3) X P_{n+1} − (n+1) P_n` -/
theorem legendrePoly_bonnet (n : Nat) :
    ((n + 2 : Nat) : K[X]) * legendrePoly (n + 2)
      = ((2 * n + 3 : Nat) : K[X]) * X * legendrePoly (n + 1) - ((n + 1 : Nat) : K[X]) * legendrePoly n := by
  rw [legendrePoly]
  have h : ((n + 2 : Nat) : K) ≠ 0 := by
    have : (n + 2 : Nat) ≠ 0 := by omega
    exact_mod_cast this
  have hc : ((n + 2 : Nat) : K[X]) * C (1 / ((n + 2 : Nat) : K)) = 1 := by
    rw [← C_eq_natCast, ← C_mul, mul_one_div_cancel h, C_1]
  rw [← mul_assoc, hc, one_mul]

/-- the two identities carried through the induction:
    `X Pₘ' − Pₘ₋₁' = m Pₘ` and `(X² − 1) Pₘ' = m (X Pₘ − Pₘ₋₁)` for `m = n + 1` -/
theorem legendrePoly_deriv_pair : ∀ n : Nat,
    (X * derivative (legendrePoly (n + 1) : K[X]) - derivative (legendrePoly n)
        = ((n + 1 : Nat) : K[X]) * legendrePoly (n + 1)) ∧
    ((X ^ 2 - 1) * derivative (legendrePoly (n + 1) : K[X])
        = ((n + 1 : Nat) : K[X]) * (X * legendrePoly (n + 1) - legendrePoly n)) := by
  intro n
  induction n with
  | zero =>
    constructor
    · simp [legendrePoly]
    · simp [legendrePoly]; ring
  | succ n ih =>
    obtain ⟨hE, hD⟩ := ih
    have h1 := legendrePoly_bonnet (K := K) n
    have h2 := congrArg derivative h1
    simp only [derivative_mul, derivative_sub, derivative_natCast, derivative_X, zero_mul, zero_add,
      mul_one] at h2
    -- notation: m = n+1, A = P n, B = P (n+1), Cc = P (n+2)
    have hs : ((n + 2 : Nat) : K[X]) ≠ 0 := by
      have : (n + 2 : Nat) ≠ 0 := by omega
      exact_mod_cast this
    have hC : derivative (legendrePoly (n + 2) : K[X])
        = ((n + 2 : Nat) : K[X]) * legendrePoly (n + 1) + X * derivative (legendrePoly (n + 1)) := by
      apply mul_left_cancel₀ hs
      push_cast at h2 hE ⊢
      linear_combination h2 + ((n : K[X]) + 1) * hE
    constructor
    · push_cast at h1 hD hC ⊢
      linear_combination X * hC + hD - h1
    · push_cast at h1 hD hC ⊢
      linear_combination (X ^ 2 - 1) * hC + X * hD - X * h1

/-- **legendre_derivative_formula**: `(X² − 1) Pₙ' = n (X Pₙ − Pₙ₋₁)` for `n ≥ 1` -/
theorem legendrePoly_derivative_formula (n : Nat) :
    (X ^ 2 - 1) * derivative (legendrePoly (n + 1) : K[X])
      = ((n + 1 : Nat) : K[X]) * (X * legendrePoly (n + 1) - legendrePoly n) :=
  (legendrePoly_deriv_pair n).2

end QE.C08
