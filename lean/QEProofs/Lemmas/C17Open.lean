/-
  Lemmas for C17: loop contracts of newton / newton_halley / newton_secant.
-/
import QEProofs.Lemmas.C17Basic
namespace QE.C17
set_option linter.unusedSectionVars false

section
variable {K : Type} [Field K] [LinearOrder K] [IsStrictOrderedRing K]

/-- contract of the Newton loop started with `itr` completed passes at `p0` -/
theorem newtonLoop_spec (f fp : K → K) (tol : K) : ∀ (fuel itr : Nat) (p0 : K) (calls : Nat),
    (let r := newtonLoop f fp tol fuel itr p0 calls
     (r.conv = true → f r.root = 0 ∨
        ∃ q, f q ≠ 0 ∧ fp q ≠ 0 ∧ r.root = q - f q / fp q ∧ |r.root - q| < tol) ∧
     (r.conv = false → r.iters = itr + fuel ∨ (fp r.root = 0 ∧ f r.root ≠ 0)) ∧
     itr ≤ r.iters ∧ r.iters ≤ itr + fuel ∧
     calls + 2 * (r.iters - itr) ≤ r.calls ∧ r.calls ≤ calls + 2 * (r.iters - itr) + 1) := by
  intro fuel
  induction fuel with
  | zero => intro itr p0 calls; simp [newtonLoop]
  | succ fuel ih =>
    intro itr p0 calls
    unfold newtonLoop
    by_cases h0 : f p0 = 0
    · simp [h0]
    · by_cases h1 : fp p0 = 0
      · simp [h0, h1]
      · by_cases h2 : absv (p0 - f p0 / fp p0 - p0) < tol
        · simp only [beq_iff_eq, h0, h1, h2, if_false, if_true]
          refine ⟨fun _ => Or.inr ⟨p0, h0, h1, rfl, by rw [← absv_eq_abs]; exact h2⟩, by simp, by omega, by omega, by omega, by omega⟩
        · simp only [beq_iff_eq, h0, h1, h2, if_false]
          have := ih (itr + 1) (p0 - f p0 / fp p0) (calls + 2)
          simp only at this
          obtain ⟨a, b, c, d, e, g⟩ := this
          refine ⟨a, ?_, by omega, by omega, by omega, by omega⟩
          intro hc
          rcases b hc with h | h
          · left; omega
          · right; exact h

/-- contract of the Halley loop -/
theorem halleyLoop_spec (f fp fpp : K → K) (tol : K) : ∀ (fuel itr : Nat) (p0 : K) (calls : Nat),
    (let r := halleyLoop f fp fpp tol fuel itr p0 calls
     (r.conv = true → f r.root = 0 ∨
        ∃ q, f q ≠ 0 ∧ fp q ≠ 0 ∧
          r.root = q - (f q / fp q) / (1 - 1 / 2 * (f q / fp q) * fpp q / fp q) ∧ |r.root - q| < tol) ∧
     (r.conv = false → r.iters = itr + fuel ∨ (fp r.root = 0 ∧ f r.root ≠ 0)) ∧
     itr ≤ r.iters ∧ r.iters ≤ itr + fuel ∧
     calls + 2 * (r.iters - itr) ≤ r.calls ∧ r.calls ≤ calls + 2 * (r.iters - itr) + 1) := by
  intro fuel
  induction fuel with
  | zero => intro itr p0 calls; simp [halleyLoop]
  | succ fuel ih =>
    intro itr p0 calls
    unfold halleyLoop
    by_cases h0 : f p0 = 0
    · simp [h0]
    · by_cases h1 : fp p0 = 0
      · simp [h0, h1]
      · by_cases h2 : absv (p0 - f p0 / fp p0 / (1 - half * (f p0 / fp p0) * fpp p0 / fp p0) - p0) < tol
        · simp only [beq_iff_eq, h0, h1, h2, if_false, if_true]
          refine ⟨fun _ => Or.inr ⟨p0, h0, h1, by rw [half_eq], by rw [← absv_eq_abs]; exact h2⟩,
            by simp, by omega, by omega, by omega, by omega⟩
        · simp only [beq_iff_eq, h0, h1, h2, if_false]
          have := ih (itr + 1) (p0 - f p0 / fp p0 / (1 - half * (f p0 / fp p0) * fpp p0 / fp p0)) (calls + 2)
          simp only at this
          obtain ⟨a, b, c, d, e, g⟩ := this
          refine ⟨a, ?_, by omega, by omega, by omega, by omega⟩
          intro hc
          rcases b hc with h | h
          · left; omega
          · right; exact h

/-- contract of the secant loop: the three exits. `q0 = f p0`, `q1 = f p1` is an invariant. -/
theorem secantLoop_spec (f : K → K) (tol : K) : ∀ (fuel itr : Nat) (p0 p1 : K) (calls : Nat),
    (let r := secantLoop f tol fuel itr p0 p1 (f p0) (f p1) calls
     (r.conv = true →
        (∃ a b, f a = f b ∧ r.root = (a + b) / 2) ∨
        (∃ a b, f b ≠ f a ∧ r.root = b - f b * (b - a) / (f b - f a) ∧ |r.root - b| < tol)) ∧
     (r.conv = false → r.iters = itr + fuel) ∧
     itr ≤ r.iters ∧ r.iters ≤ itr + fuel ∧
     (r.conv = true → r.calls + (itr + 1) = calls + r.iters) ∧
     (r.conv = false → r.calls + itr = calls + r.iters)) := by
  intro fuel
  induction fuel with
  | zero => intro itr p0 p1 calls; simp [secantLoop]
  | succ fuel ih =>
    intro itr p0 p1 calls
    unfold secantLoop
    by_cases h0 : f p1 = f p0
    · simp only [beq_iff_eq, h0, if_true]
      refine ⟨fun _ => Or.inl ⟨p1, p0, h0, by rw [two_eq]⟩, by simp, by omega, by omega, by intro; omega, by simp⟩
    · by_cases h2 : absv (p1 - f p1 * (p1 - p0) / (f p1 - f p0) - p1) < tol
      · simp only [beq_iff_eq, h0, h2, if_false, if_true]
        refine ⟨fun _ => Or.inr ⟨p0, p1, h0, rfl, by rw [← absv_eq_abs]; exact h2⟩, by simp, by omega, by omega,
          by intro; omega, by simp⟩
      · simp only [beq_iff_eq, h0, h2, if_false]
        have := ih (itr + 1) p1 (p1 - f p1 * (p1 - p0) / (f p1 - f p0)) (calls + 1)
        simp only at this
        obtain ⟨a, b, c, d, e, g⟩ := this
        exact ⟨a, fun hc => by have := b hc; omega, by omega, by omega,
          fun hc => by have := e hc; omega, fun hc => by have := g hc; omega⟩

end
end QE.C17
