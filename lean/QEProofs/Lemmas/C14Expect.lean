/-
  Lemmas for C14, part 2: `Player.payoff_vector` (the last axis reduced repeatedly) is the
  iterated expectation over the opponents' actions.
-/
import QEProofs.Lemmas.C14Index
namespace QE.C14

variable {α : Type} [Zero α] [Add α] [Mul α]

/-- what reducing one axis of size `m` with an action does to the function `h` of that axis'
    index: evaluation at a pure action, `Σ_b h b * p[b]` (in the order of `ndarray.dot`) for a
    mixed one -/
def reduceFn (m : Nat) (act : Act α) (h : Nat → α) : α :=
  match act with
  | .pure a => h a
  | .mixed p => (List.range m).foldl (fun acc b => acc + h b * p.getD b 0) 0

/-- **Specification.** Expected value of `f` (a function of the opponents' pure actions, in the
    player's own opponent order) when opponent `k` plays `os[k]`, pure or mixed, independently:
    `E_{b₁∼σ₁} E_{b₂∼σ₂} … f(b₁, b₂, …)`. -/
def expect : List Nat → List (Act α) → (List Nat → α) → α
  | n :: s, σ :: os, f => reduceFn n σ (fun b => expect s os (fun r => f (b :: r)))
  | _, _, f => f []

/-- every action fits its axis (`take` in range / `dot` aligned) -/
def actsOk : List Nat → List (Act α) → Prop
  | n :: s, σ :: os => actOk n σ = none ∧ actsOk s os
  | [], [] => True
  | _, _ => False

theorem expect_snoc (m : Nat) (σ : Act α) : ∀ (s : List Nat) (os : List (Act α)) (f : List Nat → α),
    os.length = s.length →
    expect (s ++ [m]) (os ++ [σ]) f = expect s os (fun r => reduceFn m σ (fun b => f (r ++ [b])))
  | [], [], f, _ => rfl
  | [], _ :: _, _, h => by simp at h
  | _ :: _, [], _, h => by simp at h
  | n :: s, τ :: os, f, h => by
    have h' : os.length = s.length := by simpa using h
    simp only [List.cons_append, expect]
    congr 1
    funext b
    exact expect_snoc m σ s os (fun r => f (b :: r)) h'

theorem foldl_congr_range {β : Type} (n : Nat) (g g' : β → Nat → β) (init : β)
    (h : ∀ acc b, b < n → g acc b = g' acc b) :
    (List.range n).foldl g init = (List.range n).foldl g' init := by
  induction n generalizing init with
  | zero => rfl
  | succ n ih =>
    rw [List.range_succ, List.foldl_append, List.foldl_append]
    simp only [List.foldl_cons, List.foldl_nil]
    rw [ih init (fun acc b hb => h acc b (by omega)), h _ n (by omega)]

theorem reduceFn_congr (m : Nat) (σ : Act α) (h h' : Nat → α) (hok : actOk m σ = none)
    (e : ∀ b, b < m → h b = h' b) : reduceFn m σ h = reduceFn m σ h' := by
  cases σ with
  | pure a =>
    simp only [actOk] at hok
    have : a < m := by
      by_contra hc; simp [hc] at hok
    exact e a this
  | mixed p =>
    simp only [reduceFn]
    apply foldl_congr_range
    intro acc b hb
    rw [e b hb]

/-- `expect` only looks at `f` on in-bounds opponent profiles -/
theorem expect_congr : ∀ (s : List Nat) (os : List (Act α)) (f g : List Nat → α),
    actsOk s os → (∀ r, inBounds s r = true → f r = g r) → expect s os f = expect s os g
  | [], [], f, g, _, e => e [] rfl
  | [], _ :: _, _, _, h, _ => by simp [actsOk] at h
  | _ :: _, [], _, _, h, _ => by simp [actsOk] at h
  | n :: s, σ :: os, f, g, h, e => by
    simp only [actsOk] at h
    simp only [expect]
    apply reduceFn_congr n σ _ _ h.1
    intro b hb
    apply expect_congr s os _ _ h.2
    intro r hr
    apply e
    simp [inBounds, hb, hr]

theorem inBounds_append : ∀ (s t a b : List Nat), inBounds s a = true → inBounds t b = true →
    inBounds (s ++ t) (a ++ b) = true
  | [], t, [], b, _, hb => by simpa using hb
  | [], _, _ :: _, _, h, _ => by simp [inBounds] at h
  | _ :: _, _, [], _, h, _ => by simp [inBounds] at h
  | n :: s, t, x :: a, b, h, hb => by
    simp only [inBounds, Bool.and_eq_true, decide_eq_true_eq, List.cons_append] at h ⊢
    exact ⟨h.1, inBounds_append s t a b h.2 hb⟩

theorem inBounds_single (m b : Nat) (h : b < m) : inBounds [m] [b] = true := by
  simp [inBounds, h]

omit [Zero α] [Add α] [Mul α] in
theorem actsOk_snoc (m : Nat) (σ : Act α) : ∀ (s : List Nat) (os : List (Act α)),
    actsOk (s ++ [m]) (os ++ [σ]) → os.length = s.length → actsOk s os ∧ actOk m σ = none
  | [], [], h, _ => by simpa [actsOk] using h
  | [], _ :: _, _, hl => by simp at hl
  | _ :: _, [], _, hl => by simp at hl
  | n :: s, τ :: os, h, hl => by
    simp only [List.cons_append, actsOk] at h ⊢
    have := actsOk_snoc m σ s os h.2 (by simpa using hl)
    exact ⟨⟨h.1, this.1⟩, this.2⟩

omit [Zero α] [Add α] [Mul α] in
theorem actsOk_length : ∀ (s : List Nat) (os : List (Act α)), actsOk s os → os.length = s.length
  | [], [], _ => rfl
  | [], _ :: _, h => by simp [actsOk] at h
  | _ :: _, [], h => by simp [actsOk] at h
  | _ :: s, _ :: os, h => by
    simp only [actsOk] at h
    simp [actsOk_length s os h.2]

/-- shape and reads of one reduction of the last axis -/
theorem reduceLast_shape (A : Arr α) (σ : Act α) : (reduceLast A σ).shape = A.shape.dropLast := by
  cases σ <;> rfl

theorem reduceLast_get (A : Arr α) (σ : Act α) (pre : List Nat) (m : Nat) (idx : List Nat)
    (hs : A.shape = pre ++ [m]) (hb : inBounds pre idx = true) :
    (reduceLast A σ).get idx = reduceFn m σ (fun b => A.get (idx ++ [b])) := by
  have hd : A.shape.dropLast = pre := by rw [hs]; simp
  cases σ with
  | pure a =>
    simp only [reduceLast, Arr.takeLast, reduceFn]
    rw [hd, get_tab _ _ _ hb]
  | mixed p =>
    simp only [reduceLast, Arr.dotLast, reduceFn]
    rw [hd, get_tab _ _ _ hb]
    have : A.shape.getLastD 0 = m := by rw [hs]; simp
    rw [this]

/-- **payoff_vector is the expected payoff** (induction on the number of opponents, last
    opponent reduced first as in the code). -/
theorem payoffVector_get (n0 a : Nat) (ha : a < n0) : ∀ (k : Nat) (s : List Nat) (os : List (Act α))
    (A : Arr α), s.length = k → A.shape = n0 :: s → actsOk s os →
    (payoffVector A os).shape = [n0] ∧
    (payoffVector A os).get [a] = expect s os (fun r => A.get (a :: r)) := by
  intro k
  induction k with
  | zero =>
    intro s os A hk hs hok
    have : s = [] := List.eq_nil_of_length_eq_zero hk
    subst this
    have : os = [] := by
      cases os with
      | nil => rfl
      | cons _ _ => simp [actsOk] at hok
    subst this
    exact ⟨hs, rfl⟩
  | succ k ih =>
    intro s os A hk hs hok
    have hlen := actsOk_length s os hok
    rcases List.eq_nil_or_concat s with h0 | ⟨s', m, rfl⟩
    · subst h0; simp at hk
    rcases List.eq_nil_or_concat os with h0 | ⟨os', σ, rfl⟩
    · subst h0; simp at hlen
    simp only [List.concat_eq_append] at *
    have hl' : os'.length = s'.length := by simpa using hlen
    obtain ⟨hok', hσ⟩ := actsOk_snoc m σ s' os' hok hl'
    have hpv : payoffVector A (os' ++ [σ]) = payoffVector (reduceLast A σ) os' := by
      simp [payoffVector, List.foldr_append]
    have hshape : (reduceLast A σ).shape = n0 :: s' := by
      rw [reduceLast_shape, hs]
      rw [← List.cons_append, List.dropLast_concat]
    have := ih s' os' (reduceLast A σ) (by simpa using hk) hshape hok'
    rw [hpv]
    refine ⟨this.1, ?_⟩
    rw [this.2, expect_snoc m σ s' os' _ hl']
    apply expect_congr s' os' _ _ hok'
    intro r hr
    have hb : inBounds (n0 :: s') (a :: r) = true := by simp [inBounds, ha, hr]
    rw [reduceLast_get A σ (n0 :: s') m (a :: r) (by rw [hs]; simp) hb]
    rfl

end QE.C14
