/-
  Lemmas for C18, part 5: Blotto accumulation, cumulative sums, column maxima and the
  rejection loop of `unit_vector_game(avoid_pure_nash=True)`.
-/
import Mathlib.Algebra.Order.Field.Basic
import Mathlib.Algebra.BigOperators.Group.List.Basic
import Mathlib.Data.List.Nodup
import Mathlib.Data.List.Range
import Mathlib.Tactic.Linarith
import Mathlib.Tactic.Ring
import Mathlib.Tactic.LinearCombination
import QEModel.C18
namespace QE.C18
set_option linter.unusedSectionVars false

variable {K : Type} [Field K] [LinearOrder K] [IsStrictOrderedRing K]

/-! ### Blotto -/

/-- value of hill `(x, y, v)` to player 0 / player 1 by the definition -/
def hill0 (xv : (Nat × Nat) × (K × K)) : K :=
  if xv.1.1 > xv.1.2 then xv.2.1 else if xv.1.1 = xv.1.2 then xv.2.1 / 2 else 0

def hill1 (xv : (Nat × Nat) × (K × K)) : K :=
  if xv.1.2 > xv.1.1 then xv.2.2 else if xv.1.1 = xv.1.2 then xv.2.2 / 2 else 0

def blottoStep (p : K × K) (xv : (Nat × Nat) × (K × K)) : K × K :=
  if xv.1.1 = xv.1.2 then (p.1 + xv.2.1 / (1 + 1), p.2 + xv.2.2 / (1 + 1))
  else if xv.1.1 < xv.1.2 then (p.1, p.2 + xv.2.2)
  else (p.1 + xv.2.1, p.2)

theorem blottoPair_eq_foldl (ai aj : List Nat) (values : List (K × K)) :
    blottoPair ai aj values = ((ai.zip aj).zip values).foldl blottoStep (0, 0) := rfl

theorem blotto_foldl : ∀ (l : List ((Nat × Nat) × (K × K))) (p : K × K),
    l.foldl blottoStep p = (p.1 + (l.map hill0).sum, p.2 + (l.map hill1).sum)
  | [], p => by simp
  | xv :: l, p => by
    rw [List.foldl_cons, blotto_foldl l]
    obtain ⟨⟨x, y⟩, ⟨v0, v1⟩⟩ := xv
    have h2 : (1 : K) + 1 = 2 := by norm_num
    simp only [blottoStep, hill0, hill1, List.map_cons, List.sum_cons, h2]
    rcases Nat.lt_trichotomy x y with h | h | h
    · have h1 : ¬ x = y := by omega
      have h3 : ¬ x > y := by omega
      simp only [h1, h, h3, if_true, if_false]
      ext <;> simp <;> ring
    · subst h
      simp only [if_true, gt_iff_lt, lt_irrefl, if_false]
      ext <;> simp <;> ring
    · have h1 : ¬ x = y := by omega
      have h3 : ¬ x < y := by omega
      simp only [h1, h, h3, gt_iff_lt, if_true, if_false]
      ext <;> simp <;> ring

/-! ### cumulative sums -/

theorem cumsumNat_length : ∀ (l : List Nat) (acc : Nat), (cumsumNat acc l).length = l.length
  | [], _ => rfl
  | x :: l, acc => by simp [cumsumNat, cumsumNat_length l]

theorem cumsumNat_getD : ∀ (l : List Nat) (acc i : Nat), i < l.length →
    (cumsumNat acc l).getD i 0 = acc + (l.take (i + 1)).sum
  | [], _, _, h => by simp at h
  | x :: l, acc, 0, _ => by simp [cumsumNat]
  | x :: l, acc, i + 1, h => by
    simp only [cumsumNat, List.getD_cons_succ]
    rw [cumsumNat_getD l (acc + x) i (by simpa using h)]
    simp [List.take_succ_cons]; omega

theorem cumsumNat_gt : ∀ (l : List Nat) (acc : Nat), (∀ x ∈ l, 1 ≤ x) →
    ∀ y ∈ cumsumNat acc l, acc < y
  | [], _, _ => by simp [cumsumNat]
  | x :: l, acc, h => by
    intro y hy
    have hx := h x (by simp)
    simp only [cumsumNat, List.mem_cons] at hy
    rcases hy with rfl | hy
    · omega
    · have := cumsumNat_gt l (acc + x) (fun z hz => h z (List.mem_cons_of_mem _ hz)) y hy
      omega

theorem cumsumNat_strict : ∀ (l : List Nat) (acc : Nat), (∀ x ∈ l, 1 ≤ x) →
    (cumsumNat acc l).Pairwise (· < ·)
  | [], _, _ => by simp [cumsumNat]
  | x :: l, acc, h => by
    simp only [cumsumNat, List.pairwise_cons]
    exact ⟨cumsumNat_gt l (acc + x) (fun z hz => h z (List.mem_cons_of_mem _ hz)),
      cumsumNat_strict l (acc + x) (fun z hz => h z (List.mem_cons_of_mem _ hz))⟩

/-! ### column maxima -/

def cmStep (c : Nat) (mx : K) (row : List K) : K := if mx < row.getD c 0 then row.getD c 0 else mx

theorem colMax_eq (P : List (List K)) (c : Nat) :
    colMax P c = P.foldl (cmStep c) ((P.headD []).getD c 0) := rfl

theorem cm_foldl_ge : ∀ (P : List (List K)) (c : Nat) (m0 : K),
    m0 ≤ P.foldl (cmStep c) m0 ∧ ∀ row ∈ P, row.getD c 0 ≤ P.foldl (cmStep c) m0
  | [], c, m0 => by simp
  | r :: P, c, m0 => by
    rw [List.foldl_cons]
    obtain ⟨h1, h2⟩ := cm_foldl_ge P c (cmStep c m0 r)
    have hs : m0 ≤ cmStep c m0 r ∧ r.getD c 0 ≤ cmStep c m0 r := by
      unfold cmStep; split
      · exact ⟨le_of_lt ‹_›, le_refl _⟩
      · exact ⟨le_refl _, not_lt.1 ‹_›⟩
    refine ⟨le_trans hs.1 h1, ?_⟩
    intro row hrow
    rcases List.mem_cons.1 hrow with rfl | h
    · exact le_trans hs.2 h1
    · exact h2 row h

theorem cm_foldl_mem : ∀ (P : List (List K)) (c : Nat) (m0 : K),
    P.foldl (cmStep c) m0 = m0 ∨ ∃ row ∈ P, row.getD c 0 = P.foldl (cmStep c) m0
  | [], c, m0 => by simp
  | r :: P, c, m0 => by
    rw [List.foldl_cons]
    rcases cm_foldl_mem P c (cmStep c m0 r) with h | ⟨row, hr, he⟩
    · rw [h]
      unfold cmStep; split
      · exact Or.inr ⟨r, by simp, rfl⟩
      · exact Or.inl rfl
    · exact Or.inr ⟨row, List.mem_cons_of_mem _ hr, he⟩

/-- the column maximum is an upper bound of the column and is attained in it -/
theorem colMax_spec (P : List (List K)) (c : Nat) (hP : P ≠ []) :
    (∀ row ∈ P, row.getD c 0 ≤ colMax P c) ∧ ∃ row ∈ P, row.getD c 0 = colMax P c := by
  rw [colMax_eq]
  refine ⟨(cm_foldl_ge P c _).2, ?_⟩
  rcases cm_foldl_mem P c ((P.headD []).getD c 0) with h | h
  · cases P with
    | nil => exact absurd rfl hP
    | cons r P => exact ⟨r, by simp, by rw [h]; rfl⟩
  · exact h

/-! ### the rejection loop -/

/-- the accepted draw is suboptimal for `i`, and it is one of the draws -/
theorem uvPick_spec (P : List (List K)) (i : Nat) : ∀ (draws : List Nat) (d : Nat) (rest : List Nat),
    uvPick P i draws = some (d, rest) →
    isSubopt P i d = true ∧ d ∈ draws ∧ ∃ pre, draws = pre ++ d :: rest ∧ ∀ e ∈ pre, isSubopt P i e = false
  | [], d, rest, h => by simp [uvPick] at h
  | e :: draws, d, rest, h => by
    unfold uvPick at h
    by_cases hs : isSubopt P i e = true
    · rw [if_pos hs] at h
      simp only [Option.some.injEq, Prod.mk.injEq] at h
      obtain ⟨rfl, rfl⟩ := h
      exact ⟨hs, by simp, [], by simp, by simp⟩
    · rw [if_neg hs] at h
      obtain ⟨h1, h2, pre, h3, h4⟩ := uvPick_spec P i draws d rest h
      refine ⟨h1, List.mem_cons_of_mem _ h2, e :: pre, by simp [h3], ?_⟩
      intro x hx
      rcases List.mem_cons.1 hx with rfl | hx'
      · simpa using hs
      · exact h4 x hx'

theorem uvAvoidOnes_spec (P : List (List K)) : ∀ (is : List Nat) (draws ones rest : List Nat),
    uvAvoidOnes P is draws = some (ones, rest) →
    ones.length = is.length ∧
      (∀ t (h1 : t < is.length) (h2 : t < ones.length), isSubopt P is[t] ones[t] = true ∧ ones[t] ∈ draws) ∧
      ∃ used, draws = used ++ rest
  | [], draws, ones, rest, h => by
    simp only [uvAvoidOnes, Option.some.injEq, Prod.mk.injEq] at h
    obtain ⟨rfl, rfl⟩ := h
    exact ⟨rfl, by intro t h1; simp at h1, [], by simp⟩
  | i :: is, draws, ones, rest, h => by
    unfold uvAvoidOnes at h
    cases hp : uvPick P i draws with
    | none => rw [hp] at h; simp at h
    | some dr =>
      obtain ⟨d, rest1⟩ := dr
      rw [hp] at h
      simp only at h
      cases hr : uvAvoidOnes P is rest1 with
      | none => rw [hr] at h; simp at h
      | some q =>
        obtain ⟨ds, rest'⟩ := q
        rw [hr] at h
        simp only [Option.some.injEq, Prod.mk.injEq] at h
        obtain ⟨rfl, rfl⟩ := h
        obtain ⟨p1, p2, pre, p3, _⟩ := uvPick_spec P i draws d rest1 hp
        obtain ⟨q1, q2, used, q3⟩ := uvAvoidOnes_spec P is rest1 ds rest' hr
        refine ⟨by simp [q1], ?_, pre ++ d :: used, by rw [p3, q3]; simp⟩
        intro t h1 h2
        cases t with
        | zero => exact ⟨p1, p2⟩
        | succ t =>
          simp only [List.getElem_cons_succ]
          have := q2 t (by simpa using h1) (by simpa using h2)
          refine ⟨this.1, ?_⟩
          rw [p3]; simp only [List.mem_append, List.mem_cons]
          exact Or.inr (Or.inr this.2)

/-! ### Blotto: every hill's value is awarded once between the mirrored pairs -/

theorem blotto_mirror_sum : ∀ (ai aj : List Nat) (values : List (K × K)),
    (((ai.zip aj).zip values).map hill0).sum + (((aj.zip ai).zip values).map hill0).sum
        = (((ai.zip aj).zip values).map fun xv => xv.2.1).sum ∧
    (((ai.zip aj).zip values).map hill1).sum + (((aj.zip ai).zip values).map hill1).sum
        = (((ai.zip aj).zip values).map fun xv => xv.2.2).sum
  | [], _, _ => by simp
  | _ :: _, [], _ => by simp
  | _ :: _, _ :: _, [] => by simp
  | x :: ai, y :: aj, v :: values => by
    obtain ⟨ih0, ih1⟩ := blotto_mirror_sum ai aj values
    simp only [List.zip_cons_cons, List.map_cons, List.sum_cons]
    have e0 : hill0 ((x, y), v) + hill0 ((y, x), v) = v.1 := by
      unfold hill0
      rcases Nat.lt_trichotomy x y with h | h | h
      · have h1 : ¬ x > y := by omega
        have h2 : ¬ x = y := by omega
        have h3 : y > x := h
        have h4 : ¬ y = x := by omega
        simp [h1, h2, h3]
      · subst h; simp
      · have h1 : ¬ y > x := by omega
        have h2 : ¬ x = y := by omega
        have h3 : x > y := h
        have h4 : ¬ y = x := by omega
        simp [h1, h3, h4]
    have e1 : hill1 ((x, y), v) + hill1 ((y, x), v) = v.2 := by
      unfold hill1
      rcases Nat.lt_trichotomy x y with h | h | h
      · have h1 : ¬ x > y := by omega
        have h2 : ¬ x = y := by omega
        have h3 : y > x := h
        have h4 : ¬ y = x := by omega
        simp [h1, h3, h4]
      · subst h; simp
      · have h1 : ¬ y > x := by omega
        have h2 : ¬ x = y := by omega
        have h3 : x > y := h
        have h4 : ¬ y = x := by omega
        simp [h1, h2, h3]
    constructor
    · linear_combination e0 + ih0
    · linear_combination e1 + ih1

/-! ### the rejection loop terminates on an acceptable draw -/

theorem uvPick_complete (P : List (List K)) (i : Nat) : ∀ (draws : List Nat),
    (∃ d ∈ draws, isSubopt P i d = true) → ∃ d rest, uvPick P i draws = some (d, rest)
  | [], h => by simp at h
  | e :: draws, h => by
    unfold uvPick
    by_cases hs : isSubopt P i e = true
    · exact ⟨e, draws, by rw [if_pos hs]⟩
    · rw [if_neg hs]
      apply uvPick_complete P i draws
      obtain ⟨d, hd, hsd⟩ := h
      rcases List.mem_cons.1 hd with rfl | hd'
      · exact absurd hsd hs
      · exact ⟨d, hd', hsd⟩

end QE.C18
