/-
  Lemmas for C02: the GTH lift lemma (function level, any field) and the bridge from the
  executable model `QEModel.C02` (`sumUpTo`, `redStep`, `reduce`, `backSub`, `gthRec`) to it.
-/
import QEModel.C02
import Mathlib.Algebra.Order.Field.Basic
import Mathlib.Algebra.BigOperators.Intervals
import Mathlib.Algebra.BigOperators.Field
import Mathlib.Tactic.Ring
import Mathlib.Tactic.FieldSimp
import Mathlib.Tactic.Linarith
import Mathlib.Algebra.Order.BigOperators.Group.Finset

namespace QE.C02
open Finset

set_option linter.unusedSectionVars false

section lift
variable {K : Type} [Field K]

/-- active off-diagonal row sum of row i on indices [k,n) -/
def offSum (A : ℕ → ℕ → K) (k n i : ℕ) : K := ∑ l ∈ (Ico k n).erase i, A i l

/-- generator on the active block: off-diagonals of A, diagonal = minus off-diagonal row sum -/
def Qm (A : ℕ → ℕ → K) (k n i j : ℕ) : K := if i = j then - offSum A k n i else A i j

/-- one GTH reduction step (entries with i,j > k) -/
def gstep (A : ℕ → ℕ → K) (k : ℕ) (s : K) (i j : ℕ) : K := A i j + A i k / s * A k j

theorem offSum_step (A : ℕ → ℕ → K) (k n j : ℕ) (s : K) (hs : s ≠ 0) (hj : j ∈ Ico (k+1) n)
    (hsdef : s = ∑ l ∈ Ico (k+1) n, A k l) :
    offSum A k n j = offSum (gstep A k s) (k+1) n j + A j k * A k j / s := by
  unfold offSum gstep
  have hjk : k < j ∧ j < n := by simpa [Nat.succ_le_iff] using hj
  -- split off l = k on the left
  have hsplit : (Ico k n).erase j = insert k ((Ico (k+1) n).erase j) := by
    ext x; simp only [mem_erase, mem_Ico, mem_insert]; omega
  have hnot : k ∉ (Ico (k+1) n).erase j := by simp
  rw [hsplit, sum_insert hnot, sum_add_distrib, ← mul_sum]
  have hsum : ∑ l ∈ (Ico (k+1) n).erase j, A k l = s - A k j := by
    rw [hsdef, ← Finset.add_sum_erase _ _ hj]; ring
  rw [hsum]
  field_simp
  ring

/-- Lift lemma: a left null vector of the reduced generator extends to one of the current one. -/
theorem gth_step_lift (A : ℕ → ℕ → K) (k n : ℕ) (s : K) (hs : s ≠ 0)
    (hsdef : s = ∑ l ∈ Ico (k+1) n, A k l) (y : ℕ → K)
    (hy : ∀ j ∈ Ico (k+1) n, ∑ i ∈ Ico (k+1) n, y i * Qm (gstep A k s) (k+1) n i j = 0)
    (hk : k < n)
    (yk : K) (hyk : yk = (∑ i ∈ Ico (k+1) n, y i * A i k) / s) :
    let y' : ℕ → K := fun i => if i = k then yk else y i
    ∀ j ∈ Ico k n, ∑ i ∈ Ico k n, y' i * Qm A k n i j = 0 := by
  intro y' j hj
  have hIco : Ico k n = insert k (Ico (k+1) n) := by
    ext x; simp only [mem_Ico, mem_insert]; omega
  have hnot : k ∉ Ico (k+1) n := by simp
  have hy' : ∀ i ∈ Ico (k+1) n, y' i = y i := by
    intro i hi; have : i ≠ k := by simp at hi; omega
    simp [y', this]
  rw [hIco, sum_insert hnot]
  have hyk' : y' k = yk := by simp [y']
  rw [hyk']
  by_cases hjk : j = k
  · -- column k
    subst hjk
    have hoff : offSum A j n j = s := by
      unfold offSum
      have : (Ico j n).erase j = Ico (j+1) n := by
        ext x; simp only [mem_erase, mem_Ico]; omega
      rw [this, hsdef]
    have h1 : Qm A j n j j = -s := by simp [Qm, hoff]
    have h2 : ∑ i ∈ Ico (j+1) n, y' i * Qm A j n i j = ∑ i ∈ Ico (j+1) n, y i * A i j := by
      apply sum_congr rfl; intro i hi
      have : i ≠ j := by simp at hi; omega
      rw [hy' i hi]; simp [Qm, this]
    rw [h1, h2, hyk]; field_simp; ring
  · -- column j > k
    have hj' : j ∈ Ico (k+1) n := by simp at hj ⊢; omega
    have hkj : k ≠ j := fun h => hjk h.symm
    have h1 : Qm A k n k j = A k j := by simp [Qm, hkj]
    rw [h1]
    have h2 : ∑ i ∈ Ico (k+1) n, y' i * Qm A k n i j
        = ∑ i ∈ Ico (k+1) n, (y i * Qm (gstep A k s) (k+1) n i j - y i * (A i k * A k j / s)) := by
      apply sum_congr rfl; intro i hi
      rw [hy' i hi]
      by_cases hij : i = j
      · subst hij
        simp only [Qm, if_true]
        rw [offSum_step A k n i s hs hi hsdef]; ring
      · simp only [Qm, hij, if_false, gstep]; ring
    rw [h2, sum_sub_distrib, hy j hj', hyk]
    have h3 : ∑ i ∈ Ico (k+1) n, y i * (A i k * A k j / s)
        = (∑ i ∈ Ico (k+1) n, y i * A i k) / s * A k j := by
      rw [sum_div, sum_mul]; apply sum_congr rfl; intro i _; ring
    rw [h3]; ring


end lift

/-! ### the two-phase program equals the structural recursion (any scalar type, `Float` included) -/

section twophase
variable {α : Type} [Zero α] [One α] [Add α] [Mul α] [Div α] [LE α] [DecidableLE α]

theorem redStep_get' (n : ℕ) (A : M α) (k : ℕ) (s : α) (i j : ℕ) (hi : i < n) (hj : j < n) :
    (redStep n A k s).get i j =
      if k < i then
        if j = k then A.get i k / s
        else if k < j then A.get i j + (A.get i k / s) * A.get k j
        else A.get i j
      else A.get i j := by
  unfold redStep
  rw [M.get_tab _ _ _ _ _ hi hj]

/-- the reduction from pivot `k` on never touches a column `j < k` -/
theorem reduce_col (n : ℕ) : ∀ (fuel k : ℕ) (A : M α) (i j : ℕ), i < n → j < n → j < k →
    (reduce n fuel k A).1.get i j = A.get i j := by
  intro fuel
  induction fuel with
  | zero => intro k A i j _ _ _; rfl
  | succ fuel ih =>
    intro k A i j hi hj hjk
    rw [reduce]
    try simp only
    by_cases hs : rowScale n A k ≤ 0
    · rw [if_pos hs]
    · rw [if_neg hs, ih (k+1) _ i j hi hj (by omega), redStep_get' n A k _ i j hi hj]
      by_cases hki : k < i
      · rw [if_pos hki, if_neg (by omega), if_neg (by omega)]
      · rw [if_neg hki]

/-- effective size: `k+1 ≤ m ≤ n` -/
theorem reduce_size (n : ℕ) : ∀ (fuel k : ℕ) (A : M α), k + fuel + 1 = n →
    k + 1 ≤ (reduce n fuel k A).2 ∧ (reduce n fuel k A).2 ≤ n := by
  intro fuel
  induction fuel with
  | zero => intro k A h; simp only [reduce]; omega
  | succ fuel ih =>
    intro k A h
    rw [reduce]
    try simp only
    by_cases hs : rowScale n A k ≤ 0
    · rw [if_pos hs]; simp only; omega
    · rw [if_neg hs]
      have := ih (k+1) (redStep n A k (rowScale n A k)) (by omega)
      omega

theorem sumUpTo_congr (f g : ℕ → α) (m : ℕ) (h : ∀ t, t < m → f t = g t) :
    sumUpTo f m = sumUpTo g m := by
  induction m with
  | zero => rfl
  | succ m ih =>
    rw [sumUpTo, sumUpTo, ih (fun t ht => h t (by omega)), h m (by omega)]

theorem backSub_length (A : M α) (m j : ℕ) : (backSub A m j).length = j + 1 := by
  induction j with
  | zero => rfl
  | succ j ih => rw [backSub]; simp [ih]

/-- **The driver's two-phase program (`reduce` everything, then `backSub`) computes the same list as
    the structural recursion `gthRec`** — the identity is syntactic in the scalar operations, so it
    holds for `Float` as well as for exact fields. -/
theorem backSub_reduce_eq_rec (n : ℕ) : ∀ (fuel k : ℕ) (A : M α), k + fuel + 1 = n →
    backSub (reduce n fuel k A).1 (reduce n fuel k A).2 ((reduce n fuel k A).2 - 1 - k)
      = gthRec n fuel k A := by
  intro fuel
  induction fuel with
  | zero =>
    intro k A h
    have : n - 1 - k = 0 := by omega
    simp only [reduce, gthRec, this, backSub]
  | succ fuel ih =>
    intro k A h
    rw [reduce, gthRec]
    try simp only
    by_cases hs : rowScale n A k ≤ 0
    · rw [if_pos hs, if_pos hs]
      have : k + 1 - 1 - k = 0 := by omega
      simp only [this, backSub]
    · rw [if_neg hs, if_neg hs]
      set A' := redStep n A k (rowScale n A k) with hA'
      have hsz := reduce_size n fuel (k+1) A' (by omega)
      have hih := ih (k+1) A' (by omega)
      set B := (reduce n fuel (k+1) A').1 with hB
      set m := (reduce n fuel (k+1) A').2 with hm
      have e1 : m - 1 - k = (m - 2 - k) + 1 := by omega
      have e2 : m - 1 - (k+1) = m - 2 - k := by omega
      have e3 : m - 2 - (m - 2 - k) = k := by omega
      rw [e1, backSub]
      try simp only
      rw [e3, ← e2, hih]
      congr 1
      unfold dotCol
      apply sumUpTo_congr
      intro t ht
      have hlen : (gthRec n fuel (k+1) A').length = m - 1 - (k+1) + 1 := by
        rw [← hih, backSub_length]
      rw [hB, reduce_col n fuel (k+1) A' (k+1+t) k (by omega) (by omega) (by omega)]

theorem gthRaw_eq_rec (n : ℕ) (hn : 1 ≤ n) (A : M α) : gthRaw n A = gthRec n (n - 1) 0 A := by
  unfold gthRaw
  simp only
  have := backSub_reduce_eq_rec n (n - 1) 0 A (by omega)
  simpa using this

/-- agreement of two matrices off the diagonal, inside the `n × n` frame -/
def OffEq (n : ℕ) (A B : M α) : Prop := ∀ i j, i < n → j < n → i ≠ j → A.get i j = B.get i j

theorem rowScale_congr (n : ℕ) (A B : M α) (k : ℕ) (h : OffEq n A B) :
    rowScale n A k = rowScale n B k := by
  unfold rowScale
  apply sumUpTo_congr
  intro t ht
  exact h k (k+1+t) (by omega) (by omega) (by omega)

theorem redStep_congr (n : ℕ) (A B : M α) (k : ℕ) (s : α) (h : OffEq n A B) :
    OffEq n (redStep n A k s) (redStep n B k s) := by
  intro i j hi hj hij
  rw [redStep_get' n A k s i j hi hj, redStep_get' n B k s i j hi hj]
  by_cases hki : k < i
  · rw [if_pos hki, if_pos hki]
    by_cases hjk : j = k
    · rw [if_pos hjk, if_pos hjk, h i k hi (by omega) (by omega)]
    · rw [if_neg hjk, if_neg hjk]
      by_cases hkj : k < j
      · rw [if_pos hkj, if_pos hkj, h i j hi hj hij, h i k hi (by omega) (by omega),
          h k j (by omega) hj (by omega)]
      · rw [if_neg hkj, if_neg hkj, h i j hi hj hij]
  · rw [if_neg hki, if_neg hki, h i j hi hj hij]

theorem gthRec_length (n : ℕ) : ∀ (fuel k : ℕ) (A : M α), (gthRec n fuel k A).length ≤ fuel + 1 := by
  intro fuel
  induction fuel with
  | zero => intro k A; simp [gthRec]
  | succ fuel ih =>
    intro k A
    rw [gthRec]
    try simp only
    by_cases hs : rowScale n A k ≤ 0
    · rw [if_pos hs]; simp
    · rw [if_neg hs]
      have := ih (k+1) (redStep n A k (rowScale n A k))
      simp only [List.length_cons]; omega

theorem gthRec_congr (n : ℕ) : ∀ (fuel k : ℕ) (A B : M α), k + fuel + 1 = n → OffEq n A B →
    gthRec n fuel k A = gthRec n fuel k B := by
  intro fuel
  induction fuel with
  | zero => intro k A B _ _; rfl
  | succ fuel ih =>
    intro k A B hk h
    rw [gthRec, gthRec]
    try simp only
    rw [rowScale_congr n A B k h]
    by_cases hs : rowScale n B k ≤ 0
    · rw [if_pos hs, if_pos hs]
    · rw [if_neg hs, if_neg hs]
      have h' := redStep_congr n A B k (rowScale n B k) h
      rw [ih (k+1) _ _ (by omega) h']
      have hd : dotCol (redStep n A k (rowScale n B k)) k
            (gthRec n fuel (k+1) (redStep n B k (rowScale n B k)))
          = dotCol (redStep n B k (rowScale n B k)) k
            (gthRec n fuel (k+1) (redStep n B k (rowScale n B k))) := by
        unfold dotCol
        apply sumUpTo_congr
        intro t ht
        have hl := gthRec_length n fuel (k+1) (redStep n B k (rowScale n B k))
        rw [h' (k+1+t) k (by omega) (by omega) (by omega)]
      rw [hd]

theorem gthSolve_congr_offdiag (n : ℕ) (hn : 1 ≤ n) (A B : M α)
    (h : ∀ i j, i < n → j < n → i ≠ j → A.get i j = B.get i j) :
    gthSolve n A = gthSolve n B := by
  unfold gthSolve
  rw [gthRaw_eq_rec n hn A, gthRaw_eq_rec n hn B, gthRec_congr n (n-1) 0 A B (by omega) h]

theorem backSub_last (A : M α) (m j : ℕ) : (backSub A m j).getD j 0 = 1 := by
  induction j with
  | zero => rfl
  | succ j ih => rw [backSub]; simpa using ih

theorem gthRaw_length (n : ℕ) (hn : 1 ≤ n) (A : M α) :
    (gthRaw n A).length = (reduce n (n - 1) 0 A).2 := by
  unfold gthRaw
  have := reduce_size n (n-1) 0 A (by omega)
  simp only [backSub_length]
  omega

theorem gthRaw_last (n : ℕ) (A : M α) :
    (gthRaw n A).getD ((reduce n (n - 1) 0 A).2 - 1) 0 = 1 := by
  unfold gthRaw
  exact backSub_last _ _ _

end twophase

/-! ### bridge from the executable model -/

section bridge
variable {K : Type} [Field K] [LinearOrder K] [IsStrictOrderedRing K]

theorem sumUpTo_eq (f : ℕ → K) (m : ℕ) : sumUpTo f m = ∑ t ∈ range m, f t := by
  induction m with
  | zero => simp [sumUpTo]
  | succ m ih => rw [sumUpTo, ih, sum_range_succ]

theorem rowScale_eq (n : ℕ) (A : M K) (k : ℕ) :
    rowScale n A k = ∑ l ∈ Ico (k+1) n, A.get k l := by
  unfold rowScale
  rw [sumUpTo_eq, sum_Ico_eq_sum_range]

/-- all off-diagonal entries (inside the `n × n` frame) are non-negative: a Metzler matrix -/
def OffNonneg (n : ℕ) (A : M K) : Prop := ∀ i j, i < n → j < n → i ≠ j → 0 ≤ A.get i j

theorem redStep_get (n : ℕ) (A : M K) (k : ℕ) (s : K) (i j : ℕ) (hi : i < n) (hj : j < n) :
    (redStep n A k s).get i j =
      if k < i then
        if j = k then A.get i k / s
        else if k < j then A.get i j + (A.get i k / s) * A.get k j
        else A.get i j
      else A.get i j := by
  unfold redStep
  rw [M.get_tab _ _ _ _ _ hi hj]

theorem redStep_offNonneg (n : ℕ) (A : M K) (k : ℕ) (s : K) (hs : 0 < s) (hA : OffNonneg n A) :
    OffNonneg n (redStep n A k s) := by
  intro i j hi hj hij
  rw [redStep_get n A k s i j hi hj]
  by_cases hki : k < i
  · rw [if_pos hki]
    by_cases hjk : j = k
    · rw [if_pos hjk]
      exact div_nonneg (hA i k hi (by omega) (by omega)) hs.le
    · rw [if_neg hjk]
      by_cases hkj : k < j
      · rw [if_pos hkj]
        have h1 := hA i j hi hj hij
        have h2 := hA i k hi (by omega) (by omega)
        have h3 := hA k j (by omega) hj (by omega)
        have : 0 ≤ A.get i k / s * A.get k j := mul_nonneg (div_nonneg h2 hs.le) h3
        linarith
      · rw [if_neg hkj]; exact hA i j hi hj hij
  · rw [if_neg hki]; exact hA i j hi hj hij

theorem Qm_congr (A B : ℕ → ℕ → K) (k n : ℕ)
    (h : ∀ i ∈ Ico k n, ∀ j ∈ Ico k n, A i j = B i j) :
    ∀ i ∈ Ico k n, ∀ j ∈ Ico k n, Qm A k n i j = Qm B k n i j := by
  intro i hi j hj
  unfold Qm offSum
  by_cases hij : i = j
  · rw [if_pos hij, if_pos hij]
    congr 1
    apply sum_congr rfl
    intro l hl
    exact h i hi l (mem_of_mem_erase hl)
  · rw [if_neg hij, if_neg hij]; exact h i hi j hj

/-- the unit vector at `k` is a left null vector of the active generator when row `k` has no
    active off-diagonal mass (base case `k = n-1`, and the `scale <= 0` break). -/
theorem unit_null (n : ℕ) (A : M K) (k : ℕ) (hk : k < n) (hA : OffNonneg n A)
    (hs : ∑ l ∈ Ico (k+1) n, A.get k l ≤ 0) :
    ∀ j ∈ Ico k n, ∑ i ∈ Ico k n, ([1] : List K).getD (i - k) 0 * Qm (fun a b => A.get a b) k n i j = 0 := by
  intro j hj
  have hnn : ∀ l ∈ Ico (k+1) n, 0 ≤ A.get k l := by
    intro l hl; simp only [mem_Ico] at hl
    exact hA k l hk hl.2 (by omega)
  have hzero : ∑ l ∈ Ico (k+1) n, A.get k l = 0 := le_antisymm hs (sum_nonneg hnn)
  have heach : ∀ l ∈ Ico (k+1) n, A.get k l = 0 := (sum_eq_zero_iff_of_nonneg hnn).1 hzero
  rw [sum_eq_single k]
  · simp only [Nat.sub_self, List.getD_cons_zero, one_mul]
    by_cases hjk : k = j
    · subst hjk
      unfold Qm offSum
      rw [if_pos rfl]
      have : (Ico k n).erase k = Ico (k+1) n := by
        ext x; simp only [mem_erase, mem_Ico]; omega
      rw [this, hzero, neg_zero]
    · unfold Qm
      rw [if_neg hjk]
      apply heach
      simp only [mem_Ico] at hj ⊢; omega
  · intro i hi hik
    simp only [mem_Ico] at hi
    have : i - k = (i - k - 1) + 1 := by omega
    rw [this]; simp
  · intro h; exact absurd (mem_Ico.2 ⟨le_refl k, hk⟩) h

/-- **Main induction.** On a Metzler matrix, the list produced for the active block `[k,n)` is a
    non-negative left null vector of the active generator `Qm A k n`, not longer than the block,
    containing an entry equal to 1. -/
theorem gthRec_null (n : ℕ) : ∀ (fuel k : ℕ) (A : M K), k + fuel + 1 = n → OffNonneg n A →
    (∀ j ∈ Ico k n, ∑ i ∈ Ico k n,
        (gthRec n fuel k A).getD (i - k) 0 * Qm (fun a b => A.get a b) k n i j = 0)
    ∧ (∀ t, 0 ≤ (gthRec n fuel k A).getD t 0)
    ∧ (gthRec n fuel k A).length ≤ n - k
    ∧ (∃ t, t < (gthRec n fuel k A).length ∧ (gthRec n fuel k A).getD t 0 = 1) := by
  intro fuel
  induction fuel with
  | zero =>
    intro k A hk hA
    have hkn : k < n := by omega
    simp only [gthRec]
    refine ⟨?_, ?_, ?_, ⟨0, by simp, by simp⟩⟩
    · apply unit_null n A k hkn hA
      have : Ico (k+1) n = ∅ := by ext x; simp only [mem_Ico]; simp; omega
      rw [this]; simp
    · intro t; cases t <;> simp
    · simp; omega
  | succ fuel ih =>
    intro k A hk hA
    have hkn : k < n := by omega
    rw [gthRec]
    simp only
    by_cases hs : rowScale n A k ≤ 0
    · rw [if_pos hs]
      refine ⟨?_, ?_, ?_, ⟨0, by simp, by simp⟩⟩
      · apply unit_null n A k hkn hA
        rw [← rowScale_eq]; exact hs
      · intro t; cases t <;> simp
      · simp; omega
    · rw [if_neg hs]
      have hspos : 0 < rowScale n A k := not_le.1 hs
      set s := rowScale n A k with hsdef
      set A' := redStep n A k s with hA'
      have hA'nn : OffNonneg n A' := redStep_offNonneg n A k s hspos hA
      obtain ⟨h1, h2, h3, ⟨t0, ht0, ht01⟩⟩ := ih (k+1) A' (by omega) hA'nn
      set xs := gthRec n fuel (k+1) A' with hxs
      -- entries of A' in terms of A
      have hcol : ∀ i, k < i → i < n → A'.get i k = A.get i k / s := by
        intro i hki hin
        rw [hA', redStep_get n A k s i k hin hkn, if_pos hki, if_pos rfl]
      have hblk : ∀ i ∈ Ico (k+1) n, ∀ j ∈ Ico (k+1) n,
          (fun a b => A'.get a b) i j = gstep (fun a b => A.get a b) k s i j := by
        intro i hi j hj
        simp only [mem_Ico] at hi hj
        show A'.get i j = _
        rw [hA', redStep_get n A k s i j hi.2 hj.2, if_pos (by omega), if_neg (by omega), if_pos (by omega)]
        rfl
      have hy : ∀ j ∈ Ico (k+1) n, ∑ i ∈ Ico (k+1) n,
          (fun i => xs.getD (i - (k+1)) 0) i * Qm (gstep (fun a b => A.get a b) k s) (k+1) n i j = 0 := by
        intro j hj
        refine Eq.trans ?_ (h1 j hj)
        apply sum_congr rfl
        intro i hi
        rw [Qm_congr _ _ (k+1) n hblk i hi j hj]
      have hyk : dotCol A' k xs = (∑ i ∈ Ico (k+1) n, (fun i => xs.getD (i - (k+1)) 0) i * A.get i k) / s := by
        unfold dotCol
        rw [sumUpTo_eq, sum_Ico_eq_sum_range, sum_div]
        have hsub : range xs.length ⊆ range (n - (k+1)) := range_subset_range.2 h3
        rw [← sum_subset hsub]
        · apply sum_congr rfl
          intro t ht
          have htl : t < xs.length := mem_range.1 ht
          rw [hcol (k+1+t) (by omega) (by omega)]
          have : k + 1 + t - (k+1) = t := by omega
          simp only [this]
          ring
        · intro t _ htn
          have : xs.length ≤ t := by simpa using htn
          have : k + 1 + t - (k+1) = t := by omega
          simp only [this]
          have hnone : xs[t]? = none := List.getElem?_eq_none (by assumption)
          simp [List.getD_eq_getElem?_getD, hnone]
      have hlift := gth_step_lift (fun a b => A.get a b) k n s (ne_of_gt hspos)
        (by rw [hsdef, rowScale_eq]) (fun i => xs.getD (i - (k+1)) 0) hy hkn (dotCol A' k xs) hyk
      refine ⟨?_, ?_, ?_, ⟨t0 + 1, by simp; omega, by simpa using ht01⟩⟩
      · intro j hj
        refine Eq.trans ?_ (hlift j hj)
        apply sum_congr rfl
        intro i hi
        simp only [mem_Ico] at hi
        by_cases hik : i = k
        · subst hik; simp
        · have : i - k = (i - (k+1)) + 1 := by omega
          rw [this]; simp [hik]
      · intro t
        cases t with
        | zero =>
          simp only [List.getD_cons_zero]
          rw [hyk]
          apply div_nonneg _ hspos.le
          apply sum_nonneg
          intro i hi
          simp only [mem_Ico] at hi
          exact mul_nonneg (h2 _) (hA i k hi.2 hkn (by omega))
        | succ t => simpa using h2 t
      · simp; omega

/-- the inductive step of `gthRec_null`, stated on the model's `redStep` / `rowScale` / `dotCol` -/
theorem step_lift_model (n : ℕ) (A : M K) (k : ℕ) (hkn : k < n) (hspos : 0 < rowScale n A k)
    (xs : List K) (h3 : xs.length ≤ n - (k+1))
    (h1 : ∀ j ∈ Ico (k+1) n, ∑ i ∈ Ico (k+1) n, xs.getD (i - (k+1)) 0 *
        Qm (fun a b => (redStep n A k (rowScale n A k)).get a b) (k+1) n i j = 0) :
    ∀ j ∈ Ico k n, ∑ i ∈ Ico k n,
      (dotCol (redStep n A k (rowScale n A k)) k xs :: xs).getD (i - k) 0 *
        Qm (fun a b => A.get a b) k n i j = 0 := by
  set s := rowScale n A k with hsdef
  set A' := redStep n A k s with hA'
  have hcol : ∀ i, k < i → i < n → A'.get i k = A.get i k / s := by
    intro i hki hin
    rw [hA', redStep_get n A k s i k hin hkn, if_pos hki, if_pos rfl]
  have hblk : ∀ i ∈ Ico (k+1) n, ∀ j ∈ Ico (k+1) n,
      (fun a b => A'.get a b) i j = gstep (fun a b => A.get a b) k s i j := by
    intro i hi j hj
    simp only [mem_Ico] at hi hj
    show A'.get i j = _
    rw [hA', redStep_get n A k s i j hi.2 hj.2, if_pos (by omega), if_neg (by omega), if_pos (by omega)]
    rfl
  have hy : ∀ j ∈ Ico (k+1) n, ∑ i ∈ Ico (k+1) n,
      (fun i => xs.getD (i - (k+1)) 0) i * Qm (gstep (fun a b => A.get a b) k s) (k+1) n i j = 0 := by
    intro j hj
    refine Eq.trans ?_ (h1 j hj)
    apply sum_congr rfl
    intro i hi
    rw [Qm_congr _ _ (k+1) n hblk i hi j hj]
  have hyk : dotCol A' k xs = (∑ i ∈ Ico (k+1) n, (fun i => xs.getD (i - (k+1)) 0) i * A.get i k) / s := by
    unfold dotCol
    rw [sumUpTo_eq, sum_Ico_eq_sum_range, sum_div]
    have hsub : range xs.length ⊆ range (n - (k+1)) := range_subset_range.2 h3
    rw [← sum_subset hsub]
    · apply sum_congr rfl
      intro t ht
      have htl : t < xs.length := mem_range.1 ht
      rw [hcol (k+1+t) (by omega) (by omega)]
      have : k + 1 + t - (k+1) = t := by omega
      simp only [this]
      ring
    · intro t _ htn
      have : xs.length ≤ t := by simpa using htn
      have : k + 1 + t - (k+1) = t := by omega
      simp only [this]
      have hnone : xs[t]? = none := List.getElem?_eq_none (by assumption)
      simp [List.getD_eq_getElem?_getD, hnone]
  have hlift := gth_step_lift (fun a b => A.get a b) k n s (ne_of_gt hspos)
    (by rw [hsdef, rowScale_eq]) (fun i => xs.getD (i - (k+1)) 0) hy hkn (dotCol A' k xs) hyk
  intro j hj
  refine Eq.trans ?_ (hlift j hj)
  apply sum_congr rfl
  intro i hi
  simp only [mem_Ico] at hi
  by_cases hik : i = k
  · subst hik; simp
  · have : i - k = (i - (k+1)) + 1 := by omega
    rw [this]; simp [hik]

theorem reduce_offNonneg (n : ℕ) : ∀ (fuel k : ℕ) (A : M K), OffNonneg n A →
    OffNonneg n (reduce n fuel k A).1 := by
  intro fuel
  induction fuel with
  | zero => intro k A hA; exact hA
  | succ fuel ih =>
    intro k A hA
    rw [reduce]
    try simp only
    by_cases hs : rowScale n A k ≤ 0
    · rw [if_pos hs]; exact hA
    · rw [if_neg hs]
      exact ih (k+1) _ (redStep_offNonneg n A k _ (not_le.1 hs) hA)

theorem getD_map_div_append (l : List K) (c : K) (m i : ℕ) :
    (l.map (fun v => v / c) ++ List.replicate m 0).getD i 0 = l.getD i 0 / c := by
  induction l generalizing i with
  | nil =>
    simp only [List.map_nil, List.nil_append, List.getD_nil, zero_div]
    rw [List.getD_eq_getElem?_getD, List.getElem?_replicate]
    split <;> simp
  | cons a l ih =>
    cases i with
    | zero => simp
    | succ i => simpa using ih i

theorem gthSolve_stationary_aux (n : ℕ) (hn : 1 ≤ n) (A : M K) (hA : OffNonneg n A) :
    (gthSolve n A).length = n
    ∧ (∀ i, 0 ≤ (gthSolve n A).getD i 0)
    ∧ ∑ i ∈ range n, (gthSolve n A).getD i 0 = 1
    ∧ ∀ j, j < n → ∑ i ∈ range n, (gthSolve n A).getD i 0 * Qm (fun a b => A.get a b) 0 n i j = 0 := by
  obtain ⟨h1, h2, h3, ⟨t0, ht0, ht01⟩⟩ := gthRec_null n (n-1) 0 A (by omega) hA
  have hx : ∀ i, (gthSolve n A).getD i 0
      = (gthRec n (n-1) 0 A).getD i 0 / sumList (gthRec n (n-1) 0 A) := by
    intro i
    unfold gthSolve
    simp only
    rw [gthRaw_eq_rec n hn A, getD_map_div_append]
  set xs := gthRec n (n-1) 0 A with hxs
  have hnorm : sumList xs = ∑ t ∈ range xs.length, xs.getD t 0 := by
    unfold sumList; rw [sumUpTo_eq]
  have hext : ∑ i ∈ range n, xs.getD i 0 = sumList xs := by
    rw [hnorm]
    have hsub : range xs.length ⊆ range n := range_subset_range.2 (by omega)
    rw [← sum_subset hsub]
    intro t _ htn
    have hl : xs.length ≤ t := by simpa using htn
    have hnone : xs[t]? = none := List.getElem?_eq_none hl
    simp [List.getD_eq_getElem?_getD, hnone]
  have hpos : 0 < sumList xs := by
    rw [hnorm]
    have := single_le_sum (f := fun t => xs.getD t 0) (fun i _ => h2 i) (mem_range.2 ht0)
    simp only [ht01] at this
    linarith
  refine ⟨?_, ?_, ?_, ?_⟩
  · unfold gthSolve
    simp only [List.length_append, List.length_map, List.length_replicate]
    rw [gthRaw_eq_rec n hn A, ← hxs]
    omega
  · intro i; rw [hx]; exact div_nonneg (h2 i) hpos.le
  · simp only [hx]
    rw [← sum_div, hext, div_self (ne_of_gt hpos)]
  · intro j hj
    simp only [hx]
    have h0 := h1 j (mem_Ico.2 ⟨Nat.zero_le _, hj⟩)
    rw [← range_eq_Ico] at h0
    simp only [Nat.sub_zero] at h0
    have : ∀ i ∈ range n, xs.getD i 0 / sumList xs * Qm (fun a b => A.get a b) 0 n i j
        = (xs.getD i 0 * Qm (fun a b => A.get a b) 0 n i j) / sumList xs := by
      intro i _; ring
    rw [sum_congr rfl this, ← sum_div, h0, zero_div]

theorem gthSolve_invariant_aux (n : ℕ) (hn : 1 ≤ n) (P : M K) (hP : OffNonneg n P)
    (hrow : ∀ i, i < n → ∑ j ∈ range n, P.get i j = 1) :
    ∀ j, j < n → ∑ i ∈ range n, (gthSolve n P).getD i 0 * P.get i j = (gthSolve n P).getD j 0 := by
  intro j hj
  obtain ⟨_, _, _, h4⟩ := gthSolve_stationary_aux n hn P hP
  have h0 := h4 j hj
  set x := fun i => (gthSolve n P).getD i 0 with hxdef
  have hterm : ∀ i ∈ range n, x i * Qm (fun a b => P.get a b) 0 n i j
      = x i * P.get i j - (if i = j then x j else 0) := by
    intro i hi
    by_cases hij : i = j
    · subst hij
      simp only [Qm, if_true, offSum]
      have hmem : i ∈ Ico 0 n := mem_Ico.2 ⟨Nat.zero_le _, hj⟩
      have hs : ∑ l ∈ (Ico 0 n).erase i, P.get i l = 1 - P.get i i := by
        have := Finset.add_sum_erase (Ico 0 n) (fun l => P.get i l) hmem
        rw [← range_eq_Ico, hrow i hj] at this
        rw [← range_eq_Ico]; linarith
      rw [hs]; ring
    · simp [Qm, hij]
  rw [sum_congr rfl hterm, sum_sub_distrib, sum_ite_eq' (range n) j (fun _ => x j)] at h0
  simp only [mem_range, hj, if_true] at h0
  linarith

theorem gthSolve_getD (n : ℕ) (A : M K) (i : ℕ) :
    (gthSolve n A).getD i 0 = (gthRaw n A).getD i 0 / sumList (gthRaw n A) := by
  unfold gthSolve
  simp only
  rw [getD_map_div_append]

theorem gthRaw_norm_pos (n : ℕ) (hn : 1 ≤ n) (A : M K) (hA : OffNonneg n A) :
    0 < sumList (gthRaw n A) := by
  obtain ⟨_, h2, _, ⟨t0, ht0, ht01⟩⟩ := gthRec_null n (n-1) 0 A (by omega) hA
  rw [gthRaw_eq_rec n hn A]
  set xs := gthRec n (n-1) 0 A with hxs
  have hnorm : sumList xs = ∑ t ∈ range xs.length, xs.getD t 0 := by
    unfold sumList; rw [sumUpTo_eq]
  rw [hnorm]
  have := single_le_sum (f := fun t => xs.getD t 0) (fun i _ => h2 i) (mem_range.2 ht0)
  simp only [ht01] at this
  linarith

/-- support: inside the effective block `[0,m)`, and containing its last index `m-1` -/
theorem gth_support_aux (n : ℕ) (hn : 1 ≤ n) (A : M K) (hA : OffNonneg n A) :
    1 ≤ (reduce n (n - 1) 0 A).2 ∧ (reduce n (n - 1) 0 A).2 ≤ n
    ∧ 0 < (gthSolve n A).getD ((reduce n (n - 1) 0 A).2 - 1) 0
    ∧ ∀ i, (reduce n (n - 1) 0 A).2 ≤ i → (gthSolve n A).getD i 0 = 0 := by
  have hsz := reduce_size n (n-1) 0 A (by omega)
  have hpos := gthRaw_norm_pos n hn A hA
  refine ⟨by omega, hsz.2, ?_, ?_⟩
  · rw [gthSolve_getD, gthRaw_last]
    exact div_pos one_pos hpos
  · intro i hi
    rw [gthSolve_getD]
    have hl : (gthRaw n A).length ≤ i := by rw [gthRaw_length n hn A]; exact hi
    have hnone : (gthRaw n A)[i]? = none := List.getElem?_eq_none hl
    simp [List.getD_eq_getElem?_getD, hnone]

/-- for a generator matrix (rows sum to zero) `Qm G 0 n` is `G` itself: `x G = 0` -/
theorem gthSolve_generator_aux (n : ℕ) (hn : 1 ≤ n) (G : M K) (hG : OffNonneg n G)
    (hrow : ∀ i, i < n → ∑ j ∈ range n, G.get i j = 0) :
    ∀ j, j < n → ∑ i ∈ range n, (gthSolve n G).getD i 0 * G.get i j = 0 := by
  intro j hj
  obtain ⟨_, _, _, h4⟩ := gthSolve_stationary_aux n hn G hG
  refine Eq.trans ?_ (h4 j hj)
  apply sum_congr rfl
  intro i hi
  have hin := mem_range.1 hi
  by_cases hij : i = j
  · subst hij
    simp only [Qm, if_true, offSum]
    have hmem : i ∈ Ico 0 n := mem_Ico.2 ⟨Nat.zero_le _, hin⟩
    have hs : ∑ l ∈ (Ico 0 n).erase i, G.get i l = - G.get i i := by
      have := Finset.add_sum_erase (Ico 0 n) (fun l => G.get i l) hmem
      rw [← range_eq_Ico, hrow i hin] at this
      rw [← range_eq_Ico]; linarith
    rw [hs, neg_neg]
  · simp [Qm, hij]

/-- scaling the active off-diagonal block by `c > 0` does not change the computed list -/
theorem gthRec_scale (n : ℕ) (c : K) (hc : 0 < c) : ∀ (fuel k : ℕ) (A B : M K), k + fuel + 1 = n →
    (∀ i j, k ≤ i → k ≤ j → i < n → j < n → i ≠ j → B.get i j = c * A.get i j) →
    gthRec n fuel k B = gthRec n fuel k A := by
  intro fuel
  induction fuel with
  | zero => intro k A B _ _; rfl
  | succ fuel ih =>
    intro k A B hk h
    have hkn : k < n := by omega
    have hsc : rowScale n B k = c * rowScale n A k := by
      rw [rowScale_eq, rowScale_eq, mul_sum]
      apply sum_congr rfl
      intro l hl
      simp only [mem_Ico] at hl
      exact h k l (le_refl k) (by omega) hkn hl.2 (by omega)
    rw [gthRec, gthRec]
    try simp only
    by_cases hs : rowScale n A k ≤ 0
    · have hs' : rowScale n B k ≤ 0 := by
        rw [hsc]; exact mul_nonpos_of_nonneg_of_nonpos hc.le hs
      rw [if_pos hs, if_pos hs']
    · have hspos : 0 < rowScale n A k := not_le.1 hs
      have hs' : ¬ rowScale n B k ≤ 0 := by
        rw [hsc]; exact not_le.2 (mul_pos hc hspos)
      rw [if_neg hs, if_neg hs']
      set s := rowScale n A k with hsdef
      have hcne : c ≠ 0 := ne_of_gt hc
      have hsne : s ≠ 0 := ne_of_gt hspos
      have hblock : ∀ i j, k + 1 ≤ i → k + 1 ≤ j → i < n → j < n → i ≠ j →
          (redStep n B k (rowScale n B k)).get i j = c * (redStep n A k s).get i j := by
        intro i j hi hj hin hjn hij
        rw [redStep_get n B k _ i j hin hjn, redStep_get n A k s i j hin hjn]
        simp only [if_pos (show k < i by omega), if_neg (show ¬ j = k by omega),
          if_pos (show k < j by omega)]
        rw [hsc, h i j (by omega) (by omega) hin hjn hij,
          h i k (by omega) (le_refl k) hin hkn (by omega),
          h k j (le_refl k) (by omega) hkn hjn (by omega)]
        field_simp
      have hcolk : ∀ i, k < i → i < n →
          (redStep n B k (rowScale n B k)).get i k = (redStep n A k s).get i k := by
        intro i hki hin
        rw [redStep_get n B k _ i k hin hkn, redStep_get n A k s i k hin hkn]
        simp only [if_pos hki, if_true]
        rw [hsc, h i k (by omega) (le_refl k) hin hkn (by omega)]
        field_simp
      rw [ih (k+1) (redStep n A k s) (redStep n B k (rowScale n B k)) (by omega) hblock]
      have hd : dotCol (redStep n B k (rowScale n B k)) k (gthRec n fuel (k+1) (redStep n A k s))
          = dotCol (redStep n A k s) k (gthRec n fuel (k+1) (redStep n A k s)) := by
        unfold dotCol
        apply sumUpTo_congr
        intro t ht
        have hl := gthRec_length n fuel (k+1) (redStep n A k s)
        rw [hcolk (k+1+t) (by omega) (by omega)]
      rw [hd]

theorem gthSolve_scale_aux (n : ℕ) (hn : 1 ≤ n) (c : K) (hc : 0 < c) (A B : M K)
    (h : ∀ i j, i < n → j < n → i ≠ j → B.get i j = c * A.get i j) :
    gthSolve n B = gthSolve n A := by
  unfold gthSolve
  rw [gthRaw_eq_rec n hn A, gthRaw_eq_rec n hn B,
    gthRec_scale n c hc (n-1) 0 A B (by omega) (fun i j _ _ hi hj hij => h i j hi hj hij)]

end bridge

end QE.C02
