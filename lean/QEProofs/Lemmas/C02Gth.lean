/-
  Lemmas for C02: the GTH lift lemma (function level, any field) and the bridge from the
  executable model `QEModel.C02` (`sumUpTo`, `redStep`, `reduce`, `backSub`, `gthRec`) to it.
-/
import QEModel.C02
import Mathlib.Algebra.Order.Field.Basic
import Mathlib.Algebra.BigOperators.Intervals
import Mathlib.Algebra.BigOperators.Field
import Mathlib.Tactic.Ring
import Mathlib.Tactic.FieldSimp
import Mathlib.Tactic.Linarith

namespace QE.C02
open Finset

section lift
variable {K : Type} [Field K]

/-- active off-diagonal row sum of row i on indices [k,n) -/
def offSum (A : ℕ → ℕ → K) (k n i : ℕ) : K := ∑ l ∈ (Ico k n).erase i, A i l

/-- generator on the active block: off-diagonals of A, diagonal = minus off-diagonal row sum -/
def Qm (A : ℕ → ℕ → K) (k n i j : ℕ) : K := if i = j then - offSum A k n i else A i j

/-- one GTH reduction step (entries with i,j > k) -/
def gstep (A : ℕ → ℕ → K) (k : ℕ) (s : K) (i j : ℕ) : K := A i j + A i k / s * A k j

theorem offSum_step (A : ℕ → ℕ → K) (k n j : ℕ) (s : K) (hs : s ≠ 0) (hj : j ∈ Ico (k+1) n)
    (hsdef : s = ∑ l ∈ Ico (k+1) n, A k l) :
    offSum A k n j = offSum (gstep A k s) (k+1) n j + A j k * A k j / s := by
  unfold offSum gstep
  have hjk : k < j ∧ j < n := by simpa [Nat.succ_le_iff] using hj
  -- split off l = k on the left
  have hsplit : (Ico k n).erase j = insert k ((Ico (k+1) n).erase j) := by
    ext x; simp only [mem_erase, mem_Ico, mem_insert]; omega
  have hnot : k ∉ (Ico (k+1) n).erase j := by simp
  rw [hsplit, sum_insert hnot, sum_add_distrib, ← mul_sum]
  have hsum : ∑ l ∈ (Ico (k+1) n).erase j, A k l = s - A k j := by
    rw [hsdef, ← Finset.add_sum_erase _ _ hj]; ring
  rw [hsum]
  field_simp
  ring

/-- Lift lemma: a left null vector of the reduced generator extends to one of the current one. -/
theorem gth_step_lift (A : ℕ → ℕ → K) (k n : ℕ) (s : K) (hs : s ≠ 0)
    (hsdef : s = ∑ l ∈ Ico (k+1) n, A k l) (y : ℕ → K)
    (hy : ∀ j ∈ Ico (k+1) n, ∑ i ∈ Ico (k+1) n, y i * Qm (gstep A k s) (k+1) n i j = 0)
    (hk : k < n)
    (yk : K) (hyk : yk = (∑ i ∈ Ico (k+1) n, y i * A i k) / s) :
    let y' : ℕ → K := fun i => if i = k then yk else y i
    ∀ j ∈ Ico k n, ∑ i ∈ Ico k n, y' i * Qm A k n i j = 0 := by
  intro y' j hj
  have hIco : Ico k n = insert k (Ico (k+1) n) := by
    ext x; simp only [mem_Ico, mem_insert]; omega
  have hnot : k ∉ Ico (k+1) n := by simp
  have hy' : ∀ i ∈ Ico (k+1) n, y' i = y i := by
    intro i hi; have : i ≠ k := by simp at hi; omega
    simp [y', this]
  rw [hIco, sum_insert hnot]
  have hyk' : y' k = yk := by simp [y']
  rw [hyk']
  by_cases hjk : j = k
  · -- column k
    subst hjk
    have hoff : offSum A j n j = s := by
      unfold offSum
      have : (Ico j n).erase j = Ico (j+1) n := by
        ext x; simp only [mem_erase, mem_Ico]; omega
      rw [this, hsdef]
    have h1 : Qm A j n j j = -s := by simp [Qm, hoff]
    have h2 : ∑ i ∈ Ico (j+1) n, y' i * Qm A j n i j = ∑ i ∈ Ico (j+1) n, y i * A i j := by
      apply sum_congr rfl; intro i hi
      have : i ≠ j := by simp at hi; omega
      rw [hy' i hi]; simp [Qm, this]
    rw [h1, h2, hyk]; field_simp; ring
  · -- column j > k
    have hj' : j ∈ Ico (k+1) n := by simp at hj ⊢; omega
    have hkj : k ≠ j := fun h => hjk h.symm
    have h1 : Qm A k n k j = A k j := by simp [Qm, hkj]
    rw [h1]
    have h2 : ∑ i ∈ Ico (k+1) n, y' i * Qm A k n i j
        = ∑ i ∈ Ico (k+1) n, (y i * Qm (gstep A k s) (k+1) n i j - y i * (A i k * A k j / s)) := by
      apply sum_congr rfl; intro i hi
      rw [hy' i hi]
      by_cases hij : i = j
      · subst hij
        simp only [Qm, if_true]
        rw [offSum_step A k n i s hs hi hsdef]; ring
      · simp only [Qm, hij, if_false, gstep]; ring
    rw [h2, sum_sub_distrib, hy j hj', hyk]
    have h3 : ∑ i ∈ Ico (k+1) n, y i * (A i k * A k j / s)
        = (∑ i ∈ Ico (k+1) n, y i * A i k) / s * A k j := by
      rw [sum_div, sum_mul]; apply sum_congr rfl; intro i _; ring
    rw [h3]; ring


end lift

/-! ### bridge from the executable model -/

section bridge
variable {K : Type} [Field K] [LinearOrder K] [IsStrictOrderedRing K]

theorem sumUpTo_eq (f : ℕ → K) (m : ℕ) : sumUpTo f m = ∑ t ∈ range m, f t := by
  induction m with
  | zero => simp [sumUpTo]
  | succ m ih => rw [sumUpTo, ih, sum_range_succ]

theorem rowScale_eq (n : ℕ) (A : M K) (k : ℕ) :
    rowScale n A k = ∑ l ∈ Ico (k+1) n, A.get k l := by
  unfold rowScale
  rw [sumUpTo_eq, sum_Ico_eq_sum_range]

/-- all off-diagonal entries (inside the `n × n` frame) are non-negative: a Metzler matrix -/
def OffNonneg (n : ℕ) (A : M K) : Prop := ∀ i j, i < n → j < n → i ≠ j → 0 ≤ A.get i j

theorem redStep_get (n : ℕ) (A : M K) (k : ℕ) (s : K) (i j : ℕ) (hi : i < n) (hj : j < n) :
    (redStep n A k s).get i j =
      if k < i then
        if j = k then A.get i k / s
        else if k < j then A.get i j + (A.get i k / s) * A.get k j
        else A.get i j
      else A.get i j := by
  unfold redStep
  rw [M.get_tab _ _ _ _ _ hi hj]

theorem redStep_offNonneg (n : ℕ) (A : M K) (k : ℕ) (s : K) (hs : 0 < s) (hA : OffNonneg n A) :
    OffNonneg n (redStep n A k s) := by
  intro i j hi hj hij
  rw [redStep_get n A k s i j hi hj]
  by_cases hki : k < i
  · rw [if_pos hki]
    by_cases hjk : j = k
    · rw [if_pos hjk]
      exact div_nonneg (hA i k hi (by omega) (by omega)) hs.le
    · rw [if_neg hjk]
      by_cases hkj : k < j
      · rw [if_pos hkj]
        have h1 := hA i j hi hj hij
        have h2 := hA i k hi (by omega) (by omega)
        have h3 := hA k j (by omega) hj (by omega)
        have : 0 ≤ A.get i k / s * A.get k j := mul_nonneg (div_nonneg h2 hs.le) h3
        linarith
      · rw [if_neg hkj]; exact hA i j hi hj hij
  · rw [if_neg hki]; exact hA i j hi hj hij

theorem Qm_congr (A B : ℕ → ℕ → K) (k n : ℕ)
    (h : ∀ i ∈ Ico k n, ∀ j ∈ Ico k n, A i j = B i j) :
    ∀ i ∈ Ico k n, ∀ j ∈ Ico k n, Qm A k n i j = Qm B k n i j := by
  intro i hi j hj
  unfold Qm offSum
  by_cases hij : i = j
  · rw [if_pos hij, if_pos hij]
    congr 1
    apply sum_congr rfl
    intro l hl
    exact h i hi l (mem_of_mem_erase hl)
  · rw [if_neg hij, if_neg hij]; exact h i hi j hj

end bridge

end QE.C02
