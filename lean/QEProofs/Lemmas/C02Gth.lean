/-
  Lemmas for C02: the GTH lift lemma (function level, any field) and the bridge from the
  executable model `QEModel.C02` (`sumUpTo`, `redStep`, `reduce`, `backSub`, `gthRec`) to it.
-/
import QEModel.C02
import Mathlib.Algebra.Order.Field.Basic
import Mathlib.Algebra.BigOperators.Intervals
import Mathlib.Algebra.BigOperators.Field
import Mathlib.Tactic.Ring
import Mathlib.Tactic.FieldSimp
import Mathlib.Tactic.Linarith
import Mathlib.Algebra.Order.BigOperators.Group.Finset

namespace QE.C02
open Finset

section lift
variable {K : Type} [Field K]

/-- active off-diagonal row sum of row i on indices [k,n) -/
def offSum (A : ℕ → ℕ → K) (k n i : ℕ) : K := ∑ l ∈ (Ico k n).erase i, A i l

/-- generator on the active block: off-diagonals of A, diagonal = minus off-diagonal row sum -/
def Qm (A : ℕ → ℕ → K) (k n i j : ℕ) : K := if i = j then - offSum A k n i else A i j

/-- one GTH reduction step (entries with i,j > k) -/
def gstep (A : ℕ → ℕ → K) (k : ℕ) (s : K) (i j : ℕ) : K := A i j + A i k / s * A k j

theorem offSum_step (A : ℕ → ℕ → K) (k n j : ℕ) (s : K) (hs : s ≠ 0) (hj : j ∈ Ico (k+1) n)
    (hsdef : s = ∑ l ∈ Ico (k+1) n, A k l) :
    offSum A k n j = offSum (gstep A k s) (k+1) n j + A j k * A k j / s := by
  unfold offSum gstep
  have hjk : k < j ∧ j < n := by simpa [Nat.succ_le_iff] using hj
  -- split off l = k on the left
  have hsplit : (Ico k n).erase j = insert k ((Ico (k+1) n).erase j) := by
    ext x; simp only [mem_erase, mem_Ico, mem_insert]; omega
  have hnot : k ∉ (Ico (k+1) n).erase j := by simp
  rw [hsplit, sum_insert hnot, sum_add_distrib, ← mul_sum]
  have hsum : ∑ l ∈ (Ico (k+1) n).erase j, A k l = s - A k j := by
    rw [hsdef, ← Finset.add_sum_erase _ _ hj]; ring
  rw [hsum]
  field_simp
  ring

/-- Lift lemma: a left null vector of the reduced generator extends to one of the current one. -/
theorem gth_step_lift (A : ℕ → ℕ → K) (k n : ℕ) (s : K) (hs : s ≠ 0)
    (hsdef : s = ∑ l ∈ Ico (k+1) n, A k l) (y : ℕ → K)
    (hy : ∀ j ∈ Ico (k+1) n, ∑ i ∈ Ico (k+1) n, y i * Qm (gstep A k s) (k+1) n i j = 0)
    (hk : k < n)
    (yk : K) (hyk : yk = (∑ i ∈ Ico (k+1) n, y i * A i k) / s) :
    let y' : ℕ → K := fun i => if i = k then yk else y i
    ∀ j ∈ Ico k n, ∑ i ∈ Ico k n, y' i * Qm A k n i j = 0 := by
  intro y' j hj
  have hIco : Ico k n = insert k (Ico (k+1) n) := by
    ext x; simp only [mem_Ico, mem_insert]; omega
  have hnot : k ∉ Ico (k+1) n := by simp
  have hy' : ∀ i ∈ Ico (k+1) n, y' i = y i := by
    intro i hi; have : i ≠ k := by simp at hi; omega
    simp [y', this]
  rw [hIco, sum_insert hnot]
  have hyk' : y' k = yk := by simp [y']
  rw [hyk']
  by_cases hjk : j = k
  · -- column k
    subst hjk
    have hoff : offSum A j n j = s := by
      unfold offSum
      have : (Ico j n).erase j = Ico (j+1) n := by
        ext x; simp only [mem_erase, mem_Ico]; omega
      rw [this, hsdef]
    have h1 : Qm A j n j j = -s := by simp [Qm, hoff]
    have h2 : ∑ i ∈ Ico (j+1) n, y' i * Qm A j n i j = ∑ i ∈ Ico (j+1) n, y i * A i j := by
      apply sum_congr rfl; intro i hi
      have : i ≠ j := by simp at hi; omega
      rw [hy' i hi]; simp [Qm, this]
    rw [h1, h2, hyk]; field_simp; ring
  · -- column j > k
    have hj' : j ∈ Ico (k+1) n := by simp at hj ⊢; omega
    have hkj : k ≠ j := fun h => hjk h.symm
    have h1 : Qm A k n k j = A k j := by simp [Qm, hkj]
    rw [h1]
    have h2 : ∑ i ∈ Ico (k+1) n, y' i * Qm A k n i j
        = ∑ i ∈ Ico (k+1) n, (y i * Qm (gstep A k s) (k+1) n i j - y i * (A i k * A k j / s)) := by
      apply sum_congr rfl; intro i hi
      rw [hy' i hi]
      by_cases hij : i = j
      · subst hij
        simp only [Qm, if_true]
        rw [offSum_step A k n i s hs hi hsdef]; ring
      · simp only [Qm, hij, if_false, gstep]; ring
    rw [h2, sum_sub_distrib, hy j hj', hyk]
    have h3 : ∑ i ∈ Ico (k+1) n, y i * (A i k * A k j / s)
        = (∑ i ∈ Ico (k+1) n, y i * A i k) / s * A k j := by
      rw [sum_div, sum_mul]; apply sum_congr rfl; intro i _; ring
    rw [h3]; ring


end lift

/-! ### the two-phase program equals the structural recursion (any scalar type, `Float` included) -/

section twophase
variable {α : Type} [Zero α] [One α] [Add α] [Mul α] [Div α] [LE α] [DecidableLE α]

theorem redStep_get' (n : ℕ) (A : M α) (k : ℕ) (s : α) (i j : ℕ) (hi : i < n) (hj : j < n) :
    (redStep n A k s).get i j =
      if k < i then
        if j = k then A.get i k / s
        else if k < j then A.get i j + (A.get i k / s) * A.get k j
        else A.get i j
      else A.get i j := by
  unfold redStep
  rw [M.get_tab _ _ _ _ _ hi hj]

/-- the reduction from pivot `k` on never touches a column `j < k` -/
theorem reduce_col (n : ℕ) : ∀ (fuel k : ℕ) (A : M α) (i j : ℕ), i < n → j < n → j < k →
    (reduce n fuel k A).1.get i j = A.get i j := by
  intro fuel
  induction fuel with
  | zero => intro k A i j _ _ _; rfl
  | succ fuel ih =>
    intro k A i j hi hj hjk
    rw [reduce]
    simp only
    by_cases hs : rowScale n A k ≤ 0
    · rw [if_pos hs]
    · rw [if_neg hs, ih (k+1) _ i j hi hj (by omega), redStep_get' n A k _ i j hi hj]
      by_cases hki : k < i
      · rw [if_pos hki, if_neg (by omega), if_neg (by omega)]
      · rw [if_neg hki]

/-- effective size: `k+1 ≤ m ≤ n` -/
theorem reduce_size (n : ℕ) : ∀ (fuel k : ℕ) (A : M α), k + fuel + 1 = n →
    k + 1 ≤ (reduce n fuel k A).2 ∧ (reduce n fuel k A).2 ≤ n := by
  intro fuel
  induction fuel with
  | zero => intro k A h; simp only [reduce]; omega
  | succ fuel ih =>
    intro k A h
    rw [reduce]
    simp only
    by_cases hs : rowScale n A k ≤ 0
    · rw [if_pos hs]; simp only; omega
    · rw [if_neg hs]
      have := ih (k+1) (redStep n A k (rowScale n A k)) (by omega)
      omega

theorem sumUpTo_congr (f g : ℕ → α) (m : ℕ) (h : ∀ t, t < m → f t = g t) :
    sumUpTo f m = sumUpTo g m := by
  induction m with
  | zero => rfl
  | succ m ih =>
    rw [sumUpTo, sumUpTo, ih (fun t ht => h t (by omega)), h m (by omega)]

theorem backSub_length (A : M α) (m j : ℕ) : (backSub A m j).length = j + 1 := by
  induction j with
  | zero => rfl
  | succ j ih => rw [backSub]; simp [ih]

/-- **The driver's two-phase program (`reduce` everything, then `backSub`) computes the same list as
    the structural recursion `gthRec`** — the identity is syntactic in the scalar operations, so it
    holds for `Float` as well as for exact fields. -/
theorem backSub_reduce_eq_rec (n : ℕ) : ∀ (fuel k : ℕ) (A : M α), k + fuel + 1 = n →
    backSub (reduce n fuel k A).1 (reduce n fuel k A).2 ((reduce n fuel k A).2 - 1 - k)
      = gthRec n fuel k A := by
  intro fuel
  induction fuel with
  | zero =>
    intro k A h
    have : n - 1 - k = 0 := by omega
    simp only [reduce, gthRec, this, backSub]
  | succ fuel ih =>
    intro k A h
    rw [reduce, gthRec]
    simp only
    by_cases hs : rowScale n A k ≤ 0
    · rw [if_pos hs, if_pos hs]
      have : k + 1 - 1 - k = 0 := by omega
      simp only [this, backSub]
    · rw [if_neg hs, if_neg hs]
      set A' := redStep n A k (rowScale n A k) with hA'
      have hsz := reduce_size n fuel (k+1) A' (by omega)
      have hih := ih (k+1) A' (by omega)
      set B := (reduce n fuel (k+1) A').1 with hB
      set m := (reduce n fuel (k+1) A').2 with hm
      have e1 : m - 1 - k = (m - 2 - k) + 1 := by omega
      have e2 : m - 1 - (k+1) = m - 2 - k := by omega
      have e3 : m - 2 - (m - 2 - k) = k := by omega
      rw [e1, backSub]
      simp only
      rw [e3, ← e2, hih]
      congr 1
      unfold dotCol
      apply sumUpTo_congr
      intro t ht
      have hlen : (gthRec n fuel (k+1) A').length = m - 1 - (k+1) + 1 := by
        rw [← hih, backSub_length]
      rw [hB, reduce_col n fuel (k+1) A' (k+1+t) k (by omega) (by omega) (by omega)]

theorem gthRaw_eq_rec (n : ℕ) (hn : 1 ≤ n) (A : M α) : gthRaw n A = gthRec n (n - 1) 0 A := by
  unfold gthRaw
  simp only
  have := backSub_reduce_eq_rec n (n - 1) 0 A (by omega)
  simpa using this

end twophase

/-! ### bridge from the executable model -/

set_option linter.unusedSectionVars false

section bridge
variable {K : Type} [Field K] [LinearOrder K] [IsStrictOrderedRing K]

theorem sumUpTo_eq (f : ℕ → K) (m : ℕ) : sumUpTo f m = ∑ t ∈ range m, f t := by
  induction m with
  | zero => simp [sumUpTo]
  | succ m ih => rw [sumUpTo, ih, sum_range_succ]

theorem rowScale_eq (n : ℕ) (A : M K) (k : ℕ) :
    rowScale n A k = ∑ l ∈ Ico (k+1) n, A.get k l := by
  unfold rowScale
  rw [sumUpTo_eq, sum_Ico_eq_sum_range]

/-- all off-diagonal entries (inside the `n × n` frame) are non-negative: a Metzler matrix -/
def OffNonneg (n : ℕ) (A : M K) : Prop := ∀ i j, i < n → j < n → i ≠ j → 0 ≤ A.get i j

theorem redStep_get (n : ℕ) (A : M K) (k : ℕ) (s : K) (i j : ℕ) (hi : i < n) (hj : j < n) :
    (redStep n A k s).get i j =
      if k < i then
        if j = k then A.get i k / s
        else if k < j then A.get i j + (A.get i k / s) * A.get k j
        else A.get i j
      else A.get i j := by
  unfold redStep
  rw [M.get_tab _ _ _ _ _ hi hj]

theorem redStep_offNonneg (n : ℕ) (A : M K) (k : ℕ) (s : K) (hs : 0 < s) (hA : OffNonneg n A) :
    OffNonneg n (redStep n A k s) := by
  intro i j hi hj hij
  rw [redStep_get n A k s i j hi hj]
  by_cases hki : k < i
  · rw [if_pos hki]
    by_cases hjk : j = k
    · rw [if_pos hjk]
      exact div_nonneg (hA i k hi (by omega) (by omega)) hs.le
    · rw [if_neg hjk]
      by_cases hkj : k < j
      · rw [if_pos hkj]
        have h1 := hA i j hi hj hij
        have h2 := hA i k hi (by omega) (by omega)
        have h3 := hA k j (by omega) hj (by omega)
        have : 0 ≤ A.get i k / s * A.get k j := mul_nonneg (div_nonneg h2 hs.le) h3
        linarith
      · rw [if_neg hkj]; exact hA i j hi hj hij
  · rw [if_neg hki]; exact hA i j hi hj hij

theorem Qm_congr (A B : ℕ → ℕ → K) (k n : ℕ)
    (h : ∀ i ∈ Ico k n, ∀ j ∈ Ico k n, A i j = B i j) :
    ∀ i ∈ Ico k n, ∀ j ∈ Ico k n, Qm A k n i j = Qm B k n i j := by
  intro i hi j hj
  unfold Qm offSum
  by_cases hij : i = j
  · rw [if_pos hij, if_pos hij]
    congr 1
    apply sum_congr rfl
    intro l hl
    exact h i hi l (mem_of_mem_erase hl)
  · rw [if_neg hij, if_neg hij]; exact h i hi j hj

/-- the unit vector at `k` is a left null vector of the active generator when row `k` has no
    active off-diagonal mass (base case `k = n-1`, and the `scale <= 0` break). -/
theorem unit_null (n : ℕ) (A : M K) (k : ℕ) (hk : k < n) (hA : OffNonneg n A)
    (hs : ∑ l ∈ Ico (k+1) n, A.get k l ≤ 0) :
    ∀ j ∈ Ico k n, ∑ i ∈ Ico k n, ([1] : List K).getD (i - k) 0 * Qm (fun a b => A.get a b) k n i j = 0 := by
  intro j hj
  have hnn : ∀ l ∈ Ico (k+1) n, 0 ≤ A.get k l := by
    intro l hl; simp only [mem_Ico] at hl
    exact hA k l hk hl.2 (by omega)
  have hzero : ∑ l ∈ Ico (k+1) n, A.get k l = 0 := le_antisymm hs (sum_nonneg hnn)
  have heach : ∀ l ∈ Ico (k+1) n, A.get k l = 0 := (sum_eq_zero_iff_of_nonneg hnn).1 hzero
  rw [sum_eq_single k]
  · simp only [Nat.sub_self, List.getD_cons_zero, one_mul]
    by_cases hjk : k = j
    · subst hjk
      unfold Qm offSum
      rw [if_pos rfl]
      have : (Ico k n).erase k = Ico (k+1) n := by
        ext x; simp only [mem_erase, mem_Ico]; omega
      rw [this, hzero, neg_zero]
    · unfold Qm
      rw [if_neg hjk]
      apply heach
      simp only [mem_Ico] at hj ⊢; omega
  · intro i hi hik
    simp only [mem_Ico] at hi
    have : i - k = (i - k - 1) + 1 := by omega
    rw [this]; simp
  · intro h; exact absurd (mem_Ico.2 ⟨le_refl k, hk⟩) h

/-- **Main induction.** On a Metzler matrix, the list produced for the active block `[k,n)` is a
    non-negative left null vector of the active generator `Qm A k n`, not longer than the block,
    containing an entry equal to 1. -/
theorem gthRec_null (n : ℕ) : ∀ (fuel k : ℕ) (A : M K), k + fuel + 1 = n → OffNonneg n A →
    (∀ j ∈ Ico k n, ∑ i ∈ Ico k n,
        (gthRec n fuel k A).getD (i - k) 0 * Qm (fun a b => A.get a b) k n i j = 0)
    ∧ (∀ t, 0 ≤ (gthRec n fuel k A).getD t 0)
    ∧ (gthRec n fuel k A).length ≤ n - k
    ∧ (∃ t, t < (gthRec n fuel k A).length ∧ (gthRec n fuel k A).getD t 0 = 1) := by
  intro fuel
  induction fuel with
  | zero =>
    intro k A hk hA
    have hkn : k < n := by omega
    simp only [gthRec]
    refine ⟨?_, ?_, ?_, ⟨0, by simp, by simp⟩⟩
    · apply unit_null n A k hkn hA
      have : Ico (k+1) n = ∅ := by ext x; simp only [mem_Ico]; simp; omega
      rw [this]; simp
    · intro t; cases t <;> simp
    · simp; omega
  | succ fuel ih =>
    intro k A hk hA
    have hkn : k < n := by omega
    rw [gthRec]
    simp only
    by_cases hs : rowScale n A k ≤ 0
    · rw [if_pos hs]
      refine ⟨?_, ?_, ?_, ⟨0, by simp, by simp⟩⟩
      · apply unit_null n A k hkn hA
        rw [← rowScale_eq]; exact hs
      · intro t; cases t <;> simp
      · simp; omega
    · rw [if_neg hs]
      have hspos : 0 < rowScale n A k := not_le.1 hs
      set s := rowScale n A k with hsdef
      set A' := redStep n A k s with hA'
      have hA'nn : OffNonneg n A' := redStep_offNonneg n A k s hspos hA
      obtain ⟨h1, h2, h3, ⟨t0, ht0, ht01⟩⟩ := ih (k+1) A' (by omega) hA'nn
      set xs := gthRec n fuel (k+1) A' with hxs
      -- entries of A' in terms of A
      have hcol : ∀ i, k < i → i < n → A'.get i k = A.get i k / s := by
        intro i hki hin
        rw [hA', redStep_get n A k s i k hin hkn, if_pos hki, if_pos rfl]
      have hblk : ∀ i ∈ Ico (k+1) n, ∀ j ∈ Ico (k+1) n,
          (fun a b => A'.get a b) i j = gstep (fun a b => A.get a b) k s i j := by
        intro i hi j hj
        simp only [mem_Ico] at hi hj
        show A'.get i j = _
        rw [hA', redStep_get n A k s i j hi.2 hj.2, if_pos (by omega), if_neg (by omega), if_pos (by omega)]
        rfl
      have hy : ∀ j ∈ Ico (k+1) n, ∑ i ∈ Ico (k+1) n,
          (fun i => xs.getD (i - (k+1)) 0) i * Qm (gstep (fun a b => A.get a b) k s) (k+1) n i j = 0 := by
        intro j hj
        refine Eq.trans ?_ (h1 j hj)
        apply sum_congr rfl
        intro i hi
        rw [Qm_congr _ _ (k+1) n hblk i hi j hj]
      have hyk : dotCol A' k xs = (∑ i ∈ Ico (k+1) n, (fun i => xs.getD (i - (k+1)) 0) i * A.get i k) / s := by
        unfold dotCol
        rw [sumUpTo_eq, sum_Ico_eq_sum_range, sum_div]
        have hsub : range xs.length ⊆ range (n - (k+1)) := range_subset_range.2 h3
        rw [← sum_subset hsub]
        · apply sum_congr rfl
          intro t ht
          have htl : t < xs.length := mem_range.1 ht
          rw [hcol (k+1+t) (by omega) (by omega)]
          have : k + 1 + t - (k+1) = t := by omega
          simp only [this]
          ring
        · intro t _ htn
          have : xs.length ≤ t := by simpa using htn
          have : k + 1 + t - (k+1) = t := by omega
          simp only [this]
          have hnone : xs[t]? = none := List.getElem?_eq_none (by assumption)
          simp [List.getD_eq_getElem?_getD, hnone]
      have hlift := gth_step_lift (fun a b => A.get a b) k n s (ne_of_gt hspos)
        (by rw [hsdef, rowScale_eq]) (fun i => xs.getD (i - (k+1)) 0) hy hkn (dotCol A' k xs) hyk
      refine ⟨?_, ?_, ?_, ⟨t0 + 1, by simp; omega, by simpa using ht01⟩⟩
      · intro j hj
        refine Eq.trans ?_ (hlift j hj)
        apply sum_congr rfl
        intro i hi
        simp only [mem_Ico] at hi
        by_cases hik : i = k
        · subst hik; simp
        · have : i - k = (i - (k+1)) + 1 := by omega
          rw [this]; simp [hik]
      · intro t
        cases t with
        | zero =>
          simp only [List.getD_cons_zero]
          rw [hyk]
          apply div_nonneg _ hspos.le
          apply sum_nonneg
          intro i hi
          simp only [mem_Ico] at hi
          exact mul_nonneg (h2 _) (hA i k hi.2 hkn (by omega))
        | succ t => simpa using h2 t
      · simp; omega

end bridge

end QE.C02
