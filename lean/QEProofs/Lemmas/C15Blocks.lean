/-
  Lemmas for C15, part 5: shapes — the payoff vector of player `i` has one entry per action,
  and the blocks of a flattened profile built from per-player vectors are those vectors.
-/
import Mathlib.Algebra.Order.Field.Basic
import Mathlib.Tactic.Linarith
import Mathlib.Tactic.Ring
import QEModel.C15
import QEProofs.Lemmas.C15Convex
namespace QE.C15

set_option linter.unusedSectionVars false
variable {K : Type} [Field K] [LinearOrder K] [IsStrictOrderedRing K]

/-! ### lengths -/

theorem reduceLast_length (arr : List K) (k : Nat) (act : List K) :
    (reduceLast arr k act).length = arr.length / k := by
  unfold reduceLast; simp

theorem foldl_reduceLast_length (L : List (Nat × List K)) :
    ∀ pay : List K, (L.foldl (fun arr p => reduceLast arr p.1 p.2) pay).length
      = L.foldl (fun len p => len / p.1) pay.length := by
  induction L with
  | nil => intro pay; rfl
  | cons p L ih => intro pay; rw [List.foldl_cons, List.foldl_cons, ih, reduceLast_length]

theorem foldl_div_reverse {β : Type} (zs : List (Nat × β)) (hpos : ∀ z ∈ zs, 0 < z.1) :
    ∀ n : Nat, zs.reverse.foldl (fun len p => len / p.1) (n * (zs.map (·.1)).prod) = n := by
  induction zs with
  | nil => intro n; simp
  | cons z zs ih =>
    intro n
    rw [List.reverse_cons, List.foldl_append, List.map_cons, List.prod_cons]
    have : n * (z.1 * (zs.map (·.1)).prod) = (n * z.1) * (zs.map (·.1)).prod := by ring
    rw [this, ih (fun w hw => hpos w (List.mem_cons_of_mem _ hw)) (n * z.1)]
    simp only [List.foldl_cons, List.foldl_nil]
    exact Nat.mul_div_cancel _ (hpos z (by simp))

/-- **shape of the payoff vector**: for a well-shaped game (`pay` has `Π nums` entries, every
    player has at least one action) and a profile with one entry per player, player `i`'s payoff
    vector has exactly `nums[i]` entries -/
theorem payoffVector_length (nums : List Nat) (hpos : ∀ k ∈ nums, 0 < k) (pay : List K)
    (i : Nat) (hi : i < nums.length) (hpay : pay.length = (rot nums i).prod)
    (prof : List (List K)) (hprof : prof.length = nums.length) :
    (payoffVector nums pay i prof).length = nums.getD i 0 := by
  unfold payoffVector
  rw [foldl_reduceLast_length]
  have hrot : rot nums i = nums[i] :: (rot nums i).tail := by
    have hd : nums.drop i = nums[i] :: nums.drop (i + 1) := List.drop_eq_getElem_cons hi
    have hr : rot nums i = nums[i] :: (nums.drop (i + 1) ++ nums.take i) := by
      unfold rot; rw [hd]; rfl
    rw [hr]; rfl
  have hlen : (rot nums i).tail.length ≤ (rot prof i).tail.length := by
    unfold rot; simp; omega
  have hmap : ((rot nums i).tail.zip (rot prof i).tail).map (·.1) = (rot nums i).tail := by
    rw [List.map_fst_zip]; exact hlen
  have hz : ∀ z ∈ (rot nums i).tail.zip (rot prof i).tail, 0 < z.1 := by
    intro z hz
    have h1 : z.1 ∈ (rot nums i).tail := (List.of_mem_zip hz).1
    have h2 : z.1 ∈ rot nums i := List.mem_of_mem_tail h1
    unfold rot at h2
    rcases List.mem_append.mp h2 with h | h
    · exact hpos _ (List.mem_of_mem_drop h)
    · exact hpos _ (List.mem_of_mem_take h)
  have hp : pay.length = nums[i] * (((rot nums i).tail.zip (rot prof i).tail).map (·.1)).prod := by
    rw [hmap, hpay]
    conv_lhs => rw [hrot]
    rw [List.prod_cons]
  rw [hp, foldl_div_reverse _ hz]
  simp [List.getD_eq_getElem?_getD, List.getElem?_eq_getElem hi]

/-! ### blocks of a flattened profile -/

theorem flatten_getD_block (ls : List (List K)) :
    ∀ (i : Nat) (hi : i < ls.length) (t : Nat), t < ls[i].length →
      ls.flatten.getD (((ls.take i).map List.length).sum + t) 0 = ls[i].getD t 0 := by
  induction ls with
  | nil => intro i hi; simp at hi
  | cons l ls ih =>
    intro i hi t ht
    cases i with
    | zero =>
      simp only [List.take_zero, List.map_nil, List.sum_nil, Nat.zero_add, List.flatten_cons,
        List.getElem_cons_zero] at ht ⊢
      rw [List.getD_eq_getElem?_getD, List.getD_eq_getElem?_getD, List.getElem?_append_left ht]
    | succ i =>
      simp only [List.take_succ_cons, List.map_cons, List.sum_cons, List.flatten_cons,
        List.getElem_cons_succ] at ht ⊢
      have hi' : i < ls.length := by simpa using hi
      have := ih i hi' t ht
      rw [List.getD_eq_getElem?_getD] at this ⊢
      rw [List.getElem?_append_right (by omega)]
      have e : l.length + ((ls.take i).map List.length).sum + t - l.length
          = ((ls.take i).map List.length).sum + t := by omega
      rw [e]; exact this

theorem fsum_append (l1 l2 : List K) : fsum (l1 ++ l2) = fsum l1 + fsum l2 := by
  unfold fsum
  rw [List.foldl_append, foldl_add_init]; rfl

theorem fsum_indicator (n a : Nat) :
    fsum ((List.range n).map fun t => if t = a then (1 : K) else 0) = if a < n then 1 else 0 := by
  induction n with
  | zero => simp [fsum_nil]
  | succ n ih =>
    rw [List.range_succ, List.map_append, fsum_append, ih]
    simp only [List.map_cons, List.map_nil, fsum_cons, fsum_nil]
    by_cases h1 : a < n
    · have : n ≠ a := by omega
      simp [h1, this]; omega
    · by_cases h2 : n = a
      · subst h2; simp
      · have : ¬ a < n + 1 := by omega
        simp [h1, h2, this]

theorem indptr_eq_sum (nums : List Nat) (i : Nat) : indptr nums i = (nums.take i).sum := by
  unfold indptr; rw [List.sum_eq_foldl]

theorem indptr_block_le (nums : List Nat) (i : Nat) (hi : i < nums.length) :
    indptr nums i + nums.getD i 0 ≤ nums.sum := by
  rw [indptr_eq_sum]
  have h : (nums.take (i + 1)).sum + (nums.drop (i + 1)).sum = nums.sum := by
    rw [← List.sum_append, List.take_append_drop]
  have h2 : nums.take (i + 1) = nums.take i ++ [nums[i]] := by
    rw [List.take_succ_eq_append_getElem hi]
  rw [h2, List.sum_append] at h
  simp only [List.sum_cons, List.sum_nil, Nat.add_zero] at h
  rw [List.getD_eq_getElem?_getD, List.getElem?_eq_getElem hi, Option.getD_some]
  omega

end QE.C15
