/-
  Lemmas for C13, part 7: the row total of `estimate_mc` is the number of times the state is
  left: `Σ_{b ∈ S} N(a, b) = #{t : t+1 < T, X[t] = a}`.
-/
import QEProofs.Lemmas.C13Est
import Mathlib.Algebra.BigOperators.Group.List.Basic
namespace QE.C13
open QE

section
variable {β : Type} [DecidableEq β]

/-- number of times `a` is left in the series: positions `t` with `t + 1 < T` and `X[t] = a` -/
def outCount (X : List β) (a : β) : ℕ := (X.zip X.tail).countP (fun p => p.1 = a)

theorem sum_indicator_pair (S : List β) (hS : S.Nodup) (a : β) (pr : β × β) :
    (S.map (fun b => if pr = (a, b) then 1 else 0)).sum = if pr.1 = a ∧ pr.2 ∈ S then 1 else 0 := by
  induction S with
  | nil => simp
  | cons c t ih =>
    rw [List.nodup_cons] at hS
    simp only [List.map_cons, List.sum_cons, ih hS.2, List.mem_cons]
    obtain ⟨u, v⟩ := pr
    simp only [Prod.mk.injEq]
    by_cases h1 : u = a
    · by_cases h2 : v = c
      · subst h2
        simp [h1, hS.1]
      · simp [h1, h2]
    · simp [h1]

theorem sum_countP_pairs (S : List β) (hS : S.Nodup) (a : β) (L : List (β × β))
    (hL : ∀ pr ∈ L, pr.2 ∈ S) :
    (S.map (fun b => L.countP (fun p => p = (a, b)))).sum = L.countP (fun p => p.1 = a) := by
  induction L with
  | nil => simp
  | cons pr L ih =>
    have ih' := ih (fun q hq => hL q (List.mem_cons_of_mem _ hq))
    have hpr : pr.2 ∈ S := hL pr (List.mem_cons_self)
    have e : (fun b => (pr :: L).countP (fun p => p = (a, b)))
        = fun b => L.countP (fun p => p = (a, b)) + (if pr = (a, b) then 1 else 0) := by
      funext b
      rw [List.countP_cons]
      simp
    rw [e, List.sum_map_add, ih', sum_indicator_pair S hS a pr, List.countP_cons]
    simp [hpr]

end

section
variable {β : Type} [DecidableEq β]

omit [DecidableEq β] in
theorem map_fst_zip_tail (X : List β) : (X.zip X.tail).map Prod.fst = X.dropLast := by
  induction X with
  | nil => rfl
  | cons a t ih =>
    cases t with
    | nil => rfl
    | cons b t' =>
      simp only [List.tail_cons, List.zip_cons_cons, List.map_cons, List.dropLast_cons_cons] at ih ⊢
      rw [ih]

/-- `outCount X a` is the number of occurrences of `a` among all observations but the last -/
theorem outCount_eq_count_dropLast (X : List β) (a : β) : outCount X a = X.dropLast.count a := by
  unfold outCount
  rw [← map_fst_zip_tail, List.count_eq_countP, List.countP_map]
  apply List.countP_congr
  intro pr _
  simp only [Function.comp, decide_eq_true_eq, beq_iff_eq]

end

section
variable {β : Type} [LinearOrder β]

/-- **Row total = number of times the state is left.** -/
theorem sum_transCount_eq_outCount (X : List β) (a : β) :
    ((uniqueSorted X).map (transCount X a)).sum = outCount X a := by
  have hnd : (uniqueSorted X).Nodup := (uniqueSorted_pairwise X).imp (fun h => ne_of_lt h)
  unfold transCount outCount
  exact sum_countP_pairs (uniqueSorted X) hnd a (X.zip X.tail)
    (fun pr hpr => (mem_uniqueSorted X pr.2).mpr (List.mem_of_mem_tail (List.of_mem_zip hpr).2))

end
section
variable {β γ : Type} [DecidableEq β] [DecidableEq γ]

/-- relabelling the observations by a map that is injective on the values involved does not
    change the transition counts -/
theorem transCount_map (L : List β) (f : β → γ) (a b : β)
    (hinj : ∀ u v, u ∈ a :: b :: L → v ∈ a :: b :: L → f u = f v → u = v) :
    transCount (L.map f) (f a) (f b) = transCount L a b := by
  unfold transCount
  rw [← List.map_tail, List.zip_map, List.countP_map]
  apply List.countP_congr
  intro pr hpr
  obtain ⟨u, v⟩ := pr
  have huv := List.of_mem_zip hpr
  have hu : u ∈ a :: b :: L := by simp [huv.1]
  have hv : v ∈ a :: b :: L := by simp [List.mem_of_mem_tail huv.2]
  simp only [Function.comp, Prod.map_apply, Prod.mk.injEq, decide_eq_true_eq]
  constructor
  · rintro ⟨h1, h2⟩
    exact ⟨hinj u a hu (by simp) h1, hinj v b hv (by simp) h2⟩
  · rintro ⟨rfl, rfl⟩; exact ⟨rfl, rfl⟩

theorem outCount_map (L : List β) (f : β → γ) (a : β)
    (hinj : ∀ u v, u ∈ a :: L → v ∈ a :: L → f u = f v → u = v) :
    outCount (L.map f) (f a) = outCount L a := by
  unfold outCount
  rw [← List.map_tail, List.zip_map, List.countP_map]
  apply List.countP_congr
  intro pr hpr
  obtain ⟨u, v⟩ := pr
  have huv := List.of_mem_zip hpr
  have hu : u ∈ a :: L := by simp [huv.1]
  simp only [Function.comp, Prod.map_apply, decide_eq_true_eq]
  constructor
  · intro h1; exact hinj u a hu (by simp) h1
  · rintro rfl; rfl

end

end QE.C13
