/-
  Lemmas for C14, part 5: Fortran-order ravel / reshape and blocks of a flat token list (GAM).
-/
import QEProofs.Lemmas.C14Round
import QEProofs.Lemmas.C14Expect
namespace QE.C14

theorem prod_append : ∀ (a b : List Nat), prod (a ++ b) = prod a * prod b
  | [], b => by simp [prod]
  | n :: a, b => by simp [prod, prod_append a b, Nat.mul_assoc]

theorem prod_reverse : ∀ (s : List Nat), prod s.reverse = prod s
  | [] => rfl
  | n :: s => by simp [prod_append, prod, prod_reverse s, Nat.mul_comm]

theorem prod_rotL (i : Nat) (s : List Nat) : prod (rotL i s) = prod s := by
  unfold rotL
  rw [prod_append, Nat.mul_comm, ← prod_append, List.take_append_drop]

theorem inBounds_reverse : ∀ (s idx : List Nat), inBounds s idx = true →
    inBounds s.reverse idx.reverse = true
  | [], [], _ => rfl
  | [], _ :: _, h => by simp [inBounds] at h
  | _ :: _, [], h => by simp [inBounds] at h
  | n :: s, a :: r, h => by
    simp only [inBounds, Bool.and_eq_true, decide_eq_true_eq] at h
    simp only [List.reverse_cons]
    exact inBounds_append _ _ _ _ (inBounds_reverse s r h.2) (by simp [inBounds, h.1])

variable {α : Type} [Zero α]

theorem length_ravelF (T : Arr α) : T.ravelF.length = prod T.shape := by
  simp [Arr.ravelF, length_allIdx, prod_reverse]

/-- writing an array in Fortran order and reshaping the numbers in Fortran order gives the
    array back (as a function of the index) -/
theorem reshapeF_ravelF (T : Arr α) :
    Arr.reshapeF T.ravelF T.shape = Arr.tab T.shape T.get := by
  unfold Arr.reshapeF
  apply tab_congr
  intro idx hb
  have h := allIdx_flatIndex _ _ (inBounds_reverse _ _ hb)
  simp only [Arr.ravelF, List.getD_eq_getElem?_getD, List.getElem?_map, h, Option.map_some,
    Option.getD_some, List.reverse_reverse]

theorem length_flatten_const {β : Type} (na : Nat) : ∀ (L : List (List β)),
    (∀ l ∈ L, l.length = na) → L.flatten.length = L.length * na
  | [], _ => by simp
  | l :: L, h => by
    simp only [List.flatten_cons, List.length_append, List.length_cons]
    rw [length_flatten_const na L (fun x hx => h x (List.mem_cons_of_mem _ hx)),
      h l List.mem_cons_self]
    rw [Nat.succ_mul, Nat.add_comm]

/-- block `i` of the concatenation of equally long blocks -/
theorem flatten_block {β : Type} (na : Nat) : ∀ (L : List (List β)) (i : Nat),
    (∀ l ∈ L, l.length = na) → i < L.length →
    L[i]? = some ((L.flatten.drop (i * na)).take na)
  | [], i, _, hi => by simp at hi
  | l :: L, 0, h, _ => by
    simp only [List.flatten_cons, Nat.zero_mul, List.drop_zero, List.getElem?_cons_zero]
    rw [List.take_left' (h l List.mem_cons_self)]
  | l :: L, i + 1, h, hi => by
    simp only [List.flatten_cons, List.getElem?_cons_succ]
    have hl := h l List.mem_cons_self
    have e : (i + 1) * na = l.length + i * na := by rw [Nat.succ_mul, hl, Nat.add_comm]
    rw [e, List.drop_append, List.drop_eq_nil_of_le (by omega), List.nil_append, Nat.add_sub_cancel_left]
    exact flatten_block na L i (fun x hx => h x (List.mem_cons_of_mem _ hx)) (by simpa using hi)

end QE.C14
