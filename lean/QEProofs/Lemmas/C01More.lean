/-
  Lemmas for C01, part 7: the tie-breaking rule of the scan (first maximiser), antisymmetry of
  the entrywise order, default start vectors.
-/
import QEProofs.Lemmas.C01Mpi

set_option linter.unusedSectionVars false

namespace QE.C01
open List

variable {K : Type} [Field K] [LinearOrder K] [IsStrictOrderedRing K]

section scan
variable {γ : Type}

/-- **first maximiser.** The scan returns the first element attaining the maximum: everything
    before it is strictly smaller, everything after it is not larger. -/
theorem scanMax_first (f : γ → K) : ∀ (xs : List γ) (m : γ),
    ∃ l₁ l₂, m :: xs = l₁ ++ scanMax f m xs :: l₂ ∧
      (∀ y ∈ l₁, f y < f (scanMax f m xs)) ∧ (∀ y ∈ l₂, f y ≤ f (scanMax f m xs)) := by
  intro xs
  induction xs with
  | nil => intro m; exact ⟨[], [], rfl, by simp, by simp⟩
  | cons x xs ih =>
    intro m
    simp only [scanMax]
    by_cases hlt : f m < f x
    · rw [if_pos hlt]
      obtain ⟨l₁, l₂, he, h1, h2⟩ := ih x
      refine ⟨m :: l₁, l₂, by rw [he]; rfl, ?_, h2⟩
      intro y hy
      rcases mem_cons.mp hy with rfl | hy
      · exact lt_of_lt_of_le hlt (scanMax_ge f xs x x (by simp))
      · exact h1 y hy
    · rw [if_neg hlt]
      obtain ⟨l₁, l₂, he, h1, h2⟩ := ih m
      cases l₁ with
      | nil =>
        simp only [nil_append, cons.injEq] at he
        refine ⟨[], x :: l₂, ?_, by simp, ?_⟩
        · simp only [nil_append, cons.injEq]
          exact ⟨he.1, trivial, he.2⟩
        · intro y hy
          rcases mem_cons.mp hy with rfl | hy
          · rw [← he.1]; exact not_lt.mp hlt
          · exact h2 y hy
      | cons z l₁' =>
        simp only [cons_append, cons.injEq] at he
        refine ⟨m :: x :: l₁', l₂, ?_, ?_, h2⟩
        · simp only [cons_append, cons.injEq, true_and]
          exact he.2
        · intro y hy
          have hm : f m < f (scanMax f m xs) := h1 z (by simp) |> fun h => by rw [← he.1] at h; exact h
          rcases mem_cons.mp hy with rfl | hy
          · exact hm
          · rcases mem_cons.mp hy with rfl | hy
            · exact lt_of_le_of_lt (not_lt.mp hlt) hm
            · exact h1 y (by simp [hy])

end scan

theorem leAdd_antisymm : ∀ {a b : List K}, LeAdd 0 a b → LeAdd 0 b a → a = b := by
  intro a b h1 h2
  unfold LeAdd at *
  induction h1 with
  | nil => rfl
  | @cons x y l₁ l₂ hab _ ih =>
    cases h2 with
    | cons hba h2' =>
      have hxy : x = y := le_antisymm (by linarith [hab]) (by linarith [hba])
      rw [hxy, ih h2']

@[simp] theorem rmax_length (P : Prob K) : (rmax P).length = P.length := by simp [rmax]
@[simp] theorem mpiInit_length (P : Prob K) (β : K) : (mpiInit P β).length = P.length := by
  simp [mpiInit]

end QE.C01
