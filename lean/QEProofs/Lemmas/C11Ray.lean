/-
  The secondary ray at a status-2 exit of `lemkeLoop` (`QEModel.C11`): direction,
  homogeneous equation, non-negativity, complementarity along the half-line.
-/
import QEProofs.Lemmas.C11Lex

namespace QE.C11
open QE QE.Pivot Finset
set_option linter.unusedVariables false
set_option linter.unusedSectionVars false

variable {K : Type} [Field K] [LinearOrder K] [IsStrictOrderedRing K]

/-- direction obtained by increasing the non-basic variable `c`: `+1` on `c`, `−T[i,c]` on the
    basic variable of row `i`, `0` elsewhere -/
def rayDir (n : ℕ) (T : M K) (basis : ℕ → ℕ) (c v : ℕ) : K :=
  (if v = c then 1 else 0) + ∑ i ∈ range n, if basis i = v then - T.get i c else 0

theorem rayDir_hom {n : ℕ} {T0 T : M K} {basis : ℕ → ℕ} {c : ℕ} (h : Inv1 n T0 T basis)
    (he : Enter n basis c) (k : ℕ) (hk : k < n) :
    ∑ j ∈ range (2 * n + 1), T.get k j * rayDir n T basis c j = 0 := by
  unfold rayDir
  simp only [mul_add, Finset.sum_add_distrib]
  have e1 : ∑ j ∈ range (2 * n + 1), T.get k j * (if j = c then (1 : K) else 0) = T.get k c := by
    simp only [mul_ite, mul_one, mul_zero]
    rw [Finset.sum_ite_eq', if_pos (mem_range.mpr (by have := he.le; omega))]
  have e2 : ∑ j ∈ range (2 * n + 1),
      T.get k j * ∑ i ∈ range n, (if basis i = j then - T.get i c else 0) = - T.get k c := by
    simp only [Finset.mul_sum, mul_ite, mul_zero]
    rw [Finset.sum_comm]
    have key : ∀ i ∈ range n,
        ∑ j ∈ range (2 * n + 1), (if basis i = j then T.get k j * - T.get i c else 0)
          = if k = i then - T.get i c else 0 := by
      intro i hi
      have hi' := mem_range.mp hi
      rw [Finset.sum_ite_eq, if_pos (mem_range.mpr (by have := h.le i hi'; omega)),
        h.unit i k hi' hk]
      split <;> simp
    rw [Finset.sum_congr rfl key, Finset.sum_ite_eq, if_pos (mem_range.mpr hk)]
  rw [e1, e2]; ring

theorem rayDir_nonneg {n : ℕ} {T : M K} {basis : ℕ → ℕ} {c : ℕ}
    (hcol : ∀ k, k < n → T.get k c ≤ 0) (v : ℕ) : 0 ≤ rayDir n T basis c v := by
  unfold rayDir
  apply add_nonneg
  · split <;> simp
  · apply Finset.sum_nonneg
    intro i hi
    split
    · have := hcol i (mem_range.mp hi); linarith
    · exact le_refl _

theorem rayDir_self {n : ℕ} {T : M K} {basis : ℕ → ℕ} {c : ℕ} (he : Enter n basis c) :
    rayDir n T basis c c = 1 := by
  unfold rayDir
  rw [if_pos rfl]
  have : ∑ i ∈ range n, (if basis i = c then - T.get i c else 0) = 0 := by
    apply Finset.sum_eq_zero
    intro i hi
    rw [if_neg (he.notin i (mem_range.mp hi))]
  rw [this, add_zero]

theorem rayDir_eq_zero {n : ℕ} {T : M K} {basis : ℕ → ℕ} {c : ℕ} (v : ℕ) (hvc : v ≠ c)
    (hv : ∀ i, i < n → basis i ≠ v) : rayDir n T basis c v = 0 := by
  unfold rayDir
  rw [if_neg hvc, zero_add]
  apply Finset.sum_eq_zero
  intro i hi
  rw [if_neg (hv i (mem_range.mp hi))]

/-- every point of the half-line satisfies the rows of the tableau -/
theorem ray_rowSat {n : ℕ} {T0 T : M K} {basis : ℕ → ℕ} {c : ℕ} (h : Inv1 n T0 T basis)
    (he : Enter n basis c) (t : K) (k : ℕ) (hk : k < n) :
    RowSat T (fun v => basicSol n T basis v + t * rayDir n T basis c v) k := by
  have hb := basicSol_rowSat h k hk
  unfold RowSat at hb ⊢
  have hnc1 : T.nc - 1 = 2 * n + 1 := by rw [h.nc]; rfl
  rw [hnc1] at hb ⊢
  have : ∀ j ∈ range (2 * n + 1),
      T.get k j * (basicSol n T basis j + t * rayDir n T basis c j)
      = T.get k j * basicSol n T basis j + t * (T.get k j * rayDir n T basis c j) := by
    intro j _; ring
  rw [Finset.sum_congr rfl this, Finset.sum_add_distrib, ← Finset.mul_sum, hb,
    rayDir_hom h he k hk]
  ring

/-- complementarity along the half-line: `basis ∪ {c}` contains no complementary pair -/
theorem ray_compl {n : ℕ} {T0 T : M K} {basis : ℕ → ℕ} {c : ℕ} (hn : 0 < n)
    (h : Inv1 n T0 T basis) (he : Enter n basis c) (hc : c < 2 * n) (t : K) (i : ℕ) (hi : i < n) :
    (basicSol n T basis i + t * rayDir n T basis c i) *
      (basicSol n T basis (n + i) + t * rayDir n T basis c (n + i)) = 0 := by
  have zero_of : ∀ v, v ≠ c → (∀ a, a < n → basis a ≠ v) →
      basicSol n T basis v + t * rayDir n T basis c v = 0 := by
    intro v hvc hv
    rw [basicSol_eq_zero v hv, rayDir_eq_zero v hvc hv]; ring
  by_cases h1 : i ≠ c ∧ ∀ a, a < n → basis a ≠ i
  · rw [zero_of i h1.1 h1.2, zero_mul]
  · have h2 : n + i ≠ c ∧ ∀ a, a < n → basis a ≠ n + i := by
      by_cases hic : i = c
      · refine ⟨by omega, ?_⟩
        intro a ha e
        have := he.cnotin hc a ha
        unfold complement at this
        rw [if_pos (by omega)] at this
        omega
      · have hex : ∃ a, a < n ∧ basis a = i := by
          by_contra hne
          apply h1
          refine ⟨hic, ?_⟩
          intro a ha e
          exact hne ⟨a, ha, e⟩
        obtain ⟨a, ha, hai⟩ := hex
        constructor
        · intro e
          have := he.cnotin hc a ha
          unfold complement at this
          rw [if_neg (by omega)] at this
          omega
        · intro b hb e
          have := h.nopair b a hb ha (by omega)
          rw [hai] at this
          unfold complement at this
          rw [if_pos hi] at this
          omega
    rw [zero_of (n + i) h2.1 h2.2, mul_zero]

/-- support of the half-line: for each `i` one of `w_i`, `z_i` is neither basic nor entering -/
theorem ray_support {n : ℕ} {T0 T : M K} {basis : ℕ → ℕ} {c : ℕ} (hn : 0 < n)
    (h : Inv1 n T0 T basis) (he : Enter n basis c) (hc : c < 2 * n) (i : ℕ) (hi : i < n) :
    (i ≠ c ∧ ∀ a, a < n → basis a ≠ i) ∨ (n + i ≠ c ∧ ∀ a, a < n → basis a ≠ n + i) := by
  by_cases h1 : i ≠ c ∧ ∀ a, a < n → basis a ≠ i
  · exact Or.inl h1
  · right
    by_cases hic : i = c
    · refine ⟨by omega, ?_⟩
      intro a ha e
      have := he.cnotin hc a ha
      unfold complement at this
      rw [if_pos (by omega)] at this
      omega
    · have hex : ∃ a, a < n ∧ basis a = i := by
        by_contra hne
        apply h1
        refine ⟨hic, ?_⟩
        intro a ha e
        exact hne ⟨a, ha, e⟩
      obtain ⟨a, ha, hai⟩ := hex
      constructor
      · intro e
        have := he.cnotin hc a ha
        unfold complement at this
        rw [if_neg (by omega)] at this
        omega
      · intro b hb e
        have := h.nopair b a hb ha (by omega)
        rw [hai] at this
        unfold complement at this
        rw [if_pos hi] at this
        omega

theorem rayDir_compl {n : ℕ} {T0 T : M K} {basis : ℕ → ℕ} {c : ℕ} (hn : 0 < n)
    (h : Inv1 n T0 T basis) (he : Enter n basis c) (hc : c < 2 * n) (i : ℕ) (hi : i < n) :
    rayDir n T basis c (n + i) * rayDir n T basis c i = 0 := by
  rcases ray_support hn h he hc i hi with h1 | h1
  · rw [rayDir_eq_zero i h1.1 h1.2, mul_zero]
  · rw [rayDir_eq_zero (n + i) h1.1 h1.2, zero_mul]

/-- the direction solves the homogeneous system `w = Mz + d z₀` -/
theorem rayDir_initHom {n : ℕ} {T : M K} {basis : ℕ → ℕ} {c : ℕ} (Mm : ℕ → ℕ → K) (q d : ℕ → K)
    (h : Inv1 n (initTableau n Mm q d) T basis) (he : Enter n basis c) (k : ℕ) (hk : k < n) :
    rayDir n T basis c k
      = ∑ j ∈ range n, Mm k j * rayDir n T basis c (n + j) + d k * rayDir n T basis c (2 * n) := by
  have r0 : RowsSat T (fun v => basicSol n T basis v + 0 * rayDir n T basis c v) n :=
    fun k hk => ray_rowSat h he 0 k hk
  have r1 : RowsSat T (fun v => basicSol n T basis v + 1 * rayDir n T basis c v) n :=
    fun k hk => ray_rowSat h he 1 k hk
  have e0 := (init_rowSat n Mm q d _ k hk).mp ((h.equiv _).mp r0 k hk)
  have e1 := (init_rowSat n Mm q d _ k hk).mp ((h.equiv _).mp r1 k hk)
  simp only [zero_mul, add_zero, one_mul] at e0 e1
  have s1 : ∑ j ∈ range n, Mm k j * (basicSol n T basis (n + j) + rayDir n T basis c (n + j))
      = ∑ j ∈ range n, Mm k j * basicSol n T basis (n + j)
        + ∑ j ∈ range n, Mm k j * rayDir n T basis c (n + j) := by
    rw [← Finset.sum_add_distrib]
    apply Finset.sum_congr rfl
    intro j _; ring
  rw [s1] at e1
  linarith

/-! ### strictly copositive matrices: a ray can only be a primary-type ray -/

/-- `M` is strictly copositive on `ℝ^n_+`: `yᵀ M y > 0` for every `y ≥ 0`, `y ≠ 0`
    (every positive definite matrix is) -/
def StrictCop (n : ℕ) (Mm : ℕ → ℕ → K) : Prop :=
  ∀ y : ℕ → K, (∀ j, j < n → 0 ≤ y j) → (∃ j, j < n ∧ 0 < y j) →
    0 < ∑ i ∈ range n, y i * ∑ j ∈ range n, Mm i j * y j

theorem ray_cop_zh_zero {n : ℕ} {T : M K} {basis : ℕ → ℕ} {c : ℕ} (hn : 0 < n)
    (Mm : ℕ → ℕ → K) (q d : ℕ → K) (hd : ∀ i, i < n → 0 < d i) (hcop : StrictCop n Mm)
    (h : Inv1 n (initTableau n Mm q d) T basis) (he : Enter n basis c) (hc : c < 2 * n)
    (hcol : ∀ k, k < n → T.get k c ≤ 0) : ∀ j, j < n → rayDir n T basis c (n + j) = 0 := by
  by_contra hne
  push Not at hne
  obtain ⟨j0, hj0, hj0ne⟩ := hne
  have hnn := rayDir_nonneg (basis := basis) hcol
  have hpos : 0 < rayDir n T basis c (n + j0) := lt_of_le_of_ne (hnn _) (Ne.symm hj0ne)
  have hQ := hcop (fun j => rayDir n T basis c (n + j)) (fun j _ => hnn _) ⟨j0, hj0, hpos⟩
  have e : ∑ i ∈ range n, rayDir n T basis c (n + i) * ∑ j ∈ range n, Mm i j * rayDir n T basis c (n + j)
      = - (∑ i ∈ range n, rayDir n T basis c (n + i) * d i) * rayDir n T basis c (2 * n) := by
    have : ∀ i ∈ range n,
        rayDir n T basis c (n + i) * ∑ j ∈ range n, Mm i j * rayDir n T basis c (n + j)
        = - (rayDir n T basis c (n + i) * d i * rayDir n T basis c (2 * n)) := by
      intro i hi
      have hi' := mem_range.mp hi
      have e1 := rayDir_initHom Mm q d h he i hi'
      have e2 := rayDir_compl hn h he hc i hi'
      have : ∑ j ∈ range n, Mm i j * rayDir n T basis c (n + j)
          = rayDir n T basis c i - d i * rayDir n T basis c (2 * n) := by linarith
      rw [this, mul_sub, e2]; ring
    rw [Finset.sum_congr rfl this, Finset.sum_neg_distrib, neg_mul, Finset.sum_mul]
  have hs : 0 ≤ ∑ i ∈ range n, rayDir n T basis c (n + i) * d i :=
    Finset.sum_nonneg (fun i hi => mul_nonneg (hnn _) (le_of_lt (hd i (mem_range.mp hi))))
  have : 0 ≤ (∑ i ∈ range n, rayDir n T basis c (n + i) * d i) * rayDir n T basis c (2 * n) :=
    mul_nonneg hs (hnn _)
  rw [e] at hQ
  linarith

/-- a direction without `z` part can only occur at a tableau of the *primary* ray: the
    entering column is a `w` column and every basic variable is a `w` or the artificial one -/
theorem ray_primary_of_zh_zero {n : ℕ} {T : M K} {basis : ℕ → ℕ} {c : ℕ} (hn : 0 < n)
    (Mm : ℕ → ℕ → K) (q d : ℕ → K) (hd : ∀ i, i < n → 0 < d i)
    (h : Inv1 n (initTableau n Mm q d) T basis) (he : Enter n basis c) (hc : c < 2 * n)
    (hcol : ∀ k, k < n → T.get k c ≤ 0)
    (hz : ∀ j, j < n → rayDir n T basis c (n + j) = 0) :
    c < n ∧ ∀ a, a < n → (basis a = 2 * n ∨ basis a < n) := by
  have hnn := rayDir_nonneg (basis := basis) hcol
  have hw : ∀ i, i < n → rayDir n T basis c i = d i * rayDir n T basis c (2 * n) := by
    intro i hi
    rw [rayDir_initHom Mm q d h he i hi]
    have : ∑ j ∈ range n, Mm i j * rayDir n T basis c (n + j) = 0 := by
      apply Finset.sum_eq_zero
      intro j hj
      rw [hz j (mem_range.mp hj), mul_zero]
    rw [this, zero_add]
  have h0pos : 0 < rayDir n T basis c (2 * n) := by
    apply lt_of_le_of_ne (hnn _)
    intro e0
    have hcc := rayDir_self (T := T) he
    by_cases hcn : c < n
    · rw [hw c hcn, ← e0, mul_zero] at hcc; exact zero_ne_one hcc
    · have := hz (c - n) (by omega)
      rw [show n + (c - n) = c by omega, hcc] at this
      exact one_ne_zero this
  -- every `w_i` and the artificial variable are in `basis ∪ {c}`
  have hmem : ∀ v, (v < n ∨ v = 2 * n) → v = c ∨ ∃ a, a < n ∧ basis a = v := by
    intro v hv
    by_contra hne
    push Not at hne
    have hzero := rayDir_eq_zero (T := T) (c := c) v hne.1 (fun a ha => hne.2 a ha)
    rcases hv with hv | hv
    · rw [hw v hv] at hzero
      have := mul_pos (hd v hv) h0pos
      linarith
    · rw [hv] at hzero; linarith
  -- counting: the image of `basis` has at most `n` elements
  have himg : ((range n).image basis).card ≤ n := by
    have := Finset.card_image_le (s := range n) (f := basis)
    rwa [Finset.card_range] at this
  have hcn : c < n := by
    by_contra hcn
    have hsub : insert (2 * n) (range n) ⊆ (range n).image basis := by
      intro v hv
      rw [Finset.mem_insert, mem_range] at hv
      rcases hmem v (by tauto) with e | ⟨a, ha, e⟩
      · rcases hv with hv | hv <;> omega
      · exact Finset.mem_image.mpr ⟨a, mem_range.mpr ha, e⟩
    have hcard : (insert (2 * n) (range n)).card = n + 1 := by
      rw [Finset.card_insert_of_notMem (by rw [mem_range]; omega), Finset.card_range]
    have := Finset.card_le_card hsub
    omega
  refine ⟨hcn, ?_⟩
  -- the `n` values `{2n} ∪ ({0..n-1} \ {c})` exhaust the image
  have hsub : insert (2 * n) ((range n).erase c) ⊆ (range n).image basis := by
    intro v hv
    rw [Finset.mem_insert, Finset.mem_erase, mem_range] at hv
    rcases hmem v (by tauto) with e | ⟨a, ha, e⟩
    · rcases hv with hv | hv <;> omega
    · exact Finset.mem_image.mpr ⟨a, mem_range.mpr ha, e⟩
  have hcard : (insert (2 * n) ((range n).erase c)).card = n := by
    rw [Finset.card_insert_of_notMem (by rw [Finset.mem_erase, mem_range]; omega),
      Finset.card_erase_of_mem (mem_range.mpr hcn), Finset.card_range]
    omega
  have heq := Finset.eq_of_subset_of_card_le hsub (by rw [hcard]; exact himg)
  intro a ha
  have : basis a ∈ insert (2 * n) ((range n).erase c) := by
    rw [heq]; exact Finset.mem_image.mpr ⟨a, mem_range.mpr ha, rfl⟩
  rw [Finset.mem_insert, Finset.mem_erase, mem_range] at this
  rcases this with e | e
  · exact Or.inl e
  · exact Or.inr e.2

/-- for a strictly copositive `M`, a column without positive entry can only occur at a
    tableau of the *primary* ray -/
theorem ray_cop_primary {n : ℕ} {T : M K} {basis : ℕ → ℕ} {c : ℕ} (hn : 0 < n)
    (Mm : ℕ → ℕ → K) (q d : ℕ → K) (hd : ∀ i, i < n → 0 < d i) (hcop : StrictCop n Mm)
    (h : Inv1 n (initTableau n Mm q d) T basis) (he : Enter n basis c) (hc : c < 2 * n)
    (hcol : ∀ k, k < n → T.get k c ≤ 0) :
    c < n ∧ ∀ a, a < n → (basis a = 2 * n ∨ basis a < n) :=
  ray_primary_of_zh_zero hn Mm q d hd h he hc hcol
    (ray_cop_zh_zero hn Mm q d hd hcop h he hc hcol)

/-! ### P-matrices (in the sign-reversal form): a ray can only be a primary-type ray -/

/-- `M` reverses the sign of no non-zero vector: `(∀ i, x_i (Mx)_i ≤ 0) → x = 0`. By the
    Fiedler–Pták theorem this is equivalent to "all principal minors positive" (P-matrix); that
    equivalence is not proved here. Every positive definite matrix has the property. -/
def NoSignReversal (n : ℕ) (Mm : ℕ → ℕ → K) : Prop :=
  ∀ x : ℕ → K, (∀ i, i < n → x i * ∑ j ∈ range n, Mm i j * x j ≤ 0) → ∀ i, i < n → x i = 0

theorem ray_P_primary {n : ℕ} {T : M K} {basis : ℕ → ℕ} {c : ℕ} (hn : 0 < n)
    (Mm : ℕ → ℕ → K) (q d : ℕ → K) (hd : ∀ i, i < n → 0 < d i) (hP : NoSignReversal n Mm)
    (h : Inv1 n (initTableau n Mm q d) T basis) (he : Enter n basis c) (hc : c < 2 * n)
    (hcol : ∀ k, k < n → T.get k c ≤ 0) :
    c < n ∧ ∀ a, a < n → (basis a = 2 * n ∨ basis a < n) := by
  have hnn := rayDir_nonneg (basis := basis) hcol
  apply ray_primary_of_zh_zero hn Mm q d hd h he hc hcol
  apply hP (fun j => rayDir n T basis c (n + j))
  intro i hi
  have e1 := rayDir_initHom Mm q d h he i hi
  have e2 := rayDir_compl hn h he hc i hi
  have e3 : ∑ j ∈ range n, Mm i j * rayDir n T basis c (n + j)
      = rayDir n T basis c i - d i * rayDir n T basis c (2 * n) := by linarith
  show rayDir n T basis c (n + i) * ∑ j ∈ range n, Mm i j * rayDir n T basis c (n + j) ≤ 0
  rw [e3, mul_sub, e2, zero_sub, neg_nonpos]
  exact mul_nonneg (hnn _) (mul_nonneg (le_of_lt (hd i hi)) (hnn _))

end QE.C11
