/-
  Lemmas for C15, part 9: the basic solution of a tableau in canonical form, and what a basis in
  which every label occurs once means for it.
-/
import Mathlib.Algebra.BigOperators.Field
import Mathlib.Algebra.BigOperators.Ring.Finset
import Mathlib.Algebra.Order.BigOperators.Ring.Finset
import Mathlib.Tactic.Linarith
import QEModel.C15
import QEProofs.Lemmas.C15Howson
import QEProofs.Lemmas.C15HowsonLabels
import QEProofs.Lemmas.C15HowsonInit
namespace QE.C15
open QE QE.Pivot Finset

set_option linter.unusedSectionVars false
variable {K : Type} [Field K] [LinearOrder K] [IsStrictOrderedRing K]

/-- the basic solution: variable `j` takes the right-hand side of the row in which it is basic,
    `0` if it is not basic -/
def uSol (T : M K) (b : List Nat) (n : Nat) (j : Nat) : K :=
  ∑ i ∈ range n, if b.getD i 0 = j then T.get i (T.nc - 1) else 0

theorem hinv_inj (n : Nat) (T0 T : M K) (b : List Nat) (h : HInv n T0 T b) (i j : Nat)
    (hi : i < n) (hj : j < n) (e : b.getD i 0 = b.getD j 0) : i = j := by
  by_contra hne
  have h1 := h.canon i i hi hi
  have h2 := h.canon i j hi hj
  rw [← e, h1, if_pos rfl, if_neg hne] at h2
  exact one_ne_zero h2

/-- the basic solution satisfies every row of the current tableau, hence (row equivalence) of the
    initial system -/
theorem uSol_rowsSat (n : Nat) (T0 T : M K) (b : List Nat) (h : HInv n T0 T b) :
    RowsSat T0 (uSol T b n) n := by
  rw [← h.equiv]
  intro i hi
  unfold RowSat uSol
  have hnc : T.nc - 1 = 2 * n := by rw [h.nc]; omega
  rw [hnc]
  calc ∑ j ∈ range (2 * n), T.get i j * ∑ i' ∈ range n, (if b.getD i' 0 = j then T.get i' (2 * n) else 0)
      = ∑ j ∈ range (2 * n), ∑ i' ∈ range n, (if b.getD i' 0 = j then T.get i j * T.get i' (2 * n) else 0) := by
        apply Finset.sum_congr rfl; intro j _
        rw [Finset.mul_sum]; apply Finset.sum_congr rfl; intro i' _
        split_ifs <;> simp
    _ = ∑ i' ∈ range n, ∑ j ∈ range (2 * n), (if b.getD i' 0 = j then T.get i j * T.get i' (2 * n) else 0) :=
        Finset.sum_comm
    _ = ∑ i' ∈ range n, T.get i (b.getD i' 0) * T.get i' (2 * n) := by
        apply Finset.sum_congr rfl; intro i' hi'
        have hlt := h.bvar i' (Finset.mem_range.mp hi')
        rw [Finset.sum_eq_single (b.getD i' 0)]
        · simp
        · intro j _ hne; rw [if_neg (fun e => hne e.symm)]
        · intro hnot; exact absurd (Finset.mem_range.mpr hlt) hnot
    _ = ∑ i' ∈ range n, (if i = i' then T.get i' (2 * n) else 0) := by
        apply Finset.sum_congr rfl; intro i' hi'
        rw [h.canon i i' hi (Finset.mem_range.mp hi')]
        split_ifs <;> simp
    _ = T.get i (2 * n) := by
        rw [Finset.sum_eq_single i]
        · simp
        · intro j _ hne; rw [if_neg (fun e => hne e.symm)]
        · intro hnot; exact absurd (Finset.mem_range.mpr hi) hnot

theorem uSol_nonneg (T : M K) (b : List Nat) (n : Nat) (hpos : ∀ i, i < n → 0 ≤ T.get i (T.nc - 1)) (j : Nat) :
    0 ≤ uSol T b n j := by
  unfold uSol
  apply Finset.sum_nonneg
  intro i hi
  split_ifs
  · exact hpos i (Finset.mem_range.mp hi)
  · exact le_refl _

theorem uSol_eq_zero (T : M K) (b : List Nat) (n : Nat) (j : Nat) (hlen : b.length = n) (hj : j ∉ b) :
    uSol T b n j = 0 := by
  unfold uSol
  apply Finset.sum_eq_zero
  intro i hi
  rw [if_neg]
  intro e
  apply hj
  rw [← e, List.getD_eq_getElem?_getD, List.getElem?_eq_getElem (by rw [hlen]; exact Finset.mem_range.mp hi)]
  simp

theorem countP_add_le (p p1 p2 : Nat → Bool) (l : List Nat)
    (h1 : ∀ x, p1 x = true → p x = true) (h2 : ∀ x, p2 x = true → p x = true)
    (hd : ∀ x, ¬ (p1 x = true ∧ p2 x = true)) :
    l.countP p1 + l.countP p2 ≤ l.countP p := by
  induction l with
  | nil => simp
  | cons x xs ih =>
    simp only [List.countP_cons]
    have a := h1 x; have c := h2 x; have d := hd x
    cases e1 : p1 x <;> cases e2 : p2 x <;> cases e : p x <;> simp_all <;> omega

/-- if every label occurs exactly once among the basis, `w_k` and `z_k` are never both basic:
    the basic solution is complementary -/
theorem uSol_complementary (T : M K) (b : List Nat) (n : Nat) (hlen : b.length = n) (k : Nat) (hk : k < n)
    (hc : cnt n b k = 1) : uSol T b n k * uSol T b n (k + n) = 0 := by
  by_cases h1 : k ∈ b
  · by_cases h2 : k + n ∈ b
    · exfalso
      have hle := countP_add_le (fun x => decide (x % n = k)) (fun x => decide (x = k))
        (fun x => decide (x = k + n)) b
        (by intro x hx; simp only [decide_eq_true_eq] at hx ⊢; rw [hx]; exact Nat.mod_eq_of_lt hk)
        (by intro x hx; simp only [decide_eq_true_eq] at hx ⊢; rw [hx, Nat.add_mod_right]; exact Nat.mod_eq_of_lt hk)
        (by intro x hx; simp only [decide_eq_true_eq] at hx; omega)
      have c1 : 0 < b.countP (fun x => decide (x = k)) := List.countP_pos_iff.mpr ⟨k, h1, by simp⟩
      have c2 : 0 < b.countP (fun x => decide (x = k + n)) := List.countP_pos_iff.mpr ⟨k + n, h2, by simp⟩
      unfold cnt at hc
      omega
    · rw [uSol_eq_zero T b n (k + n) hlen h2]; ring
  · rw [uSol_eq_zero T b n k hlen h1]; ring

/-- the code's read-out `_get_solution` (last write wins) is the basic solution -/
theorem hZ_eq_uSol (n : Nat) (T0 T : M K) (b : List Nat) (h : HInv n T0 T b) (k : Nat) :
    hZ T b n k = uSol T b n (k + n) := by
  unfold hZ uSol
  have key : ∀ m, m ≤ n →
      (List.range m).foldl (fun acc i => if b.getD i 0 = k + n then T.get i (T.nc - 1) else acc) 0
        = ∑ i ∈ range m, if b.getD i 0 = k + n then T.get i (T.nc - 1) else 0 := by
    intro m
    induction m with
    | zero => intro _; simp
    | succ m ih =>
      intro hm
      rw [List.range_succ, List.foldl_append, Finset.sum_range_succ, ih (by omega)]
      simp only [List.foldl_cons, List.foldl_nil]
      by_cases e : b.getD m 0 = k + n
      · rw [if_pos e, if_pos e]
        have : ∑ i ∈ range m, (if b.getD i 0 = k + n then T.get i (T.nc - 1) else 0) = 0 := by
          apply Finset.sum_eq_zero
          intro i hi
          rw [if_neg]
          intro e'
          have := hinv_inj n T0 T b h i m (by have := Finset.mem_range.mp hi; omega) (by omega) (by rw [e, e'])
          have := Finset.mem_range.mp hi
          omega
        rw [this]; ring
      · rw [if_neg e, if_neg e]; ring
  exact key n (le_refl _)

/-- a row of `[I | -M | q]` as an equation: `u_i - Σ_j M[i,j] u_{n+j} = q_i` -/
theorem hTableau_rowSat_iff (nums : List Nat) (A : Nat → Nat → Nat → Nat → K) (pcm : K) (u : Nat → K) (i : Nat)
    (hi : i < nums.foldl (· + ·) 0 + nums.length) :
    RowSat (hTableau nums A pcm) u i ↔
      u i - ∑ j ∈ range (nums.foldl (· + ·) 0 + nums.length),
          hM nums A pcm (nums.foldl (· + ·) 0) i j * u (nums.foldl (· + ·) 0 + nums.length + j)
        = if i < nums.foldl (· + ·) 0 then 0 else -(1 : K) := by
  unfold RowSat
  have hnc : (hTableau nums A pcm).nc - 1
      = (nums.foldl (· + ·) 0 + nums.length) + (nums.foldl (· + ·) 0 + nums.length) := by
    show 2 * (nums.foldl (· + ·) 0 + nums.length) + 1 - 1 = _; omega
  rw [hnc, Finset.sum_range_add]
  have h1 : ∑ j ∈ range (nums.foldl (· + ·) 0 + nums.length), (hTableau nums A pcm).get i j * u j = u i := by
    rw [Finset.sum_eq_single i]
    · rw [hTableau_get nums A pcm i i hi (by omega), if_pos hi, if_pos rfl]; ring
    · intro j hj hne
      rw [hTableau_get nums A pcm i j hi (by have := Finset.mem_range.mp hj; omega),
        if_pos (Finset.mem_range.mp hj), if_neg (fun e => hne e.symm)]; ring
    · intro hnot; exact absurd (Finset.mem_range.mpr hi) hnot
  have h2 : ∑ j ∈ range (nums.foldl (· + ·) 0 + nums.length),
        (hTableau nums A pcm).get i (nums.foldl (· + ·) 0 + nums.length + j)
          * u (nums.foldl (· + ·) 0 + nums.length + j)
      = - ∑ j ∈ range (nums.foldl (· + ·) 0 + nums.length),
          hM nums A pcm (nums.foldl (· + ·) 0) i j * u (nums.foldl (· + ·) 0 + nums.length + j) := by
    rw [← Finset.sum_neg_distrib]
    apply Finset.sum_congr rfl
    intro j hj
    have hjn := Finset.mem_range.mp hj
    rw [hTableau_get nums A pcm i _ hi (by omega), if_neg (by omega), if_pos (by omega), Nat.add_sub_cancel_left]
    ring
  have h3 : (hTableau nums A pcm).get i (nums.foldl (· + ·) 0 + nums.length + (nums.foldl (· + ·) 0 + nums.length))
      = if i < nums.foldl (· + ·) 0 then 0 else -(1 : K) := by
    rw [hTableau_get nums A pcm i _ hi (by omega), if_neg (by omega), if_neg (by omega)]
  rw [h1, h2, h3, sub_eq_add_neg]

end QE.C15
