/-
  Lemmas for C17: bracket invariants of bisect and brentq.
-/
import QEProofs.Lemmas.C17Basic
namespace QE.C17
set_option linter.unusedSectionVars false

section
variable {K : Type} [Field K] [LinearOrder K] [IsStrictOrderedRing K]

/-- **bisection loop.** Invariant: `f xa` has the sign of `fa`, `f (xa+dm)` the opposite sign.
    Whatever `f` is, a converged exit returns an exact zero or the mid-point of a bracket
    `[root-d, root+d]` with a strict sign change and `|d| < xtol + rtol·|root|`; running out of
    passes returns `(0, calls, maxiter-1, false)`. -/
theorem bisectLoop_spec (f : K → K) (xtol rtol fa : K) :
    ∀ (fuel itr : Nat) (xa dm : K) (calls : Nat),
    0 < f xa * fa → f (xa + dm) * fa < 0 →
    (let r := bisectLoop f xtol rtol fa fuel itr xa dm calls
     (r.conv = true →
        (f r.root = 0 ∨ ∃ d, |d| < xtol + rtol * |r.root| ∧ f (r.root - d) * f (r.root + d) < 0) ∧
        (∃ t, 0 ≤ t ∧ t ≤ 1 ∧ r.root = xa + t * dm) ∧
        itr + 1 ≤ r.iters ∧ r.iters ≤ itr + fuel ∧ r.calls + itr = calls + r.iters) ∧
     (r.conv = false → r.iters = itr + fuel - 1 ∧ r.root = 0 ∧ r.calls = calls + fuel)) := by
  intro fuel
  induction fuel with
  | zero => intro itr xa dm calls _ _; simp [bisectLoop]
  | succ fuel ih =>
    intro itr xa dm calls h1 h2
    unfold bisectLoop
    have hfa : fa ≠ 0 := by rintro rfl; simp at h1
    by_cases hex : (f (xa + dm * half) == 0 || decide (absv (dm * half) < xtol + rtol * absv (xa + dm * half))) = true
    · rw [if_pos hex]
      refine ⟨fun _ => ⟨?_, ⟨1 / 2, by norm_num, by norm_num, by rw [half_eq]; ring⟩, by simp, by simp, by simp; omega⟩, by simp⟩
      rw [Bool.or_eq_true, beq_iff_eq, decide_eq_true_eq] at hex
      rcases hex with h | h
      · exact Or.inl h
      · right
        refine ⟨dm * half, by rw [← absv_eq_abs, ← absv_eq_abs]; exact h, ?_⟩
        have e1 : xa + dm * half - dm * half = xa := by ring
        have e2 : xa + dm * half + dm * half = xa + dm := by rw [half_eq]; ring
        rw [e1, e2]
        have := mul_neg_of_mul_neg_of_mul_pos h2 (by rw [mul_comm]; exact h1)
        rw [mul_comm]; exact this
    · rw [if_neg hex]
      rw [Bool.or_eq_true, beq_iff_eq, decide_eq_true_eq, not_or] at hex
      obtain ⟨hm, _⟩ := hex
      by_cases hs : 0 ≤ f (xa + dm * half) * fa
      · simp only [hs, if_true]
        have hpos : 0 < f (xa + dm * half) * fa := lt_of_le_of_ne hs (Ne.symm (mul_ne_zero hm hfa))
        have e2 : xa + dm * half + dm * half = xa + dm := by rw [half_eq]; ring
        have := ih (itr + 1) (xa + dm * half) (dm * half) (calls + 1) hpos (by rw [e2]; exact h2)
        simp only at this
        obtain ⟨A, B⟩ := this
        refine ⟨fun hc => ?_, fun hc => ?_⟩
        · obtain ⟨a1, ⟨t, t0, t1, ht⟩, a3, a4, a5⟩ := A hc
          refine ⟨a1, ⟨1 / 2 + t / 2, by linarith, by linarith, by rw [ht, half_eq]; ring⟩, by omega, by omega, by omega⟩
        · obtain ⟨b1, b2, b3⟩ := B hc
          exact ⟨by omega, b2, by omega⟩
      · simp only [hs, if_false]
        have := ih (itr + 1) xa (dm * half) (calls + 1) h1 (lt_of_not_ge hs)
        simp only at this
        obtain ⟨A, B⟩ := this
        refine ⟨fun hc => ?_, fun hc => ?_⟩
        · obtain ⟨a1, ⟨t, t0, t1, ht⟩, a3, a4, a5⟩ := A hc
          refine ⟨a1, ⟨t / 2, by linarith, by linarith, by rw [ht, half_eq]; ring⟩, by omega, by omega, by omega⟩
        · obtain ⟨b1, b2, b3⟩ := B hc
          exact ⟨by omega, b2, by omega⟩

/-! ### brentq -/

/-- loop-head invariant of `brentq`: the stored function values are the values of `f`, and either
    the last two iterates bracket a sign change or the stored `blk` point does with `cur`. -/
def BQInv (f : K → K) (s : BQ K) : Prop :=
  s.fpre = f s.xpre ∧ s.fcur = f s.xcur ∧
    (s.fpre * s.fcur < 0 ∨ (s.fblk = f s.xblk ∧ s.fblk * s.fcur ≤ 0))

/-- invariant after the block assignment: `[xcur, xblk]` brackets a sign change -/
def BQInv2 (f : K → K) (s : BQ K) : Prop :=
  s.fpre = f s.xpre ∧ s.fcur = f s.xcur ∧ s.fblk = f s.xblk ∧ s.fblk * s.fcur ≤ 0

theorem bqBlk_inv (f : K → K) (s : BQ K) (h : BQInv f s) : BQInv2 f (bqBlk s) := by
  obtain ⟨h1, h2, h3⟩ := h
  unfold bqBlk
  by_cases hc : s.fpre * s.fcur < 0
  · rw [if_pos hc]; exact ⟨h1, h2, h1, hc.le⟩
  · rw [if_neg hc]
    rcases h3 with h3 | ⟨h3, h4⟩
    · exact absurd h3 hc
    · exact ⟨h1, h2, h3, h4⟩

theorem bqSwap_inv (f : K → K) (s : BQ K) (h : BQInv2 f s) :
    BQInv2 f (bqSwap s) ∧ |(bqSwap s).fcur| ≤ |(bqSwap s).fblk| := by
  obtain ⟨h1, h2, h3, h4⟩ := h
  unfold bqSwap
  by_cases hc : absv s.fblk < absv s.fcur
  · rw [if_pos hc]
    rw [absv_eq_abs, absv_eq_abs] at hc
    exact ⟨⟨h2, h3, h2, by rw [mul_comm]; exact h4⟩, hc.le⟩
  · rw [if_neg hc]
    rw [absv_eq_abs, absv_eq_abs] at hc
    exact ⟨⟨h1, h2, h3, h4⟩, not_lt.mp hc⟩

/-- whatever point `xnew` the step selection produces, evaluating `f` there re-establishes the
    loop-head invariant -/
theorem bqNext_inv (f : K → K) (s : BQ K) (h : BQInv2 f s) (hne : s.fcur ≠ 0)
    (hle : |s.fcur| ≤ |s.fblk|) (xnew sp sc : K) :
    BQInv f { s with xpre := s.xcur, fpre := s.fcur, xcur := xnew, fcur := f xnew, spre := sp, scur := sc } := by
  obtain ⟨h1, h2, h3, h4⟩ := h
  refine ⟨h2, rfl, ?_⟩
  by_cases hc : s.fcur * f xnew < 0
  · exact Or.inl hc
  · right
    refine ⟨h3, ?_⟩
    have hb : s.fblk ≠ 0 := by
      intro hb; rw [hb, abs_zero] at hle
      exact hne (abs_eq_zero.mp (le_antisymm hle (abs_nonneg _)))
    have hlt : s.fblk * s.fcur < 0 := lt_of_le_of_ne h4 (mul_ne_zero hb hne)
    exact mul_nonpos_of_mul_neg_of_mul_nonneg hlt (not_lt.mp hc)

/-- **brentq loop.** For an arbitrary `f`: a converged exit returns `xcur` with `f xcur = 0`, or
    together with a point `y` (`xblk`) such that `f y · f xcur < 0`, `|f xcur| ≤ |f y|` and
    `|y − xcur| < xtol + rtol·|xcur|`; running out of passes returns `(0, calls, maxiter−1, false)`. -/
theorem brentqLoop_spec (f : K → K) (xtol rtol : K) :
    ∀ (fuel itr : Nat) (s : BQ K) (calls : Nat), BQInv f s →
    (let r := brentqLoop f xtol rtol fuel itr s calls
     (r.conv = true →
        (f r.root = 0 ∨ ∃ y, f y * f r.root < 0 ∧ |f r.root| ≤ |f y| ∧ |y - r.root| < xtol + rtol * |r.root|) ∧
        itr + 1 ≤ r.iters ∧ r.iters ≤ itr + fuel ∧ r.calls + (itr + 1) = calls + r.iters) ∧
     (r.conv = false → r.iters = itr + fuel - 1 ∧ r.root = 0 ∧ r.calls = calls + fuel)) := by
  intro fuel
  induction fuel with
  | zero => intro itr s calls _; simp [brentqLoop]
  | succ fuel ih =>
    intro itr s calls hinv
    unfold brentqLoop
    have h2 := bqBlk_inv f s hinv
    obtain ⟨h3, hle⟩ := bqSwap_inv f _ h2
    generalize bqSwap (bqBlk s) = s1 at h3 hle
    simp only
    by_cases hex : (s1.fcur == 0 || decide (absv ((s1.xblk - s1.xcur) / two) < (xtol + rtol * absv s1.xcur) / two)) = true
    · rw [if_pos hex]
      refine ⟨fun _ => ⟨?_, by simp, by simp, by simp⟩, by simp⟩
      rw [Bool.or_eq_true, beq_iff_eq, decide_eq_true_eq] at hex
      obtain ⟨g1, g2, g3, g4⟩ := h3
      simp only
      by_cases hz : s1.fcur = 0
      · left; rw [← g2]; exact hz
      · rcases hex with h | h
        · exact absurd h hz
        · right
          have hb : s1.fblk ≠ 0 := by
            intro hb; rw [hb, abs_zero] at hle
            exact hz (abs_eq_zero.mp (le_antisymm hle (abs_nonneg _)))
          refine ⟨s1.xblk, ?_, ?_, ?_⟩
          · rw [← g3, ← g2]; exact lt_of_le_of_ne g4 (mul_ne_zero hb hz)
          · rw [← g3, ← g2]; exact hle
          · rw [absv_eq_abs, absv_eq_abs, two_eq, abs_div, abs_two] at h
            have := (div_lt_div_iff_of_pos_right (by norm_num : (0 : K) < 2)).mp h
            exact this
    · rw [if_neg hex]
      rw [Bool.or_eq_true, beq_iff_eq, decide_eq_true_eq, not_or] at hex
      obtain ⟨hz, _⟩ := hex
      have hn := bqNext_inv f s1 h3 hz hle
      have := ih (itr + 1) _ (calls + 1)
        (hn (bqNext s1.xcur (bqTry s1 ((xtol + rtol * absv s1.xcur) / two) ((s1.xblk - s1.xcur) / two)).2 ((xtol + rtol * absv s1.xcur) / two) ((s1.xblk - s1.xcur) / two))
          (bqTry s1 ((xtol + rtol * absv s1.xcur) / two) ((s1.xblk - s1.xcur) / two)).1 (bqTry s1 ((xtol + rtol * absv s1.xcur) / two) ((s1.xblk - s1.xcur) / two)).2)
      simp only at this
      obtain ⟨A, B⟩ := this
      refine ⟨fun hc => ?_, fun hc => ?_⟩
      · obtain ⟨a1, a2, a3, a4⟩ := A hc
        exact ⟨a1, by omega, by omega, by omega⟩
      · obtain ⟨b1, b2, b3⟩ := B hc
        exact ⟨by omega, b2, by omega⟩

/-! ### brentq: the size of one step -/

/-- the acceptance test of the interpolation step -/
theorem tryCore (spre scur stry sbis delta : K) :
    (if two * absv stry < pmin (absv spre) (three * absv sbis - delta) then (scur, stry) else (sbis, sbis)).2 = sbis ∨
    2 * |(if two * absv stry < pmin (absv spre) (three * absv sbis - delta) then (scur, stry) else (sbis, sbis)).2|
      < 3 * |sbis| - delta := by
  split
  · next hacc =>
    right
    simp only [two_eq, three_eq, absv_eq_abs] at hacc
    unfold pmin at hacc
    show 2 * |stry| < 3 * |sbis| - delta
    split at hacc
    · exact hacc
    · next hmin =>
      have := not_lt.mp hmin
      linarith
  · left; rfl

/-- **step size of one brentq pass** (the acceptance rule of the interpolation step): in a pass that
    does not exit (`delta ≤ |sbis|`, `delta > 0`, where `sbis = (xblk − xcur)/2`), whichever of the
    three moves is chosen — accepted interpolation/extrapolation step, bisection, or the minimal step
    `±delta` — the new point is at least `delta` and at most `3/4·|xblk − xcur|` away from `xcur`.
    (That the new point lies BETWEEN `xcur` and `xblk` is not guaranteed by the code for an
    extrapolation step, so no contraction factor for the bracket is claimed.) -/
theorem bqStep_bounds (s : BQ K) (delta : K) (hd : 0 < delta)
    (hne : ¬ |(s.xblk - s.xcur) / 2| < delta) :
    let sbis := (s.xblk - s.xcur) / two
    let xnew := bqNext s.xcur (bqTry s delta sbis).2 delta sbis
    delta ≤ |xnew - s.xcur| ∧ |xnew - s.xcur| ≤ 3 / 4 * |s.xblk - s.xcur| := by
  intro sbis xnew
  have hsb : sbis = (s.xblk - s.xcur) / 2 := by simp only [sbis, two_eq]
  have hhalf : |sbis| = |s.xblk - s.xcur| / 2 := by rw [hsb, abs_div, abs_two]
  have hge : delta ≤ |sbis| := by rw [hsb]; exact not_lt.mp hne
  have hw : 0 ≤ |s.xblk - s.xcur| := abs_nonneg _
  -- the chosen scur is either sbis or an accepted stry with 2|stry| < 3|sbis| − delta
  have hscur : (bqTry s delta sbis).2 = sbis ∨ 2 * |(bqTry s delta sbis).2| < 3 * |sbis| - delta := by
    unfold bqTry
    simp only
    split
    · exact tryCore _ _ _ _ _
    · left; rfl
  have hstep : xnew - s.xcur = (if delta < absv (bqTry s delta sbis).2 then (bqTry s delta sbis).2
      else (if 0 < sbis then delta else -delta)) := by
    simp only [xnew, bqNext]
    split <;> ring
  rw [hstep, absv_eq_abs]
  split
  · next hbig =>
    refine ⟨hbig.le, ?_⟩
    rcases hscur with h | h
    · rw [h, hhalf]; linarith
    · rw [hhalf] at h; linarith
  · have habs : |if 0 < sbis then delta else -delta| = delta := by
      split
      · exact abs_of_pos hd
      · rw [abs_neg]; exact abs_of_pos hd
    rw [habs]
    refine ⟨le_refl _, ?_⟩
    rw [hhalf] at hge; linarith

end
end QE.C17
