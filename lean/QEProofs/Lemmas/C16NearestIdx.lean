/-
  Lemmas for C16, part: `cartesian_nearest_index` — the returned product index designates, in
  the enumeration of `cartesian` (same order), a grid point at minimum Euclidean distance.
-/
import Mathlib.Algebra.Order.BigOperators.Group.List
import QEProofs.Lemmas.C16Cart
import QEProofs.Lemmas.C16Nearest
namespace QE.C16

theorem validIdx_of_getD : ∀ (inds s : List Nat), inds.length = s.length →
    (∀ d, d < s.length → inds.getD d 0 < s.getD d 0) → ValidIdx inds s
  | [], [], _, _ => trivial
  | i :: is, m :: ms, hl, h => by
    refine ⟨by simpa using h 0 (by simp), validIdx_of_getD is ms (by simpa using hl) ?_⟩
    intro d hd
    simpa using h (d + 1) (by simpa using hd)
  | [], _ :: _, hl, _ => by simp at hl
  | _ :: _, [], hl, _ => by simp at hl

theorem digitsC_getD (s : List Nat) (r d : Nat) (hd : d < s.length) :
    (digitsC s r).getD d 0 = digitC s d r := by
  simp [digitsC, List.getD_eq_getElem?_getD, List.getElem?_map, List.getElem?_range hd]

theorem digitsF_getD (s : List Nat) (r d : Nat) (hd : d < s.length) :
    (digitsF s r).getD d 0 = digitF s d r := by
  simp [digitsF, List.getD_eq_getElem?_getD, List.getElem?_map, List.getElem?_range hd]

theorem shapes_getD {α : Type} (nodes : List (List α)) (d : Nat) (hd : d < nodes.length) :
    (nodes.map List.length).getD d 0 = (nodes.getD d []).length := by
  simp [List.getD_eq_getElem?_getD, List.getElem?_map, List.getElem?_eq_getElem hd]

theorem nodes_getD_mem {α : Type} (nodes : List (List α)) (d : Nat) (hd : d < nodes.length) :
    nodes.getD d [] ∈ nodes := by
  rw [List.getD_eq_getElem?_getD, List.getElem?_eq_getElem hd]
  exact List.getElem_mem hd

theorem digitC_lt (s : List Nat) (d r : Nat) (h : 0 < s.getD d 0) : digitC s d r < s.getD d 0 :=
  Nat.mod_lt _ h

theorem digitF_lt (s : List Nat) (d r : Nat) (h : 0 < s.getD d 0) : digitF s d r < s.getD d 0 :=
  Nat.mod_lt _ h

section
variable {K : Type} [Field K] [LinearOrder K] [IsStrictOrderedRing K]

/-- squared Euclidean distance between the first `n` coordinates of `x` and `p` -/
def sqDist (n : Nat) (x p : List K) : K :=
  ((List.range n).map fun d => (x.getD d 0 - p.getD d 0) ^ 2).sum

/-- the per-dimension nearest indices computed by `_cartesian_nearest_indices` -/
def nearestInds (nodes : List (List K)) (x : List K) : List Nat :=
  (List.range nodes.length).map fun i => nearest1 (nodes.getD i []) (x.getD i 0)

theorem nearestInds_valid (nodes : List (List K)) (x : List K)
    (hn : ∀ g ∈ nodes, g ≠ [] ∧ g.Pairwise (· ≤ ·)) :
    ValidIdx (nearestInds nodes x) (nodes.map List.length) := by
  apply validIdx_of_getD
  · simp [nearestInds]
  · intro d hd
    have hd' : d < nodes.length := by simpa using hd
    rw [shapes_getD nodes d hd']
    have hg := hn _ (nodes_getD_mem nodes d hd')
    have : (nearestInds nodes x).getD d 0 = nearest1 (nodes.getD d []) (x.getD d 0) := by
      simp [nearestInds, List.getD_eq_getElem?_getD, List.getElem?_map, List.getElem?_range hd']
    rw [this]
    exact (nearest1_argmin _ _ hg.1 hg.2).1

/-- **`cartesian_nearest_index`.** For non-empty sorted grids, the returned index `r` is a
    valid row number of `cartesian nodes` (same order), row `r` is the point made of the
    per-dimension nearest grid values, and no row of the product grid is closer to `x` in
    Euclidean distance. -/
theorem nearestIndex_argmin (nodes : List (List K)) (x : List K) (o : Bool)
    (hn : ∀ g ∈ nodes, g ≠ [] ∧ g.Pairwise (· ≤ ·)) :
    nearestIndex nodes x o < (cartesian nodes o).length ∧
    (∀ d, d < nodes.length →
      ((cartesian nodes o).getD (nearestIndex nodes x o) []).getD d 0
        = (nodes.getD d []).getD (nearest1 (nodes.getD d []) (x.getD d 0)) 0) ∧
    ∀ r', r' < (cartesian nodes o).length →
      sqDist nodes.length x ((cartesian nodes o).getD (nearestIndex nodes x o) [])
        ≤ sqDist nodes.length x ((cartesian nodes o).getD r' []) := by
  have hv := nearestInds_valid nodes x hn
  set s := nodes.map List.length with hs
  have hslen : s.length = nodes.length := by simp [hs]
  have hind : ∀ d, d < nodes.length →
      (nearestInds nodes x).getD d 0 = nearest1 (nodes.getD d []) (x.getD d 0) := by
    intro d hd
    simp [nearestInds, List.getD_eq_getElem?_getD, List.getElem?_map, List.getElem?_range hd]
  rw [cartesian_length]
  -- the index is in range and its digits are the per-dimension indices
  have hkey : nearestIndex nodes x o < s.prod ∧ ∀ d, d < nodes.length →
      ((cartesian nodes o).getD (nearestIndex nodes x o) []).getD d 0
        = (nodes.getD d []).getD (nearest1 (nodes.getD d []) (x.getD d 0)) 0 := by
    cases o with
    | false =>
      have h := digitsC_cartesianIndex _ _ hv
      have he : nearestIndex nodes x false = cartesianIndex (nearestInds nodes x) s := by
        simp [nearestIndex, nearestInds, hs]
      rw [he]
      refine ⟨h.1, fun d hd => ?_⟩
      rw [cartesian_C nodes _ d h.1 hd, ← digitsC_getD _ _ _ (by simpa using hd), h.2, hind d hd]
    | true =>
      have h := digitsF_cartesianIndex _ _ hv
      have he : nearestIndex nodes x true
          = cartesianIndex (nearestInds nodes x).reverse s.reverse := by
        simp [nearestIndex, nearestInds, hs]
      rw [he]
      refine ⟨h.1, fun d hd => ?_⟩
      rw [cartesian_F nodes _ d h.1 hd, ← digitsF_getD _ _ _ (by simpa using hd), h.2, hind d hd]
  refine ⟨hkey.1, hkey.2, fun r' hr' => ?_⟩
  unfold sqDist
  apply List.sum_le_sum
  intro d hd
  have hd' : d < nodes.length := List.mem_range.mp hd
  have hg := hn _ (nodes_getD_mem nodes d hd')
  have hpos : 0 < s.getD d 0 := by
    rw [shapes_getD nodes d hd']; exact List.length_pos_iff.mpr hg.1
  rw [hkey.2 d hd', sq_le_sq]
  have hmin := (nearest1_argmin (nodes.getD d []) (x.getD d 0) hg.1 hg.2).2
  cases o with
  | false =>
    rw [cartesian_C nodes r' d hr' hd']
    apply hmin
    rw [← shapes_getD nodes d hd']; exact digitC_lt s d r' hpos
  | true =>
    rw [cartesian_F nodes r' d hr' hd']
    apply hmin
    rw [← shapes_getD nodes d hd']; exact digitF_lt s d r' hpos

end

end QE.C16
