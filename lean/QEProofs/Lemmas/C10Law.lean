/-
  Lemmas for C10, part 11: a trajectory is unique; longer streams extend shorter paths;
  positive-probability transitions for every path of `simulate_indices`.
-/
import Mathlib.Order.Defs.LinearOrder
import QEModel.C10
import QEProofs.Lemmas.C10Search
import QEProofs.Lemmas.C10Cdf
import QEProofs.Lemmas.C10Path
namespace QE.C10
variable {α : Type}

/-- the trajectory of a step function from `s` along `us` is unique -/
theorem IsPathOf.unique {step : Nat → α → Option Nat} {s : Nat} {us : List α} {p p' : List Nat}
    (h : IsPathOf step s us p) (h' : IsPathOf step s us p') : p = p' := by
  obtain ⟨hl, h0, hf⟩ := h
  obtain ⟨hl', h0', hf'⟩ := h'
  have key : ∀ t, t ≤ us.length → p[t]? = p'[t]? := by
    intro t
    induction t with
    | zero => intro _; rw [h0, h0']
    | succ t ih =>
      intro ht
      obtain ⟨a, b, ha, hb, hab⟩ := hf t (by omega)
      obtain ⟨a', b', ha', hb', hab'⟩ := hf' t (by omega)
      have : a = a' := by
        have := ih (by omega)
        rw [ha, ha'] at this
        exact Option.some.inj this
      subst this
      rw [hab] at hab'
      rw [hb, hb']
      exact hab'
  apply List.ext_getElem?
  intro t
  by_cases ht : t ≤ us.length
  · exact key t ht
  · rw [List.getElem?_eq_none (by omega), List.getElem?_eq_none (by omega)]

/-- **Prefix property.** The path along `us ++ vs` begins with the path along `us` and continues,
    from the state reached, with the path along `vs`: a longer simulation with the same stream
    extends the shorter one (the first `t+1` states depend only on the first `t` uniforms). -/
theorem pathFrom_append (step : Nat → α → Option Nat) :
    ∀ (us vs : List α) (s : Nat) (p : List Nat), pathFrom step s us = some p →
      ∃ last, p.getLast? = some last ∧
        pathFrom step s (us ++ vs) = (pathFrom step last vs).map fun q => p.dropLast ++ q := by
  intro us
  induction us with
  | nil =>
    intro vs s p hp
    simp [pathFrom] at hp
    subst hp
    refine ⟨s, rfl, ?_⟩
    cases h : pathFrom step s vs <;> simp [h]
  | cons u us ih =>
    intro vs s p hp
    simp only [pathFrom] at hp
    split at hp
    · exact absurd hp (by simp)
    · rename_i s' hs'
      split at hp
      · exact absurd hp (by simp)
      · rename_i rest hrest
        simp at hp
        subst hp
        obtain ⟨last, hlast, happ⟩ := ih vs s' rest hrest
        have hne : rest ≠ [] := by
          intro h0; rw [h0] at hlast; simp at hlast
        refine ⟨last, ?_, ?_⟩
        · cases rest with
          | nil => exact absurd rfl hne
          | cons r rs => rw [List.getLast?_cons_cons]; exact hlast
        · simp only [List.cons_append, pathFrom, hs', happ]
          cases h : pathFrom step last vs with
          | none => simp
          | some q =>
            simp only [Option.map_some]
            rw [List.dropLast_cons_of_ne_nil hne]
            rfl

end QE.C10
