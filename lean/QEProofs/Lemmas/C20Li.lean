/-
  Lemmas for C20, part 4: the revision loop of `LocalInteraction._play` (a fold over the revisers
  that reads the OLD profile and writes the new one).
-/
import QEProofs.Lemmas.C20Br
namespace QE.C20

section li
variable {K : Type} [CommRing K] [LinearOrder K] [IsStrictOrderedRing K]

/-- the loop body `actions[i] = players[i].best_response(opponent_act_dict[k, :], …)` -/
def liBody (G : Game K) (adj : List (List K)) (old : List Nat) (acc : List Nat × List Nat) (i : Nat) :
    List Nat × List Nat :=
  ((acc.1.set i (brPick G (nbrCounts (adj.getD i []) old G.A.length) none acc.2).1),
   (brPick G (nbrCounts (adj.getD i []) old G.A.length) none acc.2).2)

omit [IsStrictOrderedRing K] in
theorem liPlay_eq_foldl (G : Game K) (adj : List (List K)) (revs old ri : List Nat) :
    liPlay G adj revs old ri = revs.foldl (liBody G adj old) (old, ri) := rfl

omit [IsStrictOrderedRing K] in
theorem liFold_length (G : Game K) (adj : List (List K)) (old : List Nat) :
    ∀ (revs : List Nat) (acc : List Nat × List Nat),
      (revs.foldl (liBody G adj old) acc).1.length = acc.1.length := by
  intro revs
  induction revs with
  | nil => intro acc; rfl
  | cons r rest ih => intro acc; simp only [List.foldl_cons]; rw [ih]; simp [liBody]

theorem liFold_range (G : Game K) (adj : List (List K)) (old : List Nat) (hn : 0 < G.A.length) :
    ∀ (revs : List Nat) (acc : List Nat × List Nat), (∀ v ∈ acc.1, v < G.A.length) →
      ∀ v ∈ (revs.foldl (liBody G adj old) acc).1, v < G.A.length := by
  intro revs
  induction revs with
  | nil => intro acc h; exact h
  | cons r rest ih =>
    intro acc h
    simp only [List.foldl_cons]
    apply ih
    intro v hv
    rcases List.mem_or_eq_of_mem_set hv with hv | rfl
    · exact h v hv
    · exact brPick_fst_lt G _ none acc.2 hn

omit [IsStrictOrderedRing K] in
theorem liFold_untouched (G : Game K) (adj : List (List K)) (old : List Nat) (i : Nat) :
    ∀ (revs : List Nat) (acc : List Nat × List Nat), i ∉ revs →
      (revs.foldl (liBody G adj old) acc).1[i]? = acc.1[i]? := by
  intro revs
  induction revs with
  | nil => intro acc _; rfl
  | cons r rest ih =>
    intro acc hi
    simp only [List.foldl_cons]
    rw [ih _ (fun h => hi (List.mem_cons_of_mem _ h))]
    have : r ≠ i := fun h => hi (by rw [h]; simp)
    simp [liBody, List.getElem?_set_ne this]

omit [IsStrictOrderedRing K] in
theorem liBody_smallest (G : Game K) (adj : List (List K)) (old : List Nat) (acc : List Nat × List Nat)
    (i : Nat) (hrnd : G.rnd = false) :
    liBody G adj old acc i =
      (acc.1.set i ((brSet (payoffVec G.A (nbrCounts (adj.getD i []) old G.A.length)) G.tol).headD 0), acc.2) := by
  simp [liBody, brPick, hrnd, pick_smallest, addPert]

omit [IsStrictOrderedRing K] in
theorem liFold_smallest (G : Game K) (adj : List (List K)) (old : List Nat) (i : Nat) (hrnd : G.rnd = false) :
    ∀ (revs : List Nat) (acc : List Nat × List Nat), i ∈ revs → i < acc.1.length →
      (revs.foldl (liBody G adj old) acc).1[i]? =
        some ((brSet (payoffVec G.A (nbrCounts (adj.getD i []) old G.A.length)) G.tol).headD 0) := by
  intro revs
  induction revs with
  | nil => intro acc hi; simp at hi
  | cons r rest ih =>
    intro acc hi hl
    simp only [List.foldl_cons]
    by_cases hir : i ∈ rest
    · apply ih _ hir
      simpa [liBody] using hl
    · have hri : i = r := by
        rcases List.mem_cons.1 hi with h | h
        · exact h
        · exact absurd h hir
      subst hri
      rw [liFold_untouched G adj old i rest _ hir, liBody_smallest G adj old acc i hrnd]
      simp [hl]

omit [IsStrictOrderedRing K] in
theorem liFold_stream_smallest (G : Game K) (adj : List (List K)) (old : List Nat) (hrnd : G.rnd = false) :
    ∀ (revs : List Nat) (acc : List Nat × List Nat), (revs.foldl (liBody G adj old) acc).2 = acc.2 := by
  intro revs
  induction revs with
  | nil => intro acc; rfl
  | cons r rest ih => intro acc; simp only [List.foldl_cons]; rw [ih, liBody_smallest G adj old acc r hrnd]

/-- guard for random tie-breaking inside the loop: every index drawn is a valid index into the
    then-current set of best responses (what `randint(len)` returns); the stream is threaded exactly
    as the loop does -/
def LiGuard (G : Game K) (adj : List (List K)) (old : List Nat) : List Nat → List Nat → Prop
  | [], _ => True
  | i :: rest, ri =>
    (G.rnd = true → (brSet (payoffVec G.A (nbrCounts (adj.getD i []) old G.A.length)) G.tol).length ≠ 1 →
        ri.headD 0 < (brSet (payoffVec G.A (nbrCounts (adj.getD i []) old G.A.length)) G.tol).length) ∧
      LiGuard G adj old rest (brPick G (nbrCounts (adj.getD i []) old G.A.length) none ri).2

theorem liFold_random_mem (G : Game K) (adj : List (List K)) (old : List Nat) (i : Nat)
    (hn : 0 < G.A.length) (htol : 0 ≤ G.tol) :
    ∀ (revs : List Nat) (acc : List Nat × List Nat), LiGuard G adj old revs acc.2 → i ∈ revs →
      i < acc.1.length →
      ∃ b, (revs.foldl (liBody G adj old) acc).1[i]? = some b ∧
        b ∈ brSet (payoffVec G.A (nbrCounts (adj.getD i []) old G.A.length)) G.tol := by
  intro revs
  induction revs with
  | nil => intro acc _ hi; simp at hi
  | cons r rest ih =>
    intro acc hg hi hl
    simp only [List.foldl_cons]
    by_cases hir : i ∈ rest
    · exact ih _ hg.2 hir (by simpa [liBody] using hl)
    · have hri : i = r := by
        rcases List.mem_cons.1 hi with h | h
        · exact h
        · exact absurd h hir
      subst hri
      have hpv : addPert (payoffVec G.A (nbrCounts (adj.getD i []) old G.A.length)) none ≠ [] := by
        intro h
        have hl2 := payoffVec_length G.A (nbrCounts (adj.getD i []) old G.A.length)
        have : payoffVec G.A (nbrCounts (adj.getD i []) old G.A.length) = [] := h
        rw [this] at hl2; simp at hl2; omega
      have hmem := brPick_mem_brSet G (nbrCounts (adj.getD i []) old G.A.length) none acc.2 hpv htol hg.1
      refine ⟨_, ?_, hmem⟩
      rw [liFold_untouched G adj old i rest _ hir]
      simp [liBody, hl]

end li
end QE.C20
