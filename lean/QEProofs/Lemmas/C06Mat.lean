/-
  C06 helper lemmas, part 1:
  * the executable matrices `M K` read as Mathlib matrices (`toMat`) and the
    operations of `QEModel.MatAlg` as the Mathlib operations;
  * the abstract doubling algebra in a ring (`dsum`): doubling and residual.
-/
import QEModel.C06
import QEProofs.Lemmas.MatBridge
import Mathlib.Data.Matrix.Basic
import Mathlib.Data.Matrix.Mul
import Mathlib.Algebra.BigOperators.Fin
import Mathlib.Algebra.BigOperators.Intervals
import Mathlib.Tactic.Ring
import Mathlib.Tactic.NoncommRing

namespace QE.C06
open QE QE.MatAlg Finset

/-! ### abstract doubling sums -/

section alg
variable {R : Type*} [Ring R]

/-- `Σ_{j<m} a^j b a'^j` -/
def dsum (a b a' : R) (m : ℕ) : R := ∑ j ∈ range m, a ^ j * b * a' ^ j

theorem dsum_add (a b a' : R) (m p : ℕ) :
    dsum a b a' (m + p) = dsum a b a' m + a ^ m * dsum a b a' p * a' ^ m := by
  unfold dsum
  rw [sum_range_add, mul_sum, sum_mul]
  congr 1
  apply sum_congr rfl
  intro j _
  rw [pow_add, add_comm m j, pow_add]
  noncomm_ring

theorem dsum_double (a b a' : R) (m : ℕ) :
    dsum a b a' (2 * m) = dsum a b a' m + a ^ m * dsum a b a' m * a' ^ m := by
  rw [two_mul, dsum_add]

/-- the Lyapunov residual of a partial sum is exactly the tail term -/
theorem dsum_residual (a b a' : R) (m : ℕ) :
    a * dsum a b a' m * a' - dsum a b a' m + b = a ^ m * b * a' ^ m := by
  induction m with
  | zero => simp [dsum]
  | succ m ih =>
    have h1 : dsum a b a' (m + 1) = dsum a b a' m + a ^ m * b * a' ^ m := by
      unfold dsum; rw [sum_range_succ]
    rw [h1, pow_succ' a m, pow_succ a' m]
    have : a * (dsum a b a' m + a ^ m * b * a' ^ m) * a' - (dsum a b a' m + a ^ m * b * a' ^ m) + b
        = (a * dsum a b a' m * a' - dsum a b a' m + b) + a * (a ^ m * b * a' ^ m) * a' - a ^ m * b * a' ^ m := by
      noncomm_ring
    rw [this, ih]
    noncomm_ring

/-- any solution of `a y a' − y + b = 0` is the partial sum plus the transported tail -/
theorem solution_eq_dsum_add_tail (a b a' y : R) (h : a * y * a' - y + b = 0) (m : ℕ) :
    y = dsum a b a' m + a ^ m * y * a' ^ m := by
  have hy : a * y * a' = y - b := by
    have : a * y * a' = (a * y * a' - y + b) + (y - b) := by noncomm_ring
    rw [this, h, zero_add]
  induction m with
  | zero => simp [dsum]
  | succ m ih =>
    have h1 : dsum a b a' (m + 1) = dsum a b a' m + a ^ m * b * a' ^ m := by
      unfold dsum; rw [sum_range_succ]
    have h2 : a ^ (m + 1) * y * a' ^ (m + 1) = a ^ m * (a * y * a') * a' ^ m := by
      rw [pow_succ a m, pow_succ' a' m]; noncomm_ring
    rw [h1, h2, hy]
    have : dsum a b a' m + a ^ m * b * a' ^ m + a ^ m * (y - b) * a' ^ m
        = dsum a b a' m + a ^ m * y * a' ^ m := by noncomm_ring
    rw [this]
    exact ih

end alg

/-! ### executable matrices as Mathlib matrices -/

section bridge
variable {K : Type} [CommRing K]

/-- the `n × m` Mathlib matrix of the entries of `A` -/
def toMat (n m : ℕ) (A : M K) : Matrix (Fin n) (Fin m) K := fun i j => A.get i j

/-- `A` has shape `n × m` -/
structure Dim (A : M K) (n m : ℕ) : Prop where
  nr : A.nr = n
  nc : A.nc = m

theorem mneg_get (A : M K) (i j : ℕ) (hi : i < A.nr) (hj : j < A.nc) :
    (mneg A).get i j = - A.get i j := by
  unfold mneg; rw [M.get_tab _ _ _ _ _ hi hj]

theorem dim_mmul {A B : M K} {n m p : ℕ} (hA : Dim A n m) (hB : Dim B m p) : Dim (mmul A B) n p :=
  ⟨by simp [hA.nr], by simp [hB.nc]⟩
theorem dim_madd {A B : M K} {n m : ℕ} (hA : Dim A n m) : Dim (madd A B) n m :=
  ⟨by simp [hA.nr], by simp [hA.nc]⟩
theorem dim_msub {A B : M K} {n m : ℕ} (hA : Dim A n m) : Dim (msub A B) n m :=
  ⟨by simp [hA.nr], by simp [hA.nc]⟩
theorem dim_mT {A : M K} {n m : ℕ} (hA : Dim A n m) : Dim (mT A) m n :=
  ⟨by simp [hA.nc], by simp [hA.nr]⟩
theorem dim_smul {A : M K} {n m : ℕ} (c : K) (hA : Dim A n m) : Dim (smul c A) n m :=
  ⟨by simp [hA.nr], by simp [hA.nc]⟩
theorem dim_mneg {A : M K} {n m : ℕ} (hA : Dim A n m) : Dim (mneg A) n m :=
  ⟨by simp [mneg, M.tab, hA.nr], by simp [mneg, M.tab, hA.nc]⟩
theorem dim_ident (n : ℕ) : Dim (ident n : M K) n n := ⟨rfl, rfl⟩

theorem toMat_mmul {A B : M K} {n m p : ℕ} (hA : Dim A n m) (hB : Dim B m p) :
    toMat n p (mmul A B) = toMat n m A * toMat m p B := by
  ext i j
  have hi : (i : ℕ) < A.nr := by rw [hA.nr]; exact i.2
  have hj : (j : ℕ) < B.nc := by rw [hB.nc]; exact j.2
  simp only [toMat, Matrix.mul_apply]
  rw [mmul_get A B _ _ hi hj, hA.nc, ← Fin.sum_univ_eq_sum_range (fun k => A.get i k * B.get k j) m]

theorem toMat_madd {A B : M K} {n m : ℕ} (hA : Dim A n m) :
    toMat n m (madd A B) = toMat n m A + toMat n m B := by
  ext i j
  have hi : (i : ℕ) < A.nr := by rw [hA.nr]; exact i.2
  have hj : (j : ℕ) < A.nc := by rw [hA.nc]; exact j.2
  simp only [toMat, Matrix.add_apply]
  rw [madd_get A B _ _ hi hj]

theorem toMat_msub {A B : M K} {n m : ℕ} (hA : Dim A n m) :
    toMat n m (msub A B) = toMat n m A - toMat n m B := by
  ext i j
  have hi : (i : ℕ) < A.nr := by rw [hA.nr]; exact i.2
  have hj : (j : ℕ) < A.nc := by rw [hA.nc]; exact j.2
  simp only [toMat, Matrix.sub_apply]
  rw [msub_get A B _ _ hi hj]

theorem toMat_mneg {A : M K} {n m : ℕ} (hA : Dim A n m) :
    toMat n m (mneg A) = - toMat n m A := by
  ext i j
  have hi : (i : ℕ) < A.nr := by rw [hA.nr]; exact i.2
  have hj : (j : ℕ) < A.nc := by rw [hA.nc]; exact j.2
  simp only [toMat, Matrix.neg_apply]
  rw [mneg_get A _ _ hi hj]

theorem toMat_smul {A : M K} {n m : ℕ} (c : K) (hA : Dim A n m) :
    toMat n m (smul c A) = c • toMat n m A := by
  ext i j
  have hi : (i : ℕ) < A.nr := by rw [hA.nr]; exact i.2
  have hj : (j : ℕ) < A.nc := by rw [hA.nc]; exact j.2
  simp only [toMat, Matrix.smul_apply, smul_eq_mul]
  rw [smul_get c A _ _ hi hj]

theorem toMat_mT {A : M K} {n m : ℕ} (hA : Dim A n m) :
    toMat m n (mT A) = (toMat n m A).transpose := by
  ext i j
  have hi : (i : ℕ) < A.nc := by rw [hA.nc]; exact i.2
  have hj : (j : ℕ) < A.nr := by rw [hA.nr]; exact j.2
  simp only [toMat, Matrix.transpose_apply]
  rw [mT_get A _ _ hi hj]

theorem toMat_ident (n : ℕ) : toMat n n (ident n : M K) = 1 := by
  ext i j
  simp only [toMat]
  rw [ident_get n _ _ i.2 j.2, Matrix.one_apply]
  simp [Fin.ext_iff]

end bridge
end QE.C06
