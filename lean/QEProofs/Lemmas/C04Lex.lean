/-
  C04 — lexicographic order on vectors read along a list of columns (the order the
  lexicographic ratio test of `_lex_min_ratio_test` uses: right-hand side first, then the
  `slack_start` block), and its algebra.
-/
import QEProofs.Lemmas.C04Defs
namespace QE.C04
open QE QE.Pivot Finset

variable {K : Type} [Field K] [LinearOrder K] [IsStrictOrderedRing K]

/-- `u` is lexicographically smaller than `v` along the columns `cols` -/
def LexLt : List ℕ → (ℕ → K) → (ℕ → K) → Prop
  | [], _, _ => False
  | j :: js, u, v => u j < v j ∨ (u j = v j ∧ LexLt js u v)

/-- the first non-zero entry along `cols` exists and is positive -/
def LexPos (cols : List ℕ) (u : ℕ → K) : Prop := LexLt cols (fun _ => 0) u

omit [Field K] [IsStrictOrderedRing K] in
theorem lexLt_irrefl (cols : List ℕ) (u : ℕ → K) : ¬ LexLt cols u u := by
  induction cols with
  | nil => exact fun h => h
  | cons j js ih =>
    rintro (h | ⟨_, h⟩)
    · exact lt_irrefl _ h
    · exact ih h

omit [Field K] [IsStrictOrderedRing K] in
theorem lexLt_trans (cols : List ℕ) (u v w : ℕ → K) (h1 : LexLt cols u v) (h2 : LexLt cols v w) :
    LexLt cols u w := by
  induction cols with
  | nil => exact h1
  | cons j js ih =>
    rcases h1 with h1 | ⟨e1, h1⟩
    · rcases h2 with h2 | ⟨e2, _⟩
      · exact Or.inl (lt_trans h1 h2)
      · exact Or.inl (by rw [← e2]; exact h1)
    · rcases h2 with h2 | ⟨e2, h2⟩
      · exact Or.inl (by rw [e1]; exact h2)
      · exact Or.inr ⟨e1.trans e2, ih h1 h2⟩

omit [Field K] [IsStrictOrderedRing K] in
theorem lexLt_congr (cols : List ℕ) (u v u' v' : ℕ → K) (hu : ∀ j ∈ cols, u j = u' j)
    (hv : ∀ j ∈ cols, v j = v' j) (h : LexLt cols u v) : LexLt cols u' v' := by
  induction cols with
  | nil => exact h
  | cons j js ih =>
    have e1 := hu j (by simp)
    have e2 := hv j (by simp)
    rcases h with h | ⟨e, h⟩
    · exact Or.inl (by rw [← e1, ← e2]; exact h)
    · exact Or.inr ⟨by rw [← e1, ← e2]; exact e,
        ih (fun j hj => hu j (List.mem_cons_of_mem _ hj)) (fun j hj => hv j (List.mem_cons_of_mem _ hj)) h⟩

theorem lexLt_iff_pos (cols : List ℕ) (u v : ℕ → K) :
    LexLt cols u v ↔ LexPos cols (fun j => v j - u j) := by
  unfold LexPos
  induction cols with
  | nil => exact Iff.rfl
  | cons j js ih =>
    constructor
    · rintro (h | ⟨e, h⟩)
      · exact Or.inl (sub_pos.mpr h)
      · exact Or.inr ⟨by simp [e], ih.mp h⟩
    · rintro (h | ⟨e, h⟩)
      · exact Or.inl (sub_pos.mp h)
      · exact Or.inr ⟨(sub_eq_zero.mp e.symm).symm, ih.mpr h⟩

theorem lexPos_smul (cols : List ℕ) (a : K) (u : ℕ → K) (ha : 0 < a) (h : LexPos cols u) :
    LexPos cols (fun j => a * u j) := by
  unfold LexPos at *
  induction cols with
  | nil => exact h
  | cons j js ih =>
    rcases h with h | ⟨e, h⟩
    · exact Or.inl (mul_pos ha h)
    · refine Or.inr ⟨?_, ih h⟩
      dsimp only at e ⊢
      rw [← e]; simp

theorem lexPos_add (cols : List ℕ) (u v : ℕ → K) (hu : LexPos cols u) (hv : LexPos cols v) :
    LexPos cols (fun j => u j + v j) := by
  unfold LexPos at *
  induction cols with
  | nil => exact hu
  | cons j js ih =>
    rcases hu with hu | ⟨eu, hu⟩
    · rcases hv with hv | ⟨ev, _⟩
      · exact Or.inl (add_pos hu hv)
      · left; dsimp only at hu ev ⊢; rw [← ev, add_zero]; exact hu
    · rcases hv with hv | ⟨ev, hv⟩
      · left; dsimp only at hv eu ⊢; rw [← eu, zero_add]; exact hv
      · refine Or.inr ⟨?_, ih hu hv⟩
        dsimp only at eu ev ⊢; rw [← eu, ← ev, add_zero]

omit [IsStrictOrderedRing K] in
theorem lexPosB_iff (cols : List ℕ) (u : ℕ → K) : lexPosB u cols = true ↔ LexPos cols u := by
  unfold LexPos
  induction cols with
  | nil => simp [lexPosB, LexLt]
  | cons j js ih =>
    simp only [lexPosB, LexLt, Bool.or_eq_true, decide_eq_true_eq, Bool.and_eq_true, beq_iff_eq]
    rw [ih]
    constructor
    · rintro (h | ⟨e, h⟩)
      · exact Or.inl h
      · exact Or.inr ⟨e.symm, h⟩
    · rintro (h | ⟨e, h⟩)
      · exact Or.inl h
      · exact Or.inr ⟨e.symm, h⟩

end QE.C04
