import QEProofs.AuditTool
import QEProofs.Properties.C16
