import QEModel.C18
import QEModel.DriverLoop
def main : IO Unit := QE.driverMain "C18" QE.C18.handle
