import QEModel.C14
import QEModel.DriverLoop
def main : IO Unit := QE.driverMain "C14" QE.C14.handle
