import QEModel.C13
import QEModel.DriverLoop
def main : IO Unit := QE.driverMain "C13" QE.C13.handle
