import QEModel.C03
import QEModel.DriverLoop
def main : IO Unit := QE.driverMain "C03" QE.C03.handle
