import QEModel.C16
import QEModel.DriverLoop
def main : IO Unit := QE.driverMain "C16" QE.C16.handle
