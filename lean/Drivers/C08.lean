import QEModel.C08
import QEModel.DriverLoop
def main : IO Unit := QE.driverMain "C08" QE.C08.handle
