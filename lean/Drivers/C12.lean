import QEModel.C12
import QEModel.DriverLoop
def main : IO Unit := QE.driverMain "C12" QE.C12.handle
