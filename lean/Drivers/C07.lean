import QEModel.C07
import QEModel.DriverLoop
def main : IO Unit := QE.driverMain "C07" QE.C07.handle
