import QEModel.C11
import QEModel.DriverLoop
def main : IO Unit := QE.driverMain "C11" QE.C11.handle
