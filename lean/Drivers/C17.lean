import QEModel.C17
import QEModel.DriverLoop
def main : IO Unit := QE.driverMain "C17" QE.C17.handle
