import QEModel.C09
import QEModel.DriverLoop
def main : IO Unit := QE.driverMain "C09" QE.C09.handle
