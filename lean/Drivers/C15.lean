import QEModel.C15
import QEModel.DriverLoop
def main : IO Unit := QE.driverMain "C15" QE.C15.handle
