import QEModel.C05
import QEModel.DriverLoop
def main : IO Unit := QE.driverMain "C05" QE.C05.handle
