import QEModel.C19
import QEModel.DriverLoop
def main : IO Unit := QE.driverMain "C19" QE.C19.handle
