import QEModel.C10
import QEModel.DriverLoop
def main : IO Unit := QE.driverMain "C10" QE.C10.handle
