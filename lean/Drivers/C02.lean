import QEModel.C02
import QEModel.DriverLoop
def main : IO Unit := QE.driverMain "C02" QE.C02.handle
