import QEModel.C20
import QEModel.DriverLoop
def main : IO Unit := QE.driverMain "C20" QE.C20.handle
