import QEModel.C04
import QEModel.DriverLoop
def main : IO Unit := QE.driverMain "C04" QE.C04.handle
