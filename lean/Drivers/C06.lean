import QEModel.C06
import QEModel.DriverLoop
def main : IO Unit := QE.driverMain "C06" QE.C06.handle
