import QEModel.C01
import QEModel.DriverLoop
def main : IO Unit := QE.driverMain "C01" QE.C01.handle
