/-
  qedriver — line-protocol driver. One request per input line:
      <property-id> <op> key=value …
  One canonical answer line per request. Unknown requests answer `bad-op`.
-/
import QEModel

open QE

def dispatch (line : String) : String :=
  let toks := (line.splitOn " ").filter (· ≠ "")
  match toks with
  | "C01" :: r => C01.handle r
  | "C02" :: r => C02.handle r
  | "C03" :: r => C03.handle r
  | "C04" :: r => C04.handle r
  | "C05" :: r => C05.handle r
  | "C06" :: r => C06.handle r
  | "C07" :: r => C07.handle r
  | "C08" :: r => C08.handle r
  | "C09" :: r => C09.handle r
  | "C10" :: r => C10.handle r
  | "C11" :: r => C11.handle r
  | "C12" :: r => C12.handle r
  | "C13" :: r => C13.handle r
  | "C14" :: r => C14.handle r
  | "C15" :: r => C15.handle r
  | "C16" :: r => C16.handle r
  | "C17" :: r => C17.handle r
  | "C18" :: r => C18.handle r
  | "C19" :: r => C19.handle r
  | "C20" :: r => C20.handle r
  | _ => "bad-op"

partial def loop (h : IO.FS.Stream) (out : IO.FS.Stream) : IO Unit := do
  let line ← h.getLine
  if line.isEmpty then return ()
  let l := (line.dropEndWhile (fun c => c == '\n' || c == '\r')).toString
  out.putStrLn (dispatch l)
  loop h out

def main : IO Unit := do
  let stdin ← IO.getStdin
  let stdout ← IO.getStdout
  loop stdin stdout
  stdout.flush
