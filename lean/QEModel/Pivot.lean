/-
  QEModel.Pivot — the pivoting core shared by linprog_simplex (C04, C01-LP),
  lemke_howson (C05, C15) and lcp_lemke (C11).
  Mirrors quantecon/optimize/pivoting.py: `_pivoting`,
  `_min_ratio_test_no_tie_breaking`, `_lex_min_ratio_test`.
  Scalar-generic: instantiate at an ordered field for theorems, at `Rat` for
  exact reference runs and at `Float` for bit-level trace fidelity.
-/
import QEModel.Base
namespace QE.Pivot
open QE

variable {α : Type} [Zero α] [Add α] [Sub α] [Mul α] [Div α] [LT α] [LE α]
  [DecidableLT α] [DecidableLE α] [BEq α]

/-- `_pivoting(tableau, pivot_col, pivot_row)`; returns the new tableau.
    The pivot row is divided by the pivot element; from every other row whose
    entry `m` in the pivot column is not `0` the new pivot row times `m` is
    subtracted (rows with `m == 0` are skipped, exactly as the code does). -/
def pivot (T : M α) (c r : Nat) : M α :=
  let p := T.get r c
  M.tab T.nr T.nc fun i j =>
    if i = r then T.get r j / p
    else
      let m := T.get i c
      if m == 0 then T.get i j else T.get i j - (T.get r j / p) * m

/-- state of the no-tie-breaking scan: current minimum (none = +inf) and minimisers -/
abbrev MRState (α : Type) := Option α × List Nat

def minRatioStep (T : M α) (pivotc testc : Nat) (tolPiv tolDiff : α) (st : MRState α) (i : Nat) :
    MRState α :=
  if T.get i pivotc ≤ tolPiv then st
  else
    let ratio := T.get i testc / T.get i pivotc
    match st.1 with
    | none => (some ratio, [i])
    | some rmin =>
      if rmin + tolDiff < ratio then st
      else if ratio < rmin - tolDiff then (some ratio, [i])
      else (some rmin, st.2 ++ [i])

/-- `_min_ratio_test_no_tie_breaking` on the candidate rows `cands`
    (`argmins[:num_candidates]`); returns `argmins[:num_argmins]`. -/
def minRatioNoTie (T : M α) (pivotc testc : Nat) (cands : List Nat) (tolPiv tolDiff : α) : List Nat :=
  (cands.foldl (minRatioStep T pivotc testc tolPiv tolDiff) (none, [])).2

/-- the `for j in range(slack_start, slack_start+nrows)` loop of `_lex_min_ratio_test` -/
def lexLoop (T : M α) (pivotc : Nat) (tolPiv tolDiff : α) : List Nat → List Nat → Bool × List Nat
  | [], a => (false, a)
  | j :: js, a =>
    if j = pivotc then lexLoop T pivotc tolPiv tolDiff js a
    else
      let a' := minRatioNoTie T pivotc j a tolPiv tolDiff
      if a'.length = 1 then (true, a') else lexLoop T pivotc tolPiv tolDiff js a'

/-- `_lex_min_ratio_test(tableau, pivot, slack_start, argmins, tol_piv, tol_ratio_diff)`;
    returns `(found, argmins[0])`. The test column of the first pass is the last column. -/
def lexMinRatio (T : M α) (pivotc slackStart : Nat) (tolPiv tolDiff : α) : Bool × Nat :=
  let a0 := minRatioNoTie T pivotc (T.nc - 1) (List.range T.nr) tolPiv tolDiff
  if a0.length = 1 then (true, a0.headD 0)
  else if a0.length ≥ 2 then
    let r := lexLoop T pivotc tolPiv tolDiff ((List.range T.nr).map (· + slackStart)) a0
    (r.1, r.2.headD 0)
  else (false, 0)

/-- IEEE doubles of the code's default tolerances -/
def tolPivF : Float := 1e-10
def tolRatioDiffF : Float := 1e-15

end QE.Pivot
