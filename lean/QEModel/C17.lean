/-
  QEModel.C17 — executable model for property C17 (stub; to be filled in).
-/
import QEModel.Base
namespace QE.C17

def handle (_toks : List String) : String := "bad-op"

end QE.C17
