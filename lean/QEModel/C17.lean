/-
  QEModel.C17 — root finders and maximisers (scalar loops, scalar-generic).
  Mirrors: quantecon/optimize/root_finding.py (newton 24-107, newton_halley 110-193,
  newton_secant 196-274, _bisect_interval 277-293, bisect 296-374, brentq 377-497),
  quantecon/optimize/scalar_maximization.py (brent_max 4-149),
  quantecon/optimize/nelder_mead.py (_nelder_mead_algorithm 125-296, _initialize_simplex
  299-337, _check_bounds/_neg_bounded_fun 384-445).
  The objective function (and its derivatives) is a parameter of every routine; the driver
  instantiates it with a small postfix program evaluated in the same operation order as the
  jitted interpreter used by the harness.
  Parameters (not modelled): `np.sqrt(2.2e-16)`, `0.5*(3-np.sqrt(5))` (brent_max), the
  constants `1+1e-4`, `1e-4` (secant), `1.05`, `0.00025` (initial simplex).
-/
import QEModel.Base
namespace QE.C17

/-! ### outcomes -/

/-- `results(root, function_calls, iterations, converged)` -/
structure Res (α : Type) where
  root : α
  calls : Nat
  iters : Nat
  conv : Bool
deriving Repr

inductive Out (α : Type) where
  | ok (r : Res α)
  | valueError
  | runtimeError
deriving Repr

section generic
variable {α : Type} [Zero α] [One α] [Add α] [Sub α] [Mul α] [Div α] [Neg α]
  [LT α] [LE α] [DecidableLT α] [DecidableLE α] [BEq α]

/-- `abs` -/
def absv (x : α) : α := if x < 0 then -x else x
/-- the literal `2` / `2.0` -/
def two : α := 1 + 1
/-- the literal `3` -/
def three : α := 1 + 1 + 1
/-- the literal `0.5` (exact in binary floating point) -/
def half : α := 1 / (1 + 1)
/-- Python `min(a, b)` -/
def pmin (a b : α) : α := if b < a then b else a
/-- `np.maximum(a, b)` -/
def npmax (a b : α) : α := if a < b then b else a
/-- `np.sign` -/
def sgn (x : α) : α := if x < 0 then -1 else if 0 < x then 1 else 0

/-- `if disp and status == _ECONVERR: raise RuntimeError` -/
def finish (disp : Bool) (r : Res α) : Out α :=
  if disp && !r.conv then .runtimeError else .ok r

/-! ### newton (root_finding.py 68-107) -/

/-- the `for itr in range(maxiter)` loop; `itr` iterations completed, current point `p0`. -/
def newtonLoop (f fp : α → α) (tol : α) : Nat → Nat → α → Nat → Res α
  | 0, itr, p0, calls => ⟨p0, calls, itr, false⟩
  | fuel + 1, itr, p0, calls =>
    let fval := f p0
    if fval == 0 then ⟨p0, calls + 1, itr, true⟩
    else
      let fder := fp p0
      if fder == 0 then ⟨p0, calls + 2, itr + 1, false⟩
      else
        let p := p0 - fval / fder
        if absv (p - p0) < tol then ⟨p, calls + 2, itr + 1, true⟩
        else newtonLoop f fp tol fuel (itr + 1) p (calls + 2)

def newton (f fp : α → α) (x0 tol : α) (maxiter : Int) (disp : Bool) : Out α :=
  if tol ≤ 0 then .valueError
  else if maxiter < 1 then .valueError
  else finish disp (newtonLoop f fp tol maxiter.toNat 0 x0 0)

/-! ### newton_halley (root_finding.py 153-193) -/

def halleyLoop (f fp fpp : α → α) (tol : α) : Nat → Nat → α → Nat → Res α
  | 0, itr, p0, calls => ⟨p0, calls, itr, false⟩
  | fuel + 1, itr, p0, calls =>
    let fval := f p0
    if fval == 0 then ⟨p0, calls + 1, itr, true⟩
    else
      let fder := fp p0
      if fder == 0 then ⟨p0, calls + 2, itr + 1, false⟩
      else
        let step := fval / fder
        let fder2 := fpp p0
        let p := p0 - step / (1 - half * step * fder2 / fder)
        if absv (p - p0) < tol then ⟨p, calls + 2, itr + 1, true⟩
        else halleyLoop f fp fpp tol fuel (itr + 1) p (calls + 2)

def halley (f fp fpp : α → α) (x0 tol : α) (maxiter : Int) (disp : Bool) : Out α :=
  if tol ≤ 0 then .valueError
  else if maxiter < 1 then .valueError
  else finish disp (halleyLoop f fp fpp tol maxiter.toNat 0 x0 0)

/-! ### newton_secant (root_finding.py 235-274) -/

def secantLoop (f : α → α) (tol : α) : Nat → Nat → α → α → α → α → Nat → Res α
  | 0, itr, _, p1, _, _, calls => ⟨p1, calls, itr, false⟩
  | fuel + 1, itr, p0, p1, q0, q1, calls =>
    if q1 == q0 then ⟨(p1 + p0) / two, calls, itr + 1, true⟩
    else
      let p := p1 - q1 * (p1 - p0) / (q1 - q0)
      if absv (p - p1) < tol then ⟨p, calls, itr + 1, true⟩
      else secantLoop f tol fuel (itr + 1) p1 p q1 (f p) (calls + 1)

/-- `k1 = 1 + 1e-4`, `k2 = 1e-4` -/
def secantP1 (k1 k2 x0 : α) : α := if 0 ≤ x0 then x0 * k1 + k2 else x0 * k1 - k2

def secant (f : α → α) (k1 k2 x0 tol : α) (maxiter : Int) (disp : Bool) : Out α :=
  if tol ≤ 0 then .valueError
  else if maxiter < 1 then .valueError
  else
    let p1 := secantP1 k1 k2 x0
    finish disp (secantLoop f tol maxiter.toNat 0 x0 p1 (f x0) (f p1) 2)

/-! ### bisect (root_finding.py 277-374) -/

/-- `_bisect_interval` after the same-sign test: `(root, converged)` -/
def bisectInterval (a b fa fb : α) : α × Bool :=
  let r0 : α × Bool := (0, false)
  let r1 := if fa == 0 then (a, true) else r0
  if fb == 0 then (b, true) else r1

/-- the bisection loop; `fa` is the value at the *original* left end (never updated). -/
def bisectLoop (f : α → α) (xtol rtol fa : α) : Nat → Nat → α → α → Nat → Res α
  | 0, itr, _, _, calls => ⟨0, calls, itr - 1, false⟩
  | fuel + 1, itr, xa, dm, calls =>
    let dm' := dm * half
    let xm := xa + dm'
    let fm := f xm
    let xa' := if 0 ≤ fm * fa then xm else xa
    if fm == 0 || absv dm' < xtol + rtol * absv xm then ⟨xm, calls + 1, itr + 1, true⟩
    else bisectLoop f xtol rtol fa fuel (itr + 1) xa' dm' (calls + 1)

def bisect (f : α → α) (a b xtol rtol : α) (maxiter : Int) (disp : Bool) : Out α :=
  if xtol ≤ 0 then .valueError
  else if maxiter < 1 then .valueError
  else
    let fa := f a
    let fb := f b
    if 0 < fa * fb then .valueError
    else
      let rs := bisectInterval a b fa fb
      if rs.2 then finish disp ⟨rs.1, 2, 0, true⟩
      else finish disp (bisectLoop f xtol rtol fa maxiter.toNat 0 a (b - a) 2)

/-- repeated halving: `some (k0 + j)` for the least `j` in `1..fuel` with `|d·(1/2)^j| < xtol`
    (`d` is the current width, already halved `k0` times), `none` if there is none -/
def halvingsAux (xtol : α) : Nat → α → Nat → Option Nat
  | 0, _, _ => none
  | fuel + 1, d, k =>
    let d' := d * half
    if absv d' < xtol then some (k + 1) else halvingsAux xtol fuel d' (k + 1)

/-- the iteration bound of `bisect`: the least `k` in `1..cap` with `|b−a|/2^k < xtol` -/
def bisectK (a b xtol : α) (cap : Nat) : Option Nat := halvingsAux xtol cap (b - a) 0

/-! ### brentq (root_finding.py 416-497) -/

structure BQ (α : Type) where
  xpre : α
  xcur : α
  xblk : α
  fpre : α
  fcur : α
  fblk : α
  spre : α
  scur : α
deriving Repr

/-- `if fpre*fcur < 0: xblk = xpre; fblk = fpre; spre = scur = xcur - xpre` -/
def bqBlk (s : BQ α) : BQ α :=
  if s.fpre * s.fcur < 0 then
    { s with xblk := s.xpre, fblk := s.fpre, spre := s.xcur - s.xpre, scur := s.xcur - s.xpre }
  else s

/-- `if abs(fblk) < abs(fcur): rotate` -/
def bqSwap (s : BQ α) : BQ α :=
  if absv s.fblk < absv s.fcur then
    { s with xpre := s.xcur, xcur := s.xblk, xblk := s.xcur,
             fpre := s.fcur, fcur := s.fblk, fblk := s.fcur }
  else s

/-- step selection: returns the new `(spre, scur)` -/
def bqTry (s : BQ α) (delta sbis : α) : α × α :=
  if delta < absv s.spre ∧ absv s.fcur < absv s.fpre then
    let dpre := (s.fpre - s.fcur) / (s.xpre - s.xcur)
    let dblk := (s.fblk - s.fcur) / (s.xblk - s.xcur)
    let stry :=
      if s.xpre == s.xblk then -s.fcur * (s.xcur - s.xpre) / (s.fcur - s.fpre)
      else -s.fcur * (s.fblk * dblk - s.fpre * dpre) / (dblk * dpre * (s.fblk - s.fpre))
    if two * absv stry < pmin (absv s.spre) (three * absv sbis - delta) then (s.scur, stry)
    else (sbis, sbis)
  else (sbis, sbis)

/-- the new `xcur` -/
def bqNext (xcur scur delta sbis : α) : α :=
  if delta < absv scur then xcur + scur
  else xcur + (if 0 < sbis then delta else -delta)

def brentqLoop (f : α → α) (xtol rtol : α) : Nat → Nat → BQ α → Nat → Res α
  | 0, itr, _, calls => ⟨0, calls, itr - 1, false⟩
  | fuel + 1, itr, s, calls =>
    let s1 := bqSwap (bqBlk s)
    let delta := (xtol + rtol * absv s1.xcur) / two
    let sbis := (s1.xblk - s1.xcur) / two
    if s1.fcur == 0 || absv sbis < delta then ⟨s1.xcur, calls, itr + 1, true⟩
    else
      let ss := bqTry s1 delta sbis
      let xnew := bqNext s1.xcur ss.2 delta sbis
      brentqLoop f xtol rtol fuel (itr + 1)
        { s1 with xpre := s1.xcur, fpre := s1.fcur, xcur := xnew, fcur := f xnew,
                  spre := ss.1, scur := ss.2 } (calls + 1)

def brentq (f : α → α) (a b xtol rtol : α) (maxiter : Int) (disp : Bool) : Out α :=
  if xtol ≤ 0 then .valueError
  else if maxiter < 1 then .valueError
  else
    let fa := f a
    let fb := f b
    if 0 < fa * fb then .valueError
    else
      let rs := bisectInterval a b fa fb
      if rs.2 then finish disp ⟨rs.1, 2, 0, true⟩
      else finish disp (brentqLoop f xtol rtol maxiter.toNat 0 ⟨a, b, 0, fa, fb, 0, 0, 0⟩ 2)

/-! ### brent_max (scalar_maximization.py 49-149) -/

structure BM (α : Type) where
  a : α
  b : α
  fulc : α
  nfc : α
  xf : α
  rat : α
  e : α
  fx : α
  ffulc : α
  fnfc : α
  xm : α
  tol1 : α
  tol2 : α
  num : Nat
deriving Repr

/-- acceptability test of the parabola and the step it yields (lines 92-101), for the
    numerator `p`, the denominator `q = |q|`, `r` = the old `e` and the new `e`:
    returns `(golden, rat, e)` -/
def bmParAccept (s : BM α) (p q r e : α) : Bool × α × α :=
  if absv p < absv (half * q * r) ∧ q * (s.a - s.xf) < p ∧ p < q * (s.b - s.xf) then
    let rat := (p + 0) / q
    let x := s.xf + rat
    if x - s.a < s.tol2 ∨ s.b - x < s.tol2 then
      let d := s.xm - s.xf
      let si := sgn d + (if d == 0 then 1 else 0)
      (false, s.tol1 * si, e)
    else (false, rat, e)
  else (true, s.rat, e)

/-- the parabolic-fit block (lines 79-101): returns `(golden, rat, e)` -/
def bmParabola (s : BM α) : Bool × α × α :=
  let r := (s.xf - s.nfc) * (s.fx - s.ffulc)
  let q := (s.xf - s.fulc) * (s.fx - s.fnfc)
  let p := (s.xf - s.fulc) * q - (s.xf - s.nfc) * r
  let q := two * (q - r)
  let p := if 0 < q then -p else p
  bmParAccept s p (absv q) s.e s.rat

/-- choice of `(rat, e)` for this iteration (lines 77-108) -/
def bmChoose (gm : α) (s : BM α) : α × α :=
  let g : Bool × α × α := if s.tol1 < absv s.e then bmParabola s else (true, s.rat, s.e)
  if g.1 then
    let e := if s.xm ≤ s.xf then s.a - s.xf else s.b - s.xf
    (gm * e, e)
  else (g.2.1, g.2.2)

/-- the new evaluation point (lines 110-115) -/
def bmPoint (s : BM α) (rat : α) : α :=
  let si := if rat == 0 then sgn rat + 1 else sgn rat
  s.xf + si * npmax (absv rat) s.tol1

/-- bracket / bookkeeping update (lines 119-140) for the new point `x` with `fu = -f x` -/
def bmUpdate (sqrtEps xtol : α) (s : BM α) (rat e x fu : α) : BM α :=
  let s1 : BM α :=
    if fu ≤ s.fx then
      let s0 := if s.xf ≤ x then { s with a := s.xf } else { s with b := s.xf }
      { s0 with fulc := s.nfc, ffulc := s.fnfc, nfc := s.xf, fnfc := s.fx, xf := x, fx := fu }
    else
      let s0 := if x < s.xf then { s with a := x } else { s with b := x }
      if fu ≤ s.fnfc || s.nfc == s.xf then
        { s0 with fulc := s.nfc, ffulc := s.fnfc, nfc := x, fnfc := fu }
      else if fu ≤ s.ffulc || s.fulc == s.xf || s.fulc == s.nfc then
        { s0 with fulc := x, ffulc := fu }
      else s0
  let tol1 := sqrtEps * absv s1.xf + xtol / three
  { s1 with rat := rat, e := e, xm := half * (s1.a + s1.b), tol1 := tol1, tol2 := two * tol1,
            num := s.num + 1 }

/-- the `while` loop; returns the final state and `status_flag` -/
def bmLoop (f : α → α) (sqrtEps gm xtol : α) (maxfun : Int) : Nat → BM α → BM α × Nat
  | 0, s => (s, 1)
  | fuel + 1, s =>
    if s.tol2 - half * (s.b - s.a) < absv (s.xf - s.xm) then
      let re := bmChoose gm s
      let x := bmPoint s re.1
      let fu := -f x
      let s' := bmUpdate sqrtEps xtol s re.1 re.2 x fu
      if maxfun ≤ (s'.num : Int) then (s', 1) else bmLoop f sqrtEps gm xtol maxfun fuel s'
    else (s, 0)

def bmInit (f : α → α) (sqrtEps gm xtol a b : α) : BM α :=
  let fulc := a + gm * (b - a)
  let fx := -f fulc
  let tol1 := sqrtEps * absv fulc + xtol / three
  ⟨a, b, fulc, fulc, fulc, 0, 0, fx, fx, fx, half * (a + b), tol1, two * tol1, 1⟩

/-- `brent_max` on finite `a`, `b`: `none` models `ValueError("a must be less than b")`;
    otherwise `(xf, fval, status_flag, num)`. The loop runs at most `max (maxiter-1) 1` times
    (`num` starts at 1, grows by one per pass and the loop breaks at `num >= maxiter`). -/
def brentMax (f : α → α) (sqrtEps gm xtol a b : α) (maxiter : Int) : Option (α × α × Nat × Nat) :=
  if a < b then
    let r := bmLoop f sqrtEps gm xtol maxiter (max (maxiter - 1).toNat 1) (bmInit f sqrtEps gm xtol a b)
    some (r.1.xf, -r.1.fx, r.2, r.1.num)
  else none

/-- `brent_max` with its argument checks (scalar_maximization.py 49-56): `ValueError` (`none`) when
    `a` or `b` is not finite (`fin` is `np.isfinite`: a parameter, always true over a field) or
    when `a < b` fails. -/
def brentMaxEntry (fin : α → Bool) (f : α → α) (sqrtEps gm xtol a b : α) (maxiter : Int) :
    Option (α × α × Nat × Nat) :=
  if !fin a then none
  else if !fin b then none
  else brentMax f sqrtEps gm xtol a b maxiter

end generic

/-! ### nelder_mead (nelder_mead.py 116-122, 185-296, 320-337, 404-445) -/

section nm
variable {α : Type} [Zero α] [One α] [Add α] [Sub α] [Mul α] [Div α] [Neg α]
  [LT α] [LE α] [DecidableLT α] [DecidableLE α] [BEq α]

def vsub (a b : List α) : List α := List.zipWith (· - ·) a b
def vadd (a b : List α) : List α := List.zipWith (· + ·) a b
def smul (c : α) (v : List α) : List α := v.map (c * ·)
def vdiv (v : List α) (c : α) : List α := v.map (· / c)
/-- the integer `n` as a scalar (`float(n)`; exact for the small `n` used) -/
def natA : Nat → α
  | 0 => 0
  | n + 1 => natA n + 1
def powA (x : α) : Nat → α
  | 0 => 1
  | n + 1 => powA x n * x

/-- `_check_bounds`: `bounds = []` encodes the shape `(0, 2)` (no bounds) -/
def inBounds (bounds : List (α × α)) (x : List α) : Bool :=
  if bounds.isEmpty then true
  else (List.zipWith (fun (b : α × α) xi => decide (b.1 ≤ xi)) bounds x).all id &&
       (List.zipWith (fun (b : α × α) xi => decide (xi ≤ b.2)) bounds x).all id

/-- `_neg_bounded_fun`: `-fun(x)` inside the bounds, `+inf` (the parameter `pinf`) outside -/
def negF (f : List α → α) (pinf : α) (bounds : List (α × α)) (x : List α) : α :=
  if inBounds bounds x then -(f x) else pinf

/-- insert index `i` into the index list sorted by `vals`, after every entry not larger (stable) -/
def insIdx (vals : List α) (i : Nat) : List Nat → List Nat
  | [] => [i]
  | j :: rest => if vals.getD i 0 < vals.getD j 0 then i :: j :: rest else j :: insIdx vals i rest

/-- `vals.argsort()` (stable; the arrays here have at most 4 entries, insertion sort in Numba) -/
def argsort (vals : List α) : List Nat :=
  (List.range vals.length).foldl (fun acc i => insIdx vals i acc) []

structure NMP (α : Type) where
  ρ : α
  χ : α
  γ : α
  σ : α
  tolf : α
  tolx : α
  pinf : α

structure NM (α : Type) where
  verts : List (List α)
  fval : List α
  sind : List Nat
  xbar : List α
  lv : α
  nit : Nat

/-- `_initialize_simplex` with `k105 = 1 + 0.05`, `zdelt = 0.00025` -/
def initSimplex (k105 zdelt : α) (x0 : List α) : List (List α) :=
  x0 :: (List.range x0.length).map fun i =>
    x0.set i (if x0.getD i 0 != 0 then x0.getD i 0 * k105 else zdelt)

/-- column sums of the listed rows, accumulated row by row from 0 -/
def sumRows (n : Nat) (rows : List (List α)) : List α :=
  rows.foldl vadd (List.replicate n 0)

/-- the nonshrink ordering rule (lines 285-289): insert `w` before the first `j` with
    `p j` (`f_val[w] < f_val[j]`), dropping the last entry; unchanged when there is none -/
def reinsertAux (p : Nat → Bool) (w : Nat) : List Nat → List Nat
  | [] => []
  | j :: rest => if p j then w :: (j :: rest).dropLast else j :: reinsertAux p w rest

def reinsert (fval : List α) (w : Nat) (sind : List Nat) : List Nat :=
  reinsertAux (fun j => decide (fval.getD w 0 < fval.getD j 0)) w sind

def nmInit (f : List α → α) (P : NMP α) (bounds : List (α × α)) (verts : List (List α)) : NM α :=
  let n := verts.length - 1
  let fval := verts.map (negF f P.pinf bounds)
  let sind := argsort fval
  let xbar := vdiv (sumRows n ((sind.take n).map fun i => verts.getD i [])) (natA n)
  ⟨verts, fval, sind, xbar, 1, 0⟩

/-- reflection / expansion / contraction (lines 224-261): `some (vertex, LV factor)` for an
    accepted point, `none` for shrink -/
def nmChoice (f : List α → α) (P : NMP α) (bounds : List (α × α)) (s : NM α) : Option (List α × α) :=
  let n := s.verts.length - 1
  let F := negF f P.pinf bounds
  let best := s.sind.getD 0 0
  let worst := s.sind.getD n 0
  let vworst := s.verts.getD worst []
  let fbest := s.fval.getD best 0
  let fworst := s.fval.getD worst 0
  let xr := vadd s.xbar (smul P.ρ (vsub s.xbar vworst))
  let fr := F xr
  if fbest ≤ fr ∧ fr < s.fval.getD (s.sind.getD (n - 1) 0) 0 then some (xr, P.ρ)
  else if fr < fbest then
    let xe := vadd s.xbar (smul P.χ (vsub xr s.xbar))
    let fe := F xe
    if fe < fr then some (xe, P.ρ * P.χ) else some (xr, P.ρ)
  else
    let temp := smul P.γ (vsub xr s.xbar)
    let xc := if fr < fworst then vadd s.xbar temp else vsub s.xbar temp
    let upd := if fr < fworst then P.ρ * P.γ else P.γ
    let fc := F xc
    if fc < pmin fr fworst then some (xc, upd) else none

/-- the worst vertex is replaced by `v` and the nonshrink ordering rule applied (lines 280-291) -/
def nmReplace (f : List α → α) (P : NMP α) (bounds : List (α × α)) (s : NM α) (v : List α) (fac : α) : NM α :=
  let n := s.verts.length - 1
  let worst := s.sind.getD n 0
  let verts := s.verts.set worst v
  let fval := s.fval.set worst (negF f P.pinf bounds v)
  let sind := reinsert fval worst s.sind
  let xbar := vadd s.xbar (vdiv (vsub v (verts.getD (sind.getD n 0) [])) (natA n))
  ⟨verts, fval, sind, xbar, s.lv * fac, s.nit + 1⟩

/-- one step of `for i in sort_ind[1:]` of the shrink (sequential: `vertices[best]` is read live,
    a repeated index is shrunk twice) -/
def shrinkStep (F : List α → α) (σ : α) (best : Nat) (vf : List (List α) × List α) (i : Nat) :
    List (List α) × List α :=
  let vb := vf.1.getD best []
  let vi := vadd vb (smul σ (vsub (vf.1.getD i []) vb))
  (vf.1.set i vi, vf.2.set i (F vi))

/-- re-sorting after the shrink, as repaired (commit eb9b5d4):
    `sort_ind[:] = sort_ind[f_val[sort_ind].argsort(kind='mergesort')]` — a stable sort of the
    vertex indices by their new values -/
def shrinkResort (fval : List α) (sind : List Nat) : List Nat :=
  (argsort (sind.map fun i => fval.getD i 0)).map fun p => sind.getD p 0

/-- the rule BEFORE the repair: `sort_ind[1:] = f_val[sort_ind[1:]].argsort() + 1`
    (positions + 1 instead of vertex indices, old best kept in front). Kept only to document
    the defect (`sort_ind_not_a_permutation`); the driver does not use it. -/
def shrinkResortOld (fval : List α) (sind : List Nat) : List Nat :=
  sind.getD 0 0 :: (argsort ((sind.drop 1).map fun i => fval.getD i 0)).map (· + 1)

/-- the shrink branch (lines 264-281) with the re-sorting rule as a parameter -/
def nmShrinkWith (resort : List α → List Nat → List Nat)
    (f : List α → α) (P : NMP α) (bounds : List (α × α)) (s : NM α) : NM α :=
  let n := s.verts.length - 1
  let best := s.sind.getD 0 0
  let worst := s.sind.getD n 0
  let vf := (s.sind.drop 1).foldl (shrinkStep (negF f P.pinf bounds) P.σ best) (s.verts, s.fval)
  let sind := resort vf.2 s.sind
  let vb := vf.1.getD best []
  let xbar := vadd (vadd vb (smul P.σ (vsub s.xbar vb)))
    (vdiv (vsub (vf.1.getD worst []) (vf.1.getD (sind.getD n 0) [])) (natA n))
  ⟨vf.1, vf.2, sind, xbar, s.lv * powA P.σ n, s.nit + 1⟩

/-- the shrink branch of the code as it is now -/
def nmShrink (f : List α → α) (P : NMP α) (bounds : List (α × α)) (s : NM α) : NM α :=
  nmShrinkWith shrinkResort f P bounds s

/-- one pass of the `while True` body after the termination test (lines 222-293) -/
def nmIter (f : List α → α) (P : NMP α) (bounds : List (α × α)) (s : NM α) : NM α :=
  match nmChoice f P bounds s with
  | some (v, fac) => nmReplace f P bounds s v fac
  | none => nmShrink f P bounds s

/-- the `while True` loop: final state and `fail` -/
def nmLoop (f : List α → α) (P : NMP α) (bounds : List (α × α)) (maxIter : Nat) :
    Nat → NM α → NM α × Bool
  | 0, s => (s, true)
  | fuel + 1, s =>
    let n := s.verts.length - 1
    let fail := decide (maxIter ≤ s.nit)
    let best := s.sind.getD 0 0
    let worst := s.sind.getD n 0
    let termf := decide (s.fval.getD worst 0 - s.fval.getD best 0 < P.tolf)
    let termx := decide (s.lv < P.tolx)
    if termx || termf || fail then (s, fail) else nmLoop f P bounds maxIter fuel (nmIter f P bounds s)

/-- one pass / the loop with the PRE-repair shrink re-sorting (documentation of the defect only) -/
def nmIterOld (f : List α → α) (P : NMP α) (bounds : List (α × α)) (s : NM α) : NM α :=
  match nmChoice f P bounds s with
  | some (v, fac) => nmReplace f P bounds s v fac
  | none => nmShrinkWith shrinkResortOld f P bounds s

def nmLoopOld (f : List α → α) (P : NMP α) (bounds : List (α × α)) (maxIter : Nat) :
    Nat → NM α → NM α × Bool
  | 0, s => (s, true)
  | fuel + 1, s =>
    let n := s.verts.length - 1
    let fail := decide (maxIter ≤ s.nit)
    let best := s.sind.getD 0 0
    let worst := s.sind.getD n 0
    let termf := decide (s.fval.getD worst 0 - s.fval.getD best 0 < P.tolf)
    let termx := decide (s.lv < P.tolx)
    if termx || termf || fail then (s, fail) else nmLoopOld f P bounds maxIter fuel (nmIterOld f P bounds s)

/-- `nelder_mead(fun, x0, bounds, tol_f, tol_x, max_iter)` after `_check_params`:
    `(x, fun, success, nit, final_simplex)` -/
def nelderMead (f : List α → α) (P : NMP α) (k105 zdelt : α) (bounds : List (α × α)) (x0 : List α)
    (maxIter : Nat) : List α × α × Bool × Nat × List (List α) :=
  let r := nmLoop f P bounds maxIter (maxIter + 1) (nmInit f P bounds (initSimplex k105 zdelt x0))
  let b := r.1.sind.getD 0 0
  (r.1.verts.getD b [], -(r.1.fval.getD b 0), !r.2, r.1.nit, r.1.verts)

/-- `_check_params` (nelder_mead.py 341-381): `true` = accepted, `false` = `ValueError`.
    `bounds` arrives as its shape `(r, c)` and its rows. Note the weak inequalities of the code:
    `ρ = 0`, `χ = 1`, `χ = ρ`, `γ ∈ {0, 1}`, `σ ∈ {0, 1}` are accepted although the messages say
    "strictly". -/
def checkParams (P : NMP α) (r c : Nat) (bounds : List (List α)) (n : Nat) : Bool :=
  !decide (P.ρ < 0) && !decide (P.χ < 1) && !decide (P.χ < P.ρ) &&
  !(decide (P.γ < 0) || decide (1 < P.γ)) && !(decide (P.σ < 0) || decide (1 < P.σ)) &&
  ((r == 0 && c == 2) || (r == n && c == 2)) &&
  !(bounds.any fun b => decide (b.getD 1 0 < b.getD 0 0))

/-- `_nelder_mead_algorithm(fun, vertices, bounds, ρ, χ, γ, σ, tol_f, tol_x, max_iter)` — the entry
    point with a caller-supplied simplex and caller-supplied coefficients: `none` = `ValueError` from
    `_check_params`, otherwise `(x, fun, success, nit, final_simplex)`. `n = vertices.shape[1]`. -/
def nmAlgorithm (f : List α → α) (P : NMP α) (r c : Nat) (boundsRows : List (List α))
    (verts : List (List α)) (maxIter : Nat) : Option (List α × α × Bool × Nat × List (List α)) :=
  if checkParams P r c boundsRows (verts.headD []).length then
    let bounds : List (α × α) := if r = 0 then [] else boundsRows.map fun b => (b.getD 0 0, b.getD 1 0)
    let res := nmLoop f P bounds maxIter (maxIter + 1) (nmInit f P bounds verts)
    let b := res.1.sind.getD 0 0
    some (res.1.verts.getD b [], -(res.1.fval.getD b 0), !res.2, res.1.nit, res.1.verts)
  else none

/-- test objective of the harness: `k − Σ_i (x_i−c_i)·(Σ_j A_ij (x_j−c_j))`, accumulated from 0 in
    index order -/
def quadObj (A : List (List α)) (c : List α) (k : α) (x : List α) : α :=
  let d := vsub x c
  k - (List.zipWith (fun (row : List α) di =>
        di * (List.zipWith (· * ·) row d).foldl (· + ·) 0) A d).foldl (· + ·) 0

end nm

/-! ### objective functions on the wire: postfix programs -/

inductive Tok (α : Type) where
  | var | const (c : α) | add | sub | mul | div | neg

section rpn
variable {α : Type} [Zero α] [Add α] [Sub α] [Mul α] [Div α] [Neg α]

def rpnStep (x : α) (st : List α) (t : Tok α) : List α :=
  match t, st with
  | .var, st => x :: st
  | .const c, st => c :: st
  | .add, b :: a :: st => (a + b) :: st
  | .sub, b :: a :: st => (a - b) :: st
  | .mul, b :: a :: st => (a * b) :: st
  | .div, b :: a :: st => (a / b) :: st
  | .neg, a :: st => (-a) :: st
  | _, st => st

def evalRPN (prog : List (Tok α)) (x : α) : α := (prog.foldl (rpnStep x) []).headD 0

def parseTok (cst : String → Option α) (s : String) : Option (Tok α) :=
  match s with
  | "v" => some .var
  | "add" => some .add
  | "sub" => some .sub
  | "mul" => some .mul
  | "div" => some .div
  | "neg" => some .neg
  | _ => (cst s).map .const

end rpn

/-! ### line protocol -/

open QE

/-- scalar kit: parsers / printers for one instance -/
structure Sc (α : Type) where
  num : String → Option α
  shw : α → String
  fin : α → Bool          -- `np.isfinite`

def scFloat : Sc Float := ⟨parseFloat?, showFloatBits, Float.isFinite⟩
def scRat : Sc Rat := ⟨parseRat?, showRat, fun _ => true⟩

def showOut {α : Type} (sc : Sc α) : Out α → String
  | .ok r => sc.shw r.root ++ " " ++ toString r.calls ++ " " ++ toString r.iters ++ " " ++ showBool r.conv
  | .valueError => "ERR:ValueError"
  | .runtimeError => "ERR:RuntimeError"

section handler
variable {α : Type} [Zero α] [One α] [Add α] [Sub α] [Mul α] [Div α] [Neg α]
  [LT α] [LE α] [DecidableLT α] [DecidableLE α] [BEq α]

def kvProg (sc : Sc α) (toks : List String) (key : String) : Option (List (Tok α)) :=
  (kv toks key).bind (parseList? (parseTok sc.num))

def kvNum (sc : Sc α) (toks : List String) (key : String) : Option α := (kv toks key).bind sc.num

def kvBool (toks : List String) (key : String) : Option Bool :=
  match kv toks key with
  | some "1" => some true
  | some "0" => some false
  | _ => none

def handleSc (sc : Sc α) (toks : List String) : String :=
  match toks with
  | "newton" :: r =>
    match kvProg sc r "f", kvProg sc r "fp", kvNum sc r "x0", kvNum sc r "tol", kvInt r "maxiter", kvBool r "disp" with
    | some f, some fp, some x0, some tol, some mi, some d =>
      showOut sc (newton (evalRPN f) (evalRPN fp) x0 tol mi d)
    | _, _, _, _, _, _ => "bad-op"
  | "halley" :: r =>
    match kvProg sc r "f", kvProg sc r "fp", kvProg sc r "fpp", kvNum sc r "x0", kvNum sc r "tol",
          kvInt r "maxiter", kvBool r "disp" with
    | some f, some fp, some fpp, some x0, some tol, some mi, some d =>
      showOut sc (halley (evalRPN f) (evalRPN fp) (evalRPN fpp) x0 tol mi d)
    | _, _, _, _, _, _, _ => "bad-op"
  | "secant" :: r =>
    match kvProg sc r "f", kvNum sc r "k1", kvNum sc r "k2", kvNum sc r "x0", kvNum sc r "tol",
          kvInt r "maxiter", kvBool r "disp" with
    | some f, some k1, some k2, some x0, some tol, some mi, some d =>
      showOut sc (secant (evalRPN f) k1 k2 x0 tol mi d)
    | _, _, _, _, _, _, _ => "bad-op"
  | "bisect" :: r =>
    match kvProg sc r "f", kvNum sc r "a", kvNum sc r "b", kvNum sc r "xtol", kvNum sc r "rtol",
          kvInt r "maxiter", kvBool r "disp" with
    | some f, some a, some b, some xtol, some rtol, some mi, some d =>
      showOut sc (bisect (evalRPN f) a b xtol rtol mi d)
    | _, _, _, _, _, _, _ => "bad-op"
  | "bisectk" :: r =>
    match kvNum sc r "a", kvNum sc r "b", kvNum sc r "xtol", kvNat r "cap" with
    | some a, some b, some xtol, some cap =>
      match bisectK a b xtol cap with
      | some k => toString k
      | none => "none"
    | _, _, _, _ => "bad-op"
  | "brentq" :: r =>
    match kvProg sc r "f", kvNum sc r "a", kvNum sc r "b", kvNum sc r "xtol", kvNum sc r "rtol",
          kvInt r "maxiter", kvBool r "disp" with
    | some f, some a, some b, some xtol, some rtol, some mi, some d =>
      showOut sc (brentq (evalRPN f) a b xtol rtol mi d)
    | _, _, _, _, _, _, _ => "bad-op"
  | "brentmax" :: r =>
    match kvProg sc r "f", kvNum sc r "a", kvNum sc r "b", kvNum sc r "xtol", kvNum sc r "sqrteps",
          kvNum sc r "gm", kvInt r "maxiter" with
    | some f, some a, some b, some xtol, some se, some gm, some mi =>
      match brentMaxEntry sc.fin (evalRPN f) se gm xtol a b mi with
      | some (xf, fval, flag, num) =>
        sc.shw xf ++ " " ++ sc.shw fval ++ " " ++ toString flag ++ " " ++ toString num
      | none => "ERR:ValueError"
    | _, _, _, _, _, _, _ => "bad-op"
  | "checkparams" :: r =>
    match kvNum sc r "rho", kvNum sc r "chi", kvNum sc r "gamma", kvNum sc r "sigma", kvNat r "br", kvNat r "bc",
          (kv r "bounds").bind (parseMat? sc.num), kvNat r "n" with
    | some ρ, some χ, some γ, some σ, some br, some bc, some bnds, some n =>
      if checkParams (⟨ρ, χ, γ, σ, 0, 0, 0⟩ : NMP α) br bc bnds n then "ok" else "ERR:ValueError"
    | _, _, _, _, _, _, _, _ => "bad-op"
  | "nmalgo" :: r =>
    match (kv r "A").bind (parseMat? sc.num), (kv r "c").bind (parseList? sc.num), kvNum sc r "k",
          (kv r "verts").bind (parseMat? sc.num), kvNat r "br", kvNat r "bc", (kv r "bounds").bind (parseMat? sc.num),
          kvNum sc r "rho", kvNum sc r "chi", kvNum sc r "gamma", kvNum sc r "sigma",
          kvNum sc r "tolf", kvNum sc r "tolx", kvNat r "maxiter", kvNum sc r "pinf" with
    | some A, some c, some k, some verts, some br, some bc, some bnds, some ρ, some χ, some γ, some σ,
      some tolf, some tolx, some mi, some pinf =>
      match nmAlgorithm (quadObj A c k) ⟨ρ, χ, γ, σ, tolf, tolx, pinf⟩ br bc bnds verts mi with
      | some (x, fv, ok, nit, vs) =>
        showList sc.shw x ++ " " ++ sc.shw fv ++ " " ++ showBool ok ++ " " ++ toString nit ++ " " ++ showMat sc.shw vs
      | none => "ERR:ValueError"
    | _, _, _, _, _, _, _, _, _, _, _, _, _, _, _ => "bad-op"
  | "neldermead" :: r =>
    match (kv r "A").bind (parseMat? sc.num), (kv r "c").bind (parseList? sc.num), kvNum sc r "k",
          (kv r "x0").bind (parseList? sc.num), (kv r "bounds").bind (parseMat? sc.num),
          kvNum sc r "tolf", kvNum sc r "tolx", kvNat r "maxiter", kvNum sc r "k105", kvNum sc r "zdelt",
          kvNum sc r "pinf" with
    | some A, some c, some k, some x0, some bnds, some tolf, some tolx, some mi, some k105, some zd, some pinf =>
      let P : NMP α := ⟨1, two, half, half, tolf, tolx, pinf⟩
      let bounds := bnds.map fun b => (b.getD 0 0, b.getD 1 0)
      if kv r "trace" == some "sind" then
        -- model-side observation of the final `sort_ind` (not visible in the code's results):
        -- the list, "is a permutation", "sorts f_val", "best slot = worst slot"
        let st := (nmLoop (quadObj A c k) P bounds mi (mi + 1)
          (nmInit (quadObj A c k) P bounds (initSimplex k105 zd x0))).1
        let N := st.verts.length
        let perm := (List.range N).all fun i => st.sind.count i == 1
        let srt := (List.range (N - 1)).all fun i =>
          !decide (st.fval.getD (st.sind.getD (i + 1) 0) 0 < st.fval.getD (st.sind.getD i 0) 0)
        showList toString st.sind ++ " " ++ showBool perm ++ " " ++ showBool srt ++ " " ++
          showBool (st.sind.getD 0 0 == st.sind.getD (N - 1) 0)
      else
      let (x, fv, ok, nit, verts) := nelderMead (quadObj A c k) P k105 zd bounds x0 mi
      showList sc.shw x ++ " " ++ sc.shw fv ++ " " ++ showBool ok ++ " " ++ toString nit ++ " " ++
        showMat sc.shw verts
    | _, _, _, _, _, _, _, _, _, _, _ => "bad-op"
  | _ => "bad-op"

end handler

def handle (toks : List String) : String :=
  match kv toks "sc" with
  | some "float" => handleSc scFloat toks
  | some "rat" => handleSc scRat toks
  | _ => "bad-op"

end QE.C17
