/-
  QEModel.C20 — learning dynamics as state machines with every random choice an
  explicit input.
  Mirrors (as the code is now):
    quantecon/game_theory/normal_form_game.py  Player.payoff_vector (matrix case `payoffVec`, N-player
                                               tensor case `payoffVecN`), Player.best_response,
                                               Player.random_choice
    quantecon/game_theory/brd.py       BRD._set_action_dist / play / time_series, KMR.play, SamplingBRD.play
    quantecon/game_theory/fictplay.py  FictitiousPlay._play / play / time_series (2 players: `fpStep`,
                                       N players: `fpStepN`), StochasticFictitiousPlay._play
                                       (perturbations are inputs), step_size
    quantecon/game_theory/localint.py  LocalInteraction._play / play / time_series, and the argument
                                       handling of the two entry points (`playSchedule`, `tsSchedule`:
                                       revision string, player_ind_seq omitted / int / sequence, num_reps,
                                       ts_length, ValueError / TypeError / IndexError branches)
    quantecon/game_theory/logitdyn.py  LogitDynamics._play / play / time_series (N players; the cdf
                                       tables, which contain `exp`, are inputs)
  Random stream: the code draws (a) the sequence of revising players, (b) one uniform per KMR
  period / logit period, (c) one `choice` sample per SamplingBRD period, (d) payoff perturbations,
  (e) scalar `randint(n)` draws *on demand* (random tie-breaking with >= 2 best responses, KMR's
  random action with >= 2 actions).  (a)-(d) are per-period inputs; (e) is the threaded stream `ri`
  from which the model pops exactly when the code draws.
-/
import QEModel.Base
namespace QE.C20

/-! ## scalar-generic numerics: payoff vector, best responses -/
section num
variable {α : Type} [Zero α] [Add α] [Sub α] [Mul α] [LT α] [LE α] [DecidableLT α] [DecidableLE α]

/-- `row · x` -/
def dot : List α → List α → α
  | a :: r, b :: x => a * b + dot r x
  | _, _ => 0

/-- `payoff_array.dot(opponent_action)` (2-player case / symmetric game against a count vector) -/
def payoffVec (A : List (List α)) (x : List α) : List α := A.map (fun r => dot r x)

/-- `payoff_vector + payoff_perturbation` (not in place) -/
def addPert (pv : List α) : Option (List α) → List α
  | none => pv
  | some e => List.zipWith (· + ·) pv e

/-- `payoff_vector.max()` -/
def maxL : List α → α
  | [] => 0
  | a :: l => l.foldl (fun m x => if m < x then x else m) a

/-- `np.where(payoff_vector >= payoff_vector.max() - tol)[0]` -/
def brSet (pv : List α) (tol : α) : List Nat :=
  (List.range pv.length).filter (fun i => decide (maxL pv - tol ≤ pv.getD i 0))

/-- `a.searchsorted(v, side='right')` on a sorted array: the first index whose entry exceeds `v` -/
def searchRight (a : List α) (v : α) : Nat := (a.takeWhile (fun y => decide (y ≤ v))).length

end num

/-- tie-breaking of `best_response`: `'smallest'` takes the first best response; `'random'` calls
    `random_choice(best_responses)`, which draws `randint(len)` **only if** `len ≠ 1`.
    Returns the chosen action and the remaining `randint` stream. -/
def pick (rnd : Bool) (s : List Nat) (ri : List Nat) : Nat × List Nat :=
  if rnd = true ∧ s.length ≠ 1 then (s.getD (ri.headD 0) 0, ri.tail) else (s.headD 0, ri)

/-- `Player.random_choice()` over all `n` actions: draws only if `n ≠ 1` -/
def randomAction (n : Nat) (ri : List Nat) : Nat × List Nat :=
  if n = 1 then (0, ri) else (ri.headD 0, ri.tail)

/-- the representative player: payoff matrix, `tol`, tie-breaking mode -/
structure Game (α : Type) where
  A : List (List α)
  tol : α
  rnd : Bool

section dyn
variable {α : Type} [Zero α] [Add α] [Sub α] [Mul α] [LT α] [LE α] [DecidableLT α] [DecidableLE α]

/-- `player.best_response(opp, tie_breaking, payoff_perturbation, tol, random_state)` -/
def brPick (G : Game α) (opp : List α) (pert : Option (List α)) (ri : List Nat) : Nat × List Nat :=
  pick G.rnd (brSet (addPert (payoffVec G.A opp) pert) G.tol) ri

/-! ## BRD / KMR / SamplingBRD -/

def cumsumFrom (acc : Int) : List Int → List Int
  | [] => []
  | x :: xs => (acc + x) :: cumsumFrom (acc + x) xs

/-- `action_dist.cumsum()` -/
def cumsum (d : List Int) : List Int := cumsumFrom 0 d

/-- `np.searchsorted(action_dist.cumsum(), player_ind, side='right')` -/
def locate (d : List Int) (p : Int) : Nat := searchRight (cumsum d) p

/-- `action_dist[i] += δ` -/
def bump (d : List Int) (i : Nat) (δ : Int) : List Int := d.set i (d.getD i 0 + δ)

/-- `BRD.play(action, action_dist)` ; `ι` embeds the integer counts into the payoff scalars -/
def brdPlay (ι : Int → α) (G : Game α) (a : Nat) (d : List Int) (ri : List Nat) : List Int × List Nat :=
  let d1 := bump d a (-1)
  let r := brPick G (d1.map ι) none ri
  (bump d1 r.1 1, r.2)

/-- `KMR.play`: mutation iff `u < epsilon` (`u = random_state.random()`) -/
def kmrPlay (ι : Int → α) (G : Game α) (eps u : α) (a : Nat) (d : List Int) (ri : List Nat) :
    List Int × List Nat :=
  if u < eps then
    let d1 := bump d a (-1)
    let r := randomAction G.A.length ri
    (bump d1 r.1 1, r.2)
  else brdPlay ι G a d ri

/-- `np.bincount(actions, minlength=n)` for actions `< n` -/
def bincount (n : Nat) (s : List Nat) : List Int := (List.range n).map (fun c => (s.count c : Int))

/-- `SamplingBRD.play`; `sample` is what `random_state.choice(n, size=k, p=dist/(N-1))` returned -/
def sbrdPlay (ι : Int → α) (G : Game α) (sample : List Nat) (a : Nat) (d : List Int) (ri : List Nat) :
    List Int × List Nat :=
  let d1 := bump d a (-1)
  let r := brPick G ((bincount G.A.length sample).map ι) none ri
  (bump d1 r.1 1, r.2)

/-- `_set_action_dist(actions)`: count the players on each action -/
def setActionDist (n : Nat) (actions : List Nat) : List Int := bincount n actions

inductive Kind (α : Type) where
  | brd
  | kmr (eps : α)
  | sbrd

/-- the per-period inputs: revising player index, uniform (KMR), sample (SamplingBRD) -/
structure Inp (α : Type) where
  p : Int
  u : α
  sample : List Nat

def playK (ι : Int → α) (G : Game α) (k : Kind α) (inp : Inp α) (a : Nat) (d : List Int) (ri : List Nat) :
    List Int × List Nat :=
  match k with
  | .brd => brdPlay ι G a d ri
  | .kmr eps => kmrPlay ι G eps inp.u a d ri
  | .sbrd => sbrdPlay ι G inp.sample a d ri

/-- one period of `time_series`: locate the revising player's action, then `play` -/
def stepK (ι : Int → α) (G : Game α) (k : Kind α) (inp : Inp α) (s : List Int × List Nat) :
    List Int × List Nat :=
  playK ι G k inp (locate s.1 inp.p) s.1 s.2

/-- the states visited: `out[t]` for `t < len`, followed by the state after the last period (kept in
    `time_series`'s private working copy of `init_action_dist` since the code copies its input; not
    observable from outside, the caller's array is left untouched) -/
def states (ι : Int → α) (G : Game α) (k : Kind α) : List (Inp α) → List Int × List Nat → List (List Int × List Nat)
  | [], s => [s]
  | inp :: rest, s => s :: states ι G k rest (stepK ι G k inp s)

/-- `time_series` with the `IndexError` of `action_dist[action] -= 1` when the located action is
    `num_actions` (player index ≥ total count): `none`.  Otherwise rows, final state, rest of stream. -/
def series (ι : Int → α) (G : Game α) (k : Kind α) :
    List (Inp α) → List Int × List Nat → Option (List (List Int) × (List Int × List Nat))
  | [], s => some ([], s)
  | inp :: rest, s =>
    if locate s.1 inp.p < s.1.length then
      match series ι G k rest (stepK ι G k inp s) with
      | some (rows, fin) => some (s.1 :: rows, fin)
      | none => none
    else none

/-! ### explicit object state and call histories (BRD / KMR / SamplingBRD instances)

  The Python objects hold `player.payoff_array`, `tol`, `tie_breaking`, `epsilon`, `k` as plain public
  attributes and have no caches: an attribute reassignment or an in-place edit of the payoff array
  replaces the state (`Op.set`), a `time_series` call reads the state current at that moment and leaves
  it unchanged. -/

/-- the state of one instance -/
structure Obj (α : Type) where
  G : Game α
  kind : Kind α

/-- what can happen to an instance -/
inductive Op (α : Type) where
  | set (o : Obj α)                                          -- attributes reassigned / arrays edited in place
  | series (inps : List (Inp α)) (s : List Int × List Nat)   -- `time_series` (inputs, initial state, stream)

/-- the answers of the `series` calls of a history, in order -/
def runOps (ι : Int → α) : Obj α → List (Op α) → List (Option (List (List Int) × (List Int × List Nat)))
  | _, [] => []
  | _, .set o' :: rest => runOps ι o' rest
  | o, .series inps s :: rest => series ι o.G o.kind inps s :: runOps ι o rest

/-- the `series` calls of a history, each paired with the object state current when it is made -/
def callsWithState : Obj α → List (Op α) → List (Obj α × List (Inp α) × (List Int × List Nat))
  | _, [] => []
  | _, .set o' :: rest => callsWithState o' rest
  | o, .series inps s :: rest => (o, inps, s) :: callsWithState o rest

/-! ## FictitiousPlay / StochasticFictitiousPlay (2 players) -/

variable [One α] [Div α]

/-- `actions[i][:] *= 1 - γ ; actions[i][br] += γ` -/
def scaleAdd (x : List α) (γ : α) (b : Nat) : List α :=
  let y := x.map (fun v => v * (1 - γ))
  y.set b (y.getD b 0 + γ)

/-- `step_size(t)`: constant gain, or `1/(t+2)` -/
def stepSize (ofN : Nat → α) (gain : Option α) (t : Nat) : α :=
  match gain with
  | some g => g
  | none => 1 / ofN (t + 2)

/-- per-period inputs of (stochastic) fictitious play: step size and the two perturbation vectors -/
structure FpInp (α : Type) where
  γ : α
  pert0 : Option (List α)
  pert1 : Option (List α)

/-- `_play`: both best responses are computed from the *old* beliefs, then both beliefs move -/
def fpStep (G0 G1 : Game α) (inp : FpInp α) (s : (List α × List α) × List Nat) : (List α × List α) × List Nat :=
  let r0 := brPick G0 s.1.2 inp.pert0 s.2
  let r1 := brPick G1 s.1.1 inp.pert1 r0.2
  ((scaleAdd s.1.1 inp.γ r0.1, scaleAdd s.1.2 inp.γ r1.1), r1.2)

/-- the belief path: `out[j]`, `j = 0 … len(inputs)` -/
def fpStates (G0 G1 : Game α) : List (FpInp α) → (List α × List α) × List Nat → List ((List α × List α) × List Nat)
  | [], s => [s]
  | inp :: rest, s => s :: fpStates G0 G1 rest (fpStep G0 G1 inp s)

/-! ## FictitiousPlay with N players (general `Player.payoff_vector`) -/

/-- opponents' entries in the order `i+1, …, N-1, 0, …, i-1` -/
def rot {β : Type} (i : Nat) (l : List β) : List β := l.drop (i + 1) ++ l.take i

/-- `payoff_array.dot(action)` on a C-order flat tensor: contract the last axis (of length
    `x.length`) with the mixed action `x`; `fuel` bounds the number of chunks -/
def contractLast (x : List α) : Nat → List α → List α
  | 0, _ => []
  | fuel + 1, l =>
    if l.isEmpty then [] else dot (l.take x.length) x :: contractLast x fuel (l.drop x.length)

/-- `Player.payoff_vector(opponents_actions)` for mixed actions: `for i in reversed(range(num_opponents)):
    payoff_vector = payoff_vector.dot(opponents_actions[i])` -/
def payoffVecN (flat : List α) (opps : List (List α)) : List α :=
  opps.foldr (fun x acc => contractLast x acc.length acc) flat

/-- a player of an N-player game: C-order flat payoff array with axes (own, i+1, …, N-1, 0, …, i-1) -/
structure GameN (α : Type) where
  flat : List α
  tol : α
  rnd : Bool

def brPickN (G : GameN α) (opps : List (List α)) (pert : Option (List α)) (ri : List Nat) : Nat × List Nat :=
  pick G.rnd (brSet (addPert (payoffVecN G.flat opps) pert) G.tol) ri

/-- the first loop of `_play`: the best responses of players `i, i+1, …` against the profile `xs`
    (which is not modified in this loop), threading the `randint` stream -/
def brsN (xs : List (List α)) (perts : List (Option (List α))) : Nat → List (GameN α) → List Nat → List Nat × List Nat
  | _, [], ri => ([], ri)
  | i, G :: rest, ri =>
    let r := brPickN G (rot i xs) (perts.getD i none) ri
    let rr := brsN xs perts (i + 1) rest r.2
    (r.1 :: rr.1, rr.2)

/-- `_play` for N players: all best responses first, then all belief updates -/
def fpStepN (Gs : List (GameN α)) (γ : α) (perts : List (Option (List α))) (s : List (List α) × List Nat) :
    List (List α) × List Nat :=
  let b := brsN s.1 perts 0 Gs s.2
  (List.zipWith (fun x bi => scaleAdd x γ bi) s.1 b.1, b.2)

def fpStatesN (Gs : List (GameN α)) : List (α × List (Option (List α))) → List (List α) × List Nat →
    List (List (List α) × List Nat)
  | [], s => [s]
  | inp :: rest, s => s :: fpStatesN Gs rest (fpStepN Gs inp.1 inp.2 s)

/-! ## LocalInteraction -/

/-- entry `c` of `adj_matrix[i].dot(actions_matrix)`: total weight of neighbours playing `c` -/
def wsum : List α → List Nat → Nat → α
  | w :: ws, a :: as, c => (if a = c then w else 0) + wsum ws as c
  | _, _, _ => 0

def nbrCounts (row : List α) (actions : List Nat) (n : Nat) : List α :=
  (List.range n).map (fun c => wsum row actions c)

/-- `_play(actions, player_ind, …)`: the neighbour counts of every reviser are computed from the
    profile *before* the loop (`old`); the revisers then update in the order given. -/
def liPlay (G : Game α) (adj : List (List α)) (revs : List Nat) (old : List Nat) (ri : List Nat) :
    List Nat × List Nat :=
  revs.foldl (fun (acc : List Nat × List Nat) i =>
      let r := brPick G (nbrCounts (adj.getD i []) old G.A.length) none acc.2
      (acc.1.set i r.1, r.2)) (old, ri)

def liStates (G : Game α) (adj : List (List α)) : List (List Nat) → List Nat × List Nat → List (List Nat × List Nat)
  | [], s => [s]
  | revs :: rest, s => s :: liStates G adj rest (liPlay G adj revs s.1 s.2)

/-! ### LocalInteraction entry points: how `play` / `time_series` turn their arguments
    (`revision`, `player_ind_seq`, `num_reps` / `ts_length`, the drawn player sequence) into the
    sequence of revising sets, including the error branches -/

/-- an entry of `player_ind_seq`: one player (`numbers.Integral`) or a list of players -/
inductive Entry where
  | one (p : Nat)
  | many (ps : List Nat)
deriving DecidableEq, Repr

/-- the `player_ind_seq` argument: omitted / `None`, a bare integer, or a sequence of entries -/
inductive SeqArg where
  | none
  | int (p : Nat)
  | seq (es : List Entry)
deriving DecidableEq, Repr

inductive Revision where
  | simultaneous
  | asynchronous
  | other                      -- any other string: `ValueError`
deriving DecidableEq, Repr

inductive Err where
  | valueError | typeError | indexError
deriving DecidableEq, Repr

/-- in `play`'s loop an entry is `[p]` for an integer and the list itself otherwise -/
def entrySet : Entry → List Nat
  | .one p => [p]
  | .many ps => ps

/-- `LocalInteraction.play`: the revising set of each of the periods it runs.
    `'simultaneous'`: `[None] * num_reps` (a given `player_ind_seq` is ignored);
    `'asynchronous'`: `None` → the drawn `rng_integers(N, size=num_reps)`, one player per period;
    an integer → one period; a sequence → one period per entry (`num_reps` is ignored);
    anything else: `ValueError`. -/
def playSchedule (N numReps : Nat) (rev : Revision) (arg : SeqArg) (drawn : List Nat) : Except Err (List (List Nat)) :=
  match rev with
  | .simultaneous => .ok (List.replicate numReps (List.range N))
  | .asynchronous =>
    match arg with
    | .none => .ok ((drawn.take numReps).map fun p => [p])
    | .int p => .ok [[p]]
    | .seq es => .ok (es.map entrySet)
  | .other => .error .valueError

/-- what `time_series` hands to `play(…, player_ind_seq=player_ind_seq[t], num_reps=1)` in period `t` -/
def tsArgAt (rev : Revision) (arg : SeqArg) (drawn : List Nat) (t : Nat) : Except Err SeqArg :=
  match rev, arg with
  | .simultaneous, _ => .ok .none                      -- `[None] * ts_length`
  | .asynchronous, .none => .ok (.int (drawn.getD t 0))   -- the drawn `rng_integers(N, size=ts_length)`
  | .asynchronous, .int _ => .error .typeError         -- `'int' object is not subscriptable`
  | .asynchronous, .seq es =>
    match es[t]? with
    | some (.one p) => .ok (.int p)
    | some (.many ps) => .ok (.seq (ps.map .one))      -- a list entry becomes a *sequence* for `play`
    | none => .error .indexError
  | .other, _ => .error .valueError

/-- the revising sets of the inner call `play(revision, player_ind_seq=player_ind_seq[t], num_reps=1)` of period `t` -/
def tsPeriod (N : Nat) (rev : Revision) (arg : SeqArg) (drawn : List Nat) (t : Nat) : Except Err (List (List Nat)) :=
  match tsArgAt rev arg drawn t with
  | .ok a => playSchedule N 1 rev a []
  | .error e => .error e

/-- `LocalInteraction.time_series`: for each of the `ts_length − 1` periods, the revising sets of the
    inner `play` call (a list entry `[i, j]` is revised one player after the other) -/
def tsSchedule (N tsLength : Nat) (rev : Revision) (arg : SeqArg) (drawn : List Nat) :
    Except Err (List (List (List Nat))) :=
  if rev = .other then .error .valueError
  else if tsLength = 0 then .error .indexError             -- `out[0, i] = actions[i]` on an empty array
  else (List.range (tsLength - 1)).mapM (tsPeriod N rev arg drawn)

/-- run a list of revising sets, return the final (profile, stream) -/
def liRun (G : Game α) (adj : List (List α)) (sch : List (List Nat)) (s : List Nat × List Nat) : List Nat × List Nat :=
  sch.foldl (fun st revs => liPlay G adj revs st.1 st.2) s

/-- `play(revision, actions, player_ind_seq, num_reps)` -/
def liPlayE (G : Game α) (adj : List (List α)) (N numReps : Nat) (rev : Revision) (arg : SeqArg)
    (drawn : List Nat) (s : List Nat × List Nat) : Except Err (List Nat × List Nat) :=
  match playSchedule N numReps rev arg drawn with
  | .ok sch => .ok (liRun G adj sch s)
  | .error e => .error e

/-- the rows of `time_series`: the profile before each period, then the final one -/
def liRows (G : Game α) (adj : List (List α)) : List (List (List Nat)) → List Nat × List Nat → List (List Nat × List Nat)
  | [], s => [s]
  | per :: rest, s => s :: liRows G adj rest (liRun G adj per s)

/-- `time_series(ts_length, revision, actions, player_ind_seq)` -/
def liTimeSeriesE (G : Game α) (adj : List (List α)) (N tsLength : Nat) (rev : Revision) (arg : SeqArg)
    (drawn : List Nat) (s : List Nat × List Nat) : Except Err (List (List Nat × List Nat)) :=
  match tsSchedule N tsLength rev arg drawn with
  | .ok periods => .ok (liRows G adj periods s)
  | .error e => .error e

/-! ## LogitDynamics -/

/-- C-order flat index of the multi-index `os` in an array of shape `dims` -/
def flatIdx (dims os : List Nat) : Nat :=
  (List.zip dims os).foldl (fun acc mo => acc * mo.1 + mo.2) 0

/-- `cdf.searchsorted(random_value * cdf[-1], side='right')` -/
def logitChoice (cdf : List α) (u : α) : Nat := searchRight cdf (u * cdf.getLastD 0)

/-- `_play(player_ind, actions, random_state)` followed by `actions[player_ind] = …`.
    `tables[i]` is `players[i].logit_choice_cdfs` reshaped to (opponent profiles) × (own actions). -/
def logitStep (nums : List Nat) (tables : List (List (List α))) (iu : Nat × α) (actions : List Nat) : List Nat :=
  let cdf := (tables.getD iu.1 []).getD (flatIdx (rot iu.1 nums) (rot iu.1 actions)) []
  actions.set iu.1 (logitChoice cdf iu.2)

def logitStates (nums : List Nat) (tables : List (List (List α))) : List (Nat × α) → List Nat → List (List Nat)
  | [], s => [s]
  | iu :: rest, s => s :: logitStates nums tables rest (logitStep nums tables iu s)

end dyn

/-! ## line protocol -/

local instance : Zero Float := ⟨0.0⟩
local instance : One Float := ⟨1.0⟩

open QE

section handler
variable {α : Type} [Zero α] [One α] [Add α] [Sub α] [Mul α] [Div α] [LT α] [LE α]
  [DecidableLT α] [DecidableLE α]

def optList (l : List α) : Option (List α) := if l.isEmpty then none else some l

def handleG (ofI : Int → α) (ofN : Nat → α) (pα : String → Option α) (sh : α → String)
    (toks : List String) : String :=
  let kvA (k : String) : Option α := (kv toks k).bind pα
  let kvAs (k : String) : Option (List α) := (kv toks k).bind (parseList? pα)
  let kvAm (k : String) : Option (List (List α)) := (kv toks k).bind (parseMat? pα)
  match toks with
  | "brd" :: _ =>
    match kv toks "kind", kvAm "A", kvA "tol", kvNat toks "rnd", kvInts toks "d0", kvInts toks "ps",
          kvNats toks "ri", kvA "eps", kvAs "us", kvNatMat toks "samples" with
    | some kind, some A, some tol, some rnd, some d0, some ps, some ri, some eps, some us, some samples =>
      let G : Game α := ⟨A, tol, rnd = 1⟩
      let k? : Option (Kind α) :=
        if kind = "brd" then some .brd else if kind = "kmr" then some (.kmr eps)
        else if kind = "sbrd" then some .sbrd else none
      match k? with
      | none => "bad-op"
      | some k =>
        let inps : List (Inp α) := (List.range ps.length).map fun t =>
          ⟨ps.getD t 0, us.getD t 0, samples.getD t []⟩
        -- `init_action_dist=None`: the code draws one action per player and calls `_set_action_dist`
        let d0 := match kvNats toks "init" with
          | some acts => setActionDist A.length acts
          | none => d0
        match series ofI G k inps (d0, ri) with
        | none => "ERR:IndexError"
        | some (rows, fin) =>
          showMat toString rows ++ "|" ++ showList toString fin.1 ++ "|" ++ toString fin.2.length
    | _, _, _, _, _, _, _, _, _, _ => "bad-op"
  | "play" :: _ =>
    -- a direct call of `play(action, action_dist)` (public API; no validity check in the code)
    match kv toks "kind", kvAm "A", kvA "tol", kvNat toks "rnd", kvInts toks "d0", kvNat toks "a",
          kvNats toks "ri", kvA "eps", kvA "u", kvNats toks "sample" with
    | some kind, some A, some tol, some rnd, some d0, some a, some ri, some eps, some u, some sample =>
      let G : Game α := ⟨A, tol, rnd = 1⟩
      let k? : Option (Kind α) :=
        if kind = "brd" then some .brd else if kind = "kmr" then some (.kmr eps)
        else if kind = "sbrd" then some .sbrd else none
      match k? with
      | none => "bad-op"
      | some k =>
        if a < d0.length then
          let r := playK ofI G k ⟨0, u, sample⟩ a d0 ri
          showList toString r.1 ++ "|" ++ toString r.2.length
        else "ERR:IndexError"
    | _, _, _, _, _, _, _, _, _, _ => "bad-op"
  | "fp" :: _ =>
    match kvAm "A0", kvAm "A1", kvA "tol", kvNat toks "rnd", kv toks "gain", kvNat toks "tinit",
          kvNat toks "steps", kvAs "x0", kvAs "x1", kvNats toks "ri", kvAm "perts" with
    | some A0, some A1, some tol, some rnd, some gainS, some tinit, some steps, some x0, some x1, some ri,
      some perts =>
      let gain? : Option (Option α) := if gainS = "none" then some none else (pα gainS).map some
      match gain? with
      | none => "bad-op"
      | some gain =>
        let G0 : Game α := ⟨A0, tol, rnd = 1⟩
        let G1 : Game α := ⟨A1, tol, rnd = 1⟩
        let sfp := !perts.isEmpty
        let inps : List (FpInp α) := (List.range steps).map fun j =>
          ⟨stepSize ofN gain (tinit + j),
           if sfp then some (perts.getD (2 * j) []) else none,
           if sfp then some (perts.getD (2 * j + 1) []) else none⟩
        let sts := fpStates G0 G1 inps ((x0, x1), ri)
        showMat sh (sts.map (·.1.1)) ++ "|" ++ showMat sh (sts.map (·.1.2)) ++ "|" ++
          toString ((sts.getLastD ((x0, x1), ri)).2.length)
    | _, _, _, _, _, _, _, _, _, _, _ => "bad-op"
  | "fpn" :: _ =>
    match kvNat toks "N", kvA "tol", kvNat toks "rnd", kv toks "gain", kvNat toks "tinit",
          kvNat toks "steps", kvNats toks "ri", kvAm "perts" with
    | some N, some tol, some rnd, some gainS, some tinit, some steps, some ri, some perts =>
      let gain? : Option (Option α) := if gainS = "none" then some none else (pα gainS).map some
      let flats? : Option (List (List α)) := (List.range N).mapM fun i => kvAs ("flat" ++ toString i)
      let xs? : Option (List (List α)) := (List.range N).mapM fun i => kvAs ("x" ++ toString i)
      match gain?, flats?, xs? with
      | some gain, some flats, some xs =>
        let Gs : List (GameN α) := flats.map fun f => ⟨f, tol, rnd = 1⟩
        let sfp := !perts.isEmpty
        let inps : List (α × List (Option (List α))) := (List.range steps).map fun j =>
          (stepSize ofN gain (tinit + j),
           (List.range N).map fun i => if sfp then some (perts.getD (N * j + i) []) else none)
        let sts := fpStatesN Gs inps (xs, ri)
        let rowsOf (i : Nat) : List (List α) := sts.map fun st => st.1.getD i []
        "|".intercalate ((List.range N).map fun i => showMat sh (rowsOf i)) ++ "|" ++
          toString ((sts.getLastD (xs, ri)).2.length)
      | _, _, _ => "bad-op"
    | _, _, _, _, _, _, _, _ => "bad-op"
  | "li" :: _ =>
    match kvAm "A", kvAm "adj", kvA "tol", kvNat toks "rnd", kvNats toks "actions", kvNatMat toks "revs",
          kvNats toks "ri" with
    | some A, some adj, some tol, some rnd, some actions, some revs, some ri =>
      let G : Game α := ⟨A, tol, rnd = 1⟩
      let sts := liStates G adj revs (actions, ri)
      showMat toString (sts.map (·.1)) ++ "|" ++ toString ((sts.getLastD (actions, ri)).2.length)
    | _, _, _, _, _, _, _ => "bad-op"
  | "lientry" :: _ =>
    -- the public entry points of LocalInteraction with their own argument handling
    match kv toks "call", kvAm "A", kvAm "adj", kvA "tol", kvNat toks "rnd", kvNats toks "actions",
          kv toks "revision", kv toks "arg", kvNat toks "n", kvNats toks "drawn", kvNats toks "ri" with
    | some call, some A, some adj, some tol, some rnd, some actions, some revS, some argS, some nn, some drawn,
      some ri =>
      let G : Game α := ⟨A, tol, rnd = 1⟩
      let rev : Revision := if revS = "simultaneous" then .simultaneous
        else if revS = "asynchronous" then .asynchronous else .other
      let parseEntry (t : String) : Option Entry :=
        match t.toList with
        | 's' :: rest => (parseList? parseNat? ((String.ofList rest).replace "+" ",")).map Entry.many
        | _ => (parseNat? t).map Entry.one
      let arg? : Option SeqArg :=
        if argS = "none" then some .none
        else match argS.toList with
          | 'i' :: rest => (parseNat? (String.ofList rest)).map SeqArg.int
          | 'l' :: ':' :: rest =>
            let body := String.ofList rest
            if body = "" then some (.seq []) else ((body.splitOn ",").mapM parseEntry).map SeqArg.seq
          | _ => none
      let showErr (e : Err) : String := match e with
        | .valueError => "ERR:ValueError" | .typeError => "ERR:TypeError" | .indexError => "ERR:IndexError"
      match arg? with
      | none => "bad-op"
      | some arg =>
        if call = "play" then
          match liPlayE G adj adj.length nn rev arg drawn (actions, ri) with
          | .ok r => showList toString r.1 ++ "|" ++ toString r.2.length
          | .error e => showErr e
        else if call = "time_series" then
          match liTimeSeriesE G adj adj.length nn rev arg drawn (actions, ri) with
          | .ok rows => showMat toString (rows.map (·.1)) ++ "|" ++ toString ((rows.getLastD (actions, ri)).2.length)
          | .error e => showErr e
        else "bad-op"
    | _, _, _, _, _, _, _, _, _, _, _ => "bad-op"
  | "logit" :: _ =>
    match kvNats toks "nums", kvNats toks "actions", kvNats toks "ps", kvAs "us" with
    | some nums, some actions, some ps, some us =>
      let tabs? : Option (List (List (List α))) :=
        (List.range nums.length).mapM fun i => kvAm ("cdf" ++ toString i)
      match tabs? with
      | none => "bad-op"
      | some tabs =>
        if ps.length ≠ us.length then "bad-op" else
        showMat toString (logitStates nums tabs (ps.zip us) actions)
    | _, _, _, _ => "bad-op"
  | _ => "bad-op"

end handler

def handle (toks : List String) : String :=
  match kv toks "mode" with
  | some "rat" => handleG (fun z : Int => (z : Rat)) (fun n : Nat => (n : Rat)) parseRat? showRat toks
  | some "float" => handleG Float.ofInt Float.ofNat parseFloat? showFloatBits toks
  | _ => "bad-op"

end QE.C20
