/-
  QEModel.C20 — executable model for property C20 (stub; to be filled in).
-/
import QEModel.Base
namespace QE.C20

def handle (_toks : List String) : String := "bad-op"

end QE.C20
