/-
  QEModel.C07 — linear-quadratic control (quantecon/_lqcontrol.py and the solvers derived
  from it: _robustlq.py, _lqnash.py, _matrix_eqn.py:solve_discrete_riccati_system).

  Mirrors
  * `LQ.update_values`, _lqcontrol.py 184-198: `lqS1/lqS2/lqS3` (lines 188-190), `lqUpdate`
    (`F = solve(S1,S2)` line 192, `new_P = R - S2'F + S3` line 194,
    `new_d = beta*(d + trace(P C C'))` line 196).
  * `LQ.stationary_values`, lines 234-255: `lqStationary` — the Riccati solver
    (`solve_discrete_riccati`, property C06) is a *parameter*: its result `P` is an argument;
    `F` (lines 242-244) and `d` (lines 247-250) are computed from it.
  * `LQ.compute_sequence`, lines 296-338: `horizon` (lines 300-306), `lqBackward` (the loop
    `for t in range(T): update_values(); policies.append(F)`, lines 320-324), `pop?`
    (`policies.pop()`), `simLoop`/`simulate` (lines 327-336), `computeSequence`
    (finite horizon), `computeSequenceInf` (infinite horizon: `T` copies of the stationary `F`).
    The shocks `w_path` (Gaussian draws, line 316) are an input.
  * `RBLQ.d_operator` / `b_operator`, _robustlq.py 108-115 / 144-152: `rblqD`, `rblqB`;
    `robust_rule_simple`'s final `K` (lines 255-258): `rblqK`; the stacked LQ problem of
    `robust_rule` (lines 190-209): `rblqStack`.
  * one pass of the `nnash` loop, _lqnash.py 111-135: `nnashStep`.
  * one pass of `solve_discrete_riccati_system`, _matrix_eqn.py 295-306: `markovStep`; the
    per-regime `F`, `d` of `LQMarkov.stationary_values`, _lqcontrol.py 526-542: `markovF`,
    `markovX` (the matrix `X[j,i] = trace(P_j C_i C_i')`) and `markovD`.
  `scipy.linalg.solve` / `inv` are the parameter `sol`; the driver instantiates it with the
  exact Gauss–Jordan `MatAlg.solve` (at `Rat`: exact reference; at `Float`: same loop in doubles).
-/
import QEModel.MatAlg
import QEModel.C06
namespace QE.C07
open QE QE.MatAlg

section generic
variable {α : Type} [Zero α] [One α] [Add α] [Sub α] [Mul α] [Div α] [Neg α] [BEq α]

/-- the data of an `LQ` instance (`C = 0`, `N = 0` when not given) -/
structure LQ (α : Type) where
  Q : M α
  R : M α
  A : M α
  B : M α
  C : M α
  N : M α
  beta : α

/-- the value function `x'Px + d` -/
structure Val (α : Type) where
  P : M α
  d : α

/-! ### update_values -/

/-- line 188: `S1 = Q + beta * B'(P B)` -/
def lqS1 (lq : LQ α) (P : M α) : M α := madd lq.Q (smul lq.beta (mmul (mT lq.B) (mmul P lq.B)))
/-- line 189: `S2 = beta * B'(P A) + N` -/
def lqS2 (lq : LQ α) (P : M α) : M α := madd (smul lq.beta (mmul (mT lq.B) (mmul P lq.A))) lq.N
/-- line 190: `S3 = beta * A'(P A)` -/
def lqS3 (lq : LQ α) (P : M α) : M α := smul lq.beta (mmul (mT lq.A) (mmul P lq.A))

/-- line 194 -/
def lqNewP (lq : LQ α) (P F : M α) : M α := madd (msub lq.R (mmul (mT (lqS2 lq P)) F)) (lqS3 lq P)
/-- line 196 -/
def lqNewD (lq : LQ α) (v : Val α) : α := lq.beta * (v.d + trace (mmul v.P (mmul lq.C (mT lq.C))))

/-- `update_values`: returns the new `F` and the new `(P, d)`; `none` = `solve` raised -/
def lqUpdate (sol : M α → M α → Option (M α)) (lq : LQ α) (v : Val α) : Option (M α × Val α) :=
  match sol (lqS1 lq v.P) (lqS2 lq v.P) with
  | none => none
  | some F => some (F, ⟨lqNewP lq v.P F, lqNewD lq v⟩)

/-- lines 320-324 in the finite-horizon case: `T` passes of
    `update_values(); policies.append(self.F)`; returns the list in append order and the final value -/
def lqBackward (sol : M α → M α → Option (M α)) (lq : LQ α) : Nat → Val α → List (M α) → Option (List (M α) × Val α)
  | 0, v, pol => some (pol, v)
  | T + 1, v, pol =>
    match lqUpdate sol lq v with
    | none => none
    | some (F, v') => lqBackward sol lq T v' (pol ++ [F])

/-- the whole state machine: `(F, P, d)` after each of `T` calls of `update_values` -/
def lqTrace (sol : M α → M α → Option (M α)) (lq : LQ α) : Nat → Val α → Option (List (M α × Val α))
  | 0, _ => some []
  | T + 1, v =>
    match lqUpdate sol lq v with
    | none => none
    | some (F, v') => (lqTrace sol lq T v').map ((F, v') :: ·)

/-! ### stationary_values -/

/-- lines 247-250 -/
def lqStatD (lq : LQ α) (P : M α) : α :=
  if lq.beta == 1 then 0 else lq.beta * trace (mmul P (mmul lq.C (mT lq.C))) / (1 - lq.beta)

/-- lines 242-250 for the `P` returned by the Riccati solver -/
def lqStationary (sol : M α → M α → Option (M α)) (lq : LQ α) (P : M α) : Option (M α × α) :=
  match sol (lqS1 lq P) (lqS2 lq P) with
  | none => none
  | some F => some (F, lqStatD lq P)

/-! ### compute_sequence -/

/-- lines 300-306; Python's falsy `None`/`0` is `0` here -/
def horizon (Tfin ts : Nat) : Nat :=
  if Tfin ≠ 0 then (if ts = 0 then Tfin else min ts Tfin) else (if ts ≠ 0 then ts else 100)

/-- `list.pop()`: the last element and the rest (`none` = IndexError) -/
def pop? {β : Type} (l : List β) : Option (β × List β) :=
  match l.reverse with
  | [] => none
  | a :: r => some (a, r.reverse)

/-- column `t` of a matrix as an `nr × 1` matrix -/
def col (X : M α) (t : Nat) : M α := M.tab X.nr 1 fun i _ => X.get i t

/-- line 332-333 / 335-336: `A x + B u + Cw[:, t]` -/
def nextX (A B : M α) (x u cw : M α) : M α := madd (madd (mmul A x) (mmul B u)) cw
/-- line 329 / 334: `- F x` -/
def ctrl (F x : M α) : M α := mneg (mmul F x)

/-- lines 330-336. Entered with `x = x_{t-1}`, `u = u_{t-1}`, `t` the loop index and `rem`
    passes of `for t in range(1, T)` left; after the loop the final state `x_T` is appended.
    Returns `(x_{t-1} … x_T, u_{t-1} … u_{T-1})`. -/
def simLoop (A B : M α) (cw : Nat → M α) : Nat → Nat → List (M α) → M α → M α → Option (List (M α) × List (M α))
  | 0, t, _, x, u => some ([x, nextX A B x u (cw t)], [u])
  | rem + 1, t, pol, x, u =>
    match pop? pol with
    | none => none
    | some (F, pol') =>
      let x' := nextX A B x u (cw t)
      match simLoop A B cw rem (t + 1) pol' x' (ctrl F x') with
      | none => none
      | some (xs, us) => some (x :: xs, u :: us)

/-- lines 317, 327-336 for a given list of policies (in append order) -/
def simulate (lq : LQ α) (pol : List (M α)) (T : Nat) (x0 W : M α) : Option (List (M α) × List (M α)) :=
  let CW := mmul lq.C W
  match pop? pol with
  | none => none
  | some (F, pol') => simLoop lq.A lq.B (col CW) (T - 1) 1 pol' x0 (ctrl F x0)

inductive SeqOut (α : Type) where
  | ok (xs us : List (M α))
  /-- `solve` raised inside `update_values` -/
  | singular
  /-- `policies.pop()` on an empty list -/
  | indexError

/-- `compute_sequence` of a finite-horizon instance (`self.T = Tfin ≠ 0`, terminal `Rf`) -/
def computeSequence (sol : M α → M α → Option (M α)) (lq : LQ α) (Rf : M α) (Tfin ts : Nat)
    (x0 W : M α) : SeqOut α :=
  let T := horizon Tfin ts
  match lqBackward sol lq T ⟨Rf, 0⟩ [] with
  | none => .singular
  | some (pol, _) =>
    match simulate lq pol T x0 W with
    | none => .indexError
    | some (xs, us) => .ok xs us

/-- `compute_sequence` of an infinite-horizon instance whose stationary policy is `F` -/
def computeSequenceInf (lq : LQ α) (F : M α) (ts : Nat) (x0 W : M α) : SeqOut α :=
  let T := horizon 0 ts
  match simulate lq (List.replicate T F) T x0 W with
  | none => .indexError
  | some (xs, us) => .ok xs us

/-! ### evaluation of a linear rule (the quantities of the optimality identities; spec side) -/

/-- `x'Mx` for an `n × 1` column `x` -/
def quadM (Mx x : M α) : α := (mmul (mT x) (mmul Mx x)).get 0 0
/-- `u'Nx` -/
def crossM (u N x : M α) : α := (mmul (mT u) (mmul N x)).get 0 0
/-- the one-period loss `x'Rx + u'Qu + 2u'Nx` -/
def stageM (lq : LQ α) (x u : M α) : α := quadM lq.R x + quadM lq.Q u + (1 + 1) * crossM u lq.N x
/-- `A x + B u` (no shock) -/
def stepM (lq : LQ α) (x u : M α) : M α := madd (mmul lq.A x) (mmul lq.B u)

/-- discounted cost of the rule `u = -G x` over `T` periods from `x` -/
def ruleCostM (lq : LQ α) (G : M α) : Nat → M α → α
  | 0, _ => 0
  | T + 1, x => stageM lq x (ctrl G x) + lq.beta * ruleCostM lq G T (stepM lq x (ctrl G x))

/-- `Σ_{t<T} β^t ((F-G)x_t)' S1 ((F-G)x_t)` along the closed loop of `G` -/
def ruleGapM (lq : LQ α) (S1 F G : M α) : Nat → M α → α
  | 0, _ => 0
  | T + 1, x => quadM S1 (mmul (msub F G) x) + lq.beta * ruleGapM lq S1 F G T (stepM lq x (ctrl G x))

/-- the state `x_T` and the factor `β^T` -/
def ruleEndM (lq : LQ α) (G : M α) : Nat → M α → α → M α × α
  | 0, x, b => (x, b)
  | T + 1, x, b => ruleEndM lq G T (stepM lq x (ctrl G x)) (b * lq.beta)

/-! ### the LQ object: `P`, `d`, `F` are carried across calls -/

/-- an `LQ` instance: the data, `self.T` (`0` = `None`), `self.Rf`, and the mutable attributes
    `self.P` (`none` = `None`), `self.d`, `self.F` -/
structure Obj (α : Type) where
  lq : LQ α
  Tfin : Nat
  Rf : M α
  P : Option (M α)
  d : α
  F : Option (M α)

/-- `__init__`, lines 136-151: finite horizon starts at `(Rf, 0)`, infinite horizon at `None` -/
def objInit (lq : LQ α) (Tfin : Nat) (Rf : M α) : Obj α :=
  if Tfin ≠ 0 then ⟨lq, Tfin, Rf, some Rf, 0, none⟩ else ⟨lq, 0, Rf, none, 0, none⟩

/-- `(self.C != 0).any()` -/
def anyNonzero (C : M α) : Bool :=
  (List.range C.nr).any fun i => (List.range C.nc).any fun j => !(C.get i j == 0)

/-- `__init__` with its validation (lines 136-151): in the infinite-horizon case (`T` falsy) a model with noise
    (`C` has a non-zero entry) and `beta >= 1` is rejected with `ValueError`; otherwise the object of `objInit` -/
def objInitChecked [LE α] [DecidableLE α] (lq : LQ α) (Tfin : Nat) (Rf : M α) : Option (Obj α) :=
  if Tfin = 0 ∧ anyNonzero lq.C = true ∧ 1 ≤ lq.beta then none else some (objInit lq Tfin Rf)

/-- a public call; the Riccati solver's result is a parameter of the calls that may invoke it, the
    shocks are a parameter of `compute_sequence` -/
inductive Call (α : Type) where
  | update
  | stationary (Pric : M α)
  | sequence (ts : Nat) (x0 W Pric : M α)

inductive CallOut (α : Type) where
  /-- `update_values` returns nothing -/
  | unit
  /-- `stationary_values` returns `(P, F, d)` -/
  | stat (P F : M α) (d : α)
  | seq (r : SeqOut α)
  /-- an exception (`TypeError`: `self.P is None`; `LinAlgError`: `solve` raised); the state after an
      exception is not modelled (returned unchanged) -/
  | err (kind : String)

/-- one call on the object: new state and what the call returns.
    * `update_values` (lines 184-198) continues from the current `(P, d)`;
    * `stationary_values` (lines 234-255) overwrites `(P, F, d)`;
    * `compute_sequence`, finite horizon (lines 300-302, 320-324): **resets** `(P, d)` to `(Rf, 0)`, makes
      `T = horizon Tfin ts` updates and leaves `(P_T, d_T)` and the last policy in the object;
      infinite horizon (lines 305-308): calls `stationary_values` only if `self.P is None`, then uses
      `T` copies of the current `self.F`. -/
def objCall (sol : M α → M α → Option (M α)) (o : Obj α) : Call α → Obj α × CallOut α
  | .update =>
    match o.P with
    | none => (o, .err "TypeError")
    | some P =>
      match lqUpdate sol o.lq ⟨P, o.d⟩ with
      | none => (o, .err "LinAlgError")
      | some (F, v) => ({ o with P := some v.P, d := v.d, F := some F }, .unit)
  | .stationary Pric =>
    match lqStationary sol o.lq Pric with
    | none => (o, .err "LinAlgError")
    | some (F, d) => ({ o with P := some Pric, d := d, F := some F }, .stat Pric F d)
  | .sequence ts x0 W Pric =>
    if o.Tfin ≠ 0 then
      let T := horizon o.Tfin ts
      match lqBackward sol o.lq T ⟨o.Rf, 0⟩ [] with
      | none => (o, .seq .singular)
      | some (pol, vT) =>
        ({ o with P := some vT.P, d := vT.d, F := pol.getLast? },
          .seq (match simulate o.lq pol T x0 W with
                | none => .indexError
                | some (xs, us) => .ok xs us))
    else
      let o1 : Option (Obj α) :=
        match o.P with
        | some _ => some o
        | none =>
          match lqStationary sol o.lq Pric with
          | none => none
          | some (F, d) => some { o with P := some Pric, d := d, F := some F }
      match o1 with
      | none => (o, .err "LinAlgError")
      | some o1 =>
        match o1.F with
        | none => (o1, .err "TypeError")
        | some F => (o1, .seq (computeSequenceInf o1.lq F ts x0 W))

/-- a history of calls: the final object and the outputs (latest first) -/
def runCalls (sol : M α → M α → Option (M α)) (o : Obj α) : List (Call α) → Obj α
  | [] => o
  | c :: r => runCalls sol (objCall sol o c).1 r

/-! ### RBLQ -/

/-- `d_operator`, _robustlq.py 108-115 -/
def rblqD (sol : M α → M α → Option (M α)) (C : M α) (theta : α) (P : M α) : Option (M α) :=
  let S1 := mmul P C
  let S2 := mmul (mT C) S1
  match sol (msub (smul theta (ident C.nc)) S2) (mT S1) with
  | none => none
  | some X => some (madd P (mmul S1 X))

/-- `b_operator`, _robustlq.py 144-152 (`pure` = `self.pure_forecasting`) -/
def rblqB (sol : M α → M α → Option (M α)) (lq : LQ α) (pure : Bool) (P : M α) : Option (M α × M α) :=
  let S1 := madd lq.Q (smul lq.beta (mmul (mT lq.B) (mmul P lq.B)))
  let S2 := smul lq.beta (mmul (mT lq.B) (mmul P lq.A))
  let S3 := smul lq.beta (mmul (mT lq.A) (mmul P lq.A))
  let Fo := if pure then some (zero lq.Q.nr lq.R.nr) else sol S1 S2
  match Fo with
  | none => none
  | some F => some (F, madd (msub lq.R (mmul (mT S2) F)) S3)

/-- one pass of the loop of `robust_rule_simple` (line 251): `b_operator(d_operator(P))` -/
def rblqStep (sol : M α → M α → Option (M α)) (lq : LQ α) (theta : α) (pure : Bool) (P : M α) :
    Option (M α × M α) :=
  match rblqD sol lq.C theta P with
  | none => none
  | some D => rblqB sol lq pure D

/-- lines 255-258: `K = inv(theta I - C'PC) (PC)' (A - B F)` -/
def rblqK (sol : M α → M α → Option (M α)) (lq : LQ α) (theta : α) (P F : M α) : Option (M α) :=
  let S1 := mmul P lq.C
  let S2 := mmul (mT lq.C) S1
  let W := msub (smul theta (ident lq.C.nc)) S2
  match sol W (ident lq.C.nc) with
  | none => none
  | some Wi => some (mmul (mmul Wi (mT S1)) (msub lq.A (mmul lq.B F)))

/-- vertical block `[A ; B]` -/
def vcat (A B : M α) : M α :=
  M.tab (A.nr + B.nr) A.nc fun i j => if i < A.nr then A.get i j else B.get (i - A.nr) j

/-- lines 202-204: the stacked problem `LQ(Qa, R, A, Ba, beta)` with `Ba = [B C]`,
    `Qa = [[Q, 0], [0, -beta*theta*I]]` -/
def rblqStack (lq : LQ α) (theta : α) : LQ α :=
  let k := lq.Q.nr
  let j := lq.C.nc
  let Qa := vcat (hcat lq.Q (zero k j))
    (hcat (zero j k) (M.tab j j fun a b => (-lq.beta) * (if a = b then 1 else 0) * theta))
  ⟨Qa, lq.R, lq.A, hcat lq.B lq.C, zero lq.R.nr 1, zero (k + j) lq.R.nr, lq.beta⟩

/-! ### nnash: one pass of the loop (lines 111-135); `A, B1, B2` already scaled by `sqrt(beta)` -/

structure Nash (α : Type) where
  A : M α
  B1 : M α
  B2 : M α
  R1 : M α
  R2 : M α
  Q1 : M α
  Q2 : M α
  S1 : M α
  S2 : M α
  W1 : M α
  W2 : M α
  M1 : M α
  M2 : M α

structure NashState (α : Type) where
  F1 : M α
  F2 : M α
  P1 : M α
  P2 : M α

def nnashStep (sol : M α → M α → Option (M α)) (g : Nash α) (P1 P2 : M α) : Option (NashState α) :=
  let v1 : M α := ident g.B1.nc
  let v2 : M α := ident g.B2.nc
  match sol (madd (mmul (mT g.B2) (mmul P2 g.B2)) g.Q2) v2,
        sol (madd (mmul (mT g.B1) (mmul P1 g.B1)) g.Q1) v1 with
  | some G2, some G1 =>
    let H2 := mmul G2 (mmul (mT g.B2) P2)
    let H1 := mmul G1 (mmul (mT g.B1) P1)
    let L1 := madd (mmul H1 g.B2) (mmul G1 (mT g.M1))
    let L2 := madd (mmul H2 g.B1) (mmul G2 (mT g.M2))
    let F1left := msub v1 (mmul L1 L2)
    let F1right := msub (madd (mmul H1 g.A) (mmul G1 (mT g.W1)))
      (mmul L1 (madd (mmul H2 g.A) (mmul G2 (mT g.W2))))
    match sol F1left F1right with
    | none => none
    | some F1 =>
      let F2 := msub (madd (mmul H2 g.A) (mmul G2 (mT g.W2))) (mmul L2 F1)
      let Lam1 := msub g.A (mmul g.B2 F2)
      let Lam2 := msub g.A (mmul g.B1 F1)
      let Pi1 := madd g.R1 (mmul (mT F2) (mmul g.S1 F2))
      let Pi2 := madd g.R2 (mmul (mT F1) (mmul g.S2 F1))
      let P1' := msub (madd (mmul (mT Lam1) (mmul P1 Lam1)) Pi1)
        (mmul (msub (madd (mmul (mT Lam1) (mmul P1 g.B1)) g.W1) (mmul (mT F2) g.M1)) F1)
      let P2' := msub (madd (mmul (mT Lam2) (mmul P2 Lam2)) Pi2)
        (mmul (msub (madd (mmul (mT Lam2) (mmul P2 g.B2)) g.W2) (mmul (mT F1) g.M2)) F2)
      some ⟨F1, F2, P1', P2'⟩
  | _, _ => none

/-- lines 85-100: `B_i` times `sqrt(beta)` (`sb`; the square root itself is a parameter), then a FLAT
    `B_i` (one control, given here as a `1 × n` row) is reshaped to `n × 1` -/
def nnashNormB (sb : α) (B : M α) (flat : Bool) : M α :=
  let Bs := smul sb B
  if flat then mT Bs else Bs

/-- lines 85-100: the data the loop works with: `A`, `B1`, `B2` scaled by `sqrt(beta)`, shapes normalised -/
def nnashPrep (sb : α) (g : Nash α) (flat1 flat2 : Bool) : Nash α :=
  { g with A := smul sb g.A, B1 := nnashNormB sb g.B1 flat1, B2 := nnashNormB sb g.B2 flat2 }

/-- `k` passes of the loop from the state `s` (only `s.P1`, `s.P2` are read) -/
def nnashIter (sol : M α → M α → Option (M α)) (g : Nash α) : Nat → NashState α → Option (NashState α)
  | 0, s => some s
  | k + 1, s =>
    match nnashStep sol g s.P1 s.P2 with
    | none => none
    | some s' => nnashIter sol g k s'

/-! ### Markov jump LQ -/

/-- `lst[i]` with an empty matrix as default -/
def nth (l : List (M α)) (i : Nat) : M α := l.getD i ⟨0, 0, #[]⟩

/-- sum of matrices `f 0 + … + f (m-1)` starting from the `r × c` zero matrix (`sum1[:, :] = 0.`) -/
def msum (r c m : Nat) (f : Nat → M α) : M α :=
  (List.range m).foldl (fun acc j => madd acc (f j)) (zero r c)

/-- a list of `Option`s to an `Option` of a list -/
def allSome {β : Type} : List (Option β) → Option (List β)
  | [] => some []
  | none :: _ => none
  | some a :: r => (allSome r).map (a :: ·)

/-- _matrix_eqn.py 300-304: the two summands for one `j`: `beta*Pi[i,j]*A'P_jA` and
    `Pi[i,j]*(beta*A'P_jB + N')*solve(Q + beta*B'P_jB, beta*B'P_jA + N)` -/
def markovTerm (sol : M α → M α → Option (M α)) (lq : LQ α) (beta pij : α) (Pj : M α) : Option (M α × M α) :=
  match sol (madd lq.Q (smul beta (mmul (mmul (mT lq.B) Pj) lq.B)))
            (madd (smul beta (mmul (mmul (mT lq.B) Pj) lq.A)) lq.N) with
  | none => none
  | some X =>
    some (smul (beta * pij) (mmul (mmul (mT lq.A) Pj) lq.A),
          smul pij (mmul (madd (smul beta (mmul (mmul (mT lq.A) Pj) lq.B)) (mT lq.N)) X))

/-- _matrix_eqn.py 295-306: new `Ps1[i]` for regime `i` (regimes share `beta`; `Pi` is `m × m`) -/
def markovStepI (sol : M α → M α → Option (M α)) (Pi : M α) (lqs : List (LQ α)) (beta : α)
    (Ps : List (M α)) (i : Nat) : Option (M α) :=
  let m := lqs.length
  let lq := lqs.getD i ⟨nth [] 0, nth [] 0, nth [] 0, nth [] 0, nth [] 0, nth [] 0, 0⟩
  let n := lq.R.nr
  let terms := (List.range m).map fun j => markovTerm sol lq beta (Pi.get i j) (nth Ps j)
  match allSome terms with
  | none => none
  | some ts =>
    let sum1 := msum n n m fun j => (ts.getD j (zero n n, zero n n)).1
    let sum2 := msum n n m fun j => (ts.getD j (zero n n, zero n n)).2
    some (msub (madd lq.R sum1) sum2)

/-- one pass of the main loop over all regimes -/
def markovStep (sol : M α → M α → Option (M α)) (Pi : M α) (lqs : List (LQ α)) (beta : α)
    (Ps : List (M α)) : Option (List (M α)) :=
  allSome ((List.range lqs.length).map (markovStepI sol Pi lqs beta Ps))

/-- _lqcontrol.py 526-539: `Fs[i]` -/
def markovF (sol : M α → M α → Option (M α)) (Pi : M α) (lqs : List (LQ α)) (beta : α)
    (Ps : List (M α)) (i : Nat) : Option (M α) :=
  let m := lqs.length
  let lq := lqs.getD i ⟨nth [] 0, nth [] 0, nth [] 0, nth [] 0, nth [] 0, nth [] 0, 0⟩
  let k := lq.Q.nr
  let n := lq.R.nr
  let sum1 := msum k k m fun j => smul (beta * Pi.get i j) (mmul (mmul (mT lq.B) (nth Ps j)) lq.B)
  let sum2 := msum k n m fun j => smul (beta * Pi.get i j) (mmul (mmul (mT lq.B) (nth Ps j)) lq.A)
  sol (madd lq.Q sum1) (madd sum2 lq.N)

/-- line 537: `X[j, i] = trace(Ps[j] @ (C_i C_i'))` -/
def markovX (lqs : List (LQ α)) (Ps : List (M α)) : M α :=
  M.tab lqs.length lqs.length fun j i =>
    let lq := lqs.getD i ⟨nth [] 0, nth [] 0, nth [] 0, nth [] 0, nth [] 0, nth [] 0, 0⟩
    trace (mmul (nth Ps j) (mmul lq.C (mT lq.C)))

/-- lines 541-542: `ds = solve(I - beta Pi, diag(beta Pi X))` as an `m × 1` matrix -/
def markovD (sol : M α → M α → Option (M α)) (Pi : M α) (lqs : List (LQ α)) (beta : α)
    (Ps : List (M α)) : Option (M α) :=
  let m := lqs.length
  let X := markovX lqs Ps
  let PX := mmul (smul beta Pi) X
  sol (msub (ident m) (smul beta Pi)) (M.tab m 1 fun i _ => PX.get i i)

/-! ### LQMarkov.compute_sequence (_lqcontrol.py 585-624) for a given regime path -/

/-- `lst[i]` for a list of LQ regimes -/
def nthLQ (lqs : List (LQ α)) (i : Nat) : LQ α :=
  lqs.getD i ⟨nth [] 0, nth [] 0, nth [] 0, nth [] 0, nth [] 0, nth [] 0, 0⟩

/-- lines 610, 616-618 / 620-622: `As[s] @ x + Bs[s] @ u + Cs[s] @ w[:, t]` — the regime used for the move INTO
    period `t` is `s = state[t]` (the regime of the arrival period, as the code does it) -/
def mkvStep (lq : LQ α) (x u wt : M α) : M α := madd (madd (mmul lq.A x) (mmul lq.B u)) (mmul lq.C wt)

/-- lines 615-622. `rs` = the regimes `state[t], state[t+1], …, state[T]` still to come, `x = x_{t-1}`,
    `u = u_{t-1}`; returns `(x_{t-1} … x_T, u_{t-1} … u_{T-1})` -/
def mkvLoop (lqs : List (LQ α)) (Fs : List (M α)) (W : M α) : List Nat → Nat → M α → M α → List (M α) × List (M α)
  | [], _, x, u => ([x], [u])
  | s :: r, t, x, u =>
    let x' := mkvStep (nthLQ lqs s) x u (col W t)
    match r with
    | [] => ([x, x'], [u])
    | _ :: _ =>
      let p := mkvLoop lqs Fs W r (t + 1) x' (ctrl (nth Fs s) x')
      (x :: p.1, u :: p.2)

/-- `LQMarkov.compute_sequence` after the policies `Fs` are known, for the simulated regime path
    `state = s0 :: rs` (`T + 1` regimes, an input: the chain simulation is property C10) and shocks `W`;
    `none` = the path has fewer than two regimes (`T = 0` cannot happen: `ts_length` falsy means 100) -/
def markovSequence (lqs : List (LQ α)) (Fs : List (M α)) (state : List Nat) (x0 W : M α) :
    Option (List (M α) × List (M α)) :=
  match state with
  | [] => none
  | [_] => none
  | s0 :: r => some (mkvLoop lqs Fs W r 1 x0 (ctrl (nth Fs s0) x0))

end generic

/-! ### driver -/

local instance : Zero Float := ⟨0.0⟩
local instance : One Float := ⟨1.0⟩

def matOf {β : Type} (rs : List (List β)) : M β := M.ofRows rs

/-- all rows have the same positive length -/
def rect {β : Type} (rs : List (List β)) : Bool :=
  !rs.isEmpty && rs.all (fun r => r.length == (rs.headD []).length) && (rs.headD []).length > 0

def shape {β : Type} (rs : List (List β)) (r c : Nat) : Bool :=
  rect rs && rs.length == r && (rs.headD []).length == c

/-- floor(q·2^96)/2^96, printed as `p/q` (exact for every dyadic value with ≤ 96 fractional bits) -/
def showApprox (q : Rat) : String :=
  let s : Nat := 2 ^ 96
  let z : Int := (q.num * (s : Int)) / (q.den : Int)
  showRat ((z : Rat) / (s : Rat))

def showRatM (X : M Rat) : String := showMat showApprox X.toRows
def showFloatM (X : M Float) : String := showMat showFloatBits X.toRows

/-- the `k n j` shape checks NumPy would make -/
def lqShapesOk {β : Type} (Q R A B C N : List (List β)) : Bool :=
  let k := Q.length
  let n := R.length
  shape Q k k && shape R n n && shape A n n && shape B n k && rect C && C.length == n && shape N k n

section io
variable {β : Type} [Zero β] [One β] [Add β] [Sub β] [Mul β] [Div β] [Neg β] [BEq β]

def mkLQ (Q R A B C N : Option (List (List β))) (b : Option β) : Option (LQ β) :=
  match Q, R, A, B, C, N, b with
  | some Q, some R, some A, some B, some C, some N, some b =>
    if lqShapesOk Q R A B C N then some ⟨matOf Q, matOf R, matOf A, matOf B, matOf C, matOf N, b⟩ else none
  | _, _, _, _, _, _, _ => none

/-- parse the six matrices and `beta` of an LQ instance (keys `Q<sfx>`, … ) -/
def parseLQ (pm : String → Option (List (List β))) (ps : String → Option β) (r : List String)
    (sfx : String := "") : Option (LQ β) :=
  let g (key : String) := (kv r (key ++ sfx)).bind pm
  mkLQ (g "Q") (g "R") (g "A") (g "B") (g "C") (g "N") ((kv r "beta").bind ps)

/-- a list of matrices: `m1|m2|…` -/
def showMs (sm : M β → String) (l : List (M β)) : String :=
  if l.isEmpty then "-" else "|".intercalate (l.map sm)

def showUpd (sm : M β → String) (sd : β → String) : Option (M β × Val β) → String
  | none => "ERR:LinAlgError"
  | some (F, v) => s!"F={sm F} P={sm v.P} d={sd v.d}"

def showTrace (sm : M β → String) (sd : β → String) : Option (List (M β × Val β)) → String
  | none => "ERR:LinAlgError"
  | some l => s!"F={showMs sm (l.map (·.1))} P={showMs sm (l.map (·.2.P))} d={showList sd (l.map (·.2.d))}"

def showSeq (sm : M β → String) : SeqOut β → String
  | .singular => "ERR:LinAlgError"
  | .indexError => "ERR:IndexError"
  | .ok xs us => s!"x={showMs sm xs} u={showMs sm us}"

def showOptM (sm : M β → String) : Option (M β) → String
  | none => "ERR:LinAlgError"
  | some X => sm X

/-- the operations shared by the `Rat` and the `Float` reading -/
def handleG (pm : String → Option (List (List β))) (ps : String → Option β)
    (sm : M β → String) (sd : β → String) (toks : List String) : String :=
  let sol : M β → M β → Option (M β) := solve
  match toks with
  | "update" :: r =>
    match parseLQ pm ps r, (kv r "P").bind pm, (kv r "d").bind ps with
    | some lq, some P, some d =>
      if shape P lq.R.nr lq.R.nr then showUpd sm sd (lqUpdate sol lq ⟨matOf P, d⟩) else "bad-op"
    | _, _, _ => "bad-op"
  | "trace" :: r =>
    match parseLQ pm ps r, (kv r "Rf").bind pm, kvNat r "T" with
    | some lq, some P, some T =>
      if shape P lq.R.nr lq.R.nr && T ≤ 64 then showTrace sm sd (lqTrace sol lq T ⟨matOf P, 0⟩) else "bad-op"
    | _, _, _ => "bad-op"
  | "stationary" :: r =>
    match parseLQ pm ps r, (kv r "P").bind pm with
    | some lq, some P =>
      if shape P lq.R.nr lq.R.nr then
        match lqStationary sol lq (matOf P) with
        | none => "ERR:LinAlgError"
        | some (F, d) => s!"F={sm F} d={sd d}"
      else "bad-op"
    | _, _ => "bad-op"
  | "seq" :: r =>
    match parseLQ pm ps r, (kv r "Rf").bind pm, kvNat r "T", kvNat r "ts", (kv r "x0").bind pm, (kv r "W").bind pm with
    | some lq, some P, some T, some ts, some x0, some W =>
      if shape P lq.R.nr lq.R.nr && shape x0 lq.R.nr 1 && shape W lq.C.nc (horizon T ts + 1) && T ≠ 0 && T ≤ 64 then
        showSeq sm (computeSequence sol lq (matOf P) T ts (matOf x0) (matOf W))
      else "bad-op"
    | _, _, _, _, _, _ => "bad-op"
  | "seqinf" :: r =>
    match parseLQ pm ps r, (kv r "F").bind pm, kvNat r "ts", (kv r "x0").bind pm, (kv r "W").bind pm with
    | some lq, some F, some ts, some x0, some W =>
      if shape F lq.Q.nr lq.R.nr && shape x0 lq.R.nr 1 && shape W lq.C.nc (horizon 0 ts + 1) && ts ≤ 200 then
        showSeq sm (computeSequenceInf lq (matOf F) ts (matOf x0) (matOf W))
      else "bad-op"
    | _, _, _, _, _ => "bad-op"
  | "hist" :: r =>
    -- one object, `calls=<count>` calls `c<i>=u|s|q` with parameters `Pric<i>`, `ts<i>`, `x0<i>`, `W<i>`
    match parseLQ pm ps r, kvNat r "T", kvNat r "calls" with
    | some lq, some T, some nc =>
      let n := lq.R.nr
      let Rf? : Option (M β) :=
        if T = 0 then some (zero n n) else
          match (kv r "Rf").bind pm with
          | some Rf => if shape Rf n n then some (matOf Rf) else none
          | none => none
      match Rf? with
      | none => "bad-op"
      | some Rf =>
        if T > 64 || nc > 12 then "bad-op" else
        let showState (i : Nat) (o : Obj β) : String :=
          let sP := match o.P with | none => "None" | some P => sm P
          let sF := match o.F with | none => "None" | some F => sm F
          let sd := match o.P with | none => "None" | some _ => sd o.d
          s!"F{i}={sF} P{i}={sP} d{i}={sd}"
        let rec go (fuel : Nat) (i : Nat) (o : Obj β) (acc : List String) : Option (List String) :=
          match fuel with
          | 0 => some acc.reverse
          | fuel + 1 =>
            let key (k : String) := kv r (k ++ toString i)
            let pric : M β := match (key "Pric").bind pm with
              | some P => if shape P n n then matOf P else zero n n
              | none => zero n n
            let call? : Option (Call β) :=
              match key "c" with
              | some "u" => some .update
              | some "s" => if ((key "Pric").bind pm).isSome then some (.stationary pric) else none
              | some "q" =>
                match (key "ts").bind parseNat?, (key "x0").bind pm, (key "W").bind pm with
                | some ts, some x0, some W =>
                  if shape x0 n 1 && shape W lq.C.nc (horizon o.Tfin ts + 1) && ts ≤ 200 then
                    some (.sequence ts (matOf x0) (matOf W) pric) else none
                | _, _, _ => none
              | _ => none
            match call? with
            | none => none
            | some c =>
              let (o', out) := objCall sol o c
              match out with
              | .err k => some ((s!"E{i}={k}" :: acc).reverse)
              | .seq .singular => some ((s!"E{i}=LinAlgError" :: acc).reverse)
              | .seq .indexError => some ((s!"E{i}=IndexError" :: acc).reverse)
              | .seq (.ok xs us) => go fuel (i + 1) o' (s!"{showState i o'} x{i}={showMs sm xs} u{i}={showMs sm us}" :: acc)
              | _ => go fuel (i + 1) o' (showState i o' :: acc)
        match go nc 0 (objInit lq T Rf) [] with
        | none => "bad-op"
        | some l => if l.isEmpty then "-" else " ".intercalate l
    | _, _, _ => "bad-op"
  | "rulecost" :: r =>
    -- cost of the rules F and G over T periods, the completed squares and the discounted tails, for given P
    match parseLQ pm ps r, (kv r "P").bind pm, (kv r "F").bind pm, (kv r "G").bind pm, kvNat r "T", (kv r "x0").bind pm with
    | some lq, some P, some F, some G, some T, some x0 =>
      if shape P lq.R.nr lq.R.nr && shape F lq.Q.nr lq.R.nr && shape G lq.Q.nr lq.R.nr && shape x0 lq.R.nr 1 && T ≤ 64 then
        let P := matOf P
        let F := matOf F
        let G := matOf G
        let x0 := matOf x0
        let eG := ruleEndM lq G T x0 1
        let eF := ruleEndM lq F T x0 1
        s!"costG={sd (ruleCostM lq G T x0)} costF={sd (ruleCostM lq F T x0)} gap={sd (ruleGapM lq (lqS1 lq P) F G T x0)} tailG={sd (eG.2 * quadM P eG.1)} tailF={sd (eF.2 * quadM P eF.1)} v0={sd (quadM P x0)}"
      else "bad-op"
    | _, _, _, _, _, _ => "bad-op"
  | "mkvseq" :: r =>
    -- LQMarkov.compute_sequence: regimes `A<i>,B<i>,C<i>,Q<i>,R<i>,N<i>`, policies `F<i>`, regime path `st`, shocks `W`
    match kvNat r "m", kvNats r "st", (kv r "x0").bind pm, (kv r "W").bind pm with
    | some m, some st, some x0, some W =>
      let regs := (List.range m).map fun i =>
        match parseLQ pm ps r (toString i), (kv r ("F" ++ toString i)).bind pm with
        | some lq, some F => if shape F lq.Q.nr lq.R.nr then some (lq, matOf F) else none
        | _, _ => none
      match allSome regs with
      | none => "bad-op"
      | some rl =>
        let n := (rl.headD (⟨zero 0 0, zero 0 0, zero 0 0, zero 0 0, zero 0 0, zero 0 0, 0⟩, zero 0 0)).1.R.nr
        let jj := (rl.headD (⟨zero 0 0, zero 0 0, zero 0 0, zero 0 0, zero 0 0, zero 0 0, 0⟩, zero 0 0)).1.C.nc
        if m ≠ 0 && m ≤ 6 && st.all (· < m) && st.length ≤ 202 && shape x0 n 1 && shape W jj st.length &&
           rl.all (fun q => q.1.R.nr == n && q.1.C.nc == jj) then
          match markovSequence (rl.map (·.1)) (rl.map (·.2)) st (matOf x0) (matOf W) with
          | none => "ERR:IndexError"
          | some (xs, us) => s!"x={showMs sm xs} u={showMs sm us}"
        else "bad-op"
    | _, _, _, _ => "bad-op"
  | "rblqd" :: r =>
    match (kv r "C").bind pm, (kv r "theta").bind ps, (kv r "P").bind pm with
    | some C, some th, some P =>
      if rect C && shape P C.length C.length then showOptM sm (rblqD sol (matOf C) th (matOf P)) else "bad-op"
    | _, _, _ => "bad-op"
  | "rblqb" :: r =>
    match parseLQ pm ps r, (kv r "P").bind pm, kvNat r "pure" with
    | some lq, some P, some pure =>
      if shape P lq.R.nr lq.R.nr then
        match rblqB sol lq (pure == 1) (matOf P) with
        | none => "ERR:LinAlgError"
        | some (F, P') => s!"F={sm F} P={sm P'}"
      else "bad-op"
    | _, _, _ => "bad-op"
  | "rblqstep" :: r =>
    match parseLQ pm ps r, (kv r "theta").bind ps, (kv r "P").bind pm, kvNat r "pure" with
    | some lq, some th, some P, some pure =>
      if shape P lq.R.nr lq.R.nr then
        match rblqStep sol lq th (pure == 1) (matOf P) with
        | none => "ERR:LinAlgError"
        | some (F, P') =>
          match rblqK sol lq th P' F with
          | none => "ERR:LinAlgError"
          | some K => s!"F={sm F} P={sm P'} K={sm K}"
      else "bad-op"
    | _, _, _, _ => "bad-op"
  | "rblqstack" :: r =>
    match parseLQ pm ps r, (kv r "theta").bind ps, (kv r "P").bind pm with
    | some lq, some th, some P =>
      if shape P lq.R.nr lq.R.nr then
        match lqUpdate sol (rblqStack lq th) ⟨matOf P, 0⟩ with
        | none => "ERR:LinAlgError"
        | some (F, v) => s!"F={sm F} P={sm v.P}"
      else "bad-op"
    | _, _, _ => "bad-op"
  | "nnash" :: r =>
    -- raw (unscaled) `A, B1, B2`, `sb = sqrt(beta)` as computed by the code, `flat<i>=1` when `B_i` was passed 1-D
    -- (then `B<i>` is the `1 × n` row of its entries)
    let g (key : String) := (kv r key).bind pm
    match g "A", g "B1", g "B2", g "R1", g "R2", g "Q1", g "Q2", g "S1", g "S2", g "W1", g "W2",
          g "M1", g "M2", g "P1", g "P2", kvNat r "iters" with
    | some A, some B1, some B2, some R1, some R2, some Q1, some Q2, some S1, some S2, some W1, some W2,
      some M1, some M2, some P1, some P2, some iters =>
      match (kv r "sb").bind ps, kvNat r "flat1", kvNat r "flat2" with
      | some sb, some f1, some f2 =>
        let n := A.length
        let k1 := Q1.length
        let k2 := Q2.length
        let okB1 := if f1 == 1 then shape B1 1 n && k1 == 1 else shape B1 n k1
        let okB2 := if f2 == 1 then shape B2 1 n && k2 == 1 else shape B2 n k2
        if shape A n n && okB1 && okB2 && shape R1 n n && shape R2 n n && shape Q1 k1 k1 &&
           shape Q2 k2 k2 && shape S1 k2 k2 && shape S2 k1 k1 && shape W1 n k1 && shape W2 n k2 &&
           shape M1 k2 k1 && shape M2 k1 k2 && shape P1 n n && shape P2 n n && 1 ≤ iters && iters ≤ 16 &&
           f1 ≤ 1 && f2 ≤ 1 then
          let g0 : Nash β := ⟨matOf A, matOf B1, matOf B2, matOf R1, matOf R2, matOf Q1, matOf Q2, matOf S1,
              matOf S2, matOf W1, matOf W2, matOf M1, matOf M2⟩
          match nnashIter sol (nnashPrep sb g0 (f1 == 1) (f2 == 1)) iters ⟨zero 0 0, zero 0 0, matOf P1, matOf P2⟩ with
          | none => "ERR:LinAlgError"
          | some s => s!"F1={sm s.F1} F2={sm s.F2} P1={sm s.P1} P2={sm s.P2}"
        else "bad-op"
      | _, _, _ => "bad-op"
    | _, _, _, _, _, _, _, _, _, _, _, _, _, _, _, _ => "bad-op"
  | "markov" :: r =>
    -- regimes are given as `m=<count>` and keys `Q0,R0,A0,B0,C0,N0,P0, Q1,…`; `Pi` is m×m
    match kvNat r "m", (kv r "Pi").bind pm, (kv r "beta").bind ps with
    | some m, some Pi, some b =>
      let regs := (List.range m).map fun i =>
        match parseLQ pm ps r (toString i), (kv r ("P" ++ toString i)).bind pm with
        | some lq, some P => if shape P lq.R.nr lq.R.nr then some (lq, matOf P) else none
        | _, _ => none
      match allSome regs with
      | none => "bad-op"
      | some rl =>
        if shape Pi m m && m ≠ 0 && m ≤ 6 then
          let lqs := rl.map (·.1)
          let Ps := rl.map (·.2)
          match markovStep sol (matOf Pi) lqs b Ps,
                allSome ((List.range m).map (markovF sol (matOf Pi) lqs b Ps)),
                markovD sol (matOf Pi) lqs b Ps with
          | some Ps', some Fs, some ds =>
            s!"Ps={showMs sm Ps'} Fs={showMs sm Fs} ds={sm ds}"
          | _, _, _ => "ERR:LinAlgError"
        else "bad-op"
    | _, _, _ => "bad-op"
  | _ => "bad-op"

end io

def handle (toks : List String) : String :=
  match toks with
  | "horizon" :: r =>
    match kvNat r "T", kvNat r "ts" with
    | some T, some ts => toString (horizon T ts)
    | _, _ => "bad-op"
  | "domain" :: r =>
    -- the constants of the explicit-rate theorems: kappa = ‖A − BF‖∞ (max absolute row sum), ‖P‖_max, beta*kappa²
    match kvRatMat r "A", kvRatMat r "B", kvRatMat r "F", kvRatMat r "P", kvRat r "beta" with
    | some A, some B, some F, some P, some b =>
      let n := A.length
      let k := F.length
      if shape A n n && shape B n k && shape F k n && shape P n n then
        let kap : Rat := C06.normInf (msub (matOf A) (mmul (matOf B) (matOf F)))
        s!"kappa={showRat kap} pmax={showRat (maxAbs C06.gabs (matOf P))} bk2={showRat (b * kap ^ 2)}"
      else "bad-op"
    | _, _, _, _, _ => "bad-op"
  | "init" :: r =>
    -- LQ.__init__: ValueError branch and the initial (P, d, F)
    match parseLQ (parseMat? parseRat?) parseRat? r, kvNat r "T" with
    | some lq, some T =>
      let n := lq.R.nr
      let Rf? : Option (M Rat) :=
        if T = 0 then some (zero n n) else
          match kvRatMat r "Rf" with
          | some Rf => if shape Rf n n then some (matOf Rf) else none
          | none => none
      match Rf? with
      | none => "bad-op"
      | some Rf =>
        match objInitChecked lq T Rf with
        | none => "ERR:ValueError"
        | some o =>
          let sP := match o.P with | none => "None" | some P => showRatM P
          let sd := match o.P with | none => "None" | some _ => showRat o.d
          s!"P={sP} d={sd} F=None T={o.Tfin}"
    | _, _ => "bad-op"
  | "rat" :: r => handleG (parseMat? parseRat?) parseRat? showRatM showApprox r
  | "float" :: r => handleG (parseMat? parseFloat?) parseFloat? showFloatM showFloatBits r
  | _ => "bad-op"

end QE.C07
