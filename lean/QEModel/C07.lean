/-
  QEModel.C07 — executable model for property C07 (stub; to be filled in).
-/
import QEModel.Base
namespace QE.C07

def handle (_toks : List String) : String := "bad-op"

end QE.C07
