/-
  QEModel.C02 — stationary distributions / GTH algorithm.
  Mirrors: quantecon/markov/gth_solve.py (`gth_solve` lines 58-96 NumPy path,
  `_gth_solve_jit` lines 114-140), quantecon/markov/core.py
  (`MarkovChain.__init__` checks 168-199, `_compute_stationary` 386-408) and, for
  the recurrent classes, what quantecon/_graph_tools.py asks of SciPy (sink
  strongly connected components), re-implemented here by a reachability closure.

  One scalar-generic definition `gthSolve`; instances: `Rat` (exact reference),
  `Float` (same operations in the same order as the Numba kernel: bit-identical),
  ordered field (theorems in QEProofs/Properties/C02.lean).
-/
import QEModel.Base
namespace QE.C02
open QE

section generic
variable {α : Type} [Zero α] [One α] [Add α] [Mul α] [Div α] [LE α] [DecidableLE α]

/-- sequential sum `((0 + f 0) + f 1) + … + f (m-1)` — the order of Numba's `np.sum`
    and of the `out[k] += …` loop. -/
def sumUpTo (f : Nat → α) : Nat → α
  | 0 => 0
  | m + 1 => sumUpTo f m + f m

/-- `scale = np.sum(A[k, k+1:n])` (lines 77 / 118) -/
def rowScale (n : Nat) (A : M α) (k : Nat) : α :=
  sumUpTo (fun t => A.get k (k + 1 + t)) (n - (k + 1))

/-- one pass of the reduction loop body for pivot `k` with `scale = s`
    (lines 84-86 / 125-129): `A[i,k] /= s` for `i>k`, then
    `A[i,j] += A[i,k]*A[k,j]` for `i,j>k` (with the already divided `A[i,k]`). -/
def redStep (n : Nat) (A : M α) (k : Nat) (s : α) : M α :=
  M.tab n n fun i j =>
    if k < i then
      if j = k then A.get i k / s
      else if k < j then A.get i j + (A.get i k / s) * A.get k j
      else A.get i j
    else A.get i j

/-- `for k in range(n-1)` with the `scale <= 0` break (lines 76-86 / 117-129).
    `fuel` = remaining iterations; returns the overwritten matrix and the
    effective size (`n`, or `k+1` after a break). -/
def reduce (n : Nat) : Nat → Nat → M α → M α × Nat
  | 0, _, A => (A, n)
  | fuel + 1, k, A =>
    let s := rowScale n A k
    if s ≤ 0 then (A, k + 1)
    else reduce n fuel (k + 1) (redStep n A k s)

/-- `x[k] = Σ_{i=k+1}^{m-1} x[i] * A[i,k]` accumulated from 0 in increasing `i`
    (lines 91 / 134-135); `xs = [x_{k+1}, …, x_{m-1}]`. -/
def dotCol (A : M α) (k : Nat) (xs : List α) : α :=
  sumUpTo (fun t => xs.getD t 0 * A.get (k + 1 + t) k) xs.length

/-- backward substitution (lines 89-91 / 132-135): `backSub A m j` is
    `[x_{m-1-j}, …, x_{m-1}]`, starting from `x_{m-1} = 1`. -/
def backSub (A : M α) (m : Nat) : Nat → List α
  | 0 => [1]
  | j + 1 =>
    let xs := backSub A m j
    dotCol A (m - 2 - j) xs :: xs

/-- the unnormalised solution on the effective block `[0,m)` -/
def gthRaw (n : Nat) (A : M α) : List α :=
  let r := reduce n (n - 1) 0 A
  backSub r.1 r.2 (r.2 - 1)

/-- sequential sum of a list from 0 (Numba `np.sum(out)`) -/
def sumList (l : List α) : α := sumUpTo (fun t => l.getD t 0) l.length

/-- `_gth_solve_jit(A, out)` / `gth_solve(A)` for an `n × n` matrix, `n ≥ 1`:
    reduction, backward substitution, normalisation (lines 138-140); entries
    outside the effective block stay 0. -/
def gthSolve (n : Nat) (A : M α) : List α :=
  let y := gthRaw n A
  let norm := sumList y
  y.map (fun v => v / norm) ++ List.replicate (n - y.length) 0

/-- NumPy's pairwise `np.sum` on fewer than 128 elements (used only by the non-jitted twin's
    normalisation `x /= np.sum(x)`, where `len x` can reach 8): fewer than 8 elements
    sequentially; otherwise 8 running accumulators combined as a balanced tree, then the
    remainder sequentially. Differs from `sumList` only in rounding. -/
def npSum (l : List α) : α :=
  let n := l.length
  if n < 8 then sumList l
  else
    let blocks := n / 8
    let r : Nat → α := fun j =>
      (List.range (blocks - 1)).foldl (fun acc b => acc + l.getD (8 * (b + 1) + j) 0) (l.getD j 0)
    let res := ((r 0 + r 1) + (r 2 + r 3)) + ((r 4 + r 5) + (r 6 + r 7))
    (List.range (n % 8)).foldl (fun acc t => acc + l.getD (8 * blocks + t) 0) res

/-- the non-jitted twin (lines 76-96): identical reduction and substitution, the
    normalising sum taken by NumPy's pairwise `np.sum`. -/
def gthSolveNp (n : Nat) (A : M α) : List α :=
  let y := gthRaw n A
  let norm := (0 : α) + npSum (y ++ List.replicate (n - y.length) 0)
  y.map (fun v => v / norm) ++ List.replicate (n - y.length) 0

/-- Proof-side helper (not called by the driver): the same computation arranged as one
    structural recursion on the active block `[k,n)` — reduce at `k`, solve the rest,
    substitute back for `x_k`. `QE.C02.gthRaw_eq_rec` shows it equals `gthRaw`. -/
def gthRec (n : Nat) : Nat → Nat → M α → List α
  | 0, _, _ => [1]
  | fuel + 1, k, A =>
    let s := rowScale n A k
    if s ≤ 0 then [1]
    else
      let A' := redStep n A k s
      let xs := gthRec n fuel (k + 1) A'
      dotCol A' k xs :: xs

/-! ### copy semantics: what the caller's array holds after the call (gth_solve.py:58-60)

  `copy = copy_if_needed if overwrite else True; A1 = np.array(A, dtype=float, copy=copy, order='C')`.
  With `overwrite=False` the routine always works on a copy. With `overwrite=True` NumPy returns the
  argument itself — no copy — exactly when it already is an `ndarray` (subclasses such as `np.matrix`
  included: a base-class view of the same memory) of dtype float64 in C-contiguous layout; in every
  other case (list / tuple, other dtype, F-order, strided or negative-stride view) a converted copy
  is made and the argument stays as it was. Both twins then overwrite `A1` with the reduced matrix. -/

/-- how the argument was passed -/
structure ArgForm where
  ndarray : Bool
  float64 : Bool
  cContig : Bool

/-- the routine works on the caller's memory -/
def worksInPlace (overwrite : Bool) (f : ArgForm) : Bool :=
  overwrite && f.ndarray && f.float64 && f.cContig

/-- contents of the caller's matrix after `gth_solve(A, overwrite=…, use_jit=…)` -/
def argAfter (n : Nat) (A : M α) (overwrite : Bool) (f : ArgForm) : M α :=
  if worksInPlace overwrite f then (reduce n (n - 1) 0 A).1 else A

/-- one call: the returned vector and the state in which the argument is left -/
def gthCall (n : Nat) (A : M α) (overwrite : Bool) (f : ArgForm) : List α × M α :=
  (gthSolve n A, argAfter n A overwrite f)

/-- a history of `r` calls with the same options on the same array object: the vector returned by
    the last call and the final contents of the array (`r = 0`: no call, empty vector) -/
def gthCalls (n : Nat) (overwrite : Bool) (f : ArgForm) : Nat → M α → List α × M α
  | 0, A => ([], A)
  | 1, A => gthCall n A overwrite f
  | r + 2, A => gthCalls n overwrite f (r + 1) (argAfter n A overwrite f)

/-! ### the same algorithm with the evaluation order of its sums and dot products left open

  `gth_solve` contains three kinds of multi-term operations: the pivot-row sum `np.sum(A[k,k+1:n])`,
  the back-substitution dot product `np.dot(x[k+1:n], A[k+1:n,k])` and the normalising sum
  `np.sum(x)`.  The Numba kernel evaluates them left to right; NumPy sums pairwise and hands the dot
  product to BLAS.  `Ord` makes them parameters; `seqOrd` and `npOrd` are the two instances the driver
  runs (`QE.C02.gthSolve_eq_seqOrd`, `gthSolveNp_eq_npOrd`); `treeOrd` evaluates along arbitrary
  binary trees (any bracketing of any permutation). -/

structure Ord (α : Type) where
  sumRow : List α → α
  dot : List α → List α → α
  norm : List α → α

/-- the terms `A[k, k+1:n]` -/
def rowTerms (n : Nat) (A : M α) (k : Nat) : List α :=
  (List.range (n - (k + 1))).map fun t => A.get k (k + 1 + t)

/-- the terms `A[k+1:k+1+m, k]` -/
def colTerms (A : M α) (k m : Nat) : List α :=
  (List.range m).map fun t => A.get (k + 1 + t) k

def gthRecO (o : Ord α) (n : Nat) : Nat → Nat → M α → List α
  | 0, _, _ => [1]
  | fuel + 1, k, A =>
    let s := o.sumRow (rowTerms n A k)
    if s ≤ 0 then [1]
    else
      let A' := redStep n A k s
      let xs := gthRecO o n fuel (k + 1) A'
      o.dot xs (colTerms A' k xs.length) :: xs

def gthSolveO (o : Ord α) (n : Nat) (A : M α) : List α :=
  let y := gthRecO o n (n - 1) 0 A
  let norm := o.norm y
  y.map (fun v => v / norm) ++ List.replicate (n - y.length) 0

/-- left-to-right dot product accumulated from 0 -/
def seqDot (a b : List α) : α := sumUpTo (fun t => a.getD t 0 * b.getD t 0) a.length

/-- the Numba kernel's order -/
def seqOrd : Ord α := ⟨sumList, seqDot, sumList⟩

/-- the order of the model of the NumPy twin (`gthSolveNp`): pairwise normalising sum over all
    `n` entries, started from NumPy's reduction identity -/
def npOrd (n : Nat) : Ord α :=
  ⟨sumList, seqDot, fun y => (0 : α) + npSum (y ++ List.replicate (n - y.length) 0)⟩

/-- a bracketing of a permutation of indices -/
inductive SumTree where
  | leaf (i : Nat)
  | node (l r : SumTree)

def SumTree.leaves : SumTree → List Nat
  | .leaf i => [i]
  | .node l r => l.leaves ++ r.leaves

def SumTree.eval (f : Nat → α) : SumTree → α
  | .leaf i => f i
  | .node l r => l.eval f + r.eval f

/-- sums and dot products evaluated along the trees `T m` (one per number of terms; the empty sum
    is 0); products are formed first, then added along the tree -/
def treeOrd (T : Nat → SumTree) : Ord α :=
  ⟨fun l => if l.length = 0 then 0 else (T l.length).eval (fun i => l.getD i 0),
   fun a b => if a.length = 0 then 0 else (T a.length).eval (fun i => a.getD i 0 * b.getD i 0),
   fun l => if l.length = 0 then 0 else (T l.length).eval (fun i => l.getD i 0)⟩

/-! ### rounding-factor counts of the accuracy theorem (`QE.C02.gthSolve_accuracy`) -/

/-- factors accumulated by the back-substituted block when `f` pivots remain and the active
    matrix carries `e` factors: the reduced matrix carries `3e+m+3` (`m = f+1` terms in the pivot
    row sum), its pivot column `2e+m+1`, a product one more, the sum of at most `m` products `m` more. -/
def xerr : Nat → Nat → Nat
  | 0, _ => 0
  | f + 1, e => xerr f (3 * e + (f + 1) + 3) + (2 * e + (f + 1) + 1) + 1 + (f + 1)

/-- `E(n)`: every component of the rounded `gth_solve` result carries at most `E(n)` factors in
    `[1/(1+u), 1+u]` (normalising sum: `n` more; final division: both operands and one rounding). -/
def errBound (n : Nat) : Nat := 2 * xerr (n - 1) 0 + n + 1

/-! ### recurrent classes and `MarkovChain.stationary_distributions` -/

/-- edge `i → j` of the digraph `DiGraph(P)`: a non-zero (for `P ≥ 0`: positive) entry -/
def adjB (P : M α) (i j : Nat) : Bool := !(decide (P.get i j ≤ 0))

/-- one closure step: `R'(i,j) = R(i,j) ∨ ∃ k, R(i,k) ∧ k → j` (0/1 matrices) -/
def reachStep (n : Nat) (adj : Nat → Nat → Bool) (R : M Nat) : M Nat :=
  M.tab n n fun i j =>
    if R.get i j = 1 || (List.range n).any (fun k => R.get i k = 1 && adj k j) then 1 else 0

def iter {β : Type} (f : β → β) : Nat → β → β
  | 0, b => b
  | t + 1, b => iter f t (f b)

/-- reachability in at most `n` steps (= reachability), reflexive -/
def reachMat (n : Nat) (adj : Nat → Nat → Bool) : M Nat :=
  iter (reachStep n adj) n (M.tab n n fun i j => if i = j then 1 else 0)

/-- `i` is recurrent: everything reachable from `i` leads back to `i` -/
def recurrentB (n : Nat) (R : M Nat) (i : Nat) : Bool :=
  (List.range n).all fun j => R.get i j = 0 || R.get j i = 1

/-- communication class of `i`, increasing -/
def classOf (n : Nat) (R : M Nat) (i : Nat) : List Nat :=
  (List.range n).filter fun j => R.get i j = 1 && R.get j i = 1

/-- recurrent classes (sink strongly connected components), each increasing, ordered by
    their smallest state -/
def recClasses (n : Nat) (R : M Nat) : List (List Nat) :=
  ((List.range n).filter fun i => recurrentB n R i && (classOf n R i).head? == some i).map
    (classOf n R)

/-- `P[np.ix_(rec, rec)]` (core.py:399) -/
def restrict (P : M α) (C : List Nat) : M α :=
  M.tab C.length C.length fun a b => P.get (C.getD a 0) (C.getD b 0)

/-- `stationary_dists[i, rec_class] = x` into a zero row (core.py:397, 402) -/
def scatter (n : Nat) (C : List Nat) (x : List α) : List α :=
  (List.range n).map fun i =>
    match C.findIdx? (· == i) with
    | some a => x.getD a 0
    | none => 0

/-- `C` is closed: no positive entry of a row in `C` lies outside `C`. The driver prints it for
    every class it reports (`closed=1`); `QE.C02.closedB_holds` proves it always holds for the
    classes of `recClasses`, so it is a redundant self-check, not an assumption. -/
def closedB (n : Nat) (P : M α) (C : List Nat) : Bool :=
  C.all fun c => (List.range n).all fun j => C.contains j || decide (P.get c j ≤ 0)

/-- `MarkovChain(P).stationary_distributions` (core.py:386-408), rows ordered by the
    smallest state of the class (the code's order is SciPy's component labelling; the
    harness sorts the code's rows the same way). The irreducible branch (one class =
    all states, `gth_solve(P)`) is the special case `C = range n` of the general one. -/
def stationaryDists (n : Nat) (P : M α) : List (List Nat × List α) :=
  (recClasses n (reachMat n (adjB P))).map fun C =>
    (C, scatter n C (gthSolve C.length (restrict P C)))

end generic

/-! ### line protocol -/

/-- `MarkovChain.__init__` acceptance (core.py:176-199) in exact arithmetic: entries `≥ 0`
    and every row sum within `np.allclose`'s `1e-8 + 1e-5·1` of 1. -/
def validStochastic (n : Nat) (P : M Rat) : Bool :=
  (List.range n).all fun i =>
    (List.range n).all (fun j => decide (0 ≤ P.get i j)) &&
    (let s := sumUpTo (fun j => P.get i j) n
     let d := if s ≤ 1 then 1 - s else s - 1
     decide (d ≤ (1 : Rat) / 100000000 + 1 / 100000))

def isSquare {β : Type} (n : Nat) (rows : List (List β)) : Bool :=
  rows.length == n && rows.all (fun r => r.length == n)

def showRows {β : Type} (f : β → String) (rs : List (List β)) : String := showMat f rs

def handle (toks : List String) : String :=
  match toks with
  | "gth" :: r =>
    -- gth n=<n> jit=<0|1> A=<rows of doubles>
    match kvNat r "n", kvNat r "jit", kvFloatMat r "A", kvRatMat r "A" with
    | some n, some jit, some Af, some Aq =>
      if n = 0 then "bad-op"
      else if !(isSquare n Af) then "ERR:ValueError"
      else
        let Mf : M Float := M.ofRows Af
        let Mq : M Rat := M.ofRows Aq
        let m := (reduce n (n - 1) 0 Mq).2
        let xf := if jit = 1 then gthSolve n Mf else gthSolveNp n Mf
        let xq := gthSolve n Mq
        "m=" ++ toString m ++ " f=" ++ showList showFloatBits xf ++ " q=" ++ showList showRat xq
    | _, _, _, _ => "bad-op"
  | "stat" :: r =>
    -- stat n=<n> P=<rows of doubles>
    match kvNat r "n", kvFloatMat r "P", kvRatMat r "P" with
    | some n, some Pf, some Pq =>
      if n = 0 then "bad-op"
      else if !(isSquare n Pf) then "ERR:ValueError"
      else
        let Mf : M Float := M.ofRows Pf
        let Mq : M Rat := M.ofRows Pq
        if !(validStochastic n Mq) then "ERR:ValueError"
        else
          let dq := stationaryDists n Mq
          -- classes are decided in exact arithmetic; the Float rows use the same classes
          let df := dq.map fun (C, _) => scatter n C (gthSolve C.length (restrict Mf C))
          "cls=" ++ showMat toString (dq.map (·.1)) ++ " f=" ++ showMat showFloatBits df ++
            " q=" ++ showMat showRat (dq.map (·.2)) ++
            " closed=" ++ showBool (dq.all fun (C, _) => closedB n Mq C)
    | _, _, _ => "bad-op"
  | "gthow" :: r =>
    -- gthow n=<n> ow=<0|1> nd=<0|1> f64=<0|1> cc=<0|1> reps=<r> A=<rows of doubles>
    --   -> x=<last result, Float bits> A=<final contents of the caller's array, Float bits>
    match kvNat r "n", kvNat r "ow", kvNat r "nd", kvNat r "f64", kvNat r "cc", kvNat r "reps", kvFloatMat r "A" with
    | some n, some ow, some nd, some f64, some cc, some reps, some Af =>
      if n = 0 || reps = 0 || ow > 1 || nd > 1 || f64 > 1 || cc > 1 then "bad-op"
      else if !(isSquare n Af) then "ERR:ValueError"
      else
        let res := gthCalls n (ow = 1) ⟨nd = 1, f64 = 1, cc = 1⟩ reps (M.ofRows Af : M Float)
        let Aout := M.tab n n fun i j => res.2.get i j
        "x=" ++ showList showFloatBits res.1 ++ " A=" ++ showMat showFloatBits Aout.toRows
    | _, _, _, _, _, _, _ => "bad-op"
  | "ebound" :: r =>
    match kvNat r "n" with
    | some n => if n = 0 then "bad-op" else toString (errBound n)
    | none => "bad-op"
  | "classes" :: r =>
    match kvNat r "n", kvRatMat r "P" with
    | some n, some Pq =>
      if n = 0 || !(isSquare n Pq) then "bad-op"
      else showMat toString (recClasses n (reachMat n (adjB (M.ofRows Pq : M Rat))))
    | _, _ => "bad-op"
  | _ => "bad-op"

end QE.C02
