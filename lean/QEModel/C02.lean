/-
  QEModel.C02 — executable model for property C02 (stub; to be filled in).
-/
import QEModel.Base
namespace QE.C02

def handle (_toks : List String) : String := "bad-op"

end QE.C02
