/-
  QEModel.C06 — discrete Lyapunov and Riccati solvers (quantecon/_matrix_eqn.py).

  Mirrors
  * `solve_discrete_lyapunov(method="doubling")`, lines 65-86: `lyapStep`
    (lines 75-76), `lyapLoop` (the `while diff > 1e-15` loop with the
    `n_its > max_it` exit of lines 84-86), `lyapDoubling`.
  * `solve_discrete_riccati(method="doubling")`, lines 170-224: `gammaSel`
    (choice of γ among the candidates, lines 172-195, on the condition numbers
    the code computed — `np.linalg.cond` is a parameter), `riccInit`
    (lines 198-204), `sdaStep` (lines 214-216), `riccLoop` (lines 208-222),
    `riccDoubling` (… `return H1 + gamma * I`).
  `np.linalg.solve` is the parameter `sol`; the driver instantiates it with the
  exact Gauss–Jordan `MatAlg.solve`. Everything is scalar-generic: the driver
  runs it at `Rat` (exact reference) and at `Float` (same loop in doubles).
  The qz / bartels-stewart paths delegate to SciPy and are not modelled; they
  are covered by the spec run of the harness only.
-/
import QEModel.MatAlg
namespace QE.C06
open QE QE.MatAlg

section generic
variable {α : Type} [Zero α] [One α] [Add α] [Sub α] [Mul α] [Div α] [Neg α] [BEq α]
  [LT α] [LE α] [DecidableLT α] [DecidableLE α]

/-- `np.abs` on a scalar -/
def gabs (x : α) : α := if x < 0 then -x else x

/-- absolute row sum `Σ_c |A[i,c]|` -/
def rowAbsSum (A : M α) (i : Nat) : α := sumRange A.nc fun c => gabs (A.get i c)

/-- max-row-sum norm `‖A‖∞ = np.linalg.norm(A, np.inf)` (not used by the code; it states the
    checkable domain of the total-correctness theorem `lyap_total_correct`) -/
def normInf (A : M α) : α :=
  (List.range A.nr).foldl (fun acc i => if acc < rowAbsSum A i then rowAbsSum A i else acc) 0

/-! ### Lyapunov doubling -/

/-- lines 75-76: `alpha1 = alpha0 @ alpha0`, `gamma1 = gamma0 + alpha0 @ gamma0 @ alpha0'` -/
def lyapStep (s : M α × M α) : M α × M α :=
  (mmul s.1 s.1, madd s.2 (mmul (mmul s.1 s.2) (mT s.1)))

/-- `k` passes of the loop body, no stopping rule -/
def lyapIter (A B : M α) : Nat → M α × M α
  | 0 => (A, B)
  | k + 1 => lyapStep (lyapIter A B k)

/-- line 78: `diff = np.max(np.abs(gamma1 - gamma0))` -/
def lyapDiff (s s1 : M α × M α) : α := maxAbs gabs (msub s1.2 s.2)

inductive LyapOut (α : Type) where
  /-- normal return: `gamma1`, final `n_its`, the `diff` of every pass (latest first) -/
  | ok (X : M α) (nIts : Nat) (diffs : List α)
  /-- `ValueError("Exceeded maximum iterations …")`, with the `n_its` it reports -/
  | maxit (nIts : Nat) (diffs : List α)

/-- final `n_its` of a normal return -/
def LyapOut.its? {α : Type} : LyapOut α → Option Nat
  | .ok _ n _ => some n
  | .maxit _ _ => none

/-- The `while diff > tol` loop, entered with `diff` known to exceed `tol`
    (`diff = 5` initially). `nIts` is the code's `n_its` before the pass. The
    check `n_its > max_it` (line 84) comes after the pass and before the next
    `while` test. `fuel` bounds the number of passes (`max_it` suffices). -/
def lyapLoop (tol : α) (maxIt : Nat) : Nat → Nat → M α × M α → List α → LyapOut α
  | 0, nIts, _, ds => .maxit nIts ds
  | fuel + 1, nIts, s, ds =>
    let s1 := lyapStep s
    let diff := lyapDiff s s1
    if nIts + 1 > maxIt then .maxit (nIts + 1) (diff :: ds)
    else if tol < diff then lyapLoop tol maxIt fuel (nIts + 1) s1 (diff :: ds)
    else .ok s1.2 (nIts + 1) (diff :: ds)

/-- `solve_discrete_lyapunov(A, B, max_it, method="doubling")` with the literal
    `1e-15` as the parameter `tol` -/
def lyapDoubling (tol : α) (maxIt : Nat) (A B : M α) : LyapOut α :=
  lyapLoop tol maxIt (maxIt + 1) 1 (A, B) []

/-! ### Riccati: choice of γ (lines 172-195) -/

/-- Python's `max(a, b)`: `b` if `b > a` else `a` -/
def pyMax (a b : α) : α := if a < b then b else a

/-- one candidate: `(gamma, cn, f1, f3)` with `cn = cond(Z)`, `f1 = cond(Z, inf)`,
    `f3 = cond(I + G0 H0)` as computed by the code; state `(best_gamma, current_min)` -/
def gammaSelStep (eps : α) (st : Option α × α) (c : α × α × α × α) : Option α × α :=
  let (g, cn, f1, f3) := c
  if cn * eps < 1 then
    let f2 := g * f1
    let fg := pyMax (pyMax f1 f2) f3
    if fg < st.2 then (some g, fg) else st
  else st

/-- lines 172-195: `none` is the `ValueError("Unable to initialize …")`
    (`current_min == np.inf`) -/
def gammaSel (eps inf : α) (cands : List (α × α × α × α)) : Option α :=
  let st := cands.foldl (gammaSelStep eps) (none, inf)
  if st.2 == inf then none else st.1

/-! ### Riccati: initial triple and structured doubling -/

structure Sda (α : Type) where
  A : M α
  G : M α
  H : M α

/-- lines 198-204 for a given `gamma`. `none` = `solve` failed (LinAlgError). -/
def riccInit (sol : M α → M α → Option (M α)) (g : α) (A B Q R N : M α) : Option (Sda α) :=
  let I : M α := ident Q.nr
  let BB := mmul (mT B) B
  let BTA := mmul (mT B) A
  let Rhat := madd R (smul g BB)
  match sol Rhat (madd N (smul g BTA)), sol Rhat (mT B), sol Rhat N with
  | some S1, some S2, some S3 =>
    let Qt := madd (madd (mneg Q) (mmul (mT N) S1)) (smul g I)
    let G0 := mmul B S2
    let A0 := msub (mmul (msub I (smul g G0)) A) (mmul B S3)
    let H0 := msub (smul g (mmul (mT A) A0)) Qt
    some ⟨A0, G0, H0⟩
  | _, _, _ => none

/-- lines 214-216 -/
def sdaStep (sol : M α → M α → Option (M α)) (s : Sda α) : Option (Sda α) :=
  let I : M α := ident s.A.nr
  let W1 := madd I (mmul s.G s.H)
  let W2 := madd I (mmul s.H s.G)
  match sol W1 s.A, sol W2 (mT s.A), sol W2 (mmul s.H s.A) with
  | some S1, some S2, some S3 =>
    some ⟨mmul s.A S1, madd s.G (mmul (mmul s.A s.G) S2), madd s.H (mmul (mT s.A) S3)⟩
  | _, _, _ => none

/-- `k` structured-doubling passes, no stopping rule -/
def sdaIter (sol : M α → M α → Option (M α)) (s : Sda α) : Nat → Option (Sda α)
  | 0 => some s
  | k + 1 => (sdaIter sol s k).bind (sdaStep sol)

inductive RiccOut (α : Type) where
  /-- `H1` (the caller adds `gamma * I`), number of passes, errors (latest first) -/
  | ok (H : M α) (passes : Nat) (errs : List α)
  /-- `ValueError("Convergence failed after {i} iterations.")` -/
  | maxit (i : Nat) (errs : List α)
  /-- `solve` raised inside the loop -/
  | singular (passes : Nat)
  /-- loop body never ran, `H1` unbound (only possible when `tol + 1 > tol` is false) -/
  | unbound

/-- lines 208-222. `i` is the code's counter before the test, `err` the current
    `error`, `last` the latest `H1` (none before the first pass). -/
def riccLoop (sol : M α → M α → Option (M α)) (tol : α) (maxIter : Nat) :
    Nat → Nat → α → Sda α → Option (M α) → List α → RiccOut α
  | 0, i, _, _, _, es => .maxit i es
  | fuel + 1, i, err, s, last, es =>
    if tol < err then
      if i > maxIter then .maxit i es
      else
        match sdaStep sol s with
        | none => .singular (i - 1)
        | some s1 =>
          let e := maxAbs gabs (msub s1.H s.H)
          riccLoop sol tol maxIter fuel (i + 1) e s1 (some s1.H) (e :: es)
    else
      match last with
      | some H => .ok H (i - 1) es
      | none => .unbound

/-- `solve_discrete_riccati(..., method="doubling")` after γ has been chosen.
    Returns `X = H1 + gamma * I` inside `.ok`. -/
def riccDoubling (sol : M α → M α → Option (M α)) (tol : α) (maxIter : Nat) (g : α)
    (A B Q R N : M α) : Option (RiccOut α) :=
  match riccInit sol g A B Q R N with
  | none => none
  | some s0 =>
    match riccLoop sol tol maxIter (maxIter + 2) 1 (tol + 1) s0 none [] with
    | .ok H p es => some (.ok (madd H (smul g (ident Q.nr))) p es)
    | r => some r

/-! ### entry points: method dispatch, argument defaults, `m_quadratic_sum` glue -/

/-- what `solve_discrete_lyapunov(A, B, max_it, method)` does with its options (lines 65-95):
    `ok`/`maxit` from the doubling loop, `external` = delegated to SciPy (bartels-stewart, not modelled),
    `badMethod` = `ValueError("Check your method input …")` -/
inductive LyapEntryOut (α : Type) where
  | ok (X : M α) (nIts : Nat)
  | maxit (nIts : Nat)
  | external
  | badMethod

/-- `max_it` is any Python integer: the loop only evaluates `n_its > max_it` with `n_its ≥ 2`, so every
    `max_it ≤ 1` behaves like `0` -/
def lyapEntry (tol : α) (method : String) (maxIt : Int) (A B : M α) : LyapEntryOut α :=
  if method = "doubling" then
    match lyapDoubling tol maxIt.toNat A B with
    | .ok X n _ => .ok X n
    | .maxit n _ => .maxit n
  else if method = "bartels-stewart" then .external
  else .badMethod

/-- `m_quadratic_sum(A, B, max_it)` (quantecon/_quadsums.py): `solve_discrete_lyapunov(A, B, max_it)`,
    i.e. the doubling method with `max_it` passed positionally -/
def mQuadraticSum (tol : α) (maxIt : Int) (A B : M α) : LyapEntryOut α := lyapEntry tol "doubling" maxIt A B

/-- lines 159-164: `N = None` becomes `np.zeros((n, k))`, `n, k = R.shape[0], Q.shape[0]` -/
def riccN (N? : Option (M α)) (Q R : M α) : M α :=
  match N? with
  | none => zero R.nr Q.nr
  | some N => N

inductive RiccEntryOut (α : Type) where
  /-- `ValueError("Check your method input …")`, raised before anything else is looked at (lines 148-151) -/
  | badMethod
  /-- `method = 'qz'`: delegated to SciPy (lines 166-168) -/
  | external
  | run (r : Option (RiccOut α))

/-- option handling of `solve_discrete_riccati` (after the choice of gamma for the doubling branch) -/
def riccEntry (sol : M α → M α → Option (M α)) (tol : α) (maxIter : Nat) (g : α) (method : String)
    (A B Q R : M α) (N? : Option (M α)) : RiccEntryOut α :=
  if method = "doubling" then .run (riccDoubling sol tol maxIter g A B Q R (riccN N? Q R))
  else if method = "qz" then .external
  else .badMethod

end generic

/-! ### driver -/

local instance : Zero Float := ⟨0.0⟩
local instance : One Float := ⟨1.0⟩

def matOf {β : Type} (rs : List (List β)) : M β := M.ofRows rs

/-- all rows have the same positive length -/
def rect {β : Type} (rs : List (List β)) : Bool :=
  !rs.isEmpty && rs.all (fun r => r.length == (rs.headD []).length) && (rs.headD []).length > 0

def isSq {β : Type} (rs : List (List β)) : Bool := rect rs && rs.length == (rs.headD []).length

/-- floor(q·2^96)/2^96, printed as `p/q`: a compact exact-enough rendering of huge rationals -/
def showApprox (q : Rat) : String :=
  let s : Nat := 2 ^ 96
  let z : Int := (q.num * (s : Int)) / (q.den : Int)
  showRat ((z : Rat) / (s : Rat))

def showRatM (X : M Rat) : String := showMat showApprox X.toRows
def showFloatM (X : M Float) : String := showMat showFloatBits X.toRows

def lyapShow {β : Type} (sm : M β → String) (sd : β → String) : LyapOut β → String
  | .ok X n ds => s!"ok its={n} diffs={showList sd ds.reverse} X={sm X}"
  | .maxit n ds => s!"ERR:ValueError its={n} diffs={showList sd ds.reverse}"

def riccShow {β : Type} (sm : M β → String) (sd : β → String) : Option (RiccOut β) → String
  | none => "ERR:LinAlgError init"
  | some (.ok X p es) => s!"ok passes={p} errs={showList sd es.reverse} X={sm X}"
  | some (.maxit i es) => s!"ERR:ValueError i={i} errs={showList sd es.reverse}"
  | some (.singular p) => s!"ERR:LinAlgError passes={p}"
  | some .unbound => "ERR:UnboundLocalError"

def showSda {β : Type} (sm : M β → String) : Option (Sda β) → String
  | none => "ERR:LinAlgError"
  | some s => s!"A={sm s.A} G={sm s.G} H={sm s.H}"

/-- shape checks the code relies on implicitly (NumPy would raise on a mismatch) -/
def riccShapesOk {β : Type} (A B Q R N : List (List β)) : Bool :=
  isSq A && isSq Q && isSq R && rect B && rect N &&
  A.length == Q.length && B.length == Q.length && (B.headD []).length == R.length &&
  N.length == R.length && (N.headD []).length == Q.length

def fourTuples {β : Type} : List β → List β → List β → List β → Option (List (β × β × β × β))
  | [], [], [], [] => some []
  | a :: as, b :: bs, c :: cs, d :: ds => (fourTuples as bs cs ds).map ((a, b, c, d) :: ·)
  | _, _, _, _ => none

def handle (toks : List String) : String :=
  match toks with
  | "lyap" :: r =>
    match kvRatMat r "A", kvRatMat r "B", kvRat r "tol", kvNat r "maxit" with
    | some A, some B, some tol, some mi =>
      if isSq A && isSq B && A.length == B.length then
        let out := lyapDoubling tol mi (matOf A) (matOf B)
        -- exact residual of the returned X and max absolute row sum of A (for the PSD-B bound
        -- `lyap_psd_return_spec`: res ≤ tol · rowsum²)
        let extra := match out with
          | .ok X _ _ =>
            let Am : M Rat := matOf A
            let res := maxAbs gabs (madd (msub (mmul (mmul Am X) (mT Am)) X) (matOf B))
            let rs : Rat := normInf Am
            s!" res={showApprox res} rowsum={showRat rs}"
          | _ => ""
        lyapShow showRatM showApprox out ++ extra
      else "bad-op"
    | _, _, _, _ => "bad-op"
  | "lyapf" :: r =>
    match kvFloatMat r "A", kvFloatMat r "B", (kv r "tol").bind parseFloat?, kvNat r "maxit" with
    | some A, some B, some tol, some mi =>
      if isSq A && isSq B && A.length == B.length then
        lyapShow showFloatM showFloatBits (lyapDoubling tol mi (matOf A) (matOf B))
      else "bad-op"
    | _, _, _, _ => "bad-op"
  | "lyapk" :: r =>
    -- k passes without stopping rule (exact): alpha and gamma
    match kvRatMat r "A", kvRatMat r "B", kvNat r "k" with
    | some A, some B, some k =>
      if isSq A && isSq B && A.length == B.length && k ≤ 12 then
        let s := lyapIter (matOf A) (matOf B) k
        s!"alpha={showMat showRat s.1.toRows} gamma={showMat showRat s.2.toRows}"
      else "bad-op"
    | _, _, _ => "bad-op"
  | "gammasel" :: r =>
    match kvFloats r "g", kvFloats r "cn", kvFloats r "f1", kvFloats r "f3",
          (kv r "eps").bind parseFloat? with
    | some g, some cn, some f1, some f3, some eps =>
      match fourTuples g cn f1 f3 with
      | some cs =>
        match gammaSel eps (1.0 / 0.0 : Float) cs with
        | none => "ERR:ValueError"
        | some b => showFloatBits b
      | none => "bad-op"
    | _, _, _, _, _ => "bad-op"
  | "riccinit" :: r =>
    match kvRat r "g", kvRatMat r "A", kvRatMat r "B", kvRatMat r "Q", kvRatMat r "R", kvRatMat r "N" with
    | some g, some A, some B, some Q, some R, some N =>
      if riccShapesOk A B Q R N then
        showSda (fun X => showMat showRat X.toRows) (riccInit solve g (matOf A) (matOf B) (matOf Q) (matOf R) (matOf N))
      else "bad-op"
    | _, _, _, _, _, _ => "bad-op"
  | "ricc" :: r =>
    match kvRat r "g", kvRatMat r "A", kvRatMat r "B", kvRatMat r "Q", kvRatMat r "R", kvRatMat r "N",
          kvRat r "tol", kvNat r "maxit" with
    | some g, some A, some B, some Q, some R, some N, some tol, some mi =>
      if riccShapesOk A B Q R N then
        riccShow showRatM showApprox
          (riccDoubling solve tol mi g (matOf A) (matOf B) (matOf Q) (matOf R) (matOf N))
      else "bad-op"
    | _, _, _, _, _, _, _, _ => "bad-op"
  | "riccf" :: r =>
    match (kv r "g").bind parseFloat?, kvFloatMat r "A", kvFloatMat r "B", kvFloatMat r "Q",
          kvFloatMat r "R", kvFloatMat r "N", (kv r "tol").bind parseFloat?, kvNat r "maxit" with
    | some g, some A, some B, some Q, some R, some N, some tol, some mi =>
      if riccShapesOk A B Q R N then
        riccShow showFloatM showFloatBits
          (riccDoubling solve tol mi g (matOf A) (matOf B) (matOf Q) (matOf R) (matOf N))
      else "bad-op"
    | _, _, _, _, _, _, _, _ => "bad-op"
  | "lyapentry" :: r =>
    -- option handling of solve_discrete_lyapunov / m_quadratic_sum (entry=mqs): method string, any integer max_it
    match kvRatMat r "A", kvRatMat r "B", kvRat r "tol", kvInt r "maxit", kv r "method", kv r "entry" with
    | some A, some B, some tol, some mi, some method, some entry =>
      if isSq A && isSq B && A.length == B.length then
        let out := if entry = "mqs" then mQuadraticSum tol mi (matOf A) (matOf B)
                   else lyapEntry tol method mi (matOf A) (matOf B)
        match out with
        | .ok X n => s!"ok its={n} X={showRatM X}"
        | .maxit n => s!"ERR:ValueError its={n}"
        | .external => "EXTERNAL"
        | .badMethod => "ERR:ValueError method"
      else "bad-op"
    | _, _, _, _, _, _ => "bad-op"
  | "riccentry" :: r =>
    -- option handling of solve_discrete_riccati: method string, N=none -> zeros((n, k))
    match kvRat r "g", kvRatMat r "A", kvRatMat r "B", kvRatMat r "Q", kvRatMat r "R", kv r "N",
          kvRat r "tol", kvNat r "maxit", kv r "method" with
    | some g, some A, some B, some Q, some R, some nTok, some tol, some mi, some method =>
      let N? : Option (Option (List (List Rat))) :=
        if nTok = "none" then some none else (parseMat? parseRat? nTok).map some
      match N? with
      | none => "bad-op"
      | some Nopt =>
        let Nrows := match Nopt with | none => (List.replicate R.length (List.replicate Q.length (0 : Rat))) | some N => N
        if riccShapesOk A B Q R Nrows then
          match riccEntry solve tol mi g method (matOf A) (matOf B) (matOf Q) (matOf R) (Nopt.map matOf) with
          | .badMethod => "ERR:ValueError method"
          | .external => "EXTERNAL"
          | .run out => riccShow showRatM showApprox out
        else "bad-op"
    | _, _, _, _, _, _, _, _, _ => "bad-op"
  | _ => "bad-op"

end QE.C06
