/-
  QEModel.C06 — executable model for property C06 (stub; to be filled in).
-/
import QEModel.Base
namespace QE.C06

def handle (_toks : List String) : String := "bad-op"

end QE.C06
