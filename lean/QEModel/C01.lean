/-
  QEModel.C01 — executable model for property C01 (stub; to be filled in).
-/
import QEModel.Base
namespace QE.C01

def handle (_toks : List String) : String := "bad-op"

end QE.C01
