/-
  QEModel.C01 — DiscreteDP.solve: value iteration, policy iteration, modified policy
  iteration (quantecon/markov/ddp.py 571-913), the linear-programming method (ddp.py 915-947,
  markov/_ddp_linprog_simplex.py, optimize/linprog_simplex.py `solve_tableau`/`_pivot_col`) on
  top of the state-wise "first maximum" scan (markov/utilities.py 64-86, ddp.py 370-421).

  Representation.  After the constructor, every formulation of a discrete DP is
  a list (one entry per state, in state order) of the *feasible* actions of
  that state in increasing action order, each with its reward and its
  transition row: `Prob α = List (List (Act α))`.
    * product form  (R : n×m with -inf, Q : n×m×n)  -> `ofProduct`
      (the -inf entries never win the arg-max; `bellmanProd` is the literal
      scan over all m entries with an explicit `-inf`, and
      `QE.C01.forms_agree_product` proves it equals the scan over the feasible ones);
    * state-action pairs in any order (dense or sparse Q) -> `ofPairs`
      (the re-sorting of ddp.py 350-367: pairs grouped by state, ordered by
      action label; `forms_agree_pairs`, `forms_agree_toSaPair`).
  The index-level CSR bookkeeping (`a_indptr`, `_generate_a_indptr`, …) is the
  subject of C09 and is not repeated here.

  Scalars are generic (core classes only).  Parameters / not modelled:
  `np.linalg.solve` / `spsolve` is the parameter `solve` of `evalPolicy` (the driver passes the
  exact Gauss–Jordan elimination of QEModel.MatAlg at `Rat`); the BLAS product `Q.dot(v)` is the
  exact `dot`; the LP path contains no library call and is run by the driver both at `Rat` and at
  `Float` (same operation order as the Numba kernels).
-/
import QEModel.Base
import QEModel.MatAlg
import QEModel.Pivot
import QEModel.C04
namespace QE.C01
open QE

/-- one feasible state-action pair: action label, reward, transition row -/
structure Act (α : Type) where
  a : Nat
  r : α
  q : List α
deriving Repr, DecidableEq

/-- a discrete DP after the constructor: for every state the feasible actions -/
abbrev Prob (α : Type) := List (List (Act α))

section generic
variable {α : Type} [Zero α] [One α] [Add α] [Sub α] [Mul α] [Div α] [Neg α]
  [LT α] [DecidableLT α]

/-- `q.dot(v)` for one row -/
def dot : List α → List α → α
  | a :: as, b :: bs => a * b + dot as bs
  | _, _ => 0

/-- `vals[s,a] = r + beta * q.dot(v)` (ddp.py 594) -/
def qval (β : α) (v : List α) (x : Act α) : α := x.r + β * dot x.q v

/-- the loop of `_s_wise_max_argmax` (utilities.py 68-73): `m` is the best pair so
    far, replaced only on a *strictly* larger value (first maximum wins). -/
def scanMax {γ : Type} (f : γ → α) : γ → List γ → γ
  | m, [] => m
  | m, x :: xs => if f m < f x then scanMax f x xs else scanMax f m xs

def dfltAct : Act α := ⟨0, 0, []⟩

/-- the pair selected for one state (totalised on a state without actions, which the
    constructor rejects) -/
def bestAct (β : α) (v : List α) : List (Act α) → Act α
  | [] => dfltAct
  | x :: xs => scanMax (qval β v) x xs

/-- `bellman_operator(v)` : `Tv` (ddp.py 594-599) -/
def bellman (P : Prob α) (β : α) (v : List α) : List α :=
  P.map fun acts => qval β v (bestAct β v acts)

/-- `compute_greedy(v)` : the v-greedy policy (same scan, the action labels) -/
def greedy (P : Prob α) (β : α) (v : List α) : List Nat :=
  P.map fun acts => (bestAct β v acts).a

/-- `s_wise_max(R)` : default `v_init` of VI / PI / LP -/
def rmax (P : Prob α) : List α :=
  P.map fun acts => match acts with
    | [] => 0
    | x :: xs => (scanMax (fun y : Act α => y.r) x xs).r

/-- `_find_indices` for one state: the last pair of the state whose label is `a` -/
def findAct (acts : List (Act α)) (a : Nat) : Act α :=
  acts.foldl (fun cur x => if x.a = a then x else cur) dfltAct

/-- `RQ_sigma(sigma)` -/
def polActs (P : Prob α) (σ : List Nat) : List (Act α) := List.zipWith findAct P σ

/-- `T_sigma(sigma)(v) = R_sigma + beta * Q_sigma.dot(v)` -/
def tSigma (P : Prob α) (β : α) (σ : List Nat) (v : List α) : List α :=
  (polActs P σ).map (qval β v)

/-- the matrix `I - beta * Q_sigma` (ddp.py 664), row by row -/
def policyMatrix (β : α) (acts : List (Act α)) : List (List α) :=
  (List.range acts.length).map fun i =>
    let q := (acts.getD i dfltAct).q
    (List.range acts.length).map fun j => (if i = j then (1 : α) else 0) - β * q.getD j 0

/-- `evaluate_policy(sigma)`: `solve (I - beta Q_sigma) R_sigma` -/
def evalPolicy (solve : List (List α) → List α → List α) (P : Prob α) (β : α) (σ : List Nat) :
    List α :=
  let acts := polActs P σ
  solve (policyMatrix β acts) (acts.map fun x => x.r)

/-! ### norms and stopping rules -/

def absA (x : α) : α := if x < 0 then -x else x
def maxA (a b : α) : α := if a < b then b else a
def minA (a b : α) : α := if b < a then b else a

/-- `np.abs(new_v - v).max()` -/
def supDist (v w : List α) : α := (List.zipWith (fun a b => absA (a - b)) v w).foldl maxA 0

def vmax : List α → α
  | [] => 0
  | x :: xs => xs.foldl maxA x
def vmin : List α → α
  | [] => 0
  | x :: xs => xs.foldl minA x

/-- `span(z) = z.max() - z.min()` -/
def span (z : List α) : α := vmax z - vmin z
/-- `midrange(z) = (z.min() + z.max()) / 2` -/
def midrange (z : List α) : α := (vmin z + vmax z) / (1 + 1)

/-- a tolerance: no test (`tol=None`), `np.inf` (β = 0), or a finite number -/
inductive Tol (α : Type) where
  | noTest : Tol α
  | inf : Tol α
  | fin (t : α) : Tol α

/-- `tol is not None and d < tol` -/
def Tol.passes : Tol α → α → Bool
  | .noTest, _ => false
  | .inf, _ => true
  | .fin t, d => decide (d < t)

/-- `operator_iteration(T, v, max_iter, tol)` (ddp.py 705-714): returns the last
    iterate, the number of applications of `T`, and whether the loop was left
    through the tolerance `break`. -/
def opIter (T : List α → List α) (tol : Tol α) : Nat → List α → Nat → List α × Nat × Bool
  | 0, v, cnt => (v, cnt, false)
  | fuel + 1, v, cnt =>
    let nv := T v
    if tol.passes (supDist nv v) then (nv, cnt + 1, true)
    else opIter T tol fuel nv (cnt + 1)

/-- `tol = epsilon * (1-beta) / (2*beta)`, `inf` on `ZeroDivisionError` (β = 0) -/
def viTol (β ε : α) : Tol α :=
  if 0 < β then .fin (ε * (1 - β) / ((1 + 1) * β)) else .inf

/-- `tol = epsilon * (1-beta) / beta`, `inf` when β = 0 -/
def mpiTol (β ε : α) : Tol α :=
  if 0 < β then .fin (ε * (1 - β) / β) else .inf

/-- result of a solve: `v`, `sigma`, `num_iter`, and whether the method stopped by its
    own criterion (rather than by exhausting `max_iter`) -/
structure Res (α : Type) where
  v : List α
  sigma : List Nat
  iters : Nat
  stopped : Bool

/-- `value_iteration(v_init, epsilon, max_iter)` (ddp.py 788-805) -/
def valueIteration (P : Prob α) (β ε : α) (vInit : List α) (maxIter : Nat) : Res α :=
  let r := opIter (bellman P β) (viTol β ε) maxIter vInit 0
  ⟨r.1, greedy P β r.1, r.2.1, r.2.2⟩

/-- the `for` loop of `policy_iteration` (ddp.py 836-845). `vlast` is the value of the
    policy evaluated in the previous pass (returned when the cap is hit). -/
def piLoop (ev : List Nat → List α) (gr : List α → List Nat) :
    Nat → List Nat → List α → Nat → Res α
  | 0, σ, vlast, cnt => ⟨vlast, σ, cnt, false⟩
  | fuel + 1, σ, _, cnt =>
    let vσ := ev σ
    let σ' := gr vσ
    if σ' = σ then ⟨vσ, σ, cnt + 1, true⟩ else piLoop ev gr fuel σ' vσ (cnt + 1)

/-- `policy_iteration(v_init, max_iter)` -/
def policyIteration (solve : List (List α) → List α → List α) (P : Prob α) (β : α)
    (vInit : List α) (maxIter : Nat) : Res α :=
  piLoop (evalPolicy solve P β) (greedy P β) maxIter (greedy P β vInit) [] 0

/-- `u + c` entrywise -/
def addConst (u : List α) (c : α) : List α := u.map fun x => x + c

/-- the `for` loop of `modified_policy_iteration` (ddp.py 891-900) -/
def mpiLoop (P : Prob α) (β : α) (tol : Tol α) (k : Nat) :
    Nat → List α → List Nat → Nat → Res α
  | 0, v, σlast, cnt => ⟨v, σlast, cnt, false⟩
  | fuel + 1, v, _, cnt =>
    let u := bellman P β v
    let σ := greedy P β v
    let diff := List.zipWith (fun a b => a - b) u v
    if tol.passes (span diff) then
      ⟨addConst u (midrange diff * β / (1 - β)), σ, cnt + 1, true⟩
    else
      mpiLoop P β tol k fuel (opIter (tSigma P β σ) .noTest k u 0).1 σ (cnt + 1)

/-- `modified_policy_iteration(v_init, epsilon, max_iter, k)` -/
def modifiedPI (P : Prob α) (β ε : α) (vInit : List α) (maxIter k : Nat) : Res α :=
  mpiLoop P β (mpiTol β ε) k maxIter vInit [] 0

/-- default `v_init` of MPI: `R[R > -inf].min() / (1 - beta)` in every state -/
def mpiInit (P : Prob α) (β : α) : List α :=
  let rs := (P.flatMap id).map fun x => x.r
  P.map fun _ => vmin rs / (1 - β)

/-! ### the formulations -/

/-- the product form read with an explicit `-inf`: `none` = `-inf` reward -/
def ofProduct (R : List (List (Option α))) (Q : List (List (List α))) : Prob α :=
  List.zipWith (fun rs qs =>
    (List.zip (List.range rs.length) (List.zip rs qs)).filterMap fun t =>
      match t.2.1 with
      | none => none
      | some r => some (⟨t.1, r, t.2.2⟩ : Act α)) R Q

/-- order of IEEE doubles on `{-inf} ∪ finite`, `none` = `-inf` -/
def optLt : Option α → Option α → Bool
  | none, some _ => true
  | some a, some b => decide (a < b)
  | _, none => false

/-- `vals[s,a]` in product form: `-inf + finite = -inf` -/
def qvalOpt (β : α) (v : List α) (t : Nat × Option α × List α) : Option α :=
  t.2.1.map fun r => r + β * dot t.2.2 v

/-- first-maximum scan for an `Option`-valued key (`ndarray.argmax(axis=1)` on a row that
    may contain `-inf`) -/
def scanMaxOpt {γ : Type} (f : γ → Option α) : γ → List γ → γ
  | m, [] => m
  | m, x :: xs => if optLt (f m) (f x) then scanMaxOpt f x xs else scanMaxOpt f m xs

/-- `bellman_operator` in product form, literally: arg-max over all `m` columns, then the
    value there; `(Tv[s], sigma[s])`, `none` = `-inf` -/
def bellmanProd (R : List (List (Option α))) (Q : List (List (List α))) (β : α) (v : List α) :
    List (Option α × Nat) :=
  List.zipWith (fun rs qs =>
    match List.zip (List.range rs.length) (List.zip rs qs) with
    | [] => (none, 0)
    | t :: ts => let b := scanMaxOpt (qvalOpt β v) t ts; (qvalOpt β v b, b.1)) R Q

/-- insertion of a pair into a list of pairs ordered by action label (stable) -/
def insertAct (x : Act α) : List (Act α) → List (Act α)
  | [] => [x]
  | y :: ys => if x.a < y.a then x :: y :: ys else y :: insertAct x ys

def sortActs (l : List (Act α)) : List (Act α) := l.foldr insertAct []

/-- state-action pairs in arbitrary order -> grouped by state, sorted by action
    (what the constructor's re-sorting, ddp.py 350-367, produces) -/
def ofPairs (n : Nat) (sInd aInd : List Nat) (R : List α) (Q : List (List α)) : Prob α :=
  let pairs := List.zip sInd (List.zip aInd (List.zip R Q))
  (List.range n).map fun s =>
    sortActs ((pairs.filter fun p => p.1 == s).map fun p => (⟨p.2.1, p.2.2.1, p.2.2.2⟩ : Act α))

/-- constructor checks that matter here: every state has an action, `0 ≤ β ≤ 1`;
    the solve methods refuse `β = 1` -/
def wellFormed (P : Prob α) : Bool := P.all fun acts => !acts.isEmpty

end generic

/-! ### the linear-programming method (ddp.py 915-947, _ddp_linprog_simplex.py)

  `solve_tableau` / `_pivot_col` of optimize/linprog_simplex.py are the C04 model
  (`QE.C04.solveTableau`, `QE.C04.pivotCol`), so that C04's invariants apply to this method;
  pivoting and the lexicographic ratio test are the shared `QEModel.Pivot`. -/

section lp
variable {α : Type} [Zero α] [One α] [Add α] [Sub α] [Mul α] [Div α] [Neg α]
  [LT α] [LE α] [DecidableLT α] [DecidableLE α] [BEq α]

/-- `PivOptions(fea_tol, tol_piv, tol_ratio_diff)`; `solve_tableau`, `_pivot_col` and the result
    record are the C04 model (`QE.C04.solveTableau … skipAux := true`) -/
abbrev PivTol (α : Type) := QE.C04.Tol α

/-- the sorted pair arrays with their state index: column `j` of the tableau is the pair
    `cols[j] = (s_indices[j], (a_indices[j], R[j], Q[j]))` -/
def lpCols (P : Prob α) : List (Nat × Act α) :=
  (List.zip (List.range P.length) P).flatMap fun t => t.2.map fun x => (t.1, x)

def dfltCol : Nat × Act α := (0, dfltAct)

/-- `_initialize_tableau(R, Q, beta, a_indptr, tableau)`: the dual LP in canonical form,
    `(n+1) × (L+n+1)`.  The loop `for j in range(a_indptr[i], a_indptr[i+1]): tableau[i, j] += 1`
    is read as "for the pairs `j` of state `i`" (the CSR index is the subject of C09). -/
def lpTableau (P : Prob α) (β : α) : M α :=
  let cols := lpCols P
  let L := cols.length
  let n := P.length
  M.tab (n + 1) (L + n + 1) fun i j =>
    if i < n then
      if j < L then
        let base := ((cols.getD j dfltCol).2.q.getD i 0) * (-β)
        if (cols.getD j dfltCol).1 = i then base + 1 else base
      else if j < L + n then (if j = L + i then 1 else 0)
      else 1
    else
      if j < L then (cols.getD j dfltCol).2.r else 0

/-- `_find_indices`: the (last) column holding the pair `(i, a)` -/
def findCol (cols : List (Nat × Act α)) (i a : Nat) : Nat :=
  (List.range cols.length).foldl
    (fun cur j => if (cols.getD j dfltCol).1 = i ∧ (cols.getD j dfltCol).2.a = a then j else cur) 0

/-- the tableau after the `n` initial pivots onto the start policy -/
def lpStart (P : Prob α) (β : α) (basis0 : List Nat) : M α :=
  (List.range P.length).foldl (fun T i => Pivot.pivot T (basis0.getD i 0) i) (lpTableau P β)

/-- validation of the `n` initial pivots (printed by the driver as `rstart`, hypothesis of
    `QE.C01.lp_exit_optimal`): every pivot element met is non-zero and the right-hand sides of the
    resulting tableau are non-negative.  (`QE.C01.lp_start_valid` proves that it holds for every
    feasible start policy, well-formed problem and `0 ≤ β < 1`; the driver still evaluates it.) -/
def lpStartChk (P : Prob α) (β : α) (basis0 : List Nat) : Bool :=
  ((List.range P.length).foldl (fun (st : M α × Bool) i =>
      (Pivot.pivot st.1 (basis0.getD i 0) i, st.2 && !(st.1.get i (basis0.getD i 0) == 0)))
    (lpTableau P β, true)).2 &&
  (List.range P.length).all fun i =>
    decide (0 ≤ (lpStart P β basis0).get i ((lpCols P).length + P.length))

/-- `ddp_linprog_simplex(R, Q, beta, a_indices, a_indptr, sigma, max_iter)`:
    `n` pivots onto the start policy, then `solve_tableau(max_iter - n, skip_aux=True)`;
    `v[i] = -tableau[-1, L+i]`, `sigma[i] = a_indices[basis[i]]`, `num_iter + n` -/
def lpSolve (tol : PivTol α) (P : Prob α) (β : α) (σ0 : List Nat) (maxIter : Nat) : Res α :=
  let cols := lpCols P
  let L := cols.length
  let n := P.length
  let basis0 := (List.range n).map fun i => findCol cols i (σ0.getD i 0)
  let r := QE.C04.solveTableau tol true (maxIter - n) (lpStart P β basis0) basis0
  ⟨(List.range n).map fun i => r.T.get n (L + i) * (-(1 : α)),
   r.basis.map fun j => (cols.getD j dfltCol).2.a, r.iters + n, r.status == 0⟩

end lp

/-! ### exact linear solve for the driver -/

/-- `np.linalg.solve(A, b)` replaced by exact Gauss–Jordan elimination -/
def solveRat (A : List (List Rat)) (b : List Rat) : List Rat :=
  match MatAlg.solve (M.ofRows A) (M.ofRows (b.map fun x => [x])) with
  | some X => (List.range b.length).map fun i => X.get i 0
  | none => []

/-! ### diagnostics for the correspondence (driver only; no theorem mentions them)

  The code runs in doubles, the model at `Rat`.  A discrete output (σ, num_iter) can
  legitimately differ when a comparison made by the code is decided by rounding: an exact
  tie (or a gap below the rounding noise) between two actions, or a stopping statistic that
  (almost) equals the tolerance.  `margin` is the smallest such gap met along the run
  (0 = an exact tie), and `bits` bounds the binary size of every iterate so that the harness
  can recognise the runs on which the double arithmetic is exact. -/

def ratAbs (x : Rat) : Rat := if x < 0 then -x else x
def ratMin (a b : Rat) : Rat := if b < a then b else a

/-- gap between the best and the second best value of a state (`none`: one action only) -/
def gapState (β : Rat) (v : List Rat) (acts : List (Act Rat)) : Option Rat :=
  match acts.map (qval β v) with
  | [] => none
  | [_] => none
  | x :: xs =>
    let mx := xs.foldl maxA x
    let cnt := ((x :: xs).filter fun y => y == mx).length
    if cnt ≥ 2 then some 0
    else
      let rest := (x :: xs).filter fun y => y < mx
      match rest with
      | [] => some 0
      | y :: ys => some (mx - ys.foldl maxA y)

def gapAll (P : Prob Rat) (β : Rat) (v : List Rat) : Option Rat :=
  P.foldl (fun acc acts => match acc, gapState β v acts with
    | none, g => g
    | some a, none => some a
    | some a, some g => some (ratMin a g)) none

def optMin (a : Option Rat) (b : Option Rat) : Option Rat :=
  match a, b with
  | none, b => b
  | a, none => a
  | some x, some y => some (ratMin x y)

def tolGap (tol : Tol Rat) (d : Rat) : Option Rat :=
  match tol with
  | .fin t => some (ratAbs (d - t))
  | _ => none

/-- number of binary digits needed for numerator and denominator -/
def ratBits (x : Rat) : Nat := Nat.log2 (x.num.natAbs + 1) + Nat.log2 x.den + 1
def listBits (v : List Rat) : Nat := v.foldl (fun acc x => max acc (ratBits x)) 0
/-- is every entry a dyadic rational? -/
def dyadic (v : List Rat) : Bool := v.all fun x => x.den == 2 ^ Nat.log2 x.den

structure Diag where
  margin : Option Rat := none
  bits : Nat := 0
  dyad : Bool := true

def Diag.see (d : Diag) (v : List Rat) : Diag :=
  { d with bits := max d.bits (listBits v), dyad := d.dyad && dyadic v }
def Diag.gap (d : Diag) (g : Option Rat) : Diag := { d with margin := optMin d.margin g }

/-- margins of a VI run: every stopping test, and the final arg-max -/
def viDiag (P : Prob Rat) (β ε : Rat) : Nat → List Rat → Diag → Diag
  | 0, v, d => (d.see v).gap (gapAll P β v)
  | fuel + 1, v, d =>
    let nv := bellman P β v
    let dist := supDist nv v
    let d := (d.see v).gap (tolGap (viTol β ε) dist)
    if (viTol β ε).passes dist then (d.see nv).gap (gapAll P β nv)
    else viDiag P β ε fuel nv d

/-- margins of a PI run: every arg-max taken -/
def piDiag (P : Prob Rat) (β : Rat) : Nat → List Nat → Diag → Diag
  | 0, _, d => d
  | fuel + 1, σ, d =>
    let vσ := evalPolicy solveRat P β σ
    let σ' := greedy P β vσ
    let d := (d.see vσ).gap (gapAll P β vσ)
    if σ' = σ then d else piDiag P β fuel σ' d

/-- margins of an MPI run: every arg-max and every span test -/
def mpiDiag (P : Prob Rat) (β ε : Rat) (k : Nat) : Nat → List Rat → Diag → Diag
  | 0, v, d => d.see v
  | fuel + 1, v, d =>
    let u := bellman P β v
    let σ := greedy P β v
    let diff := List.zipWith (fun a b => a - b) u v
    let d := ((d.see v).see u).gap (gapAll P β v) |>.gap (tolGap (mpiTol β ε) (span diff))
    if (mpiTol β ε).passes (span diff) then
      d.see (addConst u (midrange diff * β / (1 - β)))
    else mpiDiag P β ε k fuel (opIter (tSigma P β σ) .noTest k u 0).1 d

/-! ### exact specification checker (run on the *code's* outputs) -/

/-- exact optimal value by policy iteration at `Rat` (cap: number of policies + 1) -/
def vStarRat (P : Prob Rat) (β : Rat) : Res Rat :=
  let cap := P.foldl (fun acc acts => acc * acts.length) 1 + 1
  policyIteration solveRat P β (rmax P) cap

def feasible (P : Prob Rat) (σ : List Nat) : Bool :=
  σ.length == P.length &&
    (List.zip P σ).all fun t => t.1.any fun x => x.a == t.2

local instance : Zero Float := ⟨0.0⟩
local instance : One Float := ⟨1.0⟩

/-- exact for dyadic rationals with small numerator (all wire data), correctly rounded otherwise -/
def ratToFloat (q : Rat) : Float := Float.ofInt q.num / Float.ofNat q.den

/-- the code's default `PivOptions` (linprog_simplex.py 137-139) as doubles … -/
def floatPivTol : PivTol Float := ⟨1e-6, 1e-7, 1e-13⟩
/-- … and as the exact rationals these doubles denote -/
def ratPivTol : PivTol Rat :=
  ⟨(ratOfBits (1e-6 : Float).toBits).getD 0, (ratOfBits (1e-7 : Float).toBits).getD 0,
   (ratOfBits (1e-13 : Float).toBits).getD 0⟩

/-! ### line protocol -/

def parseOptRat? (s : String) : Option (Option Rat) :=
  if s = "ninf" then some none else (parseRat? s).map some

/-- problem from the tokens: `form=prod n= m= R=<n×m, ninf allowed> Q=<(n·m)×n>` or
    `form=sa n= s= a= R=<L> Q=<L×n>` -/
def parseProb (toks : List String) : Option (Prob Rat) :=
  match kv toks "form", kvNat toks "n" with
  | some "prod", some n =>
    match kvNat toks "m", (kv toks "R").bind (parseMat? parseOptRat?), kvRatMat toks "Q" with
    | some m, some R, some Q =>
      if R.length = n ∧ R.all (fun r => r.length == m) ∧ Q.length = n * m ∧ Q.all (fun r => r.length == n) then
        let Q3 := (List.range n).map fun s => (List.range m).map fun a => Q.getD (s * m + a) []
        some (ofProduct R Q3)
      else none
    | _, _, _ => none
  | some "sa", some n =>
    match kvNats toks "s", kvNats toks "a", kvRats toks "R", kvRatMat toks "Q" with
    | some s, some a, some R, some Q =>
      if s.length = R.length ∧ a.length = R.length ∧ Q.length = R.length ∧ Q.all (fun r => r.length == n)
          ∧ s.all (fun i => decide (i < n)) then
        some (ofPairs n s a R Q)
      else none
    | _, _, _, _ => none
  | _, _ => none

def showOptRat (d : Option Rat) : String :=
  match d with
  | none => "none"
  | some x => showRat x

/-- printing only: a rational with a huge representation is shown rounded down to a multiple of
    `2^-100` (the harness compares such values inside an envelope of 1e-9 anyway) -/
def showRatShort (x : Rat) : String :=
  if ratBits x ≤ 256 then showRat x
  else showRat (((x * ((2 ^ 100 : Nat) : Rat)).floor : Rat) / ((2 ^ 100 : Nat) : Rat))

def showRes (r : Res Rat) (d : Diag) : String :=
  "sigma=" ++ showList toString r.sigma ++ " iters=" ++ toString r.iters ++
  " stopped=" ++ showBool r.stopped ++ " v=" ++ showList showRatShort r.v ++
  " margin=" ++ showOptRat (d.margin.map fun m => if ratBits m ≤ 256 then m else
      (((m * ((2 ^ 100 : Nat) : Rat)).floor : Rat) / ((2 ^ 100 : Nat) : Rat))) ++ " bits=" ++ toString d.bits ++ " dyadic=" ++ showBool d.dyad

/-! ### `DiscreteDP.solve(method=…)`: the method names (ddp.py 754-770) -/

inductive Method where
  | vi | pi | mpi | lp
deriving DecidableEq, Repr

/-- the `if method in [...] / elif … / else: raise ValueError('invalid method')` chain of `solve`;
    `none` = `ValueError` -/
def methodOfName (s : String) : Option Method :=
  if s = "value_iteration" ∨ s = "vi" then some .vi
  else if s = "policy_iteration" ∨ s = "pi" then some .pi
  else if s = "modified_policy_iteration" ∨ s = "mpi" then some .mpi
  else if s = "linear_programming" ∨ s = "lp" then some .lp
  else none

def Method.short : Method → String
  | .vi => "vi" | .pi => "pi" | .mpi => "mpi" | .lp => "lp"

/-- wire decoding of an arbitrary method string: two hex digits per byte (ASCII) -/
def hexToString (h : String) : Option String :=
  let rec go : List Char → List Char → Option (List Char)
    | [], acc => some acc.reverse
    | [_], _ => none
    | a :: b :: rest, acc =>
      match hexDigit? a, hexDigit? b with
      | some x, some y => go rest (Char.ofNat (16 * x + y) :: acc)
      | _, _ => none
  (go h.toList []).map String.ofList

def handle (toks : List String) : String :=
  match toks with
  | ["method", arg] =>
    -- `method hex=<hex of the name>` -> vi | pi | mpi | lp | ERR:ValueError
    match (kv [arg] "hex").bind hexToString with
    | some name => match methodOfName name with
      | some m => m.short
      | none => "ERR:ValueError"
    | none => "bad-op"
  | op :: r =>
    match parseProb r, kvRat r "beta" with
    | some P, some β =>
      if !wellFormed P then "ERR:ValueError"
      else if β < 0 ∨ 1 < β then "ERR:ValueError"
      else if β = 1 then "ERR:NotImplementedError"
      else
        let n := P.length
        let vinit (dflt : List Rat) : Option (List Rat) :=
          match kv r "vinit" with
          | none => none
          | some "none" => some dflt
          | some s => match parseList? parseRat? s with
            | some v => if v.length = n then some v else none
            | none => none
        match op with
        | "vi" =>
          match kvRat r "eps", kvNat r "maxiter", vinit (rmax P) with
          | some ε, some mi, some v0 =>
            showRes (valueIteration P β ε v0 mi) (viDiag P β ε mi v0 {})
          | _, _, _ => "bad-op"
        | "pi" =>
          match kvNat r "maxiter", vinit (rmax P) with
          | some mi, some v0 =>
            let d0 : Diag := ({} : Diag).gap (gapAll P β v0)
            showRes (policyIteration solveRat P β v0 mi) (piDiag P β mi (greedy P β v0) d0)
          | _, _ => "bad-op"
        | "mpi" =>
          match kvRat r "eps", kvNat r "maxiter", kvNat r "k", vinit (mpiInit P β) with
          | some ε, some mi, some k, some v0 =>
            showRes (modifiedPI P β ε v0 mi k) (mpiDiag P β ε k mi v0 {})
          | _, _, _, _ => "bad-op"
        | "lp" =>
          match kvNat r "maxiter", vinit (rmax P) with
          | some mi, some v0 =>
            -- exact run, and the same program on doubles (operation order of the Numba kernels)
            let σ0 := greedy P β v0
            let rr := lpSolve ratPivTol P β σ0 mi
            let Pf : Prob Float := P.map fun acts => acts.map fun x => ⟨x.a, ratToFloat x.r, x.q.map ratToFloat⟩
            let rf := lpSolve floatPivTol Pf (ratToFloat β) σ0 mi
            "sigma=" ++ showList toString rf.sigma ++ " iters=" ++ toString rf.iters ++
              " ok=" ++ showBool rf.stopped ++ " v=" ++ showList showFloatBits rf.v ++
              " rsigma=" ++ showList toString rr.sigma ++ " riters=" ++ toString rr.iters ++
              " rok=" ++ showBool rr.stopped ++ " rv=" ++ showList showRatShort rr.v ++
              -- the certificate of `lp_certified`, evaluated exactly on the exact run
              " rcert=" ++ showBool (feasible P rr.sigma && tSigma P β rr.sigma rr.v == rr.v) ++
              -- the start validation of `lp_exit_optimal`, evaluated exactly
              " rstart=" ++ showBool (lpStartChk P β
                ((List.range P.length).map fun i => findCol (lpCols P) i (σ0.getD i 0)))
          | _, _ => "bad-op"
        | "bellman" =>
          match kvRats r "v" with
          | some v => if v.length = n then
              "Tv=" ++ showList showRat (bellman P β v) ++ " sigma=" ++ showList toString (greedy P β v)
                ++ " margin=" ++ showOptRat (gapAll P β v)
            else "bad-op"
          | none => "bad-op"
        | "bellmanprod" =>
          -- the literal product-form scan with -inf (only for form=prod)
          match kv r "form", kvNat r "n", kvNat r "m", (kv r "R").bind (parseMat? parseOptRat?),
                kvRatMat r "Q", kvRats r "v" with
          | some "prod", some n', some m, some R, some Q, some v =>
            if v.length = n' then
              let Q3 := (List.range n').map fun s => (List.range m).map fun a => Q.getD (s * m + a) []
              let out := bellmanProd R Q3 β v
              "Tv=" ++ showList (fun t => showOptRat t.1) out ++ " sigma=" ++ showList (fun t => toString t.2) out
            else "bad-op"
          | _, _, _, _, _, _ => "bad-op"
        | "evalpol" =>
          match kvNats r "sigma" with
          | some σ => if feasible P σ then "v=" ++ showList showRat (evalPolicy solveRat P β σ) else "ERR:infeasible"
          | none => "bad-op"
        | "vstar" =>
          let s := vStarRat P β
          "v=" ++ showList showRat s.v ++ " stopped=" ++ showBool s.stopped
        | "spec" =>
          -- exact check of a returned (v, sigma): feasibility, ‖v − v*‖, ‖v_sigma − v*‖
          match kvRats r "v", kvNats r "sigma" with
          | some v, some σ =>
            if v.length ≠ n then "bad-op"
            else if !feasible P σ then "feasible=0"
            else
              let s := vStarRat P β
              let vσ := evalPolicy solveRat P β σ
              "feasible=1 stopped=" ++ showBool s.stopped ++ " dv=" ++ showRat (supDist v s.v) ++
                " dsigma=" ++ showRat (supDist vσ s.v)
          | _, _ => "bad-op"
        | _ => "bad-op"
    | _, _ => "bad-op"
  | _ => "bad-op"

end QE.C01
