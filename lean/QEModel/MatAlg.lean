/-
  QEModel.MatAlg — matrix algebra on the total matrices `M α` (scalar-generic),
  shared by the matrix-equation group (C06 Lyapunov/Riccati, C07 LQ, C12 Kalman).
  Every operation is a `tab` of an index formula, so `M.get_tab` reduces proofs
  to statements about `Nat → Nat → α` functions. `solve`/`inv` are an exact
  Gauss–Jordan elimination (first non-zero pivot): at `Rat` they stand for the
  LAPACK calls of the code (`np.linalg.solve`, `inv`), which are *not* modelled.
-/
import QEModel.Base
namespace QE.MatAlg
open QE

variable {α : Type} [Zero α] [One α] [Add α] [Sub α] [Mul α] [Div α] [Neg α] [BEq α]

def sumRange (n : Nat) (f : Nat → α) : α := (List.range n).foldl (fun acc k => acc + f k) 0

def zero (n m : Nat) : M α := M.tab n m fun _ _ => 0
def ident (n : Nat) : M α := M.tab n n fun i j => if i = j then 1 else 0
def madd (A B : M α) : M α := M.tab A.nr A.nc fun i j => A.get i j + B.get i j
def msub (A B : M α) : M α := M.tab A.nr A.nc fun i j => A.get i j - B.get i j
def mneg (A : M α) : M α := M.tab A.nr A.nc fun i j => - A.get i j
def smul (c : α) (A : M α) : M α := M.tab A.nr A.nc fun i j => c * A.get i j
def mT (A : M α) : M α := M.tab A.nc A.nr fun i j => A.get j i
def mmul (A B : M α) : M α := M.tab A.nr B.nc fun i j => sumRange A.nc fun k => A.get i k * B.get k j
def trace (A : M α) : α := sumRange A.nr fun i => A.get i i

/-- horizontal block `[A | B]` -/
def hcat (A B : M α) : M α :=
  M.tab A.nr (A.nc + B.nc) fun i j => if j < A.nc then A.get i j else B.get i (j - A.nc)

/-- first row index `≥ k` with a non-zero entry in column `k` -/
def findPivot (T : M α) (k : Nat) : Option Nat :=
  ((List.range T.nr).filter fun i => k ≤ i ∧ !(T.get i k == 0)).head?

def swapRows (T : M α) (a b : Nat) : M α :=
  M.tab T.nr T.nc fun i j => if i = a then T.get b j else if i = b then T.get a j else T.get i j

/-- eliminate column `k` using row `k` (assumed non-zero pivot) -/
def elimCol (T : M α) (k : Nat) : M α :=
  let p := T.get k k
  M.tab T.nr T.nc fun i j =>
    if i = k then T.get k j / p else T.get i j - T.get i k * (T.get k j / p)

/-- Gauss–Jordan on the augmented matrix, `n` columns to clear -/
def gaussJordan : Nat → Nat → M α → Option (M α)
  | 0, _, T => some T
  | fuel + 1, k, T =>
    match findPivot T k with
    | none => none
    | some r => gaussJordan fuel (k + 1) (elimCol (swapRows T k r) k)

/-- `solve A B`: the `X` with `A X = B` (`none` when `A` is singular) -/
def solve (A B : M α) : Option (M α) :=
  match gaussJordan A.nr 0 (hcat A B) with
  | none => none
  | some T => some (M.tab A.nr B.nc fun i j => T.get i (A.nc + j))

def inv (A : M α) : Option (M α) := solve A (ident A.nr)

/-- max-abs entry, for stopping rules; `absf` supplied by the caller -/
def maxAbs [LT α] [DecidableLT α] (absf : α → α) (A : M α) : α :=
  (List.range A.nr).foldl (fun acc i =>
    (List.range A.nc).foldl (fun acc j => if acc < absf (A.get i j) then absf (A.get i j) else acc) acc) 0

end QE.MatAlg
