/-
  QEModel.C18 — random generators: the deterministic kernels that turn a stream of
  uniform / integer draws into the generated object.  Every random draw is an explicit
  input (the harness records what the real code consumed and hands it over).

  Mirrors:
    quantecon/random/utilities.py      _probvec (66-92), probvec (49-63),
                                       _sample_without_replacement (155-170)
    quantecon/markov/random.py         _random_stochastic_matrix (106-142)
    quantecon/_graph_tools.py          _populate_random_tournament_row_col (417-443)
    quantecon/game_theory/game_generators/bimatrix_generators.py
                                       _populate_blotto_payoff_arrays (171-202),
                                       ranking_game/_populate_ranking_payoff_arrays (255-308),
                                       _populate_sgc_payoff_arrays (358-396),
                                       _populate_tournament_payoff_array0/1 (477-533),
                                       unit_vector_game (592-615)
    quantecon/game_theory/random.py    _random_mixed_actions (183-206)
    quantecon/util/random.py           check_random_state (36-43)
-/
import QEModel.Base
import QEModel.C16
namespace QE.C18

/-! ### probvec : sort, spacings, `1 - r[n-1]` -/

section probvec
variable {α : Type} [One α] [Sub α] [LE α] [DecidableLE α]

/-- `for i in range(1, n): out[i] = r[i] - r[i-1]` followed by `out[n] = 1 - r[n-1]`;
    `prev` is `r[i-1]`. -/
def spacings (prev : α) : List α → List α
  | [] => [1 - prev]
  | x :: xs => (x - prev) :: spacings x xs

/-- body of `_probvec` after `r.sort()`: `out[0] = r[0]`, then the spacings.
    (`n = 0` cannot reach the kernel: `probvec` returns early for `k = 1`.) -/
def probvecSorted : List α → List α
  | [] => []
  | x :: xs => x :: spacings x xs

/-- `r.sort()` (ascending; the sorted arrangement of a list of non-NaN doubles is unique) -/
def sortAsc (r : List α) : List α := r.mergeSort (fun a b => decide (a ≤ b))

/-- one row of `_probvec(r, out)` -/
def probvecRow (r : List α) : List α := probvecSorted (sortAsc r)

/-- `probvec(m, k, …)` given the `(m, k-1)` uniforms it drew (none for `k = 1`) -/
def probvec (m k : Nat) (r : List (List α)) : List (List α) :=
  if k = 1 then List.replicate m [1] else r.map probvecRow

end probvec

/-! ### sample_without_replacement : pool swap -/

/-- `for j in range(k): out[j] = pool[idx]; pool[idx] = pool[n-j-1]` with the integer
    `idx_j` of each iteration given. -/
def swrLoop (n : Nat) : Nat → List Nat → List Nat → List Nat
  | _, _, [] => []
  | j, pool, idx :: rest =>
    pool.getD idx 0 :: swrLoop n (j + 1) (pool.set idx (pool.getD (n - j - 1) 0)) rest

/-- `_sample_without_replacement(n, r, out)` as a function of the indices
    `idx_j = floor(r[j] * (n-j))` -/
def swr (n : Nat) (idxs : List Nat) : List Nat := swrLoop n 0 (List.range n) idxs

/-- `np.intp(np.floor(r[j] * (n-j)))` in double arithmetic, `j = j0, j0+1, …` -/
def idxsFloat (n : Nat) : Nat → List Float → List Nat
  | _, [] => []
  | j, r :: rest => (Float.floor (r * Float.ofNat (n - j))).toUInt64.toNat :: idxsFloat n (j + 1) rest

/-- the same in exact rational arithmetic -/
def idxsRat (n : Nat) : Nat → List Rat → List Nat
  | _, [] => []
  | j, r :: rest => (r * ((n - j : Nat) : Rat)).floor.toNat :: idxsRat n (j + 1) rest

/-! ### _random_stochastic_matrix : k-sparse rows at sampled columns -/

section place
variable {α : Type} [Zero α]

/-- `P = zeros(n); P[cols] = data` for one row (later writes win, as in NumPy) -/
def placeRow (n : Nat) (cols : List Nat) (data : List α) : List α :=
  (cols.zip data).foldl (fun row cv => row.set cv.1 cv.2) (List.replicate n 0)

/-- dense `_random_stochastic_matrix(m, n, k)` from the rows of `probvec(m, k)` and the
    column samples (`k < n`), or the probability vectors themselves (`k = n`) -/
def stochDense (n k : Nat) (pv : List (List α)) (cols : List (List Nat)) : List (List α) :=
  if k = n then pv else (pv.zip cols).map fun pc => placeRow n pc.2 pc.1

/-- stored entries `(col, value)` of one row of the CSR form: all `k` triplets of the COO
    input (explicit zeros included), ordered by column (`k < n`) -/
def sparseRow (cols : List Nat) (data : List α) : List (Nat × α) :=
  (cols.zip data).mergeSort (fun a b => decide (a.1 ≤ b.1))

end place

/-! ### random_discrete_dp : the state-action pairs of the rows of `Q` -/

/-- `sa_indices(num_states, num_actions)` (the double loop `for s: for a:`), as pairs `(s, a)`;
    row `r` of the `(L, n)` matrix `Q` belongs to the `r`-th pair -/
def saIndices (ns na : Nat) : List (Nat × Nat) :=
  (List.range ns).flatMap fun s => (List.range na).map fun a => (s, a)

/-- the pair that the C-order reshape `Q.shape = (ns, na, ns)` assigns to row `r` -/
def reshapeIndex (na r : Nat) : Nat × Nat := (r / na, r % na)

/-! ### random_tournament_graph -/

/-- the pairs `(i, j)`, `i < j < n`, in the order of the double loop -/
def tournPairs (n : Nat) : List (Nat × Nat) :=
  (List.range n).flatMap fun i => (List.range' (i + 1) (n - (i + 1))).map fun j => (i, j)

/-- `if r[k] < 0.5: (i, j) else (j, i)` with `b = (r[k] < 0.5)` -/
def orient (p : Nat × Nat) (b : Bool) : Nat × Nat := if b then p else (p.2, p.1)

def tournEdges (n : Nat) (bs : List Bool) : List (Nat × Nat) :=
  List.zipWith orient (tournPairs n) bs

/-- successors of node `i` in increasing order (= `indices[indptr[i]:indptr[i+1]]` of the
    canonical CSR adjacency matrix) -/
def succOf (n : Nat) (edges : List (Nat × Nat)) (i : Nat) : List Nat :=
  (List.range n).filter fun j => edges.contains (i, j)

def belowHalf {α : Type} [One α] [Add α] [Div α] [LT α] [DecidableLT α] (r : List α) : List Bool :=
  r.map fun x => decide (x < 1 / (1 + 1))

/-! ### Blotto -/

section blotto
variable {α : Type} [Zero α] [One α] [Add α] [Div α]

/-- inner loop over the hills for the pair of actions `(ai, aj)`:
    state `(payoffs[0], payoffs[1])` -/
def blottoPair (ai aj : List Nat) (values : List (α × α)) : α × α :=
  ((ai.zip aj).zip values).foldl (fun (p : α × α) xv =>
    let x := xv.1.1; let y := xv.1.2; let v := xv.2
    if x = y then (p.1 + v.1 / (1 + 1), p.2 + v.2 / (1 + 1))
    else if x < y then (p.1, p.2 + v.2)     -- winner = 1
    else (p.1 + v.1, p.2)) (0, 0)

/-- `payoff_arrays[0][i, j]` -/
def blotto0 (actions : List (List Nat)) (values : List (α × α)) : List (List α) :=
  actions.map fun ai => actions.map fun aj => (blottoPair ai aj values).1

/-- `payoff_arrays[1][j, i]` (player 1's own action first) -/
def blotto1 (actions : List (List Nat)) (values : List (α × α)) : List (List α) :=
  actions.map fun aj => actions.map fun ai => (blottoPair ai aj values).2

end blotto

/-! ### ranking game -/

/-- `cumsum` -/
def cumsumNat : Nat → List Nat → List Nat
  | _, [] => []
  | acc, x :: xs => (acc + x) :: cumsumNat (acc + x) xs

section ranking
variable {α : Type} [Zero α] [One α] [Add α] [Neg α] [Div α]

/-- the value written by the first double loop: `0` in row 0, `-costs[p, i-1]` below -/
def rankBase (costs : List α) (i : Nat) : α := if i = 0 then 0 else - costs.getD (i - 1) 0

/-- `payoff_arrays[0][i, j]` given the cumulative scores `s0`, `s1` and player 0's costs -/
def rank0 (s0 s1 : List Nat) (c0 : List α) (i j : Nat) : α :=
  if s0.getD i 0 > s1.getD j 0 then rankBase c0 i + 1
  else if s0.getD i 0 < s1.getD j 0 then rankBase c0 i
  else rankBase c0 i + 1 / (1 + 1)

/-- `payoff_arrays[1][j, i]` -/
def rank1 (s0 s1 : List Nat) (c1 : List α) (j i : Nat) : α :=
  if s0.getD i 0 > s1.getD j 0 then rankBase c1 j
  else if s0.getD i 0 < s1.getD j 0 then rankBase c1 j + 1
  else rankBase c1 j + 1 / (1 + 1)

/-- `costs.cumsum(); costs /= n*steps` through the injection `ofN` of the integers -/
def rankCosts (ofN : Nat → α) (n steps : Nat) (draws : List Nat) : List α :=
  (cumsumNat 0 draws).map fun c => ofN c / ofN (n * steps)

def rankingGame (ofN : Nat → α) (n steps : Nat) (sd0 sd1 cd0 cd1 : List Nat) :
    List (List α) × List (List α) :=
  let s0 := cumsumNat 0 sd0
  let s1 := cumsumNat 0 sd1
  let c0 := rankCosts ofN n steps cd0
  let c1 := rankCosts ofN n steps cd1
  ((List.range n).map fun i => (List.range n).map fun j => rank0 s0 s1 c0 i j,
   (List.range n).map fun j => (List.range n).map fun i => rank1 s0 s1 c1 j i)

end ranking

/-! ### SGC game : a sequence of overwrites of a `(4k-1) × (4k-1)` array -/

section sgc
variable {α : Type} [Zero α] [One α] [Add α] [Div α]

/-- NumPy index of a (possibly negative) integer into an axis of length `n` -/
def wrapIdx (n : Nat) (i : Int) : Nat := if i < 0 then (i + n).toNat else i.toNat

/-- `A[i, j] = v` on a matrix given as a function -/
def upd (A : Nat → Nat → α) (i j : Nat) (v : α) : Nat → Nat → α :=
  fun a b => if a = i ∧ b = j then v else A a b

def c34 : α := (1 + 1 + 1) / (1 + 1 + 1 + 1)
def c12 : α := 1 / (1 + 1)

/-- the three region loops -/
def sgcRegions (m : Nat) : Nat → Nat → α := fun i j =>
  if i < m then (if j < m then c34 else c12) else 0

/-- the part common to both players (first `for payoff_array in payoff_arrays` loop) -/
def sgcCommon (n : Nat) : Nat → Nat → α :=
  let m := (n + 1) / 2 - 1
  let A0 : Nat → Nat → α := sgcRegions m
  let A1 := upd A0 0 (wrapIdx n ((m : Int) - 1)) 1
  let A2 := upd A1 0 1 c12
  let A3 := (List.range' 1 (m - 2)).foldl (fun A i => upd (upd A i (i - 1) 1) i (i + 1) c12) A2
  let A4 := upd A3 (wrapIdx n ((m : Int) - 1)) (wrapIdx n ((m : Int) - 2)) 1
  upd A4 (wrapIdx n ((m : Int) - 1)) 0 c12

/-- the `for h in range(k)` loop, player 0: `A[i, j] = A[i+1, j+1] = 0.75`, `i = j = m + 2h` -/
def sgcPairs0 (m k : Nat) (A : Nat → Nat → α) : Nat → Nat → α :=
  (List.range k).foldl (fun A h => upd (upd A (m + 2 * h) (m + 2 * h) c34) (m + 2 * h + 1) (m + 2 * h + 1) c34) A

/-- player 1: `A[j, i+1] = A[j+1, i] = 0.75` -/
def sgcPairs1 (m k : Nat) (A : Nat → Nat → α) : Nat → Nat → α :=
  (List.range k).foldl (fun A h => upd (upd A (m + 2 * h) (m + 2 * h + 1) c34) (m + 2 * h + 1) (m + 2 * h) c34) A

def sgcEntry0 (k : Nat) : Nat → Nat → α :=
  let n := 4 * k - 1
  let m := (n + 1) / 2 - 1
  sgcPairs0 m ((m + 1) / 2) (sgcCommon n)

def sgcEntry1 (k : Nat) : Nat → Nat → α :=
  let n := 4 * k - 1
  let m := (n + 1) / 2 - 1
  sgcPairs1 m ((m + 1) / 2) (sgcCommon n)

def tabulate (n m : Nat) (f : Nat → Nat → α) : List (List α) :=
  (List.range n).map fun i => (List.range m).map fun j => f i j

end sgc

/-! ### tournament game -/

section tgame
variable {α : Type} [Zero α] [One α]

/-- `while a[-1] < d: X = indices[indptr[i]+a]; row[rank(X)] = 1; a = next_k_array(a)` -/
def tg0Loop (d : Nat) (succ : List Nat) : Nat → List Nat → List α → List α
  | 0, _, row => row
  | fuel + 1, a, row =>
    if a.getD (a.length - 1) 0 < d then
      let X := a.map fun t => succ.getD t 0
      tg0Loop d succ fuel (QE.C16.nextKArray a) (row.set (QE.C16.kArrayRank X) 1)
    else row

/-- row `i` of `payoff_arrays[0]` (length `m = C(n,k)`); `succ` = successors of node `i` -/
def tg0Row (m k : Nat) (succ : List Nat) : List α :=
  let d := succ.length
  if d ≥ k then tg0Loop d succ (m + 1) (List.range k) (List.replicate m 0)
  else List.replicate m 0

/-- rows of `payoff_arrays[1]`: row `j` is the indicator of the `j`-th `k`-subset -/
def tg1Rows (n : Nat) : Nat → List Nat → List (List α)
  | 0, _ => []
  | rem + 1, X => (X.foldl (fun row x => row.set x 1) (List.replicate n 0)) :: tg1Rows n rem (QE.C16.nextKArray X)

def tournamentGame (n k : Nat) (bs : List Bool) : List (List α) × List (List α) :=
  let m := QE.C16.chooseFast n k
  let edges := tournEdges n bs
  ((List.range n).map fun i => tg0Row m k (succOf n edges i), tg1Rows n m (List.range k))

end tgame

/-! ### unit vector game -/

section uv
variable {α : Type} [Zero α] [One α] [LT α] [DecidableLT α]

/-- `payoff_arrays[0][ones_ind, arange(n)] = 1` -/
def uvPlain (n : Nat) (ones : List Nat) : List (List α) :=
  (List.range n).map fun r => (List.range n).map fun c => if ones.getD c n = r then 1 else 0

/-- column maxima of player 1's array -/
def colMax (P : List (List α)) (c : Nat) : α :=
  P.foldl (fun mx row => if mx < row.getD c 0 then row.getD c 0 else mx) ((P.headD []).getD c 0)

/-- `is_suboptimal[a, b] = P[a, b] < maxes[b]` -/
def isSubopt (P : List (List α)) (a b : Nat) : Bool :=
  decide ((P.getD a []).getD b 0 < colMax P b)

/-- `one_ind = draw; while not is_suboptimal[i, one_ind]: one_ind = draw`: returns the accepted
    index and the remaining draws, `none` when the draws run out -/
def uvPick (P : List (List α)) (i : Nat) : List Nat → Option (Nat × List Nat)
  | [] => none
  | d :: rest => if isSubopt P i d then some (d, rest) else uvPick P i rest

/-- the `for i in range(n)` loop: accepted indices `ones[i]` -/
def uvAvoidOnes (P : List (List α)) : List Nat → List Nat → Option (List Nat × List Nat)
  | [], draws => some ([], draws)
  | i :: is, draws =>
    match uvPick P i draws with
    | none => none
    | some (d, rest) =>
      match uvAvoidOnes P is rest with
      | none => none
      | some (ds, rest') => some (d :: ds, rest')

/-- `(nums_suboptimal == 0).any()`: some row of player 1's array is nowhere suboptimal -/
def uvMustRedraw (n : Nat) (P : List (List α)) : Bool :=
  (List.range n).any fun a => (List.range n).all fun b => !isSubopt P a b

end uv

/-! ### check_random_state : three-way case split -/

inductive Seed | none | int | randomState | generator | other
deriving DecidableEq, Repr

inductive RngOut | global | fresh | same | valueError
deriving DecidableEq, Repr

def checkRandomState : Seed → RngOut
  | .none => .global
  | .int => .fresh
  | .randomState => .same
  | .generator => .same
  | .other => .valueError

/-! ### argument validation of the generators (the `ValueError` branches) -/

inductive ArgOut | ok | valueError
deriving DecidableEq, Repr

/-- `sample_without_replacement(n, k)`: `n <= 0` and `k > n` are rejected by the function itself,
    `k < 0` by `random(size=k)` (also a `ValueError`) -/
def swrArgs (n k : Int) : ArgOut :=
  if n ≤ 0 then .valueError else if k > n then .valueError else if k < 0 then .valueError else .ok

section covargs
variable {α : Type} [One α] [Neg α] [Div α] [LE α] [DecidableLE α]

/-- `covariance_game(nums_actions, rho)`: `N <= 1` or `not (-1/(N-1) <= rho <= 1)` raise;
    `ofN` injects `N - 1` into the scalars -/
def covArgs (ofN : Nat → α) (N : Nat) (rho : α) : ArgOut :=
  if N ≤ 1 then .valueError
  else if (-1 / ofN (N - 1) ≤ rho) ∧ rho ≤ 1 then .ok else .valueError

end covargs

/-- `random_game` / `random_polymatrix_game`: an empty `nums_actions` is rejected -/
def gameArgs (N : Nat) : ArgOut := if N = 0 then .valueError else .ok

/-- `unit_vector_game(n, avoid_pure_nash)`: `avoid_pure_nash` with a single action is rejected -/
def uvArgs (n : Nat) (avoid : Bool) : ArgOut := if avoid ∧ n = 1 then .valueError else .ok

def showArgOut : ArgOut → String
  | .ok => "ok"
  | .valueError => "ERR:ValueError"

/-! ### line protocol -/

open QE

def pairsOf {β : Type} (m : List (List β)) : Option (List (β × β)) :=
  m.mapM fun r => match r with
    | [a, b] => some (a, b)
    | _ => none

def showEdges (e : List (Nat × Nat)) : String :=
  showList (fun (p : Nat × Nat) => toString p.1 ++ ">" ++ toString p.2) e

def floatOfNat (n : Nat) : Float := Float.ofNat n

def handle (toks : List String) : String :=
  match toks with
  | "probvec" :: r =>
    match kvNat r "m", kvNat r "k", kvFloatMat r "r" with
    | some m, some k, some rr =>
      if k = 0 ∨ (k ≥ 2 ∧ (rr.length ≠ m ∨ rr.any (fun row => row.length ≠ k - 1))) then "bad-op"
      else showMat showFloatBits (probvec m k rr)
    | _, _, _ => "bad-op"
  | "probvecq" :: r =>
    match kvNat r "m", kvNat r "k", kvRatMat r "r" with
    | some m, some k, some rr =>
      if k = 0 ∨ (k ≥ 2 ∧ (rr.length ≠ m ∨ rr.any (fun row => row.length ≠ k - 1))) then "bad-op"
      else showMat showRat (probvec m k rr)
    | _, _, _ => "bad-op"
  | "swr" :: r =>
    match kvNat r "n", kvFloats r "r" with
    | some n, some rs => if n = 0 ∨ rs.length > n then "ERR:ValueError" else
        showList toString (swr n (idxsFloat n 0 rs))
    | _, _ => "bad-op"
  | "swrq" :: r =>
    match kvNat r "n", kvRats r "r" with
    | some n, some rs => if n = 0 ∨ rs.length > n then "ERR:ValueError" else
        showList toString (swr n (idxsRat n 0 rs))
    | _, _ => "bad-op"
  | "swri" :: r =>
    match kvNat r "n", kvNats r "idx" with
    | some n, some ix => showList toString (swr n ix)
    | _, _ => "bad-op"
  | "stoch" :: r =>
    -- r1 : (m, k-1) uniforms of probvec, r2 : (m, k) uniforms of the column sampler (k < n)
    match kvNat r "m", kvNat r "n", kvNat r "k", kvFloatMat r "r1", kvFloatMat r "r2", kv r "out" with
    | some m, some n, some k, some r1, some r2, some out =>
      if k = 0 ∨ k > n then "bad-op" else
      let pv := probvec m k r1
      let cols := r2.map fun row => swr n (idxsFloat n 0 row)
      if out = "dense" then showMat showFloatBits (stochDense n k pv cols)
      else if out = "csr" ∧ k < n then
        ";".intercalate ((pv.zip cols).map fun pc =>
          showList (fun (cv : Nat × Float) => toString cv.1 ++ ":" ++ showFloatBits cv.2) (sparseRow pc.2 pc.1))
      else "bad-op"
    | _, _, _, _, _, _ => "bad-op"
  | "tourn" :: r =>
    match kvNat r "n", kvFloats r "r" with
    | some n, some rs =>
      if rs.length ≠ n * (n - 1) / 2 then "bad-op" else
      let e := tournEdges n (belowHalf rs)
      showEdges e ++ " | " ++ showMat toString ((List.range n).map (succOf n e))
    | _, _ => "bad-op"
  | "blotto" :: r =>
    match kvNat r "h", kvNat r "t", kvFloatMat r "values" with
    | some h, some t, some vm =>
      match QE.C16.simplexGrid h t, pairsOf vm with
      | some actions, some values =>
        if values.length ≠ h then "bad-op" else
        showMat showFloatBits (blotto0 actions values) ++ " | " ++ showMat showFloatBits (blotto1 actions values)
      | _, _ => "bad-op"
    | _, _, _ => "bad-op"
  | "blottoq" :: r =>
    match kvNat r "h", kvNat r "t", kvRatMat r "values" with
    | some h, some t, some vm =>
      match QE.C16.simplexGrid h t, pairsOf vm with
      | some actions, some values =>
        if values.length ≠ h then "bad-op" else
        showMat showRat (blotto0 actions values) ++ " | " ++ showMat showRat (blotto1 actions values)
      | _, _ => "bad-op"
    | _, _, _ => "bad-op"
  | "ranking" :: r =>
    match kvNat r "n", kvNat r "steps", kvNatMat r "s", kvNatMat r "c" with
    | some n, some steps, some [sd0, sd1], some [cd0, cd1] =>
      if sd0.length ≠ n ∨ sd1.length ≠ n ∨ cd0.length ≠ n - 1 ∨ cd1.length ≠ n - 1 then "bad-op" else
      let g := rankingGame floatOfNat n steps sd0 sd1 cd0 cd1
      showMat showFloatBits g.1 ++ " | " ++ showMat showFloatBits g.2
    | _, _, _, _ => "bad-op"
  | "rankingq" :: r =>
    match kvNat r "n", kvNat r "steps", kvNatMat r "s", kvNatMat r "c" with
    | some n, some steps, some [sd0, sd1], some [cd0, cd1] =>
      if sd0.length ≠ n ∨ sd1.length ≠ n ∨ cd0.length ≠ n - 1 ∨ cd1.length ≠ n - 1 then "bad-op" else
      let g := rankingGame (fun (c : Nat) => (c : Rat)) n steps sd0 sd1 cd0 cd1
      showMat showRat g.1 ++ " | " ++ showMat showRat g.2
    | _, _, _, _ => "bad-op"
  | "sgc" :: r =>
    match kvNat r "k" with
    | some k => if k = 0 then "bad-op" else
      let n := 4 * k - 1
      showMat showFloatBits (tabulate n n (sgcEntry0 (α := Float) k)) ++ " | " ++
      showMat showFloatBits (tabulate n n (sgcEntry1 (α := Float) k))
    | _ => "bad-op"
  | "tgame" :: r =>
    match kvNat r "n", kvNat r "k", kvFloats r "r" with
    | some n, some k, some rs =>
      if rs.length ≠ n * (n - 1) / 2 ∨ k = 0 ∨ k > n then "bad-op" else
      let g := tournamentGame (α := Nat) n k (belowHalf rs)
      showMat toString g.1 ++ " | " ++ showMat toString g.2
    | _, _, _ => "bad-op"
  | "uv" :: r =>
    match kvNat r "n", kvNats r "ones" with
    | some n, some ones => if ones.length ≠ n ∨ ones.any (· ≥ n) then "bad-op" else
      showMat toString (uvPlain (α := Nat) n ones)
    | _, _ => "bad-op"
  | "uvavoid" :: r =>
    match kvNat r "n", kvFloatMat r "p1", kvNats r "draws" with
    | some n, some P, some draws =>
      if n < 2 then "ERR:ValueError"
      else if P.length ≠ n ∨ P.any (fun row => row.length ≠ n) then "bad-op"
      else if uvMustRedraw n P then "redraw"
      else match uvAvoidOnes P (List.range n) draws with
        | some (ones, rest) => showMat toString (uvPlain (α := Nat) n ones) ++ " | " ++ toString rest.length
        | none => "out-of-draws"
    | _, _, _ => "bad-op"
  | "saidx" :: r =>
    match kvNat r "ns", kvNat r "na" with
    | some ns, some na =>
      let p := saIndices ns na
      showList toString (p.map Prod.fst) ++ " | " ++ showList toString (p.map Prod.snd)
    | _, _ => "bad-op"
  | "args" :: r =>
    match kv r "fn" with
    | some "swr" =>
      match kvInt r "n", kvInt r "k" with
      | some n, some k => showArgOut (swrArgs n k)
      | _, _ => "bad-op"
    | some "cov" =>
      match kvNat r "N", kvFloats r "rho" with
      | some N, some [rho] => showArgOut (covArgs floatOfNat N rho)
      | _, _ => "bad-op"
    | some "covq" =>
      match kvNat r "N", kvRat r "rho" with
      | some N, some rho => showArgOut (covArgs (fun (c : Nat) => (c : Rat)) N rho)
      | _, _ => "bad-op"
    | some "game" =>
      match kvNat r "N" with
      | some N => showArgOut (gameArgs N)
      | _ => "bad-op"
    | some "uv" =>
      match kvNat r "n", kvNat r "avoid" with
      | some n, some a => if a > 1 then "bad-op" else showArgOut (uvArgs n (a = 1))
      | _, _ => "bad-op"
    | _ => "bad-op"
  | "crs" :: r =>
    match kv r "seed" with
    | some s =>
      let sd : Option Seed := match s with
        | "none" => some .none | "int" => some .int | "rs" => some .randomState
        | "gen" => some .generator | "other" => some .other | _ => Option.none
      match sd with
      | some sd => match checkRandomState sd with
        | .global => "global" | .fresh => "fresh" | .same => "same" | .valueError => "ERR:ValueError"
      | Option.none => "bad-op"
    | _ => "bad-op"
  | _ => "bad-op"

end QE.C18
