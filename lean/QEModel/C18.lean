/-
  QEModel.C18 — executable model for property C18 (stub; to be filled in).
-/
import QEModel.Base
namespace QE.C18

def handle (_toks : List String) : String := "bad-op"

end QE.C18
