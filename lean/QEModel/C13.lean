/-
  QEModel.C13 — executable model for property C13 (stub; to be filled in).
-/
import QEModel.Base
namespace QE.C13

def handle (_toks : List String) : String := "bad-op"

end QE.C13
