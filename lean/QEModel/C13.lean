/-
  QEModel.C13 — AR(1) discretisations and chain estimation.
  Mirrors: quantecon/markov/approximation.py (rouwenhorst 101-152, tauchen 209-247,
  std_norm_cdf, _fill_tauchen), quantecon/markov/estimate.py (estimate_mc,
  _count_transition_frequencies, fit_discrete_mc), numpy.linspace (the scalar path).
  External functions are parameters: `sqrt`, `erfc`.
-/
import QEModel.Base
import QEModel.C16
namespace QE.C13
open QE

/-- `Float` has no `NatCast` in core; `Float.ofNat` is exact below 2^53. -/
local instance : NatCast Float := ⟨Float.ofNat⟩

section arith
variable {α : Type} [Zero α] [One α] [Add α] [Sub α] [Mul α] [Div α] [Neg α] [NatCast α]
  [LT α] [LE α] [DecidableLT α] [DecidableLE α] [BEq α]

/-! ### numpy.linspace(start, stop, num) for scalar start/stop, endpoint=True -/

/-- `y = arange(num) * step + start` with `step = (stop-start)/(num-1)`; `y[-1] = stop`;
    (`step == 0`: `y = arange(num)/div * delta + start`; `num ≤ 1`: `y = arange(num)*delta + start`). -/
def linspace (start stop : α) (n : Nat) : List α :=
  let delta := stop - start
  if 1 < n then
    let div : α := ((n - 1 : Nat) : α)
    let step := delta / div
    (List.range n).map fun (i : Nat) =>
      if i + 1 = n then stop
      else if step == 0 then (i : α) / div * delta + start
      else (i : α) * step + start
  else (List.range n).map fun (i : Nat) => (i : α) * delta + start

/-! ### rouwenhorst -/

/-- `theta = np.array([[p, 1 - p], [1 - q, q]])` -/
def rouwBaseFn (p q : α) (i j : Nat) : α :=
  if i = 0 then (if j = 0 then p else 1 - p) else (if j = 0 then 1 - q else q)

/-- the `elif n > 2` branch of `row_build_mat`, entry `(i, j)` of the `(k+1)×(k+1)` result from
    the `k×k` matrix `T` (`k = n-1`): `p1 + p2 + p3 + p4`, rows `1 .. n-2` halved. -/
def rouwStepFn (k : Nat) (p q : α) (T : Nat → Nat → α) (i j : Nat) : α :=
  let p1 := if i < k ∧ j < k then p * T i j else 0
  let p2 := if i < k ∧ 1 ≤ j then (1 - p) * T i (j - 1) else 0
  let p3 := if 1 ≤ i ∧ j < k then (1 - q) * T (i - 1) j else 0
  let p4 := if 1 ≤ i ∧ 1 ≤ j then q * T (i - 1) (j - 1) else 0
  let s := p1 + p2 + p3 + p4
  if 1 ≤ i ∧ i < k then s / (1 + 1) else s

/-- `row_build_mat(m + 2, p, q)` -/
def rouwMat (p q : α) : Nat → M α
  | 0 => M.tab 2 2 (rouwBaseFn p q)
  | m + 1 =>
    let T := rouwMat p q m
    M.tab (m + 3) (m + 3) (rouwStepFn (m + 2) p q T.get)

/-- `row_build_mat(n, p, q)`; `none` = the `ValueError` of the `else` branch -/
def rowBuildMat (n : Nat) (p q : α) : Option (M α) :=
  if n < 2 then none else some (rouwMat p q (n - 2))

/-- `y_sd = sqrt(sigma**2 / (1 - rho**2))` -/
def ySd (sqrt : α → α) (rho sigma : α) : α := sqrt (sigma * sigma / (1 - rho * rho))

/-- grid of `rouwenhorst`: `linspace(-psi, psi, n) + mu/(1-rho)`, `psi = y_sd * sqrt(n-1)` -/
def rouwGrid (sqrt : α → α) (n : Nat) (rho sigma mu : α) : List α :=
  let psi := ySd sqrt rho sigma * sqrt (((n - 1 : Nat) : α))
  let ubar := psi
  let lbar := -ubar
  (linspace lbar ubar n).map (· + mu / (1 - rho))

/-- `rouwenhorst(n, rho, sigma, mu)` → `(P, state_values)` -/
def rouwenhorst (sqrt : α → α) (n : Nat) (rho sigma mu : α) : Option (M α × List α) :=
  let p := (1 + rho) / (1 + 1)
  let q := p
  match rowBuildMat n p q with
  | none => none
  | some th => some (th, rouwGrid sqrt n rho sigma mu)

/-! ### tauchen -/

/-- `std_norm_cdf(x) = 0.5 * erfc(-x / sqrt(2))` -/
def stdNormCdf (erfc : α → α) (sqrt2 : α) (x : α) : α := (1 / (1 + 1)) * erfc (-x / sqrt2)

/-- upper / lower standardised cell boundary of cell `j` seen from state `i` -/
def tauArgUp (x : List α) (rho sigma h : α) (i j : Nat) : α :=
  (x.getD j 0 - rho * x.getD i 0 + h) / sigma
def tauArgLo (x : List α) (rho sigma h : α) (i j : Nat) : α :=
  (x.getD j 0 - rho * x.getD i 0 - h) / sigma

/-- `_fill_tauchen`, entry `(i, j)` (the write to column `n-1` comes after the one to column 0) -/
def tauchenEntry (Φ : α → α) (x : List α) (n : Nat) (rho sigma h : α) (i j : Nat) : α :=
  if j + 1 = n then 1 - Φ (tauArgLo x rho sigma h i j)
  else if j = 0 then Φ (tauArgUp x rho sigma h i j)
  else Φ (tauArgUp x rho sigma h i j) - Φ (tauArgLo x rho sigma h i j)

def fillTauchen (Φ : α → α) (x : List α) (n : Nat) (rho sigma h : α) : M α :=
  M.tab n n (tauchenEntry Φ x n rho sigma h)

/-- demeaned grid and half step of `tauchen` -/
def tauchenX (sqrt : α → α) (n : Nat) (rho sigma : α) (nstd : Nat) : List α × α :=
  let stdY := ySd sqrt rho sigma
  let xmax := (nstd : α) * stdY
  let xmin := -xmax
  let x := linspace xmin xmax n
  let step := (xmax - xmin) / (((n - 1 : Nat) : α))
  let half := (1 / (1 + 1)) * step
  (x, half)

/-- `tauchen(n, rho, sigma, mu, n_std)` → `(P, state_values)` -/
def tauchen (sqrt erfc : α → α) (n : Nat) (rho sigma mu : α) (nstd : Nat) : M α × List α :=
  let (x, half) := tauchenX sqrt n rho sigma nstd
  let P := fillTauchen (stdNormCdf erfc (sqrt (1 + 1))) x n rho sigma half
  let mu' := mu / (1 - rho)
  (P, x.map (· + mu'))

end arith

/-! ### estimate_mc -/

section est
variable {β : Type} [LT β] [DecidableLT β]

/-- insertion into a strictly increasing list (no duplicate is created) -/
def insSorted (a : β) : List β → List β
  | [] => [a]
  | b :: t => if a < b then a :: b :: t else if b < a then b :: insSorted a t else b :: t

/-- `np.unique(X)`: the sorted distinct values -/
def uniqueSorted (X : List β) : List β := X.foldr insSorted []

/-- `np.unique(…, return_inverse=True)`: position of `a` among the sorted distinct values
    = number of distinct values below it -/
def indexIn (S : List β) (a : β) : Nat := S.countP (fun b => decide (b < a))

end est

/-- `trans_counter[i, j] += 1` -/
def bump (C : Nat → Nat → Nat) (i j : Nat) : Nat → Nat → Nat :=
  fun a b => if a = i ∧ b = j then C a b + 1 else C a b

/-- the loop of `_count_transition_frequencies`: current state `i`, remaining series -/
def countLoop : (Nat → Nat → Nat) → Nat → List Nat → (Nat → Nat → Nat)
  | C, _, [] => C
  | C, i, j :: rest => countLoop (bump C i j) j rest

/-- `_count_transition_frequencies(index_series, zeros)` (non-empty series) -/
def countTransitions (idx : List Nat) : Nat → Nat → Nat :=
  match idx with
  | [] => fun _ _ => 0
  | i0 :: rest => countLoop (fun _ _ => 0) i0 rest

/-- `P.sum(1)[i]` -/
def rowTotal (C : Nat → Nat → Nat) (n i : Nat) : Nat := ((List.range n).map (C i)).sum

structure Est (β : Type) where
  states : List β
  idx : List Nat
  counts : List (List Nat)
  totals : List Nat
deriving Repr

/-- the integer part of `estimate_mc`: states, inverse indices, transition counts, row totals -/
def estimateCounts {β : Type} [LT β] [DecidableLT β] (X : List β) : Est β :=
  let S := uniqueSorted X
  let idx := X.map (indexIn S)
  let n := S.length
  -- materialise the counter once (the closure chain of `countLoop` is O(T) per read)
  let C := countTransitions idx
  let counts := (List.range n).map fun i => (List.range n).map fun j => C i j
  let Cm : Nat → Nat → Nat := fun i j => (counts.getD i []).getD j 0
  ⟨S, idx, counts, (List.range n).map (rowTotal Cm n)⟩

/-- `P /= P.sum(1)[:, np.newaxis]` then the `MarkovChain` validation: a state that is never
    left gives a `0/0 = nan` row and `ValueError('P must be nonnegative')` (`none`). -/
def estimateP {α : Type} [NatCast α] [Div α] (counts : List (List Nat)) (totals : List Nat) :
    Option (List (List α)) :=
  if totals.any (· == 0) then none
  else some ((counts.zip totals).map fun ((row, t) : List Nat × Nat) => row.map fun (c : Nat) => (c : α) / (t : α))

/-- `estimate_mc(X)` → `(state_values, P)` -/
def estimateMc {β α : Type} [LT β] [DecidableLT β] [NatCast α] [Div α] (X : List β) :
    Option (List β × List (List α)) :=
  let e := estimateCounts X
  match estimateP (α := α) e.counts e.totals with
  | none => none
  | some P => some (e.states, P)

/-! ### fit_discrete_mc -/

/-- `cartesian_nearest_index(X, grids, order)` row by row -/
def nearestIndices (grids : List (List Rat)) (X : List (List Rat)) (orderF : Bool) : List Nat :=
  X.map fun x => QE.C16.nearestIndex grids x orderF

/-- `fit_discrete_mc(X, grids, order)` → `(state_values, P)`;
    `state_values = cartesian(grids, order)[estimate_mc(X_indices).state_values]` -/
def fitDiscreteMc {α : Type} [NatCast α] [Div α] (X : List (List Rat)) (grids : List (List Rat))
    (orderF : Bool) : Option (List (List Rat) × List (List α)) :=
  match estimateMc (α := α) (nearestIndices grids X orderF) with
  | none => none
  | some (sv, P) =>
    let prod := QE.C16.cartesian grids orderF
    some (sv.map (fun k => prod.getD k []), P)

/-! ### discrete_var: the glue around `fit_discrete_mc` (approximation.py, `discrete_var`)

The simulated path `X` (from `simulate_linear_model`) and the stationary standard deviations
`sigma_vector = sqrt(diag(solve_discrete_lyapunov(A, C C')))` are external inputs; what is
modelled is what `discrete_var` itself does with them: default grid sizes, the symmetric
`linspace` grids of half width `std_devs * sigma_vector[i]`, and the call of `fit_discrete_mc`. -/

section dvar
variable {γ : Type} [Zero γ] [Add γ] [Sub γ] [Mul γ] [Div γ] [Neg γ] [NatCast γ] [BEq γ]
  [LE γ] [LT γ] [DecidableLE γ] [DecidableLT γ]

/-- `fit_discrete_mc` over any scalar type (at `Rat` this is `fitDiscreteMc`) -/
def fitDiscreteMcG {α : Type} [NatCast α] [Div α] (X grids : List (List γ)) (orderF : Bool) :
    Option (List (List γ) × List (List α)) :=
  match estimateMc (α := α) (X.map fun x => QE.C16.nearestIndex grids x orderF) with
  | none => none
  | some (sv, P) => some (sv.map (fun k => (QE.C16.cartesian grids orderF).getD k []), P)

/-- `grid_sizes = np.full(m, 10)` when `grid_sizes is None` -/
def dvarSizes (m : Nat) (gridSizes : Option (List Nat)) : List Nat :=
  match gridSizes with
  | none => List.replicate m 10
  | some s => s

/-- `V = [np.linspace(-upper_bounds[i], upper_bounds[i], grid_sizes[i]) for i in range(m)]`,
    `upper_bounds = std_devs * sigma_vector` -/
def dvarGrids (sigmaVec : List γ) (stdDevs : γ) (sizes : List Nat) : List (List γ) :=
  (List.range sigmaVec.length).map fun i =>
    linspace (-(stdDevs * sigmaVec.getD i 0)) (stdDevs * sigmaVec.getD i 0) (sizes.getD i 0)

/-- `discrete_var` after the simulation and the Lyapunov solve: `IndexError` when `grid_sizes`
    has fewer than `m` entries or one of its first `m` entries is 0 (empty grid), `ValueError` from `fit_discrete_mc`/`MarkovChain` when some
    visited state is never left, otherwise `(state_values, P)` -/
def discreteVar {α : Type} [NatCast α] [Div α] (sigmaVec : List γ) (stdDevs : γ)
    (gridSizes : Option (List Nat)) (X : List (List γ)) (orderF : Bool) :
    Except String (List (List γ) × List (List α)) :=
  let m := sigmaVec.length
  let sizes := dvarSizes m gridSizes
  if sizes.length < m then .error "IndexError"
  else if (List.range m).any (fun i => sizes.getD i 0 == 0) then
    .error "IndexError"     -- `type(e[0])` on an empty grid in `cartesian_nearest_index`
  else
    match fitDiscreteMcG (α := α) X (dvarGrids sigmaVec stdDevs sizes) orderF with
    | none => .error "ValueError"
    | some r => .ok r

end dvar

/-! ### line protocol -/

/-- `⌊q·2^80⌋` — a fixed-point rendering of big rationals (absolute error < 2^-80) -/
def showFix80 (q : Rat) : String := toString ((q * ((2 ^ 80 : Nat) : Rat)).floor)

def kvFloat (r : List String) (k : String) : Option Float := (kv r k).bind parseFloat?

/-- `arg:val,arg:val,…` (doubles as bit patterns) -/
def parseTable? (s : String) : Option (List (UInt64 × Float)) :=
  if s = "-" ∨ s = "" then some [] else
  (s.splitOn ",").mapM fun t =>
    match t.splitOn ":" with
    | [a, v] => match parseBits? a, parseFloat? v with
      | some a, some v => some (a, v)
      | _, _ => none
    | _ => none

/-- table look-up standing for an external function; a missing key gives NaN -/
def lookupFn (tbl : List (UInt64 × Float)) (x : Float) : Float :=
  match tbl.find? (fun e => e.1 == x.toBits) with
  | some e => e.2
  | none => 0.0 / 0.0

/-- the arguments at which `erfc` is evaluated by `_fill_tauchen`, row-major, per cell in the
    order of evaluation -/
def tauchenErfcArgs (x : List Float) (n : Nat) (rho sigma h sqrt2 : Float) : List Float :=
  (List.range n).flatMap fun i => (List.range n).flatMap fun j =>
    let up := -(tauArgUp x rho sigma h i j) / sqrt2
    let lo := -(tauArgLo x rho sigma h i j) / sqrt2
    if j + 1 = n then [lo] else if j = 0 then [up] else [up, lo]

def showEst (e : Est (List Rat)) : String :=
  "states=" ++ showMat showRat e.states ++ " idx=" ++ showList toString e.idx ++
  " counts=" ++ showMat toString e.counts ++ " totals=" ++ showList toString e.totals

def handle (toks : List String) : String :=
  match toks with
  | "linspace" :: r =>
    match kv r "mode", kvNat r "n" with
    | some "float", some n =>
      match kvFloat r "a", kvFloat r "b" with
      | some a, some b => showList showFloatBits (linspace a b n)
      | _, _ => "bad-op"
    | some "rat", some n =>
      match kvRat r "a", kvRat r "b" with
      | some a, some b => showList showRat (linspace a b n)
      | _, _ => "bad-op"
    | _, _ => "bad-op"
  | "rouw" :: r =>
    match kv r "mode", kvNat r "n" with
    | some "float", some n =>
      match kvFloat r "rho", kvFloat r "sigma", kvFloat r "mu" with
      | some rho, some sigma, some mu =>
        match rouwenhorst Float.sqrt n rho sigma mu with
        | none => "ERR:ValueError"
        | some (P, g) => "P=" ++ showMat showFloatBits P.toRows ++ " grid=" ++ showList showFloatBits g
      | _, _, _ => "bad-op"
    | some "rat", some n =>
      match kvRat r "rho", kvRat r "sigma", kvRat r "mu", kvRat r "sd", kvRat r "rt" with
      | some rho, some sigma, some mu, some sd, some rt =>
        -- `sqrt` is external: the two values the code needs are supplied by the caller
        let sq : Rat → Rat := fun a => if a == (((n - 1 : Nat) : Rat)) then rt else sd
        match rouwenhorst sq n rho sigma mu with
        | none => "ERR:ValueError"
        | some (P, g) => "P=" ++ showMat showFix80 P.toRows ++ " grid=" ++ showList showFix80 g
      | _, _, _, _, _ => "bad-op"
    | _, _ => "bad-op"
  | "tauchen_args" :: r =>
    match kvNat r "n", kvFloat r "rho", kvFloat r "sigma", kvNat r "nstd" with
    | some n, some rho, some sigma, some nstd =>
      let (x, half) := tauchenX Float.sqrt n rho sigma nstd
      showList showFloatBits (tauchenErfcArgs x n rho sigma half (Float.sqrt (1 + 1)))
    | _, _, _, _ => "bad-op"
  | "tauchen" :: r =>
    match kvNat r "n", kvFloat r "rho", kvFloat r "sigma", kvFloat r "mu", kvNat r "nstd",
          (kv r "erfc").bind parseTable? with
    | some n, some rho, some sigma, some mu, some nstd, some tbl =>
      let (P, g) := tauchen Float.sqrt (lookupFn tbl) n rho sigma mu nstd
      "P=" ++ showMat showFloatBits P.toRows ++ " grid=" ++ showList showFloatBits g
    | _, _, _, _, _, _ => "bad-op"
  | "tauchen_grid" :: r =>
    match kvNat r "n", kvRat r "rho", kvRat r "sigma", kvRat r "mu", kvNat r "nstd", kvRat r "sd" with
    | some n, some rho, some sigma, some mu, some nstd, some sd =>
      let (x, half) := tauchenX (fun _ => sd) n rho sigma nstd
      "grid=" ++ showList showFix80 (x.map (· + mu / (1 - rho))) ++ " half=" ++ showFix80 half
    | _, _, _, _, _, _ => "bad-op"
  | "estimate" :: r =>
    match kvRatMat r "X" with
    | some X =>
      if X.isEmpty then "ERR:empty" else
      let e := estimateCounts X
      match estimateP (α := Rat) e.counts e.totals with
      | none => showEst e ++ " P=ERR:ValueError"
      | some P => showEst e ++ " P=" ++ showMat showRat P
    | none => "bad-op"
  | "fit" :: r =>
    match kvRatMat r "X", kvRatMat r "grids", kv r "order" with
    | some X, some grids, some o =>
      if X.isEmpty ∨ (o ≠ "C" ∧ o ≠ "F") then "bad-op" else
      let idx := nearestIndices grids X (o = "F")
      match fitDiscreteMc (α := Rat) X grids (o = "F") with
      | none => "idx=" ++ showList toString idx ++ " ERR:ValueError"
      | some (sv, P) => "idx=" ++ showList toString idx ++ " states=" ++ showMat showRat sv ++
          " P=" ++ showMat showRat P
    | _, _, _ => "bad-op"
  | "dvar" :: r =>
    -- discrete_var given sigma_vector and the simulated path (rows = observations), Float arithmetic
    match kvFloats r "sigma", kvFloat r "std", kv r "sizes", kvFloatMat r "X", kv r "order" with
    | some sigma, some std, some sz, some X, some o =>
      let sizes? : Option (Option (List Nat)) :=
        if sz = "none" then some none else (parseList? parseNat? sz).map some
      match sizes? with
      | none => "bad-op"
      | some gs =>
        if X.isEmpty ∨ (o ≠ "C" ∧ o ≠ "F") then "bad-op" else
        match discreteVar (α := Rat) sigma std gs X (o = "F") with
        | .error e => "ERR:" ++ e
        | .ok (sv, P) => "states=" ++ showMat showFloatBits sv ++ " P=" ++ showMat showRat P
    | _, _, _, _, _ => "bad-op"
  | _ => "bad-op"

/-- a history of requests in one process: the functions of this property keep no state, so the
    model answers a history request by request (this is also what the driver loop does) -/
def run (reqs : List (List String)) : List String := reqs.map handle

end QE.C13
