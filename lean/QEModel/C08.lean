/-
  QEModel.C08 — executable model for property C08 (stub; to be filled in).
-/
import QEModel.Base
namespace QE.C08

def handle (_toks : List String) : String := "bad-op"

end QE.C08
