/-
  QEModel.C08 — quadrature rules.
  Mirrors: quantecon/quad.py
    _qnwtrap1 (983-993), _qnwsimp1 (934-945), numba's np.linspace (scalar path),
    _make_multidim_func (666-691), qnwunif (467-470), qnwequi weights (180-182),
    quadrect (550), qnwnorm's affine map (292-302),
    the three-term recurrences and Newton iterations of _qnwlege1 (779-817),
    _qnwnorm1 (850-896), _qnwgamma1 (1158-1201), _qnwbeta1 (1037-1117);
  quantecon/_ce_util.py  ckron (41), gridmake (71-82), _gridmake2 (115-123).
  Parameters (not modelled): cos / sqrt / pow / lgamma / exp (the Newton starting
  values and the normalising constants are inputs of the model), la.cholesky, la.sqrtm.
-/
import QEModel.Base
namespace QE.C08
open QE

/-- `Float` has no `NatCast` in core; `Float.ofNat` is exact below 2^53. -/
local instance : NatCast Float := ⟨Float.ofNat⟩

section arith
variable {α : Type} [Zero α] [One α] [Add α] [Sub α] [Mul α] [Div α] [Neg α] [NatCast α]
  [LT α] [LE α] [DecidableLT α] [DecidableLE α] [BEq α]

/-! ### np.linspace inside an `@jit` function (numba/np/arrayobj.py `numpy_linspace`) -/

/-- `arr[i] = start + i*step` with `step = (stop-start)/(num-1)`; `arr[-1] = stop` when
    `num > 1`; `arr[0] = start` when `num = 1`. -/
def linspace (start stop : α) (n : Nat) : List α :=
  (List.range n).map fun (i : Nat) =>
    if 1 < n then
      if i + 1 = n then stop
      else start + (i : α) * ((stop - start) / ((n - 1 : Nat) : α))
    else start

/-- `0.5` -/
def half : α := 1 / ((2 : Nat) : α)

/-! ### _qnwtrap1 -/

/-- `_qnwtrap1(n, a, b)`; `none` = `ValueError("n must be at least one")`.
    (`n = 1` reads `nodes[1]` out of bounds in the code; the theorems assume `2 ≤ n`.) -/
def trapRule (n : Nat) (a b : α) : Option (List α × List α) :=
  if n < 1 then none
  else
    let nodes := linspace a b n
    let dx := nodes.getD 1 0 - nodes.getD 0 0
    let w0 := List.replicate n (dx * 1)                    -- dx * np.ones(n)
    let w1 := w0.set 0 (w0.getD 0 0 * half)                -- weights[0] *= 0.5
    let w2 := w1.set (n - 1) (w1.getD (n - 1) 0 * half)    -- weights[-1] *= 0.5
    some (nodes, w2)

/-! ### np.kron for vectors, ckron -/

/-- `np.kron(a, b)` of two vectors: `out[i*len(b)+j] = a[i]*b[j]` -/
def kron (a b : List α) : List α := a.flatMap fun x => b.map fun y => x * y

/-- `ckron(*arrays) = reduce(np.kron, arrays)`; `none` = `TypeError` (reduce of an empty
    sequence). -/
def ckron : List (List α) → Option (List α)
  | [] => none
  | a :: rest => some (rest.foldl kron a)

/-! ### _qnwsimp1 -/

/-- the `n` the routine works with: an even `n` is increased by one -/
def simpN (n : Nat) : Nat := if n % 2 = 0 then n + 1 else n

/-- `np.kron(np.ones((n+1)//2), [2.0, 4.0])[:n]` with `w[0] = w[-1] = 1` -/
def simpPattern (n : Nat) : List α :=
  let pat := (kron (List.replicate ((n + 1) / 2) (1 : α)) [((2 : Nat) : α), ((4 : Nat) : α)]).take n
  (pat.set 0 1).set (n - 1) 1

/-- `_qnwsimp1(n, a, b)` (`n ≤ 1` reads `nodes[1]` out of bounds in the code; the theorems
    assume `2 ≤ n`, i.e. at least three nodes after the rounding-up). -/
def simpRule (n0 : Nat) (a b : α) : List α × List α :=
  let n := simpN n0
  let nodes := linspace a b n
  let dx := nodes.getD 1 0 - nodes.getD 0 0
  (nodes, (simpPattern n).map fun c => (dx / ((3 : Nat) : α)) * c)

end arith

/-! ### gridmake (no arithmetic: any element type) -/

section grid
variable {β : Type}

/-- `np.tile(x, k)` (for a matrix given by its rows: `np.tile(x, (k, 1))`) -/
def tile (x : List β) (k : Nat) : List β := (List.replicate k x).flatten

/-- `np.repeat(x, k)` -/
def repeatEach (x : List β) (k : Nat) : List β := x.flatMap fun v => List.replicate k v

/-- `_gridmake2(x1, x2)` with `x1` given by its rows (a 1-d `x1` = rows of length one):
    `column_stack([tile(x1, (len x2, 1)), repeat(x2, len x1)])` -/
def gridmake2 (X : List (List β)) (x2 : List β) : List (List β) :=
  List.zipWith (fun r v => r ++ [v]) (tile X x2.length) (repeatEach x2 X.length)

/-- a 1-d array as a one-column matrix -/
def col (x : List β) : List (List β) := x.map fun v => [v]

/-- `foldl _gridmake2` over the arrays, starting from the first one as a column -/
def gridRows : List (List β) → List (List β)
  | [] => []
  | x :: rest => rest.foldl gridmake2 (col x)

/-- `gridmake(*arrays)` for 1-d arrays; `none` = the `IndexError` of `arrays[1]` /
    `arrays[0]` when fewer than two arrays are given. -/
def gridmake (arrays : List (List β)) : Option (List (List β)) :=
  if arrays.length < 2 then none else some (gridRows arrays)

end grid

section arith2
variable {α : Type} [Zero α] [One α] [Add α] [Sub α] [Mul α] [Div α] [Neg α] [NatCast α]
  [LT α] [LE α] [DecidableLT α] [DecidableLE α] [BEq α]

/-- weights of the tensor rule: `ckron(*weights[::-1])` as a total function (`[]` for no rule) -/
def ckronRev (ws : List (List α)) : List α := (ckron ws.reverse).getD []

/-- the `d ≥ 2` path of `_make_multidim_func`: nodes `gridmake(*nodes)`, weights
    `ckron(*weights[::-1])` -/
def tensorRule (nodes weights : List (List α)) : Option (List (List α) × List α) :=
  match gridmake nodes, ckron weights.reverse with
  | some g, some w => some (g, w)
  | _, _ => none

/-- `a·b` for vectors (exact arithmetic; the BLAS summation order is not modelled) -/
def dot (a b : List α) : α := (List.zipWith (fun x y => x * y) a b).foldl (fun s t => s + t) 0

/-- `quadrect`: `weights.dot(f(nodes))` for 1-d nodes -/
def quadSum (weights nodes : List α) (f : α → α) : α := dot weights (nodes.map f)

/-- `quadrect` for d-dimensional nodes (rows) -/
def quadSumRows (weights : List α) (nodes : List (List α)) (f : List α → α) : α :=
  dot weights (nodes.map f)

/-- `np.prod(v)` -/
def prodL (v : List α) : α := v.foldl (fun s t => s * t) 1

/-- NumPy broadcasting of a 1-d operand to length `d`: a length-1 operand is repeated
    (any other length is left alone; a mismatch is a `ValueError` in the code and outside the model) -/
def broadcastTo (d : Nat) (v : List α) : List α :=
  if v.length = 1 then List.replicate d (v.getD 0 0) else v

/-- `np.broadcast_to(np.subtract(b, a), (d,))`: the side lengths of the box, `a` and `b` scalars
    (length-1 lists) or vectors -/
def boxSides (d : Nat) (a b : List α) : List α :=
  let k := max a.length b.length
  broadcastTo d (List.zipWith (fun y x => y - x) (broadcastTo k b) (broadcastTo k a))

/-- `qnwunif`: `weights / np.prod(np.broadcast_to(b - a, (d,)))` with
    `d = max(size n, size a, size b)`; `dn = size n` -/
def unifWeights (w a b : List α) (dn : Nat) : List α :=
  let d := max dn (max a.length b.length)
  let vol := prodL (boxSides d a b)
  w.map fun t => t / vol

/-- `qnwequi`: `(np.prod(r) / n) * np.ones(n)` -/
def equiWeights (n : Nat) (a b : List α) : List α :=
  let vol := prodL (List.zipWith (fun y x => y - x) b a)
  List.replicate n (vol / (n : α) * 1)

/-- `qnwequi`: `nodes = a + nodes * r` with `r = b - a`, applied to the rows `T` of fractional parts
    (`outer(i, j) - fix(outer(i, j))` for the N / W / H sequences, the random draws for R): row `t`
    becomes `(a_k + t_k (b_k − a_k))_k`.  The fractional parts themselves are a parameter. -/
def equiNodes (a b : List α) (T : List (List α)) : List (List α) :=
  T.map fun t => (List.range a.length).map fun k => a.getD k 0 + t.getD k 0 * (b.getD k 0 - a.getD k 0)

/-! ### _make_multidim_func: argument handling -/

/-- what `_make_multidim_func(one_d_func, n, *args)` does with its arguments: either the 1-d shortcut
    `one_d_func(n[0], *args)` (all of `n` and the `args` have size 1), or one call
    `one_d_func(n[i], *[x[i] for x in args])` per dimension after repeating the size-1 `args` `d = n.size`
    times, or an error: `IndexError` (an argument shorter than `d`, or `gridmake` of fewer than two
    arrays), `TypeError` (`ckron()` of nothing when `n` is empty). -/
inductive MDPlan (α : Type) where
  | oneD (n : Nat) (params : List α)
  | multi (calls : List (Nat × List α))
  | indexError
  | typeError
deriving Repr, DecidableEq

def multidimPlan (ns : List Nat) (args : List (List α)) : MDPlan α :=
  if ns.length = 1 ∧ args.all (fun x => x.length = 1) then
    MDPlan.oneD (ns.getD 0 0) (args.map fun x => x.getD 0 0)
  else
    let d := ns.length
    let args' := args.map fun x => if x.length = 1 then List.replicate d (x.getD 0 0) else x
    if args'.any (fun x => x.length < d) then MDPlan.indexError      -- x[i] out of range inside the loop
    else if d = 0 then MDPlan.typeError                              -- ckron() of no arrays
    else if d = 1 then MDPlan.indexError                             -- gridmake of one array
    else MDPlan.multi ((List.range d).map fun i => (ns.getD i 0, args'.map fun x => x.getD i 0))

/-! ### qnwnorm: affine image of the standard nodes -/

/-- column `j` of a matrix given by rows -/
def colOf (L : List (List α)) (j : Nat) : List α := L.map fun r => r.getD j 0

/-- one row of `nodes.dot(L) + mu` -/
def affineRow (L : List (List α)) (mu : List α) (z : List α) : List α :=
  (List.range mu.length).map fun j => dot z (colOf L j) + mu.getD j 0

/-- `nodes.dot(new_sig2) + mu` (d > 1) -/
def affineMap (L : List (List α)) (mu : List α) (Z : List (List α)) : List (List α) :=
  Z.map (affineRow L mu)

/-- `if mu is None: mu = np.zeros(d)` else `np.atleast_1d(mu)` (a size-1 `mu` is broadcast by
    the `+ mu` against the `d` columns) -/
def resolveMu (d : Nat) (mu : Option (List α)) : List α :=
  match mu with
  | none => List.replicate d 0
  | some m => broadcastTo d m

/-- `if sig2 is None: sig2 = np.eye(d)` else `np.atleast_1d(sig2).reshape(d, d)` (row-major) -/
def resolveSig2 (d : Nat) (sig2 : Option (List α)) : List (List α) :=
  match sig2 with
  | none => (List.range d).map fun i => (List.range d).map fun j => if i = j then 1 else 0
  | some flat => (List.range d).map fun i => (List.range d).map fun j => flat.getD (i * d + j) 0

/-- the nodes of `qnwnorm(n, mu, sig2)` for `d > 1` from the standard tensor nodes `Z` and the factor
    `L` of the *resolved* covariance: the shift by the resolved `mu` is applied whether or not
    `sig2` was given -/
def qnwnormNodes (d : Nat) (mu : Option (List α)) (L : List (List α)) (Z : List (List α)) : List (List α) :=
  affineMap L (resolveMu d mu) Z

/-- `nodes * new_sig2 + mu` (d = 1) -/
def affine1 (s mu : α) (z : List α) : List α := z.map fun t => t * s + mu

/-! ### the recurrences of the Gauss rules and their Newton iterations -/

def absA (x : α) : α := if x < 0 then -x else x

/-- Legendre: `for j in 1..n: p3 = p2; p2 = p1; p1 = ((2j-1) z p2 - (j-1) p3)/j`;
    state `(p1, p2)`, `rem` iterations left, next index `j`. -/
def legeLoop (z : α) : Nat → Nat → α → α → α × α
  | 0, _, p1, p2 => (p1, p2)
  | rem + 1, j, p1, p2 =>
    legeLoop z rem (j + 1) ((((2 * j - 1 : Nat) : α) * z * p1 - ((j - 1 : Nat) : α) * p2) / (j : α)) p1

/-- `(P_n(z), P_{n-1}(z))` as the code computes them -/
def legeP (n : Nat) (z : α) : α × α := legeLoop z n 1 1 0

/-- one Newton update of `_qnwlege1` at one node: returns `(z_new, pp)` -/
def legeStep (n : Nat) (z : α) : α × α :=
  let (p1, p2) := legeP n z
  let pp := (n : α) * (z * p1 - p2) / (z * z - 1)
  (z - p1 / pp, pp)

/-- the vectorised Newton loop `for its in range(maxit)` with the `np.all(|z - z1| < tol)`
    exit; returns the final `(z, pp)` per node and `its`. -/
def legeNewton (n : Nat) (tol : α) : Nat → Nat → List α → List (α × α) × Nat
  | 0, its, zs => (zs.map fun z => (z, 0), its)
  | fuel + 1, its, zs =>
    let st := zs.map (legeStep n)
    if (List.zipWith (fun z1 s => decide (absA (s.1 - z1) < tol)) zs st).all id ∨ fuel = 0 then (st, its)
    else legeNewton n tol fuel (its + 1) (st.map Prod.fst)

/-- `_qnwlege1(n, a, b)` from the starting values `z0` (`cos(pi (i+0.75)/(n+0.5))`, `i < m`);
    `none` = `ValueError("Maximum iterations")` (raised when the loop ends with `its = maxit-1`,
    converged or not). -/
def legeRule (n : Nat) (a b tol : α) (z0 : List α) : Option (List α × List α) :=
  let xm := half * (b + a)
  let xl := half * (b - a)
  let (st, its) := legeNewton n tol 100 0 z0
  if its = 99 then none
  else
    let m := z0.length
    let nodeAt := fun (k : Nat) =>
      if n - 1 - k < m then xm + xl * (st.getD (n - 1 - k) (0, 0)).1     -- nodes[-i-1] (written last)
      else xm - xl * (st.getD k (0, 0)).1
    let wAt := fun (k : Nat) =>
      let s := if k < m then st.getD k (0, 0) else st.getD (n - 1 - k) (0, 0)
      ((2 : Nat) : α) * xl / ((1 - s.1 * s.1) * s.2 * s.2)
    some ((List.range n).map nodeAt, (List.range n).map wAt)

/-- Hermite (orthonormal): `p1 = z*sqrt(2/j)*p2 - sqrt((j-1)/j)*p3`; the square roots are the
    parameter `sq j = (sqrt(2/j), sqrt((j-1)/j))`. -/
def hermLoop (sq : Nat → α × α) (z : α) : Nat → Nat → α → α → α × α
  | 0, _, p1, p2 => (p1, p2)
  | rem + 1, j, p1, p2 =>
    hermLoop sq z rem (j + 1) (z * (sq j).1 * p1 - (sq j).2 * p2) p1

/-- Laguerre: `p1 = ((2j-1+a-z) p2 - (j-1+a) p3)/j` -/
def lagLoop (a z : α) : Nat → Nat → α → α → α × α
  | 0, _, p1, p2 => (p1, p2)
  | rem + 1, j, p1, p2 =>
    lagLoop a z rem (j + 1)
      (((((2 * j - 1 : Nat) : α) + a - z) * p1 - (((j - 1 : Nat) : α) + a) * p2) / (j : α)) p1

/-- one Newton update of `_qnwgamma1`: `(z_new, pp, p2)` -/
def lagStep (n : Nat) (a z : α) : α × α × α :=
  let (p1, p2) := lagLoop a z n 1 1 0
  let pp := ((n : α) * p1 - ((n : α) + a) * p2) / z
  (z - p1 / pp, pp, p2)

/-- `while abs(z - z1) > tol and its < maxit` of `_qnwgamma1`: returns `(z, pp, p2, its)` -/
def lagNewton (n : Nat) (a tol : α) : Nat → Nat → α → α → α → α → α × α × α × Nat
  | 0, its, z, _, pp, p2 => (z, pp, p2, its)
  | fuel + 1, its, z, z1, pp, p2 =>
    if tol < absA (z - z1) ∧ its < 25 then
      let (zn, ppn, p2n) := lagStep n a z
      lagNewton n a tol fuel (its + 1) zn z ppn p2n
    else (z, pp, p2, its)

/-- Jacobi: the `for j in range(2, n+1)` loop of `_qnwbeta1`; state `(p1, p2, temp)` -/
def jacLoop (a b z : α) : Nat → Nat → α → α → α → α × α × α
  | 0, _, p1, p2, temp => (p1, p2, temp)
  | rem + 1, j, p1, p2, _ =>
    let ab := a + b
    let temp := ((2 * j : Nat) : α) + ab
    let aa := ((2 * j : Nat) : α) * ((j : α) + ab) * (temp - ((2 : Nat) : α))
    let bb := (temp - 1) * (a * a - b * b + temp * (temp - ((2 : Nat) : α)) * z)
    let c := ((2 : Nat) : α) * (((j - 1 : Nat) : α) + a) * (((j - 1 : Nat) : α) + b) * temp
    jacLoop a b z rem (j + 1) ((bb * p1 - c * p2) / aa) p1 temp

/-- one Newton update of `_qnwbeta1`: `(z_new, pp, p2, temp)` (`a`, `b` already reduced by 1) -/
def jacStep (n : Nat) (a b z : α) : α × α × α × α :=
  let ab := a + b
  let temp0 := ((2 : Nat) : α) + ab
  let p10 := (a - b + temp0 * z) / ((2 : Nat) : α)
  let (p1, p2, temp) := jacLoop a b z (n - 1) 2 p10 1 temp0
  let pp := ((n : α) * (a - b - temp * z) * p1 + ((2 : Nat) : α) * ((n : α) + a) * ((n : α) + b) * p2)
              / (temp * (1 - z * z))
  (z - p1 / pp, pp, p2, temp)

/-- the placement of the `m = ⌊(n+1)/2⌋` positive roots `zs` (largest first) and their `pp` in
    `_qnwnorm1`: `nodes[n-1-i] = z; nodes[i] = -z` (the second assignment wins at the middle of an
    odd `n`), `weights[i] = weights[n-1-i] = 2/(pp·pp)`, then `weights /= sqrt(pi)`,
    `nodes *= sqrt(2)`. -/
def hermAssemble (n : Nat) (zs pps : List α) (sqrtpi sqrt2 : α) : List α × List α :=
  let m := zs.length
  let nodeAt := fun (k : Nat) => if k < m then -(zs.getD k 0) else zs.getD (n - 1 - k) 0
  let wAt := fun (k : Nat) =>
    let pp := if k < m then pps.getD k 0 else pps.getD (n - 1 - k) 0
    ((2 : Nat) : α) / (pp * pp) / sqrtpi
  ((List.range n).map fun k => nodeAt k * sqrt2, (List.range n).map wAt)

end arith2

/-! ### line protocol -/

def showPair {β : Type} (f : β → String) (p : List β × List β) : String :=
  showList f p.1 ++ "|" ++ showList f p.2

def kvFloat (toks : List String) (key : String) : Option Float := (kv toks key).bind parseFloat?

/-- Float Newton drivers for the 1-node rules (gamma): starting value passed in. -/
def lagNode (n : Nat) (a tol z0 : Float) : Float × Float × Float × Nat :=
  lagNewton n a tol 30 0 z0 (-10000) 0 0

/-- the starting value of node `i ≥ 2` of `_qnwgamma1` (Float only: decimal constants of the code) -/
def lagStart (a z zprev : Float) (i : Nat) : Float :=
  let j : Float := Float.ofNat (i - 1)
  z + ((1 + 2.55 * j) / (1.9 * j) + 1.26 * j * a / (1 + 3.5 * j)) * (z - zprev) / (1 + 0.3 * a)

/-- all nodes of `_qnwgamma1` (`a` already reduced by 1): state = nodes and weights so far
    (in order), `rem` nodes left; `none` = `ValueError('Failure to converge')`. -/
def lagRuleLoop (n : Nat) (a tol factor : Float) : Nat → List Float → List Float → Float →
    Option (List Float × List Float)
  | 0, nodes, weights, _ => some (nodes, weights)
  | rem + 1, nodes, weights, z =>
    let i := nodes.length
    let z0 :=
      if i = 0 then (1 + a) * (3 + 0.92 * a) / (1 + 2.4 * Float.ofNat n + 1.8 * a)
      else if i = 1 then z + (15 + 6.25 * a) / (1 + 0.9 * a + 2.5 * Float.ofNat n)
      else lagStart a z (nodes.getD (i - 2) 0) i
    let (zf, pp, p2, its) := lagNode n a tol z0
    if its = 25 then none
    else lagRuleLoop n a tol factor rem (nodes ++ [zf]) (weights ++ [factor / (pp * Float.ofNat n * p2)]) zf

/-- `_qnwgamma1(n, a+1, b, tol)` with the constant `factor` (lgamma / exp) supplied -/
def lagRule (n : Nat) (a b tol factor : Float) : Option (List Float × List Float) :=
  match lagRuleLoop n a tol factor n [] [] 0 with
  | some (x, w) => some (x.map (fun t => t * b), w)
  | none => none

/-- `_qnwcheb1(n, a, b)` (Float; libm `cos`, plain left-to-right summation for the `@`) -/
def chebRule (n : Nat) (a b : Float) : List Float × List Float :=
  let pi : Float := 3.141592653589793
  let nf := Float.ofNat n
  let ls := linspace (0.5 : Float) (nf - 0.5) n
  let nodes := ls.map fun t => (b + a) / 2 - (b - a) / 2 * Float.cos (pi / nf * t)
  let t1 := (List.range n).map fun i => Float.ofNat (i + 1) - 0.5
  let K := (n + 1) / 2
  let t2 := (List.range K).map fun k => Float.ofNat (2 * k)
  let t3 := (List.range K).map fun k =>
    if k = 0 then 1.0 else -2.0 / (Float.ofNat (2 * k - 1) * Float.ofNat (2 * k + 1))
  let weights := t1.map fun u =>
    (List.zipWith (fun v c => (b - a) / nf * Float.cos (pi / nf * (u * v)) * c) t2 t3).foldl (fun s t => s + t) 0
  (nodes, weights)

/-- the Newton loop of `_qnwbeta1` at one node (Float; `a`, `b` already reduced by 1):
    `while abs(z - z1) > 1e-10 and its < 25: …; if abs(z - z1) < 1e-12: break; its += 1`;
    returns `(z, pp, p2, temp, its)`. -/
def jacNewton (n : Nat) (a b : Float) : Nat → Nat → Float → Float → Float → Float → Float →
    Float × Float × Float × Float × Nat
  | 0, its, z, _, pp, p2, temp => (z, pp, p2, temp, its)
  | fuel + 1, its, z, z1, pp, p2, temp =>
    if absA (z - z1) > 1e-10 ∧ its < 25 then
      let (zn, ppn, p2n, tempn) := jacStep n a b z
      if absA (zn - z) < 1e-12 then (zn, ppn, p2n, tempn, its)
      else jacNewton n a b fuel (its + 1) zn z ppn p2n tempn
    else (z, pp, p2, temp, its)

/-- the starting value of node `i` of `_qnwbeta1` (Float: decimal constants of the code);
    `nodes` = the nodes found so far, `z` = the previous node -/
def jacStart (n : Nat) (a b z : Float) (nodes : List Float) (i : Nat) : Float :=
  let nf := Float.ofNat n
  let n8 : Float := Float.ofInt ((n : Int) - 8)
  let n4 : Float := Float.ofInt ((n : Int) - 4)
  if i = 0 then
    let an := a / nf
    let bn := b / nf
    let r1 := (1 + a) * (2.78 / Float.ofNat (4 + n * n) + 0.768 * an / nf)
    let r2 := 1 + 1.48 * an + 0.96 * bn + 0.452 * an * an + 0.83 * an * bn
    1 - r1 / r2
  else if i = 1 then
    let r1 := (4.1 + a) / ((1 + a) * (1 + 0.156 * a))
    let r2 := 1 + 0.06 * n8 * (1 + 0.12 * a) / nf
    let r3 := 1 + 0.012 * b * (1 + 0.25 * absA a) / nf
    z - (1 - z) * r1 * r2 * r3
  else if i = 2 then
    let r1 := (1.67 + 0.28 * a) / (1 + 0.37 * a)
    let r2 := 1 + 0.22 * n8 / nf
    let r3 := 1 + 8 * b / ((6.28 + b) * nf * nf)
    z - (nodes.getD 0 0 - z) * r1 * r2 * r3
  else if i + 2 = n then
    let r1 := (1 + 0.235 * b) / (0.766 + 0.119 * b)
    let r2 := 1 / (1 + 0.639 * n4 / (1 + 0.71 * n4))
    let r3 := 1 / (1 + 20 * a / ((7.5 + a) * nf * nf))
    z + (z - nodes.getD (n - 4) 0) * r1 * r2 * r3
  else if i + 1 = n then
    let r1 := (1 + 0.37 * b) / (1.67 + 0.28 * b)
    let r2 := 1 / (1 + 0.22 * n8 / nf)
    let r3 := 1 / (1 + 8 * a / ((6.28 + a) * nf * nf))
    z + (z - nodes.getD (n - 3) 0) * r1 * r2 * r3
  else 3 * nodes.getD (i - 1) 0 - 3 * nodes.getD (i - 2) 0 + nodes.getD (i - 3) 0

def jacRuleLoop (n : Nat) (a b : Float) : Nat → List Float → List Float → Float →
    Option (List Float × List Float)
  | 0, nodes, weights, _ => some (nodes, weights)
  | rem + 1, nodes, weights, z =>
    let i := nodes.length
    let z0 := jacStart n a b z nodes i
    let (zf, pp, p2, temp, its) := jacNewton n a b 30 0 z0 (-100) 0 0 0
    if its = 25 then none
    else jacRuleLoop n a b rem (nodes ++ [zf]) (weights ++ [temp / (pp * p2)]) zf

/-- `_qnwbeta1(n, a+1, b+1)` with the two normalising constants (lgamma / exp) supplied:
    `weights * c1 / c2`, `nodes = (1 - z)/2`; `none` = `ValueError("Max Iteration reached")` -/
def jacRule (n : Nat) (a b c1 c2 : Float) : Option (List Float × List Float) :=
  match jacRuleLoop n a b n [] [] 0 with
  | some (x, w) => some (x.map (fun t => (1 - t) / 2), w.map (fun t => t * c1 / c2))
  | none => none

/-- the `while its < maxit` loop of `_qnwnorm1` at one node (Float): returns `(z, pp, its)` -/
def hermNewton (n : Nat) (pim4 tol : Float) : Nat → Nat → Float → Float → Float × Float × Nat
  | 0, its, z, pp => (z, pp, its)
  | fuel + 1, its, z, _ =>
    let sq : Nat → Float × Float := fun j =>
      (Float.sqrt (2.0 / Float.ofNat j), Float.sqrt ((Float.ofNat j - 1.0) / Float.ofNat j))
    let (p1, p2) := hermLoop sq z n 1 pim4 0
    let pp := Float.sqrt (Float.ofNat (2 * n)) * p2
    let zn := z - p1 / pp
    if absA (zn - z) < tol then (zn, pp, its + 1) else hermNewton n pim4 tol fuel (its + 1) zn pp

/-- `_qnwnorm1(n)` (Float): the positive roots found so far (largest first) and their `pp`;
    `none` = `ValueError("Failed to converge")`. Constants `pim4 = 1/pi**0.25`, `sqrt(pi)` supplied. -/
def hermRuleLoop (n : Nat) (pim4 tol : Float) : Nat → List Float → List Float → Float →
    Option (List Float × List Float)
  | 0, zs, pps, _ => some (zs, pps)
  | rem + 1, zs, pps, z =>
    let i := zs.length
    let nf := Float.ofNat n
    -- nodes[k] = -zs[k]
    let z0 :=
      if i = 0 then Float.sqrt (Float.ofNat (2 * n + 1)) - 1.85575 * Float.pow (Float.ofNat (2 * n + 1)) (-1 / 6.1)
      else if i = 1 then z - 1.14 * Float.pow nf 0.426 / z
      else if i = 2 then 1.86 * z + 0.86 * (-(zs.getD 0 0))
      else if i = 3 then 1.91 * z + 0.91 * (-(zs.getD 1 0))
      else 2 * z + (-(zs.getD (i - 2) 0))
    let (zf, pp, its) := hermNewton n pim4 tol 100 0 z0 0
    if its = 100 then none
    else hermRuleLoop n pim4 tol rem (zs ++ [zf]) (pps ++ [pp]) zf

def hermRule (n : Nat) (pim4 sqrtpi tol : Float) : Option (List Float × List Float) :=
  let m := (n + 1) / 2
  match hermRuleLoop n pim4 tol m [] [] 0 with
  | none => none
  | some (zs, pps) => some (hermAssemble n zs pps sqrtpi (Float.sqrt 2.0))

def handle (toks : List String) : String :=
  match toks with
  | "trap" :: r =>
    match kvNat r "n", kvRat r "a", kvRat r "b" with
    | some n, some a, some b =>
      match trapRule n a b with
      | some p => showPair showRat p
      | none => "ERR:ValueError"
    | _, _, _ => "bad-op"
  | "trapf" :: r =>
    match kvNat r "n", kvFloat r "a", kvFloat r "b" with
    | some n, some a, some b =>
      match trapRule n a b with
      | some p => showPair showFloatBits p
      | none => "ERR:ValueError"
    | _, _, _ => "bad-op"
  | "simp" :: r =>
    match kvNat r "n", kvRat r "a", kvRat r "b" with
    | some n, some a, some b => showPair showRat (simpRule n a b)
    | _, _, _ => "bad-op"
  | "simpf" :: r =>
    match kvNat r "n", kvFloat r "a", kvFloat r "b" with
    | some n, some a, some b => showPair showFloatBits (simpRule n a b)
    | _, _, _ => "bad-op"
  | "gridmake" :: r =>
    match kvRatMat r "arrs" with
    | some arrs =>
      match gridmake arrs with
      | some g => showMat showRat g
      | none => "ERR:IndexError"
    | _ => "bad-op"
  | "ckron" :: r =>
    match kvRatMat r "arrs" with
    | some arrs =>
      match ckron arrs with
      | some w => showList showRat w
      | none => "ERR:TypeError"
    | _ => "bad-op"
  | "tensorf" :: r =>
    match kvFloatMat r "nodes", kvFloatMat r "weights" with
    | some nodes, some weights =>
      match tensorRule nodes weights with
      | some (g, w) => showMat showFloatBits g ++ "|" ++ showList showFloatBits w
      | none => "ERR:IndexError"
    | _, _ => "bad-op"
  | "unifw" :: r =>
    match kvFloats r "w", kvFloats r "a", kvFloats r "b", kvNat r "dn" with
    | some w, some a, some b, some dn => showList showFloatBits (unifWeights w a b dn)
    | _, _, _, _ => "bad-op"
  | "equiw" :: r =>
    match kvNat r "n", kvFloats r "a", kvFloats r "b" with
    | some n, some a, some b => showList showFloatBits (equiWeights n a b)
    | _, _, _ => "bad-op"
  | "mdplan" :: r =>
    match kvNats r "n", kvRatMat r "args" with
    | some ns, some args =>
      match multidimPlan ns args with
      | MDPlan.oneD n ps => "1d " ++ toString n ++ ":" ++ showList showRat ps
      | MDPlan.multi calls => "multi " ++ ";".intercalate (calls.map fun c => toString c.1 ++ ":" ++ showList showRat c.2)
      | MDPlan.indexError => "ERR:IndexError"
      | MDPlan.typeError => "ERR:TypeError"
    | _, _ => "bad-op"
  | "equinodes" :: r =>
    match kvFloats r "a", kvFloats r "b", kvFloatMat r "T" with
    | some a, some b, some T => showMat showFloatBits (equiNodes a b T)
    | _, _, _ => "bad-op"
  | "quad" :: r =>
    match kvRats r "w", kvRats r "fx" with
    | some w, some fx => showRat (dot w fx)
    | _, _ => "bad-op"
  | "affine" :: r =>
    match kvRatMat r "L", kvRats r "mu", kvRatMat r "Z" with
    | some L, some mu, some Z => showMat showRat (affineMap L mu Z)
    | _, _, _ => "bad-op"
  | "normnodes" :: r =>
    -- mu=none | list; L = factor of the resolved covariance; d=1: Z is one column
    match kvNat r "d", kv r "mu", kvRatMat r "L", kvRatMat r "Z" with
    | some d, some mus, some L, some Z =>
      let mu? : Option (Option (List Rat)) :=
        if mus = "none" then some none else (parseList? parseRat? mus).map some
      match mu? with
      | some mu => showMat showRat (qnwnormNodes d mu L Z)
      | none => "bad-op"
    | _, _, _, _ => "bad-op"
  | "sig2" :: r =>
    match kvNat r "d", kv r "sig2" with
    | some d, some ss =>
      let s? : Option (Option (List Rat)) :=
        if ss = "none" then some none else (parseList? parseRat? ss).map some
      match s? with
      | some sg => showMat showRat (resolveSig2 d sg)
      | none => "bad-op"
    | _, _ => "bad-op"
  | "affine1" :: r =>
    match kvRat r "s", kvRat r "mu", kvRats r "z" with
    | some s, some mu, some z => showList showRat (affine1 s mu z)
    | _, _, _ => "bad-op"
  | "lege" :: r =>
    match kvNat r "n", kvFloat r "a", kvFloat r "b", kvFloat r "tol", kvFloats r "z0" with
    | some n, some a, some b, some tol, some z0 =>
      match legeRule n a b tol z0 with
      | some p => showPair showFloatBits p
      | none => "ERR:ValueError"
    | _, _, _, _, _ => "bad-op"
  | "legep" :: r =>
    match kvNat r "n", kvRat r "z" with
    | some n, some z => let p := legeP n z; showRat p.1 ++ "|" ++ showRat p.2
    | _, _ => "bad-op"
  | "lagp" :: r =>
    match kvNat r "n", kvRat r "a", kvRat r "z" with
    | some n, some a, some z => let p := lagLoop a z n 1 1 0; showRat p.1 ++ "|" ++ showRat p.2
    | _, _, _ => "bad-op"
  | "jacp" :: r =>
    match kvNat r "n", kvRat r "a", kvRat r "b", kvRat r "z" with
    | some n, some a, some b, some z =>
      let ab := a + b
      let t0 : Rat := 2 + ab
      let p := jacLoop a b z (n - 1) 2 ((a - b + t0 * z) / 2) 1 t0
      showRat p.1 ++ "|" ++ showRat p.2.1
    | _, _, _, _ => "bad-op"
  | "norm1" :: r =>
    match kvNat r "n", kvFloat r "pim4", kvFloat r "sqrtpi", kvFloat r "tol" with
    | some n, some pim4, some sqrtpi, some tol =>
      match hermRule n pim4 sqrtpi tol with
      | some p => showPair showFloatBits p
      | none => "ERR:ValueError"
    | _, _, _, _ => "bad-op"
  | "cheb" :: r =>
    match kvNat r "n", kvFloat r "a", kvFloat r "b" with
    | some n, some a, some b => showPair showFloatBits (chebRule n a b)
    | _, _, _ => "bad-op"
  | "beta" :: r =>
    match kvNat r "n", kvFloat r "a", kvFloat r "b", kvFloat r "c1", kvFloat r "c2" with
    | some n, some a, some b, some c1, some c2 =>
      match jacRule n a b c1 c2 with
      | some p => showPair showFloatBits p
      | none => "ERR:ValueError"
    | _, _, _, _, _ => "bad-op"
  | "gamma" :: r =>
    match kvNat r "n", kvFloat r "a", kvFloat r "b", kvFloat r "tol", kvFloat r "factor" with
    | some n, some a, some b, some tol, some factor =>
      match lagRule n a b tol factor with
      | some p => showPair showFloatBits p
      | none => "ERR:ValueError"
    | _, _, _, _, _ => "bad-op"
  | "gammanode" :: r =>
    match kvNat r "n", kvFloat r "a", kvFloat r "tol", kvFloat r "z0" with
    | some n, some a, some tol, some z0 =>
      let (z, pp, p2, its) := lagNode n a tol z0
      showFloatBits z ++ "|" ++ showFloatBits pp ++ "|" ++ showFloatBits p2 ++ "|" ++ toString its
    | _, _, _, _ => "bad-op"
  | _ => "bad-op"

end QE.C08
