/-
  QEModel.C12 — executable model for property C12 (stub; to be filled in).
-/
import QEModel.Base
namespace QE.C12

def handle (_toks : List String) : String := "bad-op"

end QE.C12
