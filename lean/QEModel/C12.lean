/-
  QEModel.C12 — Kalman filter (quantecon/_kalman.py) and linear state space
  moments / simulation (quantecon/_lss.py).

  Mirrors
  * `Kalman.prior_to_filtered` (lines 181-212): `priorToFiltered`
    (`E = Σ G'`, `F = (G Σ) G' + H H'`, `M = E inv(F)`, `x̂ + M (y − G x̂)`,
    `Σ − M (G Σ)`); `Kalman.filtered_to_forecast` (214-227): `filteredToForecast`
    (`A x̂`, `A (Σ A') + C C'`); `Kalman.update` (229-242): `update`; a whole
    observation record: `kalmanRun` / `kalmanTrace` (state machine);
    `Kalman.stationary_values` (243-278) after the Riccati solve:
    `stationaryGain` (`K = (A Σ∞) G' inv(G (Σ∞ G') + R)`); Σ∞ itself is an input
    (the Riccati solver is property C06's subject). The instance with its cache
    `_Sigma_infinity` / `_K_infinity` is `KObj`; a history of public calls on one instance is
    `objRun` / `objTrace` over `KOp` (only `stat` writes the cache, nothing reads it).
  * `simulate_linear_model` (`_lss.py` 14-59): `simCol` is the body of the
    `for i … for j` double loop with the code's accumulation order
    (`x[i,t+1] = v[i,t]; x[i,t+1] += A[i,j] x[j,t]`), `simCols` the `for t` loop,
    `simulateLinear` the returned `n × ts_length` array.
  * `LinearStateSpace.simulate` (155-196) / `replicate` (198-238) for the draws
    actually made (`x0`, `w`, `v` are inputs): `simulate`, `replicate`.
  * `moment_sequence` (240-282): `momentState` / `momentOut` / `momentSeq`.
  * `stationary_distributions` (280-336, after fix f83dcdb: `μ = solve(I − A22, A21 @ mu_0[const])`)
    with `__partition` (410-467):
    `isConstRow` (the three tests), `sortedIdx` (`insert(0, idx)` / `append`),
    `permMat`, `partition`, `stationaryDist`. `scipy.linalg.solve` and the
    Bartels–Stewart Lyapunov solver are parameters `sol`, `lyap`.
  * `LinearStateSpace.__init__` (102-133): `lssCtor` (shape checks in order, defaults, reshape of
    `mu_0`); `Kalman.stationary_coefficients` (`_kalman.py` 280-314): `coefState`,
    `stationaryCoefficients`.
  * `geometric_sums` (338-370): `geometricSums`; `impulse_response` (372-408):
    `impulseState` / `impulseResponse`.
  `scipy.linalg.inv` / `solve` are parameters; the driver instantiates them with
  the exact Gauss–Jordan of `MatAlg`, the Lyapunov parameter with the exact
  solution of the vectorised equation (`lyapExact`).
  `np.linalg.norm(row) == 1` is modelled as `Σ_j row_j² == 1` (equivalent in
  exact arithmetic).
-/
import QEModel.MatAlg
namespace QE.C12
open QE QE.MatAlg

section generic
variable {α : Type} [Zero α] [One α] [Add α] [Sub α] [Mul α] [Div α] [Neg α] [BEq α]

/-! ### Kalman filter -/

/-- the pair `(x_hat, Sigma)` held by a `Kalman` instance -/
structure KState (α : Type) where
  xhat : M α
  sigma : M α

/-- `prior_to_filtered(y)`, lines 201-212. `none` = `inv` raised (LinAlgError). -/
def priorToFiltered (inv : M α → Option (M α)) (G H : M α) (s : KState α) (y : M α) :
    Option (KState α) :=
  let R := mmul H (mT H)
  let E := mmul s.sigma (mT G)
  let F := madd (mmul (mmul G s.sigma) (mT G)) R
  match inv F with
  | none => none
  | some Fi =>
    let Mg := mmul E Fi
    some ⟨madd s.xhat (mmul Mg (msub y (mmul G s.xhat))),
          msub s.sigma (mmul Mg (mmul G s.sigma))⟩

/-- `filtered_to_forecast()`, lines 221-227 -/
def filteredToForecast (A C : M α) (s : KState α) : KState α :=
  ⟨mmul A s.xhat, madd (mmul A (mmul s.sigma (mT A))) (mmul C (mT C))⟩

/-- `update(y)`, lines 241-242 -/
def update (inv : M α → Option (M α)) (A C G H : M α) (s : KState α) (y : M α) :
    Option (KState α) :=
  (priorToFiltered inv G H s y).map (filteredToForecast A C)

/-- `update` along a whole observation record -/
def kalmanRun (inv : M α → Option (M α)) (A C G H : M α) : KState α → List (M α) → Option (KState α)
  | s, [] => some s
  | s, y :: ys =>
    match update inv A C G H s y with
    | none => none
    | some s1 => kalmanRun inv A C G H s1 ys

/-- the states after each observation (for the driver); stops at the first failure -/
def kalmanTrace (inv : M α → Option (M α)) (A C G H : M α) :
    KState α → List (M α) → List (KState α) × Bool
  | _, [] => ([], true)
  | s, y :: ys =>
    match update inv A C G H s y with
    | none => ([], false)
    | some s1 =>
      let r := kalmanTrace inv A C G H s1 ys
      (s1 :: r.1, r.2)

/-- lines 271-273: `K∞ = (A Σ∞) G' inv(G (Σ∞ G') + R)` -/
def stationaryGain (inv : M α → Option (M α)) (A G H Sig : M α) : Option (M α) :=
  let R := mmul H (mT H)
  let temp1 := mmul (mmul A Sig) (mT G)
  match inv (madd (mmul G (mmul Sig (mT G))) R) with
  | none => none
  | some temp2 => some (mmul temp1 temp2)

/-- `stationary_innovation_covar`: `G (Σ∞ G') + R` -/
def innovationCovar (G H Sig : M α) : M α :=
  madd (mmul G (mmul Sig (mT G))) (mmul H (mT H))

/-! ### the Kalman object with its cached stationary values -/

/-- a `Kalman` instance: the state `(x_hat, Sigma)` and the cache `_Sigma_infinity`, `_K_infinity`
    (`None` until `stationary_values` has run) -/
structure KObj (α : Type) where
  st : KState α
  sigInf : Option (M α)
  kInf : Option (M α)

/-- the public operations on one instance. `stat Sig`: `stationary_values()` whose Riccati solve
    returned `Sig` (also what the `K_infinity` / `Sigma_infinity` properties, `whitener_lss`,
    `stationary_coefficients`, `stationary_innovation_covar` trigger on first use). -/
inductive KOp (α : Type) where
  | stat (Sig : M α)
  | setState (x S : M α)
  | p2f (y : M α)
  | f2f
  | update (y : M α)

/-- one call; `none` = `inv` raised. Only `stat` writes the cache, and nothing reads it
    (`update` is lines 241-242: `prior_to_filtered(y); filtered_to_forecast()`). -/
def objStep (inv : M α → Option (M α)) (A C G H : M α) (o : KObj α) : KOp α → Option (KObj α)
  | .stat Sig => (stationaryGain inv A G H Sig).map fun K => { o with sigInf := some Sig, kInf := some K }
  | .setState x S => some { o with st := ⟨x, S⟩ }
  | .p2f y => (priorToFiltered inv G H o.st y).map fun s => { o with st := s }
  | .f2f => some { o with st := filteredToForecast A C o.st }
  | .update y => (update inv A C G H o.st y).map fun s => { o with st := s }

/-- a whole history of calls on one instance -/
def objRun (inv : M α → Option (M α)) (A C G H : M α) : KObj α → List (KOp α) → Option (KObj α)
  | o, [] => some o
  | o, op :: ops =>
    match objStep inv A C G H o op with
    | none => none
    | some o1 => objRun inv A C G H o1 ops

/-- the objects after each call (for the driver); stops at the first failure -/
def objTrace (inv : M α → Option (M α)) (A C G H : M α) : KObj α → List (KOp α) → List (KObj α) × Bool
  | _, [] => ([], true)
  | o, op :: ops =>
    match objStep inv A C G H o op with
    | none => ([], false)
    | some o1 =>
      let r := objTrace inv A C G H o1 ops
      (o1 :: r.1, r.2)

/-! ### the jitted simulation kernel -/

/-- one pass of the `for i` loop: column `t+1` from column `t` (`x`, `n × 1`) and
    the shock column `v[:, t]`; accumulation in the code's order -/
def simCol (A x v : M α) (t : Nat) : M α :=
  M.tab A.nr 1 fun i _ =>
    (List.range A.nr).foldl (fun acc j => acc + A.get i j * x.get j 0) (v.get i t)

/-- column `t` of the simulated path -/
def simCols (A x0 v : M α) : Nat → M α
  | 0 => x0
  | t + 1 => simCol A (simCols A x0 v t) v t

/-- `simulate_linear_model(A, x0, v, ts_length)`, `ts_length ≥ 1`: the `n × ts` array whose
    column `t` is `simCols … t` -/
def simulateLinear (A x0 v : M α) (ts : Nat) : M α :=
  M.tab A.nr ts fun i t => (simCols A x0 v t).get i 0

/-- `simulate(ts_length)` on the draws `x0` (`n × 1`), `w` (`m × (ts-1)`),
    `v2` (`l × ts`, read only when `H` is present) -/
def simulate (A C G : M α) (H : Option (M α)) (x0 w v2 : M α) (ts : Nat) : M α × M α :=
  let v := mmul C w
  let x := simulateLinear A x0 v ts
  let y := match H with
    | some H => madd (mmul G x) (mmul H v2)
    | none => mmul G x
  (x, y)

/-- `replicate(T, num_reps)`: `draws` are the `(x0, w)` of the successive
    `simulate(ts_length=T+1)` calls, `v2` the final `l × num_reps` draw -/
def replicate (A C G : M α) (H : Option (M α)) (draws : List (M α × M α)) (v2 : M α) (T : Nat) :
    M α × M α :=
  let cols := draws.map fun d => simCols A d.1 (mmul C d.2) T
  let x := M.tab A.nr draws.length fun i j => (cols.getD j (zero 0 0)).get i 0
  let y := match H with
    | some H => madd (mmul G x) (mmul H v2)
    | none => mmul G x
  (x, y)

/-! ### moment sequence -/

/-- `(mu_x, Sigma_x)` after `t` passes of lines 280-282 -/
def momentState (A C mu0 Sig0 : M α) : Nat → M α × M α
  | 0 => (mu0, Sig0)
  | t + 1 =>
    let s := momentState A C mu0 Sig0 t
    (mmul A s.1, madd (mmul (mmul A s.2) (mT A)) (mmul C (mT C)))

structure Mom (α : Type) where
  mux : M α
  muy : M α
  sigx : M α
  sigy : M α

/-- lines 272-278: the tuple yielded for the current `(mu_x, Sigma_x)` -/
def momentOut (G : M α) (H : Option (M α)) (s : M α × M α) : Mom α :=
  let gsg := mmul (mmul G s.2) (mT G)
  ⟨s.1, mmul G s.1, s.2, match H with
    | some H => madd gsg (mmul H (mT H))
    | none => gsg⟩

/-- the first `k` tuples of the generator -/
def momentSeq (A C G : M α) (H : Option (M α)) (mu0 Sig0 : M α) (k : Nat) : List (Mom α) :=
  (List.range k).map fun t => momentOut G H (momentState A C mu0 Sig0 t)

/-! ### the LinearStateSpace object -/

/-- a `LinearStateSpace` instance: nothing but its attributes (no cache is read by the methods of
    this property; `stationary_distributions` stores its results but never reads them back) -/
structure LObj (α : Type) where
  A : M α
  C : M α
  G : M α
  H : Option (M α)
  mu0 : M α
  Sig0 : M α

/-- attribute reassignments / in-place edits (the new value of the attribute), and `query`: any of
    `moment_sequence`, `stationary_distributions`, `geometric_sums`, `impulse_response`, `simulate`,
    `replicate`, whose answers are the functions above applied to the current attributes -/
inductive LOp (α : Type) where
  | setA (X : M α)
  | setC (X : M α)
  | setG (X : M α)
  | setH (X : Option (M α))
  | setMu0 (X : M α)
  | setSig0 (X : M α)
  | query

def lssStep (o : LObj α) : LOp α → LObj α
  | .setA X => { o with A := X }
  | .setC X => { o with C := X }
  | .setG X => { o with G := X }
  | .setH X => { o with H := X }
  | .setMu0 X => { o with mu0 := X }
  | .setSig0 X => { o with Sig0 := X }
  | .query => o

def lssRun (o : LObj α) (ops : List (LOp α)) : LObj α := ops.foldl lssStep o

/-- the moment tuples an instance yields -/
def LObj.moments (o : LObj α) (k : Nat) : List (Mom α) := momentSeq o.A o.C o.G o.H o.mu0 o.Sig0 k

/-! ### the constructor's argument handling (`_lss.py` 102-133) -/

inductive CtorOut (α : Type) where
  /-- the instance, with `n`, `m`, `k` and `l` (`None` without `H`) -/
  | ok (o : LObj α) (n m k : Nat) (l : Option Nat)
  /-- `ValueError`; `which` = 1: `A` not square (line 107), 2: `C` has the wrong number of rows (110),
      3: `G` has the wrong number of columns (115), 4: `mu_0` cannot be reshaped to `n × 1` (129) -/
  | valueError (which : Nat)

/-- `np.reshape`-in-place of a converted `mu_0` to `(n, 1)`: row-major order -/
def reshapeCol (X : M α) (n : Nat) : M α := M.tab n 1 fun i _ => X.get (i / X.nc) (i % X.nc)

/-- `LinearStateSpace.__init__` on 2-D inputs: the three shape checks in the code's order, the
    defaults `mu_0 = zeros((n,1))`, `Sigma_0 = zeros((n,n))`, `H = None`, and NO check on the
    shapes of `H` and `Sigma_0` -/
def lssCtor (A C G : M α) (H mu0 Sig0 : Option (M α)) : CtorOut α :=
  if A.nr ≠ A.nc then .valueError 1
  else if A.nr ≠ C.nr then .valueError 2
  else if G.nc ≠ A.nr then .valueError 3
  else
    let n := A.nr
    let S0 : M α := match Sig0 with | some S => S | none => zero n n
    match mu0 with
    | none => .ok ⟨A, C, G, H, zero n 1, S0⟩ n C.nc G.nr (H.map (·.nc))
    | some mu =>
      if mu.nr * mu.nc ≠ n then .valueError 4
      else .ok ⟨A, C, G, H, reshapeCol mu n, S0⟩ n C.nc G.nr (H.map (·.nc))

/-! ### `Kalman.stationary_coefficients` (`_kalman.py` 280-314) -/

inductive CoefType where
  | ma
  | var

/-- `(P, coeffs)` after `i` passes of the `while i <= j` loop, started from `(P0, [c0])` -/
def coefState (G K Pmat P0 c0 : M α) : Nat → M α × List (M α)
  | 0 => (P0, [c0])
  | i + 1 =>
    let st := coefState G K Pmat P0 c0 i
    (mmul st.1 Pmat, st.2 ++ [mmul (mmul G st.1) K])

/-- `stationary_coefficients(j, coeff_type)` given `K_infinity`: `'ma'` starts from
    `(I_k, P_mat = A, P = I_n)`, `'var'` from `(G K, P_mat = A − K G, P = P_mat)`;
    an unknown type is the `ValueError` handled by the driver -/
def stationaryCoefficients (A G K : M α) (ty : CoefType) (j : Nat) : List (M α) :=
  match ty with
  | .ma => (coefState G K A (ident A.nr) (ident G.nr) j).2
  | .var =>
    let Pm := msub A (mmul K G)
    (coefState G K Pm Pm (mmul G K) j).2

/-! ### impulse response, geometric sums -/

/-- `(Apower, xcoef, ycoef)` after `i` passes of the loop of lines 403-406 -/
def impulseState (A C G : M α) : Nat → M α × List (M α) × List (M α)
  | 0 => (A, [C], [mmul G C])
  | i + 1 =>
    let st := impulseState A C G i
    (mmul st.1 A, st.2.1 ++ [mmul st.1 C], st.2.2 ++ [mmul G (mmul st.1 C)])

def impulseResponse (A C G : M α) (j : Nat) : List (M α) × List (M α) :=
  (impulseState A C G j).2

/-- lines 367-369 (`S_x = solve(I − βA, x_t)`, `S_y = G S_x`); `none` = `solve` raised -/
def geometricSums (sol : M α → M α → Option (M α)) (A G : M α) (beta : α) (x : M α) :
    Option (M α × M α) :=
  (sol (msub (ident A.nr) (smul beta A)) x).map fun S => (S, mmul G S)

/-! ### stationary distributions with the constant-state partition -/

/-- lines 447-448: the three tests that make state `idx` "constant" -/
def isConstRow (A C : M α) (idx : Nat) : Bool :=
  (A.get idx idx == 1) && (List.range C.nc).all (fun j => C.get idx j == 0) &&
    (sumRange A.nc (fun j => A.get idx j * A.get idx j) == 1)

/-- lines 443-454: `(sorted_idx, num_const)` -/
def sortedIdx (A C : M α) : List Nat × Nat :=
  (List.range A.nr).foldl (fun (acc : List Nat × Nat) idx =>
    if isConstRow A C idx then (idx :: acc.1, acc.2 + 1) else (acc.1 ++ [idx], acc.2)) ([], 0)

/-- lines 456-457: `P[range(n), sorted_idx] = 1` -/
def permMat (n : Nat) (idx : List Nat) : M α :=
  M.tab n n fun i j => if idx.getD i n = j then 1 else 0

/-- rows `r0 …`, columns `c0 …` of `X` (NumPy slices `X[r0:, c0:c1]`) -/
def block (X : M α) (r0 nr c0 nc : Nat) : M α :=
  M.tab nr nc fun i j => X.get (r0 + i) (c0 + j)

structure Part (α : Type) where
  numConst : Nat
  idx : List Nat
  P : M α
  A21 : M α
  A22 : M α
  C2 : M α

/-- `__partition`, lines 437-467 -/
def partition (A C : M α) : Part α :=
  let n := A.nr
  let si := sortedIdx A C
  let nc := si.2
  let P : M α := permMat n si.1
  let sA := mmul (mmul P A) (mT P)
  let sC := mmul P C
  ⟨nc, si.1, P, block sA nc (n - nc) 0 nc, block sA nc (n - nc) nc (n - nc), block sC nc (n - nc) 0 C.nc⟩

inductive StatOut (α : Type) where
  | ok (mux muy sigx sigy sigyx : M α)
  /-- `solve` / the Lyapunov solver raised -/
  | linalg

/-- `stationary_distributions`, lines 302-336 -/
def stationaryDist (sol lyap : M α → M α → Option (M α)) (A C G : M α) (H : Option (M α))
    (mu0 : M α) : StatOut α :=
  let n := A.nr
  let p := partition A C
  let nc := p.numConst
  let CC2 := mmul p.C2 (mT p.C2)
  -- line 311: `A21 @ mu_0[sorted_idx[:num_const]]` (the constant states keep their initial values)
  let muc : M α := M.tab nc 1 fun i _ => mu0.get (p.idx.getD i n) 0
  let rhs : M α := if nc > 0 then mmul p.A21 muc else zero n 1
  match sol (msub (ident (n - nc)) p.A22) rhs with
  | none => .linalg
  | some mu =>
    match lyap p.A22 CC2 with
    | none => .linalg
    | some Sg =>
      let mux0 : M α := M.tab n 1 fun i _ =>
        if i < nc then mu0.get (p.idx.getD i n) 0 else mu.get (i - nc) 0
      let sig0 : M α := M.tab n n fun i j =>
        if nc ≤ i ∧ nc ≤ j then Sg.get (i - nc) (j - nc) else 0
      let mux := mmul (mT p.P) mux0
      let sigx := mmul (mmul (mT p.P) sig0) p.P
      let muy := mmul G mux
      let gsg := mmul (mmul G sigx) (mT G)
      let sigy := match H with
        | some H => madd gsg (mmul H (mT H))
        | none => gsg
      .ok mux muy sigx sigy (mmul G sigx)

/-- exact solution of `X = A X A' + B` through the vectorised system
    `(I − A ⊗ A) vec X = vec B` (stands for the Bartels–Stewart call) -/
def lyapExact (A B : M α) : Option (M α) :=
  let n := A.nr
  let N := n * n
  let K : M α := M.tab N N fun p q =>
    (if p = q then (1 : α) else 0) - A.get (p / n) (q / n) * A.get (p % n) (q % n)
  let b : M α := M.tab N 1 fun p _ => B.get (p / n) (p % n)
  (solve K b).map fun X => M.tab n n fun i j => X.get (i * n + j) 0

end generic

/-! ### driver -/

local instance : Zero Float := ⟨0.0⟩
local instance : One Float := ⟨1.0⟩

def matOf {β : Type} (rs : List (List β)) : M β := M.ofRows rs

/-- all rows have the same positive length -/
def rect {β : Type} (rs : List (List β)) : Bool :=
  !rs.isEmpty && rs.all (fun r => r.length == (rs.headD []).length) && (rs.headD []).length > 0

def dims {β : Type} (rs : List (List β)) (n m : Nat) : Bool :=
  rs.length == n && rs.all (fun r => r.length == m)

def ncols {β : Type} (rs : List (List β)) : Nat := (rs.headD []).length

/-- floor(q·2^96)/2^96, printed as `p/q` -/
def showApprox (q : Rat) : String :=
  let s : Nat := 2 ^ 96
  let z : Int := (q.num * (s : Int)) / (q.den : Int)
  showRat ((z : Rat) / (s : Rat))

def showA (X : M Rat) : String := showMat showApprox X.toRows
def showE (X : M Rat) : String := showMat showRat X.toRows
def showF (X : M Float) : String := showMat showFloatBits X.toRows

/-- column vector from a list -/
def colOf {β : Type} (v : List β) : M β := M.ofRows (v.map fun e => [e])

def showStates (ss : List (KState Rat)) : String :=
  " ".intercalate (ss.zipIdx.map fun (s, t) => s!"x{t}={showA s.xhat} S{t}={showA s.sigma}")

def showMats (pre : String) (f : M Rat → String) (l : List (M Rat)) : String :=
  " ".intercalate (l.zipIdx.map fun (X, t) => s!"{pre}{t}={f X}")

/-- optional `H`: key absent or `H=none` means `None` -/
def optH (r : List String) : Option (Option (List (List Rat))) :=
  match kv r "H" with
  | none => some none
  | some "none" => some none
  | some _ => (kvRatMat r "H").map some

/-- shapes of a state space model `A n×n, C n×m, G k×n, H k×l` -/
def ssOk (A C G : List (List Rat)) (H : Option (List (List Rat))) : Bool :=
  let n := A.length
  rect A && dims A n n && rect C && C.length == n && rect G && ncols G == n &&
    (match H with | none => true | some H => rect H && H.length == G.length)

/-- split a flat list into rows of length `m` -/
def chunk {β : Type} (m : Nat) : Nat → List β → List (List β)
  | 0, _ => []
  | r + 1, l => l.take m :: chunk m r (l.drop m)

def handle (toks : List String) : String :=
  match toks with
  | "kalman" :: r =>
    -- mode=update: the whole record through update(); mode=p2f / f2f: one call of the half step
    match kvRatMat r "A", kvRatMat r "C", kvRatMat r "G", kvRatMat r "H", kvRats r "x", kvRatMat r "S",
          kvRatMat r "ys", kv r "mode" with
    | some A, some C, some G, some H, some x, some S, some ys, some mode =>
      let n := A.length
      let k := G.length
      if ssOk A C G (some H) && x.length == n && dims S n n && ys.all (fun y => y.length == k) then
        let s0 : KState Rat := ⟨colOf x, matOf S⟩
        if mode == "update" then
          let tr := kalmanTrace inv (matOf A) (matOf C) (matOf G) (matOf H) s0 (ys.map colOf)
          if tr.2 then s!"ok {showStates tr.1}"
          else s!"ERR:LinAlgError step={tr.1.length} {showStates tr.1}"
        else if mode == "p2f" then
          match ys with
          | [y] =>
            match priorToFiltered inv (matOf G) (matOf H) s0 (colOf y) with
            | some s => s!"ok {showStates [s]}"
            | none => "ERR:LinAlgError step=0 "
          | _ => "bad-op"
        else if mode == "f2f" then
          s!"ok {showStates [filteredToForecast (matOf A) (matOf C) s0]}"
        else "bad-op"
      else "bad-op"
    | _, _, _, _, _, _, _, _ => "bad-op"
  | "history" :: r =>
    -- a sequence of calls on ONE Kalman instance: op<i> in {stat,set,p2f,f2f,update} with Sg<i> / x<i>,S<i> / y<i>
    match kvRatMat r "A", kvRatMat r "C", kvRatMat r "G", kvRatMat r "H", kvRats r "x", kvRatMat r "S", kvNat r "n" with
    | some A, some C, some G, some H, some x, some S, some cnt =>
      let n := A.length
      let k := G.length
      let parseOp (i : Nat) : Option (KOp Rat) :=
        match kv r s!"op{i}" with
        | some "stat" => (kvRatMat r s!"Sg{i}").bind fun Sg => if dims Sg n n then some (.stat (matOf Sg)) else none
        | some "set" =>
          match kvRats r s!"x{i}", kvRatMat r s!"S{i}" with
          | some xi, some Si => if xi.length == n && dims Si n n then some (.setState (colOf xi) (matOf Si)) else none
          | _, _ => none
        | some "p2f" => (kvRats r s!"y{i}").bind fun y => if y.length == k then some (.p2f (colOf y)) else none
        | some "update" => (kvRats r s!"y{i}").bind fun y => if y.length == k then some (.update (colOf y)) else none
        | some "f2f" => some .f2f
        | _ => none
      match (List.range cnt).mapM parseOp with
      | some ops =>
        if ssOk A C G (some H) && x.length == n && dims S n n && cnt ≤ 64 then
          let tr := objTrace inv (matOf A) (matOf C) (matOf G) (matOf H) ⟨⟨colOf x, matOf S⟩, none, none⟩ ops
          let body := " ".intercalate (tr.1.zipIdx.map fun (o, t) =>
            s!"x{t}={showA o.st.xhat} S{t}={showA o.st.sigma} K{t}={match o.kInf with | some K => showA K | none => "-"}")
          if tr.2 then s!"ok {body}" else s!"ERR:LinAlgError step={tr.1.length} {body}"
        else "bad-op"
      | none => "bad-op"
    | _, _, _, _, _, _, _ => "bad-op"
  | "statgain" :: r =>
    match kvRatMat r "A", kvRatMat r "G", kvRatMat r "H", kvRatMat r "S" with
    | some A, some G, some H, some S =>
      let n := A.length
      if rect A && dims A n n && rect G && ncols G == n && rect H && H.length == G.length && dims S n n then
        match stationaryGain inv (matOf A) (matOf G) (matOf H) (matOf S) with
        | some K => s!"ok K={showA K} V={showA (innovationCovar (matOf G) (matOf H) (matOf S))}"
        | none => "ERR:LinAlgError"
      else "bad-op"
    | _, _, _, _ => "bad-op"
  | "simk" :: r =>
    match kvRatMat r "A", kvRats r "x0", kv r "v", kvNat r "ts" with
    | some A, some x0, some _, some ts =>
      let n := A.length
      match (if ts ≤ 1 then some (List.replicate n []) else kvRatMat r "v") with
      | some v =>
        if rect A && dims A n n && x0.length == n && dims v n (ts - 1) && ts ≥ 1 then
          s!"ok x={showE (simulateLinear (matOf A) (colOf x0) (M.mk n (ts - 1) (v.map List.toArray).toArray) ts)}"
        else "bad-op"
      | none => "bad-op"
    | _, _, _, _ => "bad-op"
  | "simkf" :: r =>
    match kvFloatMat r "A", kvFloats r "x0", kv r "v", kvNat r "ts" with
    | some A, some x0, some _, some ts =>
      let n := A.length
      match (if ts ≤ 1 then some (List.replicate n []) else kvFloatMat r "v") with
      | some v =>
        if rect A && dims A n n && x0.length == n && dims v n (ts - 1) && ts ≥ 1 then
          s!"ok x={showF (simulateLinear (matOf A) (colOf x0) (M.mk n (ts - 1) (v.map List.toArray).toArray) ts)}"
        else "bad-op"
      | none => "bad-op"
    | _, _, _, _ => "bad-op"
  | "simulate" :: r =>
    match kvRatMat r "A", kvRatMat r "C", kvRatMat r "G", optH r, kvRats r "x0", kvRats r "w",
          kvRats r "v2", kvNat r "ts" with
    | some A, some C, some G, some H, some x0, some w, some v2, some ts =>
      let n := A.length
      let m := ncols C
      let l := match H with | some H => ncols H | none => 0
      if ssOk A C G H && x0.length == n && ts ≥ 1 && w.length == m * (ts - 1) && v2.length == l * ts then
        let W : M Rat := M.mk m (ts - 1) ((chunk (ts - 1) m w).map List.toArray).toArray
        let V2 : M Rat := M.mk l ts ((chunk ts l v2).map List.toArray).toArray
        let o := simulate (matOf A) (matOf C) (matOf G) (H.map matOf) (colOf x0) W V2 ts
        s!"ok x={showE o.1} y={showE o.2}"
      else "bad-op"
    | _, _, _, _, _, _, _, _ => "bad-op"
  | "replicate" :: r =>
    match kvRatMat r "A", kvRatMat r "C", kvRatMat r "G", optH r, kvRatMat r "x0s", kv r "ws",
          kvRats r "v2", kvNat r "T" with
    | some A, some C, some G, some H, some x0s, some _, some v2, some T =>
      let n := A.length
      let m := ncols C
      let reps := x0s.length
      let l := match H with | some H => ncols H | none => 0
      match (if T == 0 then some (List.replicate reps []) else kvRatMat r "ws") with
      | some ws =>
        if ssOk A C G H && x0s.all (fun x => x.length == n) && ws.length == reps &&
            ws.all (fun w => w.length == m * T) && v2.length == l * reps && reps ≥ 1 then
          let draws := (x0s.zip ws).map fun (x0, w) =>
            (colOf x0, (M.mk m T ((chunk T m w).map List.toArray).toArray : M Rat))
          let V2 : M Rat := M.mk l reps ((chunk reps l v2).map List.toArray).toArray
          let o := replicate (matOf A) (matOf C) (matOf G) (H.map matOf) draws V2 T
          s!"ok x={showE o.1} y={showE o.2}"
        else "bad-op"
      | none => "bad-op"
    | _, _, _, _, _, _, _, _ => "bad-op"
  | "moments" :: r =>
    match kvRatMat r "A", kvRatMat r "C", kvRatMat r "G", optH r, kvRats r "mu0", kvRatMat r "S0", kvNat r "k" with
    | some A, some C, some G, some H, some mu0, some S0, some k =>
      let n := A.length
      if ssOk A C G H && mu0.length == n && dims S0 n n && k ≤ 64 then
        let ms := momentSeq (matOf A) (matOf C) (matOf G) (H.map matOf) (colOf mu0) (matOf S0) k
        "ok " ++ " ".intercalate (ms.zipIdx.map fun (m, t) =>
          s!"mx{t}={showE m.mux} my{t}={showE m.muy} Sx{t}={showE m.sigx} Sy{t}={showE m.sigy}")
      else "bad-op"
    | _, _, _, _, _, _, _ => "bad-op"
  | "impulse" :: r =>
    match kvRatMat r "A", kvRatMat r "C", kvRatMat r "G", kvInt r "j" with
    | some A, some C, some G, some j =>
      if ssOk A C G none && j ≤ 64 then
        let o := impulseResponse (matOf A) (matOf C) (matOf G) j.toNat
        s!"ok {showMats "xc" showE o.1} {showMats "yc" showE o.2}"
      else "bad-op"
    | _, _, _, _ => "bad-op"
  | "geosum" :: r =>
    match kvRatMat r "A", kvRatMat r "G", kvRat r "beta", kvRats r "x" with
    | some A, some G, some beta, some x =>
      let n := A.length
      if rect A && dims A n n && rect G && ncols G == n && x.length == n then
        match geometricSums solve (matOf A) (matOf G) beta (colOf x) with
        | some (Sx, Sy) => s!"ok Sx={showA Sx} Sy={showA Sy}"
        | none => "ERR:LinAlgError"
      else "bad-op"
    | _, _, _, _ => "bad-op"
  | "ctor" :: r =>
    -- LinearStateSpace(A, C, G, H, mu_0, Sigma_0) on 2-D inputs of ARBITRARY shapes
    let optM (key : String) : Option (Option (List (List Rat))) :=
      match kv r key with
      | none => some none
      | some "none" => some none
      | some _ => (kvRatMat r key).map some
    match kvRatMat r "A", kvRatMat r "C", kvRatMat r "G", optM "H", optM "mu0", optM "S0" with
    | some A, some C, some G, some H, some mu0, some S0 =>
      if rect A && rect C && rect G && (H.all rect) && (mu0.all rect) && (S0.all rect) then
        match lssCtor (matOf A) (matOf C) (matOf G) (H.map matOf) (mu0.map matOf) (S0.map matOf) with
        | .ok o n m k l =>
          let ls := match l with | some v => toString v | none => "none"
          s!"ok n={n} m={m} k={k} l={ls} mu0={showE o.mu0} S0={showE o.Sig0}"
        | .valueError w => s!"ERR:ValueError check={w}"
      else "bad-op"
    | _, _, _, _, _, _ => "bad-op"
  | "statcoef" :: r =>
    match kvRatMat r "A", kvRatMat r "G", kvRatMat r "K", kvInt r "j", kv r "type" with
    | some A, some G, some K, some j, some ty =>
      let n := A.length
      let k := G.length
      if rect A && dims A n n && rect G && ncols G == n && dims K n k && j ≤ 32 then
        match (if ty == "ma" then some CoefType.ma else if ty == "var" then some CoefType.var else none) with
        | some t => s!"ok {showMats "c" showE (stationaryCoefficients (matOf A) (matOf G) (matOf K) t j.toNat)}"
        | none => "ERR:ValueError"
      else "bad-op"
    | _, _, _, _, _ => "bad-op"
  | "partition" :: r =>
    match kvRatMat r "A", kvRatMat r "C" with
    | some A, some C =>
      let n := A.length
      if rect A && dims A n n && rect C && C.length == n then
        let p := partition (matOf A) (matOf C)
        s!"ok nc={p.numConst} idx={showList toString p.idx} P={showE p.P} A21={showE p.A21} A22={showE p.A22} C2={showE p.C2}"
      else "bad-op"
    | _, _ => "bad-op"
  | "statdist" :: r =>
    match kvRatMat r "A", kvRatMat r "C", kvRatMat r "G", optH r, kvRats r "mu0" with
    | some A, some C, some G, some H, some mu0 =>
      let n := A.length
      if ssOk A C G H && mu0.length == n then
        match stationaryDist solve lyapExact (matOf A) (matOf C) (matOf G) (H.map matOf) (colOf mu0) with
        | .ok mux muy sx sy syx =>
          s!"ok mx={showA mux} my={showA muy} Sx={showA sx} Sy={showA sy} Syx={showA syx}"
        | .linalg => "ERR:LinAlgError"
      else "bad-op"
    | _, _, _, _, _ => "bad-op"
  | _ => "bad-op"

end QE.C12
