/-
  QEModel.C04 — executable model for property C04 (stub; to be filled in).
-/
import QEModel.Base
namespace QE.C04

def handle (_toks : List String) : String := "bad-op"

end QE.C04
