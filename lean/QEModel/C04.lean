/-
  QEModel.C04 — executable model of `quantecon/optimize/linprog_simplex.py`
  (`linprog_simplex`, `_initialize_tableau`, `_set_criterion_row`,
  `solve_tableau`, `solve_phase_1`, `_pivot_col`, `get_solution`) and of
  `quantecon/optimize/minmax.py` (`minmax`), on top of the shared pivoting core
  `QEModel.Pivot` (`_pivoting`, `_lex_min_ratio_test`).

  Scalar-generic: the theorems of `QEProofs/Properties/C04.lean` read these
  definitions over an ordered field; the driver runs them at `Rat` (exact
  reference) and at `Float` (same operation order as the Numba kernels, so the
  bits coincide).  The three tolerances of `PivOptions` are parameters.
-/
import QEModel.Pivot
namespace QE.C04
open QE QE.Pivot

variable {α : Type} [Zero α] [One α] [Add α] [Sub α] [Mul α] [Div α] [Neg α] [LT α] [LE α]
  [DecidableLT α] [DecidableLE α] [BEq α]

/-- `PivOptions(fea_tol, tol_piv, tol_ratio_diff)` -/
structure Tol (α : Type) where
  fea : α
  piv : α
  diff : α

/-- the linear program  max c·x  s.t.  A_ub x ≤ b_ub, A_eq x = b_eq, x ≥ 0
    (`n` variables, `m` inequality rows, `k` equality rows) -/
structure LP (α : Type) where
  n : Nat
  m : Nat
  k : Nat
  c : Nat → α
  Aub : Nat → Nat → α
  bub : Nat → α
  Aeq : Nat → Nat → α
  beq : Nat → α

/-- result of `solve_tableau` / `solve_phase_1`: status, tableau, basis, number of iterations -/
structure Res (α : Type) where
  status : Nat
  T : M α
  basis : List Nat
  iters : Nat

/-! ### `_initialize_tableau` (linprog_simplex.py:388-425) -/

/-- entry `(i,j)` of a constraint row `i < L` of the Phase-1 tableau: rows with a
    negative right-hand side are negated (`*= -1`), the slack of a negated `≤` row
    gets `-1`, every row gets its own artificial variable -/
def initEntry (P : LP α) (i j : Nat) : α :=
  if i < P.m then
    if j < P.n then (if P.bub i < 0 then - P.Aub i j else P.Aub i j)
    else if j < P.n + P.m then
      (if j = P.n + i then (if P.bub i < 0 then -1 else 1) else 0)
    else if j < P.n + P.m + (P.m + P.k) then (if j = P.n + P.m + i then 1 else 0)
    else (if P.bub i < 0 then - P.bub i else P.bub i)
  else
    if j < P.n then (if P.beq (i - P.m) < 0 then - P.Aeq (i - P.m) j else P.Aeq (i - P.m) j)
    else if j < P.n + P.m then 0
    else if j < P.n + P.m + (P.m + P.k) then (if j = P.n + P.m + i then 1 else 0)
    else (if P.beq (i - P.m) < 0 then - P.beq (i - P.m) else P.beq (i - P.m))

/-- `acc = 0; for i in range(L): acc += f i` -/
def sumRows (L : Nat) (f : Nat → α) : α := (List.range L).foldl (fun acc i => acc + f i) 0

/-- the `(L+1) × (n+m+L+1)` Phase-1 tableau; the criterion row is the sum of the
    constraint rows on the non-artificial columns and on the right-hand side -/
def initTableau (P : LP α) : M α :=
  let L := P.m + P.k
  M.tab (L + 1) (P.n + P.m + L + 1) fun i j =>
    if i < L then initEntry P i j
    else if j < P.n + P.m ∨ j = P.n + P.m + L then sumRows L (fun i => initEntry P i j)
    else 0

/-- `basis[i] = n+m+i` -/
def initBasis (P : LP α) : List Nat := (List.range (P.m + P.k)).map (fun i => P.n + P.m + i)

/-- `b_signs[i] = (b[i] >= 0)` -/
def bSigns (P : LP α) : List Bool :=
  (List.range (P.m + P.k)).map fun i =>
    if i < P.m then decide (0 ≤ P.bub i) else decide (0 ≤ P.beq (i - P.m))

/-! ### `_pivot_col` (linprog_simplex.py:632-649) -/

/-- scan state of `_pivot_col`: best coefficient so far, its column -/
def pivotColStep (T : M α) (st : α × Option Nat) (j : Nat) : α × Option Nat :=
  if st.1 < T.get (T.nr - 1) j then (T.get (T.nr - 1) j, some j) else st

/-- largest-coefficient entering rule: the first column with the maximal criterion
    coefficient among those `> fea_tol`; artificial columns are skipped when `skipAux` -/
def pivotCol (T : M α) (skipAux : Bool) (feaTol : α) : Option Nat :=
  let stop := T.nc - 1 - (if skipAux then T.nr - 1 else 0)
  ((List.range stop).foldl (pivotColStep T) (feaTol, none)).2

/-! ### `solve_tableau` (linprog_simplex.py:525-556) -/

/-- `tableau[:-1, :]` — the view without the criterion row -/
def dropLast (T : M α) : M α := { T with nr := T.nr - 1 }

/-- the `while num_iter < max_iter` loop; the fuel is `max_iter` -/
def solveTableau (tol : Tol α) (skipAux : Bool) : Nat → M α → List Nat → Res α
  | 0, T, b => ⟨1, T, b, 0⟩
  | fuel + 1, T, b =>
    match pivotCol T skipAux tol.fea with
    | none => ⟨0, T, b, 1⟩
    | some c =>
      let pr := lexMinRatio (dropLast T) c (T.nc - (T.nr - 1) - 1) tol.piv tol.diff
      if pr.1 then
        let r := solveTableau tol skipAux fuel (pivot T c pr.2) (b.set pr.2 c)
        { r with iters := r.iters + 1 }
      else ⟨3, T, b, 1⟩

/-! ### `solve_phase_1` (linprog_simplex.py:572-600) -/

/-- first structural/slack column `j < nm` whose entry in row `i` is treated as non-zero -/
def cleanupCol (T : M α) (tolPiv : α) (nm i : Nat) : Option Nat :=
  (List.range nm).find? fun j => decide (T.get i j < - tolPiv) || decide (tolPiv < T.get i j)

/-- one row of the artificial-variable clean-up -/
def cleanupStep (tolPiv : α) (nm : Nat) (r : Res α) (i : Nat) : Res α :=
  if nm ≤ r.basis.getD i 0 then
    match cleanupCol r.T tolPiv nm i with
    | some j => ⟨r.status, pivot r.T j i, r.basis.set i j, r.iters + 1⟩
    | none => r
  else r

def solvePhase1 (tol : Tol α) (maxIter : Nat) (T : M α) (b : List Nat) : Res α :=
  let L := T.nr - 1
  let nm := T.nc - (L + 1)
  let r := solveTableau tol false maxIter T b
  if r.status ≠ 0 then r
  else if tol.fea < r.T.get (r.T.nr - 1) (r.T.nc - 1) then { r with status := 2 }
  else (List.range L).foldl (cleanupStep tol.piv nm) r

/-! ### `_set_criterion_row` (linprog_simplex.py:451-463) -/

/-- `multiplier = row[basis[i]]; row[j] -= tableau[i,j] * multiplier` for all `j` -/
def critStep (T : M α) (b : List Nat) (row : List α) (i : Nat) : List α :=
  let mult := row.getD (b.getD i 0) 0
  (List.range T.nc).map fun j => row.getD j 0 - T.get i j * mult

def critRow (c : Nat → α) (n : Nat) (b : List Nat) (T : M α) : List α :=
  (List.range (T.nr - 1)).foldl (critStep T b)
    ((List.range T.nc).map fun j => if j < n then c j else 0)

def setCriterionRow (c : Nat → α) (n : Nat) (b : List Nat) (T : M α) : M α :=
  let row := critRow c n b T
  M.tab T.nr T.nc fun i j => if i = T.nr - 1 then row.getD j 0 else T.get i j

/-! ### `get_solution` (linprog_simplex.py:683-697) -/

/-- `x[:] = 0; for i in range(L): if basis[i] < n: x[basis[i]] = tableau[i,-1]`
    (a later row overwrites an earlier one) -/
def basicValue (T : M α) (b : List Nat) (L j : Nat) : α :=
  match (List.range L).reverse.find? (fun i => b.getD i 0 == j) with
  | some i => T.get i (T.nc - 1)
  | none => 0

def getX (T : M α) (b : List Nat) (n : Nat) : List α :=
  (List.range n).map (basicValue T b (T.nr - 1))

/-- `lambd[j] = tableau[-1, aux_start+j]`, negated (`*= -1`) when non-zero and `b_signs[j]` -/
def getLambd (T : M α) (signs : List Bool) : List α :=
  let L := T.nr - 1
  (List.range L).map fun j =>
    let v := T.get L (T.nc - L - 1 + j)
    if v == 0 then v else if signs.getD j false then - v else v

/-- `fun = tableau[-1,-1] * (-1)` -/
def getFun (T : M α) : α := - T.get (T.nr - 1) (T.nc - 1)

/-! ### `linprog_simplex` (linprog_simplex.py:259-300) -/

/-! ### certificates read off the final tableaux (not in the code: they are what the
    theorems `status2_infeasible` / `status3_unbounded` are about, and what the harness
    verifies exactly against the LP data) -/

/-- Farkas vector from the optimal Phase-1 tableau: with `w_i = 1 + T[last, n+m+i]`
    (so that criterion row = Σ_i w_i · (initial row i) on the non-artificial columns),
    `y_i = -σ_i w_i` where `σ_i = -1` iff row `i` was negated.  Certifies infeasibility:
    `y_ub ≥ 0`, `A_ubᵀ y_ub + A_eqᵀ y_eq ≥ 0`, `b·y < 0`. -/
def farkas (P : LP α) (T : M α) : List α :=
  (List.range (P.m + P.k)).map fun i =>
    let w := 1 + T.get (T.nr - 1) (P.n + P.m + i)
    let neg := if i < P.m then decide (P.bub i < 0) else decide (P.beq (i - P.m) < 0)
    if neg then w else - w

/-- direction of unboundedness from a tableau whose entering column `c` has no positive
    entry: `d_c = 1`, `d_{basis[i]} = -T[i,c]`, `0` elsewhere (first `n` components) -/
def ray (T : M α) (b : List Nat) (n c : Nat) : List α :=
  (List.range n).map fun j =>
    if j = c then 1
    else match (List.range (T.nr - 1)).reverse.find? (fun i => b.getD i 0 == j) with
      | some i => - T.get i c
      | none => 0

structure SimplexResult (α : Type) where
  x : List α
  lambd : List α
  fn : Option α          -- `none` = the initial `-inf` (Phase 1 failed)
  status : Nat
  iters : Nat
  basis : List Nat
  cert : List α          -- status 2: Farkas vector; status 3 (Phase 2): ray; else empty

def linprogSimplex (P : LP α) (maxIter : Nat) (tol : Tol α) : SimplexResult α :=
  let r1 := solvePhase1 tol maxIter (initTableau P) (initBasis P)
  if r1.status ≠ 0 then
    ⟨[], [], none, r1.status, r1.iters, r1.basis, if r1.status = 2 then farkas P r1.T else []⟩
  else
    let T1 := setCriterionRow P.c P.n r1.basis r1.T
    let r2 := solveTableau tol true (maxIter - r1.iters) T1 r1.basis
    ⟨getX r2.T r2.basis P.n, getLambd r2.T (bSigns P), some (getFun r2.T), r2.status,
      r1.iters + r2.iters, r2.basis,
      if r2.status = 3 then
        match pivotCol r2.T true tol.fea with
        | some c => ray r2.T r2.basis P.n c
        | none => []
      else []⟩

/-! ### `minmax` (minmax.py:55-109) -/

/-- `A.min()` over an `m × n` array (`m, n ≥ 1`) -/
def matMin (A : Nat → Nat → α) (m n : Nat) : α :=
  (List.range m).foldl (fun acc i =>
    (List.range n).foldl (fun acc j => if A i j < acc then A i j else acc) acc) (A 0 0)

/-- `const = min_ * (-1) + 1` if `min_ <= 0`, else `0` -/
def mmConst (A : Nat → Nat → α) (m n : Nat) : α :=
  let mn := matMin A m n
  if mn ≤ 0 then mn * (-1) + 1 else 0

/-- the `(m+2) × (n+1+m+1)` tableau of the game LP  min v  s.t.  (A+const) y − v·1 + s = 0, 1·y = 1 -/
def mmTableau (A : Nat → Nat → α) (m n : Nat) : M α :=
  let cst := mmConst A m n
  M.tab (m + 2) (n + 1 + m + 1) fun i j =>
    if i < m then
      if j < n then A i j + cst
      else if j = n then -1
      else if j = n + 1 + i then 1
      else 0
    else if i = m then (if j < n ∨ j = n + 1 + m then 1 else 0)
    else (if j = n then -1 else 0)

/-- first row `i < m` maximising `tableau[i, 0]` -/
def mmPivRow (T : M α) (m : Nat) : Nat :=
  ((List.range m).foldl (fun (st : Nat × α) i =>
    if i = 0 then st else if st.2 < T.get i 0 then (i, T.get i 0) else st) (0, T.get 0 0)).1

structure MinmaxResult (α : Type) where
  v : α
  x : List α
  y : List α
  status : Nat
  iters : Nat

def minmax (A : Nat → Nat → α) (m n : Nat) (maxIter : Nat) (tol : Tol α) : MinmaxResult α :=
  let T0 := mmTableau A m n
  let pr := mmPivRow T0 m
  let T2 := pivot (pivot T0 n pr) 0 m
  let b0 := (((List.range (m + 1)).map fun i => n + 1 + i).set pr n).set m 0
  let r := solveTableau tol false (maxIter - 2) T2 b0
  let T := r.T
  let y := (List.range n).map (basicValue T r.basis (m + 1))
  let x := (List.range m).map fun j =>
    let v := T.get (m + 1) (n + 1 + j)
    if v == 0 then v else v * (-1)
  ⟨T.get (m + 1) (n + 1 + m) - mmConst A m n, x, y, r.status, r.iters⟩

/-! ### instrumented replay (branch counters for the correspondence run; not used in proofs).
    Same calls as `solveTableau` / `solvePhase1`; the harness checks that the replay ends in the
    same basis as the un-instrumented run. -/

structure Stats where
  pivots : Nat := 0        -- pivoting steps
  degenerate : Nat := 0    -- pivots whose leaving row has right-hand side 0
  ties : Nat := 0          -- ratio tests whose first pass left >= 2 rows (lexicographic passes used)
  colties : Nat := 0       -- entering-column choices with >= 2 columns at the maximal coefficient
  cleanup : Nat := 0       -- clean-up pivots after Phase 1
  artleft : Nat := 0       -- artificial variables still basic after the clean-up

def solveTableauStats (tol : Tol α) (skipAux : Bool) : Nat → M α → List Nat → Stats → Res α × Stats
  | 0, T, b, s => (⟨1, T, b, 0⟩, s)
  | fuel + 1, T, b, s =>
    match pivotCol T skipAux tol.fea with
    | none => (⟨0, T, b, 1⟩, s)
    | some c =>
      let D := dropLast T
      let pr := lexMinRatio D c (T.nc - (T.nr - 1) - 1) tol.piv tol.diff
      let a0 := minRatioNoTie D c (T.nc - 1) (List.range D.nr) tol.piv tol.diff
      let stop := T.nc - 1 - (if skipAux then T.nr - 1 else 0)
      let nmax := ((List.range stop).filter fun j => T.get (T.nr - 1) j == T.get (T.nr - 1) c).length
      let s := { s with ties := s.ties + (if a0.length ≥ 2 then 1 else 0),
                        colties := s.colties + (if nmax ≥ 2 then 1 else 0) }
      if pr.1 then
        let s := { s with pivots := s.pivots + 1,
                          degenerate := s.degenerate + (if T.get pr.2 (T.nc - 1) == 0 then 1 else 0) }
        let (r, s) := solveTableauStats tol skipAux fuel (pivot T c pr.2) (b.set pr.2 c) s
        ({ r with iters := r.iters + 1 }, s)
      else (⟨3, T, b, 1⟩, s)

def linprogStats (P : LP α) (maxIter : Nat) (tol : Tol α) : Nat × List Nat × Stats :=
  let T0 := initTableau P
  let L := T0.nr - 1
  let nm := T0.nc - (L + 1)
  let (r, s) := solveTableauStats tol false maxIter T0 (initBasis P) {}
  if r.status ≠ 0 then (r.status, r.basis, s)
  else if tol.fea < r.T.get (r.T.nr - 1) (r.T.nc - 1) then (2, r.basis, s)
  else
    let r1 := (List.range L).foldl (cleanupStep tol.piv nm) r
    let s := { s with cleanup := r1.iters - r.iters,
                      artleft := (r1.basis.filter fun j => nm ≤ j).length }
    let T1 := setCriterionRow P.c P.n r1.basis r1.T
    let (r2, s) := solveTableauStats tol true (maxIter - r1.iters) T1 r1.basis s
    (r2.status, r2.basis, s)

/-! ### work buffers as explicit inputs: `_initialize_tableau` writing into a caller-supplied
    `tableau=` array of the right shape, as the sequence of partial writes the code performs.
    `initTableauBuf_eq` (proofs) shows the previous content of the buffer is irrelevant. -/

/-- overwrite the cells selected by `inR`, keep the others -/
def writeRegion (old : M α) (inR : Nat → Nat → Bool) (f : Nat → Nat → α) : M α :=
  M.tab old.nr old.nc fun i j => if inR i j then f i j else old.get i j

def initTableauBuf (buf : M α) (P : LP α) : M α :=
  let L := P.m + P.k
  let N := P.n + P.m + L
  -- lines 388-393: copy A_ub, A_eq
  let t1 := writeRegion buf (fun i j => decide (i < L) && decide (j < P.n))
    (fun i j => if i < P.m then P.Aub i j else P.Aeq (i - P.m) j)
  -- line 395: tableau[:L, n:-1] = 0
  let t2 := writeRegion t1 (fun i j => decide (i < L) && decide (P.n ≤ j) && decide (j < N)) (fun _ _ => 0)
  -- lines 397-412: right-hand sides, sign flips, slack and artificial entries
  let t3 := writeRegion t2
    (fun i j => decide (i < L) && (decide (j < P.n) || decide (i < P.m ∧ j = P.n + i)
      || decide (j = P.n + P.m + i) || decide (j = N)))
    (fun i j =>
      let b := if i < P.m then P.bub i else P.beq (i - P.m)
      if j < P.n then (if b < 0 then - t2.get i j else t2.get i j)
      else if j = N then (if b < 0 then - b else b)
      else if j = P.n + P.m + i then 1
      else (if b < 0 then -1 else 1))
  -- lines 414-418: criterion row
  writeRegion t3 (fun i _ => i == L)
    (fun _ j => if j < P.n + P.m ∨ j = N then sumRows L (fun i => t3.get i j) else 0)

/-! ### lexicographic positivity of the rows (the hypothesis of the textbook termination
    argument for the lexicographic rule; `lexStartOK` is evaluated by the driver) -/

/-- the columns the ratio test looks at, in its order: right-hand side, then `ss .. ss+L-1` -/
def lexCols (L N ss : Nat) : List Nat := N :: (List.range L).map (· + ss)

/-- first non-zero entry of `u` along `cols` exists and is positive -/
def lexPosB (u : Nat → α) : List Nat → Bool
  | [] => false
  | j :: js => decide (0 < u j) || ((u j == 0) && lexPosB u js)

/-- every constraint row is lexicographically positive w.r.t. `(rhs, aux block)` -/
def lexRowsOK (T : M α) : Bool :=
  (List.range (T.nr - 1)).all fun i =>
    lexPosB (fun col => T.get i col) (lexCols (T.nr - 1) (T.nc - 1) (T.nc - (T.nr - 1) - 1))

/-- Phase 2 starts from lexicographically positive rows (vacuously true if Phase 1 failed) -/
def lexStartOK (P : LP α) (maxIter : Nat) (tol : Tol α) : Bool :=
  let r1 := solvePhase1 tol maxIter (initTableau P) (initBasis P)
  if r1.status ≠ 0 then true else lexRowsOK r1.T

/-- `solveTableau` with a record of the bases visited: reports whether a basis recurs
    (attack tool; not used in proofs) -/
def solveTableauSeen (tol : Tol α) (skipAux : Bool) :
    Nat → M α → List Nat → List (List Nat) → Nat × Nat × Bool
  | 0, _, _, seen => (1, seen.length, false)
  | fuel + 1, T, b, seen =>
    if seen.contains b then (1, seen.length, true)
    else
      match pivotCol T skipAux tol.fea with
      | none => (0, seen.length, false)
      | some c =>
        let pr := lexMinRatio (dropLast T) c (T.nc - (T.nr - 1) - 1) tol.piv tol.diff
        if pr.1 then solveTableauSeen tol skipAux fuel (pivot T c pr.2) (b.set pr.2 c) (b :: seen)
        else (3, seen.length, false)

/-- number of pivots of a `solveTableau` run whose pivot row is lexicographically negative at
    that moment (attack / statistics tool) -/
def countNegRowPivots (tol : Tol α) (skipAux : Bool) : Nat → M α → List Nat → Nat
  | 0, _, _ => 0
  | fuel + 1, T, b =>
    match pivotCol T skipAux tol.fea with
    | none => 0
    | some c =>
      let pr := lexMinRatio (dropLast T) c (T.nc - (T.nr - 1) - 1) tol.piv tol.diff
      if pr.1 then
        let neg := !(lexPosB (fun col => T.get pr.2 col)
          (lexCols (T.nr - 1) (T.nc - 1) (T.nc - (T.nr - 1) - 1)))
        (if neg then 1 else 0) + countNegRowPivots tol skipAux fuel (pivot T c pr.2) (b.set pr.2 c)
      else 0

/-- Phase 1, clean-up (counting pivots on negative elements), then Phase 2 with cycle detection:
    `(status, phase-2 pivots, cycled, lexStartOK, clean-up pivots, negative clean-up pivots)` -/
def lpCycle (P : LP α) (maxIter : Nat) (tol : Tol α) : Nat × Nat × Bool × Bool × Nat × Nat :=
  let T0 := initTableau P
  let L := T0.nr - 1
  let nm := T0.nc - (L + 1)
  let r := solveTableau tol false maxIter T0 (initBasis P)
  if r.status ≠ 0 then (r.status, 0, false, true, 0, 0)
  else if tol.fea < r.T.get (r.T.nr - 1) (r.T.nc - 1) then (2, 0, false, true, 0, 0)
  else
    let st := (List.range L).foldl (fun (acc : Res α × Nat) i =>
      let r' := cleanupStep tol.piv nm acc.1 i
      let neg := if r'.iters ≠ acc.1.iters then
          (match cleanupCol acc.1.T tol.piv nm i with
           | some j => if acc.1.T.get i j < 0 then 1 else 0
           | none => 0) else 0
      (r', acc.2 + neg)) (r, 0)
    let r1 := st.1
    let T1 := setCriterionRow P.c P.n r1.basis r1.T
    let res := solveTableauSeen tol true maxIter T1 r1.basis []
    (res.1, res.2.1, res.2.2, lexRowsOK r1.T, r1.iters - r.iters, st.2)

/-! ### `minmax`: the tableau handed to `solve_tableau` and the tie guard -/

/-- the tableau after `_pivoting(tableau, n, pivrow); _pivoting(tableau, 0, m)` (minmax.py:84-85) -/
def mmStartT (A : Nat → Nat → α) (m n : Nat) : M α :=
  pivot (pivot (mmTableau A m n) n (mmPivRow (mmTableau A m n) m)) 0 m

/-- the basis array built by minmax.py:87-89 -/
def mmBasisT (A : Nat → Nat → α) (m n : Nat) : List Nat :=
  (((List.range (m + 1)).map fun i => n + 1 + i).set (mmPivRow (mmTableau A m n) m) n).set m 0

/-- column 0 of `A` attains its maximum in exactly one row (the row `minmax` picks as `pivrow`) -/
def minmaxUniqueMax (A : Nat → Nat → α) (m n : Nat) : Bool :=
  let pr := mmPivRow (mmTableau A m n) m
  (List.range m).all fun i => decide (i = pr) || decide (A i 0 < A pr 0)

/-- the rows `solve_tableau` starts from inside `minmax` are lexicographically positive -/
def minmaxLexOK (A : Nat → Nat → α) (m n : Nat) : Bool := lexRowsOK (mmStartT A m n)

/-! ### line protocol -/

instance : Zero Float := ⟨0.0⟩
instance : One Float := ⟨1.0⟩

def fnOfList {β : Type} [Zero β] (l : List β) : Nat → β := fun i => l.getD i 0
def fnOfMat {β : Type} [Zero β] (l : List (List β)) : Nat → Nat → β :=
  let a := (l.map List.toArray).toArray
  fun i j => (a.getD i #[]).getD j 0

/-- scalar kit: how to parse and print at one scalar type -/
structure Sc (β : Type) where
  vec : List String → String → Option (List β)
  mat : List String → String → Option (List (List β))
  one : String → Option β
  shw : β → String

def scRat : Sc Rat := ⟨kvRats, kvRatMat, parseRat?, showRat⟩
def scFloat : Sc Float := ⟨kvFloats, kvFloatMat, parseFloat?, showFloatBits⟩

def rectangular {β : Type} (A : List (List β)) (rows cols : Nat) : Bool :=
  A.length == rows && A.all (fun r => r.length == cols)

section
variable {β : Type} [Zero β] [One β] [Add β] [Sub β] [Mul β] [Div β] [Neg β] [LT β] [LE β]
  [DecidableLT β] [DecidableLE β] [BEq β]

def kvTol (sc : Sc β) (r : List String) : Option (Tol β) :=
  match (kv r "fea").bind sc.one, (kv r "piv").bind sc.one, (kv r "diff").bind sc.one with
  | some f, some p, some d => some ⟨f, p, d⟩
  | _, _, _ => none

def kvTab (sc : Sc β) (r : List String) : Option (M β) :=
  match sc.mat r "T" with
  | some rows =>
    if rows.isEmpty then none
    else if rectangular rows rows.length (rows.headD []).length then some (M.ofRows rows) else none
  | none => none

def handleSc (sc : Sc β) (toks : List String) : String :=
  match toks with
  | "lp" :: r =>
    match kvNat r "n", kvNat r "m", kvNat r "k", sc.vec r "c", sc.mat r "Aub", sc.vec r "bub",
          sc.mat r "Aeq", sc.vec r "beq", kvNat r "maxiter", kvTol sc r with
    | some n, some m, some k, some c, some Aub, some bub, some Aeq, some beq, some mi, some tol =>
      if c.length == n && rectangular Aub m n && bub.length == m && rectangular Aeq k n
          && beq.length == k then
        let P : LP β := ⟨n, m, k, fnOfList c, fnOfMat Aub, fnOfList bub, fnOfMat Aeq, fnOfList beq⟩
        let res := linprogSimplex P mi tol
        s!"st={res.status} it={res.iters} fun={match res.fn with | some f => sc.shw f | none => "-inf"}" ++
        s!" x={showList sc.shw res.x} lam={showList sc.shw res.lambd} basis={showList toString res.basis} cert={showList sc.shw res.cert}"
      else "bad-op"
    | _, _, _, _, _, _, _, _, _, _ => "bad-op"
  | "lpstat" :: r =>
    match kvNat r "n", kvNat r "m", kvNat r "k", sc.vec r "c", sc.mat r "Aub", sc.vec r "bub",
          sc.mat r "Aeq", sc.vec r "beq", kvNat r "maxiter", kvTol sc r with
    | some n, some m, some k, some c, some Aub, some bub, some Aeq, some beq, some mi, some tol =>
      if c.length == n && rectangular Aub m n && bub.length == m && rectangular Aeq k n
          && beq.length == k then
        let P : LP β := ⟨n, m, k, fnOfList c, fnOfMat Aub, fnOfList bub, fnOfMat Aeq, fnOfList beq⟩
        let (st, b, s) := linprogStats P mi tol
        s!"st={st} basis={showList toString b} pivots={s.pivots} degenerate={s.degenerate} ties={s.ties}" ++
        s!" colties={s.colties} cleanup={s.cleanup} artleft={s.artleft}"
      else "bad-op"
    | _, _, _, _, _, _, _, _, _, _ => "bad-op"
  | "lpcycle" :: r =>
    match kvNat r "n", kvNat r "m", kvNat r "k", sc.vec r "c", sc.mat r "Aub", sc.vec r "bub",
          sc.mat r "Aeq", sc.vec r "beq", kvNat r "maxiter", kvTol sc r with
    | some n, some m, some k, some c, some Aub, some bub, some Aeq, some beq, some mi, some tol =>
      if c.length == n && rectangular Aub m n && bub.length == m && rectangular Aeq k n
          && beq.length == k then
        let P : LP β := ⟨n, m, k, fnOfList c, fnOfMat Aub, fnOfList bub, fnOfMat Aeq, fnOfList beq⟩
        let (st, piv, cyc, ok, cl, neg) := lpCycle P mi tol
        let r1 := solvePhase1 tol mi (initTableau P) (initBasis P)
        let negpiv := if r1.status ≠ 0 then 0 else
          countNegRowPivots tol true (min mi 5000) (setCriterionRow P.c P.n r1.basis r1.T) r1.basis
        s!"st={st} pivots={piv} cycled={showBool cyc} lexok={showBool ok} cleanup={cl} negcleanup={neg}" ++
        s!" lexstart={showBool (lexStartOK P mi tol)} negrowpivots={negpiv}"
      else "bad-op"
    | _, _, _, _, _, _, _, _, _, _ => "bad-op"
  | "tabcycle" :: r =>
    match kvTab sc r, kvNats r "basis", kv r "skip", kvNat r "maxiter", kvTol sc r with
    | some T, some b, some sk, some mi, some tol =>
      if (sk == "0" || sk == "1") && T.nr ≥ 1 && T.nr ≤ T.nc && b.length + 1 == T.nr then
        let res := solveTableauSeen tol (sk == "1") mi T b []
        s!"st={res.1} pivots={res.2.1} cycled={showBool res.2.2} lexok={showBool (lexRowsOK T)}"
      else "bad-op"
    | _, _, _, _, _ => "bad-op"
  | "init" :: r =>
    match kvNat r "n", kvNat r "m", kvNat r "k", sc.mat r "Aub", sc.vec r "bub",
          sc.mat r "Aeq", sc.vec r "beq" with
    | some n, some m, some k, some Aub, some bub, some Aeq, some beq =>
      if rectangular Aub m n && bub.length == m && rectangular Aeq k n && beq.length == k then
        let P : LP β := ⟨n, m, k, fun _ => 0, fnOfMat Aub, fnOfList bub, fnOfMat Aeq, fnOfList beq⟩
        match sc.mat r "buf" with
        | some rows =>
          if rectangular rows (m + k + 1) (n + m + (m + k) + 1) then
            s!"T={showMat sc.shw (initTableauBuf (M.ofRows rows) P).toRows} basis={showList toString (initBasis P)}"
          else "bad-op"
        | none =>
          s!"T={showMat sc.shw (initTableau P).toRows} basis={showList toString (initBasis P)}"
      else "bad-op"
    | _, _, _, _, _, _, _ => "bad-op"
  | "minmax" :: r =>
    match kvNat r "m", kvNat r "n", sc.mat r "A", kvNat r "maxiter", kvTol sc r with
    | some m, some n, some A, some mi, some tol =>
      if m ≥ 1 && n ≥ 1 && rectangular A m n then
        let res := minmax (fnOfMat A) m n mi tol
        s!"st={res.status} it={res.iters} v={sc.shw res.v} x={showList sc.shw res.x} y={showList sc.shw res.y}"
      else "bad-op"
    | _, _, _, _, _ => "bad-op"
  | "mmguard" :: r =>
    match kvNat r "m", kvNat r "n", sc.mat r "A", kvNat r "maxiter", kvTol sc r with
    | some m, some n, some A, some mi, some tol =>
      if m ≥ 1 && n ≥ 1 && rectangular A m n then
        let Af := fnOfMat A
        let res := solveTableauSeen tol false (mi - 2) (mmStartT Af m n) (mmBasisT Af m n) []
        s!"pivrow={mmPivRow (mmTableau Af m n) m} uniq={showBool (minmaxUniqueMax Af m n)}" ++
        s!" lexok={showBool (minmaxLexOK Af m n)} st={res.1} pivots={res.2.1} cycled={showBool res.2.2}"
      else "bad-op"
    | _, _, _, _, _ => "bad-op"
  | "solvetab" :: r =>
    match kvTab sc r, kvNats r "basis", kv r "skip", kvNat r "maxiter", kvTol sc r with
    | some T, some b, some sk, some mi, some tol =>
      if (sk == "0" || sk == "1") && T.nr ≥ 1 && T.nr ≤ T.nc && b.length + 1 == T.nr then
        let res := solveTableau tol (sk == "1") mi T b
        s!"st={res.status} it={res.iters} basis={showList toString res.basis} T={showMat sc.shw res.T.toRows}"
      else "bad-op"
    | _, _, _, _, _ => "bad-op"
  | "pivot" :: r =>
    match kvTab sc r, kvNat r "c", kvNat r "r" with
    | some T, some c, some rr =>
      if rr < T.nr && c < T.nc then showMat sc.shw (pivot T c rr).toRows else "bad-op"
    | _, _, _ => "bad-op"
  | "lexmin" :: r =>
    match kvTab sc r, kvNat r "c", kvNat r "ss", (kv r "piv").bind sc.one, (kv r "diff").bind sc.one with
    | some T, some c, some ss, some tp, some td =>
      if c < T.nc && ss + T.nr ≤ T.nc then
        let pr := lexMinRatio T c ss tp td
        s!"{showBool pr.1} {pr.2}"
      else "bad-op"
    | _, _, _, _, _ => "bad-op"
  | "pivcol" :: r =>
    match kvTab sc r, kv r "skip", (kv r "fea").bind sc.one with
    | some T, some sk, some fea =>
      if (sk == "0" || sk == "1") && T.nr ≤ T.nc then
        match pivotCol T (sk == "1") fea with
        | some c => s!"1 {c}"
        | none => "0 -1"
      else "bad-op"
    | _, _, _ => "bad-op"
  | _ => "bad-op"
end

def handle (toks : List String) : String :=
  match toks with
  | op :: "rat" :: r => handleSc scRat (op :: r)
  | op :: "float" :: r => handleSc scFloat (op :: r)
  | _ => "bad-op"

end QE.C04
