/-
  QEModel.C19 — closed-form statistics.
  Mirrors: quantecon/_inequality.py (lorenz_curve 10-53, gini_coefficient 56-83),
  quantecon/_ecdf.py (ECDF.__call__), quantecon/distributions.py (BetaBinomial mean/var/skew/pdf),
  quantecon/_arma.py (set_params 118-152, impulse_response 154-175, spectral_density 177-215),
  quantecon/_filter.py (hamilton_filter 36-57), quantecon/_estspec.py (smooth 9-68 for the
  rational windows 'flat' and 'bartlett', periodogram 71-111: the index set only).
  External routines are replaced by their meaning: `np.sort` = insertion sort, `np.cumsum`,
  `scipy.signal.dimpulse` = power-series division of a transfer function written in descending
  powers of z (`tfImpulse`), `scipy.signal.freqz` = polynomial evaluation at `e^{-iw}` given as an
  exact point `(c, -s)` of the unit circle, `np.linalg.solve` = exact Gauss–Jordan (`MatAlg.solve`),
  `np.convolve(…, 'valid')`. Not modelled: FFT, `exp`, `sqrt`, the cosine windows.
-/
import QEModel.Base
import QEModel.MatAlg
import QEModel.C16
namespace QE.C19
open QE

section arith
variable {α : Type} [Zero α] [One α] [Add α] [Sub α] [Mul α] [Div α] [Neg α] [NatCast α]
  [LT α] [LE α] [DecidableLT α] [DecidableLE α]

/-- `abs` -/
def absv (x : α) : α := if x < 0 then -x else x

/-! ### gini_coefficient -/

/-- `i_sum[i] = Σ_j |y_i − y_j|` (inner loop) -/
def giniRowSum (y : List α) (yi : α) : α := (y.map fun yj => absv (yi - yj)).sum

/-- `np.sum(i_sum)` -/
def giniNum (y : List α) : α := (y.map (giniRowSum y)).sum

/-- `2 * n * np.sum(y)` -/
def giniDen (y : List α) : α := (1 + 1) * (y.length : α) * y.sum

/-- `gini_coefficient(y)` (the quotient; a zero denominator raises in the code, see `handle`) -/
def gini (y : List α) : α := giniNum y / giniDen y

/-! ### lorenz_curve -/

def insertSorted (x : α) : List α → List α
  | [] => [x]
  | y :: ys => if x ≤ y then x :: y :: ys else y :: insertSorted x ys

/-- `np.sort` -/
def sortL (l : List α) : List α := l.foldr insertSorted []

/-- `np.cumsum` started from `acc` -/
def cumsumFrom : α → List α → List α
  | _, [] => []
  | acc, x :: xs => (acc + x) :: cumsumFrom (acc + x) xs

/-- `s = zeros(n+1); s[1:] = cumsum(sort(y))` -/
def lorenzS (y : List α) : List α := 0 :: cumsumFrom 0 (sortL y)

/-- `cum_people[i]` (index 0 is never written by the loop and stays 0) -/
def lorenzPeople (y : List α) : List α :=
  (List.range (y.length + 1)).map fun (i : Nat) => if i = 0 then 0 else (i : α) / (y.length : α)

/-- `cum_income[i] = s[i] / s[n]` -/
def lorenzIncome (y : List α) : List α :=
  let s := lorenzS y
  (List.range (y.length + 1)).map fun (i : Nat) => if i = 0 then 0 else s.getD i 0 / s.getD y.length 0

/-- trapezoid area under the Lorenz curve (proof-side / spec helper) -/
def lorenzArea (y : List α) : α :=
  let L := lorenzIncome y
  ((List.range y.length).map fun i => (L.getD i 0 + L.getD (i + 1) 0) / ((1 + 1) * (y.length : α))).sum

/-! ### shorrocks_index, rank_size -/

/-- `shorrocks_index(A) = (m − Σ_j a_jj)/(m − 1)`; `none` = the `ValueError` for a non-square matrix -/
def shorrocks (A : List (List α)) : Option α :=
  let m := A.length
  if m ≠ (A.headD []).length then none
  else some (((m : α) - ((List.range m).map fun i => (A.getD i []).getD i 0).sum) / ((m : α) - 1))

/-- `size_data` of `rank_size`: `(−sort(−data))[:k]` with `k = int(len(data)·c)` supplied by the caller -/
def rankSize (data : List α) (k : Nat) : List α := ((sortL data).reverse).take k

/-! ### ECDF -/

/-- `np.mean(observations <= a)` -/
def ecdf (obs : List α) (a : α) : α :=
  (((obs.filter fun o => decide (o ≤ a)).length : Nat) : α) / (obs.length : α)

/-! ### BetaBinomial -/

/-- rising factorial `a (a+1) … (a+k−1)` -/
def rising (a : α) : Nat → α
  | 0 => 1
  | k + 1 => rising a k * (a + (k : α))

/-- `binom(n,k) * beta(k+a, n−k+b) / beta(a,b)` written through rising factorials
    (`B(a+k, b+n−k)/B(a,b) = a^(k) b^(n−k) / (a+b)^(n)`): a rational function of `a, b`. -/
def bbPdf (n : Nat) (a b : α) (k : Nat) : α :=
  ((QE.C16.chooseFast n k : Nat) : α) * rising a k * rising b (n - k) / rising (a + b) n

def bbPdfList (n : Nat) (a b : α) : List α := (List.range (n + 1)).map (bbPdf n a b)

/-- `n * a / (a + b)` -/
def bbMean (n : Nat) (a b : α) : α := (n : α) * a / (a + b)

/-- `n*a*b*(a+b+n) / ((a+b)**2 * (a+b+1))` -/
def bbVar (n : Nat) (a b : α) : α :=
  (n : α) * a * b * (a + b + (n : α)) / ((a + b) * (a + b) * (a + b + 1))

/-- `t1 = (a+b+2n)(b−a)/(a+b+2)` of `skew` -/
def bbSkewT1 (n : Nat) (a b : α) : α :=
  (a + b + (1 + 1) * (n : α)) * (b - a) / (a + b + (1 + 1))

/-- the radicand of `t2 = sqrt((1+a+b)/(n a b (n+a+b)))` -/
def bbSkewT2sq (n : Nat) (a b : α) : α :=
  (1 + a + b) / ((n : α) * a * b * ((n : α) + a + b))

/-- `skew²` (the square root itself is not modelled) -/
def bbSkewSq (n : Nat) (a b : α) : α := bbSkewT1 n a b * bbSkewT1 n a b * bbSkewT2sq n a b

/-- k-th raw moment of the pdf -/
def bbMoment (n : Nat) (a b : α) (r : Nat) : α :=
  ((List.range (n + 1)).map fun (k : Nat) => (List.replicate r (k : α)).foldl (· * ·) 1 * bbPdf n a b k).sum

/-! ### ARMA -/

/-- `set_params`: `ma_poly = (1, θ)`, `ar_poly = (1, −φ)` padded with zeros up to `len(ma_poly)` when
    shorter. -/
def armaPolys (phi theta : List α) : List α × List α :=
  let ma := 1 :: theta
  let ar0 := 1 :: phi.map (fun x => -x)
  let ar := if ar0.length < ma.length then ar0 ++ List.replicate (ma.length - ar0.length) 0 else ar0
  (ma, ar)

/-- the system handed to `dimpulse`/`dlsim`: `ma_poly` padded with zeros up to `len(ar_poly)` -/
def impulsePolys (phi theta : List α) : List α × List α :=
  let p := armaPolys phi theta
  (p.1 ++ List.replicate (p.2.length - p.1.length) 0, p.2)

/-- generic "history" recursion: element `k` is `step (elements 0..k−1) k` -/
def unfoldHist (step : List α → Nat → α) : Nat → List α
  | 0 => []
  | n + 1 => unfoldHist step n ++ [step (unfoldHist step n) n]

/-- coefficient `k` of the power series `b(x)/a(x)` from the earlier coefficients `hs`:
    `(b_k − Σ_{i=1..k} a_i h_{k−i}) / a_0` -/
def divStep (b a : List α) (hs : List α) (k : Nat) : α :=
  (b.getD k 0 - ((List.range k).map fun i => a.getD (i + 1) 0 * hs.getD (k - 1 - i) 0).sum) / a.getD 0 0

/-- first `N` coefficients of `b(x)/a(x)` -/
def serDiv (b a : List α) (N : Nat) : List α := unfoldHist (divStep b a) N

/-- What SciPy means by the impulse response of the discrete transfer function `(num, den, dt)`:
    both lists are coefficients in *descending powers of z*, so `H(z) = z^{-(d−m)} · num(z⁻¹)/den(z⁻¹)`
    with `d+1 = len den`, `m+1 = len num`: a numerator shorter than the denominator is a delay.
    `none` = "Improper transfer function" (`len num > len den`). -/
def tfImpulse (num den : List α) (N : Nat) : Option (List α) :=
  if den.length < num.length then none
  else some (serDiv (List.replicate (den.length - num.length) 0 ++ num) den N)

/-- `ARMA.impulse_response(N)`: `dimpulse(sys, n=max(N, 2))` truncated to `[:N]` -/
def impulseResponse (phi theta : List α) (N : Nat) : Option (List α) :=
  let p := impulsePolys phi theta
  (tfImpulse p.1 p.2 (max N 2)).map (List.take N)

/-- the impulse response as it was before the repair of F6 (`ma_poly` not padded): kept for the
    theorem that explains the defect. -/
def impulseResponseUnpadded (phi theta : List α) (N : Nat) : Option (List α) :=
  let p := armaPolys phi theta
  tfImpulse p.1 p.2 N

/-- the MA(∞) coefficients by the ARMA recursion:
    `ψ_0 = 1`, `ψ_j = θ_j + Σ_{i=1..j} φ_i ψ_{j−i}` (`θ_j = 0` for `j > q`, `φ_i = 0` for `i > p`). -/
def psiStep (phi theta : List α) (hs : List α) (j : Nat) : α :=
  if j = 0 then 1
  else theta.getD (j - 1) 0 + ((List.range j).map fun i => phi.getD i 0 * hs.getD (j - 1 - i) 0).sum

def psi (phi theta : List α) (N : Nat) : List α := unfoldHist (psiStep phi theta) N

/-- `ARMA.simulation` with the shocks `eps` given: `dlsim` of the same padded system driven by `u = σ·eps`,
    i.e. the convolution `x_t = Σ_{j≤t} h_j u_{t−j}` with `h` the impulse response -/
def simulate (phi theta : List α) (sigma : α) (eps : List α) : Option (List α) :=
  (impulseResponse phi theta eps.length).map fun hh =>
    (List.range eps.length).map fun t =>
      ((List.range (t + 1)).map fun j => hh.getD j 0 * (sigma * eps.getD (t - j) 0)).sum

/-- truncated autocovariance `σ² Σ_{j<J} ψ_j ψ_{j+k}` -/
def acovTrunc (phi theta : List α) (sigma : α) (k J : Nat) : α :=
  let ps := psi phi theta (J + k)
  sigma * sigma * ((List.range J).map fun j => ps.getD j 0 * ps.getD (j + k) 0).sum

/-! complex numbers as pairs, for `freqz` at an exact point of the unit circle -/

def cmul (x y : α × α) : α × α := (x.1 * y.1 - x.2 * y.2, x.1 * y.2 + x.2 * y.1)
def cadd (x y : α × α) : α × α := (x.1 + y.1, x.2 + y.2)
def normSq (x : α × α) : α := x.1 * x.1 + x.2 * x.2

/-- `Σ_k coef[k] z^k` (Horner) -/
def polyEvalC (coef : List α) (z : α × α) : α × α :=
  coef.foldr (fun c acc => cadd (c, 0) (cmul z acc)) (0, 0)

/-- `spectral_density` at the frequency `w` with `(cos w, sin w) = (c, s)`:
    `h = ma(e^{-iw}) / ar(e^{-iw})`, `spect = h·conj(h)·σ²`. -/
def specDens (phi theta : List α) (sigma c s : α) : α :=
  let p := armaPolys phi theta
  sigma * sigma * normSq (polyEvalC p.1 (c, -s)) / normSq (polyEvalC p.2 (c, -s))

/-! ### hamilton_filter -/

/-- `X = ones((T−p−h+1, p+1)); X[:, j] = y[p−j : T−h−j+1]` -/
def hamX (y : List α) (h p : Nat) : M α :=
  M.tab (y.length + 1 - p - h) (p + 1) fun t j => if j = 0 then 1 else y.getD (p - j + t) 0

/-- `y[p+h−1 : T]` as a column -/
def hamTarget (y : List α) (h p : Nat) : M α :=
  M.tab (y.length + 1 - p - h) 1 fun t _ => y.getD (p + h - 1 + t) 0

/-- `X @ b` for a coefficient column `b` -/
def hamFit (y : List α) (h p : Nat) (b : M α) : List α :=
  (List.range (y.length + 1 - p - h)).map fun t => (MatAlg.mmul (hamX y h p) b).get t 0

/-- with `p`: `(cycle, trend)`; `none` entries are the `nan` prefix of length `p+h−1`. -/
def hamiltonP (y : List α) (h p : Nat) (b : M α) : List (Option α) × List (Option α) :=
  let fit := hamFit y h p b
  let trend : List (Option α) := List.replicate (p + h - 1) none ++ fit.map some
  let cycle := (List.range y.length).map fun t =>
    match trend.getD t none with
    | none => none
    | some v => some (y.getD t 0 - v)
  (cycle, trend)

/-- without `p`: `cycle = nan^h ++ (y[h:T] − y[0:T−h])`, `trend = y − cycle` -/
def hamiltonNoP (y : List α) (h : Nat) : List (Option α) × List (Option α) :=
  let cycle : List (Option α) :=
    List.replicate h none ++ (List.range (y.length - h)).map fun t => some (y.getD (h + t) 0 - y.getD t 0)
  let trend := (List.range cycle.length).map fun t =>
    match cycle.getD t none with
    | none => none
    | some c => some (y.getD t 0 - c)
  (cycle, trend)

/-! ### periodogram / smooth -/

/-- indices `j` of the Fourier frequencies `2πj/n` kept by `periodogram` (`[: int(n/2)+1]`) -/
def pgramIdx (n : Nat) : List Nat := List.range (min n (n / 2 + 1))

/-- `np.bartlett(M)`: `n = arange(1−M, M, 2)`; `where(n ≤ 0, 1 + n/(M−1), 1 − n/(M−1))` -/
def bartlett (m : Nat) : List α :=
  if m = 1 then [1] else
  (List.range m).map fun i =>
    -- n = 1 − M + 2 i
    if 2 * i + 1 ≤ m then 1 - (((m - 1 - 2 * i : Nat) : α)) / ((m - 1 : Nat) : α)
    else 1 - (((2 * i + 1 - m : Nat) : α)) / ((m - 1 : Nat) : α)

def flatWin (m : Nat) : List α := List.replicate m 1

/-- `np.convolve(w, s, mode='valid')` for `len w ≤ len s`:
    `out[i] = Σ_k w[k] s[i + len w − 1 − k]` -/
def convolveValid (w s : List α) : List α :=
  (List.range (s.length + 1 - w.length)).map fun i =>
    ((List.range w.length).map fun k => w.getD k 0 * s.getD (i + w.length - 1 - k) 0).sum

/-- the reflected extension `concatenate((x[:k][::-1], x, x[-k:][::-1]))` -/
def reflectPad (x : List α) (k : Nat) : List α :=
  (x.take k).reverse ++ x ++ (if k = 0 then x else x.drop (x.length - k)).reverse

inductive SmoothErr | tooShort | tooSmall
deriving Repr

/-- `smooth(x, window_len, window)` with the window given as a function of its length -/
def smooth (win : Nat → List α) (x : List α) (windowLen : Nat) : Except SmoothErr (List α) :=
  if x.length < windowLen then .error .tooShort
  else if windowLen < 3 then .error .tooSmall
  else
    let wl := if windowLen % 2 = 0 then windowLen + 1 else windowLen
    let k := wl / 2
    let s := reflectPad x k
    let w := win wl
    let tot := w.sum
    .ok (convolveValid (w.map fun v => v / tot) s)

/-! ### hamilton_filter: which calls succeed (shape / error branches of the glue)

`X = np.ones((T−p−h+1, p+1))` raises `ValueError` for a negative row count; with zero rows `XᵀX` is the zero matrix
and `np.linalg.solve` raises `LinAlgError`; `p = h = 0` makes `y[p+h−1:T] = y[−1:T]` a single element and the matrix
product raises `ValueError`. Without `p`, `y[h:T] − y[0:T−h]` broadcasts only for `h ≤ T`. -/

inductive HamStatus where
  | ok            -- no regression involved (p omitted): always succeeds
  | valueError
  | linAlgError   -- zero rows: the normal equations are `0·b = 0`
  | regress       -- at least one row: the outcome is that of the linear solve
deriving DecidableEq, Repr

def hamiltonGuard (T h : Nat) : Option Nat → HamStatus
  | none => if h ≤ T then .ok else .valueError
  | some p =>
    if p + h = 0 then .valueError
    else if T + 1 < p + h then .valueError
    else if T + 1 = p + h then .linAlgError
    else .regress

/-- `periodogram(x, window, window_len)` after the FFT (not modelled): the raw ordinates `I` — already cut to the
    `⌊n/2⌋+1` frequencies in `[0, π]` — are passed through `smooth`, whose `ValueError`s propagate -/
def periodogramWindowed (win : Nat → List α) (I : List α) (windowLen : Nat) : Except SmoothErr (List α) :=
  smooth win I windowLen

/-! ### the ARMA *object*: explicit state and histories

`ARMA` is a mutable object: `phi` / `theta` (property setters, each calling `set_params`), the plain attribute
`sigma`, and `set_params()` itself re-derive nothing but `ma_poly` / `ar_poly`, which are functions of the stored
parameters. The model's state is therefore just the triple `(phi, theta, sigma)`; every query is answered from the
*current* triple and changes nothing. -/

structure ArmaObj (α : Type) where
  phi : List α
  theta : List α
  sigma : α

inductive ArmaOp (α : Type) where
  | setPhi (l : List α)       -- `arma.phi = l`
  | setTheta (l : List α)     -- `arma.theta = l`
  | setSigma (x : α)          -- `arma.sigma = x`
  | setParams                 -- `arma.set_params()`
  | impulse (n : Nat)         -- `arma.impulse_response(n)`
  | spec (cs ss : List α)     -- `arma.spectral_density(...)` read at the points `e^{-iw} = (c, −s)`
  | acov (k J : Nat)          -- `arma.autocovariance(k)` (series truncated at `J` terms)
  | sim (eps : List α)        -- `arma.simulation(len eps)` with the shocks `eps`

/-- state after one operation (queries leave the object unchanged) -/
def armaUpd (o : ArmaObj α) : ArmaOp α → ArmaObj α
  | .setPhi l => { o with phi := l }
  | .setTheta l => { o with theta := l }
  | .setSigma x => { o with sigma := x }
  | _ => o

/-- answer of one operation (`none` for the re-parameterisations) -/
def armaAns (o : ArmaObj α) : ArmaOp α → Option (List α)
  | .impulse n => some ((impulseResponse o.phi o.theta n).getD [])
  | .spec cs ss => some ((cs.zip ss).map fun cs' => specDens o.phi o.theta o.sigma cs'.1 cs'.2)
  | .acov k J => some ((List.range k).map fun i => acovTrunc o.phi o.theta o.sigma i J)
  | .sim eps => some ((simulate o.phi o.theta o.sigma eps).getD [])
  | _ => none

/-- answers of a whole history, in order -/
def armaRun (o : ArmaObj α) : List (ArmaOp α) → List (List α)
  | [] => []
  | op :: ops => (armaAns o op).toList ++ armaRun (armaUpd o op) ops

end arith

/-! ### line protocol (instance `Rat`) -/

def showOpt (o : Option Rat) : String :=
  match o with
  | none => "nan"
  | some q => showRat q

def ratCol (l : List Rat) : M Rat := M.tab l.length 1 fun i _ => l.getD i 0

/-- exact OLS coefficients of `hamilton_filter` (normal equations solved by Gauss–Jordan) -/
def hamOLS (y : List Rat) (h p : Nat) : Option (M Rat) :=
  let X := hamX y h p
  let Xt := MatAlg.mT X
  MatAlg.solve (MatAlg.mmul Xt X) (MatAlg.mmul Xt (hamTarget y h p))

section floatInst
/-- `Float` has no `Zero`/`One`/`NatCast` in core; `Float.ofNat` is exact below 2^53. -/
local instance : Zero Float := ⟨0.0⟩
local instance : One Float := ⟨1.0⟩
local instance : NatCast Float := ⟨Float.ofNat⟩

/-- `lorenz_curve` at `Float` (trace fidelity: same operation order as the Numba loop ⇒ same bits) -/
def lorenzFloat (y : List Float) : List Float × List Float := (lorenzPeople y, lorenzIncome y)

/-- `hamilton_filter(y, h)` (no `p`) at `Float` -/
def hamiltonNoPFloat (y : List Float) (h : Nat) : List (Option Float) × List (Option Float) := hamiltonNoP y h
end floatInst

def showOptF (o : Option Float) : String :=
  match o with
  | none => "nan"
  | some f => showFloatBits f


/-- one operation of an ARMA history on the wire: `sp:<rats>`, `st:<rats>`, `ss:<rat>`, `par`, `imp:<n>`,
    `spec:<cs>:<ss>`, `acov:<k>:<J>`, `sim:<rats>` -/
def parseArmaOp (t : String) : Option (ArmaOp Rat) :=
  match t.splitOn ":" with
  | ["sp", l] => (parseList? parseRat? l).map .setPhi
  | ["st", l] => (parseList? parseRat? l).map .setTheta
  | ["ss", x] => (parseRat? x).map .setSigma
  | ["par"] => some .setParams
  | ["imp", n] => n.toNat?.map .impulse
  | ["spec", c, s] =>
    match parseList? parseRat? c, parseList? parseRat? s with
    | some cs, some ss => if cs.length = ss.length then some (.spec cs ss) else none
    | _, _ => none
  | ["acov", k, j] =>
    match k.toNat?, j.toNat? with
    | some k, some j => some (.acov k j)
    | _, _ => none
  | ["sim", l] => (parseList? parseRat? l).map .sim
  | _ => none

def handle (toks : List String) : String :=
  match toks with
  | "history" :: r =>
    match kvRats r "phi", kvRats r "theta", kvRat r "sigma", kv r "ops" with
    | some phi, some theta, some sg, some ops =>
      match (ops.splitOn ";").mapM parseArmaOp with
      | some l => "|".intercalate ((armaRun ⟨phi, theta, sg⟩ l).map (showList showRat))
      | none => "bad-op"
    | _, _, _, _ => "bad-op"
  | "lorenz_float" :: r =>
    match kvFloats r "y" with
    | some y =>
      let (p, i) := lorenzFloat y
      showList showFloatBits p ++ "|" ++ showList showFloatBits i
    | none => "bad-op"
  | "hamilton_float" :: r =>
    match kvFloats r "y", kvNat r "h" with
    | some y, some h =>
      if y.length < h then "bad-op" else
      let (c, t) := hamiltonNoPFloat y h
      showList showOptF c ++ "|" ++ showList showOptF t
    | _, _ => "bad-op"
  | "gini" :: r =>
    match kvRats r "y" with
    | some y => if giniDen y == 0 then "ERR:ZeroDivisionError" else showRat (gini y)
    | none => "bad-op"
  | "lorenz" :: r =>
    match kvRats r "y" with
    | some y =>
      if y.length ≠ 0 ∧ (lorenzS y).getD y.length 0 == 0 then "ERR:ZeroDivisionError"
      else showList showRat (lorenzPeople y) ++ "|" ++ showList showRat (lorenzIncome y)
           ++ "|" ++ showRat (lorenzArea y)
    | none => "bad-op"
  | "ecdf" :: r =>
    match kvRats r "obs", kvRats r "x" with
    | some obs, some x => if obs.isEmpty then "bad-op" else showList showRat (x.map (ecdf obs))
    | _, _ => "bad-op"
  | "bb" :: r =>
    match kvNat r "n", kvRat r "a", kvRat r "b" with
    | some n, some a, some b =>
      if a ≤ 0 ∨ b ≤ 0 then "bad-op" else
      let t1 := bbSkewT1 n a b
      showRat (bbMean n a b) ++ "|" ++ showRat (bbVar n a b) ++ "|" ++
      (if n = 0 then "nan" else showRat (bbSkewSq n a b)) ++ "|" ++
      (if t1 < 0 then "-1" else if 0 < t1 then "1" else "0") ++ "|" ++
      showList showRat (bbPdfList n a b)
    | _, _, _ => "bad-op"
  | "polys" :: r =>
    match kvRats r "phi", kvRats r "theta" with
    | some phi, some theta =>
      let p := armaPolys phi theta
      showList showRat p.1 ++ "|" ++ showList showRat p.2
    | _, _ => "bad-op"
  | "impulse" :: r =>
    match kvRats r "phi", kvRats r "theta", kvNat r "n" with
    | some phi, some theta, some n =>
      match impulseResponse phi theta n with
      | some l => showList showRat l
      | none => "ERR:ValueError"
    | _, _, _ => "bad-op"
  | "impulse_unpadded" :: r =>
    match kvRats r "phi", kvRats r "theta", kvNat r "n" with
    | some phi, some theta, some n =>
      match impulseResponseUnpadded phi theta n with
      | some l => showList showRat l
      | none => "ERR:ValueError"
    | _, _, _ => "bad-op"
  | "psi" :: r =>
    match kvRats r "phi", kvRats r "theta", kvNat r "n" with
    | some phi, some theta, some n => showList showRat (psi phi theta n)
    | _, _, _ => "bad-op"
  | "acov" :: r =>
    match kvRats r "phi", kvRats r "theta", kvRat r "sigma", kvNat r "k", kvNat r "J" with
    | some phi, some theta, some sg, some k, some J => showRat (acovTrunc phi theta sg k J)
    | _, _, _, _, _ => "bad-op"
  | "specdens" :: r =>
    match kvRats r "phi", kvRats r "theta", kvRat r "sigma", kvRats r "c", kvRats r "s" with
    | some phi, some theta, some sg, some cs, some ss =>
      if cs.length ≠ ss.length then "bad-op" else
      showList showRat ((cs.zip ss).map fun (c, s) => specDens phi theta sg c s)
    | _, _, _, _, _ => "bad-op"
  | "hamilton" :: r =>
    match kvRats r "y", kvNat r "h", kv r "p" with
    | some y, some h, some ps =>
      if ps = "none" then
        match hamiltonGuard y.length h none with
        | .ok =>
          let (c, t) := hamiltonNoP y h
          showList showOpt c ++ "|" ++ showList showOpt t
        | _ => "ERR:ValueError"
      else
        match ps.toNat? with
        | none => "bad-op"
        | some p =>
          match hamiltonGuard y.length h (some p) with
          | .valueError => "ERR:ValueError"
          | .linAlgError => "ERR:LinAlgError"
          | .ok => "bad-op"
          | .regress =>
            match hamOLS y h p with
            | none => "ERR:LinAlgError"
            | some b =>
              let (c, t) := hamiltonP y h p b
              showList showOpt c ++ "|" ++ showList showOpt t
    | _, _, _ => "bad-op"
  | "simulate" :: r =>
    match kvRats r "phi", kvRats r "theta", kvRat r "sigma", kvRats r "eps" with
    | some phi, some theta, some sg, some eps =>
      match simulate phi theta sg eps with
      | some l => showList showRat l
      | none => "ERR:ValueError"
    | _, _, _, _ => "bad-op"
  | "shorrocks" :: r =>
    match kvRatMat r "A" with
    | some A =>
      if A.length < 2 ∨ A.any (fun row => row.length ≠ (A.headD []).length) then "bad-op" else
      match shorrocks A with
      | some v => showRat v
      | none => "ERR:ValueError"
    | none => "bad-op"
  | "ranksize" :: r =>
    match kvRats r "data", (kv r "c").bind parseFloat? with
    | some data, some c =>
      -- `int(len(w) * c)`: the product is a *double* product (50 * 0.3 rounds to 15.0), then truncation
      if c < 0 ∨ c.isNaN ∨ c.isInf then "bad-op" else
      let k := (Float.ofNat data.length * c).floor.toUInt64.toNat
      let sz := rankSize data k
      showList toString ((List.range sz.length).map (· + 1)) ++ "|" ++ showList showRat sz
    | _, _ => "bad-op"
  | "pgram_window" :: r =>
    match kvRats r "I", kvNat r "wl", kv r "window" with
    | some I, some wl, some wn =>
      let res :=
        if wn = "flat" then some (periodogramWindowed flatWin I wl)
        else if wn = "bartlett" then some (periodogramWindowed bartlett I wl)
        else none
      match res with
      | none => "bad-op"
      | some (.ok l) => showList showRat l
      | some (.error .tooShort) => "ERR:ValueError:short"
      | some (.error .tooSmall) => "ERR:ValueError:small"
    | _, _, _ => "bad-op"
  | "pgram" :: r =>
    match kvNat r "n" with
    | some n => showList toString (pgramIdx n)
    | none => "bad-op"
  | "smooth" :: r =>
    match kvRats r "x", kvNat r "wl", kv r "window" with
    | some x, some wl, some wn =>
      let res :=
        if wn = "flat" then some (smooth flatWin x wl)
        else if wn = "bartlett" then some (smooth bartlett x wl)
        else none
      match res with
      | none => "bad-op"
      | some (.ok l) => showList showRat l
      | some (.error .tooShort) => "ERR:ValueError:short"
      | some (.error .tooSmall) => "ERR:ValueError:small"
    | _, _, _ => "bad-op"
  | _ => "bad-op"

end QE.C19
