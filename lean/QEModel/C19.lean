/-
  QEModel.C19 — executable model for property C19 (stub; to be filled in).
-/
import QEModel.Base
namespace QE.C19

def handle (_toks : List String) : String := "bad-op"

end QE.C19
