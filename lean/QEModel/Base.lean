/-
  QEModel.Base — shared, import-free infrastructure for the executable models:
  total matrices (`M`, `tab`, `get`), exact conversion between IEEE-754 bit
  patterns and `Rat`, and the tokeniser / printers of the line protocol.
  Nothing here imports Mathlib, so the driver links as a native executable.
-/
namespace QE

/-! ### total matrices -/

structure M (α : Type) where
  nr : Nat
  nc : Nat
  rows : Array (Array α)
deriving Repr

namespace M
variable {α : Type}

def tab (n m : Nat) (f : Nat → Nat → α) : M α :=
  ⟨n, m, Array.ofFn (n := n) fun i => Array.ofFn (n := m) fun j => f i.1 j.1⟩

def get [Zero α] (T : M α) (i j : Nat) : α := (T.rows.getD i #[]).getD j 0

def ofRows (rs : List (List α)) : M α :=
  ⟨rs.length, (rs.headD []).length, (rs.map List.toArray).toArray⟩

def toRows (T : M α) : List (List α) := T.rows.toList.map Array.toList

theorem get_tab [Zero α] (n m : Nat) (f : Nat → Nat → α) (i j : Nat) (hi : i < n) (hj : j < m) :
    (tab n m f).get i j = f i j := by
  simp [tab, get, Array.getD, hi, hj]

end M

/-- total vector read -/
def vget {α : Type} [Zero α] (v : Array α) (i : Nat) : α := v.getD i 0

/-! ### doubles as exact rationals -/

/-- `2^e` as a rational, `e` any integer. -/
def pow2 (e : Int) : Rat :=
  if e ≥ 0 then ((2 ^ e.toNat : Nat) : Rat) else 1 / ((2 ^ (-e).toNat : Nat) : Rat)

/-- The exact rational denoted by a finite IEEE-754 binary64 bit pattern;
    `none` for infinities and NaN. -/
def ratOfBits (b : UInt64) : Option Rat :=
  let n := b.toNat
  let sign : Rat := if n / 2 ^ 63 = 1 then -1 else 1
  let ex : Nat := (n / 2 ^ 52) % 2048
  let man : Nat := n % 2 ^ 52
  let manN : Nat := man + 2 ^ 52
  if ex = 2047 then none
  else if ex = 0 then some (sign * (man : Rat) * pow2 (-1074))
  else some (sign * (manN : Rat) * pow2 ((ex : Int) - 1075))

/-- classification of a double for `-inf` handling -/
inductive FCls | fin (q : Rat) | pinf | ninf | nan
deriving Repr

def clsOfBits (b : UInt64) : FCls :=
  match ratOfBits b with
  | some q => .fin q
  | none =>
    let n := b.toNat
    if n % 2 ^ 52 ≠ 0 then .nan else if n / 2 ^ 63 = 1 then .ninf else .pinf

/-! ### tokeniser -/

def hexDigit? (c : Char) : Option Nat :=
  if '0' ≤ c ∧ c ≤ '9' then some (c.toNat - '0'.toNat)
  else if 'a' ≤ c ∧ c ≤ 'f' then some (c.toNat - 'a'.toNat + 10)
  else if 'A' ≤ c ∧ c ≤ 'F' then some (c.toNat - 'A'.toNat + 10)
  else none

def parseHex? (s : String) : Option Nat :=
  if s.isEmpty then none else
  s.toList.foldl (fun acc c => match acc, hexDigit? c with
    | some a, some d => some (a * 16 + d)
    | _, _ => none) (some 0)

/-- a double on the wire: `x` followed by 16 hex digits -/
def parseBits? (s : String) : Option UInt64 :=
  match s.toList with
  | 'x' :: rest => (parseHex? (String.ofList rest)).map UInt64.ofNat
  | _ => none

def parseFloat? (s : String) : Option Float := (parseBits? s).map Float.ofBits

/-- a rational on the wire: `p/q`, `p`, or a double `x…` (converted exactly) -/
def parseRat? (s : String) : Option Rat :=
  match s.toList with
  | 'x' :: _ => (parseBits? s).bind ratOfBits
  | _ =>
    match s.splitOn "/" with
    | [p] => p.toInt?.map (fun (z : Int) => (z : Rat))
    | [p, q] => match p.toInt?, q.toNat? with
      | some a, some b => if b = 0 then none else some ((a : Rat) / (b : Rat))
      | _, _ => none
    | _ => none

def parseList? {β : Type} (p : String → Option β) (s : String) : Option (List β) :=
  if s = "" ∨ s = "-" then some [] else (s.splitOn ",").mapM p

def parseMat? {β : Type} (p : String → Option β) (s : String) : Option (List (List β)) :=
  if s = "" ∨ s = "-" then some [] else (s.splitOn ";").mapM (parseList? p)

def parseInt? (s : String) : Option Int := s.toInt?
def parseNat? (s : String) : Option Nat := s.toNat?

/-- `key=value` lookup among the tokens of a line -/
def kv (toks : List String) (key : String) : Option String :=
  toks.findSome? fun t =>
    match t.splitOn "=" with
    | k :: rest => if k = key then some ("=".intercalate rest) else none
    | _ => none

def kvNat (toks : List String) (key : String) : Option Nat := (kv toks key).bind parseNat?
def kvInt (toks : List String) (key : String) : Option Int := (kv toks key).bind parseInt?
def kvRat (toks : List String) (key : String) : Option Rat := (kv toks key).bind parseRat?
def kvInts (toks : List String) (key : String) : Option (List Int) := (kv toks key).bind (parseList? parseInt?)
def kvNats (toks : List String) (key : String) : Option (List Nat) := (kv toks key).bind (parseList? parseNat?)
def kvRats (toks : List String) (key : String) : Option (List Rat) := (kv toks key).bind (parseList? parseRat?)
def kvRatMat (toks : List String) (key : String) : Option (List (List Rat)) := (kv toks key).bind (parseMat? parseRat?)
def kvIntMat (toks : List String) (key : String) : Option (List (List Int)) := (kv toks key).bind (parseMat? parseInt?)
def kvNatMat (toks : List String) (key : String) : Option (List (List Nat)) := (kv toks key).bind (parseMat? parseNat?)
def kvFloats (toks : List String) (key : String) : Option (List Float) := (kv toks key).bind (parseList? parseFloat?)
def kvFloatMat (toks : List String) (key : String) : Option (List (List Float)) := (kv toks key).bind (parseMat? parseFloat?)

/-! ### printers (canonical forms) -/

def showRat (q : Rat) : String :=
  if q.den = 1 then toString q.num else toString q.num ++ "/" ++ toString q.den

def hexOfNat (n : Nat) (width : Nat) : String :=
  let ds := (Nat.toDigits 16 n)
  String.ofList (List.replicate (width - ds.length) '0' ++ ds)

def showFloatBits (f : Float) : String := "x" ++ hexOfNat f.toBits.toNat 16

def showList {β : Type} (f : β → String) (l : List β) : String :=
  if l.isEmpty then "-" else ",".intercalate (l.map f)

def showMat {β : Type} (f : β → String) (l : List (List β)) : String :=
  if l.isEmpty then "-" else ";".intercalate (l.map (showList f))

def showBool (b : Bool) : String := if b then "1" else "0"

end QE
