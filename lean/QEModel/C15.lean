/-
  QEModel.C15 — executable model for property C15 (stub; to be filled in).
-/
import QEModel.Base
namespace QE.C15

def handle (_toks : List String) : String := "bad-op"

end QE.C15
